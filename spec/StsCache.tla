------------------------------ MODULE StsCache ------------------------------
(***************************************************************************)
(* Design specification of the MTA-STS policy cache used by maddy's        *)
(* mx_auth.mtasts (extension X02).                                         *)
(*                                                                         *)
(* Code it describes:                                                      *)
(*   github.com/foxcpp/go-mtasts (version pinned by /repo/go.mod)          *)
(*     cache.go        Cache.Get, Cache.Refresh, Cache.fetch, downloadPolicy*)
(*     cache_store.go  fsStore / ramStore (List, Store, Load)              *)
(*   /repo/internal/target/remote/security.go                              *)
(*     mtastsPolicy.Init (cache fs|ram, fs_dir), StartUpdater/updater      *)
(*     (Refresh at start-up and every 12 h), Close                         *)
(*                                                                         *)
(* One action per call into the cache (Get, one run of the refresh loop),  *)
(* per change of what the recipient domain publishes, per clock advance,   *)
(* per restart of the module on the same configuration and per damage to a *)
(* cache file.  What the sender's resolver / HTTPS client / store write    *)
(* experience during a call is the fault `flt` of that call:               *)
(*   "ok"     everything works, the TXT answer is what the domain publishes*)
(*   "temp"   TXT lookup fails temporarily (SERVFAIL, time-out)            *)
(*   "perm"   TXT lookup fails with NXDOMAIN                               *)
(*   "multi"  the resolver returns several records                         *)
(*   "bad"    the resolver returns one syntactically invalid record        *)
(*   "http"   TXT is fine, the policy cannot be fetched (status, redirect, *)
(*            content type, transport error, malformed body)               *)
(*   "store"  TXT and policy are fine, writing the cache entry fails       *)
(*                                                                         *)
(* Time is in hours.  Deviations of the code (constant Devs):               *)
(*   "StoreFailCached"    fetch returns the *cached* policy variable (nil   *)
(*                        or expired or outdated) when Store.Store fails   *)
(*                        although it holds the freshly fetched one         *)
(*   "NullPolicyCrash"    a cache file that decodes without a Policy object *)
(*                        makes fetch dereference nil                       *)
(*   "UpdaterNotStarted"  nothing in maddy calls StartUpdater: in the       *)
(*                        production life-cycle the refresh loop never runs *)
(*   "HalfWindow"         Refresh re-fetches entries expiring within 6 h    *)
(*                        while it runs every 12 h: an entry expiring 6-12 h*)
(*                        after a run is stale until the next run           *)
(***************************************************************************)
EXTENDS StsCacheObs, TLC, Json

CONSTANTS Domains,     \* recipient domains
          Ids,         \* TXT ids a domain may publish
          Vers,        \* versions (contents) of the policy body
          Ages,        \* max_age values in hours
          Dts,         \* clock steps in hours
          MaxT,        \* horizon in hours
          MaxSteps,    \* actions per behaviour
          GetFaults,   \* faults tried on Get
          RefFaults,   \* faults tried per domain on a refresh run
          Kinds,       \* cache kinds: "fs", "ram"
          Lifes,       \* life-cycles: "prod" (Init only, as maddy does), "test" (Init + StartUpdater)
          Damages,     \* kinds of damage to a cache file: "junk", "nullpol"
          Devs,
          Gen

VARIABLES cfg,      \* [kind, life]
          now,
          pub,      \* what each domain publishes: [txt, pol]
          store,    \* the cache store: one entry record per domain
          nextRef,  \* when the refresh loop runs next (NoRef: it is not running)
          obs,
          taken,    \* deviations this behaviour actually used
          n,
          hist

vars == <<cfg, now, pub, store, nextRef, obs, taken, n, hist>>
View == <<cfg, now, pub, store, nextRef, obs, taken, n>>

Policies == [ver : Vers, age : Ages]
Txts == Ids \cup {"none"}
H(e) == IF Gen THEN Append(hist, e) ELSE hist

LoopRuns(c) == ~(c.life = "prod" /\ "UpdaterNotStarted" \in Devs)
Window == IF "HalfWindow" \in Devs THEN DocWindow ELSE Period

InitWith(c) ==
  /\ cfg = c
  /\ now = 0
  /\ pub = [d \in Domains |-> [txt |-> "none", pol |-> NoPol]]
  /\ store = [d \in Domains |-> NoEnt]
  /\ nextRef = IF LoopRuns(c) THEN 0 ELSE NoRef
  /\ obs = ObsInit(Domains, TRUE)
  /\ taken = IF LoopRuns(c) THEN {} ELSE {"UpdaterNotStarted"}
  /\ n = 0
  /\ hist = <<>>

Init == \E c \in [kind : Kinds, life : Lifes] : InitWith(c)

Due == nextRef <= now

(***************************************************************************)
(* Cache.fetch for domain d, judged against horizon h (now for Get,        *)
(* now + Window for the refresh loop), under fault flt.                    *)
(* Result: [res, ent (store entry afterwards), req (policy host asked),    *)
(*          tk (deviations used)]                                          *)
(***************************************************************************)
Fetch(d, h, flt) ==
  LET ent    == store[d]
      v      == ValidAt(ent, h)
      seenT  == IF flt \in TxtFaults THEN flt ELSE pub[d].txt
      cached == PolicyRes(ent.pol)
      new    == pub[d].pol
      R(res, e, req, tk) == [res |-> res, ent |-> e, req |-> req, tk |-> tk]
  IN
  IF ent.k = "nullpol" /\ "NullPolicyCrash" \in Devs THEN R(PanicRes, ent, FALSE, {"NullPolicyCrash"})
  ELSE IF ~IsId(seenT) THEN
         R(IF v THEN cached ELSE IF seenT = "temp" THEN TempErr ELSE NoPolicy, ent, FALSE, {})
  ELSE IF v /\ seenT = ent.id THEN R(cached, ent, FALSE, {})
  ELSE IF flt = "http" THEN R(IF v THEN cached ELSE NoPolicy, ent, TRUE, {})
  ELSE IF flt = "store" THEN
         IF "StoreFailCached" \in Devs
         THEN R(IF ent.k = "ent" THEN cached ELSE NilRes, ent, TRUE,
                IF ent.k = "ent" /\ ent.pol = new /\ v THEN {} ELSE {"StoreFailCached"})
         ELSE R(PolicyRes(new), ent, TRUE, {})
  ELSE R(PolicyRes(new), Ent(seenT, now, new), TRUE, {})

\* the policy-host requests of a call, as the observer sees them
Reqs(d, f, flt) == IF f.req THEN {[d |-> d, urlok |-> TRUE,
                                   pol |-> IF flt = "http" THEN NoPol ELSE pub[d].pol]}
                   ELSE {}

Step == n < MaxSteps /\ n' = n + 1
LastIsPublish(d) == IF hist = <<>> THEN FALSE
                    ELSE LET h == hist[Len(hist)] IN IF h.a = "Publish" THEN h.d = d ELSE FALSE

Publish(d, txt, pol) ==
  /\ Step /\ ~Due
  /\ pub[d] # [txt |-> txt, pol |-> pol]
  \* generation only: publishing twice in a row for one domain is the same as publishing once
  /\ ~(Gen /\ LastIsPublish(d))
  /\ pub' = [pub EXCEPT ![d] = [txt |-> txt, pol |-> pol]]
  /\ obs' = ObsPublish(obs, d, txt, pol)
  /\ hist' = H([a |-> "Publish", d |-> d, txt |-> txt, ver |-> pol.ver, age |-> pol.age])
  /\ UNCHANGED <<cfg, now, store, nextRef, taken>>

Tick(dt) ==
  /\ Step /\ ~Due
  /\ now + dt <= MaxT
  /\ now + dt <= nextRef            \* the clock never jumps over a run of the refresh loop
  /\ now' = now + dt
  /\ obs' = ObsTick(obs, dt)
  /\ hist' = H([a |-> "Tick", dt |-> dt])
  /\ UNCHANGED <<cfg, pub, store, nextRef, taken>>

Get(d, flt) ==
  /\ Step /\ ~Due
  /\ (flt = "store" => cfg.kind = "fs")
  /\ LET f == Fetch(d, now, flt) IN
       /\ store' = [store EXCEPT ![d] = f.ent]
       /\ obs' = ObsGet(obs, d, flt, f.res, Reqs(d, f, flt), store')
       /\ taken' = taken \cup f.tk
  /\ hist' = H([a |-> "Get", d |-> d, flt |-> flt])
  /\ UNCHANGED <<cfg, now, pub, nextRef>>

(* One run of the refresh loop: Cache.Refresh walks Store.List() (file     *)
(* names in sorted order) and fetches each listed domain against           *)
(* now + Window.  A panic (NullPolicyCrash) ends the run at that entry and *)
(* disables the loop (updater's recover).                                  *)
Listed == {d \in Domains : store[d].k # "none"}
Crashing == {d \in Listed : store[d].k = "nullpol" /\ "NullPolicyCrash" \in Devs}
Rank(d) == CASE d = "d1" -> 1 [] d = "d2" -> 2 [] d = "d3" -> 3 [] OTHER -> 4
Before(d, S) == \A x \in S : Rank(d) < Rank(x)      \* d precedes every member of S in file-name order

AutoRefresh(plan) ==
  /\ n <= MaxSteps /\ n' = n + 1 /\ Due
  /\ \A d \in Domains : (plan[d] = "store" => cfg.kind = "fs") /\ (d \notin Listed => plan[d] = "ok")
  /\ LET done == {d \in Listed : Before(d, Crashing)}
         f(d) == Fetch(d, now + Window, plan[d])
         reqs == UNION {Reqs(d, f(d), plan[d]) : d \in done}
         tk == UNION {f(d).tk : d \in done}
         hw == IF "HalfWindow" \in Devs /\ \E d \in done : Fetch(d, now + Period, plan[d]).ent # f(d).ent
               THEN {"HalfWindow"} ELSE {}
     IN /\ store' = [d \in Domains |-> IF d \in done THEN f(d).ent ELSE store[d]]
        /\ obs' = ObsRefresh(obs, plan, reqs, store', Crashing # {})
        /\ taken' = taken \cup tk \cup hw \cup (IF Crashing # {} THEN {"NullPolicyCrash"} ELSE {})
        /\ nextRef' = IF Crashing # {} THEN NoRef ELSE now + Period
  /\ hist' = H([a |-> "AutoRefresh", plan |-> plan])
  /\ UNCHANGED <<cfg, now, pub>>

Restart ==
  /\ Step /\ ~Due
  /\ store' = IF cfg.kind = "fs" THEN store ELSE [d \in Domains |-> NoEnt]
  /\ nextRef' = IF LoopRuns(cfg) THEN now ELSE NoRef
  /\ obs' = ObsRestart(obs, cfg.kind = "fs", TRUE, store')
  /\ hist' = H([a |-> "Restart"])
  /\ UNCHANGED <<cfg, now, pub, taken>>

Corrupt(d, kind) ==
  /\ Step /\ ~Due
  /\ cfg.kind = "fs" /\ store[d].k # "none"       \* there is a cache file to damage
  /\ store' = [store EXCEPT ![d] = BadEnt(kind)]
  /\ obs' = ObsCorrupt(obs, d, kind, store')
  /\ hist' = H([a |-> "Corrupt", d |-> d, kind |-> kind])
  /\ UNCHANGED <<cfg, now, pub, nextRef, taken>>

Finish ==
  /\ n \in {MaxSteps, MaxSteps + 1} /\ ~Due
  /\ n' = MaxSteps + 2
  /\ obs' = ObsEnd(obs, FALSE)
  /\ hist' = H([a |-> "End"])
  /\ IF Gen THEN PrintT(<<"BEH", ToJson([cfg |-> cfg, hist |-> hist'])>>) ELSE TRUE
  /\ UNCHANGED <<cfg, now, pub, store, nextRef, taken>>

\* generation by -simulate picks uniformly among the successor states computed: repeating the rare
\* actions makes the random behaviours use the clock, restarts and damage as often as publications
W(k) == IF Gen THEN 1..k ELSE {1}

Next ==
  \/ \E d \in Domains, t \in Txts, p \in Policies : Publish(d, t, p)
  \/ \E dt \in Dts, w \in W(8) : Tick(dt)
  \/ \E d \in Domains, f \in GetFaults : Get(d, f)
  \/ \E plan \in [Domains -> RefFaults] : AutoRefresh(plan)
  \/ \E w \in W(4) : Restart
  \/ \E d \in Domains, k \in Damages, w \in W(6) : Corrupt(d, k)
  \/ Finish

Spec == Init /\ [][Next]_vars

NoViolation == obs.viol = {}
\* every violation of an as-is run is explained by a deviation it took
ViolationsExplained == obs.viol # {} => taken # {}

TypeOK ==
  /\ now \in 0..MaxT
  /\ \A d \in Domains : pub[d].txt \in Txts /\ pub[d].pol \in Policies \cup {NoPol}
  /\ \A d \in Domains : store[d].k \in {"none", "ent", "junk", "nullpol"}
  /\ obs.snap = store /\ obs.pub = pub /\ obs.now = now
=============================================================================
