SPECIFICATION TSpec
CONSTANTS
  NPairs = 2
  MaxTime = 1000
  MaxEnv = 1000
  MaxForce = 1000
  EnvKinds = {"dep", "depk", "renew", "renewexp", "renewnyv", "inplace", "rm", "unread", "close", "slow"}
  InitKinds = {"good"}
  Devs = {"LostUpdate"}
  Gen = FALSE
CHECK_DEADLOCK FALSE
POSTCONDITION Post
