\* row validation: trace.ndjson in the working directory
SPECIFICATION TSpec
CONSTANTS
  Devs = {"FirstFromOnly"}
  Families = {"A", "B", "C", "D", "E", "F", "G", "H", "I"}
  Gen = FALSE
CHECK_DEADLOCK FALSE
POSTCONDITION Post
