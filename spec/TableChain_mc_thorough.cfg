\* reference configuration; lib/checks/x15.py generates the ones it runs
SPECIFICATION Spec
CONSTANTS
  MaxSteps = 3
  Devs = {}
  Gen = FALSE
INVARIANTS RuleSatisfiesProp
CHECK_DEADLOCK FALSE
