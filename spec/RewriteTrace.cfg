\* reference configuration; lib/checks/x15.py generates the ones it runs
SPECIFICATION TSpec
CONSTANTS
  Fams = {}
  PipeFull = FALSE
  Devs = {}
  Gen = FALSE
  OpenDevs = {"DocChainQuote", "DocLocalPartName", "FailurePermanent", "LocalNotValidated", "NullLookedUp", "QuotedFullAsLocal"}
CHECK_DEADLOCK FALSE
POSTCONDITION Post
