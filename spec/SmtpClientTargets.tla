-------------------------- MODULE SmtpClientTargets --------------------------
(***************************************************************************)
(* Extension X06, second slice: the order of commands the real delivery    *)
(* targets (target.smtp, target.lmtp, target.remote) put on the wire       *)
(* through internal/smtpconn, per connection, for every small delivery     *)
(* plan: recipients (each on next hop 1 or 2 - only target.remote has a    *)
(* second next hop), the reply of each RCPT, the reply to DATA and to the  *)
(* final dot, committed or aborted.  TLC enumerates the plans (one state   *)
(* per row, printed as "ROW") and states what the documentation of the     *)
(* call order (SmtpClient.tla, variable tp) makes of them: DATA may reach  *)
(* a next hop only if that next hop accepted a recipient (DataOn).         *)
(* The rows are run through the real targets against the shared            *)
(* scripted.SMTPServer; the recorded wire events of every connection are   *)
(* folded with the operators of SmtpClientObs.tla (the same predicates as  *)
(* in the client slice) by TWire below.                                     *)
(*                                                                         *)
(* Deviation "DataNoRcpt": target.remote sends DATA on every connection of *)
(* the delivery, also on one whose RCPT commands were all refused.         *)
(***************************************************************************)
EXTENDS SmtpClientObs, TLC, Json, SequencesExt

CONSTANTS Kinds,        \* subset of {"smtp", "lmtp", "remote"}
          MaxRcpt,
          RcptReplies,  \* subset of {"ok", "t4", "p5"}
          DataReplies,  \* reply to DATA / to the final dot: subset of {"ok", "t4", "p5"}
          Devs

VARIABLES row, done
rvars == <<row, done>>

Hops(kind) == IF kind = "remote" THEN {1, 2} ELSE {1}

Rows == { [kind |-> k, rcpts |-> rs, data |-> d, dot |-> dt, commit |-> cm] :
            k \in Kinds, rs \in UNION {[1..n -> [hop : {1, 2}, r : RcptReplies]] : n \in 1..MaxRcpt},
            d \in DataReplies, dt \in DataReplies, cm \in BOOLEAN }

Valid(rw) == /\ \A i \in 1..Len(rw.rcpts) : rw.rcpts[i].hop \in Hops(rw.kind)
             /\ rw.rcpts[1].hop = 1                                  \* symmetry: the first recipient names hop 1
             /\ (rw.data # "ok" => rw.dot = "ok")                    \* the dot reply matters only after 354
             /\ (~rw.commit => rw.data = "ok" /\ rw.dot = "ok")     \* aborted before the body: no DATA stage

Accepted(rw, h) == {i \in 1..Len(rw.rcpts) : rw.rcpts[i].hop = h /\ rw.rcpts[i].r = "ok"}
Used(rw, h) == \E i \in 1..Len(rw.rcpts) : rw.rcpts[i].hop = h
AnyAccepted(rw) == \E h \in {1, 2} : Accepted(rw, h) # {}

(* the body is handed over iff the delivery is committed and some recipient was accepted; *)
(* DATA goes to hop h iff h accepted a recipient                                            *)
DataOn(rw, h) ==
  /\ rw.commit /\ AnyAccepted(rw) /\ Used(rw, h)
  /\ Accepted(rw, h) # {} \/ ("DataNoRcpt" \in Devs /\ rw.kind = "remote")

(* Prop: what the statement demands of the wire of hop h, given what hop h answered *)
Prop(rw, h, sawData) == sawData => Accepted(rw, h) # {}

Init == row \in {rw \in Rows : Valid(rw)} /\ done = FALSE
Next == /\ ~done /\ done' = TRUE /\ UNCHANGED row
        /\ PrintT(<<"ROW", ToJson([row |-> row, data1 |-> DataOn(row, 1), data2 |-> DataOn(row, 2)])>>)
Spec == Init /\ [][Next]_rvars

(* the documented order never sends DATA to a next hop that accepted nobody *)
RuleOK == \A h \in {1, 2} : Prop(row, h, DataOn(row, h))
=============================================================================
