\* trace validation (reference; Devs = deviations of the open findings of extensions/findings.json)
SPECIFICATION TSpec
CONSTANTS
  Domains = {"d1", "d2", "d3"}
  Ids = {"i1", "i2", "i3"}
  Vers = {1, 2, 3}
  Ages = {6, 12, 20}
  Dts = {6, 12}
  MaxT = 100000
  MaxSteps = 100000
  GetFaults = {"ok", "temp", "perm", "multi", "bad", "http", "store"}
  RefFaults = {"ok", "temp", "http", "store"}
  Kinds = {"fs", "ram"}
  Lifes = {"prod", "test"}
  Damages = {"junk", "nullpol"}
  Devs = {"StoreFailCached", "NullPolicyCrash", "UpdaterNotStarted", "HalfWindow"}
  Gen = FALSE
CHECK_DEADLOCK FALSE
POSTCONDITION Post
