------------------------------ MODULE MsgShape ------------------------------
(***************************************************************************)
(* C08: a message signed by maddy's DKIM signer still verifies at the     *)
(* next hop after the spool (store, restart, reload) and maddy's SMTP     *)
(* client; tampering with a signed field makes verification fail.         *)
(*                                                                         *)
(* A message is a sequence of abstract header fields and body lines drawn *)
(* from feature classes (the harness concretises them to bytes).  The     *)
(* stages of its life (Signed -> Spooled -> Reloaded -> Handed -> Wire ->  *)
(* Received) are functions on that abstract message; by contract they are *)
(* identities ("prepend one field" for the signature).  DKIM              *)
(* canonicalisation is written over the classes, so TLC can decide for    *)
(* every shape, canonicalisation and stage deviation whether the          *)
(* signature survives: Verifies(m) == Canon(Received(m)) = Canon(m).       *)
(* Deviations (Devs): behaviour a stage must not have.                    *)
(*   "RefoldOnSpool"      header re-serialised with normalised folding    *)
(*   "StripTrailingWS"    trailing whitespace of lines lost on the wire   *)
(*   "LoseDotStuffing"    a leading dot of a body line is lost            *)
(*   "DropEmptyTail"      trailing empty lines dropped                    *)
(*   "LowercaseNames"     field names re-cased                            *)
(*   "FieldAfterSigning"  on the per-recipient body path of the pipeline  *)
(*                        the fields requested by checks are added after  *)
(*                        the signer ran (an over-signed one breaks it)   *)
(*   "CountByConfigSpelling"  the number of instances of a configured field *)
(*                        is looked up under the spelling of the            *)
(*                        configuration (0 when that is not the canonical   *)
(*                        one): h= lists too few instances                  *)
(*   "LastListWins"       a name in oversign_fields AND sign_fields is      *)
(*                        treated as signed only                            *)
(* fc / nm: the signer's field configuration (defaults, or the operator's *)
(* own oversign_fields / sign_fields in one of four spellings, with a name *)
(* listed twice / in both lists) and the NAME of every generated header    *)
(* field (over-signed, signed only, not configured; three names per kind, *)
(* so names repeat).  The h= layer below says how often a name must be     *)
(* listed and which tampering (remove / alter / add an instance, topmost   *)
(* or bottommost) a verifier then detects.                                 *)
(* via: how the message reaches the signer: "direct" (the harness calls   *)
(* the modifier), "pipe_body" / "pipe_na" (through a real pipeline whose  *)
(* check asks for an over-signed field to be added, entered by Body /     *)
(* BodyNonAtomic).  By contract the check's field is added BEFORE the     *)
(* modifiers run, i.e. it is part of what is signed.                      *)
(***************************************************************************)
EXTENDS Naturals, Sequences, FiniteSets, TLC, Json

CONSTANTS MaxFields, MaxLines, Devs, GenN

HdrAtoms  == {"plain", "fold_sp", "fold_tab", "trail_ws", "empty", "8bit", "utf8", "long", "mixedcase",
              "huge"}   \* a block of unsigned fields that pushes the header beyond 1 MiB
BodyAtoms == {"text", "dot", "onlydot", "empty", "trail_sp", "8bit", "longline", "multi_sp"}
Endings   == {"crlf", "multi_empty", "nobody"}
Canons    == {"relaxed", "simple"}
Keys      == {"rsa2048", "ed25519"}
Tampers   == {"none", "remove", "alter", "add_oversigned"}
CONSTANT Vias   \* subset of {"direct", "pipe_body", "pipe_na"}

SeqsUpTo(S, n) == UNION {[1..k -> S] : k \in 0..n}

Shapes == [hdr : SeqsUpTo(HdrAtoms, MaxFields) \ {<<>>}, body : SeqsUpTo(BodyAtoms, MaxLines),
           ending : Endings, hc : Canons, bc : Canons, key : Keys, eai : BOOLEAN, idn : BOOLEAN, via : Vias]

Map(f(_), s) == [i \in 1..Len(s) |-> f(s[i])]

(* ---- stages -------------------------------------------------------------- *)
SpoolHdr(a) == IF "RefoldOnSpool" \in Devs /\ a \in {"fold_sp", "fold_tab"} THEN "plain"
               ELSE IF "LowercaseNames" \in Devs /\ a = "mixedcase" THEN "plain" ELSE a
WireBody(a) == IF "StripTrailingWS" \in Devs /\ a = "trail_sp" THEN "text"
               ELSE IF "LoseDotStuffing" \in Devs /\ a = "dot" THEN "text"
               ELSE IF "LoseDotStuffing" \in Devs /\ a = "onlydot" THEN "empty" ELSE a
WireEnd(e) == IF "DropEmptyTail" \in Devs /\ e = "multi_empty" THEN "crlf" ELSE e
\* a field that appears at the next hop although it was not there when the signature was made
LateField(m) == IF "FieldAfterSigning" \in Devs /\ m.via = "pipe_na" THEN <<"late_oversigned">> ELSE <<>>
Received(m) == [m EXCEPT !.hdr = LateField(m) \o Map(SpoolHdr, m.hdr), !.body = Map(WireBody, m.body),
                         !.ending = WireEnd(m.ending)]

(* ---- canonicalisation over classes (RFC 6376 3.4) -------------------------- *)
CanonHdrAtom(c, a) ==
  IF c = "simple" THEN a
  ELSE CASE a \in {"fold_sp", "fold_tab", "trail_ws", "mixedcase"} -> "plain"   \* unfold, compress, strip, lower-case name
         [] OTHER -> a
CanonBodyAtom(c, a) ==
  IF c = "simple" THEN a
  ELSE CASE a \in {"trail_sp", "multi_sp"} -> "text" [] OTHER -> a
\* trailing empty lines are ignored by both body canonicalisations
StripTail(s) == LET RECURSIVE T(_)
                    T(x) == IF x # <<>> /\ x[Len(x)] = "empty" THEN T(SubSeq(x, 1, Len(x) - 1)) ELSE x
                IN T(s)
CanonBody(c, m) == StripTail(Map(LAMBDA a : CanonBodyAtom(c, a), m.body))
CanonHdr(c, m) == Map(LAMBDA a : CanonHdrAtom(c, a), m.hdr)
Canon(m) == <<CanonHdr(m.hc, m), CanonBody(m.bc, m)>>

Verifies(m) == Canon(Received(m)) = Canon(m)

(* ---- which fields are signed: the h= tag (RFC 6376 3.5, 5.4, 5.4.2) --------- *)
NameKinds == {"over", "sign", "free"}      \* in oversign_fields / in sign_fields only / not configured
Spellings == {"canon", "lower", "upper", "rfc"}   \* of the names in the configuration: Go's canonical MIME
                                           \* form (Message-Id), all lower, all upper, the RFCs' (Message-ID)
Dups      == {"none", "same", "cross"}     \* name over#1 twice in oversign_fields (two spellings) /
                                           \* name over#2 also in sign_fields.  First occurrence wins.
Expiries  == {"default", "none", "short"}  \* sig_expiry: 5 days / no x= tag / one hour (data dimension: the
                                           \* message arrives within seconds, the model does not depend on it)
DefaultFc == [custom |-> FALSE, spell |-> "canon", dup |-> "none", exp |-> "default"]
FieldCfgs == {DefaultFc} \cup [custom : {TRUE}, spell : Spellings, dup : Dups, exp : Expiries]
Names     == [k : NameKinds, n : 1..3]
Count(view, nm) == Cardinality({i \in DOMAIN view : view[i] = nm})
\* how often the signer lists nm in h= : once per instance, once more for an over-signed name
HMult(fc, view, nm) ==
  LET kind == IF "LastListWins" \in Devs /\ fc.dup = "cross" /\ nm = [k |-> "over", n |-> 2] THEN "sign" ELSE nm.k
      cnt  == IF "CountByConfigSpelling" \in Devs /\ fc.spell # "canon" THEN 0 ELSE Count(view, nm)
  IN IF kind = "free" THEN 0 ELSE cnt + (IF kind = "over" THEN 1 ELSE 0)
\* A verifier binds, for a name listed H times, its H bottommost instances (missing ones as the null
\* string).  Tampering with instance "top" / "bottom" of cnt instances (values pairwise different):
Detected(H, cnt, t, pos) ==
  CASE t = "alter"  -> IF pos = "top" THEN H >= cnt /\ cnt >= 1 ELSE H >= 1 /\ cnt >= 1
    [] t = "remove" -> IF pos = "top" THEN H >= cnt /\ cnt >= 1 ELSE H >= 1 /\ cnt >= 1
    [] t = "add"    -> IF pos = "top" THEN H >= cnt + 1 ELSE H >= 1
\* what the property demands: a signed field that is there cannot be removed or altered, and no
\* instance of an over-signed field can be added, without breaking the signature
Required(kind, cnt, t) == \/ t \in {"remove", "alter"} /\ kind \in {"over", "sign"} /\ cnt >= 1
                          \/ t = "add" /\ kind = "over"
HOK(fc, view) == \A nm \in Names, t \in {"remove", "alter", "add"}, pos \in {"top", "bottom"} :
                   Required(nm.k, Count(view, nm), t) => Detected(HMult(fc, view, nm), Count(view, nm), t, pos)
HRows == [fc : FieldCfgs, nm : SeqsUpTo(Names, MaxFields)]

(* ---- what TLC checks on the model ----------------------------------------- *)
\* every shape survives the stages; (with a deviation switched on some shape does not)
AllVerify == \A m \in Shapes : Verifies(m)

(* ---- the property over one observed row ----------------------------------- *)
\* out: [delivered, verifiedIndep, verifiedLib, tamper: [remove, alter, add_oversigned -> verified?]]
\* out.tampers (rows recorded since the h= layer exists): every tampering the harness tried at the next
\* hop, [t, nk = kind of the field's name under the row's configuration, cnt = instances present (0, 1, 2 =
\* two or more), pos, verified]
TamperViol(out) == "tampers" \in DOMAIN out /\
                   \E i \in DOMAIN out.tampers : LET x == out.tampers[i] IN Required(x.nk, x.cnt, x.t) /\ x.verified
Prop(in, out) ==
  /\ out.delivered
  /\ out.verifiedIndep /\ out.verifiedLib
  /\ ~out.tamper.remove /\ ~out.tamper.alter /\ ~out.tamper.add_oversigned
  /\ ~TamperViol(out)
PropViol(in, out) ==
  (IF out.delivered THEN {} ELSE {"NotDelivered"})
  \cup (IF out.delivered /\ ~(out.verifiedIndep /\ out.verifiedLib) THEN {"SignatureBrokenAtNextHop"} ELSE {})
  \cup (IF out.delivered /\ (out.tamper.remove \/ out.tamper.alter \/ out.tamper.add_oversigned \/ TamperViol(out))
        THEN {"TamperedMessageVerifies"} ELSE {})

(* ---- row generation -------------------------------------------------------- *)
VARIABLE row
Init == row \in Shapes
Next == UNCHANGED row
Spec == Init /\ [][Next]_row
RowOK == Verifies(row)
\* the h= layer, exhaustively: every field configuration x every naming of up to MaxFields fields
HInit == row \in HRows
HSpec == HInit /\ [][Next]_row
HRowOK == HOK(row.fc, row.nm)

(* seeded random rows for the replay (TLC's RandomElement follows -seed) *)
RandSeq(S, lo, hi, i) == LET n == RandomElement(lo..hi) IN [k \in 1..n |-> RandomElement(S)]
RandFc(i) == IF RandomElement(1..3) = 1 THEN DefaultFc
             ELSE [custom |-> TRUE, spell |-> RandomElement(Spellings), dup |-> RandomElement(Dups),
                   exp |-> RandomElement(Expiries)]
RandShape(i) == LET h == RandSeq(HdrAtoms, 1, MaxFields, i) IN
                [hdr |-> h, nm |-> [k \in 1..Len(h) |-> RandomElement(Names)], fc |-> RandFc(i),
                 body |-> RandSeq(BodyAtoms, 0, MaxLines, i),
                 ending |-> RandomElement(Endings), hc |-> RandomElement(Canons), bc |-> RandomElement(Canons),
                 key |-> RandomElement(Keys), eai |-> RandomElement(BOOLEAN), idn |-> RandomElement(BOOLEAN),
                 via |-> RandomElement(Vias)]
GenInit == row \in {RandShape(i) : i \in 1..GenN}
GenPrint == PrintT(<<"ROW", ToJson(row)>>) /\ UNCHANGED row
GenSpec == GenInit /\ [][UNCHANGED row]_row
GenOK == PrintT(<<"ROW", ToJson(row)>>) /\ Verifies(row) /\ HOK(row.fc, row.nm)
=============================================================================
