------------------------------ MODULE MsgShape ------------------------------
(***************************************************************************)
(* C08: a message signed by maddy's DKIM signer still verifies at the     *)
(* next hop after the spool (store, restart, reload) and maddy's SMTP     *)
(* client; tampering with a signed field makes verification fail.         *)
(*                                                                         *)
(* A message is a sequence of abstract header fields and body lines drawn *)
(* from feature classes (the harness concretises them to bytes).  The     *)
(* stages of its life (Signed -> Spooled -> Reloaded -> Handed -> Wire ->  *)
(* Received) are functions on that abstract message; by contract they are *)
(* identities ("prepend one field" for the signature).  DKIM              *)
(* canonicalisation is written over the classes, so TLC can decide for    *)
(* every shape, canonicalisation and stage deviation whether the          *)
(* signature survives: Verifies(m) == Canon(Received(m)) = Canon(m).       *)
(* Deviations (Devs): behaviour a stage must not have.                    *)
(*   "RefoldOnSpool"      header re-serialised with normalised folding    *)
(*   "StripTrailingWS"    trailing whitespace of lines lost on the wire   *)
(*   "LoseDotStuffing"    a leading dot of a body line is lost            *)
(*   "DropEmptyTail"      trailing empty lines dropped                    *)
(*   "LowercaseNames"     field names re-cased                            *)
(*   "FieldAfterSigning"  on the per-recipient body path of the pipeline  *)
(*                        the fields requested by checks are added after  *)
(*                        the signer ran (an over-signed one breaks it)   *)
(* via: how the message reaches the signer: "direct" (the harness calls   *)
(* the modifier), "pipe_body" / "pipe_na" (through a real pipeline whose  *)
(* check asks for an over-signed field to be added, entered by Body /     *)
(* BodyNonAtomic).  By contract the check's field is added BEFORE the     *)
(* modifiers run, i.e. it is part of what is signed.                      *)
(***************************************************************************)
EXTENDS Naturals, Sequences, FiniteSets, TLC, Json

CONSTANTS MaxFields, MaxLines, Devs, GenN

HdrAtoms  == {"plain", "fold_sp", "fold_tab", "trail_ws", "empty", "8bit", "utf8", "long", "mixedcase",
              "huge"}   \* a block of unsigned fields that pushes the header beyond 1 MiB
BodyAtoms == {"text", "dot", "onlydot", "empty", "trail_sp", "8bit", "longline", "multi_sp"}
Endings   == {"crlf", "multi_empty", "nobody"}
Canons    == {"relaxed", "simple"}
Keys      == {"rsa2048", "ed25519"}
Tampers   == {"none", "remove", "alter", "add_oversigned"}
CONSTANT Vias   \* subset of {"direct", "pipe_body", "pipe_na"}

SeqsUpTo(S, n) == UNION {[1..k -> S] : k \in 0..n}

Shapes == [hdr : SeqsUpTo(HdrAtoms, MaxFields) \ {<<>>}, body : SeqsUpTo(BodyAtoms, MaxLines),
           ending : Endings, hc : Canons, bc : Canons, key : Keys, eai : BOOLEAN, idn : BOOLEAN, via : Vias]

Map(f(_), s) == [i \in 1..Len(s) |-> f(s[i])]

(* ---- stages -------------------------------------------------------------- *)
SpoolHdr(a) == IF "RefoldOnSpool" \in Devs /\ a \in {"fold_sp", "fold_tab"} THEN "plain"
               ELSE IF "LowercaseNames" \in Devs /\ a = "mixedcase" THEN "plain" ELSE a
WireBody(a) == IF "StripTrailingWS" \in Devs /\ a = "trail_sp" THEN "text"
               ELSE IF "LoseDotStuffing" \in Devs /\ a = "dot" THEN "text"
               ELSE IF "LoseDotStuffing" \in Devs /\ a = "onlydot" THEN "empty" ELSE a
WireEnd(e) == IF "DropEmptyTail" \in Devs /\ e = "multi_empty" THEN "crlf" ELSE e
\* a field that appears at the next hop although it was not there when the signature was made
LateField(m) == IF "FieldAfterSigning" \in Devs /\ m.via = "pipe_na" THEN <<"late_oversigned">> ELSE <<>>
Received(m) == [m EXCEPT !.hdr = LateField(m) \o Map(SpoolHdr, m.hdr), !.body = Map(WireBody, m.body),
                         !.ending = WireEnd(m.ending)]

(* ---- canonicalisation over classes (RFC 6376 3.4) -------------------------- *)
CanonHdrAtom(c, a) ==
  IF c = "simple" THEN a
  ELSE CASE a \in {"fold_sp", "fold_tab", "trail_ws", "mixedcase"} -> "plain"   \* unfold, compress, strip, lower-case name
         [] OTHER -> a
CanonBodyAtom(c, a) ==
  IF c = "simple" THEN a
  ELSE CASE a \in {"trail_sp", "multi_sp"} -> "text" [] OTHER -> a
\* trailing empty lines are ignored by both body canonicalisations
StripTail(s) == LET RECURSIVE T(_)
                    T(x) == IF x # <<>> /\ x[Len(x)] = "empty" THEN T(SubSeq(x, 1, Len(x) - 1)) ELSE x
                IN T(s)
CanonBody(c, m) == StripTail(Map(LAMBDA a : CanonBodyAtom(c, a), m.body))
CanonHdr(c, m) == Map(LAMBDA a : CanonHdrAtom(c, a), m.hdr)
Canon(m) == <<CanonHdr(m.hc, m), CanonBody(m.bc, m)>>

Verifies(m) == Canon(Received(m)) = Canon(m)

(* ---- what TLC checks on the model ----------------------------------------- *)
\* every shape survives the stages; (with a deviation switched on some shape does not)
AllVerify == \A m \in Shapes : Verifies(m)

(* ---- the property over one observed row ----------------------------------- *)
\* out: [delivered, verifiedIndep, verifiedLib, tamper: [remove, alter, add_oversigned -> verified?]]
Prop(in, out) ==
  /\ out.delivered
  /\ out.verifiedIndep /\ out.verifiedLib
  /\ ~out.tamper.remove /\ ~out.tamper.alter /\ ~out.tamper.add_oversigned
PropViol(in, out) ==
  (IF out.delivered THEN {} ELSE {"NotDelivered"})
  \cup (IF out.delivered /\ ~(out.verifiedIndep /\ out.verifiedLib) THEN {"SignatureBrokenAtNextHop"} ELSE {})
  \cup (IF out.delivered /\ (out.tamper.remove \/ out.tamper.alter \/ out.tamper.add_oversigned)
        THEN {"TamperedMessageVerifies"} ELSE {})

(* ---- row generation -------------------------------------------------------- *)
VARIABLE row
Init == row \in Shapes
Next == UNCHANGED row
Spec == Init /\ [][Next]_row
RowOK == Verifies(row)

(* seeded random rows for the replay (TLC's RandomElement follows -seed) *)
RandSeq(S, lo, hi, i) == LET n == RandomElement(lo..hi) IN [k \in 1..n |-> RandomElement(S)]
RandShape(i) == [hdr |-> RandSeq(HdrAtoms, 1, MaxFields, i), body |-> RandSeq(BodyAtoms, 0, MaxLines, i),
                 ending |-> RandomElement(Endings), hc |-> RandomElement(Canons), bc |-> RandomElement(Canons),
                 key |-> RandomElement(Keys), eai |-> RandomElement(BOOLEAN), idn |-> RandomElement(BOOLEAN),
                 via |-> RandomElement(Vias)]
GenInit == row \in {RandShape(i) : i \in 1..GenN}
GenPrint == PrintT(<<"ROW", ToJson(row)>>) /\ UNCHANGED row
GenSpec == GenInit /\ [][UNCHANGED row]_row
GenOK == PrintT(<<"ROW", ToJson(row)>>) /\ Verifies(row)
=============================================================================
