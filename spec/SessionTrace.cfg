\* trace validation (reads trace.ndjson from the working directory; -workers 1)
SPECIFICATION TSpec
CONSTANTS
  Rcpts = {"ra", "rb", "rc"}
  NTs = {1, 2, 3}
  Lmtps = {TRUE, FALSE}
  Holds = {TRUE, FALSE}
  Fails = {"temp", "perm", "unspec"}
  MaxFaults = 1000
  MaxCmds = 1000
  MaxEnv = 0
  EnvPlan = "any"
  Allowed = {"*"}
  Devs = {"DataFailNoAbort", "CommitStopsAtFirst", "LmtpStatusKey", "EhloNoLogout", "MailRawSender", "NestedMail", "LmtpCommitErrLost", "LmtpCommitAfterReject"}
  Gen = FALSE
CHECK_DEADLOCK FALSE
POSTCONDITION Post
