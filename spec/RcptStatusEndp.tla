---------------------------- MODULE RcptStatusEndp ----------------------------
(***************************************************************************)
(* Design specification of per-recipient result reporting by the LMTP     *)
(* endpoint (internal/endpoint/smtp/session.go: Session.rcpt - address    *)
(* normalisation, delivery.AddRcpt, the table "normalised address ->      *)
(* spellings given"; LMTPData - BodyNonAtomic with statusWrapper, which    *)
(* translates each result back to the spelling the client gave; go-smtp's  *)
(* LMTP server writes one reply per accepted RCPT, in order).              *)
(*                                                                         *)
(* One behaviour = one LMTP session of up to MaxTxns transactions.  A      *)
(* transaction is a sequence of up to MaxRcpts RCPT commands - each a      *)
(* mailbox, a spelling of its address (normalised or not) and the answer   *)
(* of the delivery target's AddRcpt (accepted, or refused temporarily /    *)
(* permanently; mailbox "w" is refused by the routing before any target    *)
(* is asked) - followed by the message content (the target then reports    *)
(* st[m] for every mailbox it accepted, once per accepted RCPT) or by      *)
(* RSET.  The same mailbox may be named several times, under the same or   *)
(* different spellings, refused first and accepted later.                  *)
(*                                                                         *)
(* cfg.bdat (content sent with BDAT LAST instead of DATA) is a data        *)
(* dimension the design is independent of; TLC enumerates it so that both  *)
(* entry paths of go-smtp's LMTP server are driven.                        *)
(*                                                                         *)
(* Design: a refused RCPT leaves nothing behind; the table is per          *)
(* transaction; reply i names accepted recipient i as given and carries    *)
(* the target's result for that mailbox.                                   *)
(***************************************************************************)
EXTENDS RcptStatusEndpObs, TLC, SequencesExt, Json

CONSTANTS BoxSet,     \* mailboxes explored (subset of Boxes)
          SpellSet,   \* spellings explored
          RcptRes,    \* answers of the target's AddRcpt explored
          StSet,      \* body-stage results explored
          BdatSet,    \* values of cfg.bdat
          MaxRcpts, MaxTxns, Gen

VARIABLES cfg, pc, k, nr, acc, st, obs, hist

vars == <<cfg, pc, k, nr, acc, st, obs, hist>>
View == <<cfg, pc, nr, acc, st, obs.acc, obs.st, obs.viol>>

H(e) == IF Gen THEN Append(hist, e) ELSE hist

InitWith(c) ==
  /\ cfg = c /\ pc = "idle" /\ k = 0 /\ nr = 0 /\ acc = <<>> /\ st = AllOk
  /\ obs = ObsInit /\ hist = <<>>

Init == \E b \in BdatSet : InitWith([bdat |-> b])

(* MAIL FROM accepted; s: what the target will report at the body stage *)
TxnStart(s) ==
  /\ pc = "idle" /\ k < MaxTxns
  /\ pc' = "rcpt" /\ nr' = 0 /\ acc' = <<>> /\ st' = s
  /\ obs' = ObsTxn(obs, s)
  /\ hist' = H([a |-> "Txn", st |-> s])
  /\ UNCHANGED <<cfg, k>>

RcptAnswer(m) == IF m \in Routed THEN RcptRes ELSE {"perm"}

Rcpt(m, s, res) ==
  /\ pc = "rcpt" /\ nr < MaxRcpts /\ res \in RcptAnswer(m)
  /\ nr' = nr + 1
  /\ acc' = IF res = "ok" THEN Append(acc, [m |-> m, s |-> s]) ELSE acc
  /\ obs' = ObsRcpt(obs, m, s, res)
  /\ hist' = H([a |-> "Rcpt", m |-> m, s |-> s, res |-> res])
  /\ UNCHANGED <<cfg, pc, k, st>>

Expected == [i \in 1..Len(acc) |-> [m |-> acc[i].m, s |-> acc[i].s, v |-> st[acc[i].m]]]

(* message content; the per-recipient replies *)
Data(reps) ==
  /\ pc = "rcpt" /\ acc # <<>> /\ reps = Expected
  /\ obs' = ObsReplies(obs, reps)
  /\ pc' = "idle" /\ k' = k + 1
  /\ hist' = H([a |-> "Data"])
  /\ UNCHANGED <<cfg, nr, acc, st>>

Rset ==
  /\ pc = "rcpt" /\ nr >= 1
  /\ pc' = "idle" /\ k' = k + 1
  /\ hist' = H([a |-> "Rset"])
  /\ UNCHANGED <<cfg, nr, acc, st, obs>>

Finish ==
  /\ pc = "idle" /\ k >= 1 /\ (Gen => k = MaxTxns)
  /\ pc' = "end"
  /\ IF Gen THEN PrintT(<<"BEH", ToJson([cfg |-> cfg, steps |-> hist])>>) ELSE TRUE
  /\ UNCHANGED <<cfg, k, nr, acc, st, obs, hist>>

Next ==
  \/ \E s \in {f \in [Routed -> StSet] : \A m \in Routed \ BoxSet : f[m] = "ok"} : TxnStart(s)
  \/ \E m \in BoxSet, s \in SpellSet, res \in {"ok", "temp", "perm"} : Rcpt(m, s, res)
  \/ Data(Expected)
  \/ Rset
  \/ Finish
  \/ (pc = "end" /\ ~Gen /\ UNCHANGED vars)

Spec == Init /\ [][Next]_vars

NoViolation == obs.viol = {}
TypeOK == /\ pc \in {"idle", "rcpt", "end"} /\ k \in 0..MaxTxns /\ nr \in 0..MaxRcpts
          /\ Len(acc) <= MaxRcpts
=============================================================================
