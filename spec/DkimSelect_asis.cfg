SPECIFICATION Spec
CONSTANTS
  Full = FALSE
  Devs = {"SenderMatchRefused", "SenderMatchSkipped", "SubdomainRawCompare", "RawToASCII"}
  Gen = FALSE
INVARIANTS AsIsSatisfiesProp
CHECK_DEADLOCK FALSE
