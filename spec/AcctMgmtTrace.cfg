\* reference configuration (the check generates its configurations from lib/checks/x10.py: TRACE; needs trace.ndjson next to the spec)
SPECIFICATION TSpec
CONSTANTS
  Kinds = {"CredsCreate"}
  Spell = {"a"}
  Pws = {"p1", "p2"}
  Confirms = {"flag"}
  SUs = {FALSE}
  MNames = {"INBOX"}
  Specials = {"none"}
  FlagSets = {{"S"}}
  AddFlags = {{}}
  Ranges = {"1"}
  UidModes = {TRUE}
  Preset = "empty"
  MaxSteps = 0
  Devs = {"ExitZero", "PasswordCreates", "AcctNoPrecis", "RenameMissingOk", "RenameLike", "CopyRemoveBlob"}
  Gen = FALSE
CHECK_DEADLOCK FALSE
POSTCONDITION Post

