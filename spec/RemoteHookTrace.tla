--------------------------- MODULE RemoteHookTrace ---------------------------
(***************************************************************************)
(* Trace validation for Remote.tla from the remote target's own point of  *)
(* view: the events come from the hooks inside internal/target/remote     *)
(* (verif_trace.go, build tag verif), recorded while the REPOSITORY'S OWN *)
(* tests of the package run, unchanged.  One trace = the messages one     *)
(* Target delivered to one recipient domain, in order (they share the     *)
(* connection cache).  The "Cfg" line is assembled from what the hooks    *)
(* LOGGED: the policies in force and their minimum levels, the MTA-STS    *)
(* policy that was fetched and which MX it matches, the AD bit of the MX  *)
(* answer, per MX the TLSA outcome the DANE policy answered on and how    *)
(* the connection attempt ended as the client saw it.                     *)
(*                                                                         *)
(* Events:  Msg(flags)        Target.Start                                 *)
(*          Conn(mx, tls)     connect() returned: what was established as  *)
(*                            the client sees it ("none" | "enc-unauth" |  *)
(*                            "enc-auth"), or "error"                      *)
(*          Ret(op, res)      result of the first AddRcpt for the domain / *)
(*                            of the body step                             *)
(*          Quar              the message was quarantined after RCPT       *)
(*          Data(mx, tls)     DATA issued on that connection               *)
(*          End               the test stopped observing: the safety       *)
(*                            predicates are judged on the prefix          *)
(* Same scheme as RemoteTrace.tla (C_Step = design action, M_Step =       *)
(* monitor-only fold of the RemoteObs predicates); the fall-back          *)
(* connections of connect() are not visible from inside, so one Conn      *)
(* event stands for the whole of connect().                                *)
(***************************************************************************)
EXTENDS Remote

Trace == ndJsonDeserialize("trace.ndjson")

VARIABLES l, drift, driftAt, tno
tvars == <<vars, l, drift, driftAt, tno>>

Ev == Trace[l]
IsEv(e) == l <= Len(Trace) /\ Ev.e = e

Publish(d, da, o) ==
  TLCSet(1, TLCGet(1) \cup {[t |-> tno, drift |-> d, driftAt |-> da, viol |-> o.viol]})

TInit ==
  /\ InitWith(MkCfg({}, 0, 0, FALSE, "none", FALSE, "ok", <<DefaultMX>>))
  /\ l = 1 /\ drift = FALSE /\ driftAt = 0 /\ tno = 0
  /\ TLCSet(1, {})

MXOf(r) == [stls |-> r.stls, cert |-> r.cert, stsMatch |-> r.stsMatch, tlsa |-> r.tlsa, slow |-> FALSE,
            cn |-> "no", tlsaC |-> "insecure", quit |-> "bye"]

TReset ==
  /\ IsEv("Cfg")
  /\ cfg' = MkCfg(ToSet(Ev.pols), Ev.minTLS, Ev.minMX, Ev.override, Ev.sts, Ev.adMX, Ev.dns,
                  [i \in 1..Len(Ev.mx) |-> MXOf(Ev.mx[i])])
  /\ k' = 0 /\ cur' = NoMsg /\ pc' = "idle" /\ mxi' = 0 /\ att' = "first" /\ lvl' = 0
  /\ conn' = NoConn /\ pool' = <<>> /\ lastErr' = "none" /\ devs' = {}
  /\ pend' = "no" /\ tl' = "insecure"
  /\ obs' = ObsInit
  /\ hist' = <<>>
  /\ l' = l + 1 /\ drift' = FALSE /\ driftAt' = 0 /\ tno' = Ev.t

MsgOf(e) == [reqtls |-> e.reqtls, tlsno |-> e.tlsno, quar |-> e.quar,
             mailfail |-> e.mailfail, qlate |-> e.qlate, na |-> FALSE, pre |-> FALSE, late |-> "no"]

(* connect() as a whole: the outcome of the Connect steps of Remote.tla for MX i *)
HConnect(i, t) ==
  /\ pc = "conn" /\ i = mxi
  /\ LET f == cfg.mx[i]
         fin == CASE f.stls \in {"stripped", "hsfail"} -> "none"
                  [] f.stls = "cmdfail" -> "error"
                  [] f.stls = "offered" -> IF f.cert = "valid" THEN "enc-auth" ELSE "enc-unauth"
     IN /\ t = fin
        /\ IF fin = "error"
           THEN lastErr' = "temp" /\ mxi' = mxi + 1 /\ pc' = "mx" /\ UNCHANGED conn
           ELSE conn' = [NoConn EXCEPT !.mx = i, !.tls = fin] /\ pc' = "chk" /\ UNCHANGED <<mxi, lastErr>>
  /\ UNCHANGED <<cfg, k, cur, att, lvl, pool, pend, tl, devs, obs, hist>>

C_Msg  == IsEv("Msg") /\ StartMsg(MsgOf(Ev))
C_Conn == IsEv("Conn") /\ HConnect(Ev.mx, Ev.tls)
C_Data == IsEv("Data") /\ Data(Ev.mx, Ev.tls)
C_Quar == IsEv("Quar") /\ RaiseQuar
C_Ret  == IsEv("Ret") /\
            \/ Ev.op = "addrcpt" /\ (RetQuarantine(Ev.res) \/ LookupFail(Ev.res) \/ NoMX(Ev.res) \/ Gate(Ev.res))
            \/ Ev.op = "body" /\ (BodyRet(Ev.res) \/ BodyRefuse(Ev.res))
C_End  == IsEv("End") /\ UNCHANGED vars

Consume == C_Msg \/ C_Conn \/ C_Data \/ C_Quar \/ C_Ret \/ C_End
Conform == Consume \/ Silent

C_Step ==
  /\ ~drift
  /\ \/ /\ Consume
        /\ l' = l + 1
        /\ IF Ev.e = "End" THEN Publish(FALSE, 0, obs') ELSE TRUE
     \/ Silent /\ UNCHANGED l
  /\ UNCHANGED <<drift, driftAt, tno>>

ObsApply(o, e) ==
  CASE e.e = "Msg"  -> ObsMsg(o, MsgOf(e))
    [] e.e = "Quar" -> ObsQuar(o)
    [] e.e = "Data" -> ObsData(o, cfg, [mx |-> e.mx, tls |-> e.tls, cert |-> cfg.mx[e.mx].cert])
    [] e.e = "Ret"  -> ObsRet(o, cfg, e.op, e.res)
    [] OTHER -> o

M_Step ==
  /\ l <= Len(Trace) /\ Ev.e # "Cfg"
  /\ (drift \/ ~ENABLED Conform)
  /\ drift' = TRUE
  /\ driftAt' = IF drift THEN driftAt ELSE Ev.seq
  /\ obs' = ObsApply(obs, Ev)
  /\ l' = l + 1
  /\ UNCHANGED <<cfg, k, cur, pc, mxi, att, lvl, conn, pool, lastErr, pend, tl, devs, hist, tno>>
  /\ IF Ev.e = "End" THEN Publish(TRUE, driftAt', obs') ELSE TRUE

TNext == TReset \/ C_Step \/ M_Step
TSpec == TInit /\ [][TNext]_tvars

Post == PrintT(<<"VERDICTS", ToJson(TLCGet(1))>>)
=============================================================================
