---------------------------- MODULE StsCacheObs ----------------------------
(***************************************************************************)
(* Observation state and property predicates of extension X02: the         *)
(* MTA-STS policy cache behind maddy's mx_auth.mtasts (go-mtasts Cache +   *)
(* fsStore/ramStore, internal/target/remote/security.go: mtastsPolicy).    *)
(*                                                                         *)
(* Everything here is a pure function of what is visible from outside:     *)
(*   - what the recipient domain publishes (TXT id, policy body),          *)
(*   - the answers the sender's resolver / HTTPS client got (fault plan),  *)
(*   - the policy-host requests the sender made (URL, what was served),    *)
(*   - the result of Get, the content of the cache store after every step, *)
(*   - the clock, start/restart of the module, runs of the refresh loop.   *)
(* The same operators fold `obs` in the design spec (StsCache.tla, checked *)
(* exhaustively) and in the trace spec (StsCacheTrace.tla, events of the   *)
(* real code).  Time is counted in hours.                                  *)
(***************************************************************************)
EXTENDS Naturals, Sequences, FiniteSets

NoPol == [ver |-> 0, age |-> 0]
NoEnt == [k |-> "none", id |-> "", ft |-> 0, pol |-> NoPol]
BadEnt(kind) == [k |-> kind, id |-> "", ft |-> 0, pol |-> NoPol]    \* kind: "junk" | "nullpol"
Ent(id, ft, pol) == [k |-> "ent", id |-> id, ft |-> ft, pol |-> pol]

PolicyRes(p) == [kind |-> "policy", pol |-> p]
NoPolicy == [kind |-> "nopolicy", pol |-> NoPol]
TempErr  == [kind |-> "temp", pol |-> NoPol]
NilRes   == [kind |-> "nil", pol |-> NoPol]       \* (nil, nil): neither a policy nor an error
PanicRes == [kind |-> "panic", pol |-> NoPol]

TxtFaults == {"temp", "perm", "multi", "bad"}    \* what the resolver answers instead of the record
Period == 12                                      \* hours between two runs of the refresh loop
DocWindow == 6                                    \* "going to expire in next 6 hours" (go-mtasts cache.go:Refresh)
NoRef == 1000000

ObsInit(D, runs) ==
  [ now     |-> 0,
    pub     |-> [d \in D |-> [txt |-> "none", pol |-> NoPol]],
    fetched |-> [d \in D |-> {}],          \* {[pol, at]}: policies the policy host of d served to us, unexpired
    snap    |-> [d \in D |-> NoEnt],       \* cache store content after the latest step
    nextRef |-> IF runs THEN 0 ELSE NoRef, \* when the refresh loop has to run next
    updSince|-> IF runs THEN 0 ELSE NoRef, \* the refresh loop is expected to run since
    clean   |-> [d \in D |-> 0],           \* d publishes an id and nothing failed for d since
    viol    |-> {} ]

V(o, c, name) == IF c THEN o ELSE [o EXCEPT !.viol = @ \cup {name}]

Genuine(o, d, e) == e.k = "ent" /\ \E f \in o.fetched[d] : f.pol = e.pol /\ f.at = e.ft
ValidAt(e, t) == e.k = "ent" /\ e.ft + e.pol.age >= t
Seen(o, d, flt) == IF flt \in TxtFaults THEN flt ELSE o.pub[d].txt
IsId(x) == x \notin (TxtFaults \cup {"none"})
Dirty(o, d) == [o EXCEPT !.clean[d] = o.now + 1]

\* the refresh loop is overdue: nothing but its run may happen now
Overdue(o) == o.nextRef <= o.now

ObsPublish(o, d, txt, pol) ==
  LET o1 == V(o, ~Overdue(o), "UpdaterMissedRun")
      o2 == [o1 EXCEPT !.pub[d] = [txt |-> txt, pol |-> pol]]
  IN IF IsId(txt) THEN o2 ELSE Dirty(o2, d)

(* An entry that went stale although the refresh loop was running all the  *)
(* time since it was fetched, the domain kept publishing and nothing       *)
(* failed: the loop exists to prevent exactly this (cache.go:Refresh, RFC  *)
(* 8461 10.2).  Entries living shorter than one period are exempt.         *)
StaleDespiteLoop(o, d, t) ==
  LET e == o.snap[d] IN
    /\ e.k = "ent" /\ e.pol.age >= Period /\ e.ft + e.pol.age < t
    /\ o.updSince <= e.ft /\ o.clean[d] <= e.ft

ObsTick(o, dt) ==
  LET t  == o.now + dt
      o1 == V(o, ~Overdue(o), "UpdaterMissedRun")
      o2 == V(o1, \A d \in DOMAIN o.snap : ~StaleDespiteLoop(o, d, t), "ExpiredDespiteRefreshLoop")
  IN [o2 EXCEPT !.now = t,
                !.fetched = [d \in DOMAIN o.fetched |-> {f \in o.fetched[d] : f.at + f.pol.age >= t}]]

\* fs: requests the policy host of the domain answered with a valid policy during this step
Served(fs, d, now) == {[pol |-> f.pol, at |-> now] : f \in {g \in fs : g.d = d /\ g.urlok /\ g.pol.ver # 0}}

(***************************************************************************)
(* Get(d) answered `res`; flt is what the environment did to this call;    *)
(* fs the policy-host requests made; snap the store afterwards.            *)
(***************************************************************************)
ObsGet(o, d, flt, res, fs, snap) ==
  LET cached == o.snap[d]
      validC == Genuine(o, d, cached) /\ ValidAt(cached, o.now)
      seen   == Seen(o, d, flt)
      fetched2 == o.fetched[d] \cup Served(fs, d, o.now)
      refetch == IsId(seen) /\ (~validC \/ seen # cached.id)
      o0 == V(o, ~Overdue(o), "UpdaterMissedRun")
      o1 == V(o0, \A g \in fs : g.urlok, "FetchedFromWrongUrl")
      o2 == V(o1, res.kind # "panic", "GetCrashed")
      o3 == V(o2, res.kind # "nil", "NilPolicyWithoutError")
      o4 == V(o3, res.kind = "policy" =>
                    \E f \in fetched2 : f.pol = res.pol /\ f.at + f.pol.age >= o.now,
              "ServedUnpublishedOrExpired")
      o5 == V(o4, validC => res.kind = "policy", "DowngradeDespiteValidCache")
      o6 == V(o5, (refetch /\ flt # "http") => res = PolicyRes(o.pub[d].pol), "StaleAfterIdChange")
      o7 == V(o6, (~validC /\ seen = "temp") => res.kind \in {"temp", "panic", "nil"}, "TempFailureMisreported")
      o8 == V(o7, (~validC /\ ((~IsId(seen) /\ seen # "temp") \/ (IsId(seen) /\ flt = "http")))
                     => res.kind \in {"nopolicy", "panic", "nil"}, "NoPolicyMisreported")
      o9 == V(o8, (refetch /\ flt \notin {"http", "store"}) => snap[d] = Ent(seen, o.now, o.pub[d].pol),
              "FetchedPolicyNotCached")
      o10 == V(o9, validC => (ValidAt(snap[d], o.now) /\
                              (snap[d] = cached \/ snap[d] = Ent(seen, o.now, o.pub[d].pol))),
               "ValidEntryDamaged")
      o11 == V(o10, \A x \in DOMAIN snap : x # d => snap[x] = o.snap[x], "OtherDomainTouched")
      \* a call that crashed answered nothing: only the crash is held against it
      o12 == [(IF res.kind = "panic" THEN o2 ELSE o11) EXCEPT !.fetched[d] = fetched2, !.snap = snap]
  IN IF flt = "ok" /\ res.kind # "panic" THEN o12 ELSE Dirty(o12, d)

(***************************************************************************)
(* One run of the refresh loop.  plan[d] is the fault applied to d.        *)
(***************************************************************************)
ObsRefresh(o, plan, fs, snap, panicked) ==
  LET D == DOMAIN o.snap
      newf == [d \in D |-> o.fetched[d] \cup Served(fs, d, o.now)]
      o0 == [o EXCEPT !.fetched = newf]
      lost(d) == Genuine(o, d, o.snap[d]) /\ ValidAt(o.snap[d], o.now)
                 /\ ~(Genuine(o0, d, snap[d]) /\ ValidAt(snap[d], o.now))
      stale(d) == LET e == o.snap[d] seen == Seen(o, d, plan[d]) IN
                  /\ e.k = "ent" /\ IsId(seen) /\ plan[d] = "ok"
                  /\ (seen # e.id \/ e.ft + e.pol.age < o.now + DocWindow)
                  /\ snap[d] # Ent(seen, o.now, o.pub[d].pol)
      o1 == V(o0, \A g \in fs : g.urlok, "FetchedFromWrongUrl")
      o2 == V(o1, ~panicked, "RefreshCrashed")
      o3 == V(o2, \A d \in D : ~lost(d), "RefreshLostValidEntry")
      o4 == V(o3, panicked \/ \A d \in D : ~stale(d), "RefreshMissedStaleEntry")
      o5 == V(o4, \A d \in D : o.snap[d].k = "none" => snap[d].k = "none", "RefreshCreatedEntry")
      dirty == {d \in D : plan[d] # "ok" \/ panicked}
  IN [o5 EXCEPT !.snap = snap,
                !.nextRef = IF o.nextRef = NoRef THEN NoRef ELSE o.now + Period,
                !.clean = [d \in D |-> IF d \in dirty THEN o.now + 1 ELSE o.clean[d]]]

(***************************************************************************)
(* The module was closed and initialised again on the same configuration. *)
(* keeps: the configured store survives a restart (cache fs).              *)
(***************************************************************************)
ObsRestart(o, keeps, runs, snap) ==
  LET D == DOMAIN o.snap
      o0 == V(o, ~Overdue(o), "UpdaterMissedRun")
      o1 == V(o0, keeps => snap = o.snap, "CacheLostOnRestart")
      o2 == V(o1, keeps \/ \A d \in D : snap[d].k = "none", "RamCacheSurvivedRestart")
  IN [o2 EXCEPT !.snap = snap,
                !.nextRef = IF runs THEN o.now ELSE NoRef,
                !.updSince = IF runs THEN (IF o.updSince = NoRef THEN o.now ELSE o.updSince) ELSE NoRef]

\* the cache file of d was damaged behind the module's back
ObsCorrupt(o, d, kind, snap) ==
  LET o0 == V(o, ~Overdue(o), "UpdaterMissedRun")
  IN [o0 EXCEPT !.snap = snap]

\* badName: some TXT query was not for _mta-sts.<a domain Get/the store named>
ObsEnd(o, badName) == V(V(o, ~Overdue(o), "UpdaterMissedRun"), ~badName, "QueriedWrongName")
=============================================================================
