SPECIFICATION Spec
CONSTANTS
  Medium = "unix"
  Procs = {"s"}
  Lst = {"s"}
  MaxPush = 0
  SrvPush = 0
  ChanCap = 0
  MaxBad = 1
  MaxBig = 0
  MaxCrash = 0
  MaxClose = 1
  Sizes = {"s"}
  Keys = {1}
  First = "-"
  Second = "-"
  LateClose = TRUE
  Devs = {"MalformedPanics"}
  Gen = FALSE
VIEW View
INVARIANTS NoViolation
CHECK_DEADLOCK FALSE
