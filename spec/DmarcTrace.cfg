\* evaluates trace.ndjson (rows of the real code); OpenDevs = deviations of the open known findings
SPECIFICATION TSpec
CONSTANTS
  MaxDkim = 3
  Devs = {}
  Gen = FALSE
  OpenDevs = {"PSLCaseAlign", "PSLCaseFetch", "JunkNoFallback"}
CHECK_DEADLOCK FALSE
POSTCONDITION Post
