SPECIFICATION Spec
CONSTANTS
  Tabs = {"static", "identity", "ewd", "localpart", "regexp", "chain", "file"}
  MaxSteps = 2
  MaxLines = 2
  Devs = {}
  Gen = FALSE
INVARIANTS RuleSatisfiesProp
CHECK_DEADLOCK FALSE
