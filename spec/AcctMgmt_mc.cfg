\* reference configuration (the check generates its configurations from lib/checks/x10.py: MC_QUICK['mc-msgs'])
SPECIFICATION Spec
CONSTANTS
  Kinds = {"MsgAdd", "MsgRemove", "MsgCopy", "MsgMove", "MsgFlags"}
  Spell = {"a", "aW"}
  Pws = {"p1"}
  Confirms = {"flag", "n"}
  SUs = {FALSE}
  MNames = {"INBOX", "A"}
  Specials = {"none"}
  FlagSets = {{"S"}, {"F", "K"}}
  AddFlags = {{}, {"S"}}
  Ranges = {"1", "2", "1:2", "*", "2:*", "3"}
  UidModes = {TRUE, FALSE}
  Preset = "msgs3"
  MaxSteps = 2
  Devs = {}
  Gen = FALSE
VIEW View
INVARIANTS NoViolation TypeOK

