\* exhaustive enumeration of the input tables (quick: MaxLists = 2, thorough: 3); lib/checks/x04.py
SPECIFICATION Spec
CONSTANTS
  MaxLists = 2
  Devs = {}
  Gen = FALSE
  Seed = 1
  RandN = 2000
INVARIANTS RuleSatisfiesProp RuleIsScoreSum
CHECK_DEADLOCK FALSE
