------------------------------ MODULE DkimKeys ------------------------------
(***************************************************************************)
(* C08, key side: "verifies successfully against the published key".      *)
(*                                                                         *)
(* modify.dkim keeps, per configured signing domain, a private key file   *)
(* and the TXT record file it tells the operator to publish               *)
(* (<domain>.key / <domain>.dns).  The state machine below is the life    *)
(* of those files over starts of the module, key rotation by the operator *)
(* (the key file is removed, the next start generates a new pair) and     *)
(* signing for envelope senders in / below / outside the configured       *)
(* domains.  The DNS the next hop sees is exactly the record files.       *)
(*                                                                         *)
(* One action per step of the code:                                       *)
(*   Start(a)     Modifier.Init with newkey_algo a: per configured domain *)
(*                loadOrGenerateKey (load the key file if there is one,   *)
(*                otherwise generate, write the record file, write key)   *)
(*   RemoveKey(d) the operator removes a key file (rotation); the record  *)
(*                file stays, the running process keeps its loaded key    *)
(*   Sign(s)      state.RewriteBody for an envelope sender of class s     *)
(*                                                                         *)
(* Devs (behaviour the code must not have):                               *)
(*   "StaleRecordTail"  a record file is overwritten in place, a shorter  *)
(*                      record keeps the tail of the longer old one       *)
(*   "SubdomainD"       sign_subdomains: key of the top domain, d= of the *)
(*                      sender's subdomain                                *)
(*   "KeepOldRecord"    a new pair is generated but an existing record    *)
(*                      file is left alone                                *)
(*   "SharedRecordFile" the name of the record file is derived from the   *)
(*                      key file name by a map that is not injective for  *)
(*                      key files of the "bare" naming class: the records *)
(*                      of two configured domains land in one file, the   *)
(*                      domain generated last wins                        *)
(*                                                                         *)
(* Files are named: cfg.tpl is the class of the key_path template ("key": *)
(* the key file name ends in .key, the record replaces the suffix; "bare":*)
(* any other name, the record file is the key file name + .dns).  The     *)
(* record of domain d lives in the file RecFile(d); what the next hop     *)
(* sees for d is the content of the file the operator was told to publish *)
(* for d.  The spelling of the template inside a class, the spelling of   *)
(* the domain names and a second modify.dkim instance (other selector)    *)
(* working in the same directory are harness-only data dimensions: this   *)
(* design does not depend on them (its record files are one per key).     *)
(***************************************************************************)
EXTENDS Naturals, Sequences, FiniteSets, TLC, Json

CONSTANTS Algos,     \* key algorithms for newkey_algo
          MaxOps,    \* bound on the length of a history
          Devs,
          Gen,       \* TRUE: carry the history and print complete behaviours
          Wide       \* FALSE: only the naming class "key" (cheaper generation of histories: without deviations
                     \* RecFile is the identity, the histories of the two classes differ in cfg.tpl only, so the
                     \* quick tier generates one class and re-labels half of its sample; every check of an
                     \* invariant and the thorough generation run with Wide = TRUE)

Doms    == {"top", "second"}                                \* configurable signing domains
\* sender classes: "upper" = top, upper-cased; "fold" = a foreign domain that differs from the configured
\* "second" domain only by a full-case-folding expansion (sharp s against "ss"): not a configured domain
Senders == {"top", "upper", "sub", "second", "other", "null", "fold"}
DNames  == {"top", "sub", "second", "other", "fold"}         \* what a d= tag can name
Tpls    == {"key", "bare"}                                  \* naming class of the key_path template
AllConfigs == { [doms |-> ds.doms, sub |-> ds.sub, tpl |-> t] :
                  ds \in { [doms |-> <<"top">>, sub |-> FALSE], [doms |-> <<"top">>, sub |-> TRUE],
                           [doms |-> <<"top", "second">>, sub |-> FALSE], [doms |-> <<"second", "top">>, sub |-> FALSE] },
                  t \in Tpls }
Configs == { c \in AllConfigs : Wide \/ c.tpl = "key" }
RecFiles == Doms \cup {"shared"}                            \* record files that can exist in the key directory

NoKey == [g |-> 0, a |-> "none"]
NoRec == [g |-> 0, a |-> "none", ok |-> TRUE, of |-> "none"]   \* of: the domain whose key the record describes
\* length order of the textual records: an RSA record is longer than an Ed25519 one, 4096 > 2048
RecLen(a) == CASE a = "rsa4096" -> 3 [] a = "rsa2048" -> 2 [] a = "ed25519" -> 1 [] OTHER -> 0

RotClass(old, new) == IF RecLen(old) > RecLen(new) THEN "shrink"
                      ELSE IF RecLen(old) < RecLen(new) THEN "grow" ELSE "same"

VARIABLES cfg,   \* the module's configuration
          kf,    \* kf[d]: key in the key file of domain d (generation, algorithm) or NoKey
          dns,   \* dns[f]: content of the record file f
          mem,   \* mem[d]: key loaded by the running module instance
          run,   \* a module instance is initialised
          n,     \* steps so far
          last,  \* outcome of the latest Sign
          hist
vars == <<cfg, kf, dns, mem, run, n, last, hist>>

ToSet(s) == {s[i] : i \in 1..Len(s)}
NoSig == [signed |-> FALSE, d |-> "none", verified |-> FALSE]

InitWith(c) ==
  /\ cfg = c
  /\ kf = [d \in Doms |-> NoKey] /\ dns = [f \in RecFiles |-> NoRec] /\ mem = [d \in Doms |-> NoKey]
  /\ run = FALSE /\ n = 0 /\ last = NoSig /\ hist = <<>>
Init == \E c \in Configs : InitWith(c)

Log(e) == hist' = IF Gen THEN Append(hist, e) ELSE hist

\* the record file that belongs to the key file of domain d
RecFile(d) == IF "SharedRecordFile" \in Devs /\ cfg.tpl = "bare" THEN "shared" ELSE d

NewRec(f, d, k) ==
  IF "KeepOldRecord" \in Devs /\ dns[f] # NoRec THEN dns[f]
  ELSE [g |-> k.g, a |-> k.a,
        ok |-> ~("StaleRecordTail" \in Devs /\ RecLen(dns[f].a) > RecLen(k.a)), of |-> d]

Start(a) ==
  /\ n < MaxOps
  /\ LET fresh(d) == [g |-> dns[RecFile(d)].g + 1, a |-> a]     \* generations are counted by the record file
         key(d)   == IF kf[d] = NoKey THEN fresh(d) ELSE kf[d]
         \* the configured domains are handled one after the other: the last writer of a file wins
         writers(f) == SelectSeq(cfg.doms, LAMBDA d : kf[d] = NoKey /\ RecFile(d) = f)
     IN /\ kf'  = [d \in Doms |-> IF d \in ToSet(cfg.doms) THEN key(d) ELSE kf[d]]
        /\ dns' = [f \in RecFiles |-> IF writers(f) = <<>> THEN dns[f]
                                      ELSE LET d == writers(f)[Len(writers(f))] IN NewRec(f, d, fresh(d))]
        /\ mem' = [d \in Doms |-> IF d \in ToSet(cfg.doms) THEN key(d) ELSE NoKey]
  /\ run' = TRUE /\ n' = n + 1
  \* rot: for the sampling of histories only (which kinds of rotation this start performed)
  /\ Log([e |-> "Start", algo |-> a,
          rot |-> {RotClass(dns[RecFile(d)].a, a) :
                     d \in {x \in ToSet(cfg.doms) : kf[x] = NoKey /\ dns[RecFile(x)] # NoRec}}])
  /\ UNCHANGED <<cfg, last>>

RemoveKey(d) ==
  /\ n < MaxOps /\ kf[d] # NoKey
  /\ kf' = [kf EXCEPT ![d] = NoKey]
  /\ n' = n + 1
  /\ Log([e |-> "RemoveKey", dom |-> d])
  /\ UNCHANGED <<cfg, dns, mem, run, last>>

\* the domain whose key signs for a sender class ("none": the message is left unsigned)
SenderDom(s) == CASE s \in {"top", "upper"} -> "top" [] s = "null" -> cfg.doms[1] [] OTHER -> s
KeyDomain(s) ==
  LET sd == SenderDom(s) IN
  IF sd = "sub" THEN (IF cfg.sub /\ cfg.doms[1] = "top" THEN "top" ELSE "none")
  ELSE IF sd \in ToSet(cfg.doms) THEN sd ELSE "none"
DTag(s) == IF "SubdomainD" \in Devs THEN SenderDom(s) ELSE KeyDomain(s)
\* the zone holds exactly the record files: for d, the file maddy named for d's key
Published(d) == IF d \in Doms THEN dns[RecFile(d)] ELSE NoRec
Matches(rec, k, d) == rec # NoRec /\ rec.ok /\ rec.g = k.g /\ rec.a = k.a /\ rec.of = d

SigOf(s) ==
  LET kd == KeyDomain(s) IN
  IF kd = "none" \/ mem[kd] = NoKey THEN NoSig
  ELSE [signed |-> TRUE, d |-> DTag(s), verified |-> Matches(Published(DTag(s)), mem[kd], DTag(s))]

Sign(s) ==
  /\ n < MaxOps /\ run
  /\ last' = SigOf(s)
  /\ n' = n + 1
  /\ Log([e |-> "Sign", sender |-> s, signed |-> SigOf(s).signed,
          g |-> IF SigOf(s).signed THEN mem[KeyDomain(s)].g ELSE 0])
  /\ UNCHANGED <<cfg, kf, dns, mem, run>>

Done == n = MaxOps /\ Gen /\ PrintT(<<"BEH", ToJson([cfg |-> cfg, hist |-> hist])>>) /\ UNCHANGED vars
Stutter == n = MaxOps /\ ~Gen /\ UNCHANGED vars

Next ==
  \/ \E a \in Algos : Start(a)
  \/ \E d \in Doms : RemoveKey(d)
  \/ \E s \in Senders : Sign(s)
  \/ Stutter
Spec == Init /\ [][Next]_vars

(* ---- the property ----------------------------------------------------------- *)
\* every signature maddy makes verifies against the key published for the domain it names
SigViol(sig) == IF sig.signed /\ ~sig.verified THEN {"SignatureDoesNotMatchPublishedKey"} ELSE {}
SignedVerifies == SigViol(last) = {}
\* the loaded key of a configured domain is always the one the record file describes
LoadedIsPublished == \A d \in Doms : (run /\ mem[d] # NoKey) => Matches(dns[RecFile(d)], mem[d], d)
TypeOK == /\ n \in 0..MaxOps /\ run \in BOOLEAN /\ cfg \in Configs
          /\ last.d \in DNames \cup {"none"}

(* ---- generation of histories for the replay ----------------------------------- *)
GenNext ==
  \/ \E a \in Algos : Start(a)
  \/ \E d \in Doms : RemoveKey(d)
  \/ \E s \in Senders : Sign(s)
  \/ Done
GenSpec == Init /\ [][GenNext]_vars
=============================================================================
