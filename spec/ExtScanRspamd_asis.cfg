\* as-is: the deviations of the code switched on; TLC must report a violation of AsIsSatisfiesProp
SPECIFICATION Spec
CONSTANTS
  Full = FALSE
  Devs = {"FlagsIgnored", "RdnsNilPanic"}
  Gen = FALSE
  Seed = 1
  RandN = 1
INVARIANTS AsIsSatisfiesProp
CHECK_DEADLOCK FALSE
