------------------------------ MODULE PipeStatus ------------------------------
(***************************************************************************)
(* Design specification of status reporting by the message pipeline       *)
(* (internal/msgpipeline/msgpipeline.go: msgpipelineDelivery.AddRcpt -    *)
(* RewriteRcpt 1->N, OriginalRcpts, delivery.AddRcpt on the target;       *)
(* BodyNonAtomic - statusCollector.SetStatus reverse translation).        *)
(*                                                                         *)
(* One behaviour = rewrite rules for the two addresses a client may       *)
(* supply (identity, 1->1, 1->2 over four effective addresses, including  *)
(* a rewrite target that is also supplied directly and two supplied       *)
(* addresses rewritten to the same target), the scope whose modifiers     *)
(* hold the rules (global `modify`, the matched source block, or the      *)
(* matched destination block - AddRcpt runs the three RewriteRcpt stages  *)
(* in this order and records the reverse mapping after the last one), a   *)
(* recipient list and the per-recipient results of the one partial target *)
(* behind the pipeline - or the one result of an atomic (Body-only)       *)
(* target, which the pipeline fans out over the supplied addresses.  The  *)
(* design is the same for every scope.                                     *)
(*                                                                         *)
(* Deviation "RewriteCollision" (DESIGN section 6 row 9): the reverse map *)
(* effective -> supplied holds one entry per effective address (last      *)
(* writer wins, written only when the address changed), so when an        *)
(* effective address is reached from two supplied addresses every result  *)
(* for it is reported under one of them.                                   *)
(***************************************************************************)
EXTENDS PipeStatusObs, TLC, SequencesExt, Json

CONSTANTS MaxList, StSet, Scopes, Atomic, Devs, Gen

VARIABLES cfg, pc, lst, st, idx, calls, obs, devs, hist

vars == <<cfg, pc, lst, st, idx, calls, obs, devs, hist>>
View == <<cfg, pc, lst, st, idx, calls, obs, devs>>

RwChoices(x) == {<<x>>} \cup {<<e>> : e \in Eff \ {x}} \cup
                {<<p[1], p[2]>> : p \in {q \in Eff \X Eff : q[1] # q[2]}}
Lists == UNION {[1..n -> Supplied] : n \in 1..MaxList}
InPlay(rw, l) == UNION {ToSet(rw[l[i]]) : i \in 1..Len(l)}
Ext(f, D, dflt) == [x \in D |-> IF x \in DOMAIN f THEN f[x] ELSE dflt]
(* a partial target answers per effective address; an atomic (Body-only) one once *)
StPlans(rw, l) ==
  {[st |-> Ext(s, Eff, "ok"), atomic |-> FALSE, body |-> "ok"] : s \in [InPlay(rw, l) -> StSet]}
    \cup (IF Atomic THEN {[st |-> [e \in Eff |-> "ok"], atomic |-> TRUE, body |-> b] : b \in StSet} ELSE {})

H(e) == IF Gen THEN Append(hist, e) ELSE hist

InitWith(c) ==
  /\ cfg = c /\ pc = "idle" /\ lst = <<>> /\ st = <<>> /\ idx = 0 /\ calls = <<>>
  /\ obs = ObsInit /\ devs = {} /\ hist = <<>>

Init == \E a \in RwChoices("A"), b \in RwChoices("B"), sc \in Scopes :
          InitWith([rw |-> [A |-> a, B |-> b], scope |-> sc])

ChooseList(l) ==
  /\ pc = "idle" /\ lst' = l /\ pc' = "plan"
  /\ UNCHANGED <<cfg, st, idx, calls, obs, devs, hist>>

TxnStart(l, s) ==
  /\ lst' = l /\ st' = s /\ idx' = 1 /\ calls' = <<>> /\ pc' = "rcpt"
  /\ obs' = ObsTxn(obs, s)
  /\ hist' = H([rcpts |-> l, st |-> s])
  /\ UNCHANGED <<cfg, devs>>

ChoosePlan(s) == pc = "plan" /\ TxnStart(lst, s)

(* pipeline AddRcpt: every effective address is handed to the target *)
AddRcpt(r, res) ==
  /\ pc = "rcpt" /\ idx <= Len(lst) /\ r = lst[idx] /\ res = "ok"
  /\ calls' = calls \o [j \in 1..Len(cfg.rw[r]) |-> [x |-> r, e |-> cfg.rw[r][j]]]
  /\ idx' = idx + 1
  /\ obs' = ObsAddRcpt(obs, r, res)
  /\ UNCHANGED <<cfg, pc, lst, st, devs, hist>>

(* reverse map as the implementation keeps it: one entry per effective address *)
RECURSIVE OrigOf(_, _)
OrigOf(cs, e) ==          \* last supplied address x # e that produced e ("" = no entry)
  IF cs = <<>> THEN ""
  ELSE LET c == cs[Len(cs)] IN
       IF c.e = e /\ c.x # e THEN c.x ELSE OrigOf(SubSeq(cs, 1, Len(cs) - 1), e)

(* msgpipeline.BodyNonAtomic: a partial target's statuses are translated back; the  *)
(* Body error of an atomic target is reported for every address the client supplied *)
Exp(D) ==
  IF st.atomic
  THEN IF st.body = "ok" THEN <<>>
       ELSE [i \in 1..Len(calls) |-> [k |-> calls[i].x, v |-> st.body]]
  ELSE
  [i \in 1..Len(calls) |->
     [k |-> IF "RewriteCollision" \in D
            THEN (IF OrigOf(calls, calls[i].e) # "" THEN OrigOf(calls, calls[i].e) ELSE calls[i].e)
            ELSE calls[i].x,
      v |-> st.st[calls[i].e]]]
Expected == Exp(Devs)

SameBag(a, b) == /\ Len(a) = Len(b)
                 /\ \A x \in ToSet(a) \cup ToSet(b) : Count(a, x) = Count(b, x)

Body(sts) ==
  /\ pc = "rcpt" /\ idx > Len(lst)
  /\ SameBag(sts, Expected)
  /\ obs' = ObsStatuses(obs, cfg.rw, sts)
  /\ devs' = devs \cup {dv \in Devs : ~SameBag(Exp(Devs \ {dv}), Expected)}
  /\ pc' = "end"
  /\ UNCHANGED <<cfg, lst, st, idx, calls, hist>>

Finish ==
  /\ pc = "end" /\ pc' = "fin"
  /\ IF Gen THEN PrintT(<<"BEH", ToJson([cfg |-> cfg, txn |-> hist[1]])>>) ELSE TRUE
  /\ UNCHANGED <<cfg, lst, st, idx, calls, obs, devs, hist>>

Silent == FALSE /\ UNCHANGED vars

Next ==
  \/ (pc = "idle" /\ \E l \in Lists : ChooseList(l))
  \/ (pc = "plan" /\ \E s \in StPlans(cfg.rw, lst) : ChoosePlan(s))
  \/ (pc = "rcpt" /\ idx <= Len(lst) /\ AddRcpt(lst[idx], "ok"))
  \/ (pc = "rcpt" /\ idx > Len(lst) /\ Body(Expected))
  \/ Finish
  \/ (pc = "fin" /\ ~Gen /\ UNCHANGED vars)

Spec == Init /\ [][Next]_vars

NoViolation == obs.viol = {}
TypeOK == pc \in {"idle", "plan", "rcpt", "end", "fin"}
=============================================================================
