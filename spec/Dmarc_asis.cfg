\* the code's known deviations switched on: AsIsSatisfiesProp is EXPECTED to be violated
SPECIFICATION Spec
CONSTANTS
  MaxDkim = 1
  Devs = {"PSLCaseAlign", "PSLCaseFetch", "JunkNoFallback"}
  Gen = FALSE
INVARIANTS AsIsSatisfiesProp
CHECK_DEADLOCK FALSE
