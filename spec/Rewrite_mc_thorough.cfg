\* reference configuration; lib/checks/x15.py generates the ones it runs
SPECIFICATION Spec
CONSTANTS
  Fams = {"mod1", "mod2", "mod3", "pipe", "doc"}
  PipeFull = TRUE
  Devs = {}
  Gen = FALSE
INVARIANTS RuleSatisfiesProp
CHECK_DEADLOCK FALSE
