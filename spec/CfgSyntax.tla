------------------------------ MODULE CfgSyntax ------------------------------
(***************************************************************************)
(* C20 - configuration parsing never crashes and parsed trees round-trip. *)
(*                                                                         *)
(* Pattern B (decision procedure).  The input space has three layers:      *)
(*                                                                         *)
(*  "s"  structured documents: sequences of gadgets (small pieces of the   *)
(*       documented grammar of docs/reference/config-syntax.md: directives,*)
(*       plain / quoted / escaped-quote / multi-line arguments, blocks,    *)
(*       macros, snippets and imports, environment placeholders, deep      *)
(*       nesting, import ladders) rendered in a style (LF/CRLF, tabs,      *)
(*       comments, same-line closing brace, line continuation, quoted     *)
(*       arguments), with the documented breakages (missing / extra brace, *)
(*       missing block header, tokens after a closing brace, digit-leading *)
(*       or ill-formed name, unterminated quote, macro / snippet inside a  *)
(*       block).  Expected(doc) is the documented outcome: class           *)
(*       error | tree | any and, for tree, the abstract tree.              *)
(*       Directive NAMES are also generated over a character-class         *)
(*       alphabet (NameClasses: ASCII / non-ASCII letter, ASCII / non-     *)
(*       ASCII decimal digit, punctuation, other number, combining mark,   *)
(*       symbol) in five positions (top level, inside a block, as block    *)
(*       header, inside an imported snippet, in an imported file - the     *)
(*       last one through layer "i"); NameOK is the documented             *)
(*       rule (letters, digits, ". - _", no digit first).  Characters      *)
(*       outside ASCII are written as tokens ~XXXX~ (hexadecimal code      *)
(*       point) in every string of this module; the harness replaces them  *)
(*       by the character before parsing and back in what it records.      *)
(*  "m"  a structured document with one piece-level mutation (drop one     *)
(*       piece / insert one piece of a nasty alphabet): class "any".       *)
(*  "r"  raw: every string over the byte-class alphabet up to RawLen.      *)
(*       No expected outcome: crash / termination / tree invariants only.  *)
(*  "f"  the configuration files shipped with maddy.                       *)
(*  "i"  imports of files: scenarios (self-import, 2- and 3-cycles, a file *)
(*       introducing a snippet, chains of k+1 files each nesting the next  *)
(*       import d blocks deep) that the harness writes into an empty       *)
(*       directory; FileExpected(sc) is the documented outcome.            *)
(*                                                                         *)
(* Prop(in, out) is the property C20 as a declarative predicate over one   *)
(* row (input, observed outcome); Viol(in, out) names the false conjuncts. *)
(* TLC enumerates the rows (every reachable state is one row, printed as   *)
(* <<"ROW", json>>) and checks Prop on the outcome the documented rule     *)
(* mandates (invariant ModelOK).  CfgSyntaxTrace.tla evaluates the same    *)
(* Prop on what the real parser did.                                       *)
(*                                                                         *)
(* Known deviations of the code are named and switched by Devs:            *)
(*   "SelfImportDoubling"  a reachable snippet imports itself (directly or *)
(*        through a cycle) at least twice: expansion doubles per level and *)
(*        memory is exhausted before the depth limit is reached;           *)
(*   "ImportLadder"  a non-recursive ladder of snippets each importing the *)
(*        previous one twice: 2^h nodes from O(h) lines;                   *)
(*   "EmptyMacroEmbed"  a macro whose value list expanded to nothing       *)
(*        referenced inside a longer argument: index out of range.         *)
(*   "MacroCloseNesting"  a macro declaration that ends a block on its own *)
(*        line is accepted and the block is not ended: unbounded nesting.  *)
(*   "DeepImportTree"  imports put together a tree deeper than the nesting *)
(*        limit; its canonical print is refused by that limit.             *)
(***************************************************************************)
EXTENDS Naturals, Sequences, FiniteSets, TLC, Json, SequencesExt

CONSTANTS
  MaxItems,   \* structured docs: up to this many gadgets
  Styles,     \* set of styles (each a set of flags)
  MutLen,     \* docs of up to this many gadgets get single-piece mutations (0: none)
  RawLen,     \* raw strings up to this length
  Depths,     \* depths of the deep-nesting gadgets
  Ladders,    \* heights of the import-ladder gadgets
  MacroCloses, \* repetitions of the "macro declaration closes a block on its line" gadget
  SnipDeeps,  \* depths of the "deep snippet imported deep inside blocks" gadgets
  SnipSplits, \* 1000000*e + 1000*o + i: snippet i blocks deep imported o blocks deep; e = 1: innermost block empty
  FileSplits, \* same encoding: file i blocks deep imported o blocks deep
  FileChains, \* 1000*k + d: chains of k+1 files, each nesting the next import inside d blocks
  NameCodes,  \* 1000000*position + the name's character classes as base-16 digits (first character lowest)
  Devs        \* deviations of the code the rule takes into account (as-is model)

VARIABLES layer, doc, style, mut, raw
vars == <<layer, doc, style, mut, raw>>

NestLimit == 256      \* "Level of nesting is limited" - deepest accepted block depth
ExpLimit  == 255      \* import expansion depth limit
\* Bound on the nesting of a returned tree when imports are involved: the nesting limit
\* applies to what Read returns, however the tree was put together.
ImportDepthBound == NestLimit
LadderMax == 16       \* ladders up to this height must expand (2^16 nodes); higher: any
\* VERIF_UNSET is not set; VERIF_BSNL holds a backslash directly followed by a newline
EnvTable  == [VERIF_SET |-> "ENVVAL", VERIF_BSNL |-> "x\\\ny"]
(* the shipped files and the environment their documentation asks for (docs/docker.md) *)
ShippedFiles ==
  { [path |-> "maddy.conf", env |-> EnvTable],
    [path |-> "maddy.conf.docker", env |-> [MADDY_HOSTNAME |-> "mx.example.org", MADDY_DOMAIN |-> "example.org"]] }

-----------------------------------------------------------------------------
(* Raw layer: the byte-class alphabet                                        *)
ByteClasses ==
  << [c |-> "letter", b |-> <<97>>],  [c |-> "digit", b |-> <<49>>], [c |-> "space", b |-> <<32>>],
     [c |-> "lf", b |-> <<10>>],      [c |-> "cr", b |-> <<13>>],    [c |-> "lbrace", b |-> <<123>>],
     [c |-> "rbrace", b |-> <<125>>], [c |-> "quote", b |-> <<34>>], [c |-> "bslash", b |-> <<92>>],
     [c |-> "hash", b |-> <<35>>],    [c |-> "dollar", b |-> <<36>>], [c |-> "lparen", b |-> <<40>>],
     [c |-> "rparen", b |-> <<41>>],  [c |-> "dot", b |-> <<46>>],   [c |-> "eq", b |-> <<61>>],
     [c |-> "nul", b |-> <<0>>],      [c |-> "xff", b |-> <<255>>],  [c |-> "multibyte", b |-> <<195, 169>>],
     \* a decimal digit outside ASCII (U+0663 ARABIC-INDIC DIGIT THREE): a token made of it is a
     \* directive name that starts with a digit
     [c |-> "nadigit", b |-> <<217, 163>>] >>
NClasses == Len(ByteClasses)
RawBytes(r) == FlattenSeq([i \in 1..Len(r) |-> ByteClasses[r[i]].b])

-----------------------------------------------------------------------------
(* Structured layer: abstract syntax                                         *)
(* fragment: literal text (s = value, src = its spelling inside quotes),     *)
(*           environment placeholder (s = variable), macro reference (s =    *)
(*           macro name)                                                     *)
Lit(s)        == [k |-> "lit", s |-> s, src |-> s]
LitQ(s, src)  == [k |-> "lit", s |-> s, src |-> src]
Env(v)        == [k |-> "env", s |-> v, src |-> ""]
Mac(m)        == [k |-> "mac", s |-> m, src |-> ""]
P(s)          == [q |-> "bare", f |-> <<Lit(s)>>]                \* plain argument
Q(s, src)     == [q |-> "dq", f |-> <<LitQ(s, src)>>]            \* quoted argument
MRef(m)       == [q |-> "bare", f |-> <<Mac(m)>>]                \* $(m) as a whole argument
MEmb(a, m, b) == [q |-> "bare", f |-> <<Lit(a), Mac(m), Lit(b)>>]  \* a$(m)b
EnvA(a, v, b) == [q |-> "bare", f |-> <<Lit(a), Env(v), Lit(b)>>]  \* a{env:v}b

(* item: directive / macro definition / snippet definition                   *)
Item(k, n, a, blk, c, brk, eq) ==
  [k |-> k, n |-> n, a |-> a, blk |-> blk, c |-> c, brk |-> brk, eq |-> eq]
D(n, a)      == Item("dir", n, a, FALSE, <<>>, "none", TRUE)
B(n, a, c)   == Item("dir", n, a, TRUE, c, "none", TRUE)
I(s)         == D("import", <<P(s)>>)
M(m, a)      == Item("macro", m, a, FALSE, <<>>, "none", TRUE)
MNoEq(m, a)  == Item("macro", m, a, FALSE, <<>>, "none", FALSE)
S(s, c)      == Item("snip", s, <<>>, TRUE, c, "none", TRUE)
Brk(it, b)   == [it EXCEPT !.brk = b]
BD           == B("a", <<P("x")>>, <<D("b", <<P("y")>>), D("c", <<>>)>>)

RECURSIVE DeepItem(_)
DeepItem(d) == IF d <= 1 THEN B("a", <<>>, <<D("c", <<P("z")>>)>>)
               ELSE B("a", <<>>, <<DeepItem(d - 1)>>)
RECURSIVE DeepWrap(_, _)
DeepWrap(d, inner) == IF d = 0 THEN inner ELSE B("a", <<>>, <<DeepWrap(d - 1, inner)>>)
(* a block whose only child, a macro declaration, carries the closing brace on its line *)
MacroCloseItem == Brk(B("x", <<>>, <<M("m", <<P("1"), P("2")>>)>>), "sameclose")
(* a snippet d blocks deep, imported d blocks deep                                      *)
(* d nested blocks, the innermost one empty (e = 1) or holding one directive (e = 0)   *)
DeepEnd(d, e) == IF e = 1 THEN DeepWrap(d - 1, B("a", <<>>, <<>>)) ELSE DeepWrap(d, D("c", <<P("z")>>))
SplitE(c) == c \div 1000000
SplitO(c) == (c % 1000000) \div 1000
SplitI(c) == c % 1000
SnipSplitItems(c) == <<S("s", <<DeepEnd(SplitI(c), SplitE(c))>>), DeepWrap(SplitO(c), I("s"))>>
SnipDeepItems(d) == <<S("s", <<DeepWrap(d, D("c", <<P("z")>>))>>), DeepWrap(d, I("s"))>>
(* names over the character-class alphabet *)
NameClasses ==
  << [c |-> "L", s |-> "k"],       [c |-> "Lx", s |-> "~00E9~"],  \* letter: ASCII, LATIN SMALL LETTER E WITH ACUTE
     [c |-> "D", s |-> "7"],       [c |-> "Dx", s |-> "~0663~"],  \* decimal digit (Nd): ASCII, ARABIC-INDIC DIGIT THREE,
     [c |-> "Df", s |-> "~FF11~"],                                \*   FULLWIDTH DIGIT ONE
     [c |-> "P", s |-> "_"],                                      \* allowed punctuation
     [c |-> "N", s |-> "~00B2~"],                                 \* a number that is no decimal digit: SUPERSCRIPT TWO (No)
     [c |-> "M", s |-> "~0301~"],                                 \* COMBINING ACUTE ACCENT (Mn)
     [c |-> "X", s |-> "~20AC~"] >>                               \* EURO SIGN (Sc)
NmPos(c) == c \div 1000000
RECURSIVE NmDigits(_)
NmDigits(n) == IF n = 0 THEN <<>> ELSE <<n % 16>> \o NmDigits(n \div 16)
NmCls(c) == LET ds == NmDigits(c % 1000000) IN [i \in 1..Len(ds) |-> NameClasses[ds[i]].c]
NmStr(c) == LET ds == NmDigits(c % 1000000) IN
            FoldLeft(LAMBDA acc, i : acc \o NameClasses[ds[i]].s, "", [i \in 1..Len(ds) |-> i])
\* "directive name": letters, digits and . - _ ; the first character is not a digit
NameOK(cs) == /\ cs[1] \in {"L", "Lx", "P"}
              /\ \A i \in 1..Len(cs) : cs[i] \in {"L", "Lx", "D", "Dx", "Df", "P"}
\* the class the harness reports for a character (letter / decimal digit / punctuation / other)
HClass(c) == CASE c \in {"L", "Lx"} -> "L" [] c \in {"D", "Dx", "Df"} -> "D" [] c = "P" -> "P" [] OTHER -> "X"
LName(i) == "l" \o ToString(i)
LadderItems(h) ==
  <<S(LName(0), <<D("c", <<>>)>>)>> \o
  [i \in 1..h |-> S(LName(i), <<I(LName(i - 1)), I(LName(i - 1))>>)] \o
  <<I(LName(h))>>

(* The gadget pool: name -> sequence of top-level items                      *)
FixedPool ==
  [ D_noargs    |-> <<D("a", <<>>)>>,
    D_args      |-> <<D("a", <<P("x"), P("y1")>>)>>,
    D_quoted    |-> <<D("a", <<Q("p q", "p q"), P("z")>>)>>,
    D_escquote  |-> <<D("a", <<Q("p\"q", "p\\\"q"), Q("\"", "\\\"")>>)>>,
    D_backslash |-> <<D("a", <<Q("p\\q", "p\\q"), P("x\\y"), P("k")>>)>>,
    D_bslash4   |-> <<D("a", <<Q("p\\\\\\\\q", "p\\\\\\\\q"), Q("\\\\", "\\\\")>>)>>,
    D_multiline |-> <<D("a", <<Q("p\nq", "p\nq"), P("z")>>)>>,
    \* a quoted token with a backslash directly followed by LF (CR LF): the lexer's line
    \* counter and the Dispenser's count of line breaks inside the token must agree,
    \* whether the token ends its line, is followed by arguments, or by "{"
    D_bsnl_last |-> <<D("a", <<Q("x\\\ny", "x\\\ny")>>), D("c", <<P("d")>>)>>,
    D_bsnl_args |-> <<D("a", <<Q("x\\\ny", "x\\\ny"), P("b")>>), D("c", <<P("d")>>)>>,
    D_bsnl_blk  |-> <<B("a", <<Q("x\\\ny", "x\\\ny")>>, <<D("b", <<P("y")>>)>>), D("c", <<P("d")>>)>>,
    D_bsnl_crlf |-> <<B("a", <<Q("x\\\r\ny", "x\\\r\ny"), Q("p\\\n\\\nq", "p\\\n\\\nq")>>, <<D("b", <<Q("y\\\r\n", "y\\\r\n"), P("k")>>)>>),
                      D("c", <<P("d")>>)>>,
    \* the same token arriving through the environment: the tree has it in the middle of
    \* an argument list / before a block although no source line was written that way
    E_bsnl_args |-> <<D("a", <<EnvA("", "VERIF_BSNL", ""), P("b")>>), D("c", <<P("d")>>)>>,
    E_bsnl_blk  |-> <<B("a", <<EnvA("", "VERIF_BSNL", "")>>, <<D("b", <<EnvA("", "VERIF_BSNL", "")>>)>>), D("c", <<P("d")>>)>>,
    \* environment placeholders (set and unset) inside snippet bodies, in macro values used
    \* inside snippets, in block headers and in nested blocks
    S_env_imp   |-> <<S("s", <<D("b", <<EnvA("p/", "VERIF_SET", "/q"), EnvA("", "VERIF_UNSET", "")>>),
                               B("c", <<EnvA("", "VERIF_SET", "")>>, <<D("b", <<EnvA("x", "VERIF_UNSET", "y")>>)>>)>>),
                      I("s")>>,
    S_env       |-> <<S("s", <<D("b", <<EnvA("", "VERIF_SET", ""), [q |-> "dq", f |-> <<LitQ("p ", "p "), Env("VERIF_UNSET")>>]>>)>>)>>,
    S_env_macro |-> <<M("m", <<EnvA("", "VERIF_SET", ""), EnvA("u", "VERIF_UNSET", "")>>),
                      M("n", <<EnvA("k", "VERIF_SET", "")>>),
                      S("t", <<B("b", <<MRef("m")>>, <<D("c", <<MEmb("p/", "n", "/q")>>)>>)>>),
                      B("a", <<>>, <<I("t")>>)>>,
    E_blockhdr  |-> <<B("a", <<EnvA("", "VERIF_SET", ""), EnvA("", "VERIF_UNSET", "")>>,
                        <<B("b", <<EnvA("h", "VERIF_SET", "")>>, <<D("c", <<EnvA("", "VERIF_SET", ""), EnvA("x", "VERIF_UNSET", "")>>)>>)>>)>>,
    D_hashquote |-> <<D("a", <<Q("x#y {", "x#y {"), P("z")>>)>>,
    D_emptyarg  |-> <<D("a", <<Q("", ""), P("x")>>)>>,
    \* arguments outside ASCII: NO-BREAK SPACE (white space to unicode.IsSpace) inside quotes, a bare non-ASCII
    \* letter / digit, a quoted LINE SEPARATOR
    D_unicode   |-> <<D("a", <<Q("p~00A0~q", "p~00A0~q"), P("z~00E9~~0663~"), Q("~2028~", "~2028~")>>)>>,
    D_names     |-> <<D("a.b-c_d", <<>>), D("_a1", <<P("1")>>)>>,
    D_emptyblk  |-> <<B("a", <<>>, <<>>)>>,
    D_block     |-> <<BD>>,
    D_nested    |-> <<B("a", <<>>, <<B("b", <<P("y")>>, <<D("c", <<P("z")>>)>>), D("c", <<>>)>>)>>,
    D_nestlast  |-> <<B("a", <<P("x")>>, <<D("c", <<>>), B("b", <<>>, <<D("c", <<P("z")>>)>>)>>)>>,
    U_whole     |-> <<D("a", <<P("x"), MRef("m")>>)>>,
    U_embed     |-> <<D("a", <<MEmb("p/", "m", "/q")>>)>>,
    U_embed_n   |-> <<D("c", <<MEmb("p/", "n", "/q")>>)>>,
    U_child     |-> <<B("a", <<MRef("m")>>, <<D("b", <<MRef("n"), P("k")>>)>>)>>,
    M_single    |-> <<M("m", <<P("v")>>)>>,
    M_multi     |-> <<M("m", <<P("v"), P("w")>>)>>,
    M_quoted    |-> <<M("m", <<Q("v w", "v w")>>)>>,
    M_nested    |-> <<M("n", <<MRef("m"), P("u")>>)>>,
    M_alias     |-> <<M("n", <<MRef("m")>>)>>,
    M_env       |-> <<M("m", <<EnvA("", "VERIF_SET", "")>>)>>,
    M_novalue   |-> <<M("m", <<>>)>>,
    M_noeq      |-> <<MNoEq("m", <<P("v"), P("w")>>)>>,
    M_asname    |-> <<MNoEq("m", <<P("1")>>)>>,
    M_inblock   |-> <<B("a", <<>>, <<M("m", <<P("v")>>)>>)>>,
    E_set       |-> <<D("a", <<EnvA("", "VERIF_SET", "")>>)>>,
    E_unset     |-> <<D("a", <<EnvA("x", "VERIF_UNSET", "y"), EnvA("", "VERIF_UNSET", "")>>)>>,
    E_quoted    |-> <<D("a", <<[q |-> "dq", f |-> <<LitQ("p ", "p "), Env("VERIF_SET")>>]>>)>>,
    E_partial   |-> <<D("a", <<P("{env:VERIF_SET")>>)>>,
    S_def       |-> <<S("s", <<D("b", <<P("y")>>)>>)>>,
    S_macro     |-> <<S("s", <<D("b", <<MRef("m")>>)>>)>>,
    S_def_t     |-> <<S("t", <<D("c", <<>>), B("b", <<>>, <<D("c", <<P("z")>>)>>)>>)>>,
    S_empty     |-> <<S("s", <<>>)>>,
    S_chain     |-> <<S("s", <<D("b", <<>>), I("t")>>)>>,
    S_self      |-> <<S("s", <<I("s")>>)>>,
    S_self2     |-> <<S("s", <<I("s"), I("s")>>)>>,
    S_selfblk   |-> <<S("s", <<B("b", <<>>, <<I("s")>>)>>)>>,
    S_mutual    |-> <<S("t", <<I("s")>>)>>,
    S_mutual2   |-> <<S("t", <<I("s"), I("s")>>)>>,
    S_args      |-> <<Item("snip", "s", <<P("x")>>, TRUE, <<>>, "none", TRUE)>>,
    S_inblock   |-> <<B("a", <<>>, <<S("s", <<D("b", <<>>)>>)>>)>>,
    I_s         |-> <<I("s")>>,
    I_t         |-> <<I("t")>>,
    I_undef     |-> <<I("u")>>,
    I_twice     |-> <<I("s"), I("s")>>,
    I_block     |-> <<B("a", <<P("x")>>, <<D("c", <<>>), I("s")>>)>>,
    I_noarg     |-> <<D("import", <<>>)>>,
    K_noclose   |-> <<Brk(BD, "noclose")>>,
    K_xclose    |-> <<Brk(BD, "extraclose")>>,
    K_xopen     |-> <<Brk(BD, "extraopen")>>,
    K_noheader  |-> <<Brk(BD, "noheader")>>,
    K_trail     |-> <<Brk(BD, "trail")>>,
    K_digit     |-> <<Brk(D("a", <<P("x")>>), "digit")>>,
    K_badchar   |-> <<Brk(D("a", <<P("x")>>), "badchar")>>,
    K_unterm    |-> <<Brk(D("a", <<P("x"), P("y")>>), "unterm")>> ]

NmItems(c) ==
  LET nm == NmStr(c)
      mk(it) == IF NameOK(NmCls(c)) THEN it ELSE [it EXCEPT !.brk = "badname"]
  IN  CASE NmPos(c) = 0 -> <<mk(D(nm, <<P("x")>>))>>
        [] NmPos(c) = 1 -> <<B("a", <<>>, <<mk(D(nm, <<P("x")>>)), D("c", <<>>)>>)>>
        [] NmPos(c) = 2 -> <<mk(B(nm, <<P("x")>>, <<D("b", <<P("y")>>)>>))>>
        [] OTHER        -> <<S("s", <<mk(D(nm, <<>>))>>), B("a", <<>>, <<I("s")>>)>>
NmName(c) == "X_name" \o ToString(c)
DeepName(d)   == "X_deep" \o ToString(d)
LadderName(h) == "X_ladder" \o ToString(h)
MCloseName(n) == "X_mclose" \o ToString(n)
SnipDeepName(d) == "X_snipdeep" \o ToString(d)
SnipSplitName(c) == "X_snipsplit" \o ToString(c)
GadgetNames == DOMAIN FixedPool \cup {DeepName(d) : d \in Depths} \cup {LadderName(h) : h \in Ladders}
               \cup {MCloseName(n) : n \in MacroCloses} \cup {SnipDeepName(d) : d \in SnipDeeps}
               \cup {SnipSplitName(c) : c \in SnipSplits} \cup {NmName(c) : c \in {x \in NameCodes : NmPos(x) <= 3}}
Gadget(g) ==
  IF g \in DOMAIN FixedPool THEN FixedPool[g]
  ELSE IF \E c \in NameCodes : g = NmName(c) THEN NmItems(CHOOSE c \in NameCodes : g = NmName(c))
  ELSE IF \E d \in Depths : g = DeepName(d) THEN <<DeepItem(CHOOSE d \in Depths : g = DeepName(d))>>
  ELSE IF \E n \in MacroCloses : g = MCloseName(n)
       THEN [i \in 1..(CHOOSE n \in MacroCloses : g = MCloseName(n)) |-> MacroCloseItem]
  ELSE IF \E c \in SnipSplits : g = SnipSplitName(c)
       THEN SnipSplitItems(CHOOSE c \in SnipSplits : g = SnipSplitName(c))
  ELSE IF \E d \in SnipDeeps : g = SnipDeepName(d)
       THEN SnipDeepItems(CHOOSE d \in SnipDeeps : g = SnipDeepName(d))
  ELSE LadderItems(CHOOSE h \in Ladders : g = LadderName(h))
ItemsOf(dc) == FlattenSeq([i \in 1..Len(dc) |-> Gadget(dc[i])])

-----------------------------------------------------------------------------
(* Rendering: document -> sequence of pieces -> source text                  *)
Concat(ps) == FoldLeft(LAMBDA acc, p : acc \o p, "", ps)
NL(st)     == IF "crlf" \in st THEN "\r\n" ELSE "\n"
(* indentation is one piece per line and stops growing at 8 levels (it is   *)
(* irrelevant to the grammar; TLC interns every string it builds)            *)
RECURSIVE IndStr(_, _)
IndStr(st, d) == IF d = 0 THEN "" ELSE IndStr(st, d - 1) \o (IF "tabs" \in st THEN "\t" ELSE "    ")
Ind(st, d) == IF d = 0 THEN <<>> ELSE <<IndStr(st, IF d > 8 THEN 8 ELSE d)>>
Term(st)   == (IF "comments" \in st THEN <<" ", "# c { \" $(m) (s)">> ELSE <<>>) \o <<NL(st)>>

FragSrc(f, quoted) == CASE f.k = "lit" -> (IF quoted THEN f.src ELSE f.s)
                        [] f.k = "env" -> "{env:" \o f.s \o "}"
                        [] f.k = "mac" -> "$(" \o f.s \o ")"
ArgSrc(a, st, unterm) ==
  LET quoted == a.q = "dq" \/ "quote" \in st \/ unterm
      body   == Concat([i \in 1..Len(a.f) |-> FragSrc(a.f[i], quoted)])
  IN  IF unterm THEN "\"" \o body ELSE IF quoted THEN "\"" \o body \o "\"" ELSE body

HeadName(it) == CASE it.k = "macro" -> "$(" \o it.n \o ")"
                  [] it.k = "snip"  -> "(" \o it.n \o ")"
                  [] it.brk = "digit" -> "1" \o it.n
                  [] it.brk = "badchar" -> it.n \o "@%"
                  [] OTHER -> it.n
HeadArgs(it) == IF it.k = "macro" /\ it.eq THEN <<P("=")>> \o it.a ELSE it.a

Hdr(it, st, d) ==
  LET as == HeadArgs(it)
      n  == Len(as)
      one(i) == (IF "cont" \in st /\ n >= 2 /\ i = n
                 THEN <<" ", "\\", NL(st)>> \o Ind(st, d + 1) ELSE <<" ">>)
                \o <<ArgSrc(as[i], st, it.brk = "unterm" /\ i = n)>>
  IN  IF it.brk = "noheader" THEN <<>>
      ELSE <<HeadName(it)>> \o FlattenSeq([i \in 1..n |-> one(i)])

RECURSIVE Line(_, _, _)
(* the pieces of one item without its final line terminator                  *)
Line(it, st, d) ==
  LET n       == Len(it.c)
      sameOK  == \/ it.brk = "sameclose" /\ n > 0
                 \/ "same" \in st /\ it.brk = "none" /\ n > 0 /\ ~it.c[n].blk /\ it.c[n].brk = "none"
                    /\ it.c[n].k = "dir"
      child(i) == Ind(st, d + 1) \o Line(it.c[i], st, d + 1) \o
                  (IF sameOK /\ i = n THEN <<" ">> ELSE Term(st))
      open    == IF it.brk = "extraopen" THEN <<"{", " ", "{">> ELSE <<"{">>
      close   == CASE it.brk = "noclose"    -> <<>>
                   [] it.brk = "extraclose" -> <<"}", " ", "}">>
                   [] it.brk = "trail"      -> <<"}", " ", "b", " ", "b1">>
                   [] OTHER                 -> <<"}">>
      body    == IF n = 0 THEN <<" ">>
                 ELSE Term(st) \o FlattenSeq([i \in 1..n |-> child(i)]) \o
                      (IF sameOK THEN <<>> ELSE Ind(st, d))
  IN  Hdr(it, st, d) \o
      (IF it.blk THEN (IF it.brk = "noheader" THEN <<>> ELSE <<" ">>) \o open \o body \o close
       ELSE <<>>)

Pieces(items, st) ==
  FlattenSeq([i \in 1..Len(items) |->
     (IF "comments" \in st THEN <<"# comment } ", NL(st), NL(st)>> ELSE <<>>)
     \o Line(items[i], st, 0) \o Term(st)])

NoMut == [op |-> "none", at |-> 0, p |-> ""]
MutAlphabet == {"{", "}", "\"", "\\", "#", "$(m)", "(s)", "import", "=", "\n", " ", "{env:", "~0663~"}
ApplyMut(ps, m) ==
  CASE m.op = "drop" -> RemoveAt(ps, m.at)
    [] m.op = "ins"  -> IF m.at > Len(ps) THEN Append(ps, m.p) ELSE InsertAt(ps, m.at, m.p)
    [] OTHER -> ps
MutsOf(ps) ==
  {[op |-> "drop", at |-> i, p |-> ""] : i \in 1..Len(ps)} \cup
  {[op |-> "ins", at |-> i, p |-> p] : i \in 1..(Len(ps) + 1), p \in MutAlphabet}

(* the source text is the concatenation of the pieces (done by the harness)  *)
SourcePieces(dc, st, m) == ApplyMut(Pieces(ItemsOf(dc), st), m)

-----------------------------------------------------------------------------
(* The documented rule: Expected(items)                                       *)
(* A value is a sequence of lit/env fragments; the macro table maps a name to *)
(* a sequence of values, the snippet table a name to a sequence of nodes.     *)
Empty == [x \in {} |-> <<>>]
RS0   == [err |-> FALSE, dev |-> {}, out |-> <<>>, mt |-> Empty, sn |-> Empty]

ExpandArg(a, mt) ==
  IF Len(a.f) = 1 /\ a.f[1].k = "mac"
  THEN [err |-> FALSE, dev |-> {},
        vals |-> IF a.f[1].s \in DOMAIN mt THEN mt[a.f[1].s] ELSE <<>>]   \* undefined: zero arguments
  ELSE LET refs  == {i \in 1..Len(a.f) : a.f[i].k = "mac"}
           multi == \E i \in refs : a.f[i].s \in DOMAIN mt /\ Len(mt[a.f[i].s]) > 1
           empty == \E i \in refs : a.f[i].s \in DOMAIN mt /\ Len(mt[a.f[i].s]) = 0
           sub(fr) == IF fr.k # "mac" THEN <<fr>>
                      ELSE IF fr.s \in DOMAIN mt /\ Len(mt[fr.s]) = 1 THEN mt[fr.s][1] ELSE <<>>
       IN  [err |-> multi, dev |-> IF empty /\ ~multi THEN {"EmptyMacroEmbed"} ELSE {},
            vals |-> << FlattenSeq([i \in 1..Len(a.f) |-> sub(a.f[i])]) >>]
ExpandArgs(as, mt) ==
  LET ex == [i \in 1..Len(as) |-> ExpandArg(as[i], mt)]
  IN  [err |-> \E i \in 1..Len(as) : ex[i].err,
       dev |-> UNION {ex[i].dev : i \in {j \in 1..Len(as) : \A k \in 1..(j - 1) : ~ex[k].err}},
       vals |-> FlattenSeq([i \in 1..Len(as) |-> ex[i].vals])]

BadBrk == {"noclose", "extraclose", "extraopen", "noheader", "trail", "digit", "badchar", "badname"}

RECURSIVE ReadItems(_, _, _)
ReadItem(it, top, st) ==
  IF st.err THEN st
  ELSE IF it.brk \in BadBrk THEN [st EXCEPT !.err = TRUE]
  ELSE LET body == ReadItems(it.c, FALSE, [st EXCEPT !.out = <<>>])
           ex   == ExpandArgs(it.a, st.mt)
           st1  == [st EXCEPT !.dev = @ \cup body.dev \cup (IF body.err THEN {} ELSE ex.dev)]
           fail == [st1 EXCEPT !.err = TRUE]
       IN CASE it.k = "macro" ->
                 IF ~top \/ ~it.eq \/ Len(it.a) = 0 \/ ex.err THEN fail
                 ELSE [st1 EXCEPT !.mt = (it.n :> ex.vals) @@ @]
            [] it.k = "snip" ->
                 IF ~top \/ Len(it.a) > 0 \/ body.err THEN fail
                 ELSE [st1 EXCEPT !.sn = (it.n :> body.out) @@ @]
            [] OTHER ->
                 IF body.err \/ ex.err THEN fail
                 ELSE [st1 EXCEPT !.out = Append(@, [n |-> it.n, a |-> ex.vals, b |-> it.blk, c |-> body.out])]
ReadItems(items, top, st) ==
  IF items = <<>> THEN st ELSE ReadItems(Tail(items), top, ReadItem(Head(items), top, st))

ImportName(nd) == IF Len(nd.a) = 1 /\ Len(nd.a[1]) = 1 /\ nd.a[1][1].k = "lit" THEN nd.a[1][1].s ELSE "?"

RECURSIVE ExpandImports(_, _, _)
ExpandNode(nd, sn, stack) ==
  IF nd.n = "import" THEN
     LET s == ImportName(nd) IN
     IF Len(nd.a) # 1 \/ s \notin DOMAIN sn      \* no such snippet (and no such file)
        \/ s \in stack                            \* unlimited recursive expansion
        \/ Cardinality(stack) >= ExpLimit
     THEN [err |-> TRUE, out |-> <<>>]
     ELSE ExpandImports(sn[s], sn, stack \cup {s})
  ELSE LET cs == ExpandImports(nd.c, sn, stack)
       IN  [err |-> cs.err, out |-> <<[nd EXCEPT !.c = cs.out]>>]
ExpandImports(nodes, sn, stack) ==
  IF nodes = <<>> THEN [err |-> FALSE, out |-> <<>>]
  ELSE LET h == ExpandNode(Head(nodes), sn, stack)
           t == ExpandImports(Tail(nodes), sn, stack)
       IN  [err |-> h.err \/ t.err, out |-> h.out \o t.out]

(* import multigraph of the snippets, for the doubling deviation             *)
RECURSIVE ImportsIn(_)
ImportsIn(nodes) ==   \* sequence of the snippet names imported anywhere below `nodes`
  FlattenSeq([i \in 1..Len(nodes) |->
     IF nodes[i].n = "import" THEN <<ImportName(nodes[i])>> ELSE ImportsIn(nodes[i].c)])
RECURSIVE ReachFrom(_, _, _)
ReachFrom(front, seen, sn) ==
  LET new == (UNION {ToSet(ImportsIn(sn[s])) : s \in front} \cap DOMAIN sn) \ seen
  IN  IF new = {} THEN seen ELSE ReachFrom(new, seen \cup new, sn)
Doubling(nodes, sn) ==
  LET roots == ToSet(ImportsIn(nodes)) \cap DOMAIN sn
      reach == ReachFrom(roots, roots, sn)
      back(s) == {i \in 1..Len(ImportsIn(sn[s])) :
                    LET t == ImportsIn(sn[s])[i] IN
                    t \in DOMAIN sn /\ s \in ReachFrom({t}, {t}, sn)}
  IN  \E s \in reach : Cardinality(back(s)) >= 2

EnvVal(v) == IF v \in DOMAIN EnvTable THEN EnvTable[v] ELSE ""
ValStr(val) == Concat([i \in 1..Len(val) |-> IF val[i].k = "env" THEN EnvVal(val[i].s) ELSE val[i].s])
RECURSIVE Resolve(_)
Resolve(nodes) ==
  [i \in 1..Len(nodes) |->
     [n |-> nodes[i].n, a |-> [j \in 1..Len(nodes[i].a) |-> ValStr(nodes[i].a[j])],
      b |-> nodes[i].b, c |-> Resolve(nodes[i].c)]]

RECURSIVE BlockDepthItems(_)
BlockDepthItems(items) ==
  IF items = <<>> THEN 0
  ELSE LET h == Head(items)
           dh == IF h.blk THEN 1 + BlockDepthItems(h.c) ELSE 0
           dt == BlockDepthItems(Tail(items))
       IN  IF dh > dt THEN dh ELSE dt
RECURSIVE CountBrk(_, _)
CountBrk(items, set) ==
  IF items = <<>> THEN 0
  ELSE (IF Head(items).brk \in set THEN 1 ELSE 0) + CountBrk(Head(items).c, set) + CountBrk(Tail(items), set)

DevClass(d) == CASE d = "SelfImportDoubling" -> {"oom", "timeout"}
                 [] d = "ImportLadder"       -> {"oom", "timeout"}
                 [] d = "EmptyMacroEmbed"    -> {"panic"}
                 [] d = "MacroCloseNesting"  -> {"tree"}
                 [] d = "DeepImportTree"     -> {"tree"}
                 [] OTHER -> {}
HardDevs == {"SelfImportDoubling", "ImportLadder", "EmptyMacroEmbed"}   \* these fix the outcome class

RECURSIVE NodesDepth(_)
NodesDepth(nodes) ==
  IF nodes = <<>> THEN 0
  ELSE LET h  == Head(nodes)
           dh == IF h.b THEN 1 + NodesDepth(h.c) ELSE 0
           dt == NodesDepth(Tail(nodes))
       IN  IF dh > dt THEN dh ELSE dt
RECURSIVE HasMacroClose(_)
HasMacroClose(items) ==
  \E i \in 1..Len(items) :
     \/ items[i].brk = "sameclose" /\ items[i].c # <<>> /\ items[i].c[Len(items[i].c)].k = "macro"
     \/ HasMacroClose(items[i].c)

RECURSIVE HasImportItem(_)
HasImportItem(items) ==
  \E i \in 1..Len(items) : (items[i].k = "dir" /\ items[i].n = "import") \/ HasImportItem(items[i].c)

(* Analyse(dc): everything about the structured document dc that does not    *)
(* depend on which deviations are taken into account (evaluated once per row) *)
Analyse(dc) ==
  LET items  == ItemsOf(dc)
      nbad   == CountBrk(items, BadBrk)
      unterm == CountBrk(items, {"unterm"}) > 0
      tooDeep == BlockDepthItems(items) > NestLimit
      rd     == ReadItems(items, TRUE, RS0)
      bigLadder == \E i \in 1..Len(dc) : \E h \in Ladders : dc[i] = LadderName(h) /\ h > LadderMax
      noImp  == rd.err \/ bigLadder \/ nbad > 0 \/ tooDeep \/ unterm   \* outcome fixed without expanding
      imp    == IF noImp THEN [err |-> TRUE, out |-> <<>>] ELSE ExpandImports(rd.out, rd.sn, {})
      impNames == ToSet(ImportsIn(rd.out)) \cup UNION {ToSet(ImportsIn(rd.sn[s])) : s \in DOMAIN rd.sn}
  IN  [nbad |-> nbad, unterm |-> unterm, tooDeep |-> tooDeep, rdErr |-> rd.err, rdDev |-> rd.dev,
       bigLadder |-> bigLadder /\ ~rd.err,
       unknown |-> ~rd.err /\ ~(impNames \subseteq DOMAIN rd.sn),
       dbl |-> ~rd.err /\ Doubling(rd.out, rd.sn),
       err |-> nbad > 0 \/ tooDeep \/ rd.err \/ imp.err,
       out |-> imp.out,
       outDepth |-> NodesDepth(imp.out),
       mclose |-> HasMacroClose(items),
       imports |-> HasImportItem(items)]

(* Classify(an, enabled): [class, tree, devs]                                 *)
(*   enabled: the deviations taken into account                               *)
(*   class "any": the documentation does not fix the outcome                  *)
(*   devs: the enabled deviations this document can trigger                   *)
Classify(an, enabled) ==
  LET deep == an.outDepth > NestLimit      \* only reachable through imports
      devs == ((an.rdDev \cup (IF an.dbl THEN {"SelfImportDoubling"} ELSE {})
                \cup (IF an.bigLadder THEN {"ImportLadder"} ELSE {})
                \cup (IF an.mclose THEN {"MacroCloseNesting"} ELSE {})
                \cup (IF deep THEN {"DeepImportTree"} ELSE {})) \cap enabled)
      hard == devs \cap HardDevs
      cls  == IF an.unterm \/ an.nbad > 1 THEN "any"
              ELSE IF hard # {} THEN
                     (IF an.nbad > 0 \/ an.tooDeep \/ Cardinality(hard) > 1 \/ (an.rdDev = {} /\ an.unknown)
                      THEN "any"
                      ELSE CHOOSE c \in DevClass(CHOOSE d \in hard : TRUE) : c # "timeout")
              ELSE IF an.bigLadder /\ an.nbad = 0 /\ ~an.tooDeep THEN "any"
              ELSE IF "MacroCloseNesting" \in devs THEN "any"
              \* the nesting limit applies to what imports put together as well
              ELSE IF deep THEN (IF "DeepImportTree" \in devs THEN "any" ELSE "error")
              ELSE IF an.err THEN "error" ELSE "tree"
  IN  [class |-> cls, tree |-> IF cls = "tree" THEN Resolve(an.out) ELSE <<>>, devs |-> devs]

ExpectedD(dc, enabled) == Classify(Analyse(dc), enabled)
Expected(dc) == ExpectedD(dc, Devs)
AllDevs == {"SelfImportDoubling", "ImportLadder", "EmptyMacroEmbed", "MacroCloseNesting", "DeepImportTree"}

-----------------------------------------------------------------------------
(* Facts of an abstract tree, as the harness reports them for the real tree  *)
RECURSIVE TreeDepth(_)
TreeDepth(nodes) ==
  IF nodes = <<>> THEN 0
  ELSE LET h  == Head(nodes)
           dh == IF h.b THEN 1 + TreeDepth(h.c) ELSE 0
           dt == TreeDepth(Tail(nodes))
       IN  IF dh > dt THEN dh ELSE dt
(* flat (pre-order, with depths) form of a tree: what the harness records     *)
RECURSIVE Flat(_, _)
Flat(nodes, d) ==
  FlattenSeq([i \in 1..Len(nodes) |->
     <<[d |-> d, n |-> nodes[i].n, a |-> nodes[i].a, b |-> nodes[i].b]>> \o Flat(nodes[i].c, d + 1)])
RECURSIVE TreeNames(_)
TreeNames(nodes) == UNION {{nodes[i].n} \cup TreeNames(nodes[i].c) : i \in 1..Len(nodes)}
(* shapes of the names used by the pool (first character class, set of classes) *)
ModelShape(n) ==
  IF \E c \in NameCodes : n = NmStr(c)
  THEN LET cs == NmCls(CHOOSE c \in NameCodes : n = NmStr(c))
       IN  [first |-> HClass(cs[1]), all |-> SetToSeq({HClass(cs[i]) : i \in 1..Len(cs)})]
  ELSE
  CASE n = "a.b-c_d" -> [first |-> "L", all |-> <<"L", "P">>]
    [] n = "_a1"     -> [first |-> "P", all |-> <<"D", "L", "P">>]
    [] OTHER         -> [first |-> "L", all |-> <<"L">>]

-----------------------------------------------------------------------------
(* The property                                                               *)
WFShape(s) == s.first \in {"L", "P"} /\ ToSet(s.all) \subseteq {"L", "D", "P"}

DepthBound(in) ==
  IF in.layer \in {"s", "m", "i"} /\ in.imports THEN ImportDepthBound ELSE NestLimit

IsTree(out) == out.class = "tree"
P_Terminates(in, out) == out.class # "timeout"
P_NoCrash(in, out)    == out.class # "panic"
P_NoExhaust(in, out)  == out.class \notin {"oom", "nofile"}     \* memory / file descriptors
P_Outcome(in, out)    == out.class \in {"error", "tree", "panic", "timeout", "oom", "nofile"}
P_Expanded(in, out)   == IsTree(out) =>
                           out.imports = 0 /\ out.snips = 0 /\ out.macros = 0 /\ out.macroArgs = 0
\* "{env:NAME}" is replaced by the value of NAME, by nothing when NAME is not set
P_NoPlaceholderLeft(in, out) == IsTree(out) => out.envLeft = 0
P_Names(in, out)      == IsTree(out) => \A i \in 1..Len(out.shapes) : WFShape(out.shapes[i])
P_Nesting(in, out)    == IsTree(out) => out.depth <= DepthBound(in)
P_RoundTrip(in, out)  == IsTree(out) /\ out.expressible =>
                           out.rt.class = "tree" /\ out.rt.tree = out.tree
P_Shipped(in, out)    == in.layer = "f" => IsTree(out) /\ out.pipelinesOk

Viol(in, out) ==
  {p \in {"Terminates", "NoCrash", "NoExhaust", "Outcome", "Expanded", "NoPlaceholderLeft", "Names",
          "Nesting", "RoundTrip", "Shipped"} :
     ~ CASE p = "Terminates" -> P_Terminates(in, out)
         [] p = "NoCrash"    -> P_NoCrash(in, out)
         [] p = "NoExhaust"  -> P_NoExhaust(in, out)
         [] p = "Outcome"    -> P_Outcome(in, out)
         [] p = "Expanded"   -> P_Expanded(in, out)
         [] p = "NoPlaceholderLeft" -> P_NoPlaceholderLeft(in, out)
         [] p = "Names"      -> P_Names(in, out)
         [] p = "Nesting"    -> P_Nesting(in, out)
         [] p = "RoundTrip"  -> P_RoundTrip(in, out)
         [] p = "Shipped"    -> P_Shipped(in, out)}
Prop(in, out) == Viol(in, out) = {}

(* the outcome the documented rule mandates, in the vocabulary of the harness *)
RuleOut(ex) ==
  LET names == TreeNames(ex.tree) IN
  [class |-> ex.class, tree |-> Flat(ex.tree, 0),
   imports |-> Cardinality({n \in names : n = "import"}), snips |-> 0, macros |-> 0, macroArgs |-> 0,
   envLeft |-> 0,
   shapes |-> SetToSeq({ModelShape(n) : n \in names}),
   depth |-> TreeDepth(ex.tree), expressible |-> TRUE,
   rt |-> [class |-> "tree", tree |-> Flat(ex.tree, 0)], pipelinesOk |-> TRUE]

-----------------------------------------------------------------------------
(* Enumeration                                                                *)
(* Layer "i": imports of files.  A scenario is a small set of files written by the     *)
(* harness into an empty directory; the first one is parsed.                            *)
FileScenarios ==
  {[kind |-> kd, k |-> 0, d |-> 0] : kd \in {"self", "cycle2", "cycle3", "plain"}} \cup
  {[kind |-> "chain", k |-> c \div 1000, d |-> c % 1000] : c \in FileChains} \cup
  \* kind "name": position 4 of NameCodes - the name is a directive of a file imported inside a block
  {[kind |-> "name", k |-> c % 1000000, d |-> 0] : c \in {x \in NameCodes : NmPos(x) = 4}} \cup
  \* kind "split": k = blocks around the import, d = blocks in the imported file, e = innermost empty
  {[kind |-> IF SplitE(c) = 1 THEN "splitE" ELSE "split", k |-> SplitO(c), d |-> SplitI(c)] : c \in FileSplits}
ChainName(j) == IF j = 0 THEN "x.conf" ELSE "f" \o ToString(j) \o ".conf"
Leaf == D("c", <<P("z")>>)
FilesOf(sc) ==
  CASE sc.kind = "self"   -> <<[name |-> "x.conf", items |-> <<D("a", <<>>), I("x.conf")>>]>>
    [] sc.kind = "cycle2" -> <<[name |-> "x.conf", items |-> <<B("a", <<>>, <<I("fa.conf")>>)>>],
                               [name |-> "fa.conf", items |-> <<D("b", <<>>), I("fb")>>],       \* "fb" -> fb.conf
                               [name |-> "fb.conf", items |-> <<I("fa.conf")>>]>>
    [] sc.kind = "cycle3" -> <<[name |-> "x.conf", items |-> <<I("fa.conf")>>],
                               [name |-> "fa.conf", items |-> <<B("b", <<>>, <<I("fb.conf")>>)>>],
                               [name |-> "fb.conf", items |-> <<I("fc.conf"), D("c", <<>>)>>],
                               [name |-> "fc.conf", items |-> <<I("fa.conf")>>]>>
    [] sc.kind = "plain"  -> <<[name |-> "x.conf", items |-> <<I("inc.conf"), B("a", <<>>, <<I("s")>>)>>],
                               [name |-> "inc.conf", items |-> <<D("b", <<P("y")>>), S("s", <<Leaf>>)>>]>>
    [] sc.kind = "name" -> <<[name |-> "x.conf", items |-> <<B("a", <<>>, <<I("f1.conf")>>)>>],
                             [name |-> "f1.conf", items |-> NmItems(sc.k)]>>
    [] sc.kind \in {"split", "splitE"} ->
         <<[name |-> "x.conf", items |-> <<DeepWrap(sc.k, I("f1.conf"))>>],
           [name |-> "f1.conf", items |-> <<DeepEnd(sc.d, IF sc.kind = "splitE" THEN 1 ELSE 0)>>]>>
    [] OTHER -> [j \in 1..(sc.k + 1) |->
                   [name |-> ChainName(j - 1),
                    items |-> <<DeepWrap(sc.d, IF j <= sc.k THEN I(ChainName(j)) ELSE Leaf)>>]]
FilePieces(sc) == [j \in 1..Len(FilesOf(sc)) |->
                     [name |-> FilesOf(sc)[j].name, pieces |-> Pieces(FilesOf(sc)[j].items, {})]]
LeafNode == [n |-> "c", a |-> <<"z">>, b |-> FALSE, c |-> <<>>]
RECURSIVE DeepNodes(_, _)
DeepNodes(d, inner) == IF d = 0 THEN inner ELSE [n |-> "a", a |-> <<>>, b |-> TRUE, c |-> <<DeepNodes(d - 1, inner)>>]
(* documented outcome: importing a file works like importing a snippet; cycles end in   *)
(* the expansion-limit error; nesting is bounded                                         *)
FileExpected(sc, enabled) ==
  LET total == IF sc.kind \in {"split", "splitE"} THEN sc.k + sc.d ELSE (sc.k + 1) * sc.d
      bottom == IF sc.kind = "splitE" THEN [n |-> "a", a |-> <<>>, b |-> TRUE, c |-> <<>>] ELSE LeafNode
      levels == IF sc.kind = "splitE" THEN total - 1 ELSE total IN
  CASE sc.kind \in {"self", "cycle2", "cycle3"} -> [class |-> "error", tree |-> <<>>, devs |-> {}]
    [] sc.kind = "plain" ->
         [class |-> "tree", devs |-> {},
          tree |-> <<[n |-> "b", a |-> <<"y">>, b |-> FALSE, c |-> <<>>],
                     [n |-> "a", a |-> <<>>, b |-> TRUE, c |-> <<LeafNode>>]>>]
    [] sc.kind = "name" ->
         IF NameOK(NmCls(sc.k))
         THEN [class |-> "tree", devs |-> {},
               tree |-> <<[n |-> "a", a |-> <<>>, b |-> TRUE,
                           c |-> <<[n |-> NmStr(sc.k), a |-> <<"x">>, b |-> FALSE, c |-> <<>>]>>]>>]
         ELSE [class |-> "error", tree |-> <<>>, devs |-> {}]
    [] OTHER ->
         IF total <= NestLimit THEN [class |-> "tree", tree |-> <<DeepNodes(levels, bottom)>>, devs |-> {}]
         ELSE IF "DeepImportTree" \in enabled /\ total <= 2 * NestLimit
              THEN [class |-> "any", tree |-> <<>>, devs |-> {"DeepImportTree"}]
         ELSE [class |-> "error", tree |-> <<>>, devs |-> {}]
RowFile(sc) ==
  [layer |-> "i", scen |-> sc, files |-> FilePieces(sc), env |-> EnvTable, imports |-> TRUE,
   exp |-> FileExpected(sc, {}).class, xdev |-> SetToSeq(FileExpected(sc, AllDevs).devs)]

StyleSeq(st) == SetToSeq(st)
RowDoc(an) ==
  [layer |-> IF mut.op = "none" THEN "s" ELSE "m", doc |-> doc, style |-> StyleSeq(style),
   mut |-> mut, pieces |-> SourcePieces(doc, style, mut), env |-> EnvTable,
   imports |-> an.imports \/ mut.p = "import",
   exp |-> IF mut.op = "none" THEN Classify(an, {}).class ELSE "any",
   xdev |-> IF mut.op = "none" THEN SetToSeq(Classify(an, AllDevs).devs) ELSE <<>>]
RowIn ==
  CASE layer = "r" -> [layer |-> "r", cls |-> raw, bytes |-> RawBytes(raw)]
    [] layer = "f" -> [layer |-> "f", path |-> doc[1].path, env |-> doc[1].env]
    [] layer = "i" -> RowFile(doc[1])
    [] OTHER -> RowDoc(Analyse(doc))

EmitRow(r) == PrintT(<<"ROW", ToJson(r)>>)

(* (T) the documented rule satisfies the property on every structured doc    *)
ModelOK(in, ex) == ex.class = "any" \/ Prop(in, RuleOut(ex))
(* the canonical form of an expected tree is a structured document that the  *)
(* rule maps back to the same tree (round trip at the level of the model)    *)
RECURSIVE AsItems(_)
AsItems(nodes) ==
  [i \in 1..Len(nodes) |->
     Item("dir", nodes[i].n, [j \in 1..Len(nodes[i].a) |-> Q(nodes[i].a[j], nodes[i].a[j])],
          nodes[i].b, AsItems(nodes[i].c), "none", TRUE)]
ModelRoundTrip(ex) ==
  ex.class = "tree" /\ TreeDepth(ex.tree) <= NestLimit =>
     LET rd == ReadItems(AsItems(ex.tree), TRUE, RS0) IN
     ~rd.err /\ Resolve(rd.out) = ex.tree

(* One invariant per purpose so that a failure names what failed; they share  *)
(* nothing, so the configs that only enumerate use EmitRows alone, and the    *)
(* exhaustive design check uses RowAndModel (one analysis per state).         *)
RowState == ~(layer \in {"s", "i"} /\ doc = <<>>)
EmitRows == RowState => EmitRow(RowIn)
ModelHolds ==
  layer = "s" /\ mut.op = "none" /\ doc # <<>> =>
     LET an == Analyse(doc)
         ex == Classify(an, Devs)
     IN  ModelOK(RowDoc(an), ex) /\ ModelRoundTrip(ex)
RowAndModel ==
  RowState =>
     IF layer = "s" /\ mut.op = "none"
     THEN LET an == Analyse(doc)
              ex == Classify(an, Devs)
              in == RowDoc(an)
          IN  EmitRow(in) /\ ModelOK(in, ex) /\ ModelRoundTrip(ex)
     ELSE EmitRow(RowIn)

IsSolo(g) == g \notin DOMAIN FixedPool       \* deep / ladder gadgets form one-gadget documents
InitDoc ==
  /\ layer \in {"s", "f", "i"}
  /\ IF layer = "f" THEN doc \in {<<f>> : f \in ShippedFiles} /\ style = {}
     ELSE IF layer = "i" THEN doc = <<>> /\ style = {}   \* scenarios are successors (worker-thread stack)
     ELSE doc = <<>> /\ style \in Styles
  /\ mut = NoMut /\ raw = <<>>
NextFile ==
  /\ layer = "i" /\ doc = <<>>
  /\ \E sc \in FileScenarios : doc' = <<sc>>
  /\ UNCHANGED <<layer, style, mut, raw>>
NextGadget ==
  /\ layer = "s" /\ mut.op = "none"
  /\ \/ /\ Len(doc) < MaxItems
        /\ \E g \in GadgetNames :
              /\ IsSolo(g) => doc = <<>>
              /\ doc # <<>> => ~IsSolo(doc[1])
              /\ doc' = Append(doc, g)
        /\ UNCHANGED <<layer, style, mut, raw>>
     \/ /\ doc # <<>> /\ Len(doc) <= MutLen
        /\ ~HasImportItem(ItemsOf(doc)) /\ ~IsSolo(doc[1])
        /\ \E m \in MutsOf(Pieces(ItemsOf(doc), style)) : mut' = m
        /\ layer' = "m"
        /\ UNCHANGED <<doc, style, raw>>
NextDoc == NextFile \/ NextGadget
SpecDoc == InitDoc /\ [][NextDoc]_vars

InitRaw == layer = "r" /\ raw = <<>> /\ doc = <<>> /\ style = {} /\ mut = NoMut
NextRaw == /\ Len(raw) < RawLen
           /\ \E c \in 1..NClasses : raw' = Append(raw, c)
           /\ UNCHANGED <<layer, doc, style, mut>>
SpecRaw == InitRaw /\ [][NextRaw]_vars

=============================================================================
