\* exhaustive enumeration of the input tables (quick: MaxNodes = 2, thorough: 3); lib/checks/x08.py
SPECIFICATION Spec
CONSTANTS
  Devs = {}
  Gen = FALSE
  Seed = 1
  RandN = 2000
  MaxNodes = 2
INVARIANTS RuleSatisfiesProp RuleIsDecisive
CHECK_DEADLOCK FALSE
