\* reference configuration (the configurations actually run are generated by lib/checks/x06.py)
\* exhaustive, deviations off (quick mc-f1)
SPECIFICATION Spec
CONSTANTS
  Lmtps = {FALSE, TRUE}
  ExtNames = {"none", "all"}
  Certs = {"valid"}
  Replies = {"t4", "p5", "drop", "lok", "lp5", "e500", "extra"}
  AddrKinds = {"asc", "idn"}
  OptSets = {"none", "all"}
  TlsModes = {FALSE, TRUE}
  MaxRcpt = 2
  MaxTxn = 2
  MaxConn = 2
  MaxFaults = 1
  MaxAgain = 1
  FaultAfter = 0
  Devs = {}
  Gen = FALSE
VIEW View
INVARIANTS NoViolation TypeOK
CHECK_DEADLOCK FALSE

