\* reference configuration (the check generates its configurations from lib/checks/x16.py: quick tier, run "mc-order")
SPECIFICATION Spec
CONSTANTS
  Domains = {"d1"}
  FactSet <- FactsOrder2
  Outs <- AllOuts
  MailRs = {"ok", "m4", "m5", "mdrop"}
  RcptRs = {"ok", "r4", "r5"}
  DotRs = {"ok", "d4", "d5"}
  Lps <- Lps1
  WithNoDom = TRUE
  MaxDeliv = 1
  Devs = {}
  Gen = FALSE
VIEW View
INVARIANTS NoViolation TypeOK
