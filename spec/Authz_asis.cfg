\* as-is: the rule with the deviation of the code; TLC must report RuleIsSafe violated
SPECIFICATION Spec
CONSTANTS
  Devs = {"FirstFromOnly"}
  Families = {"A", "B", "C", "D", "E", "F", "G", "H", "I"}
  Gen = FALSE
INVARIANT RuleIsSafe
