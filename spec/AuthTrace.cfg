\* trace validation: trace.ndjson in the working directory; Devs = deviations of the open known findings
SPECIFICATION TSpec
CONSTANTS
  Variants = {"plain", "upper", "nfd", "wide"}
  BadVariants = {"space", "zwj"}
  Pws = {"empty", "a", "b", "nfc", "l72", "l73", "long", "long2"}
  Schemes = {"bcrypt", "argon2", "sha256"}
  Maps = {"none", "identity", "s_ab", "s_swap", "s_id", "s_ba", "s_proj", "r_strip", "r_append", "b_local", "b_localopt"}
  Norms = {"auto", "precis_casefold"}
  Kinds = {"Create", "SetPw", "Delete", "AuthPlain", "AuthLogin", "AuthPair", "AuthDirect", "SOpen", "SEhlo", "SAuth", "SMail", "SRset", "SClose"}
  UxVariants = {"plain", "under", "underb", "pct"}
  Tbls = {"mem", "sql"}
  Defers = {TRUE, FALSE}
  MailFroms = {"addr", "null", "nullparam", "upper", "utf8"}
  Doms = {"ascii"}
  EmailVariants = {}
  MaxOps = 12
  Devs = {"LoginMapTwice", "BcryptTrunc"}
  Gen = FALSE
CHECK_DEADLOCK FALSE
POSTCONDITION Post
