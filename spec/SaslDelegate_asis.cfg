\* X09 as-is: every deviation switched on must violate the property
SPECIFICATION Spec
CONSTANTS
  Layer = "ps"
  Devs = {"NoPassAccepts"}
  Gen = FALSE
INVARIANTS AsIsSatisfiesProp
CHECK_DEADLOCK FALSE
