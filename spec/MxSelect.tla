------------------------------ MODULE MxSelect ------------------------------
(***************************************************************************)
(* Design specification of WHERE maddy's target.remote delivers           *)
(* (extension X16): internal/target/remote/remote.go (AddRcpt: recipients *)
(* grouped by domain, address literals and <postmaster> refused;          *)
(* BodyNonAtomic: one DATA per connection; Close: connections closed or   *)
(* returned to the pool) and connect.go (connectionForDomain: one         *)
(* connection and one MAIL per domain and delivery, pool keyed by the     *)
(* domain; newConn: lookupMX, iteration over the candidates, class of the *)
(* final error; lookupMX: sort by preference, implicit MX).  The security *)
(* policies (attemptMX's CheckMX / CheckConn, STARTTLS) are C05's subject *)
(* (Remote.tla) and are absent here: no policy, no TLS.                   *)
(*                                                                         *)
(* One behaviour = environment facts (chosen per domain when the domain   *)
(* is first looked up, see MxSelectObs) and up to MaxDeliv consecutive    *)
(* deliveries on one Target (sharing the connection pool).  Actions, one  *)
(* per critical section / observable event:                                *)
(*   StartDelivery      Target.Start                                       *)
(*   BeginRcpt(r, f)    AddRcpt entered with recipient r: no-domain       *)
(*                      recipients are refused; a domain with a connection *)
(*                      in this delivery gets RCPT on it; a pooled         *)
(*                      connection of the domain is taken; else lookupMX   *)
(*                      (f = the domain's facts when first needed)         *)
(*   Ask / LookupDown   lookupMX: the MX question reaches the DNS server / *)
(*                      the resolver is not running                        *)
(*   Attempt(i, out)    newConn loop: ONE connection attempt to candidate  *)
(*                      record i (lowest preference among the untried      *)
(*                      records); out = how the host behaves (environment) *)
(*   Mail(r)            connectionForDomain: MAIL on the new / pooled      *)
(*                      connection, r = the host's reply                   *)
(*   RcptCmd(r)         AddRcpt: RCPT, r = reply                           *)
(*   Return(cls)        AddRcpt returns                                    *)
(*   BodyStart, Data(d, r), DataSkip(d), BodyEnd(st)   BodyNonAtomic       *)
(*   Finish(op)         Commit / Abort -> Close: a connection whose DATA   *)
(*                      failed is closed, the others go to the pool        *)
(*   TargetClose        Target.Close: the pool is closed                   *)
(*                                                                         *)
(* Deviations of the code as it is (constant Devs):                        *)
(*   "UnspecAsPerm"        newConn turns the LAST candidate's error into   *)
(*        550 unless it has Temporary() = true (exterrors.SMTPCode(lastErr,*)
(*        451, 550)); an error without any classification - io.EOF when   *)
(*        the host closes the connection before the greeting or after     *)
(*        EHLO - therefore becomes PERMANENT.  The design treats it like  *)
(*        every other connection-level failure (temporary).                *)
(*   "ResolverDownAsPerm"  lookupMX: exterrors.SMTPCode(err, 451, 554) on  *)
(*        the resolver's I/O error: ECONNREFUSED (the local resolver is   *)
(*        not running) has Temporary() = false -> 554 permanent.          *)
(*   "IdnRawQuestion"      lookupMX hands the U-label domain to the        *)
(*        resolver as it is: the MX question carries the UTF-8 octets      *)
(*        instead of the A-label, the DNS answers NXDOMAIN -> 554.         *)
(***************************************************************************)
EXTENDS MxSelectObs, TLC, SequencesExt, Json

CONSTANTS Domains,      \* recipient domains ("d1", "d2")
          FactSet,      \* facts a domain may have (named sets below)
          Outs,         \* attempt outcomes explored
          MailRs, RcptRs, DotRs,
          Lps,          \* local parts, Seq: the i-th recipient of a delivery has Lps[i]
          WithNoDom,    \* TRUE: also recipients without a domain name
          MaxDeliv,
          Devs, Gen

(* ---- named values for the constants ---- *)
Rec(p, h, u) == [pref |-> p, host |-> h, up |-> u]
MX(recs, idn) == [kind |-> "mx", idn |-> idn, recs |-> recs]
Kind(k, idn) == [kind |-> k, idn |-> idn, recs |-> <<>>]
Unknown == Kind("unknown", FALSE)
RecLists(hosts, prefs, ups, maxn) ==
  UNION {[1..n -> {Rec(p, h, u) : p \in prefs, h \in hosts, u \in ups}] : n \in 1..maxn}
AllKinds == {"null", "nomx", "nx", "servfail", "timeout", "down"}
AllOuts == FailOuts \cup {"up"}
\* every RRset of up to 3 records over 3 hosts x 2 preferences, every other DNS situation
FactsOrder3 == {MX(l, FALSE) : l \in RecLists({"h1", "h2", "h3"}, {10, 20}, {FALSE}, 3)} \cup {Kind(k, FALSE) : k \in AllKinds}
FactsOrder2 == {MX(l, FALSE) : l \in RecLists({"h1", "h2"}, {10, 20}, {FALSE}, 3)} \cup {Kind(k, FALSE) : k \in AllKinds}
FactsPairs == {MX(l, FALSE) : l \in RecLists({"h1", "h2"}, {10, 20}, {FALSE}, 2)} \cup {Kind(k, FALSE) : k \in AllKinds}
FactsSim == {MX(l, i) : l \in RecLists({"h1", "h2", "h3"}, {10, 20}, {FALSE}, 3), i \in BOOLEAN} \cup {Kind(k, i) : k \in AllKinds, i \in BOOLEAN}
\* spelling variants: upper-case MX targets, IDN recipient domains
FactsSpell == {MX(l, i) : l \in RecLists({"h1", "h3"}, {10, 20}, BOOLEAN, 2), i \in BOOLEAN} \cup {Kind(k, i) : k \in AllKinds, i \in BOOLEAN}
\* small: two domains, pool histories
FactsSmall == {MX(l, FALSE) : l \in RecLists({"h1", "h2"}, {10, 20}, {FALSE}, 2)} \cup {Kind(k, FALSE) : k \in {"null", "nomx", "nx", "servfail", "down"}}
FactsTiny == {MX(<<Rec(10, "h1", FALSE)>>, FALSE), MX(<<Rec(20, "h1", FALSE), Rec(10, "h2", FALSE)>>, FALSE), Kind("nomx", FALSE),
              Kind("servfail", FALSE)}
FactsGroup == FactsTiny \cup {Kind("null", FALSE), Kind("nx", FALSE), Kind("down", FALSE),
                            MX(<<Rec(10, "h1", FALSE), Rec(10, "h2", FALSE)>>, FALSE)}
FactsTwo == {MX(<<Rec(10, "h1", FALSE)>>, FALSE), MX(<<Rec(20, "h1", FALSE), Rec(10, "h2", FALSE)>>, FALSE)}
FactsAny == {MX(l, i) : l \in RecLists({"h1", "h2", "h3"}, {10, 20}, BOOLEAN, 3), i \in BOOLEAN} \cup {Kind(k, i) : k \in AllKinds, i \in BOOLEAN}
Lps3 == <<"a", "b", "c">>
Lps2 == <<"a", "b">>
Lps1 == <<"a">>

VARIABLES facts,   \* [Domains -> fact | Unknown]
          m,       \* deliveries started
          pc, cur,
          asked,   \* the MX question of this lookup has been sent
          rem,     \* candidate records not yet tried (indices into Cands)
          cand,    \* the connection MAIL is about to be sent on
          rcls,    \* class AddRcpt is going to return
          live,    \* [Domains -> connection of this delivery | NoConn]   (rd.connections)
          pool,    \* [Domains -> idle connection | NoConn]               (pool.P, keyed by domain)
          nc,      \* connections each host has accepted so far
          nr,      \* recipients handed to this delivery
          accd,    \* recipients accepted in this delivery
          body,    \* "no" | "run" | "done"
          todo,    \* domains whose connection still has to send DATA
          dotr,    \* [Domains -> reply to the final dot | ""]
          taken,   \* deviations whose branch this behaviour took
          obs, hist

vars == <<facts, m, pc, cur, asked, rem, cand, rcls, live, pool, nc, nr, accd, body, todo, dotr, taken, obs, hist>>
View == <<facts, m, pc, cur, asked, rem, cand, rcls, live, pool, nc, nr, accd, body, todo, dotr, taken, obs>>

NoConn == [host |-> "", c |-> 0]
HostIds == {"h1", "h2", "h3"} \cup Domains
NoneD == [d \in Domains |-> NoConn]

H(rec) == IF Gen THEN Append(hist, rec) ELSE hist

Init ==
  /\ facts = [d \in Domains |-> Unknown]
  /\ m = 0 /\ pc = "idle" /\ cur = NoCur /\ asked = FALSE /\ rem = {} /\ cand = NoConn /\ rcls = ""
  /\ live = NoneD /\ pool = NoneD /\ nc = [h \in HostIds |-> 0]
  /\ nr = 0 /\ accd = {} /\ body = "no" /\ todo = {} /\ dotr = [d \in Domains |-> ""]
  /\ taken = {} /\ obs = ObsInit /\ hist = <<>>

StartDelivery ==
  /\ pc = "idle" /\ m < MaxDeliv
  /\ m' = m + 1 /\ pc' = "open"
  /\ live' = NoneD /\ nr' = 0 /\ accd' = {} /\ body' = "no" /\ todo' = {} /\ dotr' = [d \in Domains |-> ""]
  /\ obs' = ObsStart(obs, m + 1)
  /\ hist' = H([a |-> "start"])
  /\ UNCHANGED <<facts, cur, asked, rem, cand, rcls, pool, nc, taken>>

RcptDoms == Domains \cup (IF WithNoDom THEN NoDoms ELSE {})

BeginRcpt(r, f) ==
  /\ pc = "open" /\ body = "no" /\ nr < Len(Lps) /\ r.lp = Lps[nr + 1] /\ r.dom \in RcptDoms
  /\ nr' = nr + 1 /\ cur' = r /\ asked' = FALSE
  /\ obs' = ObsRcpt(obs, r)
  /\ hist' = H([a |-> "rcpt", lp |-> r.lp, dom |-> r.dom])
  /\ IF r.dom \in NoDoms
     THEN /\ pc' = "ret" /\ rcls' = "perm" /\ f = Unknown
          /\ UNCHANGED <<facts, cand, pool>>
     ELSE IF live[r.dom] # NoConn
     THEN /\ pc' = "rcpt" /\ f = Unknown
          /\ UNCHANGED <<facts, cand, pool, rcls>>
     ELSE IF pool[r.dom] # NoConn
     THEN /\ pc' = "mail" /\ cand' = pool[r.dom] /\ pool' = [pool EXCEPT ![r.dom] = NoConn] /\ f = Unknown
          /\ UNCHANGED <<facts, rcls>>
     ELSE /\ pc' = "lookup"
          /\ IF facts[r.dom] = Unknown THEN f # Unknown /\ facts' = [facts EXCEPT ![r.dom] = f]   \* f \in FactSet, see Next
                                       ELSE f = Unknown /\ UNCHANGED facts
          /\ UNCHANGED <<cand, pool, rcls>>
  /\ UNCHANGED <<m, rem, live, nc, accd, body, todo, dotr, taken>>

Raw(d) == "IdnRawQuestion" \in Devs /\ facts[d].idn
(* what the lookup yields: a question with the U-label octets finds nothing *)
EffKind(d) == IF Raw(d) /\ facts[d].kind # "down" THEN "nx" ELSE facts[d].kind

LookupResult(d) ==
  LET k == EffKind(d)
  IN IF k \in {"mx", "nomx"}
     THEN /\ pc' = "iter" /\ rem' = 1..Len(Cands(facts, d)) /\ UNCHANGED rcls
     ELSE /\ pc' = "ret" /\ UNCHANGED rem
          /\ rcls' = CASE k \in {"nx", "null"} -> "perm"
                       [] k \in {"servfail", "timeout"} -> "temp"
                       [] k = "down" -> IF "ResolverDownAsPerm" \in Devs THEN "perm" ELSE "temp"

Ask(q) ==
  /\ pc = "lookup" /\ ~asked /\ facts[cur.dom].kind # "down"
  /\ q = [dom |-> cur.dom, form |-> IF Raw(cur.dom) THEN "u" ELSE "a", qt |-> "MX"]
  /\ asked' = TRUE
  /\ obs' = ObsQ(obs, facts, q)
  /\ taken' = taken \cup (IF Raw(cur.dom) THEN {"IdnRawQuestion"} ELSE {})
  /\ LookupResult(cur.dom)
  /\ UNCHANGED <<facts, m, cur, cand, live, pool, nc, nr, accd, body, todo, dotr, hist>>

LookupDown ==
  /\ pc = "lookup" /\ facts[cur.dom].kind = "down"
  /\ taken' = taken \cup (IF "ResolverDownAsPerm" \in Devs THEN {"ResolverDownAsPerm"} ELSE {})
  /\ LookupResult(cur.dom)
  /\ UNCHANGED <<facts, m, cur, asked, cand, live, pool, nc, nr, accd, body, todo, dotr, obs, hist>>

ClsOfOut(out) ==
  CASE out \in {"refuse", "hserv", "g4"} -> "temp"
    [] out \in {"nohost", "g5"} -> "perm"
    [] out \in {"gdrop", "edrop"} -> IF "UnspecAsPerm" \in Devs THEN "perm" ELSE "temp"

Attempt(i, out) ==
  LET cs == Cands(facts, cur.dom)
      h  == cs[i].host
      c  == IF out \in NoServer THEN 0 ELSE nc[h] + 1
  IN /\ pc = "iter" /\ i \in rem /\ out \in Outs
     /\ \A j \in rem : cs[i].pref <= cs[j].pref
     /\ obs' = ObsDial(obs, facts, [host |-> h, out |-> out, c |-> c])
     /\ nc' = IF out \in NoServer THEN nc ELSE [nc EXCEPT ![h] = @ + 1]
     /\ hist' = H([a |-> "dial", host |-> h, out |-> out])
     /\ IF out = "up"
        THEN /\ pc' = "mail" /\ cand' = [host |-> h, c |-> c] /\ rem' = {}
             /\ UNCHANGED <<rcls, taken>>
        ELSE /\ rem' = rem \ {i} /\ UNCHANGED cand
             /\ IF rem' = {}
                THEN /\ pc' = "ret" /\ rcls' = ClsOfOut(out)
                     /\ taken' = taken \cup (IF out \in {"gdrop", "edrop"} /\ "UnspecAsPerm" \in Devs THEN {"UnspecAsPerm"} ELSE {})
                ELSE UNCHANGED <<pc, rcls, taken>>
     /\ UNCHANGED <<facts, m, cur, asked, live, pool, nr, accd, body, todo, dotr>>

Mail(r) ==
  /\ pc = "mail" /\ r \in MailRs
  /\ obs' = ObsMail(obs, [host |-> cand.host, c |-> cand.c, r |-> r])
  /\ hist' = H([a |-> "mail", r |-> r])
  /\ IF r = "ok"
     THEN /\ live' = [live EXCEPT ![cur.dom] = cand] /\ pc' = "rcpt" /\ UNCHANGED rcls
     ELSE /\ pc' = "ret" /\ UNCHANGED live          \* the connection is closed
          /\ rcls' = CASE r = "m4" -> "temp" [] r = "m5" -> "perm" [] r = "mdrop" -> "unspec"
  /\ cand' = NoConn
  /\ UNCHANGED <<facts, m, cur, asked, rem, pool, nc, nr, accd, body, todo, dotr, taken>>

RcptCmd(r) ==
  /\ pc = "rcpt" /\ r \in RcptRs
  /\ obs' = ObsRcptCmd(obs, [host |-> live[cur.dom].host, c |-> live[cur.dom].c, lp |-> cur.lp, dom |-> cur.dom, r |-> r])
  /\ hist' = H([a |-> "rcptcmd", r |-> r])
  /\ pc' = "ret"
  /\ rcls' = CASE r = "ok" -> "ok" [] r = "r4" -> "temp" [] r = "r5" -> "perm"
  /\ UNCHANGED <<facts, m, cur, asked, rem, cand, live, pool, nc, nr, accd, body, todo, dotr, taken>>

Return(cls) ==
  /\ pc = "ret" /\ cls = rcls
  /\ obs' = ObsRet(obs, facts, [lp |-> cur.lp, dom |-> cur.dom, cls |-> cls])
  /\ accd' = IF cls = "ok" THEN accd \cup {cur} ELSE accd
  /\ pc' = "open" /\ cur' = NoCur /\ rcls' = ""
  /\ UNCHANGED <<facts, m, asked, rem, cand, live, pool, nc, nr, body, todo, dotr, taken, hist>>

BodyStart ==
  /\ pc = "open" /\ body = "no" /\ nr >= 1
  /\ pc' = "body" /\ body' = "run"
  /\ todo' = {d \in Domains : live[d] # NoConn}
  /\ hist' = H([a |-> "body"])
  /\ UNCHANGED <<facts, m, cur, asked, rem, cand, rcls, live, pool, nc, nr, accd, dotr, taken, obs>>

Mine(d) == {a \in accd : a.dom = d}

Data(d, r) ==
  /\ pc = "body" /\ d \in todo /\ Mine(d) # {} /\ r \in DotRs
  /\ obs' = ObsData(obs, [host |-> live[d].host, c |-> live[d].c, rcpts |-> Mine(d), r |-> r])
  /\ todo' = todo \ {d} /\ dotr' = [dotr EXCEPT ![d] = r]
  /\ hist' = H([a |-> "data", dom |-> d, r |-> r])
  /\ UNCHANGED <<facts, m, pc, cur, asked, rem, cand, rcls, live, pool, nc, nr, accd, body, taken>>

(* a connection all of whose recipients were refused: DATA is answered 503, nothing is transmitted *)
DataSkip(d) ==
  /\ pc = "body" /\ d \in todo /\ Mine(d) = {}
  /\ todo' = todo \ {d} /\ dotr' = [dotr EXCEPT ![d] = "err"]
  /\ UNCHANGED <<facts, m, pc, cur, asked, rem, cand, rcls, live, pool, nc, nr, accd, body, taken, obs, hist>>

ClsOfDot(r) == CASE r = "ok" -> "ok" [] r = "d4" -> "temp" [] r = "d5" -> "perm" [] OTHER -> "unspec"
Statuses == {[lp |-> a.lp, dom |-> a.dom, cls |-> ClsOfDot(dotr[a.dom])] : a \in accd}

BodyEnd(st) ==
  /\ pc = "body" /\ todo = {}
  /\ ToSet(st) = Statuses /\ Len(st) = Cardinality(Statuses)
  /\ obs' = ObsBodyRet(obs, st)
  /\ pc' = "open" /\ body' = "done"
  /\ UNCHANGED <<facts, m, cur, asked, rem, cand, rcls, live, pool, nc, nr, accd, todo, dotr, taken, hist>>

Finish(op) ==
  /\ pc = "open" /\ nr >= 1 /\ op \in {"commit", "abort"}
  /\ (Gen => (op = "commit") = (body = "done"))
  /\ pool' = [d \in Domains |-> IF live[d] # NoConn /\ dotr[d] \in {"", "ok"} THEN live[d] ELSE pool[d]]
  /\ live' = NoneD /\ pc' = "idle"
  /\ obs' = ObsFin(obs)
  /\ hist' = H([a |-> "fin", op |-> op])
  /\ UNCHANGED <<facts, m, cur, asked, rem, cand, rcls, nc, nr, accd, body, todo, dotr, taken>>

TargetClose ==
  /\ pc = "idle" /\ m >= 1
  /\ pc' = "end"
  /\ obs' = ObsEnd(obs, 0)
  /\ IF Gen THEN PrintT(<<"BEH", ToJson([facts |-> facts, steps |-> hist, taken |-> taken])>>) ELSE TRUE
  /\ UNCHANGED <<facts, m, cur, asked, rem, cand, rcls, live, pool, nc, nr, accd, body, todo, dotr, taken, hist>>

NeedFact(d) == d \in Domains /\ live[d] = NoConn /\ pool[d] = NoConn /\ facts[d] = Unknown

Silent == LookupDown \/ \E d \in Domains : DataSkip(d)

Classes == {"ok", "temp", "perm", "unspec"}

Next ==
  \/ StartDelivery
  \/ \E d \in RcptDoms : \E f \in (IF NeedFact(d) THEN FactSet ELSE {Unknown}) :
        pc = "open" /\ nr < Len(Lps) /\ BeginRcpt([lp |-> Lps[nr + 1], dom |-> d], f)
  \/ \E d \in Domains, form \in {"a", "u"} : Ask([dom |-> d, form |-> form, qt |-> "MX"])
  \/ Silent
  \/ \E i \in 1..3, out \in Outs : Attempt(i, out)
  \/ \E r \in MailRs : Mail(r)
  \/ \E r \in RcptRs : RcptCmd(r)
  \/ \E cls \in Classes : Return(cls)
  \/ BodyStart
  \/ \E d \in Domains, r \in DotRs : Data(d, r)
  \/ BodyEnd(SetToSeq(Statuses))
  \/ \E op \in {"commit", "abort"} : Finish(op)
  \/ TargetClose
  \/ (pc = "end" /\ ~Gen /\ UNCHANGED vars)

Spec == Init /\ [][Next]_vars

NoViolation == obs.viol = {}

(* what each deviation of the as-is code may break *)
Allowed(dev) ==
  CASE dev = "UnspecAsPerm" -> {"TempFailureBounced"}
    [] dev = "ResolverDownAsPerm" -> {"DnsTempFailureBounced"}
    [] dev = "IdnRawQuestion" -> {"WrongQuestion", "GaveUpEarly", "DnsTempFailureBounced"}
    [] OTHER -> {}
ViolationsExplained == obs.viol \subseteq UNION {Allowed(dv) : dv \in taken}

TypeOK ==
  /\ pc \in {"idle", "open", "lookup", "iter", "mail", "rcpt", "ret", "body", "end"}
  /\ m \in 0..MaxDeliv /\ nr \in 0..Len(Lps) /\ body \in {"no", "run", "done"}
  /\ rcls \in Classes \cup {""}
  /\ obs.viol \subseteq AllPredicates
=============================================================================
