---------------------------- MODULE SqlTableObs ----------------------------
(***************************************************************************)
(* Observation state and property predicates of the mutable SQL tables     *)
(* (table.sql_table, table.sql_query with add / list / set / del queries;  *)
(* extension X15).  Everything here is a pure function of the calls made   *)
(* through module.MutableTable / module.MultiTable and their results:      *)
(*   obs.m     the map the successful SetKey / RemoveKey calls describe     *)
(*             (key -> value, None = absent),                              *)
(*   obs.viol  names of the violated predicates.                           *)
(* The statement: any history of SetKey / RemoveKey / Lookup / LookupMulti *)
(* / Keys (and closing and re-opening the table) behaves like a map.       *)
(* Sources: framework/module/table.go:38-43 (MutableTable),                *)
(* docs/reference/table/sql_query.md:100-119 ("table becomes 'mutable' and *)
(* can be used in contexts that require writable key-value store"; 'add'   *)
(* stores, 'set' replaces the existing entry, 'del' removes, 'list'        *)
(* returns "all keys in the store"; :key / :value named arguments,         *)
(* named_args "Default: yes"), :55-65 (lookup), internal/table/sql_query.go*)
(* SetKey ("add", on failure "set").                                       *)
(***************************************************************************)
EXTENDS Integers, Sequences, FiniteSets, SequencesExt

CONSTANT Strs            \* the strings of a behaviour (tokens; the harness spells them, keys and values alike)

None == "-"
Other == "?"             \* a string outside the palette that came back from the table

EmptyMap == [k \in Strs |-> None]
ObsInit == [m |-> EmptyMap, viol |-> {}]

Present(m) == {k \in Strs : m[k] # None}

Mark(o, names) == [o EXCEPT !.viol = @ \cup names]

ObsEv(o, e) ==
  IF "res" \in DOMAIN e /\ e.res = "panic" THEN Mark(o, {"Crashed"})
  ELSE CASE e.a = "Set" ->
              IF e.res = "ok" THEN [o EXCEPT !.m[e.k] = e.v] ELSE Mark(o, {"MutationFailed"})
         [] e.a = "Remove" ->
              IF e.res = "ok" THEN [o EXCEPT !.m[e.k] = None] ELSE Mark(o, {"MutationFailed"})
         [] e.a = "Lookup" ->
              IF e.res # "ok" THEN Mark(o, {"LookupFailed"})
              ELSE IF o.m[e.k] = None THEN Mark(o, {p \in {"LookupPhantom"} : e.ok})
              ELSE IF ~e.ok THEN Mark(o, {"LookupLostKey"})
              ELSE Mark(o, {p \in {"LookupStaleValue"} : e.val # o.m[e.k]})
         [] e.a = "LookupMulti" ->
              IF e.res # "ok" THEN Mark(o, {"LookupFailed"})
              ELSE Mark(o, {p \in {"LookupMultiWrong"} :
                              e.vs # (IF o.m[e.k] = None THEN <<>> ELSE <<o.m[e.k]>>)})
         [] e.a = "Keys" ->
              IF e.res # "ok" THEN Mark(o, {"KeysFailed"})
              ELSE Mark(o, {p \in {"KeysWrong"} :
                              ToSet(e.ks) # Present(o.m) \/ Len(e.ks) # Cardinality(Present(o.m))})
         [] e.a = "Reopen" ->
              Mark(o, {p \in {"ReopenFailed"} : e.res # "ok"})
         [] OTHER -> o
=============================================================================
