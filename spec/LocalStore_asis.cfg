SPECIFICATION Spec
CONSTANTS
  Addrs = {"a", "aC", "b", "f"}
  MaxList = 2
  MaxMsgs = 1
  Norms = {"precis_casefold_email", "noop"}
  DMaps = {FALSE, TRUE}
  NFilts = {0, 1}
  Out1 = {"n", "wF"}
  Out2 = {"n"}
  JBoxes = {"none"}
  JunkNames = {"Junk"}
  QuarSet = {FALSE, TRUE}
  WatchSet = {TRUE}
  EnvActs = {}
  DelAccts = {}
  Faults = FALSE
  Devs = {"CaseKey", "MapErrPerm", "BlobLeak", "EarlyNotify"}
  Gen = FALSE
VIEW View
INVARIANTS NoViolation
