\* trace validation (reference; Devs = deviations of the open findings of extensions/findings.json)
SPECIFICATION TSpec
CONSTANTS
  Full = FALSE
  Devs = {"RdnsNilPanic", "DupRcptSkipped", "RcptsKeepRefused", "NoDrain", "NoReap", "CodeZeroIgnored"}
  Gen = FALSE
CHECK_DEADLOCK FALSE
POSTCONDITION Post
