------------------------------- MODULE Queue -------------------------------
(***************************************************************************)
(* Design specification of maddy's durable retry queue at the granularity *)
(* of the module.DeliveryTarget boundary (internal/target/queue/queue.go: *)
(* queueDelivery.AddRcpt/Commit, dispatch, tryDelivery, deliver, emitDSN, *)
(* removeFromDisk / updateMetadataOnDisk + wheel.Add).                     *)
(*                                                                         *)
(* One action per call the queue makes on its downstream target; the      *)
(* environment chooses the result of each call from Res.  The per-attempt *)
(* classification loop of tryDelivery is transcribed as Classify.  File-  *)
(* system steps are the subject of QueueDisk.tla.                          *)
(*                                                                         *)
(* Deviations (behaviour the code has/had that the property forbids) are  *)
(* named and switched by the constant Devs:                                *)
(*   "DupRcpt"  queueDelivery.AddRcpt appends a recipient supplied twice  *)
(*              a second time; both entries share one try counter and one *)
(*              error slot in the classification loop (finding 22).       *)
(***************************************************************************)
EXTENDS QueueObs, TLC, SequencesExt, Json

CONSTANTS Rcpts,        \* recipient identities
          MaxTriesSet,  \* values of max_tries explored
          MaxList,      \* longest recipient list supplied by the client
          Devs,         \* enabled deviations
          RwSets,       \* sets of recipients that reached the queue rewritten (C18); {{}} = none
          Utf8Set,      \* SMTPUTF8 flag values of the message explored
          EnhSet,       \* do the failures carry an enhanced status code? (TRUE = yes; FALSE explored for the
                        \* slice without rewritten recipients / SMTPUTF8 only: the report's status is all it changes)
          BounceStages, \* how a report hand-over may end: "ok", or failing at "start","rcpt","body","commit"
          Gen           \* TRUE: keep the behaviour history and print complete behaviours

VARIABLES cfg,       \* [partial, bounce, nullSender, mt, list]  fixed per behaviour
          phase,     \* "accept" "sched" "rcpt" "decide" "dsn" "quiet" "end"
          to,        \* meta.To: recipients to try next (sequence, in order)
          tries,     \* meta.TriesCount (absent = 0)
          idx,       \* position of the AddRcpt loop in `to`
          accepted,  \* acceptedRcpts of the running attempt
          errs,      \* partialError.Errs of the running attempt ("none" = no entry)
          failed,    \* failedRcpts waiting for the failure report
          newTo,     \* newRcpts computed by the classification loop
          rerr,      \* meta.RcptErrs: class of the last stored error per recipient
          obs,       \* observation state (QueueObs)
          hist       \* behaviour history (Gen only)

vars == <<cfg, phase, to, tries, idx, accepted, errs, failed, newTo, rerr, obs, hist>>
View == <<cfg, phase, to, tries, idx, accepted, errs, failed, newTo, rerr, obs>>

NoErrs == [r \in Rcpts |-> "none"]
Suppress(c) == c.nullSender \/ ~c.bounce

Lists == UNION {[1..k -> Rcpts] : k \in 1..MaxList}

Dedup(s) == LET RECURSIVE D(_, _)
                D(i, acc) == IF i > Len(s) THEN acc
                             ELSE IF \E j \in 1..Len(acc) : acc[j] = s[i] THEN D(i + 1, acc)
                             ELSE D(i + 1, Append(acc, s[i]))
            IN D(1, <<>>)

CfgsOf(rwS, u8S, enhS) ==
  [partial : BOOLEAN, bounce : BOOLEAN, nullSender : BOOLEAN, mt : MaxTriesSet, list : Lists,
   rw : rwS, utf8 : u8S, enh : enhS]
Cfgs == CfgsOf(RwSets, Utf8Set, {TRUE}) \cup CfgsOf({{}}, {FALSE}, EnhSet \ {TRUE})

H(e) == IF Gen THEN Append(hist, e) ELSE hist

InitWith(c) ==
  /\ cfg = c
  /\ phase = "accept"
  /\ to = IF "DupRcpt" \in Devs THEN c.list ELSE Dedup(c.list)
  /\ tries = [r \in Rcpts |-> 0]
  /\ idx = 0 /\ accepted = <<>> /\ errs = NoErrs /\ failed = <<>> /\ newTo = <<>>
  /\ rerr = NoErrs
  /\ obs = ObsInit(Rcpts)
  /\ hist = <<>>

Init == \E c \in Cfgs : InitWith(c)

(* the classification loop of tryDelivery, in list order, shared counters *)
RECURSIVE ClassifyRec(_, _, _, _, _, _, _)
ClassifyRec(lst, i, e, tr, nt, fl, mt) ==
  IF i > Len(lst) THEN [newTo |-> nt, failed |-> fl, tries |-> tr]
  ELSE LET r == lst[i] IN
       IF e[r] = "none" THEN ClassifyRec(lst, i + 1, e, tr, nt, fl, mt)
       ELSE IF ~Retryable(e[r]) \/ tr[r] + 1 >= mt
            THEN ClassifyRec(lst, i + 1, e, [tr EXCEPT ![r] = 0], nt, Append(fl, r), mt)
            ELSE ClassifyRec(lst, i + 1, e, [tr EXCEPT ![r] = @ + 1], Append(nt, r), fl, mt)
Classify(lst, e, tr, mt) == ClassifyRec(lst, 1, e, tr, <<>>, <<>>, mt)

(* what happens after deliver() returned with error map e *)
AfterAttempt(e) ==
  LET c == Classify(to, e, tries, cfg.mt) IN
  /\ tries' = c.tries
  /\ rerr' = [r \in Rcpts |-> IF r \in ToSet(to) /\ e[r] # "none" THEN e[r] ELSE rerr[r]]
  /\ errs' = NoErrs /\ accepted' = <<>> /\ idx' = 0
  /\ IF c.failed # <<>> /\ ~Suppress(cfg)
     THEN phase' = "dsn" /\ failed' = c.failed /\ newTo' = c.newTo /\ UNCHANGED to
     ELSE /\ failed' = <<>> /\ newTo' = <<>>
          /\ IF c.newTo = <<>> THEN phase' = "quiet" /\ to' = <<>>
             ELSE phase' = "sched" /\ to' = c.newTo

QAccept ==
  /\ phase = "accept"
  /\ phase' = "sched"
  /\ obs' = ObsAccept(obs, ToSet(cfg.list))
  /\ hist' = H([a |-> "QAccept"])
  /\ UNCHANGED <<cfg, to, tries, idx, accepted, errs, failed, newTo, rerr>>

TStart(res) ==
  /\ phase = "sched"
  /\ obs' = ObsStart(obs, res, cfg.mt)
  /\ hist' = H([a |-> "TStart", res |-> res])
  /\ UNCHANGED cfg
  /\ IF res = "ok"
     THEN phase' = "rcpt" /\ idx' = 1 /\ accepted' = <<>> /\ errs' = NoErrs
          /\ UNCHANGED <<to, tries, failed, newTo, rerr>>
     ELSE AfterAttempt([r \in Rcpts |-> IF r \in ToSet(to) THEN res ELSE "none"])

TAddRcpt(res) ==
  /\ phase = "rcpt" /\ idx <= Len(to)
  /\ LET r == to[idx] IN
       /\ obs' = ObsAddRcpt(obs, r, res, cfg.mt)
       /\ hist' = H([a |-> "TAddRcpt", r |-> r, res |-> res])
       /\ IF res = "ok" THEN accepted' = Append(accepted, r) /\ UNCHANGED errs
          ELSE errs' = [errs EXCEPT ![r] = res] /\ UNCHANGED accepted
  /\ idx' = idx + 1
  /\ UNCHANGED <<cfg, phase, to, tries, failed, newTo, rerr>>

TAbortNoRcpt ==
  /\ phase = "rcpt" /\ idx > Len(to) /\ accepted = <<>>
  /\ obs' = ObsAbort(obs, cfg.mt)
  /\ hist' = H([a |-> "TAbort"])
  /\ UNCHANGED cfg
  /\ AfterAttempt(errs)

TBody(res) ==
  /\ phase = "rcpt" /\ idx > Len(to) /\ accepted # <<>> /\ ~cfg.partial
  /\ obs' = ObsBody(obs, res)
  /\ hist' = H([a |-> "TBody", res |-> res])
  /\ errs' = IF res = "ok" THEN errs
             ELSE [r \in Rcpts |-> IF r \in ToSet(accepted) THEN res ELSE errs[r]]
  /\ phase' = "decide"
  /\ UNCHANGED <<cfg, to, tries, idx, accepted, failed, newTo, rerr>>

TBodyNA(st) ==
  /\ phase = "rcpt" /\ idx > Len(to) /\ accepted # <<>> /\ cfg.partial
  /\ obs' = ObsBodyNA(obs, st)
  /\ hist' = H([a |-> "TBodyNA", st |-> st])
  /\ errs' = [r \in Rcpts |-> IF r \in DOMAIN st /\ st[r] # "ok" THEN st[r] ELSE errs[r]]
  /\ phase' = "decide"
  /\ UNCHANGED <<cfg, to, tries, idx, accepted, failed, newTo, rerr>>

AllFailed == \A r \in ToSet(accepted) : errs[r] # "none"

TAbortAllFailed ==
  /\ phase = "decide" /\ AllFailed
  /\ obs' = ObsAbort(obs, cfg.mt)
  /\ hist' = H([a |-> "TAbort"])
  /\ UNCHANGED cfg
  /\ AfterAttempt(errs)

TCommit(res) ==
  /\ phase = "decide" /\ ~AllFailed
  /\ obs' = ObsCommit(obs, res, cfg.mt)
  /\ hist' = H([a |-> "TCommit", res |-> res])
  /\ UNCHANGED cfg
  /\ AfterAttempt(IF res = "ok" THEN errs
                  ELSE [r \in Rcpts |-> IF r \in ToSet(accepted) THEN res ELSE errs[r]])

\* the report emitDSN builds: listed under the addresses the client supplied, with the
\* stored last status, null return path, addressed to the sender, original header attached
ExpectedReport ==
  [ listed |-> failed, status |-> [r \in ToSet(failed) |-> StatusOfE(rerr[r], cfg.enh)],
    cls |-> [r \in ToSet(failed) |-> ClassOf(rerr[r])] ]

Dsn(stage) ==
  /\ phase = "dsn"
  /\ obs' = IF stage \in {"start", "rcpt"}      \* the hand-over ended before the report body was shown
            THEN ObsDsn(obs, obs.owed, Suppress(cfg))
            ELSE ObsReport(ObsDsn(obs, ToSet(failed), Suppress(cfg)), GoodReport(ExpectedReport), cfg.utf8, cfg.enh)
  /\ hist' = H([a |-> "Dsn", rcpts |-> failed, stage |-> stage])
  /\ failed' = <<>> /\ newTo' = <<>>
  /\ IF newTo = <<>> THEN phase' = "quiet" /\ to' = <<>>
     ELSE phase' = "sched" /\ to' = newTo
  /\ UNCHANGED <<cfg, tries, idx, accepted, errs, rerr>>

Quiesce ==
  /\ phase = "quiet"
  /\ obs' = ObsQuiesced(obs, Suppress(cfg), TRUE)
  /\ phase' = "end"
  /\ hist' = H([a |-> "Quiesced"])
  /\ IF Gen THEN PrintT(<<"BEH", ToJson([cfg |-> cfg, hist |-> hist'])>>) ELSE TRUE
  /\ UNCHANGED <<cfg, to, tries, idx, accepted, errs, failed, newTo, rerr>>

Statuses == [ToSet(accepted) -> Res]

Next ==
  \/ QAccept
  \/ \E res \in Res : TStart(res) \/ TAddRcpt(res) \/ TBody(res) \/ TCommit(res)
  \/ \E st \in Statuses : TBodyNA(st)
  \/ TAbortNoRcpt \/ TAbortAllFailed \/ Quiesce
  \/ \E stage \in BounceStages : Dsn(stage)
  \/ (phase = "end" /\ ~Gen /\ UNCHANGED vars)

Spec == Init /\ [][Next]_vars /\ WF_vars(Next)

(***************************************************************************)
(* Properties.  C01 is the conjunction of the predicates evaluated inside *)
(* QueueObs (collected in obs.viol) - they are the statement itself over  *)
(* boundary events - so the invariant is simply that none ever fired.     *)
(***************************************************************************)
NoViolation == obs.viol = {}
TypeOK == /\ phase \in {"accept", "sched", "rcpt", "decide", "dsn", "quiet", "end"}
          /\ \A r \in Rcpts : tries[r] \in 0..cfg.mt
Bounded == \A r \in Rcpts : obs.n[r] <= cfg.mt
Terminates == <>(phase = "end")
=============================================================================
