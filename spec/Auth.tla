-------------------------------- MODULE Auth --------------------------------
(***************************************************************************)
(* Design specification of password authentication in maddy:              *)
(*   - the credential table of auth.pass_table as a state machine          *)
(*     (internal/auth/pass_table/table.go: CreateUserHash, SetUserPassword,*)
(*     DeleteUser; each call may be refused and then leaves the table      *)
(*     unchanged: invalid name, existing account, unknown hash, password   *)
(*     longer than bcrypt takes, failing table backend),                   *)
(*   - the observers: SASL PLAIN and LOGIN exchanges served by             *)
(*     auth.SASLAuth.CreateSASL through the user-name map (auth_map) and   *)
(*     its normalisation (auth_map_normalize),                             *)
(*   - the authentication gate of the submission endpoint                  *)
(*     (internal/endpoint/smtp/session.go:Mail, go-smtp's AUTH handling):  *)
(*     one connection, EHLO / AUTH / MAIL / RSET / close.                  *)
(*                                                                         *)
(* Deviations of the code (switched by Devs, see known_findings.d/C14):    *)
(*   "LoginMapTwice" sasl.go:CreateSASL, LOGIN branch: the user name is    *)
(*        normalised+mapped, the result is handed to SASLAuth.AuthPlain    *)
(*        which normalises+maps it again, and the mapped name is reported  *)
(*        as the identity.                                                 *)
(*   "BcryptTrunc"   hash.go:verifyBcrypt: bcrypt ignores everything after *)
(*        the 72nd byte when verifying (it refuses such passwords when     *)
(*        hashing), so a longer password with the same first 72 bytes is   *)
(*        accepted.                                                        *)
(*   "RegexpAltAnchor" table/regexp.go:Init: full_match puts "^" before and *)
(*        "$" behind the pattern without grouping it, so with an alternation*)
(*        at top level (a|b -> ^a|b$) a name that only starts with a (ends  *)
(*        with b) is covered by the map: "ub.evil.example" (spelling        *)
(*        ux/suf_b) is looked up as account ua under the map r_alt.         *)
(***************************************************************************)
EXTENDS AuthObs, TLC, SequencesExt, Json

CONSTANTS Variants,     \* spellings of ua / ub explored ("plain", "upper", "nfd", "wide")
          BadVariants,  \* spellings the PRECIS profile refuses ("space", "zwj")
          Pws,          \* password identifiers
          Schemes,      \* hash schemes offered to Create ("bcrypt", "argon2", "sha256" = not compiled in)
          Maps,         \* subset of MapIds
          Norms,        \* auth_map_normalize settings (all full normalisations: "auto", "precis_casefold")
          Kinds,        \* operation kinds explored
          UxVariants,   \* spellings of names that are never accounts: "plain" (mallory) and names made
                        \* of SQL pattern characters that match an account name as a LIKE pattern
                        \* ("under" zo_s ~ ua, "underb" ~ ub, "pct" %): still nobody's account
          Tbls,         \* table module behind pass_table: "mem" (in-memory), "sql" (table.sql_table, sqlite3)
          Defers,       \* defer_sender_reject settings of the submission endpoint
          MailFroms,    \* reverse-paths tried in MAIL: "addr", "null" (<>), "nullparam" (<> BODY=8BITMIME), "upper", "utf8"
          Doms,         \* domain of the e-mail shaped user ub: "ascii", "idn".  A data dimension of the
                        \* harness (which strings stand for ub and the maps over it); the design does not
                        \* depend on it except that the EmailVariants exist for an IDN only
          EmailVariants,\* spellings of ub that only an e-mail aware normalisation equates with it
                        \* ("alabel": domain as A-labels, "alabelup": that in upper case); offered to the
                        \* SASL observers when auth_map_normalize is "auto" (precis_casefold treats the name
                        \* as an opaque string and promises nothing; pass_table itself does the same)
          MaxOps,       \* longest history (Gen only)
          Devs,         \* enabled deviations
          Gen           \* TRUE: keep the history and print complete behaviours

VARIABLES cfg,      \* [map, norm, tbl, defer, dom, len]  fixed per behaviour
          tbl,      \* the credential table: Users -> [pw, sch] or Absent
          sess,     \* the SMTP connection: [open, authed (the session has an identity), did (go-smtp's flag)]
          obs,      \* observation state (AuthObs)
          pending,  \* Gen only: operation kind picked for the next step ("none" = not picked)
          hist,     \* Gen only: the behaviour so far
          phase     \* "run" | "end"

vars == <<cfg, tbl, sess, obs, pending, hist, phase>>
View == <<cfg, tbl, sess, obs, phase>>

MutSp == [u : Users, v : Variants] \cup [u : {"bad"}, v : BadVariants]
AllSp == MutSp \cup [u : {"ux"}, v : UxVariants]
SaslSp == AllSp \cup [u : {"ub"}, v : EmailVariants]     \* user names offered to the SASL front-end
EmailOk(sp) ==
  /\ sp.v \in {"alabel", "alabelup"} => (sp.u = "ub" /\ cfg.norm = "auto" /\ cfg.dom = "idn")
  \* spellings of "ux" of the shape <ua>@<another domain> are nobody's account only where the map does not
  \* drop the domain: table.email_localpart(_optional) takes them to ua, as documented - not offered there
  /\ (sp.u = "ux" /\ sp.v \in {"suf_b", "sharp", "zwnj"}) => cfg.map \notin {"b_local", "b_localopt"}
Azs   == {"empty", "same", "variant", "other", "fold"}
Mechs == {"PLAIN", "LOGIN"}

TooLong(pw) == pw \in {"l73", "long", "long2"}          \* more than 72 bytes
T72(pw)     == IF TooLong(pw) THEN "l72" ELSE pw        \* they all start with the 72 bytes of "l72"

Closed == [open |-> FALSE, authed |-> FALSE, did |-> FALSE]
CanonSp(n) == IF n \in {"ua", "ub", "ux"} THEN [u |-> n, v |-> "plain"] ELSE [u |-> "?", v |-> "?"]

H(e) == IF Gen THEN Append(hist, e) ELSE hist
Turn(k) == IF Gen THEN pending = k ELSE k \in Kinds

InitWith(c) ==
  /\ cfg = c
  /\ tbl = [u \in Users |-> Absent]
  /\ sess = Closed
  /\ obs = ObsInit
  /\ pending = "none" /\ hist = <<>> /\ phase = "run"

Init == \E m \in Maps, nm \in Norms, tb \in Tbls, df \in Defers, dm \in Doms, n \in (IF Gen THEN 1..MaxOps ELSE {0}) :
          InitWith([map |-> m, norm |-> nm, tbl |-> tb, defer |-> df, dom |-> dm, len |-> n])

(* ---- what a SASL exchange answers, under the deviations D ------------- *)
Outcome(mech, sp, pw, az, D) ==
  LET n    == Norm(sp)
      f    == MapF(cfg.map)
      alt  == "RegexpAltAnchor" \in D /\ cfg.map = "r_alt" /\ sp = [u |-> "ux", v |-> "suf_b"]
      t1   == IF n = "invalid" THEN "none" ELSE IF alt THEN "ua" ELSE Ap(f, n)
      twice == mech = "LOGIN" /\ "LoginMapTwice" \in D
      t    == IF twice THEN Ap(f, t1) ELSE t1
      pwok == /\ t \in Users /\ tbl[t] # Absent
              /\ \/ tbl[t].pw = pw
                 \/ "BcryptTrunc" \in D /\ tbl[t].sch = "bcrypt" /\ T72(pw) = tbl[t].pw
      azok == mech = "LOGIN" \/ az \in {"empty", "same"}
      ok   == azok /\ pwok
  IN [ok |-> ok, id |-> IF ~ok THEN NoId ELSE IF twice THEN CanonSp(t1) ELSE sp]

(* ---- account management ------------------------------------------------ *)
CreateRes(sp, pw, sch, fail) ==
  LET n == Norm(sp) IN
  IF \/ n \notin Users \/ tbl[n] # Absent \/ sch \notin {"bcrypt", "argon2"}
     \/ (sch = "bcrypt" /\ TooLong(pw)) \/ fail
  THEN "refused" ELSE "ok"
SetPwRes(sp, pw, fail) ==
  IF Norm(sp) \notin Users \/ TooLong(pw) \/ fail THEN "refused" ELSE "ok"
DeleteRes(sp, fail) ==
  IF Norm(sp) \notin Users \/ fail THEN "refused" ELSE "ok"

Create(sp, pw, sch, fail) ==
  /\ phase = "run" /\ Turn("Create")
  /\ LET res == CreateRes(sp, pw, sch, fail) IN
       /\ tbl' = IF res = "ok" THEN [tbl EXCEPT ![Norm(sp)] = [pw |-> pw, sch |-> sch]] ELSE tbl
       /\ obs' = ObsCreate(obs, sp, pw, sch, res)
  /\ hist' = H([a |-> "Create", sp |-> sp, pw |-> pw, sch |-> sch, fail |-> fail])
  /\ pending' = "none" /\ UNCHANGED <<cfg, sess, phase>>

(* SetUserPassword does not require the account to exist (it creates it) *)
SetPw(sp, pw, fail) ==
  /\ phase = "run" /\ Turn("SetPw")
  /\ LET res == SetPwRes(sp, pw, fail) IN
       /\ tbl' = IF res = "ok" THEN [tbl EXCEPT ![Norm(sp)] = [pw |-> pw, sch |-> "bcrypt"]] ELSE tbl
       /\ obs' = ObsSetPw(obs, sp, pw, res)
  /\ hist' = H([a |-> "SetPw", sp |-> sp, pw |-> pw, fail |-> fail])
  /\ pending' = "none" /\ UNCHANGED <<cfg, sess, phase>>

Delete(sp, fail) ==
  /\ phase = "run" /\ Turn("Delete")
  /\ LET res == DeleteRes(sp, fail) IN
       /\ tbl' = IF res = "ok" THEN [tbl EXCEPT ![Norm(sp)] = Absent] ELSE tbl
       /\ obs' = ObsDelete(obs, sp, res)
  /\ hist' = H([a |-> "Delete", sp |-> sp, fail |-> fail])
  /\ pending' = "none" /\ UNCHANGED <<cfg, sess, phase>>

(* ---- observers --------------------------------------------------------- *)
AuthOne(mech, sp, pw, az, D) ==
  /\ phase = "run" /\ Turn(IF mech = "PLAIN" THEN "AuthPlain" ELSE "AuthLogin")
  /\ mech = "LOGIN" => az = "empty"
  /\ EmailOk(sp)
  /\ LET r == Outcome(mech, sp, pw, az, D) IN obs' = ObsAuth(obs, cfg.map, sp, pw, az, r.ok, r.id)
  /\ hist' = H([a |-> "Auth", mech |-> mech, sp |-> sp, pw |-> pw, az |-> az])
  /\ pending' = "none" /\ UNCHANGED <<cfg, tbl, sess, phase>>

(* pass_table.Auth.AuthPlain called directly, as the other consumers of
   module.PlainAuth do; the map of the SASL front-end plays no role *)
DirectOk(sp, pw, D) ==
  LET t == Norm(sp) IN
  /\ t \in Users /\ tbl[t] # Absent
  /\ \/ tbl[t].pw = pw
     \/ "BcryptTrunc" \in D /\ tbl[t].sch = "bcrypt" /\ T72(pw) = tbl[t].pw

AuthDirect(sp, pw, D) ==
  /\ phase = "run" /\ Turn("AuthDirect")
  /\ obs' = ObsDirect(obs, sp, pw, DirectOk(sp, pw, D))
  /\ hist' = H([a |-> "AuthDirect", sp |-> sp, pw |-> pw])
  /\ pending' = "none" /\ UNCHANGED <<cfg, tbl, sess, phase>>

AuthPair(sp, pw, D) ==
  /\ phase = "run" /\ Turn("AuthPair") /\ EmailOk(sp)
  /\ LET p == Outcome("PLAIN", sp, pw, "empty", D)
         g == Outcome("LOGIN", sp, pw, "empty", D)
     IN obs' = ObsPair(obs, cfg.map, sp, pw, p.ok, p.id, g.ok, g.id)
  /\ hist' = H([a |-> "AuthPair", sp |-> sp, pw |-> pw])
  /\ pending' = "none" /\ UNCHANGED <<cfg, tbl, sess, phase>>

(* ---- the submission endpoint: one connection at a time ------------------ *)
SOpen ==
  /\ phase = "run" /\ Turn("SOpen") /\ ~sess.open
  /\ sess' = [Closed EXCEPT !.open = TRUE]
  /\ obs' = ObsSOpen(obs)
  /\ hist' = H([a |-> "SOpen"])
  /\ pending' = "none" /\ UNCHANGED <<cfg, tbl, phase>>

(* a second EHLO: go-smtp asks the backend for a fresh session (not authenticated)
   but keeps its own "did authenticate" flag *)
SEhlo ==
  /\ phase = "run" /\ Turn("SEhlo") /\ sess.open
  /\ sess' = [sess EXCEPT !.authed = FALSE]
  /\ obs' = Z(obs)
  /\ hist' = H([a |-> "SEhlo"])
  /\ pending' = "none" /\ UNCHANGED <<cfg, tbl, phase>>

SAuthRes(mech, sp, pw, D) ==
  IF sess.did THEN "already" ELSE IF Outcome(mech, sp, pw, "empty", D).ok THEN "ok" ELSE "fail"

SAuth(mech, sp, pw, D) ==
  /\ phase = "run" /\ Turn("SAuth") /\ sess.open /\ EmailOk(sp)
  /\ LET res == SAuthRes(mech, sp, pw, D) IN
       /\ sess' = IF res = "ok" THEN [sess EXCEPT !.authed = TRUE, !.did = TRUE] ELSE sess
       /\ obs' = ObsSAuth(obs, cfg.map, sp, pw, res)
  /\ hist' = H([a |-> "SAuth", mech |-> mech, sp |-> sp, pw |-> pw])
  /\ pending' = "none" /\ UNCHANGED <<cfg, tbl, phase>>

(* Session.Mail: "authentication required" unless the session has an identity.
   (go-smtp lets MAIL be repeated inside a transaction, so no other state matters.) *)
(* whatever the reverse-path (also the null one and odd ones), and whether the sender
   is examined at MAIL or deferred to RCPT (defer_sender_reject) *)
SMailRes(mf) == IF ~sess.authed THEN "refused" ELSE "ok"

SMail(mf) ==
  /\ phase = "run" /\ Turn("SMail") /\ sess.open
  /\ obs' = ObsSMail(obs, SMailRes(mf))
  /\ hist' = H([a |-> "SMail", mf |-> mf])
  /\ pending' = "none" /\ UNCHANGED <<cfg, tbl, sess, phase>>

SRset ==
  /\ phase = "run" /\ Turn("SRset") /\ sess.open
  /\ obs' = Z(obs)
  /\ hist' = H([a |-> "SRset"])
  /\ pending' = "none" /\ UNCHANGED <<cfg, tbl, sess, phase>>

SClose ==
  /\ phase = "run" /\ Turn("SClose") /\ sess.open
  /\ sess' = Closed
  /\ obs' = Z(obs)
  /\ hist' = H([a |-> "SClose"])
  /\ pending' = "none" /\ UNCHANGED <<cfg, tbl, phase>>

(* ---- behaviour generation ---------------------------------------------- *)
KindEnabled(k) ==
  CASE k = "SOpen" -> ~sess.open
    [] k \in {"SEhlo", "SMail", "SRset", "SClose"} -> sess.open
    [] k = "SAuth" -> sess.open
    [] OTHER -> TRUE

Pick(k) ==
  /\ Gen /\ phase = "run" /\ pending = "none" /\ Len(hist) < cfg.len /\ KindEnabled(k)
  /\ pending' = k
  /\ UNCHANGED <<cfg, tbl, sess, obs, hist, phase>>

Finish ==
  /\ Gen /\ phase = "run" /\ pending = "none" /\ Len(hist) = cfg.len
  /\ phase' = "end"
  /\ PrintT(<<"BEH", ToJson([cfg |-> cfg, hist |-> hist])>>)
  /\ UNCHANGED <<cfg, tbl, sess, obs, pending, hist>>

(* Optional steering of the generator (CONSTRAINT in Gen configurations): it only
   prunes which histories are printed, it is not part of the design.
   Steer: the first operation sets a password for ua or ub without a refusal cause,
   injected backend failures are rare, and every authentication supplies a password
   that some earlier operation tried to set (current, stale, or another account's). *)
SetBefore(i) == {hist[j].pw : j \in {k \in 1..(i - 1) : hist[k].a \in {"Create", "SetPw"}}}
(* password identifiers whose octet strings a "helpful" preparation would make equal (NFC,
   non-ASCII spaces, case, width, trimming); for the design they are simply different passwords *)
PwTwinPairs == {<<"nfc", "nfd">>, <<"nbsp", "sp">>, <<"a", "aup">>, <<"a", "atr">>, <<"b", "bwide">>,
                <<"jamo", "jamoc">>}
PwTwins(pw) == {p[2] : p \in {q \in PwTwinPairs : q[1] = pw}} \cup {p[1] : p \in {q \in PwTwinPairs : q[2] = pw}}
Steer ==
  /\ Len(hist) >= 1 =>
        /\ hist[1].a \in {"Create", "SetPw"} /\ ~hist[1].fail /\ hist[1].sp.u \in Users
        /\ hist[1].a = "Create" => hist[1].sch # "sha256"
        /\ ~TooLong(hist[1].pw)
  /\ \A i \in 1..Len(hist) :
        /\ hist[i].a \in {"Auth", "AuthPair", "AuthDirect", "SAuth"} =>
              \/ hist[i].pw \in SetBefore(i)
              \/ T72(hist[i].pw) \in SetBefore(i)
              \/ PwTwins(hist[i].pw) \cap SetBefore(i) # {}
        /\ (hist[i].a \in {"Create", "SetPw", "Delete"} /\ hist[i].fail) => i % 4 = 0

Ops(D) ==
  \/ \E sp \in MutSp, pw \in Pws, sch \in Schemes, fail \in BOOLEAN : Create(sp, pw, sch, fail)
  \/ \E sp \in MutSp, pw \in Pws, fail \in BOOLEAN : SetPw(sp, pw, fail)
  \/ \E sp \in MutSp, fail \in BOOLEAN : Delete(sp, fail)
  \/ \E mech \in Mechs, sp \in SaslSp, pw \in Pws, az \in Azs : AuthOne(mech, sp, pw, az, D)
  \/ \E sp \in SaslSp, pw \in Pws : AuthPair(sp, pw, D)
  \/ \E sp \in AllSp, pw \in Pws : AuthDirect(sp, pw, D)
  \/ \E mech \in Mechs, sp \in SaslSp, pw \in Pws : SAuth(mech, sp, pw, D)
  \/ \E mf \in MailFroms : SMail(mf)
  \/ SOpen \/ SEhlo \/ SRset \/ SClose

Next ==
  \/ Ops(Devs)
  \/ \E k \in Kinds : Pick(k)
  \/ Finish
  \/ (phase = "end" /\ UNCHANGED vars)

Spec == Init /\ [][Next]_vars

(***************************************************************************)
(* C14 is the conjunction of the predicates evaluated inside AuthObs.      *)
(***************************************************************************)
NoViolation == obs.viol = {}
TypeOK == /\ \A u \in Users : tbl[u] = Absent \/ (tbl[u].pw \in Pws /\ tbl[u].sch \in {"bcrypt", "argon2"})
          /\ obs.ref = tbl
          /\ sess.authed => (sess.did /\ sess.open)
          /\ (sess.authed /\ sess.open) => obs.sawAuth
=============================================================================
