------------------------------ MODULE Address ------------------------------
(***************************************************************************)
(* C17 - address normalisation is a consistent equivalence; conversions    *)
(* round-trip.  Pattern B, two layers (constant Layer).                    *)
(*                                                                         *)
(* Layer "algebra": an address is a local part and a sequence of domain    *)
(* labels, each a BASE identity in one SPELLING:                           *)
(*    lower     canonical form: lower case, NFC, U-label                   *)
(*    upper     upper case (NFC)            mixed     mixed case (ASCII)   *)
(*    nfd       canonically decomposed      uppernfd  upper case + NFD     *)
(*    upperd    capital letter + combining mark where Unicode has no       *)
(*              precomposed capital (J + U+030C for U+01F0)                *)
(*    alabel    A-label "xn--..."           alabelup  "XN--..." (DNS is    *)
(*              case-insensitive)           alabelmix "xn--" + upper tail  *)
(*    updot     capital I with dot above U+0130 for the first i (its       *)
(*              lower case is i), precomposed                              *)
(*    updotnfd  the same decomposed: I + U+0307.  Lower-casing BEFORE      *)
(*              composing gives i + U+0307, which is not the canonical     *)
(*              string: the spelling on which the order NFC, lower, NFC    *)
(*              matters in the other direction than for upperd             *)
(* A domain may be written with the root label (FQDN spelling, trailing    *)
(* dot): a third, last label Root whose only spelling is the empty string. *)
(* The lookup key drops it (dns.ForLookup), CleanDomain and the            *)
(* conversions keep it.  The statement does not list it among the variants *)
(* that must share one key, so the bases of Id() include it: one key is    *)
(* demanded only between addresses written alike in this respect, while    *)
(* "comparison coincides with equality of keys", symmetry and transitivity *)
(* are demanded across it.                                                 *)
(* The model knows only names; the concrete strings are a table in the     *)
(* harness (harness/addresscheck/table.go), derived from the canonical     *)
(* string with golang.org/x/text and x/net/idna (trusted).                 *)
(* All spellings of one base are variants of one valid (IDNA2008) name.    *)
(*                                                                         *)
(* Layer "string": strings over an alphabet of symbols (character classes  *)
(* and a few multi-character tokens); Split, QuoteMbox, UnquoteMbox and    *)
(* IsASCII are transcribed over symbol sequences.                          *)
(*                                                                         *)
(* ...Viol(in, out) - the laws of the property statement (declarative)     *)
(* ...Model(D, in)  - what the documented algorithms return, with the      *)
(*                    deviations D of the code as it is                    *)
(***************************************************************************)
EXTENDS Integers, Sequences, FiniteSets, TLC, Json

CONSTANTS Devs,     \* deviations switched on
          Layer,    \* "algebra" | "string"
          StrLen,   \* string layer: maximal number of symbols
          Gen       \* TRUE: print the case list (ROW lines)

AllDevs == {"UpperACE", "LowerDenorm", "LowerFirst", "IsASCII128"}

----------------------------------------------------------------------------
(* layer 1: the variant algebra *)

LpSpell  == [user |-> {"lower", "upper", "mixed"},
             jose |-> {"lower", "upper", "nfd", "uppernfd"},
             jx   |-> {"lower", "nfd", "upperd"},
             fw   |-> {"lower", "upper"},
             \* ist: "istanbul", also spelled with the dotted capital I; sig: a local part ending
             \* in sigma U+03C3 (context-sensitive lower-casing would make it final sigma)
             ist  |-> {"lower", "upper", "updot", "updotnfd"},
             sig  |-> {"lower", "upper"}]
LabSpell == [ex |-> {"lower", "upper", "mixed"},
             e1 |-> {"lower", "upper", "nfd", "uppernfd", "alabel", "alabelup", "alabelmix"},
             \* ss: sharp s; uppercs spells it with the capital sharp s U+1E9E
             ss |-> {"lower", "upper", "uppercs", "alabel", "alabelup"},
             fs |-> {"lower", "alabel", "alabelup"},
             jc |-> {"lower", "nfd", "upperd", "alabel", "alabelup"},
             \* context-sensitive case mappings: sigma U+03C3 at the end of a word (before the
             \* dot, before a hyphen, before a digit) must not become final sigma when the
             \* upper-case variant is folded; dotless i U+0131 must stay dotless
             s0 |-> {"lower", "upper", "alabel", "alabelup"},
             sh |-> {"lower", "upper", "alabel", "alabelup"},
             sd |-> {"lower", "upper", "alabel", "alabelup"},
             di |-> {"lower", "alabel", "alabelup"},
             \* il: the ASCII label "istanbul", also spelled with the dotted capital I
             il |-> {"lower", "upper", "updot", "updotnfd"}]
\* gs: a last label ending in sigma U+03C3 (end of the domain)
TldSpell == [com |-> {"lower", "upper"}, gs |-> {"lower", "upper", "alabel"}]
AsciiBase == {"user", "ex", "com", "il", "root"}
AsciiSpell == {"lower", "upper", "mixed"}     \* the spellings of an ASCII base that are ASCII
\* the root label: one spelling (the empty string after the last dot)
Root == [b |-> "root", s |-> "lower"]
Rooted(d) == Len(d) > 0 /\ d[Len(d)] = Root
Unroot(d) == IF Rooted(d) THEN SubSeq(d, 1, Len(d) - 1) ELSE d

Lps  == UNION {{[b |-> b, s |-> s] : s \in LpSpell[b]} : b \in DOMAIN LpSpell}
Labs == UNION {{[b |-> b, s |-> s] : s \in LabSpell[b]} : b \in DOMAIN LabSpell}
Tlds == UNION {{[b |-> b, s |-> s] : s \in TldSpell[b]} : b \in DOMAIN TldSpell}
\* every local part x label under com; the non-ASCII last label with the ASCII local part;
\* the bases added for the dotted capital I / the sigma local part with a few labels only
InSpace(l, d, t) == /\ t.b = "com" \/ l.b = "user"
                    /\ l.b \in {"ist", "sig"} => d.b \in {"ex", "e1", "il"}
                    /\ d.b = "il" => l.b \in {"user", "ist"}
\* every domain without and with the root label
Doms == {<<d, t>> : d \in Labs, t \in Tlds} \cup {<<d, t, Root>> : d \in Labs, t \in Tlds}
Addrs == {a \in {[lp |-> l, dom |-> dm] : l \in Lps, dm \in Doms} : InSpace(a.lp, a.dom[1], a.dom[2])}

Id(a) == [lp |-> a.lp.b, dom |-> [i \in DOMAIN a.dom |-> a.dom[i].b]]
DomId(a) == [i \in DOMAIN a.dom |-> a.dom[i].b]
\* every spelling of the address a (same bases, same way with respect to the root label), built
\* from the spelling tables (membership in Addrs depends on the bases only)
Class(a) == {[lp |-> [b |-> a.lp.b, s |-> s1],
              dom |-> <<[b |-> a.dom[1].b, s |-> s2], [b |-> a.dom[2].b, s |-> s3]>>
                      \o (IF Rooted(a.dom) THEN <<Root>> ELSE <<>>)] :
               s1 \in LpSpell[a.lp.b], s2 \in LabSpell[a.dom[1].b], s3 \in TldSpell[a.dom[2].b]}
\* the address as it is written canonically, one per identity
Canon(a) == [lp |-> [b |-> a.lp.b, s |-> "lower"], dom |-> [i \in DOMAIN a.dom |-> [b |-> a.dom[i].b, s |-> "lower"]]]
Reps == {a \in Addrs : a = Canon(a)}
\* the spellings of the same address written the other way with respect to the root label
FlipRoot(a) == [lp |-> a.lp, dom |-> IF Rooted(a.dom) THEN Unroot(a.dom) ELSE a.dom \o <<Root>>]
RootVar(a) == {FlipRoot(x) : x \in Class(a)}

\* dns.ForLookup / the domain half of address.ForLookup and CleanDomain on one label:
\* A-label -> U-label, NFC, lower case
NormLabel(D, l) ==
  [b |-> l.b,
   s |-> CASE l.s = "alabelup" /\ "UpperACE" \in D  -> "alabel"  \* prefix not recognised: only lower-cased
           [] l.s = "upperd" /\ "LowerDenorm" \in D -> "nfd"     \* lower-casing after NFC leaves j + U+030C
           [] l.s = "updotnfd" /\ "LowerFirst" \in D -> "lowdotnfd"  \* lower-casing before NFC leaves i + U+0307
           [] OTHER -> "lower"]
\* the local part: NFC, lower case, NFC
NormLp(D, l) ==
  [b |-> l.b, s |-> IF l.s = "upperd" /\ "LowerDenorm" \in D THEN "nfd"
                    ELSE IF l.s = "updotnfd" /\ "LowerFirst" \in D THEN "lowdotnfd" ELSE "lower"]

\* the key of a domain: every label normalised, the root label dropped
NormDom(D, d) == LET u == Unroot(d) IN [i \in DOMAIN u |-> NormLabel(D, u[i])]
\* CleanDomain: every label normalised, the root label kept
CleanDom(D, d) == NormDom(D, d) \o (IF Rooted(d) THEN <<Root>> ELSE <<>>)
Key(D, a)   == [lp |-> NormLp(D, a.lp), dom |-> NormDom(D, a.dom)]
Clean(D, a) == [lp |-> a.lp, dom |-> CleanDom(D, a.dom)]
EqualM(D, a, b) == a = b \/ Key(D, a) = Key(D, b)
DEqualM(D, x, y) == x = y \/ NormDom(D, x) = NormDom(D, y)

\* forms in which ASCII/Unicode conversion is specified (valid addresses as they
\* are written: canonical U-labels, canonical A-labels, ASCII in any case)
ALabelForm(l) == (l.b \in AsciiBase /\ l.s \in AsciiSpell) \/ l.s = "alabel"
ULabelForm(l) == (l.b \in AsciiBase /\ l.s \in AsciiSpell) \/ l.s = "lower"
ConvForm(a) == a.lp.b \in AsciiBase /\ \A i \in DOMAIN a.dom : ALabelForm(a.dom[i]) \/ ULabelForm(a.dom[i])
AForm(a) == ConvForm(a) /\ \A i \in DOMAIN a.dom : ALabelForm(a.dom[i])
UForm(a) == ConvForm(a) /\ \A i \in DOMAIN a.dom : ULabelForm(a.dom[i])
ToA(l) == IF l.b \in AsciiBase THEN l ELSE [b |-> l.b, s |-> "alabel"]
ToU(l) == IF l.b \in AsciiBase THEN l ELSE [b |-> l.b, s |-> "lower"]
ToASCIIM(a)   == [lp |-> a.lp, dom |-> [i \in DOMAIN a.dom |-> ToA(a.dom[i])]]
ToUnicodeM(a) == [lp |-> a.lp, dom |-> [i \in DOMAIN a.dom |-> ToU(a.dom[i])]]

(* what the real functions are asked, per row kind *)
Model1(D, a) ==
  [key |-> Key(D, a), kerr |-> FALSE, key2 |-> Key(D, Key(D, a)),
   clean |-> Clean(D, a), cerr |-> FALSE, clean2 |-> Clean(D, Clean(D, a)),
   dkey |-> NormDom(D, a.dom), dkey2 |-> NormDom(D, NormDom(D, a.dom)),
   kcanon |-> Key(D, Canon(a)),          \* ForLookup of the canonical spelling of the same address
   ckey |-> Key(D, Clean(D, a)),         \* ForLookup(CleanDomain(a))
   eqself |-> TRUE]
Model2(D, a, b) ==
  [eqab |-> EqualM(D, a, b), eqba |-> EqualM(D, b, a), ka |-> Key(D, a), kb |-> Key(D, b),
   deqab |-> DEqualM(D, a.dom, b.dom), deqba |-> DEqualM(D, b.dom, a.dom),
   dka |-> NormDom(D, a.dom), dkb |-> NormDom(D, b.dom),
   cda |-> CleanDom(D, a.dom), cdb |-> CleanDom(D, b.dom)]
Model3(D, a, b, c) ==
  [eqab |-> EqualM(D, a, b), eqbc |-> EqualM(D, b, c), eqac |-> EqualM(D, a, c)]

Proj1(o) == [key |-> o.key, kerr |-> o.kerr, key2 |-> o.key2, clean |-> o.clean, cerr |-> o.cerr,
             clean2 |-> o.clean2, dkey |-> o.dkey, dkey2 |-> o.dkey2, kcanon |-> o.kcanon, ckey |-> o.ckey,
             eqself |-> o.eqself]

(* the laws *)
Viol1(a, o) ==
  (IF o.eqself THEN {} ELSE {"Reflexive"})
  \cup (IF ~o.kerr /\ o.key2 = o.key THEN {} ELSE {"IdemKey"})
  \cup (IF ~o.cerr /\ o.clean2 = o.clean THEN {} ELSE {"IdemClean"})
  \cup (IF o.dkey2 = o.dkey THEN {} ELSE {"IdemDns"})
  \* every variant gets the key of the canonical spelling; cleaning the domain (what the
  \* endpoint does before tables see the address) does not change the key
  \cup (IF o.key = o.kcanon THEN {} ELSE {"OneKey"})
  \cup (IF o.ckey = o.key THEN {} ELSE {"CleanKeepsKey"})
  \cup (IF "split" \in DOMAIN o => o.split.ok /\ o.split.joined = a THEN {} ELSE {"SplitJoin"})
  \cup (IF "conv" \in DOMAIN o /\ ConvForm(a)
        THEN IF /\ ~o.conv.aerr /\ ~o.conv.uerr
                /\ o.conv.rta = o.conv.toascii        \* ToASCII(ToUnicode(a)) = ToASCII(a)
                /\ o.conv.rtu = o.conv.tounicode      \* ToUnicode(ToASCII(a)) = ToUnicode(a)
                /\ (AForm(a) => o.conv.toascii = a)
                /\ (UForm(a) => o.conv.tounicode = a)
                /\ o.conv.dtoascii = o.conv.toascii.dom /\ o.conv.dtounicode = o.conv.tounicode.dom
             THEN {} ELSE {"RoundTrip"}
        ELSE {})
  \cup (IF "panics" \in DOMAIN o => o.panics = <<>> THEN {} ELSE {"NoPanic"})

Viol2(a, b, o) ==
  (IF o.eqab = o.eqba /\ o.deqab = o.deqba THEN {} ELSE {"Symmetric"})
  \cup (IF (o.eqab <=> o.ka = o.kb) /\ (o.deqab <=> o.dka = o.dkb) THEN {} ELSE {"EqualIffKey"})
  \cup (IF /\ Id(a) = Id(b) => o.ka = o.kb /\ o.eqab
           /\ DomId(a) = DomId(b) => o.dka = o.dkb /\ o.deqab /\ o.cda = o.cdb
        THEN {} ELSE {"OneKey"})

Viol3(o) == IF o.eqab /\ o.eqbc => o.eqac THEN {} ELSE {"Transitive"}

----------------------------------------------------------------------------
(* layer 2: strings over symbols *)

\* symbol |-> largest code point of its concrete string
MaxCP == [l |-> 97, u |-> 65, d |-> 49, s |-> 33, p |-> 40, q |-> 34, b |-> 92, at |-> 64,
          dot |-> 46, sp |-> 32, del |-> 127, c80 |-> 128, c81 |-> 129, cm |-> 769,
          i130 |-> 304, ss |-> 223, fs |-> 962, fw |-> 65313,
          ace |-> 120, ACE |-> 88, pm |-> 116, PM |-> 84, Pm |-> 116,
          \* only in the comparison layer: letters whose lower-casing and case folding differ
          sg |-> 963, SG |-> 931, li |-> 105, es |-> 115, ls |-> 383, kk |-> 107, KS |-> 8490,
          \* only in the domain layer: degenerate A-label shapes ("xn--", "XN--", "Xn--", "xn---") and "-"
          xe |-> 120, XE |-> 88, Xe |-> 110, xh |-> 120, hy |-> 45]
\* the alphabet of the one-string laws
Sym == {"l", "u", "d", "s", "p", "q", "b", "at", "dot", "sp", "del", "c80", "c81", "cm", "i130", "ss",
        "fs", "fw", "ace", "ACE", "pm", "PM", "Pm"}
MboxSpecial == {"p", "q", "b", "at", "sp"}      \* ( " \ @ space: force quoting
\* the domain-less address of RFC 5321 4.1.1.3 in lower, upper and mixed case
Postmaster == {<<"pm">>, <<"PM">>, <<"Pm">>}

IsASCIIM(D, s) == \A i \in DOMAIN s :
                    IF "IsASCII128" \in D THEN MaxCP[s[i]] <= 128 ELSE MaxCP[s[i]] < 128

LastAt(s) == IF \E i \in DOMAIN s : s[i] = "at"
             THEN CHOOSE i \in DOMAIN s : s[i] = "at" /\ \A j \in DOMAIN s : j > i => s[j] # "at"
             ELSE 0

SplitM(s) ==
  IF s \in Postmaster THEN [ok |-> TRUE, mbox |-> s, dom |-> <<>>]
  ELSE LET i == LastAt(s) IN
       IF i = 0 \/ i = 1 \/ i = Len(s) THEN [ok |-> FALSE, mbox |-> <<>>, dom |-> <<>>]
       ELSE [ok |-> TRUE, mbox |-> SubSeq(s, 1, i - 1), dom |-> SubSeq(s, i + 1, Len(s))]

RECURSIVE Escaped(_)
Escaped(m) == IF m = <<>> THEN <<>>
              ELSE (IF Head(m) \in {"b", "q"} THEN <<"b", Head(m)>> ELSE <<Head(m)>>) \o Escaped(Tail(m))
QuoteM(m) == IF \E i \in DOMAIN m : m[i] \in MboxSpecial THEN <<"q">> \o Escaped(m) \o <<"q">> ELSE m

\* UnquoteMbox, symbol by symbol; st = [quoted, escaped, term, out, err]
UStep(st, ch) ==
  IF st.err THEN st
  ELSE IF st.term THEN [st EXCEPT !.err = TRUE]
  ELSE IF ch = "q" /\ ~st.escaped
       THEN [st EXCEPT !.quoted = ~st.quoted, !.term = st.quoted]
  ELSE IF ch = "b" /\ ~st.escaped
       THEN IF st.quoted THEN [st EXCEPT !.escaped = TRUE] ELSE [st EXCEPT !.err = TRUE]
  ELSE IF ch = "at" /\ ~st.quoted THEN [st EXCEPT !.err = TRUE]
  ELSE [st EXCEPT !.escaped = FALSE, !.out = st.out \o <<ch>>]
RECURSIVE UFold(_, _)
UFold(st, m) == IF m = <<>> THEN st ELSE UFold(UStep(st, Head(m)), Tail(m))
UnquoteM(m) ==
  LET st == UFold([quoted |-> FALSE, escaped |-> FALSE, term |-> FALSE, out |-> <<>>, err |-> FALSE], m)
  IN IF st.err \/ st.out = <<>> THEN [ok |-> FALSE, val |-> <<>>] ELSE [ok |-> TRUE, val |-> st.out]

\* the domain-less postmaster address has no domain to convert: CleanDomain, ToASCII,
\* ToUnicode return it as it was given
PmConv(s) == [clean |-> s, toascii |-> s, tounicode |-> s, rtu |-> s]
ModelS(D, s) ==
  LET base == [isascii |-> IsASCIIM(D, s), split |-> SplitM(s), quote |-> QuoteM(s),
               unq |-> UnquoteM(s), uq |-> UnquoteM(QuoteM(s))]
  IN IF s \in Postmaster THEN base @@ [pmconv |-> PmConv(s)] ELSE base
ProjS(o) ==
  LET base == [isascii |-> o.isascii, split |-> o.split, quote |-> o.quote, unq |-> o.unq, uq |-> o.uq]
  IN IF "pmconv" \in DOMAIN o THEN base @@ [pmconv |-> o.pmconv] ELSE base

\* the laws, stated without reference to the algorithms
ViolS(s, o) ==
  LET cansplit == \E i \in 2..(Len(s) - 1) : s[i] = "at" /\ \A j \in (i + 1)..Len(s) : s[j] # "at"
  IN
  (IF o.isascii <=> \A i \in DOMAIN s : MaxCP[s[i]] < 128 THEN {} ELSE {"IsASCII"})
  \* splitting and re-joining
  \cup (IF /\ cansplit => o.split.ok
           /\ o.split.ok /\ s \notin Postmaster =>
                /\ o.split.mbox \o <<"at">> \o o.split.dom = s
                /\ o.split.mbox # <<>> /\ o.split.dom # <<>>
                /\ \A i \in DOMAIN o.split.dom : o.split.dom[i] # "at"
        THEN {} ELSE {"SplitJoin"})
  \* the domain-less postmaster address (valid, any letter case): splitting gives the
  \* address itself and no domain, so re-joining gives it back; the conversions of the
  \* domain, and ToUnicode(ToASCII(.)), leave it as it was given
  \cup (IF s \in Postmaster =>
             /\ o.split.ok /\ o.split.mbox = s /\ o.split.dom = <<>>
             /\ "pmconv" \in DOMAIN o /\ o.pmconv = PmConv(s)
        THEN {} ELSE {"PostmasterKept"})
  \* quoting and unquoting of a local part
  \cup (IF s # <<>> => o.uq.ok /\ o.uq.val = s THEN {} ELSE {"QuoteUnquote"})
  \cup (IF o.panics = <<>> THEN {} ELSE {"NoPanic"})

----------------------------------------------------------------------------
(* layer 2b: comparison of arbitrary strings ("string2")                      *)
(*                                                                            *)
(* "Address comparison is an equivalence relation that coincides with         *)
(* equality of lookup keys" carries no restriction to valid addresses (unlike *)
(* idempotence, one key per identity and the round trips), and the doc        *)
(* comments of Equal / ForLookup promise it for malformed operands as well    *)
(* (the key of a malformed address is its lower-cased text).  It is therefore *)
(* evaluated on pairs / triples of arbitrary symbol strings: Equal symmetric  *)
(* and transitive, Equal <=> the two values ForLookup returns are equal; the  *)
(* same for dns.Equal / dns.ForLookup.  Nothing else is demanded of malformed *)
(* strings.                                                                   *)
(* The alphabet holds the letters on which strings.ToLower (the key) and      *)
(* simple case folding (strings.EqualFold) disagree: final sigma, long s,     *)
(* dotted capital I, Kelvin sign.                                             *)

Sym2 == {"l", "u", "sg", "SG", "fs", "li", "i130", "es", "ls", "kk", "KS", "at", "dot", "ace", "ACE"}
\* strings.ToLower, symbol by symbol (checked against the real function when the harness starts)
LowerSym == [l |-> "l", u |-> "l", sg |-> "sg", SG |-> "sg", fs |-> "fs", li |-> "li", i130 |-> "li",
             es |-> "es", ls |-> "ls", kk |-> "kk", KS |-> "kk", at |-> "at", dot |-> "dot",
             ace |-> "ace", ACE |-> "ace"]
\* letters a case-insensitive comparison could take for one another (used to pick the
\* pairs worth trying, not by any law)
Orbit == [l |-> "a", u |-> "a", sg |-> "sigma", SG |-> "sigma", fs |-> "sigma", li |-> "i", i130 |-> "i",
          es |-> "s", ls |-> "s", kk |-> "k", KS |-> "k", at |-> "at", dot |-> "dot", ace |-> "ace", ACE |-> "ace"]
Strs2 == {<<>>} \cup {<<a>> : a \in Sym2} \cup {<<a, b>> : a, b \in Sym2}
Alike(s, t) == Len(s) = Len(t) /\ \A i \in DOMAIN s : Orbit[s[i]] = Orbit[t[i]]

\* the documented key where the model has one: a malformed address (Split fails) has its
\* text lower-cased as key
Modelled(s) == ~SplitM(s).ok
KeyS(s) == [i \in DOMAIN s |-> LowerSym[s[i]]]
EqualS(s, t) == s = t \/ KeyS(s) = KeyS(t)

ModelP2(s, t) == [eq12 |-> EqualS(s, t), eq21 |-> EqualS(t, s), k1 |-> KeyS(s), k2 |-> KeyS(t)]
ProjP2(o) == [eq12 |-> o.eq12, eq21 |-> o.eq21, k1 |-> o.k1, k2 |-> o.k2]
ModelP3(s, t, u) == [eq12 |-> EqualS(s, t), eq23 |-> EqualS(t, u), eq13 |-> EqualS(s, u)]

\* the laws on what was returned for two / three arbitrary strings
ViolP2(o) ==
  (IF o.eq12 = o.eq21 /\ ("deq12" \in DOMAIN o => o.deq12 = o.deq21) THEN {} ELSE {"SymmetricS"})
  \cup (IF (o.eq12 <=> o.k1 = o.k2) /\ ("deq12" \in DOMAIN o => (o.deq12 <=> o.dk1 = o.dk2))
        THEN {} ELSE {"EqualIffKeyS"})
ViolP3(o) == IF (o.eq12 /\ o.eq23 => o.eq13) /\ ("deq12" \in DOMAIN o => (o.deq12 /\ o.deq23 => o.deq13))
             THEN {} ELSE {"TransitiveS"}

----------------------------------------------------------------------------
(* layer 2c: crash-freedom on degenerate domains ("domain")                   *)
(* Domains built from degenerate A-label shapes (the bare ACE prefix in any   *)
(* letter case decodes to the empty string, "xn---", A-labels next to dots,   *)
(* hyphens, non-ASCII) are given to every function as a bare domain, behind   *)
(* a plain and behind a quoted local part.  The only law is crash-freedom.    *)

DSym == {"l", "u", "d", "dot", "hy", "xe", "XE", "Xe", "xh", "ace", "ACE", "c80", "cm", "fs"}
ViolD(o) == IF o.panics = <<>> THEN {} ELSE {"NoPanic"}

----------------------------------------------------------------------------
(* model checking *)

VARIABLE st     \* algebra: an address; string: a symbol sequence

\* algebra: local part and tld are chosen first (initial states), the label in one step,
\* so that the workers share the addresses; string: one symbol is appended per step
Init == IF Layer = "algebra" THEN st \in {[lp |-> l, dom |-> dm] : l \in Lps, dm \in {<<t>> : t \in Tlds} \cup {<<t, Root>> : t \in Tlds}}
        ELSE st = <<>>
Next == \/ /\ Layer = "string"
           /\ Len(st) < StrLen
           /\ \E c \in Sym : st' = Append(st, c)
        \/ /\ Layer = "string2"
           /\ Len(st) < 2
           /\ \E c \in Sym2 : st' = Append(st, c)
        \/ /\ Layer = "domain"
           /\ Len(st) < StrLen
           /\ \E c \in DSym : st' = Append(st, c)
        \/ /\ Layer = "algebra"
           /\ st.dom[1] \in Tlds
           /\ \E d \in Labs : InSpace(st.lp, d, st.dom[1]) /\ st' = [lp |-> st.lp, dom |-> <<d>> \o st.dom]
Spec == Init /\ [][Next]_st
Complete == Layer \in {"string", "string2", "domain"} \/ st.dom[1] \in Labs

AlgebraLaws ==
  Layer = "algebra" /\ Complete =>
    /\ Viol1(st, Model1(Devs, st)) = {}
    \* pairs: every variant of the same address and the canonical spelling of every other one;
    \* triples: the variants that share the spelling of the local part
    \* and the same address written the other way with respect to the root label
    /\ \A b \in Class(st) \cup Reps \cup RootVar(st) : Viol2(st, b, Model2(Devs, st, b)) = {}
    /\ \A b, c \in {x \in Class(st) \cup RootVar(st) : x.lp = st.lp /\ x.dom[2] = st.dom[2]} :
          Viol3(Model3(Devs, st, b, c)) = {}
    /\ ConvForm(st) => /\ ToASCIIM(ToUnicodeM(st)) = ToASCIIM(st)
                       /\ ToUnicodeM(ToASCIIM(st)) = ToUnicodeM(st)
                       /\ (AForm(st) => ToASCIIM(st) = st)
                       /\ (UForm(st) => ToUnicodeM(st) = st)
StringLaws ==
  Layer = "string" => ViolS(st, ModelS(Devs, st) @@ [panics |-> <<>>]) = {}

\* comparison of arbitrary strings: every pair with st, every triple of look-alikes
CompareLaws ==
  Layer = "string2" =>
    /\ \A t \in Strs2 : ViolP2(ModelP2(st, t)) = {}
    /\ \A t, u \in {x \in Strs2 : Alike(st, x)} : ViolP3(ModelP3(st, t, u)) = {}
\* degenerate domains: the documented functions return values or errors, they never crash
DomainLaws == Layer = "domain" => ViolD([panics |-> <<>>]) = {}
EmitOrbit == Gen /\ Layer = "string2" /\ st = <<>> => PrintT(<<"ORBIT", ToJson(Orbit)>>)

Emit == Gen /\ Complete => PrintT(<<"ROW", ToJson(st)>>)
=============================================================================
