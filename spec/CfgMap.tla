------------------------------- MODULE CfgMap -------------------------------
(***************************************************************************)
(* X08 - configuration directives are consumed exactly as documented.      *)
(*                                                                         *)
(* Pattern B.  The layer between CfgSyntax.tla (text -> tree) and          *)
(* Routing.tla (configured pipeline): tree -> configured variables.        *)
(*                                                                         *)
(* Layer "m" (this module): framework/config.Map.  One row is a complete   *)
(* configuration text (rendered here, by TLA+): global directives at the   *)
(* top level and one module block, together with the registrations of the *)
(* global Map (as maddy.ReadGlobals makes them: AllowUnknown, no           *)
(* inheritance) and of the module's Map (kind, inheritGlobal, required,    *)
(* default).  The harness parses the text with the real cfgparser, builds  *)
(* both real config.Map objects, runs Process on the global level, hands   *)
(* its Values to the module level as maddy.go does and records             *)
(* (error, variables, unknown nodes, callback calls).                      *)
(*                                                                         *)
(*   Prop(in, out)  the property as named declarative predicates           *)
(*   Rule(in)       the documented procedure (operational: scan the nodes  *)
(*                  in order, then resolve the absent directives)          *)
(*   RuleD(D, in)   the same with named deviations of the code (AllDevs)   *)
(*                                                                         *)
(* Values are sequences of strings in a canonical spelling (bool           *)
(* "true"/"false", integers and sizes in decimal, durations in whole       *)
(* milliseconds, floats in shortest %g form, lists element-wise) so that   *)
(* TLC's 32-bit integers are only needed for the sums the documentation    *)
(* defines (several duration / data size arguments are added).             *)
(*                                                                         *)
(* The documented meaning of every argument spelling is a table (TLC       *)
(* strings cannot be taken apart): docs/reference/config-syntax.md         *)
(* "Duration values", "Data size values"; the doc comments of map.go.      *)
(***************************************************************************)
EXTENDS Integers, Sequences, FiniteSets, TLC, Json, SequencesExt

CONSTANTS
  Devs,      \* deviations of the code the as-is rule takes into account
  Gen,       \* TRUE: print the rows
  Seed,      \* seed of the mixed table
  RandN,     \* number of mixed rows
  MaxNodes   \* structure table: blocks of up to this many nodes

VARIABLE in
vars == <<in>>

AllDevs == {"DataSizeOverflow", "DataSizeZeroAnyUnit", "FloatIgnoresBlock", "DurationJoin"}

Get(f, k, d) == IF k \in DOMAIN f THEN f[k] ELSE d
RECURSIVE SumSeq(_)
SumSeq(s) == IF s = <<>> THEN 0 ELSE Head(s) + SumSeq(Tail(s))

-----------------------------------------------------------------------------
(* Kinds of registrations (the typed functions of map.go)                    *)
IntKinds    == {"int", "int64", "int32", "uint", "uint32", "uint64"}
ScalarKinds == IntKinds \cup {"bool", "string", "float", "duration", "datasize", "enum", "enummapped", "custom"}
ListKinds   == {"stringlist", "enumlist", "enumlistmapped"}
ValueKinds  == ScalarKinds \cup ListKinds
KindSeq == <<"bool", "string", "int", "int64", "int32", "uint", "uint32", "uint64", "float", "duration",
             "datasize", "enum", "enummapped", "custom", "stringlist", "enumlist", "enumlistmapped">>

(* bool: map.go Bool ("'name yes' and 'name no' are mapped to true and false", presence = true) *)
(* and ParseBool (1/true/on/yes, 0/false/off/no, any letter case)                               *)
BoolM == ("yes" :> "true") @@ ("no" :> "false") @@ ("true" :> "true") @@ ("false" :> "false") @@
         ("on" :> "true") @@ ("off" :> "false") @@ ("1" :> "true") @@ ("0" :> "false") @@
         ("YES" :> "true") @@ ("Off" :> "false")
BoolToks == <<"yes", "no", "true", "off", "1", "0", "YES", "Off", "maybe", "", "2">>

(* integers: decimal; lvl = magnitude class                                  *)
(*  0: <= 2^31-1   1: = 2^31   2: <= 2^32-1   3: <= 2^63-1   4: = 2^63        *)
(*  5: <= 2^64-1   6: above                                                   *)
NT(neg, lvl, v) == [neg |-> neg, lvl |-> lvl, v |-> v]
NumM == ("0" :> NT(FALSE, 0, "0")) @@ ("42" :> NT(FALSE, 0, "42")) @@ ("-7" :> NT(TRUE, 0, "-7")) @@
        ("007" :> NT(FALSE, 0, "7")) @@
        ("2147483647" :> NT(FALSE, 0, "2147483647")) @@ ("2147483648" :> NT(FALSE, 1, "2147483648")) @@
        ("-2147483648" :> NT(TRUE, 1, "-2147483648")) @@ ("-2147483649" :> NT(TRUE, 2, "-2147483649")) @@
        ("4294967295" :> NT(FALSE, 2, "4294967295")) @@ ("4294967296" :> NT(FALSE, 3, "4294967296")) @@
        ("9223372036854775807" :> NT(FALSE, 3, "9223372036854775807")) @@
        ("9223372036854775808" :> NT(FALSE, 4, "9223372036854775808")) @@
        ("-9223372036854775808" :> NT(TRUE, 4, "-9223372036854775808")) @@
        ("-9223372036854775809" :> NT(TRUE, 5, "-9223372036854775809")) @@
        ("18446744073709551615" :> NT(FALSE, 5, "18446744073709551615")) @@
        ("18446744073709551616" :> NT(FALSE, 6, "18446744073709551616"))
NumToks == <<"0", "42", "-7", "007", "2147483647", "2147483648", "-2147483648", "-2147483649", "4294967295",
             "4294967296", "9223372036854775807", "9223372036854775808", "-9223372036854775808",
             "-9223372036854775809", "18446744073709551615", "18446744073709551616",
             "", "abc", "1.5", "12a", "0x10">>
InRange(kind, m) ==
  CASE kind \in {"int", "int64"} -> (~m.neg /\ m.lvl <= 3) \/ (m.neg /\ m.lvl <= 4)   \* int: 64-bit platform
    [] kind = "int32"            -> (~m.neg /\ m.lvl = 0) \/ (m.neg /\ m.lvl <= 1)
    [] kind \in {"uint", "uint32"} -> ~m.neg /\ m.lvl <= 2       \* map.go UInt: ParseUint(.., 10, 32)
    [] kind = "uint64"           -> ~m.neg /\ m.lvl <= 5

FloatM == ("1.5" :> "1.5") @@ ("0" :> "0") @@ ("-2.25" :> "-2.25") @@ ("1e3" :> "1000") @@ ("42" :> "42")
FloatToks == <<"1.5", "0", "-2.25", "1e3", "42", "abc", "", "1.5.2", "1e999">>

(* durations in milliseconds; -1: not a duration (config-syntax.md: decimal digits, optional      *)
(* fraction, unit suffix h m s ms (us ns); zero without suffix; map.go: must not be negative)      *)
DurM == ("1h" :> 3600000) @@ ("5m" :> 300000) @@ ("1h5m" :> 3900000) @@ ("0" :> 0) @@ ("1.5s" :> 1500) @@
        ("500ms" :> 500) @@ ("90s" :> 90000) @@ ("2000us" :> 2)
DurToks == <<"1h", "5m", "1h5m", "0", "1.5s", "500ms", "90s", "2000us", "30", "-1s", "1d", "", "h", "2562048h">>
(* what the code makes of two arguments that are not both durations (deviation "DurationJoin":    *)
(* strings.Join(args, "") is handed to time.ParseDuration, so digits and units of neighbouring     *)
(* arguments run together and an empty argument vanishes)                                        *)
DurJoinM ==
  (<<"1h", "">> :> 3600000) @@ (<<"5m", "">> :> 300000) @@ (<<"1h5m", "">> :> 3900000) @@ (<<"0", "">> :> 0) @@
  (<<"0", "h">> :> 0) @@ (<<"1.5s", "">> :> 1500) @@ (<<"500ms", "">> :> 500) @@ (<<"90s", "">> :> 90000) @@
  (<<"2000us", "">> :> 2) @@ (<<"30", "1h">> :> 1083600000) @@ (<<"30", "5m">> :> 18300000) @@
  (<<"30", "1h5m">> :> 1083900000) @@ (<<"30", "1.5s">> :> 301500) @@ (<<"30", "500ms">> :> 30500) @@
  (<<"30", "90s">> :> 3090000) @@ (<<"30", "2000us">> :> 302) @@ (<<"30", "h">> :> 108000000) @@
  (<<"", "1h">> :> 3600000) @@ (<<"", "5m">> :> 300000) @@ (<<"", "1h5m">> :> 3900000) @@ (<<"", "0">> :> 0) @@
  (<<"", "1.5s">> :> 1500) @@ (<<"", "500ms">> :> 500) @@ (<<"", "90s">> :> 90000) @@ (<<"", "2000us">> :> 2)

(* data sizes in bytes (config-syntax.md: no fractions; G M K B b; several values are added;       *)
(* "32M5K" is not valid)                                                                         *)
SizeM == ("32M" :> 33554432) @@ ("3M" :> 3145728) @@ ("5K" :> 5120) @@ ("5b" :> 5) @@ ("5B" :> 5) @@
         ("0" :> 0) @@ ("1G" :> 1073741824) @@ ("0K" :> 0)
SizeSummable == {"32M", "3M", "5K", "5b", "5B", "0", "0K"}
SizeToks == <<"32M", "3M", "5K", "5b", "5B", "0", "0K", "1G", "32M5K", "32", "1.5M", "-1M", "5k", "5KB", "", "M",
              "8589934592G", "17179869184G", "0X">>
(* what the code stores instead of failing (deviations) *)
SizeWrap == ("8589934592G" :> "-9223372036854775808") @@ ("17179869184G" :> "0")
SizeZeroUnit == {"0X"}

EnumAllowed == {"alpha", "beta", "gamma"}
EnumMapM == ("alpha" :> "1") @@ ("beta" :> "2") @@ ("gamma" :> "3")
EnumToks == <<"alpha", "gamma", "beta", "delta", "ALPHA", "">>
StrToks == <<"x", "", "a b", "yes", "&ref", "0">>
CustomToks == <<"x", "y z", "fail", "">>

ToksOf(kind) ==
  CASE kind = "bool" -> BoolToks [] kind \in IntKinds -> NumToks [] kind = "float" -> FloatToks
    [] kind = "duration" -> DurToks [] kind = "datasize" -> SizeToks
    [] kind \in {"enum", "enummapped", "enumlist", "enumlistmapped"} -> EnumToks
    [] kind = "custom" -> CustomToks
    [] OTHER -> StrToks
(* spellings that must be written in double quotes *)
NeedQuote == {"", "a b", "y z"}

-----------------------------------------------------------------------------
(* Parse(kind, args, blk, devs): the documented meaning of one directive     *)
(*   ok  "yes": must be accepted with value val                              *)
(*       "no" : must be refused                                              *)
(*       "any": the documentation leaves it open; if accepted the value is   *)
(*              val ("In most cases, an empty block is equivalent to no      *)
(*              block"; a bare 0 among several duration arguments)           *)
(*   acc what the rule does (for "any": what the code does, from the code)   *)
PR(ok, acc, val) == [ok |-> ok, acc |-> acc, val |-> val]
No == PR("no", FALSE, <<>>)
Yes(v) == PR("yes", TRUE, v)

MapSeq(f, s) == [k \in 1..Len(s) |-> f[s[k]]]

P0(kind, args, devs) ==
  LET n == Len(args)
      a1 == args[1]
  IN
  CASE kind = "bool" ->
         IF n = 0 THEN Yes(<<"true">>)
         ELSE IF n = 1 /\ a1 \in DOMAIN BoolM THEN Yes(<<BoolM[a1]>>) ELSE No
    [] kind \in IntKinds ->
         IF n = 1 /\ a1 \in DOMAIN NumM /\ InRange(kind, NumM[a1]) THEN Yes(<<NumM[a1].v>>) ELSE No
    [] kind = "float" ->
         IF n = 1 /\ a1 \in DOMAIN FloatM THEN Yes(<<FloatM[a1]>>) ELSE No
    [] kind = "string" -> IF n = 1 THEN Yes(<<a1>>) ELSE No
    [] kind = "custom" -> IF n = 1 /\ a1 # "fail" THEN Yes(<<a1>>) ELSE No
    [] kind = "enum" -> IF n = 1 /\ a1 \in EnumAllowed THEN Yes(<<a1>>) ELSE No
    [] kind = "enummapped" -> IF n = 1 /\ a1 \in EnumAllowed THEN Yes(<<EnumMapM[a1]>>) ELSE No
    [] kind = "stringlist" -> IF n >= 1 THEN Yes(args) ELSE No
    [] kind = "enumlist" -> IF n >= 1 /\ Range(args) \subseteq EnumAllowed THEN Yes(args) ELSE No
    [] kind = "enumlistmapped" ->
         IF n >= 1 /\ Range(args) \subseteq EnumAllowed THEN Yes(MapSeq(EnumMapM, args)) ELSE No
    [] kind = "duration" ->
         IF n >= 1 /\ Range(args) \subseteq DOMAIN DurM
         THEN LET v == <<ToString(SumSeq(MapSeq(DurM, args)))>> IN
              \* several arguments are joined without a separator by the code: a bare 0 is only
              \* understood in front of another value
              IF n >= 2 /\ "0" \in Range(args) THEN PR("any", args[n] # "0", v) ELSE Yes(v)
         ELSE IF "DurationJoin" \in devs /\ args \in DOMAIN DurJoinM THEN Yes(<<ToString(DurJoinM[args])>>)
         ELSE No
    [] kind = "datasize" ->
         IF n = 1 /\ a1 \in DOMAIN SizeM THEN Yes(<<ToString(SizeM[a1])>>)
         ELSE IF n >= 2 /\ Range(args) \subseteq SizeSummable THEN Yes(<<ToString(SumSeq(MapSeq(SizeM, args)))>>)
         ELSE IF n = 1 /\ a1 \in DOMAIN SizeWrap /\ "DataSizeOverflow" \in devs THEN Yes(<<SizeWrap[a1]>>)
         ELSE IF n = 1 /\ a1 \in SizeZeroUnit /\ "DataSizeZeroAnyUnit" \in devs THEN Yes(<<"0">>)
         ELSE No

Parse(kind, args, blk, devs) ==
  LET p == P0(kind, args, devs) IN
  CASE blk = "none" -> p
    [] blk = "empty" -> IF p.ok = "yes" THEN PR("any", TRUE, p.val) ELSE p
    [] blk = "sub" -> IF kind = "float" /\ "FloatIgnoresBlock" \in devs THEN p ELSE No

ZeroOf(kind) ==
  CASE kind = "bool" -> <<"false">>
    [] kind \in {"string", "enum", "custom"} -> <<"">>
    [] kind \in ListKinds -> <<>>
    [] OTHER -> <<"0">>
(* two defaults per kind: the zero value of the Go type and another one *)
DefOf(kind, nz) ==
  IF ~nz THEN ZeroOf(kind)
  ELSE CASE kind = "bool" -> <<"true">>
         [] kind \in IntKinds -> <<"7">>
         [] kind = "float" -> <<"2.5">>
         [] kind = "duration" -> <<"1500">>
         [] kind = "datasize" -> <<"1048576">>
         [] kind \in {"enum"} -> <<"beta">>
         [] kind = "enummapped" -> <<"2">>
         [] kind \in {"string", "custom"} -> <<"dflt">>
         [] kind = "stringlist" -> <<"d1", "d2">>
         [] kind = "enumlist" -> <<"beta", "gamma">>
         [] kind = "enumlistmapped" -> <<"2", "3">>

-----------------------------------------------------------------------------
(* Rows                                                                      *)
Reg(name, kind, inh, req, def) == [name |-> name, kind |-> kind, inherit |-> inh, required |-> req, def |-> def]
CB(name) == Reg(name, "callback", FALSE, FALSE, <<>>)
Node(name, args, blk) == [name |-> name, args |-> args, blk |-> blk]
(* tab: table name; au: AllowUnknown on the module's Map; q: quoting style ("min": only where  *)
(* needed, "all"); pos: number of global directives written before the module block; gregs /  *)
(* gnodes: registrations and directives of the global level; regs / nodes: of the module block *)
Row(tab, au, q, pos, gregs, gnodes, regs, nodes) ==
  [tab |-> tab, au |-> au, q |-> q, pos |-> pos, gregs |-> gregs, gnodes |-> gnodes, regs |-> regs, nodes |-> nodes]

(* the configuration text                                                     *)
Qt(s, q) == IF q = "all" \/ s \in NeedQuote THEN "\"" \o s \o "\"" ELSE s
RECURSIVE ArgsText(_, _)
ArgsText(a, q) == IF a = <<>> THEN "" ELSE " " \o Qt(Head(a), q) \o ArgsText(Tail(a), q)
NodeText(n, q) ==
  n.name \o ArgsText(n.args, q) \o
  (CASE n.blk = "none" -> "" [] n.blk = "empty" -> " { }" [] OTHER -> " { sub x }")
RECURSIVE LinesText(_, _, _)
LinesText(ns, q, ind) == IF ns = <<>> THEN "" ELSE ind \o NodeText(Head(ns), q) \o "\n" \o LinesText(Tail(ns), q, ind)
ModHeader == "verif_mod inst"
TextOf(i) ==
  LinesText(SubSeq(i.gnodes, 1, i.pos), i.q, "") \o
  ModHeader \o " {\n" \o LinesText(i.nodes, i.q, "    ") \o "}\n" \o
  LinesText(SubSeq(i.gnodes, i.pos + 1, Len(i.gnodes)), i.q, "")
(* line numbers of that text *)
BlockLine(i) == i.pos + 1
NodeLines(i) == [k \in 1..Len(i.nodes) |-> i.pos + 1 + k]
GNodeLines(i) == [k \in 1..Len(i.gnodes) |-> IF k <= i.pos THEN k ELSE k + Len(i.nodes) + 2]

(* errors and outputs                                                         *)
(* cls: "unknown" / "duplicate" / "missing" (recognised wordings) or "other"; *)
(* mentions: the directive names of the row that occur in the message        *)
MkErr(level, line, cls, mentions) == [is |-> TRUE, level |-> level, line |-> line, cls |-> cls, mentions |-> mentions]
NoErr == [is |-> FALSE, level |-> "none", line |-> 0, cls |-> "none", mentions |-> {}]

RegIdx(regs, name) == IF \E r \in 1..Len(regs) : regs[r].name = name
                      THEN CHOOSE r \in 1..Len(regs) : regs[r].name = name ELSE 0

-----------------------------------------------------------------------------
(* The documented procedure for one level (map.go ProcessWith):              *)
(* L = [level, regs, nodes, lines, bline, au, gm] where gm maps the names    *)
(* set at the global level to their values.                                  *)
St0(L) == [err |-> NoErr, matched |-> {}, vals |-> [r \in 1..Len(L.regs) |-> <<>>], unknown |-> <<>>, calls |-> <<>>]

RECURSIVE Scan(_, _, _, _)
Scan(L, devs, k, st) ==
  IF k > Len(L.nodes) THEN st
  ELSE
    LET n == L.nodes[k]
        ln == L.lines[k]
        r == RegIdx(L.regs, n.name)
    IN
    IF r = 0 THEN
      IF L.au THEN Scan(L, devs, k + 1, [st EXCEPT !.unknown = Append(@, ln)])
      ELSE [st EXCEPT !.err = MkErr(L.level, ln, "unknown", {n.name})]
    ELSE IF L.regs[r].kind = "callback" THEN
      IF n.args # <<>> /\ n.args[1] = "fail" THEN [st EXCEPT !.err = MkErr(L.level, ln, "other", {})]
      ELSE Scan(L, devs, k + 1, [st EXCEPT !.calls = Append(@, [line |-> ln, args |-> n.args])])
    ELSE IF r \in st.matched THEN [st EXCEPT !.err = MkErr(L.level, ln, "duplicate", {n.name})]
    ELSE
      LET p == Parse(L.regs[r].kind, n.args, n.blk, devs) IN
      IF ~p.acc THEN [st EXCEPT !.err = MkErr(L.level, ln, "other", {}), !.matched = @ \cup {r}]
      ELSE Scan(L, devs, k + 1, [st EXCEPT !.matched = @ \cup {r}, !.vals[r] = p.val])

(* the directives that were not given: global value, default, or "missing required" *)
RECURSIVE Resolve(_, _, _)
Resolve(L, r, st) ==
  IF r > Len(L.regs) \/ st.err.is THEN st
  ELSE
    LET g == L.regs[r] IN
    IF r \in st.matched \/ g.kind = "callback" THEN Resolve(L, r + 1, st)
    ELSE IF g.inherit /\ g.name \in DOMAIN L.gm THEN Resolve(L, r + 1, [st EXCEPT !.vals[r] = L.gm[g.name]])
    ELSE IF ~g.required THEN Resolve(L, r + 1, [st EXCEPT !.vals[r] = g.def])
    ELSE [st EXCEPT !.err = MkErr(L.level, L.bline, "missing", {g.name})]

Proc(L, devs) == Resolve(L, 1, Scan(L, devs, 1, St0(L)))

(* the global level as maddy.ReadGlobals sets it up: every top-level node, AllowUnknown, no      *)
(* globals above it; the module block is an unknown node there                                    *)
GLevel(i) ==
  LET gl == GNodeLines(i)
      \* top-level nodes in text order: globals before the block, the block, the rest
      order == [k \in 1..(Len(i.gnodes) + 1) |->
                  IF k <= i.pos THEN k ELSE IF k = i.pos + 1 THEN 0 ELSE k - 1]
  IN [level |-> "global", regs |-> i.gregs,
      nodes |-> [k \in 1..(Len(i.gnodes) + 1) |->
                   IF order[k] = 0 THEN Node("verif_mod", <<"inst">>, "sub") ELSE i.gnodes[order[k]]],
      lines |-> [k \in 1..(Len(i.gnodes) + 1) |-> IF order[k] = 0 THEN BlockLine(i) ELSE gl[order[k]]],
      bline |-> 0, au |-> TRUE, gm |-> <<>>]

(* Map.Values of the global level: what was given explicitly, and the defaults that are not the  *)
(* zero value of their type (comment in ProcessWith)                                             *)
GlobalsOf(i, gst) ==
  LET pres == {r \in 1..Len(i.gregs) : i.gregs[r].kind # "callback" /\
                  (r \in gst.matched \/ gst.vals[r] # ZeroOf(i.gregs[r].kind))}
  IN [nm \in {i.gregs[r].name : r \in pres} |-> gst.vals[RegIdx(i.gregs, nm)]]

MLevel(i, gm) ==
  [level |-> "module", regs |-> i.regs, nodes |-> i.nodes, lines |-> NodeLines(i), bline |-> BlockLine(i),
   au |-> i.au, gm |-> gm]

MkOut(err, gvals, vals, gunk, unk, calls) ==
  [panic |-> FALSE, err |-> err, gvals |-> gvals, vals |-> vals, gunknown |-> gunk, unknown |-> unk, calls |-> calls]

RuleD(devs, i) ==
  LET gst == Proc(GLevel(i), devs) IN
  IF gst.err.is THEN MkOut(gst.err, <<>>, <<>>, <<>>, <<>>, <<>>)
  ELSE LET mst == Proc(MLevel(i, GlobalsOf(i, gst)), devs) IN
       IF mst.err.is THEN MkOut(mst.err, <<>>, <<>>, <<>>, <<>>, <<>>)
       ELSE MkOut(NoErr, gst.vals, mst.vals, gst.unknown, mst.unknown, gst.calls \o mst.calls)
Rule(i) == RuleD({}, i)
AsIs(i) == RuleD(Devs, i)

-----------------------------------------------------------------------------
(* The property, declaratively.                                              *)
(* An item is something in the text the documentation has an opinion on:    *)
(* hard items must be reported, soft items may be reported.                  *)
Item(level, line, cls, name, hard) == [level |-> level, line |-> line, cls |-> cls, name |-> name, hard |-> hard]
Idx(n) == [k \in 1..n |-> k]

NodeCls(L, k) ==
  LET n == L.nodes[k]
      r == RegIdx(L.regs, n.name)
  IN IF r = 0 THEN (IF L.au THEN "skip" ELSE "unknown")
     ELSE IF L.regs[r].kind = "callback" THEN (IF n.args # <<>> /\ n.args[1] = "fail" THEN "value" ELSE "call")
     ELSE IF \E j \in 1..(k - 1) : L.nodes[j].name = n.name THEN "duplicate"
     ELSE LET p == Parse(L.regs[r].kind, n.args, n.blk, {}) IN
          CASE p.ok = "yes" -> "ok" [] p.ok = "any" -> "any" [] OTHER -> "value"

NodeItems(L) ==
  {Item(L.level, L.lines[k], NodeCls(L, k), L.nodes[k].name, NodeCls(L, k) # "any") :
     k \in {j \in 1..Len(L.nodes) : NodeCls(L, j) \in {"unknown", "duplicate", "value", "any"}}}

(* what the global level says about a name *)
GInfo(i, name) ==
  LET r == RegIdx(i.gregs, name)
      ks == {k \in 1..Len(i.gnodes) : i.gnodes[k].name = name}
  IN IF r = 0 \/ (r # 0 /\ i.gregs[r].kind = "callback")
     THEN [exists |-> FALSE, set |-> FALSE, val |-> <<>>, def |-> <<>>]
     ELSE [exists |-> TRUE, set |-> ks # {},
           val |-> IF ks = {} THEN <<>>
                   ELSE LET k == CHOOSE k \in ks : \A j \in ks : k <= j
                        IN Parse(i.gregs[r].kind, i.gnodes[k].args, i.gnodes[k].blk, {}).val,
           def |-> i.gregs[r].def]

(* a directive that is not written in the block:                             *)
(*  - "else the global value if the directive inherits from globals and the  *)
(*    global is set" (map.go Custom: "Map will try to use a value from       *)
(*    globalCfg if none is set in a processed configuration block")          *)
(*  - required: "Map will fail if no value is set in the configuration, both *)
(*    global (if inheritGlobal is true) and in the processed block"          *)
(*  - else the default; "if inheritGlobal is true, defaultVal of the global  *)
(*    directive will be used instead" - the code uses the global default     *)
(*    unless it is the zero value of its type (comment in ProcessWith), the  *)
(*    property accepts either default                                        *)
Absent(i, level, g) ==
  LET gi == IF level = "module" /\ g.inherit THEN GInfo(i, g.name)
            ELSE [exists |-> FALSE, set |-> FALSE, val |-> <<>>, def |-> <<>>]
  IN IF gi.exists /\ gi.set THEN [vals |-> {gi.val}, must |-> FALSE, may |-> FALSE]
     ELSE IF g.required THEN
       IF gi.exists /\ gi.def # ZeroOf(g.kind) THEN [vals |-> {gi.def}, must |-> FALSE, may |-> TRUE]
       ELSE [vals |-> {}, must |-> TRUE, may |-> TRUE]
     ELSE [vals |-> {g.def} \cup (IF gi.exists THEN {gi.def} ELSE {}), must |-> FALSE, may |-> FALSE]

IsAbsent(L, r) == L.regs[r].kind # "callback" /\ ~\E k \in 1..Len(L.nodes) : L.nodes[k].name = L.regs[r].name
MissingItems(i, L) ==
  {Item(L.level, L.bline, "missing", L.regs[r].name, Absent(i, L.level, L.regs[r]).must) :
     r \in {q \in 1..Len(L.regs) : IsAbsent(L, q) /\ Absent(i, L.level, L.regs[q]).may}}

Items(i) == LET G == GLevel(i)
                M == MLevel(i, <<>>)
            IN NodeItems(G) \cup MissingItems(i, G) \cup NodeItems(M) \cup MissingItems(i, M)
Hard(i) == {it \in Items(i) : it.hard}

AllowedVals(i, L, r) ==
  LET g == L.regs[r]
      ks == {k \in 1..Len(L.nodes) : L.nodes[k].name = g.name}
  IN IF ks = {} THEN Absent(i, L.level, g).vals
     ELSE LET k == CHOOSE k \in ks : TRUE IN {Parse(g.kind, L.nodes[k].args, L.nodes[k].blk, {}).val}
ValsOK(i, L, vals) ==
  /\ Len(vals) = Len(L.regs)
  /\ \A r \in 1..Len(L.regs) : L.regs[r].kind # "callback" => vals[r] \in AllowedVals(i, L, r)

LinesOf(L, cls) == LET s == SelectSeq(Idx(Len(L.nodes)), LAMBDA k : NodeCls(L, k) = cls) IN [j \in 1..Len(s) |-> L.lines[s[j]]]
CallsOf(L) == LET s == SelectSeq(Idx(Len(L.nodes)), LAMBDA k : NodeCls(L, k) = "call")
              IN [j \in 1..Len(s) |-> [line |-> L.lines[s[j]], args |-> L.nodes[s[j]].args]]

PredNames == {"NoPanic", "ErrorWhenInvalid", "NoSpuriousError", "ErrorNamesOffender", "ExactValues",
              "ExactGlobalValues", "UnknownReturned", "CallbacksCalled"}
Holds(n, i, o) ==
  LET G == GLevel(i)
      M == MLevel(i, <<>>)
      clean == ~o.err.is /\ Hard(i) = {}
  IN
  CASE n = "NoPanic" -> ~o.panic
    [] n = "ErrorWhenInvalid" -> (~o.panic /\ Hard(i) # {}) => o.err.is
    [] n = "NoSpuriousError" -> (~o.panic /\ Items(i) = {}) => ~o.err.is
    [] n = "ErrorNamesOffender" ->
         (~o.panic /\ o.err.is) =>
            \E it \in Items(i) : /\ it.level = o.err.level /\ it.line = o.err.line
                                 /\ (it.cls = "missing" => it.name \in o.err.mentions)
    [] n = "ExactValues" -> (~o.panic /\ clean) => ValsOK(i, M, o.vals)
    [] n = "ExactGlobalValues" -> (~o.panic /\ clean) => ValsOK(i, G, o.gvals)
    [] n = "UnknownReturned" ->
         (~o.panic /\ clean) => (o.unknown = LinesOf(M, "skip") /\ o.gunknown = LinesOf(G, "skip"))
    [] n = "CallbacksCalled" -> (~o.panic /\ clean) => o.calls = CallsOf(G) \o CallsOf(M)
Viol(i, o) == {n \in PredNames : ~Holds(n, i, o)}
Prop(i, o) == Viol(i, o) = {}

(* equality with the rule where the property leaves freedom (drift only): which of several     *)
(* missing directives is named is not compared                                                  *)
SameErr(a, b) == /\ a.is = b.is /\ a.level = b.level /\ a.line = b.line /\ a.cls = b.cls
                 /\ (a.cls \in {"unknown", "duplicate"} => a.mentions = b.mentions)
SameOut(a, b) == /\ a.panic = b.panic /\ SameErr(a.err, b.err)
                 /\ (~a.err.is => (a.vals = b.vals /\ a.gvals = b.gvals /\ a.unknown = b.unknown
                                   /\ a.gunknown = b.gunknown /\ a.calls = b.calls))
Explains(devSets, i, o) == {D \in devSets : SameOut(o, RuleD(D, i))}

-----------------------------------------------------------------------------
(* Input tables                                                              *)
NoG == <<>>
S1(toks) == {<<t>> : t \in Range(toks)}
S2(S) == {<<a, b>> : a \in S, b \in S}
S3(S) == {<<a, b, c>> : a \in S, b \in S, c \in S}
First2(toks) == {toks[1], toks[2]}
SizeMulti == SizeSummable \cup {"32M5K", "32", "1.5M", "-1M", "5k", "5KB", "", "M"}
MultiToks(kind) ==
  CASE kind = "datasize" -> SizeMulti
    [] kind \in {"duration", "stringlist", "enumlist", "enumlistmapped"} -> Range(ToksOf(kind))
    [] OTHER -> First2(ToksOf(kind))

(* (a) value table: one directive of every kind with every argument list of the alphabet, *)
(* with no block, an empty block and a block with a subdirective                          *)
InValue ==
  \E kx \in 1..Len(KindSeq) :
    LET kind == KindSeq[kx]
        r == <<Reg("a", kind, FALSE, FALSE, DefOf(kind, TRUE))>>
    IN \/ \E args \in {<<>>} \cup S1(ToksOf(kind)), blk \in {"none", "empty", "sub"}, q \in {"min", "all"} :
            (q = "all" => (blk = "none" /\ Len(args) = 1)) /\
            in = Row("value", FALSE, q, 0, NoG, <<>>, r, <<Node("a", args, blk)>>)
       \/ \E args \in S2(MultiToks(kind)) :
            in = Row("value", FALSE, "min", 0, NoG, <<>>, r, <<Node("a", args, "none")>>)
       \/ \E args \in S3(First2(ToksOf(kind))) :
            kind \in ListKinds \cup {"duration", "datasize"} /\
            in = Row("value", FALSE, "min", 0, NoG, <<>>, r, <<Node("a", args, "none")>>)

(* (b) presence table: a directive that is or is not written in the block, with every      *)
(* combination of inheritGlobal / required / default and every state of the global level   *)
ZeroArgs(kind) ==
  CASE kind = "bool" -> <<"no">> [] kind \in {"string", "custom"} -> <<"">> [] OTHER -> <<"0">>
HasZeroArgs(kind) == kind \notin ListKinds \cup {"enum", "enummapped"}
NzArgs(kind) ==
  CASE kind = "bool" -> <<"yes">> [] kind \in {"string", "custom"} -> <<"x">> [] kind \in IntKinds -> <<"42">>
    [] kind = "float" -> <<"1.5">> [] kind = "duration" -> <<"5m">> [] kind = "datasize" -> <<"5K">>
    [] kind \in {"enum", "enummapped"} -> <<"gamma">> [] kind = "stringlist" -> <<"x", "a b">>
    [] OTHER -> <<"alpha", "gamma">>
GivenArgs(kind) ==
  CASE kind = "bool" -> <<"no">> [] kind \in {"string", "custom"} -> <<"yes">> [] kind \in IntKinds -> <<"2147483647">>
    [] kind = "float" -> <<"-2.25">> [] kind = "duration" -> <<"90s">> [] kind = "datasize" -> <<"3M">>
    [] kind \in {"enum", "enummapped"} -> <<"alpha">> [] kind = "stringlist" -> <<"0">>
    [] OTHER -> <<"alpha">>
BadArgs(kind) == IF kind \in {"string", "stringlist"} THEN <<>> ELSE <<"fail">>
GStates == {"noreg", "unset0", "unsetnz", "setzero", "setnz", "setbad"}
InPresence ==
  \E kx \in 1..Len(KindSeq), inh \in BOOLEAN, req \in BOOLEAN, mnz \in BOOLEAN, gs \in GStates,
     given \in BOOLEAN, pos \in {0, 1} :
    LET kind == KindSeq[kx]
        gregs == IF gs = "noreg" THEN <<Reg("other", "string", FALSE, FALSE, <<"">>)>>
                 ELSE <<Reg("a", kind, FALSE, FALSE, DefOf(kind, gs = "unsetnz"))>>
        gnodes == CASE gs = "setzero" -> <<Node("a", ZeroArgs(kind), "none")>>
                    [] gs = "setnz" -> <<Node("a", NzArgs(kind), "none")>>
                    [] gs = "setbad" -> <<Node("a", BadArgs(kind), "none")>>
                    [] OTHER -> <<>>
    IN /\ (kind = "bool" => ~req)
       /\ (gs = "setzero" => HasZeroArgs(kind))
       /\ (pos = 1 => gnodes # <<>>)
       /\ in = Row("presence", FALSE, "min", pos, gregs, gnodes,
                   <<Reg("a", kind, inh, req, DefOf(kind, mnz))>>,
                   IF given THEN <<Node("a", GivenArgs(kind), "none")>> ELSE <<>>)

(* (c) structure table: blocks of up to MaxNodes directives over known, unknown, repeated,   *)
(* ill-formed and callback directives, with and without AllowUnknown                         *)
Templates == <<Node("a", <<"x">>, "none"), Node("a", <<"y z">>, "none"), Node("a", <<>>, "none"),
               Node("b", <<"42">>, "none"), Node("b", <<"abc">>, "none"), Node("u", <<"1">>, "none"),
               Node("v", <<>>, "sub"), Node("cb", <<"p">>, "none"), Node("cb", <<"q", "r">>, "empty"),
               Node("cb", <<"fail">>, "none")>>
RECURSIVE SeqsUpTo(_, _)
SeqsUpTo(S, n) == IF n = 0 THEN {<<>>} ELSE LET P == SeqsUpTo(S, n - 1) IN P \cup {Append(p, x) : p \in {y \in P : Len(y) = n - 1}, x \in S}
InStructure ==
  \E ns \in SeqsUpTo(Range(Templates), MaxNodes), au \in BOOLEAN, req \in BOOLEAN :
    in = Row("structure", au, "min", 0, NoG, <<>>,
             <<Reg("a", "string", FALSE, req, <<"dflt">>), Reg("b", "int", FALSE, FALSE, <<"7">>), CB("cb")>>, ns)

(* (d) global structure: several global directives (repeated, ill-formed, unknown ones that  *)
(* are module blocks for maddy.go) around a block that inherits all of them                  *)
GTemplates == <<Node("a", <<"x">>, "none"), Node("a", <<"">>, "none"), Node("a", <<>>, "none"),
                Node("b", <<>>, "none"), Node("b", <<"no">>, "none"), Node("b", <<"maybe">>, "none"),
                Node("c", <<"42">>, "none"), Node("c", <<"0">>, "empty"), Node("c", <<"zz">>, "none"),
                Node("w", <<"1">>, "none"), Node("gcb", <<"k">>, "none")>>
InGlobalStructure ==
  \E gs \in SeqsUpTo(Range(GTemplates), 2), pos \in 0..2, given \in BOOLEAN, req \in BOOLEAN :
    /\ pos <= Len(gs)
    /\ in = Row("gstruct", FALSE, "min", pos,
                <<Reg("a", "string", FALSE, FALSE, <<"">>), Reg("b", "bool", FALSE, FALSE, <<"false">>),
                  Reg("c", "int", FALSE, FALSE, <<"9">>), CB("gcb")>>, gs,
                <<Reg("a", "string", TRUE, req, <<"">>), Reg("b", "bool", TRUE, FALSE, <<"false">>),
                  Reg("c", "int", TRUE, FALSE, <<"5">>), Reg("d", "duration", TRUE, FALSE, <<"1500">>)>>,
                IF given THEN <<Node("a", <<"yes">>, "none"), Node("d", <<"1h", "5m">>, "none")>> ELSE <<>>)

(* (e) mixed table: Seed-dependent rows crossing the dimensions above                        *)
HH(x) == LET y == x % 32749 IN (y * y + 7 * y + 12345) % 32749
Draw(n, k) == HH(HH(HH(Seed * 911 + n) + 31 * k) + n + k)
Pick(seq, r) == seq[(r % Len(seq)) + 1]
RNames == <<"a", "b", "c", "d">>
RArgs(kind, n, k) ==
  LET toks == ToksOf(kind)
      multi == SetToSeq(MultiToks(kind))
      cnt == Pick(<<1, 1, 1, 1, 0, 2>>, Draw(n, k))
  IN IF cnt = 0 THEN <<>>
     ELSE IF cnt = 1 THEN <<Pick(toks, Draw(n, k + 1))>>
     ELSE <<Pick(multi, Draw(n, k + 1)), Pick(multi, Draw(n, k + 2))>>
RandRow(n) ==
  LET nr == (Draw(n, 1) % 4) + 1
      kinds == [j \in 1..nr |-> Pick(KindSeq, Draw(n, 10 + j))]
      regs == [j \in 1..nr |-> Reg(RNames[j], kinds[j], Draw(n, 20 + j) % 2 = 0,
                                   kinds[j] # "bool" /\ Draw(n, 30 + j) % 5 = 0, DefOf(kinds[j], Draw(n, 40 + j) % 2 = 0))]
      \* the global level knows the first ng names with the same kinds
      ng == Draw(n, 2) % (nr + 1)
      gregs == [j \in 1..ng |-> Reg(RNames[j], kinds[j], FALSE, FALSE, DefOf(kinds[j], Draw(n, 50 + j) % 3 = 0))]
      gsel == SelectSeq(Idx(ng), LAMBDA j : Draw(n, 60 + j) % 2 = 0)
      gnodes == [x \in 1..Len(gsel) |-> Node(RNames[gsel[x]], IF Draw(n, 70 + x) % 5 = 0 THEN RArgs(kinds[gsel[x]], n, 80 + 3 * x)
                                                               ELSE NzArgs(kinds[gsel[x]]), "none")]
      nn == Draw(n, 3) % 6
      node(x) == LET c == Draw(n, 100 + x) % (nr + 2) IN
                 IF c = nr THEN Node("u", <<"1">>, "none")
                 ELSE IF c = nr + 1 THEN Node("cb", <<Pick(<<"p", "q", "fail", "p", "q", "p", "q">>, Draw(n, 110 + x))>>, "none")
                 ELSE Node(RNames[c + 1], IF Draw(n, 120 + x) % 4 = 0 THEN RArgs(kinds[c + 1], n, 130 + 3 * x) ELSE GivenArgs(kinds[c + 1]),
                           Pick(<<"none", "none", "none", "none", "none", "none", "none", "empty", "sub">>, Draw(n, 150 + x)))
  IN Row("mixed", Draw(n, 4) % 2 = 0, Pick(<<"min", "min", "all">>, Draw(n, 5)), Draw(n, 6) % (Len(gnodes) + 1),
         gregs, gnodes, regs \o <<CB("cb")>>, [x \in 1..nn |-> node(x)])
InMixed == \E n \in 1..RandN : in = RandRow(n)

-----------------------------------------------------------------------------
Init == InValue \/ InPresence \/ InStructure \/ InGlobalStructure \/ InMixed
Next == FALSE /\ UNCHANGED in      \* one state per input (CHECK_DEADLOCK FALSE)
Spec == Init /\ [][Next]_vars

(* TLC: the documented rule satisfies the property on every row *)
RuleSatisfiesProp == Prop(in, Rule(in))
(* the as-is rule (deviations of the code on) must violate it somewhere *)
AsIsSatisfiesProp == Prop(in, AsIs(in))
(* sanity of the rendering: hard items make the rule fail, no items make it succeed *)
RuleIsDecisive == /\ (Hard(in) # {}) = Rule(in).err.is \/ \E it \in Items(in) : ~it.hard
                  /\ (Items(in) = {}) => ~Rule(in).err.is

Emit == Gen => PrintT(<<"ROW", ToJson([in |-> in, text |-> TextOf(in), exp |-> Rule(in)])>>)
=============================================================================
