---------------------------- MODULE MsgPathTrace ----------------------------
(* Trace validation for MsgPath.tla: the real endpoint, pipeline, queue and forwarder wired
   together, observed at the client socket, at the next hop and at the bounce target.
   Session events (Rcpt, End, Quiet) are checked for conformance with the design actions; the
   next-hop / report events fold the observation state only (the per-attempt behaviour of the
   queue is validated in detail by QueueTrace.tla). *)
EXTENDS MsgPath

Trace == ndJsonDeserialize("trace.ndjson")
VARIABLES l, drift, driftAt, tno
tvars == <<vars, l, drift, driftAt, tno>>
Ev == Trace[l]
IsEv(e) == l <= Len(Trace) /\ Ev.e = e
Publish(d, da, o) == TLCSet(1, TLCGet(1) \cup {[t |-> tno, drift |-> d, driftAt |-> da, viol |-> o.viol]})

TInit ==
  /\ cfg = [lmtp |-> FALSE, list |-> <<>>, how |-> "drop"]
  /\ phase = "rcpt" /\ i = 1 /\ acc = <<>> /\ acked = FALSE /\ pend = <<>> /\ tries = 0
  /\ obs = ObsInit /\ hist = <<>>
  /\ l = 1 /\ drift = FALSE /\ driftAt = 0 /\ tno = 0
  /\ TLCSet(1, {})

TReset ==
  /\ IsEv("Cfg")
  /\ cfg' = [lmtp |-> Ev.lmtp, list |-> Ev.list, how |-> Ev.how]
  /\ phase' = "rcpt" /\ i' = 1 /\ acc' = <<>> /\ acked' = FALSE /\ pend' = <<>> /\ tries' = 0
  /\ obs' = ObsInit /\ hist' = <<>>
  /\ l' = l + 1 /\ drift' = FALSE /\ driftAt' = 0 /\ tno' = Ev.t

C_Rcpt == IsEv("Rcpt") /\ phase = "rcpt" /\ i <= Len(cfg.list) /\ cfg.list[i] = Ev.r
          /\ Ev.ok = (Ev.r \notin Rejected) /\ Rcpt
C_End  == IsEv("End") /\ phase = "rcpt" /\ i > Len(cfg.list) /\ Ev.ok = (cfg.how = "data" /\ acc # <<>>) /\ EndTxn
C_Quiet == IsEv("Quiet") /\ obs' = ObsQuiet(obs) /\ phase' = "done"
           /\ UNCHANGED <<cfg, i, acc, acked, pend, tries, hist>>
Conform == C_Rcpt \/ C_End \/ C_Quiet

C_Step ==
  /\ ~drift /\ Conform
  /\ l' = l + 1 /\ UNCHANGED <<drift, driftAt, tno>>
  /\ IF Ev.e = "Quiet" THEN Publish(FALSE, 0, obs') ELSE TRUE

\* "Restarted": the harness stopped the server cleanly and started a new queue on the same spool
\* (invisible to the end-to-end statement: consumed like a hop-side event, no obligation)
IsHop(e) == e \in {"HopRcpt", "HopAccept", "Report", "Restarted"}
ObsApply(o, e) ==
  CASE e.e = "Rcpt"      -> ObsRcpt(o, e.r, e.ok)
    [] e.e = "End"       -> ObsEndTxn(o, e.ok)
    [] e.e = "HopRcpt"   -> ObsHopRcpt(o, e.r)
    [] e.e = "HopAccept" -> ObsHopAccept(o, ToSet(e.rcpts))
    [] e.e = "Report"    -> ObsReport(o, ToSet(e.rcpts))
    [] e.e = "Quiet"     -> ObsQuiet(o)
    [] OTHER -> o

\* next-hop and report events: observation only, never drift
N_Step ==
  /\ l <= Len(Trace) /\ IsHop(Ev.e)
  /\ obs' = ObsApply(obs, Ev)
  /\ l' = l + 1
  /\ UNCHANGED <<cfg, phase, i, acc, acked, pend, tries, hist, drift, driftAt, tno>>

M_Step ==
  /\ l <= Len(Trace) /\ Ev.e # "Cfg" /\ ~IsHop(Ev.e)
  /\ (drift \/ ~ENABLED Conform)
  /\ drift' = TRUE
  /\ driftAt' = IF drift THEN driftAt ELSE Ev.seq
  /\ obs' = ObsApply(obs, Ev)
  /\ l' = l + 1
  /\ UNCHANGED <<cfg, phase, i, acc, acked, pend, tries, hist, tno>>
  /\ IF Ev.e = "Quiet" THEN Publish(TRUE, driftAt', obs') ELSE TRUE

TNext == TReset \/ C_Step \/ N_Step \/ M_Step
TSpec == TInit /\ [][TNext]_tvars
Post == PrintT(<<"VERDICTS", ToJson(TLCGet(1))>>)
=============================================================================
