\* reference configuration (the configurations actually run are generated by lib/checks/x06.py)
SPECIFICATION TSpec
CHECK_DEADLOCK FALSE
POSTCONDITION Post
