\* reference configuration (the check generates its configurations from lib/checks/x10.py: ASIS['CopyRemoveBlob'], must violate NoViolation)
SPECIFICATION Spec
CONSTANTS
  Kinds = {"MsgCopy", "MsgRemove"}
  Spell = {"a"}
  Pws = {"p1"}
  Confirms = {"flag"}
  SUs = {FALSE}
  MNames = {"INBOX", "A"}
  Specials = {"none"}
  FlagSets = {{"S"}}
  AddFlags = {{}}
  Ranges = {"1"}
  UidModes = {TRUE}
  Preset = "msgs"
  MaxSteps = 2
  Devs = {"CopyRemoveBlob"}
  Gen = FALSE
VIEW View
INVARIANTS NoViolation

