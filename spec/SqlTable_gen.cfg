\* reference configuration; lib/checks/x15.py generates the ones it runs
SPECIFICATION Spec
CONSTANTS
  Strs = {"s1", "s2", "s3"}
  Cfgs = {"T", "TC", "QN", "QD", "QP"}
  Pals = {"plain", "quote", "like", "inject", "nul", "long", "case", "nfd", "blank", "param", "newline", "value"}
  MaxSteps = 2
  Ops = {"Set", "Remove", "Lookup", "LookupMulti", "Keys", "Reopen"}
  Devs = {}
  Gen = TRUE
CHECK_DEADLOCK FALSE
