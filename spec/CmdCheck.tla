------------------------------ MODULE CmdCheck ------------------------------
(***************************************************************************)
(* X14 (second half) - check.command: one message going through a message  *)
(* pipeline whose check block runs an external command                     *)
(* (docs/reference/checks/command.md, actions.md;                          *)
(* internal/check/command/command.go; how the pipeline asks a check:       *)
(* internal/msgpipeline/check_runner.go).                                  *)
(*                                                                         *)
(* Design spec (BUILDING.md pattern A).  Init chooses the scenario (the     *)
(* configuration, the session, the envelope, the message and how the        *)
(* command behaves at each of its executions: the environment).  Then the   *)
(* message goes through the pipeline commands MAIL (Start), RCPT (AddRcpt,  *)
(* one per recipient), DATA (Body) and the commit; inside each command the  *)
(* check's stages are visited (Hooks), and where the stage is the           *)
(* configured one the command is executed as the sequence                   *)
(*     Expand -> Spawn -> Io (feed stdin / collect stdout) -> Exit -> Decide*)
(* One action per step.  The observation record obs is updated only by the  *)
(* operators of CmdCheckObs.tla at the points where something becomes       *)
(* visible outside (Reply: the answer to the pipeline command together      *)
(* with what the executions were given; Finish: the message at the target). *)
(*                                                                         *)
(* Deviations of the code (named branches, switched by Devs):               *)
(*   "RdnsNilPanic"     a session without reverse-DNS information           *)
(*        (ConnState.RDNSName = nil) makes the expansion of {source_rdns}   *)
(*        panic; the check runner recovers, the command is not executed     *)
(*        and the stage counts as passed (X14-F3)                           *)
(*   "DupRcptSkipped"   a repeated RCPT TO of the same address is not shown *)
(*        to the check again: the command is not executed and the           *)
(*        recipient is accepted, also when its first RCPT TO was refused    *)
(*        by the command (X14-F4)                                           *)
(*   "RcptsKeepRefused" {rcpts} lists every recipient the command was run   *)
(*        for, including those it refused (X14-F5)                          *)
(*   "NoDrain"          after the end of the header the command's stdout is *)
(*        not read any more: a command that writes more than a pipe holds   *)
(*        blocks for ever, and the SMTP transaction with it (X14-F6)        *)
(*   "NoReap"           when stdout is not a header the command is sent a   *)
(*        signal and never waited for: one zombie process per message       *)
(*        (X14-F7)                                                          *)
(*   "CodeZeroIgnored"  a 'code 0 ...' directive is accepted and never      *)
(*        applied (X14-F8)                                                  *)
(***************************************************************************)
EXTENDS CmdCheckObs

CONSTANTS Full,    \* TRUE: the larger tables of the thorough tier
          Devs,    \* deviations switched on (as-is runs, trace validation)
          Gen      \* TRUE: keep the history and print one BEH line per complete behaviour

VARIABLES sc,    \* the scenario (chosen by Init, constant afterwards)
          pc,    \* "mail", "rcpt", "body", "end", "done": the pipeline command being handled / next
          ri,    \* index of the recipient being handled
          ph,    \* phase inside the command: "idle", "hook", "expanded", "spawned", "io", "exited", "reply"
          hi,    \* index into Hooks(pc)
          run,   \* the execution in progress
          w,     \* what the current command has produced so far: [runs, reply, panics, left, stalled]
          cs,    \* state of the check for this message: [seen, called, nrun]
          ms,    \* state of the message in the pipeline: [accepted, quar, added, dead]
          taken, \* deviations whose branch was taken
          hist,  \* events so far (Gen only)
          obs
vars == <<sc, pc, ri, ph, hi, run, w, cs, ms, taken, hist, obs>>

AllDevs == {"RdnsNilPanic", "DupRcptSkipped", "RcptsKeepRefused", "NoDrain", "NoReap", "CodeZeroIgnored"}

-----------------------------------------------------------------------------
NoRun == [n |-> 0, argv |-> <<>>, read |-> FALSE, stdin |-> NoText, b |-> <<>>, state |-> "none", res |-> OkR, quar |-> FALSE,
          fields |-> <<>>]
W0 == [runs |-> <<>>, reply |-> OkR, panics |-> 0, left |-> 0, stalled |-> 0]
Call == pc
Addr == IF pc = "rcpt" THEN sc.rcpts[ri] ELSE IF pc = "mail" THEN sc.from ELSE ""
Hook == Hooks(pc)[hi]
(* {address} at the sender stage is the MAIL FROM address *)
HookAddr == IF Hook = "sender" THEN sc.from ELSE IF Hook = "rcpt" THEN sc.rcpts[ri] ELSE ""

Ev(name, f) == [e |-> name] @@ f
Log(e) == IF Gen THEN Append(hist, e) ELSE hist

(* the command of the pipeline starts being handled *)
Begin ==
  /\ ph = "idle" /\ pc \in {"mail", "rcpt", "body"}
  /\ w' = W0
  /\ IF pc = "rcpt" /\ "DupRcptSkipped" \in Devs /\ Addr \in cs.called
     THEN ph' = "reply" /\ hi' = 1                  \* Dev: the check is not asked about this address again
     ELSE ph' = "hook" /\ hi' = 1
  /\ cs' = IF pc = "rcpt" /\ ~("DupRcptSkipped" \in Devs /\ Addr \in cs.called)
           THEN [cs EXCEPT !.called = @ \cup {Addr}] ELSE cs
  /\ taken' = IF pc = "rcpt" /\ "DupRcptSkipped" \in Devs /\ Addr \in cs.called /\ RunOn(sc) = "rcpt"
              THEN taken \cup {"DupRcptSkipped"} ELSE taken
  /\ UNCHANGED <<sc, pc, ri, run, ms, hist, obs>>

(* a stage of the check that is not the configured one: nothing happens *)
Skip ==
  /\ ph = "hook" /\ Hook # RunOn(sc)
  /\ IF hi < Len(Hooks(pc)) THEN hi' = hi + 1 /\ ph' = "hook" ELSE hi' = hi /\ ph' = "reply"
  /\ cs' = IF Hook = "rcpt" THEN [cs EXCEPT !.seen = Append(@, sc.rcpts[ri])] ELSE cs      \* the check is told every recipient
  /\ UNCHANGED <<sc, pc, ri, run, w, ms, taken, hist, obs>>

(* the recipients {rcpts} stands for at this point *)
SeenDoc == IF Hook = "rcpt" THEN Append(ms.accepted, sc.rcpts[ri]) ELSE ms.accepted
SeenDev == IF Hook = "rcpt" THEN Append(cs.seen, sc.rcpts[ri]) ELSE cs.seen       \* Dev: everything the check was told
SeenNow == IF "RcptsKeepRefused" \in Devs THEN SeenDev ELSE SeenDoc

(* the configured stage: the arguments are expanded ... *)
Expand ==
  /\ ph = "hook" /\ Hook = RunOn(sc)
  /\ IF "RdnsNilPanic" \in Devs /\ HasConn(sc) /\ sc.conn.rdns.k = "nil" /\ UsesRdns(sc)
     THEN (* Dev: panic, recovered by the runner; the stage counts as passed *)
          /\ w' = [w EXCEPT !.panics = @ + 1]
          /\ run' = NoRun
          /\ ph' = "reply"
          /\ taken' = taken \cup {"RdnsNilPanic"}
     ELSE /\ run' = [NoRun EXCEPT !.argv = Argv(sc, Hook, HookAddr, SeenNow, RdnsValue(sc)),
                                  !.n = cs.nrun + 1, !.b = Beh(sc, cs.nrun + 1), !.state = "expanded"]
          /\ w' = w
          /\ ph' = "expanded"
          /\ taken' = IF "RcptsKeepRefused" \in Devs
                         /\ Argv(sc, Hook, HookAddr, SeenDev, RdnsValue(sc)) # Argv(sc, Hook, HookAddr, SeenDoc, RdnsValue(sc))
                      THEN taken \cup {"RcptsKeepRefused"} ELSE taken
  /\ cs' = IF Hook = "rcpt" THEN [cs EXCEPT !.seen = Append(@, sc.rcpts[ri])] ELSE cs
  /\ UNCHANGED <<sc, pc, ri, hi, ms, hist, obs>>

(* ... the command is started (the environment decides whether it can be) ... *)
Spawn ==
  /\ ph = "expanded"
  /\ IF sc.start = "gone" \/ (pc = "body" /\ sc.msg.body = "unreadable")
     THEN /\ run' = [run EXCEPT !.state = "failed", !.res = R("rej", 450, TRUE, 0)]
          /\ ph' = "exited"
          /\ cs' = cs
     ELSE /\ run' = [run EXCEPT !.state = "running"]
          /\ ph' = "spawned"
          /\ cs' = [cs EXCEPT !.nrun = @ + 1]
  /\ UNCHANGED <<sc, pc, ri, hi, w, ms, taken, hist, obs>>

(* ... its stdin is fed (the message for the body stage, nothing otherwise) *)
(* while its stdout is collected up to the end of the header ...            *)
Io ==
  /\ ph = "spawned"
  /\ LET b == run.b
         given == IF Hook = "body" THEN MsgText(sc) ELSE NoText
         reads == b.stdin \in {"read", "late"}
     IN /\ run' = [run EXCEPT !.read = reads, !.stdin = IF reads THEN given ELSE NoText,
                              !.fields = IF b.out \in GarbageKinds THEN <<>> ELSE OutFields(b.out),
                              !.state = IF b.out \in GarbageKinds THEN "garbage" ELSE "collected"]
        /\ w' = [w EXCEPT
                   (* Dev: nobody reads what follows the header *)
                   !.stalled = IF b.out = "bigtrail" /\ "NoDrain" \in Devs THEN @ + 1 ELSE @,
                   (* Dev: the command is signalled, not waited for *)
                   !.left = IF b.out \in GarbageKinds /\ "NoReap" \in Devs THEN @ + 1 ELSE @]
  /\ ph' = "io"
  /\ taken' = taken \cup (IF run.b.out = "bigtrail" /\ "NoDrain" \in Devs THEN {"NoDrain"} ELSE {})
                    \cup (IF run.b.out \in GarbageKinds /\ "NoReap" \in Devs THEN {"NoReap"} ELSE {})
  /\ UNCHANGED <<sc, pc, ri, hi, cs, ms, hist, obs>>

(* ... the command ends (exit status or signal) ... *)
Exit ==
  /\ ph = "io"
  /\ run' = [run EXCEPT !.state = IF @ = "garbage" THEN "garbage" ELSE "ended"]
  /\ ph' = "exited"
  /\ UNCHANGED <<sc, pc, ri, hi, w, cs, ms, taken, hist, obs>>

(* ... and the result is turned into the check's answer *)
Apply(a) ==    \* FailAction.Apply on "Message rejected due to a local policy" (550 5.7.1)
  CASE a.act = "reject"     -> [res |-> IF a.rc # 0 THEN R("rej", a.rc, Class(a.rc) = 4, Class(a.rc)) ELSE R("rej", 550, FALSE, 5),
                                quar |-> FALSE]
    [] a.act = "quarantine" -> [res |-> OkR, quar |-> TRUE]
    [] OTHER                -> [res |-> OkR, quar |-> FALSE]
Decide ==
  /\ ph = "exited"
  /\ LET b == run.b
         a == ActFor(sc, b.exit)
         d == CASE run.state = "failed"  -> [res |-> run.res, quar |-> FALSE]
                [] run.state = "garbage" -> [res |-> R("rej", 450, TRUE, 0), quar |-> FALSE]       \* "rejected with a temporary error"
                [] b.exit = 0 -> IF a.act # "none" /\ "CodeZeroIgnored" \notin Devs THEN Apply(a)
                                 ELSE [res |-> OkR, quar |-> FALSE]
                [] a.act # "none" -> Apply(a)
                [] OTHER -> [res |-> R("rej", 450, TRUE, 0), quar |-> FALSE]                       \* "unexpected exit code" (from the code)
         rec == [n |-> run.n, argv |-> run.argv, read |-> run.read, stdin |-> run.stdin]
     IN /\ w' = [w EXCEPT !.runs = IF run.state = "failed" THEN @ ELSE Append(@, rec), !.reply = d.res]
        (* (from the code: the runner merges the header fields of every answer, also of one that refuses *)
        (* a recipient; the message goes on to the other recipients with them)                           *)
        /\ ms' = IF d.res.k = "ok" \/ (pc = "rcpt" /\ run.state = "ended")
                 THEN [ms EXCEPT !.quar = @ \/ (d.res.k = "ok" /\ d.quar),
                                 !.added = IF Len(run.fields) > 0 THEN Append(@, run.fields) ELSE @]
                 ELSE ms
  /\ taken' = IF run.state = "ended" /\ run.b.exit = 0 /\ ActFor(sc, 0).act # "none" /\ "CodeZeroIgnored" \in Devs
              THEN taken \cup {"CodeZeroIgnored"} ELSE taken
  /\ ph' = "reply" /\ run' = NoRun
  /\ UNCHANGED <<sc, pc, ri, hi, cs, hist, obs>>

(* the pipeline command is answered: this is what the outside sees *)
Reply ==
  /\ ph = "reply"
  /\ LET e == Ev("Pipe", [call |-> pc, arg |-> Addr, reply |-> w.reply, runs |-> w.runs, panics |-> w.panics,
                           left |-> w.left, stalled |-> w.stalled])
         ok == w.reply.k = "ok"
     IN /\ obs' = ObsPipe(obs, sc, e)
        /\ hist' = Log(e)
        /\ ms' = [ms EXCEPT !.accepted = IF pc = "rcpt" /\ ok THEN Append(@, sc.rcpts[ri]) ELSE @,
                            !.dead = @ \/ (pc \in {"mail", "body"} /\ ~ok)]
        /\ IF pc = "mail" THEN (IF ok THEN pc' = "rcpt" /\ ri' = 1 ELSE pc' = "end" /\ ri' = ri)
           ELSE IF pc = "rcpt"
                THEN (IF ri < Len(sc.rcpts) THEN pc' = "rcpt" /\ ri' = ri + 1
                      ELSE IF Len(ms'.accepted) > 0 THEN pc' = "body" /\ ri' = ri
                      ELSE pc' = "end" /\ ri' = ri)                  \* no recipient left: the sender gives up
           ELSE pc' = "end" /\ ri' = ri
  /\ ph' = "idle" /\ hi' = 1 /\ w' = W0
  /\ UNCHANGED <<sc, run, cs, taken>>

(* commit (or abort): the message at the target *)
Finish ==
  /\ pc = "end" /\ ph = "idle"
  /\ LET delivered == ~ms.dead /\ Len(ms.accepted) > 0 /\ sc.start # "absent"
         e == Ev("End", [cfgerr |-> sc.start = "absent", delivered |-> delivered,
                          quarantine |-> delivered /\ ms.quar,
                          added |-> IF delivered THEN Flat(ms.added) ELSE <<>>,
                          rcpts |-> IF delivered THEN ms.accepted ELSE <<>>])
     IN obs' = ObsEnd(obs, sc, e) /\ hist' = Log(e)
  /\ pc' = "done"
  /\ UNCHANGED <<sc, ri, ph, hi, run, w, cs, ms, taken>>

Done == pc = "done" /\ UNCHANGED vars      \* a complete behaviour stutters (no deadlock)

Next == Begin \/ Skip \/ Expand \/ Spawn \/ Io \/ Exit \/ Decide \/ Reply \/ Finish \/ Done

-----------------------------------------------------------------------------
(* Scenarios *)
Lit(v) == [k |-> "lit", v |-> v]
Ph(v)  == [k |-> "ph", v |-> v]
Raw(v) == [k |-> "raw", v |-> v]
A1(p)  == <<p>>
Code(c, act, rc) == [code |-> c, act |-> act, rc |-> rc]
B(stdin, out, err, exit) == [stdin |-> stdin, out |-> out, err |-> err, exit |-> exit]
BOk == B("read", "empty", "", 0)
Rdns(k, v) == [k |-> k, v |-> v]
Conn(kind, ip, helo, auth, rdns) == [kind |-> kind, ip |-> ip, helo |-> helo, auth |-> auth, rdns |-> rdns]
C4 == Conn("tcp4", "192.0.2.7", "mx.sender.test", "", Rdns("name", "mx.sender.test"))
HdrPlain == <<"From: <a@sender.test>\r\n", "Subject: verif\r\n">>
HdrOdd   == <<"Received: from a\r\n\tby b;\r\n  date\r\n", "SUBJECT:\r\n", "X-Dup: one\r\n", "X-Dup: two\r\n",
              "From: <a@sender.test>\r\n">>
Msg(h, b) == [hdr |-> h, body |-> b]
MsgPlain == Msg(HdrPlain, "small")
FromA == "a@sender.test"
R1 == "r1@rcpt.test"
R2 == "r2@rcpt.test"
R3 == "r3@rcpt.test"

Sc(tab, runOn, codes, args, conn, from, rcpts, msg, beh, start) ==
  [tab |-> tab, runOn |-> runOn, codes |-> codes, args |-> args, conn |-> conn, msgid |-> "verifmsg14", from |-> from,
   rcpts |-> rcpts, msg |-> msg, beh |-> beh, start |-> start]
ArgsBasic == <<A1(Lit("--stage")), A1(Ph("address")), <<Lit("id="), Ph("msg_id")>>>>
Stages == {"absent", "conn", "sender", "rcpt", "body"}

(* (a) exit status -> action, for every stage and several 'code' tables *)
CodeTables == {<<>>, <<Code(3, "ignore", 0)>>, <<Code(1, "quarantine", 0), Code(2, "reject", 0)>>,
               <<Code(1, "ignore", 0), Code(3, "reject", 451)>>, <<Code(0, "reject", 0)>>, <<Code(0, "quarantine", 0)>>,
               <<Code(2, "reject", 554), Code(4, "quarantine", 0)>>}
Exits == {0, 1, 2, 3, 4, 77, 0 - 9}
ScExit ==
  {Sc("exit", st, ct, ArgsBasic, C4, FromA, <<R1>>, MsgPlain, <<B("read", o, "", x)>>, "ok") :
     st \in Stages, ct \in CodeTables, x \in Exits, o \in {"empty", "hdr1"}}

(* (b) what the command writes and whether it reads *)
OutKinds == {"empty", "hdr1", "hdr1end", "hdr2", "folded", "bighdr", "nocolon", "binary", "trail"}
ScOut ==
  {Sc("out", st, <<Code(3, "ignore", 0)>>, ArgsBasic, C4, FromA, <<R1>>, MsgPlain, <<B(si, o, er, x)>>, "ok") :
     st \in {"body", "rcpt", "sender"}, o \in OutKinds, x \in {0, 2, 3}, si \in {"read", "late", "ignore"}, er \in {"", "text"}}
  \cup {Sc("out", "body", <<>>, ArgsBasic, C4, FromA, <<R1>>, MsgPlain, <<B(si, "bigtrail", "", 0)>>, "ok") :
          si \in IF Full THEN {"read", "late", "ignore"} ELSE {"read"}}
ScOutOK == {s \in ScOut : /\ (s.beh[1].out \in GarbageKinds \cup TrailKinds => s.beh[1].exit = 0)
                          /\ (s.beh[1].out \in GarbageKinds => s.beh[1].stdin # "late")     \* (the command is signalled: whether it still reads is a race)
                          /\ (s.beh[1].out = "bighdr" => (s.beh[1].exit = 0 /\ s.beh[1].err = ""))
                          /\ (Full \/ s.beh[1].err = "" \/ (s.runOn = "body" /\ s.beh[1].stdin = "read"))}

(* (c) placeholders: every placeholder as its own argument and inside a     *)
(* larger one, at every stage, for every kind of session and hostile        *)
(* envelope addresses                                                       *)
ArgsAll == <<A1(Ph("source_ip")), A1(Ph("source_host")), A1(Ph("msg_id")), A1(Ph("auth_user")), A1(Ph("sender")),
             A1(Ph("rcpts")), A1(Ph("address")), A1(Raw("{foo}")), A1(Raw("{Sender}")), A1(Raw("{}")), A1(Lit("")),
             A1(Raw("{sender")), A1(Raw("{source-ip}"))>>
ArgsMixed == <<<<Lit("-f"), Ph("sender")>>, <<Lit("--rcpt="), Ph("rcpts"), Lit(";")>>, A1(Lit("--")),
               <<Ph("address"), Lit("|"), Ph("address")>>, <<Lit("x"), Raw("{foo}"), Ph("source_ip"), Lit("y")>>>>
ArgsRdns == <<A1(Lit("-r")), A1(Ph("source_rdns")), A1(Ph("source_host"))>>
Conns == {C4,
          Conn("tcp6", "2001:db8::7", "mx.sender.test", "", Rdns("name", "mx.sender.test")),
          Conn("tcp4", "192.0.2.7", "[192.0.2.7]", "user@auth.test", Rdns("none", "")),
          Conn("tcp4", "192.0.2.7", "mx.sender.test", "", Rdns("fail", "")),
          Conn("unix", "", "localhost", "", Rdns("none", "")),
          Conn("nil", "", "", "", Rdns("nil", ""))}
HostileFroms == {FromA, "", "\"a b\"@sender.test", "-oQ/tmp/x@sender.test", "a$(id);`id`|&<>*?~@sender.test",
                 "{rcpts}{address}{sender}@sender.test", "o'brien\\@sender.test"}
HostileRcpts == {<<R1>>, <<R1, R2>>, <<"-r@rcpt.test", "\"x y\"@rcpt.test", "{sender}@rcpt.test">>}
ScArgs ==
  {Sc("args", st, <<>>, ar, c, f, rc, MsgPlain, <<BOk>>, "ok") :
     st \in Stages \ {"absent"}, ar \in {ArgsAll, ArgsMixed}, c \in Conns, f \in HostileFroms, rc \in HostileRcpts}
ScArgsOK == {s \in ScArgs : Full \/ s.conn = C4 \/ (s.from = FromA /\ s.rcpts = <<R1, R2>>)}
ScRdns ==
  {Sc("rdns", st, <<>>, ArgsRdns, c, FromA, <<R1>>, MsgPlain, <<BOk>>, "ok") :
     st \in Stages \ {"absent"},
     c \in Conns \cup {Conn("tcp4", "192.0.2.7", "mx.sender.test", "", Rdns("nil", "")),
                       Conn("unix", "", "localhost", "", Rdns("nil", ""))}}

(* (d) the message on stdin *)
ScMsg ==
  {Sc("msg", "body", <<>>, ArgsBasic, C4, FromA, <<R1>>, Msg(h, b), <<B(si, "hdr1", "", 0)>>, "ok") :
     h \in {HdrPlain, HdrOdd}, b \in {"small", "empty", "nocrlf", "barelf", "dots", "big", "unreadable"},
     si \in {"read", "late", "ignore"}}

(* (e) the recipient stage: one execution per RCPT TO, each decided on its  *)
(* own exit status; {rcpts}; repeated recipients                            *)
RcptArgs == {<<A1(Ph("address"))>>, <<A1(Ph("address")), A1(Ph("rcpts"))>>}
ScRcpt ==
  {Sc("rcpt", "rcpt", <<>>, ar, C4, FromA, <<R1, R2, R3>>, MsgPlain, <<B("read", "empty", "", x1), B("read", o2, "", x2), B("read", "empty", "", x3)>>, "ok") :
     ar \in RcptArgs, x1 \in {0, 1, 2}, x2 \in {0, 1, 2}, x3 \in {0, 1}, o2 \in {"empty", "hdr1"}}
ScBodyRcpts ==     \* what {rcpts} is at the body stage after a refused recipient (refused by this check: not possible at this stage; all accepted)
  {Sc("rcpt", "body", <<>>, <<A1(Ph("rcpts"))>>, C4, FromA, rc, MsgPlain, <<BOk>>, "ok") : rc \in {<<R1>>, <<R1, R2, R3>>}}
ScDup ==
  {Sc("dup", "rcpt", <<>>, <<A1(Ph("address"))>>, C4, FromA, rc, MsgPlain, <<B("read", "empty", "", x1), B("read", "empty", "", x2), B("read", "empty", "", x3)>>, "ok") :
     rc \in {<<R1, R1>>, <<R1, R2, R1>>, <<R1, R1, R2>>}, x1 \in {0, 1}, x2 \in {0, 1}, x3 \in {0, 1}}

(* (f) a command that cannot be started; a command found through $PATH *)
ScStart ==
  {Sc("start", st, <<>>, ArgsBasic, C4, FromA, <<R1>>, MsgPlain, <<BOk>>, s) :
     st \in Stages \ {"absent"}, s \in {"gone", "path", "absent"}}

Scenarios == ScExit \cup ScOutOK \cup ScArgsOK \cup ScRdns \cup ScMsg \cup ScRcpt \cup ScBodyRcpts \cup ScDup \cup ScStart

-----------------------------------------------------------------------------
Init ==
  /\ sc \in Scenarios
  /\ pc = IF sc.start = "absent" THEN "end" ELSE "mail"
  /\ ri = 1 /\ ph = "idle" /\ hi = 1 /\ run = NoRun /\ w = W0
  /\ cs = [seen |-> <<>>, called |-> {}, nrun |-> 0]
  /\ ms = [accepted |-> <<>>, quar |-> FALSE, added |-> <<>>, dead |-> FALSE]
  /\ taken = {}
  /\ hist = <<>>
  /\ obs = ObsInit
Spec == Init /\ [][Next]_vars /\ WF_vars(Next)

(* the property: no predicate of CmdCheckObs is ever false on the design *)
NoViolation == obs.viol = {}
(* every message is answered: each behaviour reaches its end *)
Terminates == <>(pc = "done")
(* as-is: with the deviations on, the predicates must fail (non-vacuity) *)
View == <<sc, pc, ri, ph, hi, run, w, cs, ms, taken, obs>>

Emit == (Gen /\ pc = "done") => PrintT(<<"BEH", ToJson([sc |-> sc, events |-> hist])>>)
=============================================================================
