----------------------------- MODULE QueueDisk -----------------------------
(***************************************************************************)
(* The queue's spool protocol with crashes (property C02).                 *)
(*                                                                         *)
(* One action per mutating file-system call of internal/target/queue/      *)
(* queue.go (storeNewMessage, updateMetadataOnDisk, removeFromDisk,        *)
(* readDiskQueue / openMessage dangling-file clean-up), the target-level   *)
(* actions of an attempt (as in Queue.tla), Crash at any instant in two    *)
(* disk strengths and with torn writes, and Restart (readDiskQueue).       *)
(*                                                                         *)
(* Disk model. hdr/body: "absent" | "partial" (created, content not yet    *)
(* complete) | "dirty" (complete, not known to be durable) | "synced" |     *)
(* "lost" (content damaged by a crash).  meta/metaNew: NoFile or [c, s] with content c  *)
(* = "empty" | "torn" | [to, tries] and s = fsynced.  "ordered" crash:     *)
(* every completed operation survives.  "strong" crash: additionally all   *)
(* not-yet-fsynced file data is lost (renames and unlinks survive).        *)
(*                                                                         *)
(* Deviations (Devs):                                                      *)
(*   "RenameBeforeSync"   updateMetadataOnDisk renames before the fsync    *)
(*   "RetryBeforePersist" the retry is dispatched from memory before the   *)
(*                        metadata update reached the disk                 *)
(*   "MetaRemovedFirst"   removeFromDisk removes .meta before header/body  *)
(*   "MetaBeforeSync"     storeNewMessage renames .meta into place before  *)
(*                        header and body are fsynced (the order before    *)
(*                        the repair C10-F27)                              *)
(*   "MetaBeforeBody"     storeNewMessage writes .meta before it copies    *)
(*                        the body into the spool                          *)
(*   "FailAfterMeta"      storeNewMessage can still refuse the message     *)
(*                        after the meta-data file was renamed into place  *)
(*                        (and removes nothing: Abort of a refused message *)
(*                        has nothing to remove)                           *)
(*   "EmptyIsDangling"    the start-up scan takes a zero-length body file  *)
(*                        for the leftover of an interrupted store         *)
(*                                                                         *)
(* Input dimensions besides recipients and target results: cfg.body =      *)
(* "data" | "empty" (a header-only message: io.Copy issues no write and    *)
(* the body file is complete, and empty, as soon as it exists) and the     *)
(* refusal of a message: storeNewMessage may fail at every file operation  *)
(* of the store chain and on the source buffer (StoreFail: I/O error,      *)
(* unreadable source), cleans up, Body returns the error and the source    *)
(* aborts; the source may also abort before it ever called Body.           *)
(***************************************************************************)
EXTENDS QueueDiskObs, TLC, SequencesExt, Json

CONSTANTS Rcpts, MaxTries, MaxList, MaxCrashes, Strengths, Devs, Gen

VARIABLES cfg,      \* [partial, list, body]
          disk,     \* [hdr, body, meta, metaNew]
          up, pc, chain, ci, wdone, after, wcontent,
          mem,      \* metadata of the next attempt is held in memory (first attempt only)
          to, tries, idx, accepted, errs, failed, newTo,
          crashes, obs, hist

vars == <<cfg, disk, up, pc, chain, ci, wdone, after, wcontent, mem, to, tries, idx, accepted, errs,
          failed, newTo, crashes, obs, hist>>
View == <<cfg, disk, up, pc, chain, ci, wdone, after, wcontent, mem, to, tries, idx, accepted, errs,
          failed, newTo, crashes, obs>>

Res == {"ok", "temp", "perm", "unspec"}
Retryable(e) == e \in {"temp", "unspec"}
NoErrs == [r \in Rcpts |-> "none"]
ZeroTries == [r \in Rcpts |-> 0]
\* a metadata file: k = "nofile" | "empty" | "torn" | "ok"; s = fsynced; to/tries = content when ok
MF(k, s, t, tr) == [k |-> k, s |-> s, to |-> t, tries |-> tr]
NoFile == MF("nofile", FALSE, <<>>, ZeroTries)
Content(t, tr) == [to |-> t, tries |-> tr]
NoContent == Content(<<>>, ZeroTries)
H(e) == IF Gen THEN Append(hist, e) ELSE hist

Dedup(s) == LET RECURSIVE D(_, _)
                D(i, acc) == IF i > Len(s) THEN acc
                             ELSE IF \E j \in 1..Len(acc) : acc[j] = s[i] THEN D(i + 1, acc)
                             ELSE D(i + 1, Append(acc, s[i]))
            IN D(1, <<>>)
Lists == UNION {[1..k -> Rcpts] : k \in 1..MaxList}

MetaOps == <<"create:metanew", "write:metanew", "sync:metanew", "rename:meta">>
StoreChain  ==
  IF "MetaBeforeBody" \in Devs
  THEN <<"create:hdr", "write:hdr">> \o MetaOps \o <<"create:body", "write:body", "sync:hdr", "sync:body">>
  ELSE IF "MetaBeforeSync" \in Devs
  THEN <<"create:hdr", "write:hdr", "create:body", "write:body">> \o MetaOps \o <<"sync:hdr", "sync:body">>
  ELSE <<"create:hdr", "write:hdr", "create:body", "write:body", "sync:hdr", "sync:body">> \o MetaOps
UpdateChain == IF "RenameBeforeSync" \in Devs
               THEN <<"create:metanew", "write:metanew", "rename:meta", "sync:meta">>
               ELSE <<"create:metanew", "write:metanew", "sync:metanew", "rename:meta">>
RemoveChain == IF "MetaRemovedFirst" \in Devs
               THEN <<"remove:meta", "remove:hdr", "remove:body">>
               ELSE <<"remove:hdr", "remove:body", "remove:meta">>
IsWrite(o) == o \in {"write:hdr", "write:body", "write:metanew"}
Bodies == {"data", "empty"}
Optional(o) == o = "write:body" /\ cfg.body = "empty"   \* io.Copy of an empty body issues no write at all

EmptyDisk == [hdr |-> "absent", body |-> "absent", meta |-> NoFile, metaNew |-> NoFile]

InitWith(c) ==
  /\ cfg = c
  /\ disk = EmptyDisk
  /\ up = TRUE /\ pc = "new" /\ chain = <<>> /\ ci = 0 /\ wdone = FALSE /\ after = "" /\ wcontent = NoContent
  /\ mem = FALSE
  /\ to = Dedup(c.list) /\ tries = [r \in Rcpts |-> 0]
  /\ idx = 0 /\ accepted = <<>> /\ errs = NoErrs /\ failed = <<>> /\ newTo = <<>>
  /\ crashes = 0
  /\ obs = DObsRcpts(DObsInit(Rcpts), ToSet(c.list))
  /\ hist = <<>>

Init == \E c \in [partial : BOOLEAN, list : Lists, body : Bodies] : InitWith(c)

(* ---- file-system effects ------------------------------------------------ *)
Apply(d, o, content) ==
  CASE o = "create:hdr"     -> [d EXCEPT !.hdr = "partial"]
    [] o = "write:hdr"      -> d
    [] o = "sync:hdr"       -> [d EXCEPT !.hdr = IF @ = "dirty" THEN "synced" ELSE @]
    [] o = "create:body"    -> [d EXCEPT !.body = "partial"]
    [] o = "write:body"     -> d
    [] o = "sync:body"      -> [d EXCEPT !.body = IF @ = "dirty" THEN "synced" ELSE @]
    [] o = "create:metanew" -> [d EXCEPT !.metaNew = MF("empty", FALSE, <<>>, ZeroTries)]
    [] o = "write:metanew"  -> [d EXCEPT !.metaNew = MF("ok", FALSE, content.to, content.tries)]
    [] o = "sync:metanew"   -> [d EXCEPT !.metaNew = IF @.k = "nofile" THEN @ ELSE [@ EXCEPT !.s = TRUE]]
    [] o = "sync:meta"      -> [d EXCEPT !.meta = IF @.k = "nofile" THEN @ ELSE [@ EXCEPT !.s = TRUE]]
    [] o = "rename:meta"    -> IF d.metaNew.k = "nofile" THEN d
                               ELSE [d EXCEPT !.meta = d.metaNew, !.metaNew = NoFile]
    [] o = "remove:hdr"     -> [d EXCEPT !.hdr = "absent"]
    [] o = "remove:body"    -> [d EXCEPT !.body = "absent"]
    [] o = "remove:meta"    -> [d EXCEPT !.meta = NoFile]

\* a file is complete once the chain has moved past its write (the code issues one or several
\* write calls, or none for an empty body, and nothing says which one is the last)
Passed(ch, nj, w) == \E i \in 1..Len(ch) : ch[i] = w /\ i < nj
Complete(d, ch, nj) ==
  [d EXCEPT !.hdr  = IF @ = "partial" /\ Passed(ch, nj, "write:hdr") THEN "dirty" ELSE @,
            !.body = IF @ = "partial" /\ Passed(ch, nj, "write:body") THEN "dirty" ELSE @]
\* what would be handed to the target may differ from what the queue was given
MayBeDamaged == disk.hdr \in {"partial", "lost"} \/ disk.body \in {"partial", "lost"}

StartChain(ch, aft, content) ==
  /\ pc' = "chain" /\ chain' = ch /\ ci' = 1 /\ wdone' = FALSE /\ after' = aft /\ wcontent' = content

\* one mutating file operation o of the running chain; writes are optional and repeatable
\* position of o in the running chain: the current op, or the one after a write that may be over
Pos(o) == IF ci <= Len(chain) /\ chain[ci] = o THEN ci
          ELSE IF ci < Len(chain) /\ IsWrite(chain[ci]) /\ (Optional(chain[ci]) \/ wdone) /\ chain[ci + 1] = o THEN ci + 1
          ELSE 0

Fs(o) ==
  /\ up /\ pc = "chain"
  /\ LET j == Pos(o)
         nj == IF IsWrite(o) THEN j ELSE j + 1
     IN /\ j # 0
        /\ disk' = Apply(Complete(disk, chain, j), o, wcontent)
        /\ ci' = nj
        /\ wdone' = IsWrite(o)
        /\ pc' = IF nj > Len(chain) THEN after ELSE pc      \* no chain ends with a write
        /\ hist' = hist
        /\ UNCHANGED <<cfg, up, chain, after, wcontent, mem, to, tries, idx, accepted, errs,
                       failed, newTo, crashes, obs>>


(* ---- storeNewMessage fails -------------------------------------------------- *)
\* o = the call that returns an error: a mutating file operation of the store chain (not performed;
\* a failed write may leave a prefix, the file is incomplete anyway), opening the source buffer
\* (just before the body file is created) or reading from it (inside the copy).  The design: every
\* fallible step precedes the rename that makes the message visible, so a refused message has no
\* meta-data file.
SrcPos(o) == CASE o = "open:src" -> "create:body" [] o = "read:src" -> "write:body" [] OTHER -> o
FailOps == {"create:hdr", "write:hdr", "open:src", "create:body", "read:src", "write:body", "sync:hdr",
            "sync:body", "create:metanew", "write:metanew", "sync:metanew", "rename:meta"}

StoreFail(o) ==
  /\ up /\ pc = "chain" /\ after = "stored_ret"
  /\ Pos(SrcPos(o)) # 0
  /\ (o = "write:body" => cfg.body = "data")     \* no write is issued for an empty body
  /\ pc' = "refusing"
  /\ hist' = H([a |-> "StoreFail", res |-> o])
  /\ UNCHANGED <<cfg, disk, up, chain, ci, wdone, after, wcontent, mem, to, tries, idx, accepted, errs,
                 failed, newTo, crashes, obs>>

\* deviation: a step that can fail comes after the rename; nothing is cleaned up
StoreFailLate ==
  /\ "FailAfterMeta" \in Devs
  /\ up /\ pc = "stored_ret"
  /\ pc' = "refused"
  /\ hist' = H([a |-> "StoreFail", res |-> "late"])
  /\ UNCHANGED <<cfg, disk, up, chain, ci, wdone, after, wcontent, mem, to, tries, idx, accepted, errs,
                 failed, newTo, crashes, obs>>

\* tryRemoveDanglingFile on the error paths: header and body, whichever exist (which of them the
\* code removes depends on the failing step; leaving one behind is harmless without a meta-data file)
CleanupFs(o) ==
  /\ up /\ pc = "refusing"
  /\ \/ o = "remove:hdr" /\ disk.hdr # "absent"
     \/ o = "remove:body" /\ disk.body # "absent"
  /\ disk' = Apply(disk, o, NoContent)
  /\ hist' = hist
  /\ UNCHANGED <<cfg, up, pc, chain, ci, wdone, after, wcontent, mem, to, tries, idx, accepted, errs,
                 failed, newTo, crashes, obs>>

QBodyErr ==   \* Body() returns the error
  /\ up /\ pc = "refusing"
  /\ pc' = "refused"
  /\ chain' = <<>> /\ ci' = 0 /\ wdone' = FALSE /\ after' = "" /\ wcontent' = NoContent
  /\ hist' = hist
  /\ UNCHANGED <<cfg, disk, up, mem, to, tries, idx, accepted, errs, failed, newTo, crashes, obs>>

(* ---- upstream API --------------------------------------------------------- *)
QBody ==   \* Body() is called: storeNewMessage starts
  /\ up /\ pc = "new"
  /\ StartChain(StoreChain, "stored_ret", Content(to, tries))
  /\ hist' = hist
  /\ UNCHANGED <<cfg, disk, up, mem, to, tries, idx, accepted, errs, failed, newTo, crashes, obs>>

QBodyRet ==
  /\ up /\ pc = "stored_ret"
  /\ pc' = "stored"
  /\ hist' = hist
  /\ UNCHANGED <<cfg, disk, up, chain, ci, wdone, after, wcontent, mem, to, tries, idx, accepted, errs,
                 failed, newTo, crashes, obs>>

QCommit ==
  /\ up /\ pc = "stored"
  /\ pc' = "sched" /\ mem' = TRUE
  /\ obs' = DObsCommitRet(obs)
  /\ hist' = H([a |-> "QCommit"])
  /\ UNCHANGED <<cfg, disk, up, chain, ci, wdone, after, wcontent, to, tries, idx, accepted, errs,
                 failed, newTo, crashes>>

QAbort ==
  /\ up /\ pc = "stored"
  /\ StartChain(RemoveChain, "abort_ret", NoContent)
  /\ hist' = H([a |-> "QAbort"])
  /\ UNCHANGED <<cfg, disk, up, mem, to, tries, idx, accepted, errs, failed, newTo, crashes, obs>>

\* Abort of a transaction whose Body was refused, or that never got as far as Body (another
\* target refused a recipient, the client reset the session): the queue has nothing to remove
QAbortNoBody ==
  /\ up /\ pc \in {"refused", "new"}
  /\ pc' = "abort_ret"
  /\ hist' = H([a |-> "QAbort", res |-> IF pc = "new" THEN "early" ELSE "refused"])
  /\ UNCHANGED <<cfg, disk, up, chain, ci, wdone, after, wcontent, mem, to, tries, idx, accepted, errs,
                 failed, newTo, crashes, obs>>

QAbortRet ==
  /\ up /\ pc = "abort_ret"
  /\ pc' = "idle"
  /\ obs' = DObsAbortRet(obs)
  /\ hist' = hist
  /\ UNCHANGED <<cfg, disk, up, chain, ci, wdone, after, wcontent, mem, to, tries, idx, accepted, errs,
                 failed, newTo, crashes>>

(* ---- dispatch: openMessage ------------------------------------------------ *)
Openable == disk.meta.k = "ok" /\ disk.hdr # "absent" /\ disk.body # "absent"

\* dangling-file clean-up of openMessage when the slot has no in-memory data: the first
\* remove is the step itself, a second one (header missing) follows as a chain
DanglingFs ==
  /\ up /\ pc = "sched" /\ ~mem /\ disk.meta.k = "ok"
  /\ (disk.body = "absent" \/ disk.hdr = "absent")
  /\ disk' = Apply(disk, "remove:meta", NoContent)
  /\ IF disk.body = "absent"
     THEN pc' = "idle" /\ UNCHANGED <<chain, ci, wdone, after, wcontent>>
     ELSE StartChain(<<"remove:body">>, "idle", NoContent)
  /\ hist' = hist
  /\ UNCHANGED <<cfg, up, mem, to, tries, idx, accepted, errs, failed, newTo, crashes, obs>>

(* ---- an attempt ------------------------------------------------------------- *)
RECURSIVE ClassifyRec(_, _, _, _, _, _)
ClassifyRec(lst, i, e, tr, nt, fl) ==
  IF i > Len(lst) THEN [newTo |-> nt, failed |-> fl, tries |-> tr]
  ELSE LET r == lst[i] IN
       IF e[r] = "none" THEN ClassifyRec(lst, i + 1, e, tr, nt, fl)
       ELSE IF ~Retryable(e[r]) \/ tr[r] + 1 >= MaxTries
            THEN ClassifyRec(lst, i + 1, e, [tr EXCEPT ![r] = 0], nt, Append(fl, r))
            ELSE ClassifyRec(lst, i + 1, e, [tr EXCEPT ![r] = @ + 1], Append(nt, r), fl)
Classify(lst, e, tr) == ClassifyRec(lst, 1, e, tr, <<>>, <<>>)

Finish(nt, tr) ==   \* removeFromDisk, or updateMetadataOnDisk + wheel.Add
  IF nt = <<>>
  THEN /\ StartChain(RemoveChain, "idle", NoContent) /\ to' = <<>> /\ tries' = tr /\ mem' = FALSE
  ELSE /\ to' = nt /\ tries' = tr
       /\ IF "RetryBeforePersist" \in Devs
          THEN /\ pc' = "sched" /\ mem' = TRUE
               /\ UNCHANGED <<chain, ci, wdone, after, wcontent>>
          ELSE /\ StartChain(UpdateChain, "sched", Content(nt, tr)) /\ mem' = FALSE

AfterAttempt(e) ==
  LET c == Classify(to, e, tries) IN
  /\ errs' = NoErrs /\ accepted' = <<>> /\ idx' = 0
  /\ IF c.failed # <<>>
     THEN /\ pc' = "dsn" /\ failed' = c.failed /\ newTo' = c.newTo /\ tries' = c.tries
          /\ UNCHANGED <<to, mem, chain, ci, wdone, after, wcontent>>
     ELSE /\ failed' = <<>> /\ newTo' = <<>>
          /\ Finish(c.newTo, c.tries)

TStart(res) ==
  /\ up /\ pc = "sched" /\ (mem \/ Openable)
  /\ LET src == IF mem THEN Content(to, tries) ELSE Content(disk.meta.to, disk.meta.tries) IN
     /\ obs' = DObsStart(obs, res)
     /\ hist' = H([a |-> "TStart", res |-> res])
     /\ UNCHANGED <<cfg, disk, up, crashes>>
     /\ IF res = "ok"
        THEN /\ pc' = "rcpt" /\ idx' = 1 /\ accepted' = <<>> /\ errs' = NoErrs
             /\ to' = src.to /\ tries' = src.tries
             /\ UNCHANGED <<chain, ci, wdone, after, wcontent, mem, failed, newTo>>
        ELSE LET c == Classify(src.to, [r \in Rcpts |-> IF r \in ToSet(src.to) THEN res ELSE "none"], src.tries) IN
             /\ errs' = NoErrs /\ accepted' = <<>> /\ idx' = 0
             /\ IF c.failed # <<>>
                THEN /\ pc' = "dsn" /\ failed' = c.failed /\ newTo' = c.newTo /\ tries' = c.tries
                     /\ to' = src.to
                     /\ UNCHANGED <<mem, chain, ci, wdone, after, wcontent>>
                ELSE /\ failed' = <<>> /\ newTo' = <<>> /\ Finish(c.newTo, c.tries)

TAddRcpt(res) ==
  /\ up /\ pc = "rcpt" /\ idx <= Len(to)
  /\ LET r == to[idx] IN
       /\ obs' = DObsAddRcpt(obs, r, res)
       /\ hist' = H([a |-> "TAddRcpt", r |-> r, res |-> res])
       /\ IF res = "ok" THEN accepted' = Append(accepted, r) /\ UNCHANGED errs
          ELSE errs' = [errs EXCEPT ![r] = res] /\ UNCHANGED accepted
  /\ idx' = idx + 1
  /\ UNCHANGED <<cfg, disk, up, pc, chain, ci, wdone, after, wcontent, mem, to, tries, failed, newTo, crashes>>

TAbortNoRcpt ==
  /\ up /\ pc = "rcpt" /\ idx > Len(to) /\ accepted = <<>>
  /\ hist' = H([a |-> "TAbort"])
  /\ obs' = DObsAbort(obs)
  /\ UNCHANGED <<cfg, disk, up, crashes>>
  /\ AfterAttempt(errs)

TBody(res) ==
  /\ up /\ pc = "rcpt" /\ idx > Len(to) /\ accepted # <<>> /\ ~cfg.partial
  /\ obs' = DObsIntact(DObsBody(obs, res), ~MayBeDamaged)
  /\ hist' = H([a |-> "TBody", res |-> res])
  /\ errs' = IF res = "ok" THEN errs
             ELSE [r \in Rcpts |-> IF r \in ToSet(accepted) THEN res ELSE errs[r]]
  /\ pc' = "decide"
  /\ UNCHANGED <<cfg, disk, up, chain, ci, wdone, after, wcontent, mem, to, tries, idx, accepted, failed, newTo, crashes>>

TBodyNA(st) ==
  /\ up /\ pc = "rcpt" /\ idx > Len(to) /\ accepted # <<>> /\ cfg.partial
  /\ obs' = DObsIntact(DObsBodyNA(obs, st), ~MayBeDamaged)
  /\ hist' = H([a |-> "TBodyNA", st |-> st])
  /\ errs' = [r \in Rcpts |-> IF r \in DOMAIN st /\ st[r] # "ok" THEN st[r] ELSE errs[r]]
  /\ pc' = "decide"
  /\ UNCHANGED <<cfg, disk, up, chain, ci, wdone, after, wcontent, mem, to, tries, idx, accepted, failed, newTo, crashes>>

AllFailed == \A r \in ToSet(accepted) : errs[r] # "none"

TAbortAllFailed ==
  /\ up /\ pc = "decide" /\ AllFailed
  /\ hist' = H([a |-> "TAbort"])
  /\ obs' = DObsAbort(obs)
  /\ UNCHANGED <<cfg, disk, up, crashes>>
  /\ AfterAttempt(errs)

TCommit(res) ==
  /\ up /\ pc = "decide" /\ ~AllFailed
  /\ obs' = DObsCommit(obs, res)
  /\ hist' = H([a |-> "TCommit", res |-> res])
  /\ UNCHANGED <<cfg, disk, up, crashes>>
  /\ AfterAttempt(IF res = "ok" THEN errs
                  ELSE [r \in Rcpts |-> IF r \in ToSet(accepted) THEN res ELSE errs[r]])

Dsn ==
  /\ up /\ pc = "dsn"
  /\ obs' = DObsDsn(obs, ToSet(failed))
  /\ hist' = H([a |-> "Dsn", rcpts |-> failed])
  /\ failed' = <<>> /\ newTo' = <<>>
  /\ Finish(newTo, tries)
  /\ UNCHANGED <<cfg, disk, up, idx, accepted, errs, crashes>>

(* ---- crash and restart ------------------------------------------------------ *)
Lose(f) == IF f.k = "nofile" \/ f.s THEN f ELSE MF("torn", FALSE, <<>>, ZeroTries)

Crash(strength, torn) ==
  /\ up /\ crashes < MaxCrashes /\ pc # "new"
  /\ torn => (pc = "chain" /\ ci <= Len(chain) /\ IsWrite(chain[ci]))
  /\ LET d1 == IF torn /\ chain[ci] = "write:metanew"
               THEN [disk EXCEPT !.metaNew = MF("torn", FALSE, <<>>, ZeroTries)] ELSE disk
         d2 == IF strength = "strong"
               THEN [d1 EXCEPT !.meta = Lose(@), !.metaNew = Lose(@),
                               !.hdr = IF @ = "dirty" THEN "lost" ELSE @,
                               !.body = IF @ = "dirty" THEN "lost" ELSE @]
               ELSE d1
     IN disk' = d2
  /\ up' = FALSE /\ pc' = "down" /\ crashes' = crashes + 1
  /\ chain' = <<>> /\ ci' = 0 /\ wdone' = FALSE /\ after' = "" /\ wcontent' = NoContent /\ mem' = FALSE
  /\ to' = <<>> /\ tries' = [r \in Rcpts |-> 0] /\ idx' = 0 /\ accepted' = <<>> /\ errs' = NoErrs
  /\ failed' = <<>> /\ newTo' = <<>>
  /\ obs' = DObsCrash(obs)
  /\ hist' = hist
  /\ UNCHANGED cfg

\* start(): readDiskQueue
Restart ==
  /\ ~up /\ pc = "down"
  /\ up' = TRUE
  /\ IF disk.meta.k # "ok"
     THEN pc' = "idle" /\ UNCHANGED <<chain, ci, wdone, after, wcontent>>
     ELSE IF disk.hdr = "absent"
          THEN StartChain(<<"remove:meta", "remove:body">>, "idle", NoContent)
          ELSE IF disk.body = "absent"
               THEN StartChain(<<"remove:meta", "remove:hdr">>, "idle", NoContent)
               ELSE IF "EmptyIsDangling" \in Devs /\ cfg.body = "empty"
                    THEN StartChain(<<"remove:body", "remove:meta", "remove:hdr">>, "idle", NoContent)
                    ELSE pc' = "sched" /\ UNCHANGED <<chain, ci, wdone, after, wcontent>>
  /\ hist' = hist
  /\ UNCHANGED <<cfg, disk, mem, to, tries, idx, accepted, errs, failed, newTo, crashes, obs>>

Quiet == up /\ (pc = "idle" \/ (pc = "sched" /\ ~mem /\ disk.meta.k # "ok"))

Final ==
  /\ Quiet
  /\ pc' = "end"
  /\ obs' = DObsFinal(obs)
  /\ hist' = H([a |-> "Final"])
  /\ IF Gen THEN PrintT(<<"BEH", ToJson([cfg |-> cfg, hist |-> hist'])>>) ELSE TRUE
  /\ UNCHANGED <<cfg, disk, up, chain, ci, wdone, after, wcontent, mem, to, tries, idx, accepted, errs,
                 failed, newTo, crashes>>

AllOps == {"create:hdr", "write:hdr", "create:body", "write:body", "create:metanew", "write:metanew",
           "sync:metanew", "sync:meta", "rename:meta", "sync:hdr", "sync:body", "remove:hdr",
           "remove:body", "remove:meta"}

Next ==
  \/ QBody \/ QBodyRet \/ QCommit \/ QAbort \/ QAbortRet
  \/ \E o \in FailOps : StoreFail(o)
  \/ StoreFailLate \/ QBodyErr \/ QAbortNoBody
  \/ \E o \in AllOps : Fs(o) \/ CleanupFs(o)
  \/ DanglingFs
  \/ \E res \in Res : TStart(res) \/ TAddRcpt(res) \/ TBody(res) \/ TCommit(res)
  \/ \E st \in [ToSet(accepted) -> Res] : TBodyNA(st)
  \/ TAbortNoRcpt \/ TAbortAllFailed \/ Dsn
  \/ \E s \in Strengths, torn \in BOOLEAN : Crash(s, torn)
  \/ Restart \/ Final
  \/ (pc = "end" /\ ~Gen /\ UNCHANGED vars)

Spec == Init /\ [][Next]_vars

NoViolation == obs.viol = {}
\* scenario generation: the crash-free histories do not depend on the body kind (the driver assigns it)
GenData == cfg.body = "data"
=============================================================================
