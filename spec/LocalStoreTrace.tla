--------------------------- MODULE LocalStoreTrace ---------------------------
(***************************************************************************)
(* Trace validation for LocalStore.tla.  trace.ndjson holds the events     *)
(* recorded from the real storage module (internal/storage/imapsql over a  *)
(* real sqlite database and a real file-system message store), many traces *)
(* concatenated; "Cfg" starts a trace, "End" finishes it.                  *)
(*                                                                         *)
(* Every line is consumed either by the matching action of LocalStore.tla  *)
(* - the logged arguments must be the ones the design takes, and the       *)
(* logged result, filter calls and mailbox snapshot must equal what the    *)
(* design predicts (conformance) - or by the monitor-only step M_Step,     *)
(* which marks the trace as drifted and folds `obs` with the same          *)
(* LocalStoreObs operators over the logged values.  obs.viol therefore     *)
(* depends only on what the real code did.  The verdict of a trace         *)
(* [t, drift, driftAt, viol, used] is published in TLC register 1 at its   *)
(* End event (used = the deviations of Devs the conforming path needed).   *)
(***************************************************************************)
EXTENDS LocalStore

Trace == ndJsonDeserialize("trace.ndjson")

VARIABLES l, drift, driftAt, tno

tvars == <<vars, l, drift, driftAt, tno>>

Ev == Trace[l]
IsEv(e) == l <= Len(Trace) /\ Ev.e = e
Keep == l' = l + 1 /\ UNCHANGED <<drift, driftAt, tno>>

Publish(d, da, o, u) ==
  TLCSet(1, TLCGet(1) \cup {[t |-> tno, drift |-> d, driftAt |-> da, viol |-> o.viol, used |-> u]})

SnapOf(e) ==
  {[acct |-> r.acct, mbox |-> r.mbox, msg |-> r.msg, dt |-> r.dt, hdr |-> r.hdr, body |-> r.body,
    rp |-> r.rp, flags |-> ToSet(r.flags), n |-> r.n] : r \in ToSet(e.snap)}
CallsOf(e) == {[f |-> x.f, acct |-> x.acct, ad |-> x.ad] : x \in ToSet(e.calls)}
MsgsOf(e) == [i \in 1..Len(e.msgs) |-> [list |-> e.msgs[i].list, quar |-> e.msgs[i].quar]]
\* the logged filter answers as a sequence of functions account -> answer id
OutsOf(e) == [i \in 1..Len(e.outs) |-> [a \in DOMAIN e.outs[i] |-> e.outs[i][a]]]
SameOuts(x, y) ==
  /\ Len(x) = Len(y)
  /\ \A i \in 1..Len(x) : DOMAIN x[i] = DOMAIN y[i] /\ \A a \in DOMAIN x[i] : x[i][a] = y[i][a]

DummyCfg == [norm |-> "noop", dmap |-> FALSE, nf |-> 0, jbox |-> "none", junkName |-> "Junk", watch |-> FALSE,
             msgs |-> <<>>]

TInit ==
  /\ InitWith(DummyCfg)
  /\ l = 1 /\ drift = FALSE /\ driftAt = 0 /\ tno = 0
  /\ TLCSet(1, {})

TReset ==
  /\ IsEv("Cfg")
  /\ cfg' = [norm |-> Ev.norm, dmap |-> Ev.dmap, nf |-> Ev.nf, jbox |-> Ev.jbox,
             junkName |-> Ev.junkName, watch |-> Ev.watch, msgs |-> MsgsOf(Ev)]
  /\ phase' = "idle" /\ mi' = 0 /\ idx' = 0 /\ ks' = <<>>
  /\ store' = {} /\ pend' = {} /\ exists' = StartAccts
  /\ blobs' = FALSE /\ leak' = FALSE /\ told' = 0 /\ ann' = 0 /\ envDone' = {} /\ used' = {}
  /\ obs' = ObsInit
  /\ hist' = <<>>
  /\ l' = l + 1 /\ drift' = FALSE /\ driftAt' = 0 /\ tno' = Ev.t

C_Start   == /\ IsEv("Start") /\ Ev.msg = mi + 1 /\ SnapOf(Ev) = store /\ Ev.told = told /\ Start
C_AddRcpt == /\ IsEv("AddRcpt") /\ phase = "open" /\ idx <= Len(CurList)
             /\ CurList[idx] = Ev.ad /\ RcptRes(Ev.ad) = Ev.res /\ SnapOf(Ev) = store /\ Ev.told = told
             /\ AddRcpt
C_Delete  == /\ IsEv("Delete") /\ Delete(Ev.acct) /\ SnapOf(Ev) = store' /\ Ev.told = told
C_Login   == /\ IsEv("Login") /\ Ev.acct = "u" /\ Ev.res = "ok" /\ SnapOf(Ev) = store /\ Ev.told = told /\ Login
C_Body    == /\ IsEv("Body") /\ phase = "open" /\ idx > Len(CurList) /\ ks # <<>>
             /\ Ev.fault \in 0..Len(ks)
             /\ \E outs \in OutsSet(KAccts, IF CurMsg.quar THEN 0 ELSE cfg.nf) :
                  /\ SameOuts(outs, OutsOf(Ev))
                  /\ Ev.res = (IF FailAt(CurMsg.quar, Ev.fault) = 0 THEN "ok" ELSE "fail")
                  /\ CallsOf(Ev) = Calls(CurMsg.quar, outs)
                  /\ SnapOf(Ev) = store
                  /\ Body(outs, Ev.fault)
                  /\ Ev.told = told'
C_Commit  == /\ IsEv("Commit") /\ Ev.res = "ok" /\ Commit /\ SnapOf(Ev) = store' /\ Ev.told = told'
C_Abort   == /\ IsEv("Abort") /\ SnapOf(Ev) = store /\ Ev.told = told /\ Abort
C_End     == /\ IsEv("End") /\ (Ev.orphans > 0) = leak /\ End

Conform == C_Start \/ C_AddRcpt \/ C_Delete \/ C_Login \/ C_Body \/ C_Commit \/ C_Abort \/ C_End

C_Step ==
  /\ ~drift
  /\ Conform
  /\ Keep
  /\ IF Ev.e = "End" THEN Publish(FALSE, 0, obs', used') ELSE TRUE

(* the observation fold, independent of the design state *)
ObsApply0(o, e) ==
  CASE e.e = "Start"   -> ObsStart(o, MsgId(e.msg), e.quar, SnapOf(e))
    [] e.e = "AddRcpt" -> ObsAddRcpt(o, cfg, e.ad, e.res, SnapOf(e))
    [] e.e = "Delete"  -> ObsDelete(o, e.acct, SnapOf(e))
    [] e.e = "Login"   -> ObsLogin(o, e.acct, e.res, SnapOf(e))
    [] e.e = "Body"    -> ObsBody(o, cfg, OutsOf(e), CallsOf(e), e.fault, e.res, SnapOf(e))
    [] e.e = "Commit"  -> ObsCommit(o, e.res, SnapOf(e))
    [] e.e = "Abort"   -> ObsAbort(o, SnapOf(e))
    [] e.e = "End"     -> ObsEnd(o, e.orphans)
    [] OTHER -> o
ObsApply(o, e) == IF e.e = "End" THEN ObsApply0(o, e) ELSE ObsTold(ObsApply0(o, e), e.told, SnapOf(e))

M_Step ==
  /\ l <= Len(Trace) /\ Ev.e # "Cfg"
  /\ (drift \/ ~ENABLED Conform)
  /\ drift' = TRUE
  /\ driftAt' = IF drift THEN driftAt ELSE Ev.seq
  /\ obs' = ObsApply(obs, Ev)
  /\ l' = l + 1
  /\ UNCHANGED <<cfg, phase, mi, idx, ks, store, pend, exists, blobs, leak, told, ann, envDone, used, hist, tno>>
  /\ IF Ev.e = "End" THEN Publish(TRUE, driftAt', obs', used) ELSE TRUE

TNext == TReset \/ C_Step \/ M_Step
TSpec == TInit /\ [][TNext]_tvars

Post == PrintT(<<"VERDICTS", ToJson(TLCGet(1))>>)
=============================================================================
