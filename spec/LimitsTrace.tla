----------------------------- MODULE LimitsTrace -----------------------------
(***************************************************************************)
(* Trace validation for Limits.tla.  trace.ndjson holds the events recorded *)
(* from the real limits.Group (harness/limitscheck), many traces            *)
(* concatenated; a "Cfg" event starts a new trace.                          *)
(*                                                                         *)
(* Every trace is read twice, as two branches that split at its Cfg event:  *)
(*   mon = TRUE   the monitor: a deterministic fold of the recorded events  *)
(*                into `obs` with the LimitsObs operators and nothing else; *)
(*                it can always reach the end of the trace and publishes    *)
(*                the violated predicates (the only source of VIOLATION);   *)
(*   mon = FALSE  conformance: every line must be explained by the action   *)
(*                of Limits.tla with the logged arguments; the internal     *)
(*                steps of the callers (Step) are composed silently; the    *)
(*                deviations listed in Devs are available and `devs`        *)
(*                records the ones taken.  A branch that cannot explain a   *)
(*                line simply ends; register 2 keeps the highest line       *)
(*                reached (first unexplained line = drift position).        *)
(* Verdict records [t, drift, driftAt, viol, devs] are published in TLC     *)
(* register 1 when the final "Quiesced" event is consumed.                  *)
(***************************************************************************)
EXTENDS Limits

Trace == ndJsonDeserialize("trace.ndjson")

VARIABLES l,      \* next line of Trace
          mon,    \* monitor branch?
          tno     \* number of the current trace

tvars == <<vars, l, mon, tno>>

Ev == Trace[l]
IsEv(e) == l <= Len(Trace) /\ Ev.e = e
Range(s) == {s[i] : i \in DOMAIN s}
RawKey == "raw"

Publish(o, dv) ==
  TLCSet(1, TLCGet(1) \cup {[t |-> tno, drift |-> mon, driftAt |-> 0, viol |-> o.viol, devs |-> dv]})
HighWater ==
  LET hw == TLCGet(2) IN
  IF tno \in DOMAIN hw /\ hw[tno] >= Ev.seq THEN TRUE
  ELSE TLCSet(2, (tno :> Ev.seq) @@ hw)

Design == <<cfg, pc, arg, held, exp, age, res, ops, sem, tab, fresh, extra, xfresh, devs, phase, hist>>

TInit ==
  /\ InitWith([all |-> 0, ip |-> 0, source |-> 0, dest |-> 0, mb |-> 1])
  /\ l = 1 /\ mon = FALSE /\ tno = 0
  /\ TLCSet(1, {}) /\ TLCSet(2, <<>>)

TReset ==
  /\ IsEv("Cfg")
  /\ LET c == [all |-> Ev.all, ip |-> Ev.ip, source |-> Ev.source, dest |-> Ev.dest, mb |-> Ev.mb] IN
       /\ cfg' = c
       /\ obs' = ObsInit([s \in Scopes |-> c[s]], Msgs, Keys)
  /\ pc' = [m \in Msgs |-> "idle"]
  /\ arg' = [m \in Msgs |-> NoArg]
  /\ held' = [m \in Msgs |-> [msg |-> FALSE, dst |-> {}]]
  /\ exp' = [m \in Msgs |-> FALSE]
  /\ age' = [m \in Msgs |-> 0]
  /\ res' = [m \in Msgs |-> ""]
  /\ ops' = [m \in Msgs |-> MaxOps]
  /\ sem' = [s \in Scopes |-> [k \in Keys \cup {AllKey} |-> 0]]
  /\ tab' = [s \in BScopes |-> {}]
  /\ fresh' = [s \in BScopes |-> {}]
  /\ extra' = [s \in BScopes |-> 0]
  /\ xfresh' = [s \in BScopes |-> 0]
  /\ devs' = {}
  /\ phase' = "run"
  /\ hist' = <<>>
  /\ l' = l + 1 /\ tno' = Ev.t
  /\ mon' \in BOOLEAN

(* ---- conformance ---------------------------------------------------------- *)
NoSemEv == Range(Ev.nosem)

\* the recorded permits in use are the ones the design state has
SnapMatches ==
  /\ Cap("all") > 0 => Use(Ev.use, "all", AllKey) = sem["all"][AllKey]
  /\ \A s \in BScopes :
       /\ Ev.tl[s] = Cardinality(tab[s]) + extra[s]
       /\ (DOMAIN Ev.use[s]) \ {"_"} = tab[s]
       /\ \A k \in tab[s] : Ev.use[s][k] = (IF Cap(s) > 0 THEN sem[s][k] ELSE 0)

C_Silent == /\ \E m \in Msgs : Step(m) \/ EndDst(m) \/ PipeReject(m)
            /\ UNCHANGED <<l, mon, tno>>

C_Call ==
  /\ IsEv("Call")
  /\ CASE Ev.op = "TakeMsg"  -> CallTakeMsg(Ev.m, Ev.ip, Ev.src)
       [] Ev.op = "TakeDest" -> IF "reqtls" \in DOMAIN Ev /\ Ev.reqtls
                                THEN CallTakeDestRefused(Ev.m, Ev.d)
                                ELSE CallTakeDest(Ev.m, Ev.d)
       [] Ev.op = "RelDest"  -> CallRelDest(Ev.m, Ev.d)
       \* the key a session releases under is not visible from outside: the one it took, or
       \* (deviation ReleaseOtherKey = finding F5: immediate-reject mode only, where Mail
       \* overwrites the normalised sender after startDelivery; sender domain not in its
       \* normalised spelling) the raw spelling, which no bucket is ever created for.  The
       \* same symptom in deferred mode is NOT that finding and stays unexplained.
       [] Ev.op = "RelMsg"   -> /\ Ev.ip = arg[Ev.m].ip
                                /\ \/ CallRelMsg(Ev.m, Ev.src)
                                   \/ Endp /\ D("ReleaseOtherKey") /\ Ev.raw /\ ~Ev.defer /\ CallRelMsg(Ev.m, RawKey)
       [] Ev.op = "End"      -> CallEnd(Ev.m)
       [] OTHER -> FALSE

C_Ret ==
  /\ IsEv("Ret")
  /\ pc[Ev.m] \in RetPc
  /\ Ev.res = RetVal(Ev.m)
  /\ Return(Ev.m)

C_Tick == /\ IsEv("Tick") /\ Settled
          /\ IF \E m \in Msgs : Pending(m) /\ ~exp[m] THEN Tick ELSE UNCHANGED vars
C_Minute == IsEv("Minute") /\ Minute
C_MailReject == IsEv("MailReject") /\ MailReject(Ev.m, Ev.d)
\* a MAIL inside an open transaction: refused, no effect (whatever sender it names)
C_NestedMail == /\ IsEv("NestedMail") /\ Endp /\ Settled /\ pc[Ev.m] = "idle" /\ held[Ev.m].msg
                /\ Ev.res = "503" /\ UNCHANGED vars
C_RcptReject == IsEv("RcptReject") /\ RcptReject(Ev.m, Ev.d)
\* a further recipient on a connection the delivery already has: no limit operation
C_MoreRcpt == /\ IsEv("MoreRcpt") /\ Remote /\ Settled /\ pc[Ev.m] = "idle" /\ Ev.d \in held[Ev.m].dst
              /\ Ev.res # "panic" /\ UNCHANGED vars
\* the harness held a caller up right after its bucket granted the permit / let it go on
C_Yield == IsEv("Yield") /\ Ev.s \in BScopes /\ Park(Ev.m, Ev.s)
C_Resume == IsEv("Resume") /\ Unpark(Ev.m)
C_Fill == /\ IsEv("Fill") /\ Ev.panics = 0 /\ Ev.errs = 0 /\ Ev.len = cfg.mb + 1
          /\ Fill(Ev.s)

C_Snap ==
  /\ IsEv("Snap") /\ Settled /\ SnapMatches
  /\ obs' = ObsSnapX(ObsSnap(obs, Ev.use, NoSemEv), Ev.usex, NoSemEv)
  /\ UNCHANGED Design

C_Quiesced ==
  /\ IsEv("Quiesced") /\ Settled /\ SnapMatches
  /\ obs' = ObsSnapX(ObsQuiesced(obs, Ev.use, NoSemEv), Ev.usex, NoSemEv)
  /\ UNCHANGED Design
  /\ Publish(obs', devs)

C_Step ==
  /\ ~mon
  /\ \/ C_Silent
     \/ /\ (C_Call \/ C_Ret \/ C_Tick \/ C_Minute \/ C_Fill \/ C_MailReject \/ C_RcptReject \/ C_MoreRcpt \/ C_NestedMail \/ C_Yield \/ C_Resume \/ C_Snap \/ C_Quiesced)
        /\ l' = l + 1 /\ UNCHANGED <<mon, tno>>
        /\ HighWater

(* ---- the monitor: observation fold only ------------------------------------- *)
ObsApply(o, e) ==
  CASE e.e = "Call" -> ObsCall(o, e.m, e.op, e.ip, e.src, e.d)
    [] e.e = "Ret"  -> ObsRet(o, e.m, e.res)
    [] e.e = "Snap" -> ObsSnapX(ObsSnap(o, e.use, Range(e.nosem)), e.usex, Range(e.nosem))
    [] e.e = "Quiesced" -> ObsSnapX(ObsQuiesced(o, e.use, Range(e.nosem)), e.usex, Range(e.nosem))
    [] e.e = "Fill" -> V(o, e.panics = 0, "Crash")
    [] e.e = "MailReject" -> ObsMailReject(o, e.m, e.d)
    [] e.e = "RcptReject" -> ObsRcptReject(o, e.m, e.d)
    [] e.e = "MoreRcpt" -> V(o, e.res # "panic", "Crash")
    [] e.e = "NestedMail" -> V(o, e.res # "panic", "Crash")
    [] e.e = "Yield" -> ObsYield(o, e.m)
    [] e.e = "Resume" -> ObsResume(o, e.m)
    [] OTHER -> o

M_Step ==
  /\ mon
  /\ l <= Len(Trace) /\ Ev.e # "Cfg"
  /\ obs' = ObsApply(obs, Ev)
  /\ l' = l + 1
  /\ UNCHANGED <<Design, mon, tno>>
  /\ IF Ev.e = "Quiesced" THEN Publish(obs', {}) ELSE TRUE

TNext == TReset \/ C_Step \/ M_Step
TSpec == TInit /\ [][TNext]_tvars

Post == PrintT(<<"VERDICTS", ToJson(TLCGet(1) \cup
          {[t |-> t, drift |-> TRUE, driftAt |-> TLCGet(2)[t], viol |-> {}, devs |-> {}, hw |-> TRUE]
             : t \in DOMAIN TLCGet(2)})>>)
=============================================================================
