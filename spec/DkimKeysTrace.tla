--------------------------- MODULE DkimKeysTrace ---------------------------
(***************************************************************************)
(* Trace validation for DkimKeys.tla (C08, key side).  One trace = one     *)
(* key directory over several starts of the real modify.dkim:             *)
(*   Cfg, (Start | RemoveKey | Sign)*, Final.                             *)
(* Sign events carry what the next hop saw after the real queue and SMTP   *)
(* client: signed?, the domain class of d=, verified against the zone made *)
(* of the record files maddy wrote.  C_Step = conforming design step,      *)
(* M_Step = monitor-only fold of the same predicate (drift).               *)
(***************************************************************************)
EXTENDS DkimKeys

Trace == ndJsonDeserialize("trace.ndjson")

VARIABLES l, drift, driftAt, tno, viol
tvars == <<vars, l, drift, driftAt, tno, viol>>

Ev == Trace[l]
IsEv(e) == l <= Len(Trace) /\ Ev.e = e
Publish(d, da, v) == TLCSet(1, TLCGet(1) \cup {[t |-> tno, drift |-> d, driftAt |-> da, viol |-> v]})

TInit ==
  /\ InitWith([doms |-> <<"top">>, sub |-> FALSE, tpl |-> "key"])
  /\ l = 1 /\ drift = FALSE /\ driftAt = 0 /\ tno = 0 /\ viol = {}
  /\ TLCSet(1, {})

TReset ==
  /\ IsEv("Cfg")
  /\ cfg' = [doms |-> Ev.doms, sub |-> Ev.sub, tpl |-> Ev.tpl]
  /\ kf' = [d \in Doms |-> NoKey] /\ dns' = [f \in RecFiles |-> NoRec] /\ mem' = [d \in Doms |-> NoKey]
  /\ run' = FALSE /\ n' = 0 /\ last' = NoSig /\ hist' = <<>>
  /\ l' = l + 1 /\ drift' = FALSE /\ driftAt' = 0 /\ tno' = Ev.t /\ viol' = {}

C_Start     == IsEv("Start") /\ Ev.ok /\ Start(Ev.algo)
C_RemoveKey == IsEv("RemoveKey") /\ RemoveKey(Ev.dom)
C_Sign      == /\ IsEv("Sign") /\ Sign(Ev.sender)
               /\ last'.signed = Ev.signed /\ last'.d = Ev.d /\ last'.verified = Ev.verified
C_Final     == IsEv("Final") /\ UNCHANGED vars
Conform == C_Start \/ C_RemoveKey \/ C_Sign \/ C_Final

ObsApply(v, e) == IF e.e = "Sign" THEN v \cup SigViol(e) ELSE v

C_Step ==
  /\ ~drift /\ Conform
  /\ l' = l + 1 /\ UNCHANGED <<drift, driftAt, tno>>
  /\ viol' = ObsApply(viol, Ev)
  /\ IF Ev.e = "Final" THEN Publish(FALSE, 0, viol') ELSE TRUE

M_Step ==
  /\ l <= Len(Trace) /\ Ev.e # "Cfg"
  /\ (drift \/ ~ENABLED Conform)
  /\ drift' = TRUE /\ driftAt' = IF drift THEN driftAt ELSE Ev.seq
  /\ viol' = ObsApply(viol, Ev)
  /\ l' = l + 1
  /\ UNCHANGED <<vars, tno>>
  /\ IF Ev.e = "Final" THEN Publish(TRUE, driftAt', viol') ELSE TRUE

TNext == TReset \/ C_Step \/ M_Step
TSpec == TInit /\ [][TNext]_tvars
Post == PrintT(<<"VERDICTS", ToJson(TLCGet(1))>>)
=============================================================================
