\* evaluates trace.ndjson (configurations loaded by the real code)
SPECIFICATION TSpec
CONSTANTS
  MaxBlocks = 1
  MaxUses = 1
  Gen = FALSE
CHECK_DEADLOCK FALSE
POSTCONDITION Post
