SPECIFICATION Spec
CONSTANTS
  Full = FALSE
  Devs = {}
  Gen = FALSE
INVARIANTS RuleSatisfiesProp ActionsAreRule
CHECK_DEADLOCK FALSE
