SPECIFICATION TSpec
CONSTANTS
  Full = TRUE
  Devs = {}
  Gen = FALSE
  OpenDevs = {"Utf8Keyword", "MsgSizeInternalError"}
CHECK_DEADLOCK FALSE
POSTCONDITION Post
