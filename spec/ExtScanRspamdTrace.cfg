\* evaluates trace.ndjson (rows of the real code); OpenDevs = deviations of the open findings of extensions/findings.json
SPECIFICATION TSpec
CONSTANTS
  Full = TRUE
  Devs = {}
  Gen = FALSE
  Seed = 1
  RandN = 1
  OpenDevs = {"FlagsIgnored", "RdnsNilPanic"}
CHECK_DEADLOCK FALSE
POSTCONDITION Post
