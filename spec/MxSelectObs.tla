---------------------------- MODULE MxSelectObs ----------------------------
(***************************************************************************)
(* Observation state and property predicates of extension X16: where      *)
(* target.remote delivers - MX discovery, candidate order, fall-back and  *)
(* outcome classification.                                                 *)
(*                                                                         *)
(* Everything here is a pure function of                                   *)
(*   - the environment facts of the behaviour (`facts`): per recipient    *)
(*     domain what the DNS publishes / how the lookup ends                *)
(*       kind : "mx"      MX records `recs` (Seq of [pref, host, up])     *)
(*              "null"    the null MX of RFC 7505 (one record, 0 ".")     *)
(*              "nomx"    the name exists, no MX record (implicit MX,     *)
(*                        RFC 5321 5.1: the domain itself, preference 0)  *)
(*              "nx"      NXDOMAIN                                         *)
(*              "servfail" | "timeout" | "down"  temporary DNS failures   *)
(*                        (SERVFAIL, no answer, resolver not running)     *)
(*       idn  : the domain is an IDN, handed over in U-label form         *)
(*   - what was OBSERVED at the target's boundaries: the DNS questions    *)
(*     that arrived at the DNS server, the hosts the target dialled (in   *)
(*     order) and how each of them behaved, the MAIL / RCPT commands and  *)
(*     the complete transactions the MX hosts saw, the class of the       *)
(*     error AddRcpt returned and the per-recipient statuses of           *)
(*     BodyNonAtomic, the connections left open after Target.Close.       *)
(* Nothing refers to the step machine of MxSelect.tla.  The same          *)
(* operators fold `obs` in the design spec (checked exhaustively by TLC)  *)
(* and in MxSelectTrace.tla (fed with events recorded from the real       *)
(* remote.Target).                                                         *)
(*                                                                         *)
(* How a candidate host behaved for one connection attempt (`out`):       *)
(*   "refuse"  the TCP connection is refused                              *)
(*   "nohost"  the MX name does not resolve (NXDOMAIN)                    *)
(*   "hserv"   the MX name cannot be resolved right now (SERVFAIL)        *)
(*   "g4" "g5" the greeting is 421 / 554                                  *)
(*   "gdrop"   the connection is closed before the greeting               *)
(*   "edrop"   the connection is closed after EHLO was sent               *)
(*   "up"      the session is established (220, EHLO answered)            *)
(* Replies: MAIL "ok"|"m4"|"m5"|"mdrop" (closed instead of a reply),     *)
(* RCPT "ok"|"r4"|"r5", final dot "ok"|"d4"|"d5".                        *)
(* Classes of a returned error: "ok" | "temp" | "perm" | "unspec" (no     *)
(* Temporary() method; the queue retries those).                          *)
(***************************************************************************)
EXTENDS Naturals, Sequences, FiniteSets

NoDoms   == {"lit", "none"}     \* recipients without a domain name: address literal, <postmaster>
TempOuts == {"refuse", "hserv", "g4", "gdrop", "edrop"}   \* connection-level / temporary failure of a candidate
PermOuts == {"nohost", "g5"}                              \* the candidate gave a definitive permanent answer
FailOuts == TempOuts \cup PermOuts
NoServer == {"refuse", "nohost", "hserv"}                 \* the dial itself fails, no connection exists
DnsTemp  == {"servfail", "timeout", "down"}

NoCur == [lp |-> "", dom |-> ""]

ObsInit == [m        |-> 0,       \* delivery number
            cur      |-> NoCur,   \* recipient of the AddRcpt call in progress
            tried    |-> <<>>,    \* candidates dialled during this call: Seq([host, out])
            answered |-> "",      \* reply to the MAIL command sent during this call ("" = none)
            rr       |-> "",      \* reply to the RCPT command for cur ("" = none)
            conns    |-> {},      \* [host, c, dom]: connection c of `host` was dialled for domain dom
            mails    |-> {},      \* [m, dom]: a MAIL for domain dom was accepted in delivery m
            acc      |-> {},      \* recipients accepted by AddRcpt in this delivery
            dots     |-> {},      \* [dom, r]: transactions completed (final dot answered) in this delivery
            viol     |-> {}]

Viol(o, names) == [o EXCEPT !.viol = @ \cup names]
IfV(c, n) == IF c THEN {n} ELSE {}

(* the candidates of a domain, in the order the DNS published them *)
Cands(facts, d) ==
  IF d \notin DOMAIN facts THEN <<>>
  ELSE IF facts[d].kind = "mx" THEN [i \in 1..Len(facts[d].recs) |-> [pref |-> facts[d].recs[i].pref, host |-> facts[d].recs[i].host]]
  ELSE IF facts[d].kind = "nomx" THEN <<[pref |-> 0, host |-> d]>>
  ELSE <<>>

KindOf(facts, d) == IF d \in DOMAIN facts THEN facts[d].kind ELSE d

Rng(f) == {f[i] : i \in DOMAIN f}

(* "tried strictly in ascending preference order": the hosts dialled so far are  *)
(* distinct records of the RRset, their preferences never decrease, and no      *)
(* record with a lower preference than the last one dialled was passed over     *)
Explains(tried, recs) ==
  \/ tried = <<>>
  \/ /\ Len(tried) <= Len(recs)
     /\ \E f \in [1..Len(tried) -> 1..Len(recs)] :
          /\ \A i, j \in 1..Len(tried) : i # j => f[i] # f[j]
          /\ \A i \in 1..Len(tried) : recs[f[i]].host = tried[i].host
          /\ \A i, j \in 1..Len(tried) : i < j => recs[f[i]].pref <= recs[f[j]].pref
          /\ \A k \in 1..Len(recs) : k \notin Rng(f) => recs[k].pref >= recs[f[Len(tried)]].pref

ObsStart(o, m) == [o EXCEPT !.m = m, !.acc = {}, !.dots = {}, !.cur = NoCur, !.tried = <<>>, !.answered = "", !.rr = ""]

ObsRcpt(o, r) == [o EXCEPT !.cur = r, !.tried = <<>>, !.answered = "", !.rr = ""]

(* a DNS question arrived: q = [dom, form, qt]; dom = the configured domain the   *)
(* name refers to ("?" none), form "a" = its A-label (ASCII) spelling, "u" = the *)
(* U-label octets as they are, "x" = some other name                              *)
ObsQ(o, facts, q) ==
  Viol(o, IfV(o.cur.dom \in NoDoms, "LookupWithoutDomain")
          \cup IfV(q.qt = "MX" /\ o.cur.dom \in DOMAIN facts /\ ~(q.dom = o.cur.dom /\ q.form = "a"), "WrongQuestion"))

(* the target dials a host: d = [host, out, c] *)
ObsDial(o, facts, d) ==
  LET dom   == o.cur.dom
      kind  == KindOf(facts, dom)
      cands == Cands(facts, dom)
      tr    == Append(o.tried, [host |-> d.host, out |-> d.out])
      v == IF dom \notin DOMAIN facts THEN {"ConnectionWithoutDomain"}
           ELSE IF kind = "null" THEN {"ConnectedDespiteNullMX"}
           ELSE IF kind \in DnsTemp \cup {"nx"} THEN {"ConnectedDespiteLookupFailure"}
           ELSE IF d.host \notin {cands[i].host : i \in 1..Len(cands)} THEN {"ForeignHostDialled"}
           ELSE IfV(~Explains(tr, cands), "CandidateOrderBroken")
  IN [Viol(o, v \cup IfV(o.answered # "", "RetriedAfterDefinitiveAnswer"))
        EXCEPT !.tried = tr,
               !.conns = IF d.out \in NoServer THEN @ ELSE @ \cup {[host |-> d.host, c |-> d.c, dom |-> dom]}]

ConnDoms(o, host, c) == {x.dom : x \in {y \in o.conns : y.host = host /\ y.c = c}}

(* an MX host received MAIL on connection (host, c) and answers r *)
ObsMail(o, s) ==
  LET dom == o.cur.dom
  IN [Viol(o, IfV(ConnDoms(o, s.host, s.c) # {dom}, "ConnectionOfOtherDomainUsed")
              \cup IfV(s.r = "ok" /\ [m |-> o.m, dom |-> dom] \in o.mails, "SecondTransactionForDomain"))
        EXCEPT !.answered = s.r,
               !.mails = IF s.r = "ok" THEN @ \cup {[m |-> o.m, dom |-> dom]} ELSE @]

(* an MX host received RCPT for recipient [lp, dom] on connection (host, c) and answers r *)
ObsRcptCmd(o, s) ==
  [Viol(o, IfV(ConnDoms(o, s.host, s.c) # {s.dom}, "DomainsShareTransaction"))
     EXCEPT !.rr = IF [lp |-> s.lp, dom |-> s.dom] = o.cur THEN s.r ELSE @]

(* AddRcpt returned: r = [lp, dom, cls] *)
ObsRet(o, facts, r) ==
  LET kind  == KindOf(facts, r.dom)
      cands == Cands(facts, r.dom)
      outs  == {o.tried[i].out : i \in 1..Len(o.tried)}
      \* the call ended before any host was asked about the message
      connStage == kind \in {"mx", "nomx"} /\ o.answered = "" /\ o.rr = "" /\ r.cls # "ok"
      v == IfV(r.dom \in NoDoms /\ r.cls # "perm", "NoDomainNotRefused")
           \cup IfV(r.cls = "ok" /\ o.rr # "ok", "AcceptedButNotHanded")
           \cup IfV(kind = "null" /\ r.cls # "perm", "NullMXNotPermanent")
           \cup IfV(kind \in DnsTemp /\ r.cls = "perm", "DnsTempFailureBounced")
           \cup IfV(kind = "nx" /\ r.cls # "perm", "NxDomainNotPermanent")
           \cup IfV(connStage /\ "up" \notin outs /\ Len(o.tried) < Len(cands), "GaveUpEarly")
           \cup IfV(connStage /\ outs # {} /\ outs \subseteq TempOuts /\ r.cls = "perm", "TempFailureBounced")
           \cup IfV(connStage /\ outs # {} /\ outs \subseteq PermOuts /\ r.cls # "perm", "DefinitiveFailureDeferred")
           \cup IfV(o.rr = "" /\ ((o.answered = "m4" /\ r.cls \in {"perm", "ok"})
                                 \/ (o.answered = "m5" /\ r.cls # "perm")
                                 \/ (o.answered = "mdrop" /\ r.cls \in {"perm", "ok"})), "MailReplyMisclassified")
           \cup IfV((o.rr = "r4" /\ r.cls \in {"perm", "ok"}) \/ (o.rr = "r5" /\ r.cls # "perm"), "RcptReplyMisclassified")
  IN [Viol(o, v) EXCEPT !.acc = IF r.cls = "ok" THEN @ \cup {[lp |-> r.lp, dom |-> r.dom]} ELSE @,
                        !.cur = NoCur, !.tried = <<>>, !.answered = "", !.rr = ""]

(* an MX host received the complete content of a transaction: s = [host, c, rcpts (set of [lp, dom]), r] *)
ObsData(o, s) ==
  LET doms == ConnDoms(o, s.host, s.c)
      mine == {a \in o.acc : a.dom \in doms}
  IN [Viol(o, IfV(\E x \in s.rcpts : {x.dom} # doms, "DomainsShareTransaction")
              \cup IfV(~(mine \subseteq s.rcpts), "TransactionIncomplete")
              \cup IfV(\E x \in o.dots : x.dom \in doms, "SecondTransactionForDomain"))
        EXCEPT !.dots = @ \cup {[dom |-> d, r |-> s.r] : d \in doms}]

(* BodyNonAtomic returned: st = Seq([lp, dom, cls]) as collected *)
ObsBodyRet(o, st) ==
  LET N(a) == Cardinality({i \in 1..Len(st) : st[i].lp = a.lp /\ st[i].dom = a.dom})
      DotOf(d) == {x.r : x \in {y \in o.dots : y.dom = d}}
      Bad(s) == ("ok" \in DotOf(s.dom) /\ s.cls # "ok")
                \/ ("d4" \in DotOf(s.dom) /\ s.cls \in {"ok", "perm"})
                \/ ("d5" \in DotOf(s.dom) /\ s.cls # "perm")
  IN Viol(o, IfV(\E a \in o.acc : N(a) = 0, "StatusMissing")
             \cup IfV(\E a \in o.acc : N(a) > 1, "StatusDuplicated")
             \cup IfV(\E i \in 1..Len(st) : [lp |-> st[i].lp, dom |-> st[i].dom] \notin o.acc, "StatusForUnacceptedRcpt")
             \cup IfV(\E i \in 1..Len(st) : Bad(st[i]), "StatusMisclassified"))

ObsFin(o) == [o EXCEPT !.acc = {}, !.dots = {}, !.cur = NoCur]

(* Target.Close returned; open = connections the target opened and did not close *)
ObsEnd(o, open) == Viol(o, IfV(open > 0, "ConnectionLeaked"))

AllPredicates ==
  {"LookupWithoutDomain", "WrongQuestion", "ConnectionWithoutDomain", "ConnectedDespiteNullMX",
   "ConnectedDespiteLookupFailure", "ForeignHostDialled", "CandidateOrderBroken", "RetriedAfterDefinitiveAnswer",
   "ConnectionOfOtherDomainUsed", "SecondTransactionForDomain", "DomainsShareTransaction", "NoDomainNotRefused",
   "AcceptedButNotHanded", "NullMXNotPermanent", "DnsTempFailureBounced", "NxDomainNotPermanent", "GaveUpEarly",
   "TempFailureBounced", "DefinitiveFailureDeferred", "MailReplyMisclassified", "RcptReplyMisclassified",
   "TransactionIncomplete", "StatusMissing", "StatusDuplicated", "StatusForUnacceptedRcpt", "StatusMisclassified",
   "ConnectionLeaked"}
=============================================================================
