\* reference configuration; lib/checks/x15.py generates the ones it runs
SPECIFICATION TSpec
CONSTANTS
  Strs = {"s1", "s2", "s3"}
  Cfgs = {"T", "TC", "QN", "QD", "QP"}
  Pals = {"plain"}
  MaxSteps = 0
  Ops = {"Set", "Remove", "Lookup", "LookupMulti", "Keys", "Reopen"}
  Devs = {"NamedArgsDefaultNo"}
  Gen = FALSE
CHECK_DEADLOCK FALSE
POSTCONDITION Post
