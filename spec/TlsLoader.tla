------------------------------ MODULE TlsLoader ------------------------------
(***************************************************************************)
(* Design specification of tls.loader.file (internal/tls/file.go) behind   *)
(* the `tls file cert key [cert key]` directive: Init, the ticker          *)
(* goroutine (one reload per minute), the reload event (SIGUSR2 hook, run  *)
(* in the caller's goroutine), loadCerts() as the sequence of its file     *)
(* reads, Close (run by the shutdown hook), and an environment that edits  *)
(* the certificate and key files between ANY two of those reads.           *)
(*                                                                         *)
(* loadCerts() = for every configured pair: ReadFile(cert), ReadFile(key), *)
(* X509KeyPair (parse both, the key must be the certified one); any        *)
(* failure ends the round ("reload failed" is logged, nothing changes);    *)
(* after the last pair the slice of certificates is swapped in as a whole  *)
(* (action Inst).  One action per read, one for the swap.                  *)
(*                                                                         *)
(* Two threads run loadCerts(): T (ticker goroutine) and H (reload event). *)
(* Design: rounds are serialised (a thread that finds the other one inside *)
(* loadCerts waits).  Deviation of the code on HEAD (named, in Devs):      *)
(*   "LostUpdate"  nothing serialises the two: a round that read the files *)
(*                 BEFORE an edit may swap its (old) result in AFTER the   *)
(*                 reload event loaded and applied the new files - the     *)
(*                 reload event is undone until the next tick.             *)
(***************************************************************************)
EXTENDS TlsLoaderObs, TLC, Json

CONSTANTS MaxTime,    \* clock horizon (minutes)
          MaxEnv,     \* environment edits per behaviour
          MaxForce,   \* reload events per behaviour
          EnvKinds,   \* subset of {"dep","depk","renew","renewexp","renewnyv","inplace","rm","unread"} plus
                      \* "close" (Close may be called), "slow" (time may pass inside loadCerts)
          InitKinds,  \* subset of {"good","nocert","nokey","mismatch","half","unread","expired"}: the last pair at start-up
          Devs,
          Gen

VARIABLES now,
          disk,       \* [Files -> content]
          nver, nkey, \* versions / keys handed out
          dep,        \* [Pairs -> [f, c, st]]: the write that completes the deployment in progress ("" = none)
          life,       \* "new" | "run" | "failed" | "stopped"
          pc,         \* [Ths -> "idle" | "wait" | "rd" | "inst"]
          pos,        \* [Ths -> index into Order of the next file to read]
          acc,        \* [Ths -> certificates of the pairs loaded so far in this round]
          cur,        \* [Ths -> certificate read, waiting for its key]
          certs,      \* the slice ConfigureTLS hands out
          tickPending, closing, fp, lg,
          envLeft, forceLeft, devUsed, done,
          last, obs, hist

dvars == <<now, disk, nver, nkey, dep, life, pc, pos, acc, cur, certs, tickPending, closing, fp, lg,
           envLeft, forceLeft, devUsed, done>>
vars == <<dvars, last, obs, hist>>
View == <<dvars, obs>>

H(e) == IF Gen THEN Append(hist, e) ELSE hist
Emit(e) == last' = e /\ hist' = H(e)

NoDep == [f |-> "", c |-> NoC, st |-> ""]

InitDisk(kind) ==
  LET good == [f \in Files |-> LET i == IF f \in {"c1", "k1"} THEN 1 ELSE 2
                               IN IF IsCertF(f) THEN CertC(i, i, i, "ok") ELSE KeyC(i, i)]
      c == CertF(NPairs)
      k == KeyF(NPairs)
  IN CASE kind = "good"     -> good
       [] kind = "nocert"   -> [good EXCEPT ![c] = NoC]
       [] kind = "nokey"    -> [good EXCEPT ![k] = NoC]
       [] kind = "mismatch" -> [good EXCEPT ![k] = KeyC(NPairs, 9)]
       [] kind = "half"     -> [good EXCEPT ![c] = HalfC]
       [] kind = "unread"   -> [good EXCEPT ![k].un = TRUE]
       [] kind = "expired"  -> [good EXCEPT ![c].val = "exp"]

InitWith(d) ==
  /\ now = 0 /\ disk = d /\ nver = NPairs /\ nkey = NPairs
  /\ dep = [i \in Pairs |-> NoDep]
  /\ life = "new" /\ pc = [th \in Ths |-> "idle"] /\ pos = [th \in Ths |-> 1]
  /\ acc = [th \in Ths |-> <<>>] /\ cur = [th \in Ths |-> NoC] /\ certs = <<>>
  /\ tickPending = FALSE /\ closing = "no" /\ fp = 0 /\ lg = FALSE
  /\ envLeft = MaxEnv /\ forceLeft = MaxForce /\ devUsed = {} /\ done = FALSE
  /\ last = [a |-> "Cfg"] /\ obs = ObsInit(d) /\ hist = <<>>

Init == \E k \in InitKinds : InitWith(InitDisk(k))

Other(th) == IF th = "T" THEN "H" ELSE "T"
InRound(th) == pc[th] \in {"rd", "inst"}
AnyBusy == \E th \in Ths : pc[th] # "idle"
ParkedAt(p, q, th) == IF p[th] = "rd" THEN Order[q[th]] ELSE IF p[th] = "inst" THEN "inst" ELSE ""

LookOf(cs, p, q, f, c, l) ==
  [sv |-> SV(cs), parked |-> [th \in Ths |-> ParkedAt(p, q, th)], fp |-> f, cl |-> c, lg |-> l, pan |-> FALSE]

(***************************************************************************)
(* Init(): loadCerts() once, then the hook and the ticker goroutine.       *)
(***************************************************************************)
MInit ==
  /\ life = "new"
  /\ IF Complete(disk)
     THEN /\ life' = "run" /\ certs' = DiskCerts(disk)
          /\ Emit([a |-> "Init", res |-> "ok", d |-> disk])
     ELSE /\ life' = "failed" /\ UNCHANGED certs
          /\ Emit([a |-> "Init", res |-> "err", d |-> disk])
  /\ lg' = FALSE
  /\ UNCHANGED <<now, disk, nver, nkey, dep, pc, pos, acc, cur, tickPending, closing, fp,
                 envLeft, forceLeft, devUsed, done>>

(***************************************************************************)
(* Starting and ending a round of loadCerts().                             *)
(* p, q, a, c, du: the values of pc, pos, acc, cur, devUsed to start from. *)
(***************************************************************************)
Begin(th, p, q, a, c, du) ==
  LET busy == p[Other(th)] \in {"rd", "inst"}
      conc == busy /\ "LostUpdate" \in Devs
  IN /\ pc' = [p EXCEPT ![th] = IF busy /\ ~conc THEN "wait" ELSE "rd"]
     /\ pos' = [q EXCEPT ![th] = 1]
     /\ acc' = [a EXCEPT ![th] = <<>>]
     /\ cur' = [c EXCEPT ![th] = NoC]
     /\ devUsed' = IF conc THEN du \cup {"LostUpdate"} ELSE du

\* thread th leaves loadCerts(): a waiting thread enters; T goes back to its select
Leave(th, a) ==
  LET p1 == [pc EXCEPT ![th] = "idle", ![Other(th)] = IF @ = "wait" THEN "rd" ELSE @]
  IN IF th = "H"
     THEN /\ fp' = 0 /\ pc' = p1 /\ pos' = pos /\ acc' = a /\ cur' = cur /\ devUsed' = devUsed
          /\ UNCHANGED <<tickPending, closing, life>>
     ELSE /\ fp' = fp
          /\ \/ /\ closing = "called" /\ life' = "stopped" /\ closing' = "done"
                /\ pc' = p1 /\ pos' = pos /\ acc' = a /\ cur' = cur /\ devUsed' = devUsed
                /\ UNCHANGED tickPending
             \/ /\ tickPending /\ tickPending' = FALSE
                /\ Begin("T", p1, pos, a, cur, devUsed)
                /\ UNCHANGED <<closing, life>>
             \/ /\ closing # "called" /\ ~tickPending
                /\ pc' = p1 /\ pos' = pos /\ acc' = a /\ cur' = cur /\ devUsed' = devUsed
                /\ UNCHANGED <<tickPending, closing, life>>

(***************************************************************************)
(* The clock.  The ticker's channel holds one tick at most.                *)
(***************************************************************************)
Tick ==
  /\ life \in {"run", "stopped"} /\ now < MaxTime /\ ~done
  /\ (AnyBusy => "slow" \in EnvKinds)
  /\ now' = now + 1
  /\ IF life = "run" /\ closing = "no"
     THEN IF pc["T"] = "idle"
          THEN Begin("T", pc, pos, acc, cur, devUsed) /\ UNCHANGED tickPending
          ELSE tickPending' = TRUE /\ UNCHANGED <<pc, pos, acc, cur, devUsed>>
     ELSE UNCHANGED <<pc, pos, acc, cur, devUsed, tickPending>>
  /\ lg' = FALSE
  /\ Emit([a |-> "Tick"])
  /\ UNCHANGED <<disk, nver, nkey, dep, life, certs, closing, fp, envLeft, forceLeft, done>>

(***************************************************************************)
(* The environment: one writer per pair, whose deployments do not overlap. *)
(***************************************************************************)
EnvOK(kind) == life = "run" /\ ~done /\ envLeft > 0 /\ kind \in EnvKinds
EnvFrame == /\ envLeft' = envLeft - 1 /\ lg' = FALSE
            /\ UNCHANGED <<now, life, pc, pos, acc, cur, certs, tickPending, closing, fp, forceLeft, devUsed, done>>
Put(kind, f, c) == disk' = [disk EXCEPT ![f] = c] /\ Emit([a |-> "EPut", kind |-> kind, f |-> f, c |-> c])
Idle(i) == dep[i].f = ""

\* a new certificate for a new key, each file replaced atomically (rename), certificate first ...
EDep(i) ==
  /\ EnvOK("dep") /\ Idle(i)
  /\ Put("dep", CertF(i), CertC(i, nver + 1, nkey + 1, "ok"))
  /\ dep' = [dep EXCEPT ![i] = [f |-> KeyF(i), c |-> KeyC(i, nkey + 1), st |-> "dep"]]
  /\ nver' = nver + 1 /\ nkey' = nkey + 1 /\ EnvFrame
\* ... or key first
EDepK(i) ==
  /\ EnvOK("depk") /\ Idle(i)
  /\ Put("depk", KeyF(i), KeyC(i, nkey + 1))
  /\ dep' = [dep EXCEPT ![i] = [f |-> CertF(i), c |-> CertC(i, nver + 1, nkey + 1, "ok"), st |-> "dep"]]
  /\ nver' = nver + 1 /\ nkey' = nkey + 1 /\ EnvFrame
\* the second file of the deployment / the rest of an in-place write
EFinish(i) ==
  /\ life = "run" /\ ~done /\ envLeft > 0 /\ ~Idle(i)
  /\ Put("finish", dep[i].f, dep[i].c)
  /\ dep' = [dep EXCEPT ![i] = NoDep]
  /\ UNCHANGED <<nver, nkey>> /\ EnvFrame
\* renewal that keeps the key (one atomic replacement); the new certificate may be expired / not valid yet
ERenew(i, val) ==
  /\ EnvOK(CASE val = "ok" -> "renew" [] val = "exp" -> "renewexp" [] OTHER -> "renewnyv")
  /\ Idle(i) /\ PairOK(disk[CertF(i)], disk[KeyF(i)])
  /\ Put("renew", CertF(i), CertC(i, nver + 1, disk[KeyF(i)].key, val))
  /\ nver' = nver + 1 /\ UNCHANGED <<nkey, dep>> /\ EnvFrame
\* the same renewal written in place: truncate, (write a part,) write the rest
ETrunc(i) ==
  /\ EnvOK("inplace") /\ Idle(i) /\ PairOK(disk[CertF(i)], disk[KeyF(i)])
  /\ Put("trunc", CertF(i), EmptyC)
  /\ dep' = [dep EXCEPT ![i] = [f |-> CertF(i), c |-> CertC(i, nver + 1, disk[KeyF(i)].key, "ok"), st |-> "inplace"]]
  /\ nver' = nver + 1 /\ UNCHANGED nkey /\ EnvFrame
EPart(i) ==
  /\ EnvOK("inplace") /\ dep[i].st = "inplace" /\ disk[CertF(i)].k = "empty"
  /\ Put("part", CertF(i), HalfC)
  /\ UNCHANGED <<nver, nkey, dep>> /\ EnvFrame
ERm(f) ==
  /\ EnvOK("rm") /\ disk[f].k # "none" /\ Idle(PairOfF(f))
  /\ Put("rm", f, NoC)
  /\ UNCHANGED <<nver, nkey, dep>> /\ EnvFrame
EUnread(f) ==
  /\ EnvOK("unread") /\ disk[f].k # "none" /\ Idle(PairOfF(f))
  /\ Put("unread", f, [disk[f] EXCEPT !.un = ~@])
  /\ UNCHANGED <<nver, nkey, dep>> /\ EnvFrame

Env == \/ \E i \in Pairs : EDep(i) \/ EDepK(i) \/ EFinish(i) \/ ETrunc(i) \/ EPart(i)
                             \/ \E val \in {"ok", "exp", "nyv"} : ERenew(i, val)
       \/ \E f \in Files : ERm(f) \/ EUnread(f)

(***************************************************************************)
(* loadCerts(), one action per file read, one for the swap.                *)
(***************************************************************************)
RFrame == UNCHANGED <<now, disk, nver, nkey, dep, envLeft, forceLeft, done>>

ReadRes(c) == IF c.k = "none" THEN "noent" ELSE IF c.un THEN "err" ELSE "ok"

Read(th) ==
  /\ pc[th] = "rd"
  /\ LET f == Order[pos[th]]
         c == disk[f]
         res == ReadRes(c)
         fail == IF IsCertF(f) THEN res # "ok" ELSE (res # "ok" \/ ~PairOK(cur[th], c))
     IN /\ Emit([a |-> "Read", th |-> th, f |-> f, res |-> res, c |-> IF res = "ok" THEN c ELSE NoC])
        /\ lg' = fail
        /\ UNCHANGED certs
        /\ IF fail
           THEN Leave(th, acc)
           ELSE /\ IF IsCertF(f)
                   THEN /\ cur' = [cur EXCEPT ![th] = c] /\ acc' = acc
                        /\ pos' = [pos EXCEPT ![th] = @ + 1] /\ pc' = pc
                   ELSE /\ acc' = [acc EXCEPT ![th] = Append(@, cur[th])] /\ cur' = cur
                        /\ IF pos[th] = Len(Order)
                           THEN pc' = [pc EXCEPT ![th] = "inst"] /\ pos' = pos
                           ELSE pc' = pc /\ pos' = [pos EXCEPT ![th] = @ + 1]
                /\ UNCHANGED <<devUsed, tickPending, closing, life, fp>>
  /\ RFrame

Inst(th) ==
  /\ pc[th] = "inst"
  /\ certs' = acc[th]
  /\ lg' = FALSE
  /\ Emit([a |-> "Inst", th |-> th])
  /\ Leave(th, acc)
  /\ RFrame

(***************************************************************************)
(* The API: reload event (SIGUSR2 -> hooks.RunHooks(EventReload)), Close.  *)
(***************************************************************************)
EForce ==
  /\ life = "run" /\ closing = "no" /\ fp = 0 /\ forceLeft > 0 /\ ~done
  /\ forceLeft' = forceLeft - 1 /\ fp' = 1 /\ lg' = FALSE
  /\ Begin("H", pc, pos, acc, cur, devUsed)
  /\ Emit([a |-> "Force"])
  /\ UNCHANGED <<now, disk, nver, nkey, dep, life, certs, tickPending, closing, envLeft, done>>

EClose ==
  /\ life = "run" /\ closing = "no" /\ ~done /\ "close" \in EnvKinds
  /\ IF pc["T"] = "idle" THEN life' = "stopped" /\ closing' = "done"
     ELSE closing' = "called" /\ UNCHANGED life
  /\ lg' = FALSE
  /\ Emit([a |-> "Close"])
  /\ UNCHANGED <<now, disk, nver, nkey, dep, pc, pos, acc, cur, certs, tickPending, fp, envLeft, forceLeft, devUsed, done>>

End ==
  /\ life # "new" /\ ~AnyBusy /\ ~done
  /\ (~Gen \/ now = MaxTime \/ life = "failed" \/ closing = "done")
  /\ done' = TRUE /\ lg' = FALSE
  /\ Emit([a |-> "End"])
  /\ UNCHANGED <<now, disk, nver, nkey, dep, life, pc, pos, acc, cur, certs, tickPending, closing, fp,
                 envLeft, forceLeft, devUsed>>

Act == MInit \/ Tick \/ Env \/ (\E th \in Ths : Read(th) \/ Inst(th)) \/ EForce \/ EClose \/ End

\* every step is followed by a complete probe
Fold(o, e) == ObsLook(ObsEv(o, e.a, e), LookOf(certs', pc', pos', fp', closing', lg'))

Next ==
  \/ /\ (Gen => obs.viol = {})
     /\ Act
     /\ obs' = IF life' = "failed" \/ last'.a = "End" THEN ObsEv(obs, last'.a, last') ELSE Fold(obs, last')
     /\ IF Gen /\ (done' \/ obs'.viol # {})
        THEN PrintT(<<"BEH", ToJson([cfg |-> [NPairs |-> NPairs, disk |-> hist'[1].d], hist |-> hist', viol |-> obs'.viol])>>)
        ELSE TRUE
  \/ (done /\ ~Gen /\ UNCHANGED vars)

Spec == Init /\ [][Next]_vars

NoViolation == obs.viol = {}
TypeOK == /\ life \in {"new", "run", "failed", "stopped"}
          /\ \A th \in Ths : pc[th] \in {"idle", "wait", "rd", "inst"} /\ pos[th] \in 1..Len(Order)
          /\ closing \in {"no", "called", "done"} /\ fp \in 0..1
          /\ envLeft \in 0..MaxEnv /\ forceLeft \in 0..MaxForce /\ now \in 0..MaxTime
\* design-level facts the predicates rest on
ServedIsComplete == \A j \in 1..Len(certs) : [i |-> j, v |-> certs[j].v] \in obs.seen
NeverWild == ~obs.wild
NeverEmptyOnceRunning == life \in {"run", "stopped"} => Len(certs) = NPairs
=============================================================================
