--------------------------- MODULE SqlTableTrace ---------------------------
(***************************************************************************)
(* Trace validation for SqlTable.tla.  trace.ndjson: the calls made on the *)
(* real table.sql_table / table.sql_query (sqlite3) and their results,     *)
(* many traces concatenated; "Cfg" starts a trace, "End" ends it.  A line  *)
(* is consumed by the design action with the logged arguments whose result *)
(* is the logged result (C_Step), otherwise by the monitor-only step       *)
(* M_Step (drift); obs is folded from the logged events in both cases.     *)
(***************************************************************************)
EXTENDS SqlTable

Trace == ndJsonDeserialize("trace.ndjson")

VARIABLES l, drift, driftAt, tno
tvars == <<vars, l, drift, driftAt, tno>>

Ev == Trace[l]
IsEv(e) == l <= Len(Trace) /\ Ev.e = e

\* the recorded event in the vocabulary of ObsEv
Rec == IF Ev.e = "Keys" THEN [a |-> "Keys", ks |-> Ev.ks, res |-> Ev.res]
       ELSE [f \in (DOMAIN Ev \ {"t", "seq", "e", "raw"}) \cup {"a"} |-> IF f = "a" THEN Ev.e ELSE Ev[f]]

Publish(d, da, o) == TLCSet(1, TLCGet(1) \cup {[t |-> tno, drift |-> d, driftAt |-> da, viol |-> o.viol]})

TInit ==
  /\ cfg = "-" /\ pal = "-" /\ m = EmptyMap /\ n = 0 /\ done = TRUE
  /\ last = [a |-> "Cfg"] /\ obs = ObsInit /\ hist = <<>>
  /\ l = 1 /\ drift = FALSE /\ driftAt = 0 /\ tno = 0
  /\ TLCSet(1, {})

TReset ==
  /\ IsEv("Cfg")
  /\ cfg' = Ev.cfg /\ pal' = Ev.pal /\ m' = EmptyMap /\ n' = 0 /\ done' = FALSE
  /\ last' = [a |-> "Cfg"] /\ obs' = ObsInit /\ hist' = <<>>
  /\ l' = l + 1 /\ drift' = FALSE /\ driftAt' = 0 /\ tno' = Ev.t

MatchEv(e) ==
  /\ e.a = Ev.e
  /\ IF e.a = "Keys" THEN Ev.res = "ok" /\ ToSet(Ev.ks) = ToSet(e.ks) /\ Len(Ev.ks) = Len(e.ks)
     ELSE \A f \in (DOMAIN e \ {"a"}) : f \in DOMAIN Ev /\ e[f] = Ev[f]

Conform ==
  /\ l <= Len(Trace) /\ Ev.e \notin {"Cfg", "End"}
  /\ Act /\ MatchEv(last')

C_Step ==
  /\ ~drift /\ Conform
  /\ n' = n /\ UNCHANGED <<cfg, pal, done>>
  /\ l' = l + 1 /\ UNCHANGED <<drift, driftAt, tno>>

C_End ==
  /\ ~drift /\ IsEv("End")
  /\ done' = TRUE /\ UNCHANGED <<cfg, pal, m, n, obs, last, hist>>
  /\ l' = l + 1 /\ UNCHANGED <<drift, driftAt, tno>>
  /\ Publish(FALSE, 0, obs)

M_Step ==
  /\ l <= Len(Trace) /\ Ev.e # "Cfg"
  /\ (drift \/ (Ev.e # "End" /\ ~ENABLED Conform))
  /\ drift' = TRUE
  /\ driftAt' = IF drift THEN driftAt ELSE Ev.seq
  /\ obs' = IF Ev.e = "End" THEN obs ELSE ObsEv(obs, Rec)
  /\ l' = l + 1
  /\ UNCHANGED <<dvars, last, hist, tno>>
  /\ IF Ev.e = "End" THEN Publish(TRUE, driftAt', obs') ELSE TRUE

TNext == TReset \/ C_Step \/ C_End \/ M_Step
TSpec == TInit /\ [][TNext]_tvars

Post == PrintT(<<"VERDICTS", ToJson(TLCGet(1))>>)
=============================================================================
