\* X09 exhaustive table ext (reference; lib/checks/x09.py renders the same text)
SPECIFICATION Spec
CONSTANTS
  Layer = "ext"
  Devs = {}
  Gen = FALSE
INVARIANTS RuleSatisfiesProp
CHECK_DEADLOCK FALSE
