----------------------------- MODULE CfgMapReg -----------------------------
(***************************************************************************)
(* X08, layer "r": module instances and references                         *)
(* (docs/reference/modules.md; framework/config/module/modconfig.go        *)
(* ModuleFromNode; framework/module/instances.go; maddy.go RegisterModules *)
(* and the unused-block test of initModules).                              *)
(*                                                                         *)
(* One row is a complete configuration text (rendered here): optional      *)
(* global directives, top-level configuration blocks of the harness'       *)
(* stub modules (names, aliases, a body of directives among which          *)
(* references to other blocks) and one endpoint block whose directives     *)
(* reference modules: "&name" (an existing block) or a module name with    *)
(* arguments and an inline block.  %U in a name is a placeholder the       *)
(* harness replaces by a per-row prefix (the registry of maddy is a        *)
(* process-wide table).                                                    *)
(*                                                                         *)
(*   Defects(in)    declarative: what the documentation says is wrong      *)
(*   Prop(in, out)  a configuration is refused iff it has a defect, the    *)
(*                  error identifies one; an accepted configuration has    *)
(*                  every reference resolved to the one block of that      *)
(*                  name, a fresh instance per inline definition, every    *)
(*                  instance initialised exactly once with its own         *)
(*                  directives and the inherited globals                   *)
(*   Rule(in)       operational: register the blocks in order, initialise  *)
(*                  the endpoint, initialise referenced blocks lazily,     *)
(*                  then look for unused blocks                            *)
(***************************************************************************)
EXTENDS Integers, Sequences, FiniteSets, TLC, Json, SequencesExt

CONSTANTS
  MaxBlocks,  \* up to this many top-level stub blocks
  MaxUses,    \* up to this many referencing directives in the endpoint block
  Gen

VARIABLE in
vars == <<in>>

-----------------------------------------------------------------------------
(* the modules the harness registers (module.Register) and what they are    *)
RegMods == {"verif.stub", "verif.plain", "table.verif_stub", "table.verif_plain", "target.verif_stub",
            "check.verif_stub", "verif_gstub"}
PlainMods == {"verif.plain", "table.verif_plain"}     \* implement module.Module only
Dotted == {"verif.stub", "verif.plain", "table.verif_stub", "nosuch.mod", "table.verif_plain"}
(* namespace implied by the referencing directive (modconfig: "table", "target", "check";  *)
(* the harness' own directive "use" implies "verif")                                       *)
NsOf(dir) == CASE dir = "use" -> "verif" [] dir = "table" -> "table" [] dir = "target" -> "target" [] OTHER -> "check"
(* modules.md: the namespace prefix "can be omitted when you reference the module where it is *)
(* used since it can be implied"; modconfig: the prefixed name is preferred, then the name    *)
(* as written                                                                                 *)
Resolved(ns, s) ==
  IF s \in Dotted THEN (IF s \in RegMods THEN s ELSE "")
  ELSE IF (ns \o "." \o s) \in RegMods THEN ns \o "." \o s
  ELSE IF s \in RegMods THEN s ELSE ""
NameGiven(ns, s) == IF s \in Dotted THEN s ELSE ns \o "." \o s    \* (from the code) what the factory is told

-----------------------------------------------------------------------------
(* Rows                                                                      *)
BN(d, a) == [d |-> d, a |-> a]         \* body directive: val x / hostname h / fail / dep &N / bogus
Blk(mod, names, body) == [mod |-> mod, names |-> names, body |-> body]
(* use: dir; form "ref" (target = block name, extra in none/arg/empty/body) or "inline"     *)
(* (target = module spelling, args, blk in none/empty/body, body) or "noargs"               *)
Ref(dir, name, extra) == [dir |-> dir, form |-> "ref", target |-> name, extra |-> extra, args |-> <<>>, body |-> <<>>]
Inl(dir, mod, args, blk, body) == [dir |-> dir, form |-> "inline", target |-> mod, extra |-> blk, args |-> args, body |-> body]
NoArgs(dir) == [dir |-> dir, form |-> "noargs", target |-> "", extra |-> "none", args |-> <<>>, body |-> <<>>]
(* gl: hostname ("" = not given), debug ("unset"/"yes"/"no"); epos: number of blocks before *)
(* the endpoint block (-1: no endpoint)                                                      *)
Row(tab, host, debug, blocks, epos, uses) ==
  [tab |-> tab, host |-> host, debug |-> debug, blocks |-> blocks, epos |-> epos, uses |-> uses]

N(s) == "%U" \o s
BodyTxt(b, ind) ==
  ind \o (CASE b.d = "fail" -> "fail" [] b.d = "dep" -> "dep &" \o N(b.a) [] OTHER -> b.d \o " " \o b.a)
RECURSIVE JoinNames(_)
JoinNames(ns) == IF ns = <<>> THEN "" ELSE " " \o N(Head(ns)) \o JoinNames(Tail(ns))
RECURSIVE JoinArgs(_)
JoinArgs(a) == IF a = <<>> THEN "" ELSE " " \o Head(a) \o JoinArgs(Tail(a))
BlkLines(b) == <<b.mod \o JoinNames(b.names) \o " {">> \o [k \in 1..Len(b.body) |-> BodyTxt(b.body[k], "    ")] \o <<"}">>
UseLines(u) ==
  LET head == "    " \o u.dir \o
              (CASE u.form = "ref" -> " &" \o N(u.target) [] u.form = "inline" -> " " \o u.target \o JoinArgs(u.args)
                 [] OTHER -> "")
  IN CASE u.extra = "none" -> <<head>>
       [] u.extra = "arg" -> <<head \o " extra">>
       [] u.extra = "empty" -> <<head \o " { }">>
       [] OTHER -> <<head \o " {">> \o [k \in 1..Len(u.body) |-> BodyTxt(u.body[k], "        ")] \o <<"    }">>
RECURSIVE Flat(_)
Flat(ss) == IF ss = <<>> THEN <<>> ELSE Head(ss) \o Flat(Tail(ss))
EndpLines(i) == <<"verif_endp " \o N("E") \o " {">> \o Flat([u \in 1..Len(i.uses) |-> UseLines(i.uses[u])]) \o <<"}">>
GlobLines(i) == (IF i.host # "" THEN <<"hostname " \o i.host>> ELSE <<>>) \o
                (IF i.debug # "unset" THEN <<"debug " \o i.debug>> ELSE <<>>)
(* top-level units in text order: 0 = the endpoint block, k = block k *)
Units(i) == IF i.epos < 0 THEN [k \in 1..Len(i.blocks) |-> k]
            ELSE [k \in 1..(Len(i.blocks) + 1) |-> IF k <= i.epos THEN k ELSE IF k = i.epos + 1 THEN 0 ELSE k - 1]
UnitLines(i, x) == IF x = 0 THEN EndpLines(i) ELSE BlkLines(i.blocks[x])
AllLines(i) == GlobLines(i) \o Flat([k \in 1..Len(Units(i)) |-> UnitLines(i, Units(i)[k])])
RECURSIVE JoinLines(_)
JoinLines(ls) == IF ls = <<>> THEN "" ELSE Head(ls) \o "\n" \o JoinLines(Tail(ls))
TextOf(i) == JoinLines(AllLines(i))

(* line numbers *)
RECURSIVE SumLen(_, _, _)
SumLen(i, us, n) == IF n = 0 THEN 0 ELSE Len(UnitLines(i, us[n])) + SumLen(i, us, n - 1)
UnitPos(i, x) == CHOOSE k \in 1..Len(Units(i)) : Units(i)[k] = x
HeaderLine(i, x) == Len(GlobLines(i)) + SumLen(i, Units(i), UnitPos(i, x) - 1) + 1
BodyLine(i, x, j) == HeaderLine(i, x) + j
RECURSIVE UseOff(_, _)
UseOff(i, u) == IF u = 1 THEN 0 ELSE Len(UseLines(i.uses[u - 1])) + UseOff(i, u - 1)
UseLine(i, u) == HeaderLine(i, 0) + 1 + UseOff(i, u)
UseBodyLine(i, u, j) == UseLine(i, u) + j

-----------------------------------------------------------------------------
(* outputs                                                                   *)
(* err: stage "register" / "init" / "unused" ("none"); line 0 = the message has no location;   *)
(* mentions: names of blocks / modules / directives of the row found in the message            *)
MkErr(stage, line, mentions) == [is |-> TRUE, stage |-> stage, line |-> line, mentions |-> mentions]
NoErr == [is |-> FALSE, stage |-> "none", line |-> 0, mentions |-> {}]
(* an object made by a module factory: fac = name the factory is registered under, mod = name  *)
(* it was given, inst / aliases / args as given, inits = number of Init calls, and what Init    *)
(* read: val, hostname, debug                                                                  *)
Obj(fac, mod, inst, aliases, args) ==
  [fac |-> fac, mod |-> mod, inst |-> inst, aliases |-> aliases, args |-> args, inits |-> 0,
   val |-> "", hostname |-> "", debug |-> FALSE]

-----------------------------------------------------------------------------
(* Declarative part: defects                                                 *)
BlockNames(i) == UNION {Range(i.blocks[k].names) : k \in 1..Len(i.blocks)}
Owner(i, name) == CHOOSE k \in 1..Len(i.blocks) : name \in Range(i.blocks[k].names)
(* every name (instance name or alias) of every block, with multiplicity *)
RECURSIVE SumSeqN(_)
SumSeqN(s) == IF s = <<>> THEN 0 ELSE Head(s) + SumSeqN(Tail(s))
NameOcc(i, name) == SumSeqN([k \in 1..Len(i.blocks) |-> Cardinality({j \in 1..Len(i.blocks[k].names) : i.blocks[k].names[j] = name})])

Defect(cls, line, name, hard) == [cls |-> cls, line |-> line, name |-> name, hard |-> hard]

(* body directives: an unknown directive, a repeated one, a failing Init, a reference *)
BodyDefects(i, body, lineOf(_), ns) ==
  UNION {
    LET b == body[j] IN
    (IF b.d = "bogus" THEN {Defect("directive", lineOf(j), "bogus", TRUE)} ELSE {}) \cup
    (IF b.d = "fail" THEN {Defect("initfail", 0, "fail", TRUE), Defect("initfail", lineOf(j), "fail", TRUE)} ELSE {}) \cup
    (IF b.d \in {"val", "hostname"} /\ \E j2 \in 1..(j - 1) : body[j2].d = b.d
       THEN {Defect("directive", lineOf(j), b.d, TRUE)} ELSE {}) \cup
    (IF b.d = "dep" /\ b.a \notin BlockNames(i)
       THEN {Defect("undefined", 0, b.a, TRUE), Defect("undefined", lineOf(j), b.a, TRUE)} ELSE {}) \cup
    (IF b.d = "dep" /\ b.a \in BlockNames(i) /\ i.blocks[Owner(i, b.a)].mod \in PlainMods
       THEN {Defect("interface", lineOf(j), b.a, TRUE)} ELSE {})
    : j \in 1..Len(body)}

(* reachability: blocks referenced (transitively) from the endpoint *)
DepsOf(i, k) == {Owner(i, b.a) : b \in {i.blocks[k].body[j] : j \in {x \in 1..Len(i.blocks[k].body) :
                      i.blocks[k].body[x].d = "dep" /\ i.blocks[k].body[x].a \in BlockNames(i)}}}
Roots(i) == {Owner(i, i.uses[u].target) : u \in {x \in 1..Len(i.uses) : i.uses[x].form = "ref" /\ i.uses[x].target \in BlockNames(i)}} \cup
            UNION {{Owner(i, i.uses[u].body[j].a) : j \in {x \in 1..Len(i.uses[u].body) :
                       i.uses[u].body[x].d = "dep" /\ i.uses[u].body[x].a \in BlockNames(i)}} : u \in 1..Len(i.uses)}
RECURSIVE Reach(_, _)
Reach(i, S) == LET T == S \cup UNION {DepsOf(i, k) : k \in S} IN IF T = S THEN S ELSE Reach(i, T)

UseDefects(i, u) ==
  LET use == i.uses[u]
      ln == UseLine(i, u)
      ns == NsOf(use.dir)
  IN
  CASE use.form = "noargs" -> {Defect("usage", ln, "", TRUE)}
    [] use.form = "ref" ->
         (IF use.extra \in {"arg", "body"} THEN {Defect("usage", ln, use.target, TRUE)} ELSE {}) \cup
         \* "In most cases, an empty block is equivalent to no block"
         (IF use.extra = "empty" THEN {Defect("usage", ln, use.target, FALSE)} ELSE {}) \cup
         (IF use.target \notin BlockNames(i)
            THEN {Defect("undefined", 0, use.target, TRUE), Defect("undefined", ln, use.target, TRUE)}
            ELSE IF i.blocks[Owner(i, use.target)].mod \in PlainMods
                 THEN {Defect("interface", ln, use.target, TRUE)} ELSE {})
    [] OTHER ->
         LET m == Resolved(ns, use.target) IN
         IF m = "" THEN {Defect("nomodule", 0, use.target, TRUE), Defect("nomodule", ln, use.target, TRUE)}
         ELSE IF m \in PlainMods THEN {Defect("interface", ln, use.target, TRUE)}
         ELSE BodyDefects(i, use.body, LAMBDA j : UseBodyLine(i, u, j), ns)

Defects(i) ==
  LET nb == Len(i.blocks) IN
  \* an unknown module name at the top level
  {Defect("nomodule", HeaderLine(i, k), i.blocks[k].mod, TRUE) : k \in {x \in 1..nb : i.blocks[x].mod \notin RegMods}} \cup
  \* "All names must be unique"
  UNION {{Defect("duplicate", HeaderLine(i, k), nm, TRUE) :
            nm \in {x \in BlockNames(i) : NameOcc(i, x) >= 2 /\ x \in Range(i.blocks[k].names)}} : k \in 1..nb} \cup
  \* no endpoint
  (IF i.epos < 0 THEN {Defect("noendpoint", 0, "", TRUE)} ELSE {}) \cup
  UNION {UseDefects(i, u) : u \in 1..Len(i.uses)} \cup
  UNION {BodyDefects(i, i.blocks[k].body, LAMBDA j : BodyLine(i, k, j), "verif") : k \in 1..nb} \cup
  \* a block nothing refers to
  {Defect("unused", HeaderLine(i, k), i.blocks[k].names[1], TRUE) : k \in (1..nb) \ Reach(i, Roots(i))}
HardDefects(i) == {d \in Defects(i) : d.hard}

(* what an accepted configuration must look like *)
BodyVal(body, d, dflt) == IF \E j \in 1..Len(body) : body[j].d = d
                          THEN body[CHOOSE j \in 1..Len(body) : body[j].d = d].a ELSE dflt
CfgOK(i, o, body) ==
  /\ o.inits = 1
  /\ o.val = BodyVal(body, "val", "dflt")
  /\ o.hostname = BodyVal(body, "hostname", i.host)
  /\ o.debug = (i.debug = "yes")
Accepted(i, out) ==
  LET nb == Len(i.blocks)
      \* the object of block k: the one registered under its instance name
      objOf(k) == {x \in 1..Len(out.objs) : out.objs[x].inst = i.blocks[k].names[1]}
  IN
  /\ Len(out.uses) = Len(i.uses)
  \* one object per block, created with its names
  /\ \A k \in 1..nb : /\ Cardinality(objOf(k)) = 1
                      /\ LET o == out.objs[CHOOSE x \in objOf(k) : TRUE] IN
                         /\ o.fac = i.blocks[k].mod /\ o.mod = i.blocks[k].mod
                         /\ o.aliases = Tail(i.blocks[k].names) /\ o.args = <<>>
                         /\ CfgOK(i, o, i.blocks[k].body)
  /\ \A u \in 1..Len(i.uses) :
       LET use == i.uses[u]
           x == out.uses[u]
       IN /\ x \in 1..Len(out.objs)
          /\ IF use.form = "ref"
             THEN \* "&name" is the one block of that name (or alias)
                  x \in objOf(Owner(i, use.target))
             ELSE \* an inline definition is an instance of its own: no name, its arguments, its block
                  /\ \A k \in 1..nb : x \notin objOf(k)
                  /\ \A u2 \in 1..Len(i.uses) : u2 # u => out.uses[u2] # x
                  /\ out.objs[x].fac = Resolved(NsOf(use.dir), use.target)
                  /\ out.objs[x].inst = "" /\ out.objs[x].aliases = <<>> /\ out.objs[x].args = use.args
                  /\ CfgOK(i, out.objs[x], use.body)
  \* nothing else was made
  /\ Len(out.objs) = nb + Cardinality({u \in 1..Len(i.uses) : i.uses[u].form = "inline"})

PredNames == {"NoPanic", "RefusedIffDefect", "ErrorNamesDefect", "AcceptedAsDocumented"}
Holds(n, i, o) ==
  CASE n = "NoPanic" -> ~o.panic
    [] n = "RefusedIffDefect" ->
         ~o.panic => /\ (HardDefects(i) # {} => o.err.is)
                     /\ (Defects(i) = {} => ~o.err.is)
    [] n = "ErrorNamesDefect" ->
         (~o.panic /\ o.err.is) =>
            \E d \in Defects(i) : \/ (d.line # 0 /\ d.line = o.err.line)
                                  \/ (d.line = 0 /\ o.err.line = 0 /\ (d.name = "" \/ d.name \in o.err.mentions))
    [] n = "AcceptedAsDocumented" -> (~o.panic /\ ~o.err.is /\ HardDefects(i) = {}) => Accepted(i, o)
Viol(i, o) == {n \in PredNames : ~Holds(n, i, o)}
Prop(i, o) == Viol(i, o) = {}

-----------------------------------------------------------------------------
(* Operational part: the documented procedure                                *)
(* state: err, objs (creation order, with blk = index of the block, 0 for    *)
(* inline), reg (instance name -> object), alias (alias -> instance name),   *)
(* inited, order (objects in the order their Init began), uses, ret          *)
St0 == [err |-> NoErr, objs |-> <<>>, reg |-> <<>>, alias |-> <<>>, inited |-> {}, order |-> <<>>, uses |-> <<>>, ret |-> 0]
Fail(st, e) == [st EXCEPT !.err = e]
WithBlk(o, k) == [fac |-> o.fac, mod |-> o.mod, inst |-> o.inst, aliases |-> o.aliases, args |-> o.args, inits |-> o.inits,
                  val |-> o.val, hostname |-> o.hostname, debug |-> o.debug, blk |-> k]
Has(st, name) == name \in DOMAIN st.reg \/ name \in DOMAIN st.alias

RECURSIVE RegAliases(_, _, _, _, _)
RegAliases(i, x, inst, as, st) ==
  IF as = <<>> \/ st.err.is THEN st
  ELSE IF Has(st, Head(as)) THEN Fail(st, MkErr("register", HeaderLine(i, x), {Head(as)}))
  ELSE RegAliases(i, x, inst, Tail(as), [st EXCEPT !.alias = (Head(as) :> inst) @@ @])

RECURSIVE RegBlocks(_, _, _)
RegBlocks(i, p, st) ==
  IF p > Len(Units(i)) \/ st.err.is THEN st
  ELSE LET x == Units(i)[p] IN
    IF x = 0 THEN RegBlocks(i, p + 1, st)
    ELSE LET b == i.blocks[x]
             inst == b.names[1]
         IN IF b.mod \notin RegMods THEN Fail(st, MkErr("register", HeaderLine(i, x), {b.mod}))
            ELSE IF Has(st, inst) THEN Fail(st, MkErr("register", HeaderLine(i, x), {inst}))
            ELSE LET st1 == [st EXCEPT !.objs = Append(@, WithBlk(Obj(b.mod, b.mod, inst, Tail(b.names), <<>>), x)),
                                        !.reg = (inst :> (Len(st.objs) + 1)) @@ @]
                 IN RegBlocks(i, p + 1, RegAliases(i, x, inst, Tail(b.names), st1))

RECURSIVE InitObj(_, _, _, _, _), GetInst(_, _, _), RunBody(_, _, _, _, _, _)
BLines(i, k) == [j \in 1..Len(i.blocks[k].body) |-> BodyLine(i, k, j)]
ULines(i, u) == [j \in 1..Len(i.uses[u].body) |-> UseBodyLine(i, u, j)]
(* module.GetInstance: resolve the alias, initialise on first use ("Break circular dependencies":   *)
(* an instance whose Init is running is handed out as it is)                                       *)
GetInst(i, name, st) ==
  LET inst == IF name \in DOMAIN st.alias THEN st.alias[name] ELSE name IN
  IF inst \notin DOMAIN st.reg THEN Fail(st, MkErr("init", 0, {name}))
  ELSE LET x == st.reg[inst] IN
       IF x \in st.inited THEN [st EXCEPT !.ret = x]
       ELSE LET k == st.objs[x].blk
                st1 == InitObj(i, x, i.blocks[k].body, BLines(i, k), st)
            IN [st1 EXCEPT !.ret = x]

(* the stub's Init: Process over its block (directives in order), then the fail flag *)
RunBody(i, x, body, lineOf, j, st) ==
  IF st.err.is THEN st
  ELSE IF j > Len(body) THEN
    IF \E q \in 1..Len(body) : body[q].d = "fail" THEN Fail(st, MkErr("init", 0, {"fail"})) ELSE st
  ELSE LET b == body[j] IN
    CASE b.d = "bogus" -> Fail(st, MkErr("init", lineOf[j], {"bogus"}))
      [] b.d \in {"val", "hostname"} ->
           IF \E q \in 1..(j - 1) : body[q].d = b.d THEN Fail(st, MkErr("init", lineOf[j], {b.d}))
           ELSE RunBody(i, x, body, lineOf, j + 1, st)
      [] b.d = "dep" ->
           LET st1 == GetInst(i, b.a, st) IN
           IF st1.err.is THEN st1
           ELSE IF st1.objs[st1.ret].fac \in PlainMods THEN Fail(st1, MkErr("init", lineOf[j], {}))
           ELSE RunBody(i, x, body, lineOf, j + 1, st1)
      [] OTHER -> RunBody(i, x, body, lineOf, j + 1, st)

InitObj(i, x, body, lineOf, st) ==
  LET st1 == [st EXCEPT !.inited = @ \cup {x}, !.order = Append(@, x),
                        !.objs[x].inits = @ + 1,
                        !.objs[x].val = BodyVal(body, "val", "dflt"),
                        !.objs[x].hostname = BodyVal(body, "hostname", i.host),
                        !.objs[x].debug = (i.debug = "yes")]
  IN RunBody(i, x, body, lineOf, 1, st1)

DoUse(i, u, st) ==
  LET use == i.uses[u]
      ln == UseLine(i, u)
      ns == NsOf(use.dir)
  IN
  CASE use.form = "noargs" -> Fail(st, MkErr("init", ln, {}))
    [] use.form = "ref" ->
         IF use.extra # "none" THEN Fail(st, MkErr("init", ln, {}))
         ELSE LET st1 == GetInst(i, use.target, st) IN
              IF st1.err.is THEN st1
              ELSE IF st1.objs[st1.ret].fac \in PlainMods THEN Fail(st1, MkErr("init", ln, {}))
              ELSE [st1 EXCEPT !.uses = Append(@, st1.ret)]
    [] OTHER ->
         LET m == Resolved(ns, use.target) IN
         IF m = "" THEN Fail(st, MkErr("init", 0, {use.target}))
         ELSE LET x == Len(st.objs) + 1
                  st1 == [st EXCEPT !.objs = Append(@, WithBlk(Obj(m, NameGiven(ns, use.target), "", <<>>, use.args), 0))]
              IN IF m \in PlainMods THEN Fail(st1, MkErr("init", ln, {}))
                 ELSE LET st2 == InitObj(i, x, use.body, ULines(i, u), st1) IN
                      IF st2.err.is THEN st2 ELSE [st2 EXCEPT !.uses = Append(@, x)]

RECURSIVE DoUses(_, _, _)
DoUses(i, u, st) == IF u > Len(i.uses) \/ st.err.is THEN st ELSE DoUses(i, u + 1, DoUse(i, u, st))

RECURSIVE Unused(_, _, _)
Unused(i, p, st) ==
  IF p > Len(Units(i)) \/ st.err.is THEN st
  ELSE LET x == Units(i)[p] IN
       IF x # 0 /\ st.reg[i.blocks[x].names[1]] \notin st.inited
       THEN Fail(st, MkErr("unused", HeaderLine(i, x), {i.blocks[x].names[1]}))
       ELSE Unused(i, p + 1, st)

StripBlk(o) == [fac |-> o.fac, mod |-> o.mod, inst |-> o.inst, aliases |-> o.aliases, args |-> o.args, inits |-> o.inits,
                val |-> o.val, hostname |-> o.hostname, debug |-> o.debug]
MkOut(st) == [panic |-> FALSE, err |-> st.err,
              objs |-> IF st.err.is THEN <<>> ELSE [x \in 1..Len(st.objs) |-> StripBlk(st.objs[x])],
              uses |-> IF st.err.is THEN <<>> ELSE st.uses,
              order |-> IF st.err.is THEN <<>> ELSE st.order]
Rule(i) ==
  LET st1 == RegBlocks(i, 1, St0)
      st2 == IF ~st1.err.is /\ i.epos < 0 THEN Fail(st1, MkErr("register", 0, {})) ELSE st1
      st3 == DoUses(i, 1, st2)
  IN MkOut(Unused(i, 1, st3))

SameErr(a, b) == /\ a.is = b.is /\ a.stage = b.stage /\ a.line = b.line
                 /\ (a.line = 0 => a.mentions = b.mentions)
SameOut(a, b) == /\ a.panic = b.panic /\ SameErr(a.err, b.err)
                 /\ (~a.err.is => (a.objs = b.objs /\ a.uses = b.uses /\ a.order = b.order))

-----------------------------------------------------------------------------
(* Input tables                                                              *)
BTs == <<Blk("verif.stub", <<"A">>, <<>>),
         Blk("verif.stub", <<"A", "Aa">>, <<BN("val", "1")>>),
         Blk("verif.stub", <<"B">>, <<BN("dep", "A")>>),
         Blk("verif.plain", <<"P">>, <<>>),
         Blk("verif.stub", <<"A">>, <<BN("dep", "B"), BN("hostname", "local.test")>>),
         Blk("table.verif_stub", <<"B">>, <<BN("val", "t")>>),
         Blk("nosuch.mod", <<"B">>, <<>>),
         Blk("verif.stub", <<"B">>, <<BN("bogus", "1")>>),
         Blk("verif.stub", <<"B">>, <<BN("fail", "")>>),
         Blk("verif.stub", <<"B", "A">>, <<>>),
         Blk("verif.stub", <<"A">>, <<BN("dep", "A")>>),
         Blk("verif.stub", <<"B">>, <<BN("dep", "Zz")>>),
         Blk("verif.stub", <<"B">>, <<BN("val", "1"), BN("val", "2")>>),
         Blk("verif.stub", <<"B", "B">>, <<>>),
         Blk("verif.stub", <<"B">>, <<BN("dep", "P")>>)>>
CoreBTs == {BTs[1], BTs[2], BTs[3], BTs[4]}
UTs == <<Ref("use", "A", "none"), Ref("use", "Aa", "none"), Ref("use", "B", "none"),
         Inl("use", "stub", <<>>, "none", <<>>),
         Inl("use", "verif.stub", <<"x", "y">>, "body", <<BN("val", "3")>>),
         Ref("use", "Zz", "none"), Ref("use", "P", "none"), Ref("table", "B", "none"),
         Inl("use", "stub", <<>>, "body", <<BN("dep", "A")>>),
         Inl("table", "verif_stub", <<"k">>, "body", <<BN("hostname", "t.test")>>),
         Inl("use", "verif_gstub", <<>>, "empty", <<>>),
         Ref("use", "A", "empty"),
         Ref("use", "A", "arg"),
         [Ref("use", "A", "body") EXCEPT !.body = <<BN("val", "2")>>],
         Ref("table", "P", "none"), Ref("target", "A", "none"), Ref("check", "B", "none"),
         NoArgs("use"), NoArgs("table"),
         Inl("use", "nosuch", <<>>, "none", <<>>), Inl("use", "plain", <<>>, "none", <<>>),
         Inl("table", "stub", <<>>, "none", <<>>), Inl("table", "verif_plain", <<>>, "none", <<>>),
         Inl("use", "stub", <<>>, "body", <<BN("bogus", "1")>>),
         Inl("use", "stub", <<"z">>, "body", <<BN("val", "1"), BN("fail", "")>>),
         Inl("use", "stub", <<>>, "body", <<BN("dep", "Zz")>>),
         Inl("check", "verif_stub", <<>>, "none", <<>>), Inl("target", "verif_stub", <<"tcp://127.0.0.1:1">>, "none", <<>>)>>
CoreUTs == {UTs[k] : k \in 1..12}
RECURSIVE SeqsUpTo(_, _)
SeqsUpTo(S, n) == IF n = 0 THEN {<<>>} ELSE LET P == SeqsUpTo(S, n - 1) IN P \cup {Append(p, x) : p \in {y \in P : Len(y) = n - 1}, x \in S}

(* (a) every pair of blocks with at most one referencing directive of every form *)
InWide == \E bs \in SeqsUpTo(Range(BTs), MaxBlocks), us \in SeqsUpTo(Range(UTs), 1) :
            in = Row("wide", "", "unset", bs, Len(bs), us)
(* (b) the core blocks with up to MaxUses referencing directives *)
InDeep == \E bs \in SeqsUpTo(CoreBTs, 2), us \in SeqsUpTo(CoreUTs, MaxUses) :
            Len(us) >= 2 /\ in = Row("deep", "", "unset", bs, Len(bs), us)
(* (c) globals and the position of the endpoint block *)
InPlace == \E host \in {"", "mx.test"}, debug \in {"unset", "yes", "no"}, bs \in SeqsUpTo(CoreBTs, 2), epos \in -1..2,
              us \in {<<>>, <<UTs[1]>>, <<UTs[1], UTs[3], UTs[5]>>, <<UTs[10], UTs[2], UTs[4]>>} :
            epos <= Len(bs) /\ (epos < 0 => us = <<>>) /\ in = Row("place", host, debug, bs, epos, us)

(* (d) chains and cycles of three blocks (the instances initialise each other lazily; "Break       *)
(* circular dependencies") with references to any of them                                          *)
ChainA == {Blk("verif.stub", <<"A", "Aa">>, <<BN("val", "1")>>), Blk("verif.stub", <<"A">>, <<BN("dep", "C")>>)}
ChainB == {Blk("verif.stub", <<"B">>, <<BN("dep", "A")>>), Blk("verif.stub", <<"B">>, <<BN("hostname", "b.test")>>)}
ChainC == {Blk("verif.stub", <<"C">>, <<BN("dep", "B"), BN("dep", "A")>>), Blk("verif.stub", <<"C", "Cc">>, <<BN("dep", "C"), BN("dep", "B")>>),
           Blk("table.verif_stub", <<"C">>, <<>>)}
ChainUTs == {Ref("use", "A", "none"), Ref("use", "B", "none"), Ref("use", "C", "none"), Ref("table", "C", "none"),
             Inl("use", "stub", <<"q">>, "body", <<BN("dep", "C"), BN("val", "9")>>)}
Perm3(a, b, c, p) == CASE p = 1 -> <<a, b, c>> [] p = 2 -> <<c, b, a>> [] p = 3 -> <<b, c, a>> [] OTHER -> <<c, a, b>>
InChain == \E a \in ChainA, b \in ChainB, c \in ChainC, p \in 1..4, us \in SeqsUpTo(ChainUTs, 2), host \in {"", "mx.test"} :
             Len(us) >= 1 /\ in = Row("chain", host, IF host = "" THEN "unset" ELSE "yes", Perm3(a, b, c, p), 3, us)

Init == InWide \/ InDeep \/ InPlace \/ InChain
Next == FALSE /\ UNCHANGED in
Spec == Init /\ [][Next]_vars

RuleSatisfiesProp == Prop(in, Rule(in))
Emit == Gen => PrintT(<<"ROW", ToJson([in |-> in, text |-> TextOf(in), exp |-> Rule(in)])>>)
=============================================================================
