---------------------------- MODULE ExtScanRspamd ----------------------------
(***************************************************************************)
(* X07 (rspamd half) - every answer of the rspamd server is translated     *)
(* into exactly the configured check action, and the request describes the *)
(* real session (docs/reference/checks/rspamd.md, actions.md;              *)
(* internal/check/rspamd/rspamd.go; framework/config/module/               *)
(* check_action.go; the request header fields are those of the rspamd HTTP *)
(* protocol, https://rspamd.com/doc/architecture/protocol.html).           *)
(*                                                                         *)
(* Decision table (BUILDING.md pattern B).                                 *)
(*   in = [sub |-> "rspamd", tab, msgid, conn, utf8, from, rcpts, hdr,     *)
(*         body, place, form, io, errresp, addhdr, rewrite, tag, settings, *)
(*         hostname, flags, resp]                                          *)
(*     conn   the SMTP session as in ExtScanMilter; rdns "none" (no PTR),  *)
(*            "fail" (lookup failed), a name, or "nil" (ConnState.RDNSName *)
(*            = nil: "the reverse DNS lookup is not applicable for that    *)
(*            message source", framework/module/msgmetadata.go)            *)
(*     io, errresp, addhdr, rewrite   the directives io_error_action,      *)
(*            error_resp_action, add_header_action, rewrite_subj_action:   *)
(*            [given, act, code, enchc, ench, msg], act "ignore" /         *)
(*            "quarantine" / "reject", code # 0: "reject <code> <ench>     *)
(*            <msg>" (ench "" / msg "": not given)                         *)
(*     tag, settings, hostname   "absent" or the directive's value;        *)
(*            hostname absent = the global directive (mx.verif.test)       *)
(*     flags  the flags directive (empty = absent)                         *)
(*     resp   [k, status, action, milli]: k = "json" (200 with the action  *)
(*            and the score milli/1000), "noaction-field" (200, JSON       *)
(*            without an action), "status" (that HTTP status), "badjson",  *)
(*            "empty" (200 without a body), "refused" (nobody listens),    *)
(*            "drop" (connection closed instead of an answer)              *)
(*   out = the output record of ExtScanMilter: start, rcpt, body (answers  *)
(*         of the pipeline), delivered, quarantine, added, intact, seen    *)
(*         (<<"REQ", method, path, "match" iff the request body is the     *)
(*         message>> followed by the reported request header fields in a   *)
(*         fixed order), conns (requests received), closed, panics         *)
(*                                                                         *)
(* Deviations of the code:                                                 *)
(*   "FlagsIgnored"  the flags directive is parsed and never sent; the     *)
(*        request always says "Pass: all" (X07-F5)                         *)
(*   "RdnsNilPanic"  a session without reverse-DNS information makes the   *)
(*        check panic; the runner recovers and the message passes          *)
(*        unscanned (X07-F6)                                               *)
(***************************************************************************)
EXTENDS ExtScanBase

CONSTANTS Full,      \* TRUE: all side tables
          Devs,      \* deviations switched on in the as-is runs
          Gen,       \* TRUE: print one ROW line per row
          Seed,      \* seed of the mixed table
          RandN      \* rows of the mixed table

VARIABLE in
vars == <<in>>

AllDevs == {"FlagsIgnored", "RdnsNilPanic"}

-----------------------------------------------------------------------------
Act(given, act, code, ench, msg) ==
  [given |-> given, act |-> act, code |-> code, enchc |-> code \div 100, ench |-> ench, msg |-> msg]
Absent == Act(FALSE, "ignore", 0, "", "")
Plain(a) == Act(TRUE, a, 0, "", "")

(* the documented defaults *)
IoAct(i)      == IF i.io.given THEN i.io ELSE Plain("ignore")                 \* io_error_action     Default: ignore
ErrAct(i)     == IF i.errresp.given THEN i.errresp ELSE Plain("ignore")       \* error_resp_action   Default: ignore
AddHdrAct(i)  == IF i.addhdr.given THEN i.addhdr ELSE Plain("quarantine")     \* add_header_action   Default: quarantine
RewriteAct(i) == IF i.rewrite.given THEN i.rewrite ELSE Plain("quarantine")   \* rewrite_subj_action Default: quarantine

InternalMsg == "Internal error during policy check"
DefaultRejectMsg == "Message rejected due to a local policy"      \* check_action.go ParseRejectDirective

(* X-Spam-Score: the score with two decimals *)
Digits2(n) == IF n < 10 THEN "0" \o ToString(n) ELSE ToString(n)
Score2(m) ==
  LET neg == m < 0
      a   == IF neg THEN 0 - m ELSE m
      c   == (a + 5) \div 10                  \* rounded to 1/100 (the tables avoid exact halves)
  IN (IF neg /\ c > 0 THEN "-" ELSE "") \o ToString(c \div 100) \o "." \o Digits2(c % 100)
ScoreField(i) == "X-Spam-Score: " \o Score2(i.resp.milli) \o "\r\n"
FlagField == "X-Spam-Flag: Yes\r\n"

(* FailAction.Apply: what an action makes of a failure with the reason r    *)
(* (actions.md: ignore = nothing, quarantine = flag, reject = refuse; a     *)
(* code given with the action replaces the reason's)                        *)
Res(r, q) == [r |-> r, q |-> q]
Apply(a, r) ==
  CASE a.act = "reject"     -> Res(IF a.code # 0
                                   THEN R("rej", a.code, a.code \div 100,
                                          IF a.ench # "" THEN a.ench ELSE ToString(a.code \div 100) \o ".7.0",
                                          (a.code \div 100) = 4, IF a.msg # "" THEN a.msg ELSE DefaultRejectMsg)
                                   ELSE r, FALSE)
    [] a.act = "quarantine" -> Res(OkR, TRUE)
    [] OTHER                -> Res(OkR, FALSE)

KnownActions == {"no action", "greylist", "add header", "rewrite subject", "soft reject", "reject"}

(* the check result for a response: [r, q, added] *)
Translate(i) ==
  LET rp == i.resp
      with(x, added) == [r |-> x.r, q |-> x.q, added |-> IF x.r.k = "ok" THEN added ELSE <<>>]
      none == [r |-> OkR, q |-> FALSE, added |-> <<>>]
  IN CASE rp.k \in {"refused", "drop"}  -> with(Apply(IoAct(i), Rej(451, ".7.0", InternalMsg)), <<>>)
       [] rp.k = "status"               -> with(Apply(ErrAct(i), Rej(451, ".7.0", InternalMsg)), <<>>)
       [] rp.k \in {"badjson", "empty"} -> with(Apply(IoAct(i), Rej(451, ".9.0", InternalMsg)), <<>>)
       [] rp.k = "noaction-field"       -> none
       [] rp.action = "no action"       -> none
       [] rp.action = "greylist"        -> [r |-> OkR, q |-> FALSE, added |-> <<ScoreField(i)>>]
       \* "X-Spam-Flag and X-Spam-Score are added to the header irregardless of value"
       [] rp.action = "add header"      -> with(Apply(AddHdrAct(i), Rej(450, ".7.0", Policy)), <<ScoreField(i), FlagField>>)
       [] rp.action = "rewrite subject" -> with(Apply(RewriteAct(i), Rej(450, ".7.0", Policy)), <<ScoreField(i), FlagField>>)
       [] rp.action = "soft reject"     -> [r |-> Rej(450, ".7.0", Policy), q |-> FALSE, added |-> <<>>]
       [] rp.action = "reject"          -> [r |-> Rej(550, ".7.0", Policy), q |-> FALSE, added |-> <<>>]
       [] OTHER                         -> none     \* "unhandled action" (from the code)

(* the request *)
IsTcp(c) == c.kind \in {"tcp4", "mapped", "tcp6"}
RdnsName(c) == c.rdns \notin {"none", "fail", "nil"}
TlsVer(t) == t          \* TLS-Version: 1.0 .. 1.3
RECURSIVE JoinC(_)
JoinC(s) == IF Len(s) = 0 THEN "" ELSE IF Len(s) = 1 THEN s[1] ELSE s[1] \o "," \o JoinC(Tail(s))
Opt(cond, e) == IF cond THEN <<e>> ELSE <<>>
Request(devs, i) ==
  LET c == i.conn
      has == c.kind # "nil"
      flagsGiven == Len(i.flags) > 0 /\ i.flags # <<"pass_all">>
  IN <<E("REQ", <<"POST", "/checkv2", "match">>), E("From", <<i.from>>), E("Rcpt", i.rcpts), E("Queue-Id", <<i.msgid>>)>>
     \o Opt(has /\ IsTcp(c), E("Ip", <<c.addr>>))
     \o Opt(has, E("Helo", <<c.helo>>))
     \o Opt(has /\ RdnsName(c), E("Hostname", <<c.rdns>>))
     \o Opt(has /\ c.auth # "", E("User", <<c.auth>>))
     \o <<E("Mta-Tag", <<IF i.tag = "absent" THEN "maddy" ELSE i.tag>>)>>                      \* tag       Default: maddy
     \o <<E("Mta-Name", <<IF i.hostname = "absent" THEN "mx.verif.test" ELSE i.hostname>>)>>   \* hostname  Default: global directive
     \o Opt(i.settings # "absent", E("Settings-Id", <<i.settings>>))
     \* flags  Default: pass_all ("Pass: all" says the same for the default)
     \o Opt(flagsGiven /\ "FlagsIgnored" \notin devs, E("Flags", <<JoinC(i.flags)>>))
     \o Opt(~flagsGiven \/ "FlagsIgnored" \in devs, E("Pass", <<"all">>))
     \o Opt(has /\ c.tls # "none", E("Tls-Cipher", <<Cipher(c.tls)>>))
     \o Opt(has /\ c.tls # "none", E("Tls-Version", <<TlsVer(c.tls)>>))

OutI(i, body, delivered, quar, added, seen, conns, panics) ==
  [start |-> OkR, rcpt |-> [j \in 1..Len(i.rcpts) |-> OkR], body |-> body, delivered |-> delivered, quarantine |-> quar,
   added |-> added, intact |-> TRUE, seen |-> seen, conns |-> conns, closed |-> TRUE, panics |-> panics]

Run(devs, i) ==
  IF i.body = "unreadable"
  \* the server cannot open its own copy of the body: the message is refused (from the code: an error without SMTP
  \* annotations, which the endpoint answers with 554), nothing is sent
  THEN OutI(i, Unannotated, FALSE, FALSE, <<>>, <<>>, 0, 0)
  ELSE IF i.conn.kind # "nil" /\ i.conn.rdns = "nil" /\ "RdnsNilPanic" \in devs
  THEN OutI(i, OkR, TRUE, FALSE, <<>>, <<>>, 0, 1)
  ELSE LET t == Translate(i)
           dl == t.r.k = "ok"
       IN OutI(i, t.r, dl, dl /\ t.q, IF dl THEN t.added ELSE <<>>,
               IF i.resp.k = "refused" THEN <<>> ELSE Request(devs, i),
               IF i.resp.k = "refused" THEN 0 ELSE 1, 0)
Rule(i) == Run({}, i)
AsIs(i) == Run(Devs, i)

-----------------------------------------------------------------------------
(* Prop: the statement, on (in, out) alone                                  *)
FieldsOf(o, name) == {k \in 1..Len(o.seen) : o.seen[k].c = name}
FieldIs(o, name, vals) == \E k \in FieldsOf(o, name) : o.seen[k].a = vals
NoField(o, name) == FieldsOf(o, name) = {}
(* the outcome an action prescribes for a failure whose own class is cls *)
Follows(a, o, cls) ==
  CASE a.act = "reject"     -> /\ Coherent(o.body) /\ ~o.delivered
                               /\ (IF a.code # 0 THEN o.body.code = a.code /\ (a.msg # "" => o.body.msg = a.msg)
                                   ELSE ClassOf(o.body) = cls)
    [] a.act = "quarantine" -> o.body.k = "ok" /\ o.delivered /\ o.quarantine
    [] OTHER                -> o.body.k = "ok" /\ o.delivered /\ ~o.quarantine

Viol(i, o) ==
  LET rp == i.resp
      c == i.conn
      has == c.kind # "nil"
      sent == rp.k # "refused" /\ i.body # "unreadable"
      spamHdrs == o.delivered => (Len(o.added) = 2 /\ Range(o.added) = {ScoreField(i), FlagField})
      noHdrs == o.delivered => o.added = <<>>
  IN
  (IF o.panics = 0 THEN {} ELSE {"NoCrash"})
  \cup
  (* the stages before the body never refuse; the message reaches the target iff the body stage passed *)
  (IF /\ o.start.k = "ok" /\ Len(o.rcpt) = Len(i.rcpts) /\ \A j \in 1..Len(o.rcpt) : o.rcpt[j].k = "ok"
      /\ o.delivered = (o.body.k = "ok") /\ (o.quarantine => o.delivered) /\ (o.delivered => o.intact)
   THEN {} ELSE {"Delivery"})
  \cup
  (* exactly one request, describing the real message and session *)
  (IF o.conns = (IF sent THEN 1 ELSE 0) THEN {} ELSE {"OneRequest"})
  \cup
  (IF sent /\ o.conns = 1 =>
        /\ Len(o.seen) > 0 /\ o.seen[1] = E("REQ", <<"POST", "/checkv2", "match">>)
        /\ FieldIs(o, "From", <<i.from>>) /\ FieldIs(o, "Rcpt", i.rcpts) /\ FieldIs(o, "Queue-Id", <<i.msgid>>)
        /\ (IF has /\ IsTcp(c) THEN FieldIs(o, "Ip", <<c.addr>>) ELSE NoField(o, "Ip"))
        /\ (IF has THEN FieldIs(o, "Helo", <<c.helo>>) ELSE NoField(o, "Helo"))
        /\ (IF has /\ c.auth # "" THEN FieldIs(o, "User", <<c.auth>>) ELSE NoField(o, "User"))
        /\ (IF has /\ RdnsName(c) THEN FieldIs(o, "Hostname", <<c.rdns>>) ELSE NoField(o, "Hostname"))
        /\ (IF has /\ c.tls # "none" THEN FieldIs(o, "Tls-Version", <<TlsVer(c.tls)>>) ELSE NoField(o, "Tls-Version"))
   THEN {} ELSE {"RequestDescribesSession"})
  \cup
  (IF sent /\ o.conns = 1 =>
        /\ FieldIs(o, "Mta-Tag", <<IF i.tag = "absent" THEN "maddy" ELSE i.tag>>)
        /\ FieldIs(o, "Mta-Name", <<IF i.hostname = "absent" THEN "mx.verif.test" ELSE i.hostname>>)
        /\ (IF i.settings # "absent" THEN FieldIs(o, "Settings-Id", <<i.settings>>) ELSE NoField(o, "Settings-Id"))
        /\ (IF Len(i.flags) > 0 /\ i.flags # <<"pass_all">> THEN FieldIs(o, "Flags", <<JoinC(i.flags)>>)
            ELSE FieldIs(o, "Flags", <<"pass_all">>) \/ FieldIs(o, "Pass", <<"all">>))
   THEN {} ELSE {"RequestCarriesConfig"})
  \cup
  (* translation of the response *)
  (IF o.panics # 0 \/ o.conns # (IF sent THEN 1 ELSE 0) THEN {}       \* reported above
   ELSE CASE i.body = "unreadable" ->
               IF Coherent(o.body) /\ ~o.delivered THEN {} ELSE {"LocalFailure"}
          [] rp.k \in {"refused", "drop"} ->
               IF Follows(IoAct(i), o, 4) /\ noHdrs THEN {} ELSE {"IoErrorAction"}
          [] rp.k = "status" ->
               IF Follows(ErrAct(i), o, 4) /\ noHdrs THEN {} ELSE {"ErrorRespAction"}
          \* neither "inability to contact the server" nor a "5xx or 4xx response": either directive may apply
          [] rp.k \in {"badjson", "empty"} ->
               IF (Follows(IoAct(i), o, 4) \/ Follows(ErrAct(i), o, 4)) /\ noHdrs THEN {} ELSE {"ErrorRespAction"}
          [] rp.k = "json" /\ rp.action = "no action" ->
               IF Follows(Plain("ignore"), o, 4) /\ noHdrs THEN {} ELSE {"ActionMapping"}
          [] rp.k = "json" /\ rp.action = "greylist" ->
               IF Follows(Plain("ignore"), o, 4) /\ o.added = <<ScoreField(i)>> THEN {} ELSE {"ActionMapping"}
          [] rp.k = "json" /\ rp.action = "add header" ->
               (IF Follows(AddHdrAct(i), o, 4) THEN {} ELSE {"ActionMapping"}) \cup (IF spamHdrs THEN {} ELSE {"SpamHeaders"})
          [] rp.k = "json" /\ rp.action = "rewrite subject" ->
               (IF Follows(RewriteAct(i), o, 4) THEN {} ELSE {"ActionMapping"}) \cup (IF spamHdrs THEN {} ELSE {"SpamHeaders"})
          [] rp.k = "json" /\ rp.action = "soft reject" ->
               IF TempRej(o.body) /\ ~o.delivered THEN {} ELSE {"ActionMapping"}
          [] rp.k = "json" /\ rp.action = "reject" ->
               IF PermRej(o.body) /\ ~o.delivered THEN {} ELSE {"ActionMapping"}
          \* an action the documentation does not name: the message passes, or is treated as an error response
          [] OTHER ->
               IF (Follows(Plain("ignore"), o, 4) \/ Follows(ErrAct(i), o, 4)) /\ noHdrs THEN {} ELSE {"ActionMapping"})

Prop(i, o) == Viol(i, o) = {}
SameOut(a, b) == a = b
Explains(D, i, o) == {d \in D : SameOut(o, Run(d, i))}

-----------------------------------------------------------------------------
(* the input space                                                          *)
ActVals == {Absent, Plain("ignore"), Plain("quarantine"), Plain("reject"), Act(TRUE, "reject", 554, "", ""),
            Act(TRUE, "reject", 451, "4.7.1", "scanner says later"), Act(TRUE, "reject", 550, "5.7.0", "")}
FewActs == {Absent, Plain("reject")}
Actions == KnownActions \cup {"discard", "quarantine", "custom", ""}
Scores == {1500, 15126, 0 - 2504, 0}
Statuses == {400, 403, 404, 429, 500, 503}

Resp(k, status, action, milli) == [k |-> k, status |-> status, action |-> action, milli |-> milli]
Row(tab, conn, from, nr, hdr, body, form, io, er, ah, rw, tag, settings, hostname, flags, resp) ==
  [sub |-> "rspamd", tab |-> tab, msgid |-> "verifmsg01", conn |-> conn, utf8 |-> FALSE, from |-> from,
   rcpts |-> SubSeq(<<"r1@rcpt.test", "r2@rcpt.test">>, 1, nr), hdr |-> hdr, body |-> body, place |-> "global", form |-> form,
   io |-> io, errresp |-> er, addhdr |-> ah, rewrite |-> rw, tag |-> tag, settings |-> settings, hostname |-> hostname,
   flags |-> flags, resp |-> resp]
Base(tab, resp) == Row(tab, C4, "a@sender.test", 1, Hdr2, "small", "inline", Absent, Absent, Absent, Absent,
                       "absent", "absent", "absent", <<>>, resp)

(* (a) every action string x the directive it is mapped to *)
InAction ==
  \E a \in Actions, av \in ActVals, other \in FewActs, m \in Scores :
    /\ m \in {1500, 15126} \/ a \in {"greylist", "add header"}
    /\ in = [Base("action", Resp("json", 200, a, m)) EXCEPT
               !.addhdr = IF a = "rewrite subject" THEN other ELSE av,
               !.rewrite = IF a = "rewrite subject" THEN av ELSE other,
               !.errresp = IF a \in KnownActions THEN Absent ELSE other]
InNoField == \E er \in FewActs : in = [Base("action", Resp("noaction-field", 200, "", 1500)) EXCEPT !.errresp = er]
(* (b) error statuses x error_resp_action *)
InStatus == \E st \in Statuses, av \in ActVals, io \in FewActs :
              in = [Base("status", Resp("status", st, "", 0)) EXCEPT !.errresp = av, !.io = io]
(* (c) transport errors and unparsable answers x io_error_action *)
InIo == \E k \in {"refused", "drop", "badjson", "empty"}, av \in ActVals, er \in FewActs :
          in = [Base("io", Resp(k, 200, "", 0)) EXCEPT !.io = av, !.errresp = er]
(* (d) the request: session kinds, authentication, reverse DNS, TLS, configuration *)
CfgVariants == {<<"absent", "absent", "absent", <<>>>>, <<"verif-tag", "sid-7", "mx2.verif.test", <<"pass_all">>>>,
                <<"absent", "absent", "absent", <<"pass_all", "zstd">>>>, <<"absent", "sid-7", "absent", <<"no_log">>>>}
InReq ==
  \E c \in ConnKinds, t \in {"none", "1.2", "1.3"}, au \in {"", "user@sender.test"},
     rd \in {"none", "fail", "ptr.client.test", "nil"}, cv \in CfgVariants :
    /\ Full \/ (t # "1.2" /\ (cv[4] = <<>> \/ c = C4))
    /\ c.kind = "nil" => (t = "none" /\ au = "" /\ rd = "none")
    /\ in = [Base("req", Resp("json", 200, "no action", 1500)) EXCEPT
               !.conn = [c EXCEPT !.tls = t, !.auth = au, !.rdns = rd],
               !.tag = cv[1], !.settings = cv[2], !.hostname = cv[3], !.flags = cv[4]]
(* (e) message shapes, configuration forms *)
InShape ==
  \E nr \in 1..2, b \in {"small", "empty", "big"}, h \in {Hdr2, HdrOdd}, f \in {"a@sender.test", ""},
     fm \in {"inline", "directive"}, a \in {"no action", "add header", "reject"} :
    in = [Base("shape", Resp("json", 200, a, 7250)) EXCEPT !.rcpts = SubSeq(<<"r1@rcpt.test", "r2@rcpt.test">>, 1, nr),
                                                           !.body = b, !.hdr = h, !.from = f, !.form = fm]
InPlace ==
  \E pl \in {"global", "source", "destination"}, nr \in 1..2, b \in {"small", "unreadable"},
     rp \in {Resp("json", 200, "add header", 7250), Resp("json", 200, "reject", 16000), Resp("status", 500, "", 0)} :
    in = [Base("place", rp) EXCEPT !.place = pl, !.rcpts = SubSeq(<<"r1@rcpt.test", "r2@rcpt.test">>, 1, nr), !.body = b,
                                  !.errresp = Plain("reject")]
(* (f) mixed table *)
Draw(n, k) == HH(HH(HH(Seed * 919 + n) + 37 * k) + n + k)
RActs == <<Absent, Absent, Plain("ignore"), Plain("quarantine"), Plain("reject"), Act(TRUE, "reject", 554, "", ""),
           Act(TRUE, "reject", 451, "4.7.1", "scanner says later"), Act(TRUE, "quarantine", 0, "", "")>>
RResps == <<Resp("json", 200, "no action", 100), Resp("json", 200, "greylist", 4321), Resp("json", 200, "add header", 6789),
            Resp("json", 200, "add header", 15000), Resp("json", 200, "rewrite subject", 9994), Resp("json", 200, "soft reject", 0),
            Resp("json", 200, "reject", 25001), Resp("json", 200, "discard", 1), Resp("noaction-field", 200, "", 3),
            Resp("status", 500, "", 0), Resp("status", 404, "", 0), Resp("badjson", 200, "", 0), Resp("empty", 200, "", 0),
            Resp("refused", 200, "", 0), Resp("drop", 200, "", 0)>>
RConns == <<C4, C4, Conn("mapped", "198.51.100.77", "mapped.sender.test", "", "none"),
            Conn("tcp6", "2001:db8:0:1::25", "six.sender.test", "", "none"),
            Conn("unix", "/run/verif/client.sock", "local.sender.test", "", "none"),
            Conn("other", "", "odd.sender.test", "", "none"), NilConn>>
RandRow(n) ==
  LET d(k) == Draw(n, k)
      c0 == Pick(RConns, d(1))
      cn == IF c0.kind = "nil" THEN c0
            ELSE [c0 EXCEPT !.tls = Pick(<<"none", "none", "1.2", "1.3">>, d(2)), !.auth = Pick(<<"", "", "user@sender.test">>, d(3)),
                            !.rdns = Pick(<<"none", "fail", "ptr.client.test", "ptr.client.test">>, d(4))]
  IN Row("mixed", cn, Pick(<<"a@sender.test", "a@sender.test", "">>, d(5)), (d(6) % 2) + 1, Pick(<<Hdr2, HdrOdd>>, d(7)),
         Pick(<<"small", "small", "small", "empty", "big", "unreadable">>, d(8)), Pick(<<"inline", "directive">>, d(9)),
         Pick(RActs, d(10)), Pick(RActs, d(11)), Pick(RActs, d(12)), Pick(RActs, d(13)),
         Pick(<<"absent", "verif-tag">>, d(14)), Pick(<<"absent", "sid-7">>, d(15)), Pick(<<"absent", "mx2.verif.test">>, d(16)),
         Pick(<<<<>>, <<>>, <<"pass_all">>, <<"pass_all", "zstd">>>>, d(17)), Pick(RResps, d(18)))
InMixed == \E n \in 1..RandN : in = RandRow(n)

-----------------------------------------------------------------------------
Init == InAction \/ InNoField \/ InStatus \/ InIo \/ InReq \/ InShape \/ InPlace \/ InMixed
Next == FALSE /\ UNCHANGED in      \* one state per input (CHECK_DEADLOCK FALSE)
Spec == Init /\ [][Next]_vars

RuleSatisfiesProp == Prop(in, Rule(in))
(* theorems behind the statement: a message is refused only when an action  *)
(* or rspamd says reject, flagged only by a quarantine action, and the spam *)
(* header fields never depend on the action                                 *)
RuleShape ==
  LET o == Rule(in)
      acts == {IoAct(in), ErrAct(in), AddHdrAct(in), RewriteAct(in)}
  IN /\ (o.body.k = "rej" => (in.body = "unreadable" \/ in.resp.action \in {"soft reject", "reject"}
                                \/ \E a \in acts : a.act = "reject"))
     /\ (o.quarantine => \E a \in acts : a.act = "quarantine")
     /\ (in.resp.k = "json" /\ in.resp.action \in {"add header", "rewrite subject"} /\ o.delivered) =>
           o.added = <<ScoreField(in), FlagField>>
     /\ o.conns <= 1 /\ o.panics = 0
AsIsSatisfiesProp == Prop(in, AsIs(in))

Emit == Gen => PrintT(<<"ROW", ToJson([in |-> in, exp |-> Rule(in)])>>)
=============================================================================
