SPECIFICATION Spec
CONSTANTS
  Rcpts = {"r1", "r2"}
  MaxTriesSet = {1, 2}
  MaxList = 2
  Devs = {}
  RwSets = {{}}
  Utf8Set = {FALSE}
  BounceStages = {"ok"}
  Gen = TRUE
CHECK_DEADLOCK FALSE
