------------------------ MODULE StsCacheTablesTrace ------------------------
(***************************************************************************)
(* Code -> model for the decision tables of extension X02.  trace.ndjson   *)
(* holds one "Row" event per input row the harness ran through the real    *)
(* code: [t, seq, e |-> "Row", in |-> <row of StsCacheTables>, out |-> ..]  *)
(* (match rows: out.m \in {"yes","no","panic"}; fetch rows: out.kind,       *)
(* out.mode, out.age, out.mx).  TLC evaluates the predicates of             *)
(* StsCacheTables on every recorded answer (viol), compares it with the    *)
(* documented rule (drift) and names the open finding whose input          *)
(* condition covers the row (dev).  Only rows that are not plainly         *)
(* accepted are listed.                                                     *)
(***************************************************************************)
EXTENDS StsCacheTables

Rows == ndJsonDeserialize("trace.ndjson")
tvars == <<in>>

OutOf(r) == IF r.in.tab = "match" THEN r.out.m
            ELSE [kind |-> r.out.kind, mode |-> r.out.mode, age |-> r.out.age, mx |-> r.out.mx]
Differs(r) == IF r.in.tab = "match" THEN OutOf(r) # Rule(r.in)
              ELSE OutOf(r) # Rule(r.in) /\ "free" \notin {TxtClass(r.in.txt), BodyClass(r.in.body)}
Bad(r) == Viol(r.in, OutOf(r)) # {} \/ Differs(r)
Verdict(r) == [t |-> r.t, drift |-> Differs(r), driftAt |-> r.seq, viol |-> Viol(r.in, OutOf(r)), dev |-> DevOf(r.in)]

Eval ==
  LET bad == {k \in 1..Len(Rows) : Bad(Rows[k])} IN
    [n |-> Len(Rows), accepted |-> Len(Rows) - Cardinality(bad), verdicts |-> {Verdict(Rows[k]) : k \in bad}]

TInit == in = <<>> /\ TLCSet(1, Eval)
TNext == UNCHANGED tvars
TSpec == TInit /\ [][TNext]_tvars
Post == PrintT(<<"VERDICTS", ToJson(TLCGet(1))>>)
=============================================================================
