---------------------------- MODULE ExtScanMilter ----------------------------
(***************************************************************************)
(* X07 (milter half) - every answer of a milter, at every step of the      *)
(* dialogue, is translated into exactly the documented check result, and   *)
(* the milter sees the steps of the real session once and in order         *)
(* (docs/reference/checks/milter.md; internal/check/milter/milter.go;      *)
(* go-milter/milter-protocol.txt for the order of the steps; the results   *)
(* are observed where internal/endpoint/smtp takes them from: the errors   *)
(* of msgpipeline Start / AddRcpt / Body and what the target receives).    *)
(*                                                                         *)
(* The dialogue of one message is a small state machine: the script of the *)
(* milter is revealed answer by answer.  A state is the input row `in` with *)
(* the answers revealed so far ("?" = not asked yet); the action           *)
(* Reveal<Step> chooses the milter's answer to the first step the          *)
(* documented procedure (Run) asks for that has none yet.  States without  *)
(* such a step are complete rows: TLC prints them (ROW) and they are run   *)
(* through the real check.milter module (harness/extscancheck).            *)
(*                                                                         *)
(*   in = [sub |-> "milter", tab, msgid, conn, utf8, from, rcpts, hdr,     *)
(*         body, place, fo, srv, net, form, ver, proto, script]            *)
(*     conn   [kind, addr, port, helo, auth, tls, rdns]: the SMTP session  *)
(*            (module.ConnState); kind "tcp4" / "mapped" (::ffff:a.b.c.d)  *)
(*            / "tcp6" / "unix" / "other" (an address type maddy does not  *)
(*            know) / "nil" (MsgMetadata.Conn = nil: a message generated   *)
(*            locally, e.g. a delivery status notification)                *)
(*     hdr    sequence of [n, v, ln, nv]: field name, raw value (may be    *)
(*            folded), lower-case name, value with folding removed         *)
(*     body   "small" (7 bytes), "empty", "big" (70000 bytes: two chunks),  *)
(*            "unreadable" (the server cannot open its own copy)           *)
(*     place  where the check is written: the top-level check block        *)
(*            ("global") or the check block of a source / destination      *)
(*            block (the state of the check is then created when the       *)
(*            pipeline first visits that block)                            *)
(*     fo     fail_open: "absent", "yes", "no"                             *)
(*     srv    "up", "down" (nobody listens at the endpoint), "negdrop"     *)
(*            (connection lost during option negotiation), "negbad"        *)
(*            (garbage instead of the negotiation answer), "negver"        *)
(*            (milter speaks protocol version 1 and hangs up), "lib" (the  *)
(*            server side of github.com/emersion/go-milter answers)        *)
(*     net    "tcp" / "unix": scheme of the endpoint; form "inline"        *)
(*            (module argument) / "directive" (endpoint directive)         *)
(*     ver    protocol version the milter announces                        *)
(*     proto  protocol options the milter negotiates: "noconnect",         *)
(*            "nohelo", "nomail", "norcpt", "nobody", "nohdrs", "noeoh",   *)
(*            "nr_conn" .. "nr_body" (no reply to that command)            *)
(*     script [conn, helo, mail, rcpt (seq), hdr (seq), eoh, body (seq),   *)
(*            mods (seq), fin]: the milter's answer to each command;       *)
(*            an answer is [k, code, text], k = "cont", "pcont" (progress, *)
(*            then continue), "accept", "reject", "tempfail", "discard",   *)
(*            "reply" (reply code `code text`), "drop" (connection lost),  *)
(*            "garbage" (unknown packet), "badreply" (truncated reply-code *)
(*            packet), "stall" (no answer at all), "?" (not asked yet;     *)
(*            the harness answers continue).  mods = the modification      *)
(*            actions sent before the final answer `fin` at end of body:   *)
(*            [k, a, b, idx], k = "addhdr", "inshdr", "chghdr", "addrcpt", *)
(*            "delrcpt", "chgfrom", "quar", "replbody"                     *)
(*   out = [start, rcpt (seq), body, delivered, quarantine, added, intact, *)
(*          seen, conns, closed, panics]                                   *)
(*     start / rcpt[j] / body  answer of the pipeline to MAIL (connection  *)
(*            and sender stage), RCPT j, DATA: [k, code, enchc, ench,      *)
(*            temp, msg], k = "ok" / "rej" / "n/a" (command not issued);   *)
(*            code / ench / msg = the SMTP annotations of the error        *)
(*            (code 0: none, the endpoint answers 451 or 554 by `temp`)    *)
(*     delivered, quarantine   the target received the message / flagged   *)
(*     added  header fields on top of the original ones at the target      *)
(*     seen   packets the milter received: [c, a], c = "D" (macros; a[1] = *)
(*            the command they belong to), "C" <<hostname, family, port,   *)
(*            address>>, "H", "M", "R", "L" <<lower-case name, unfolded    *)
(*            value>>, "N" (end of header), "B" <<length, "match" if the   *)
(*            bytes are the next bytes of the body>>, "E" (end of body),   *)
(*            "A" (abort), "Q" (quit); nothing is recorded after the       *)
(*            script closed the connection                                 *)
(*     conns  connections the milter accepted; closed: each of them was    *)
(*            ended by the client (or by the script)                       *)
(*     panics "panic during check execution" reports of the check runner   *)
(*                                                                         *)
(* Prop = the statement, predicate by predicate, on (in, out) alone.       *)
(* Run(devs, in) = the documented procedure, with the deviations of the    *)
(* code as named switches:                                                 *)
(*   "DialIgnoresFailOpen"   a milter that cannot be reached or fails the  *)
(*        negotiation makes CheckStateForMsg fail: the message is refused  *)
(*        with an unannotated (permanent, 554) error whatever fail_open    *)
(*        says (X07-F1)                                                    *)
(*   "NilConnPanic"          CheckSender dereferences MsgMetadata.Conn,    *)
(*        which CheckConnection treats as optional: the sender stage       *)
(*        panics, the runner recovers, the milter never sees MAIL (X07-F2) *)
(*   "QuarantineMasksReject" a quarantine modification together with a     *)
(*        rejecting final answer delivers the message (flagged) (X07-F3)   *)
(*   "ReplyCodeUnchecked"    a reply code outside 4yz / 5yz becomes the    *)
(*        code of the "rejection" (X07-F4)                                 *)
(***************************************************************************)
EXTENDS ExtScanBase

CONSTANTS MaxRcpt,   \* recipients of the main table (1..2)
          Full,      \* TRUE: full cross of modifications x final answers, all side tables
          Devs,      \* deviations switched on in the as-is runs
          Gen,       \* TRUE: print one ROW line per complete row
          Seed,      \* seed of the mixed table
          RandN      \* rows of the mixed table

VARIABLE in
vars == <<in>>

AllDevs == {"DialIgnoresFailOpen", "NilConnPanic", "QuarantineMasksReject", "ReplyCodeUnchecked"}


-----------------------------------------------------------------------------
(* answers *)
A(k) == [k |-> k, code |-> 0, text |-> ""]
Reply(c, t) == [k |-> "reply", code |-> c, text |-> t]
Unk == A("?")
Cont == A("cont")
ContK == {"cont", "pcont"}
IoK == {"drop", "garbage", "badreply", "stall"}
IsIo(a) == a.k \in IoK
Odd(a) == a.k = "reply" /\ (a.code \div 100) \notin {4, 5}

IoMsg  == "I/O error during policy check"
InternalMsg == "Internal error during policy check"

Has(i, opt) == opt \in Range(i.proto)
FailOpen(i) == i.fo = "yes"                        \* fail_open  Default: false
Unreadable(i) == i.body = "unreadable" /\ ~Has(i, "nobody")

-----------------------------------------------------------------------------
(* the values of the real session, as the milter is to see them            *)
Fam(c) == CASE c.kind \in {"tcp4", "mapped"} -> "4" [] c.kind = "tcp6" -> "6" [] c.kind = "unix" -> "L" [] OTHER -> "U"
ConnEntry(c) ==
  IF c.kind = "nil" THEN E("C", <<"localhost", "4", "25", "127.0.0.1">>)      \* "dummy values as the message is likely generated locally"
  ELSE E("C", <<c.helo, Fam(c), IF Fam(c) \in {"4", "6"} THEN ToString(c.port) ELSE "",
                IF Fam(c) = "U" THEN "" ELSE c.addr>>)
HeloEntry(c) == E("H", <<IF c.kind = "nil" THEN "localhost" ELSE c.helo>>)
MailEntry(i) == E("M", <<"<" \o i.from \o ">">> \o (IF i.utf8 THEN <<"SMTPUTF8">> ELSE <<>>))
RcptEntry(i, j) == E("R", <<"<" \o i.rcpts[j] \o ">">>)
HdrEntry(i, k) == E("L", <<i.hdr[k].ln, i.hdr[k].nv>>)
BodyEntry(i, k) == E("B", <<ToString(Chunks(i.body)[k]), "match">>)
AuthOf(i) == IF i.conn.kind = "nil" THEN "" ELSE i.conn.auth
MacC == E("D", <<"C", "daemon_name", "maddy", "if_name", "unknown", "if_addr", "0.0.0.0">>)
MacH(c) == E("D", <<"H", "tls_version", TlsName(c.tls), "cipher", Cipher(c.tls)>>)
MacM(i) == E("D", <<"M", "i", i.msgid>> \o (IF AuthOf(i) # "" THEN <<"auth_authen", AuthOf(i)>> ELSE <<>>))

(* every command the milter is entitled to see, in the order of the        *)
(* protocol (milter-protocol.txt: CONNECT, HELO, MAIL, RCPT.., HEADER..,    *)
(* EOH, BODY.., BODYEOB), less the steps it negotiated away                *)
FullSeq(i) ==
  IF i.srv \notin {"up", "lib"} THEN <<>>
  ELSE (IF Has(i, "noconnect") THEN <<>> ELSE <<ConnEntry(i.conn)>>)
    \o (IF Has(i, "nohelo") THEN <<>> ELSE <<HeloEntry(i.conn)>>)
    \o (IF Has(i, "nomail") THEN <<>> ELSE <<MailEntry(i)>>)
    \o (IF Has(i, "norcpt") THEN <<>> ELSE [j \in 1..Len(i.rcpts) |-> RcptEntry(i, j)])
    \o (IF Has(i, "nohdrs") THEN <<>> ELSE [k \in 1..Len(i.hdr) |-> HdrEntry(i, k)])
    \o (IF Has(i, "noeoh") THEN <<>> ELSE <<E("N", <<>>)>>)
    \o (IF Has(i, "nobody") THEN <<>> ELSE [k \in 1..Len(Chunks(i.body)) |-> BodyEntry(i, k)])
    \o <<E("E", <<>>)>>

-----------------------------------------------------------------------------
(* Run: the documented procedure                                           *)
(*   st = [skip, dead, abort, seen, need, panics]                          *)
(*     skip   the check is over for this message (accept, or an I/O error  *)
(*            with fail_open): later stages pass without asking            *)
(*     dead   the script closed the connection / stopped answering         *)
(*     abort  no answer other than "continue" was read yet to a command     *)
(*            before end-of-body (the client then sends an abort before    *)
(*            it quits; from the code of go-milter, not part of Prop)      *)
(*     need   first step whose answer was needed and is "?"                *)
NoNeed == [s |-> "", j |-> 0]
St0 == [skip |-> FALSE, dead |-> FALSE, abort |-> TRUE, seen |-> <<>>, need |-> NoNeed, panics |-> 0]

Mac(st, e) == IF st.dead THEN st ELSE [st EXCEPT !.seen = Append(@, e)]

(* one command: the packet is recorded, the answer is the script's         *)
Ask(st, i, s, j, e, ans, nropt) ==
  IF st.dead THEN [st |-> st, a |-> A("drop")]
  ELSE LET nr == Has(i, nropt)
           a  == IF nr \/ ans.k = "?" THEN Cont ELSE ans
       IN [st |-> [st EXCEPT !.seen  = Append(@, e),
                             !.dead  = a.k \in {"drop", "stall"},
                             \* (the answer to end-of-body is read together with the modification actions and
                             \* leaves the flag alone)
                             !.abort = @ /\ (s = "eob" \/ a.k \in (ContK \cup {"drop", "stall"})),
                             !.need  = IF @ = NoNeed /\ ans.k = "?" /\ ~nr THEN [s |-> s, j |-> j] ELSE @],
           a |-> a]
Skipped(st) == [st |-> st, a |-> Cont]

(* translation of one answer (milter.md; handleAction, ioError)            *)
IoRes(i) == IF FailOpen(i) THEN [r |-> OkR, skip |-> TRUE]
            ELSE [r |-> Rej(451, ".7.1", IoMsg), skip |-> FALSE]
Handle(devs, i, a) ==
  CASE a.k \in ContK     -> [r |-> OkR, skip |-> FALSE]
    [] a.k = "accept"    -> [r |-> OkR, skip |-> TRUE]
    [] a.k = "reject"    -> [r |-> Rej(550, ".7.1", Policy), skip |-> FALSE]
    [] a.k = "tempfail"  -> [r |-> Rej(450, ".7.1", Policy), skip |-> FALSE]
    [] a.k = "discard"   -> [r |-> Rej(450, ".7.1", Policy), skip |-> FALSE]   \* "silent discard is not supported, rejecting message"
    [] a.k = "reply"     -> IF Odd(a) /\ "ReplyCodeUnchecked" \notin devs
                            THEN IoRes(i)                                       \* not a refusal the protocol allows: protocol error
                            ELSE [r |-> Rej(a.code, ".7.1", Policy), skip |-> FALSE]
    [] OTHER             -> IoRes(i)
Fin(devs, i, x) ==
  LET h == Handle(devs, i, x.a) IN [st |-> [x.st EXCEPT !.skip = @ \/ h.skip], r |-> h.r]

(* connection + sender stage (CheckConnection, CheckSender) *)
ConnStage(devs, i, st) ==
  LET c  == i.conn
      s1 == IF c.kind = "nil" \/ Has(i, "noconnect") THEN st ELSE Mac(st, MacC)
      x1 == IF Has(i, "noconnect") THEN Skipped(s1)
            ELSE Ask(s1, i, "conn", 0, ConnEntry(c), i.script.conn, "nr_conn")
  IN IF x1.a.k \notin ContK THEN Fin(devs, i, x1)
     ELSE IF Has(i, "nohelo") THEN [st |-> x1.st, r |-> OkR]
     ELSE LET s2 == IF c.kind # "nil" /\ c.tls # "none" THEN Mac(x1.st, MacH(c)) ELSE x1.st
          IN Fin(devs, i, Ask(s2, i, "helo", 0, HeloEntry(c), i.script.helo, "nr_helo"))
MailStage(devs, i, st) ==
  IF st.skip \/ Has(i, "nomail") THEN [st |-> st, r |-> OkR]
  ELSE IF i.conn.kind = "nil" /\ "NilConnPanic" \in devs
       THEN [st |-> [st EXCEPT !.panics = @ + 1], r |-> OkR]
  ELSE Fin(devs, i, Ask(Mac(st, MacM(i)), i, "mail", 0, MailEntry(i), i.script.mail, "nr_mail"))

RECURSIVE RcptStage(_, _, _, _)
RcptStage(devs, i, st, j) ==
  IF j > Len(i.rcpts) THEN [st |-> st, rs |-> <<>>]
  ELSE LET y == IF st.skip \/ Has(i, "norcpt") THEN [st |-> st, r |-> OkR]
                ELSE Fin(devs, i, Ask(st, i, "rcpt", j, RcptEntry(i, j), i.script.rcpt[j], "nr_rcpt"))
           z == RcptStage(devs, i, y.st, j + 1)
       IN [st |-> z.st, rs |-> <<y.r>> \o z.rs]

(* body stage (CheckBody): header fields, end of header, body chunks, end   *)
(* of body with the modification actions                                    *)
RECURSIVE HdrLoop(_, _, _)
HdrLoop(i, st, k) ==
  IF k > Len(i.hdr) \/ Has(i, "nohdrs") THEN Skipped(st)
  ELSE LET x == Ask(st, i, "hdr", k, HdrEntry(i, k), i.script.hdr[k], "nr_hdr")
       IN IF x.a.k \notin ContK THEN x ELSE HdrLoop(i, x.st, k + 1)
RECURSIVE BodyLoop(_, _, _)
BodyLoop(i, st, k) ==
  IF k > Len(Chunks(i.body)) \/ Has(i, "nobody") THEN Skipped(st)
  ELSE LET x == Ask(st, i, "body", k, BodyEntry(i, k), i.script.body[k], "nr_body")
       IN IF x.a.k \notin ContK THEN x ELSE BodyLoop(i, x.st, k + 1)

HasQuar(i) == \E k \in 1..Len(i.script.mods) : i.script.mods[k].k = "quar"
FieldOf(m) == m.a \o ": " \o m.b \o "\r\n"
(* "Headers fields can be inserted only on top": every added or inserted    *)
(* field goes on top (the later one above the earlier one)                  *)
RECURSIVE AddedBy(_)
AddedBy(ms) == IF ms = <<>> THEN <<>>
               ELSE AddedBy(Tail(ms)) \o (IF Head(ms).k \in {"addhdr", "inshdr"} THEN <<FieldOf(Head(ms))>> ELSE <<>>)

BodyStage(devs, i, st) ==
  IF st.skip THEN [st |-> st, r |-> OkR, applied |-> FALSE]
  ELSE LET h == HdrLoop(i, st, 1) IN
       IF h.a.k \notin ContK THEN Fin(devs, i, h) @@ [applied |-> FALSE]
       ELSE LET n == IF Has(i, "noeoh") THEN Skipped(h.st)
                     ELSE Ask(h.st, i, "eoh", 0, E("N", <<>>), i.script.eoh, "nr_eoh") IN
       IF n.a.k \notin ContK THEN Fin(devs, i, n) @@ [applied |-> FALSE]
       ELSE IF Unreadable(i)
            \* "Not ioError(err) because fail_open directive is applied only for external I/O"
            THEN [st |-> n.st, r |-> Rej(451, ".7.1", InternalMsg), applied |-> FALSE]
       ELSE LET b == BodyLoop(i, n.st, 1) IN
       IF b.a.k \notin ContK THEN Fin(devs, i, b) @@ [applied |-> FALSE]
       ELSE LET e == Ask(b.st, i, "eob", 0, E("E", <<>>), i.script.fin, "")
                f == Fin(devs, i, e)
                io == IsIo(e.a) \/ (Odd(e.a) /\ "ReplyCodeUnchecked" \notin devs)
            IN IF io THEN f @@ [applied |-> FALSE]
               ELSE IF f.r.k = "rej" /\ HasQuar(i) /\ "QuarantineMasksReject" \in devs
                    THEN [st |-> f.st, r |-> OkR, applied |-> TRUE]
               ELSE f @@ [applied |-> TRUE]

(* the scripted server records the quit packet; the callbacks of go-milter's server do not show it *)
Closing(st, i) == IF st.dead THEN st.seen
                  ELSE st.seen \o (IF st.abort THEN <<E("A", <<>>)>> ELSE <<>>)
                               \o (IF i.srv = "lib" THEN <<>> ELSE <<E("Q", <<>>)>>)

Out(start, rcpt, body, delivered, quar, added, seen, conns, closed, panics) ==
  [start |-> start, rcpt |-> rcpt, body |-> body, delivered |-> delivered, quarantine |-> quar, added |-> added,
   intact |-> TRUE, seen |-> seen, conns |-> conns, closed |-> closed, panics |-> panics]
NaRcpts(i) == [j \in 1..Len(i.rcpts) |-> NaR]
OkRcpts(i) == [j \in 1..Len(i.rcpts) |-> OkR]

RunFull(devs, i) ==
  IF i.srv \notin {"up", "lib"} THEN
     \* the milter cannot be talked to at all: "milter I/O errors" (fail_open)
     LET conns  == IF i.srv = "down" THEN 0 ELSE 1
         closed == TRUE
     IN IF "DialIgnoresFailOpen" \in devs
        THEN [need |-> NoNeed, out |-> Out(Unannotated, NaRcpts(i), NaR, FALSE, FALSE, <<>>, <<>>, conns, closed, 0)]
        ELSE IF FailOpen(i)
        THEN [need |-> NoNeed, out |-> Out(OkR, OkRcpts(i), OkR, TRUE, FALSE, <<>>, <<>>, conns, closed, 0)]
        ELSE [need |-> NoNeed, out |-> Out(Rej(451, ".7.1", IoMsg), NaRcpts(i), NaR, FALSE, FALSE, <<>>, <<>>, conns, closed, 0)]
  ELSE
  LET c == ConnStage(devs, i, St0) IN
  IF c.r.k = "rej"
  THEN [need |-> c.st.need, out |-> Out(c.r, NaRcpts(i), NaR, FALSE, FALSE, <<>>, Closing(c.st, i), 1, TRUE, c.st.panics)]
  ELSE LET m == MailStage(devs, i, c.st) IN
  IF m.r.k = "rej"
  THEN [need |-> m.st.need, out |-> Out(m.r, NaRcpts(i), NaR, FALSE, FALSE, <<>>, Closing(m.st, i), 1, TRUE, m.st.panics)]
  ELSE LET r == RcptStage(devs, i, m.st, 1) IN
  IF \A j \in 1..Len(r.rs) : r.rs[j].k # "ok"
  THEN [need |-> r.st.need, out |-> Out(OkR, r.rs, NaR, FALSE, FALSE, <<>>, Closing(r.st, i), 1, TRUE, r.st.panics)]
  ELSE LET b == BodyStage(devs, i, r.st)
           dl == b.r.k = "ok"
       IN [need |-> b.st.need,
           out |-> Out(OkR, r.rs, b.r, dl, dl /\ b.applied /\ HasQuar(i),
                       IF dl /\ b.applied THEN AddedBy(i.script.mods) ELSE <<>>,
                       Closing(b.st, i), 1, TRUE, b.st.panics)]

Run(devs, i) == RunFull(devs, i).out
Rule(i) == Run({}, i)
AsIs(i) == Run(Devs, i)
Need(i) == RunFull(Devs, i).need

-----------------------------------------------------------------------------
(* Prop: the statement, on (in, out) alone                                  *)
CmdCodes == {"C", "H", "M", "R", "L", "N", "B", "E"}
Cmds(o) == SelectSeq(o.seen, LAMBDA e : e.c \in CmdCodes)
IsPrefix(a, b) == Len(a) <= Len(b) /\ \A k \in 1..Len(a) : a[k] = b[k]
Count(s, n, c) == Cardinality({k \in 1..n : s[k].c = c})
NrOpt(c) == CASE c = "C" -> "nr_conn" [] c = "H" -> "nr_helo" [] c = "M" -> "nr_mail" [] c = "R" -> "nr_rcpt"
              [] c = "L" -> "nr_hdr" [] c = "N" -> "nr_eoh" [] c = "B" -> "nr_body" [] OTHER -> ""
Nth(s, n) == IF n <= Len(s) THEN s[n] ELSE Unk
(* the answer the milter gave to the n-th command it saw *)
AnsAt(i, cs, n) ==
  LET c == cs[n].c
      raw == CASE c = "C" -> i.script.conn [] c = "H" -> i.script.helo [] c = "M" -> i.script.mail
               [] c = "R" -> Nth(i.script.rcpt, Count(cs, n, "R")) [] c = "L" -> Nth(i.script.hdr, Count(cs, n, "L"))
               [] c = "N" -> i.script.eoh [] c = "B" -> Nth(i.script.body, Count(cs, n, "B")) [] OTHER -> i.script.fin
  IN IF Has(i, NrOpt(c)) \/ raw.k = "?" THEN Cont ELSE raw

IoAllowed(i, r) == IF FailOpen(i) THEN r.k = "ok" ELSE TempRej(r)
(* "accept/continue -> no action; reject -> 5xx; tempfail -> 4xx; reply     *)
(* code -> that code, class and enhanced class; discard -> not delivered;   *)
(* an I/O failure follows fail_open"                                        *)
Allowed(i, a, r) ==
  CASE a.k \in ContK \cup {"accept"} -> r.k = "ok"
    [] a.k = "reject"   -> PermRej(r)
    [] a.k = "tempfail" -> TempRej(r)
    [] a.k = "discard"  -> Coherent(r)
    [] a.k = "reply"    -> IF Odd(a) THEN (Coherent(r) /\ r.code # 0) \/ IoAllowed(i, r)
                           ELSE Coherent(r) /\ r.code = a.code /\ r.msg \in {Policy, a.text}
    [] OTHER            -> IoAllowed(i, r)

(* must / may the dialogue end after the n-th command *)
MayEnd(i, cs, n) ==
  LET a == AnsAt(i, cs, n) IN
    \/ a.k = "accept" \/ a.k \in {"drop", "stall"} \/ cs[n].c = "E"
    \/ ((IsIo(a) \/ Odd(a)) /\ FailOpen(i))
    \/ (cs[n].c # "R" /\ a.k \notin ContK)
MustEnd(i, cs, n) ==
  LET a == AnsAt(i, cs, n) IN
    \/ a.k = "accept" \/ a.k \in {"drop", "stall"} \/ cs[n].c = "E"
    \/ (IsIo(a) /\ FailOpen(i))
    \/ (cs[n].c # "R" /\ a.k \notin ContK)
Dropped(i, cs) == \E n \in 1..Len(cs) : AnsAt(i, cs, n).k \in {"drop", "stall"}
(* fail closed and the connection was lost at an earlier stage: the later stages cannot ask and fail alike *)
DeadFC(i, cs) == ~FailOpen(i) /\ \E n \in 1..Len(cs) : cs[n].c \in {"C", "H", "M", "R"} /\ AnsAt(i, cs, n).k \in {"drop", "stall"}
Idx(cs, codes) == {n \in 1..Len(cs) : cs[n].c \in codes}
Max(S) == CHOOSE x \in S : \A y \in S : y <= x
KVs(a) == {<<a[k], a[k + 1]>> : k \in {x \in 2..(Len(a) - 1) : x % 2 = 0}}

Viol(i, o) ==
  LET cs == Cmds(o)
      up == i.srv \in {"up", "lib"}
      startOk == o.start.k = "ok"
      anyRcpt == \E j \in 1..Len(o.rcpt) : o.rcpt[j].k = "ok"
      rIdx(j) == {n \in 1..Len(cs) : cs[n].c = "R" /\ Count(cs, n, "R") = j}
      fin == IF i.script.fin.k = "?" THEN Cont ELSE i.script.fin
      eob == \E n \in 1..Len(cs) : cs[n].c = "E"
      finOk == eob /\ fin.k \in ContK \cup {"accept"}
  IN
  (* the server never crashes on a milter's answer *)
  (IF o.panics = 0 THEN {} ELSE {"NoCrash"})
  \cup
  (* the milter sees the steps of the real session, each at most once, in order, with the real values *)
  (IF IsPrefix(cs, FullSeq(i)) THEN {} ELSE {"StepsInOrder"})
  \cup
  (* nothing is sent once the dialogue is over; no step is withheld while it goes on *)
  (IF \A n \in 1..(Len(cs) - 1) : ~MustEnd(i, cs, n) THEN {} ELSE {"SilentAfterEnd"})
  \cup
  (IF ~up \/ ~IsPrefix(cs, FullSeq(i)) \/ Len(cs) = Len(FullSeq(i))
      \/ (Len(cs) > 0 /\ MayEnd(i, cs, Len(cs)))
      \/ (Unreadable(i) /\ Len(cs) = Len(FullSeq(i)) - 1)        \* everything but end-of-body
      \/ (Len(cs) > 0 /\ Last(cs).c = "R" /\ Count(cs, Len(cs), "R") = Len(i.rcpts)
          /\ \A n \in Idx(cs, {"R"}) : AnsAt(i, cs, n).k \notin ContK)
   THEN {} ELSE {"EveryStepShown"})
  \cup
  (* macros: the packet directly precedes its command; MAIL carries the queue id and the authenticated user *)
  (IF /\ \A k \in 1..(Len(o.seen) - 1) : o.seen[k].c = "D" => (Len(o.seen[k].a) >= 1 /\ o.seen[k + 1].c = o.seen[k].a[1])
      /\ \A k \in 1..Len(o.seen) : o.seen[k].c = "M" =>
            /\ k > 1 /\ o.seen[k - 1].c = "D"
            /\ <<"i", i.msgid>> \in KVs(o.seen[k - 1].a)
            /\ (AuthOf(i) # "" => <<"auth_authen", AuthOf(i)>> \in KVs(o.seen[k - 1].a))
            /\ (AuthOf(i) = "" => \A kv \in KVs(o.seen[k - 1].a) : kv[1] # "auth_authen")
      /\ \A k \in 1..Len(o.seen) : (o.seen[k].c = "H" /\ i.conn.kind # "nil" /\ i.conn.tls # "none") =>
            /\ k > 1 /\ o.seen[k - 1].c = "D"
            /\ <<"tls_version", TlsName(i.conn.tls)>> \in KVs(o.seen[k - 1].a)
   THEN {} ELSE {"Macros"})
  \cup
  (* one connection per message, ended by the client: abort (if any) and quit come last *)
  (IF /\ o.conns = (IF i.srv = "down" THEN 0 ELSE 1)
      /\ o.closed
      /\ (up /\ i.srv = "up" /\ ~Dropped(i, cs)) => (Len(o.seen) > 0 /\ Last(o.seen).c = "Q")
      /\ \A k \in 1..Len(o.seen) : o.seen[k].c = "Q" => k = Len(o.seen)
      /\ \A k \in 1..Len(o.seen) : o.seen[k].c = "A" => (k = Len(o.seen) \/ o.seen[k + 1].c = "Q")
   THEN {} ELSE {"ConnectionClosed"})
  \cup
  (* translation of the answers, stage by stage *)
  (IF ~up THEN (IF IoAllowed(i, o.start) THEN {} ELSE {"IoFollowsFailOpen"})
   ELSE LET S == Idx(cs, {"C", "H", "M"}) IN
        IF S = {} THEN (IF startOk THEN {} ELSE {"Translation"})
        ELSE IF Allowed(i, AnsAt(i, cs, Max(S)), o.start) THEN {}
        ELSE IF IsIo(AnsAt(i, cs, Max(S))) THEN {"IoFollowsFailOpen"} ELSE {"Translation"})
  \cup
  UNION {IF ~startOk THEN (IF o.rcpt[j].k = "n/a" THEN {} ELSE {"Translation"})
         ELSE IF ~up THEN (IF o.rcpt[j].k = "ok" THEN {} ELSE {"IoFollowsFailOpen"})
         ELSE IF rIdx(j) = {} THEN (IF (IF DeadFC(i, cs) THEN TempRej(o.rcpt[j]) ELSE o.rcpt[j].k = "ok") THEN {}
                                    ELSE {"IoFollowsFailOpen"})
         ELSE LET a == AnsAt(i, cs, Max(rIdx(j))) IN
              IF Allowed(i, a, o.rcpt[j]) THEN {} ELSE IF IsIo(a) THEN {"IoFollowsFailOpen"} ELSE {"Translation"}
         : j \in 1..Len(o.rcpt)}
  \cup
  (IF Len(o.rcpt) # Len(i.rcpts) THEN {"Translation"} ELSE {})
  \cup
  (IF ~startOk \/ ~anyRcpt THEN (IF o.body.k = "n/a" THEN {} ELSE {"Translation"})
   ELSE IF ~up THEN (IF o.body.k = "ok" THEN {} ELSE {"IoFollowsFailOpen"})
   ELSE LET S == Idx(cs, {"L", "N", "B", "E"}) IN
        IF S = {} THEN (IF (IF DeadFC(i, cs) \/ (Unreadable(i) /\ Len(cs) = Len(FullSeq(i)) - 1
                                                  /\ ~(Len(cs) > 0 /\ MayEnd(i, cs, Len(cs)))) THEN TempRej(o.body)
                                ELSE o.body.k = "ok") THEN {} ELSE {"IoFollowsFailOpen"})
        ELSE LET a == AnsAt(i, cs, Max(S)) IN
             \* a local failure of the server refuses the message with a temporary code, whatever fail_open says
             IF Unreadable(i) /\ a.k \in ContK /\ cs[Max(S)].c \in {"L", "N"} /\ Max(S) = Len(FullSeq(i)) - 1
             THEN (IF TempRej(o.body) THEN {} ELSE {"LocalFailure"})
             ELSE IF Allowed(i, a, o.body) THEN {} ELSE IF IsIo(a) THEN {"IoFollowsFailOpen"} ELSE {"Translation"})
  \cup
  (* what the target gets: the message iff nothing refused it; the quarantine flag iff the milter asked for it;  *)
  (* the added header fields, byte for byte, on top of the untouched original ones                                *)
  (IF o.delivered = (startOk /\ anyRcpt /\ o.body.k = "ok") THEN {} ELSE {"Delivery"})
  \cup
  (IF o.delivered => (o.quarantine = (up /\ finOk /\ HasQuar(i))) THEN {} ELSE {"QuarantineAction"})
  \cup
  (IF o.delivered =>
        /\ o.intact
        /\ LET want == IF up /\ finOk THEN AddedBy(i.script.mods) ELSE <<>>
           IN Len(o.added) = Len(want) /\ Range(o.added) = Range(want)
   THEN {} ELSE {"HeaderModification"})

Prop(i, o) == Viol(i, o) = {}

SameOut(a, b) == a = b

(* sets of deviations (of D) that reproduce an observed output exactly *)
Explains(D, i, o) == {d \in D : SameOut(o, Run(d, i))}

-----------------------------------------------------------------------------
(* the input space                                                          *)
Reply451 == Reply(451, "4.7.1 Try again later")
Reply554 == Reply(554, "5.7.1 Spam message rejected")
Reply550 == Reply(550, "Go away")
Reply250 == Reply(250, "2.0.0 Ok")
AllAns  == {Cont, A("accept"), A("reject"), A("tempfail"), A("discard"), Reply451, Reply554, Reply550, Reply250,
            A("drop"), A("garbage"), A("badreply")}
SomeAns == {Cont, A("accept"), A("reject"), A("tempfail"), Reply451, A("drop")}
FewAns  == {Cont, A("reject")}
IoAns   == {Cont, A("drop"), A("garbage"), A("badreply")}
LibAns  == {Cont, A("accept"), A("reject"), A("tempfail"), A("discard"), Reply451, Reply554, A("drop"), A("garbage")}

Mod(k, a, b, idx) == [k |-> k, a |-> a, b |-> b, idx |-> idx]
AddA == Mod("addhdr", "X-Verif-A", "one", 0)
InsB == Mod("inshdr", "X-Verif-B", "two\r\n\tfolded", 1)
InsC == Mod("inshdr", "X-Verif-C", "three", 3)
Quar == Mod("quar", "verif says spam", "", 0)
ModSets == <<
  <<>>, <<AddA>>, <<Quar>>, <<AddA, Quar>>, <<Mod("chghdr", "Subject", "changed", 1)>>,
  <<InsC>>, <<AddA, InsB>>, <<InsB>>, <<Mod("addrcpt", "<x@rcpt.test>", "", 0)>>, <<Mod("delrcpt", "<r1@rcpt.test>", "", 0)>>,
  <<Mod("chgfrom", "<b@sender.test>", "", 0)>>, <<Mod("replbody", "replaced body\r\n", "", 0)>> >>
ModsFor(tab) == IF tab = "main" /\ Full THEN Range(ModSets)
                ELSE IF tab = "main" THEN {ModSets[k] : k \in 1..7}
                \* go-milter's server rewrites CRLF inside a header value to LF ("postfix wants LF"): no folded value there
                ELSE IF tab = "lib" THEN {ModSets[k] : k \in 1..6}
                ELSE {ModSets[1], ModSets[4]}

AnsFor(tab) == CASE tab \in {"main"} -> AllAns
                 [] tab \in {"body", "mixed", "place"} -> SomeAns
                 [] tab = "fo" -> IoAns
                 [] tab = "lib" -> LibAns
                 [] tab \in {"proto", "nr"} -> FewAns
                 [] tab = "prog" -> {A("pcont")}
                 [] OTHER -> {Cont}
FinFor(tab) == CASE tab \in {"conn", "hdr", "net", "ver"} -> {A("accept")}
                 [] tab = "prog" -> {A("accept")}
                 [] tab \in {"proto", "nr"} -> {A("accept"), A("reject")}
                 [] OTHER -> AnsFor(tab)

Script0(nr, nh, nb) ==
  [conn |-> Unk, helo |-> Unk, mail |-> Unk, rcpt |-> [j \in 1..nr |-> Unk], hdr |-> [k \in 1..nh |-> Unk],
   eoh |-> Unk, body |-> [k \in 1..nb |-> Unk], mods |-> <<>>, fin |-> Unk]
Rcpts(n) == SubSeq(<<"r1@rcpt.test", "r2@rcpt.test">>, 1, n)

Row(tab, conn, utf8, from, nr, hdr, body, fo, srv, net, form, ver, proto) ==
  [sub |-> "milter", tab |-> tab, msgid |-> "verifmsg01", conn |-> conn, utf8 |-> utf8, from |-> from, rcpts |-> Rcpts(nr),
   hdr |-> hdr, body |-> body, place |-> "global", fo |-> fo, srv |-> srv, net |-> net, form |-> form, ver |-> ver, proto |-> proto,
   script |-> Script0(nr, Len(hdr), Len(Chunks(body)))]
(* the large tables talk to the milter over a unix socket, the session / endpoint tables over TCP (every TCP     *)
(* connection of the client leaves a port in TIME_WAIT for a minute; tens of thousands of rows would exhaust the  *)
(* ports of the machine)                                                                                           *)
Base(tab, fo) == Row(tab, C4, FALSE, "a@sender.test", 1, Hdr2, "small", fo, "up",
                     IF tab \in {"conn", "net", "srv"} THEN "tcp" ELSE "unix", "inline", 6, <<>>)

ProtoSets == {<<"noconnect">>, <<"nohelo">>, <<"nomail">>, <<"norcpt">>, <<"nobody">>, <<"nohdrs">>, <<"noeoh">>,
              <<"noconnect", "nohelo">>, <<"nohdrs", "noeoh", "nobody">>, <<"nomail", "norcpt">>}
NrSets == {<<"nr_conn">>, <<"nr_helo">>, <<"nr_mail">>, <<"nr_rcpt">>, <<"nr_hdr">>, <<"nr_eoh">>, <<"nr_body">>,
           <<"nr_conn", "nr_helo", "nr_mail", "nr_rcpt", "nr_hdr", "nr_eoh", "nr_body">>}
(* (a) every answer at every step, fail_open yes / no *)
InMain == \E fo \in {"yes", "no"} : in = [Base("main", fo) EXCEPT !.rcpts = Rcpts(MaxRcpt), !.script = Script0(MaxRcpt, 2, 1)]
(* (b) fail_open absent = no *)
InFo == in = Base("fo", "absent")
(* (c) the values of the session: address families, TLS, authentication, SMTPUTF8, null sender, nil connection *)
InConn ==
  \/ \E c \in ConnKinds, t \in TlsKinds, au \in {"", "user@sender.test"}, u8 \in BOOLEAN, v \in {2, 6} :
       /\ Full \/ (t \in {"none", "1.3"} /\ v = 6)
       /\ c.kind = "nil" => (t = "none" /\ au = "" /\ ~u8 /\ v = 6)
       /\ in = [Base("conn", "no") EXCEPT !.conn = [c EXCEPT !.tls = t, !.auth = au], !.utf8 = u8, !.ver = v]
  \/ \E fo \in {"yes", "no"} : in = [Base("conn", fo) EXCEPT !.from = ""]
  \/ \E fo \in {"yes", "no"} : in = [Base("nilconn", fo) EXCEPT !.conn = NilConn, !.rcpts = Rcpts(2), !.script = Script0(2, 2, 1)]
(* (d) negotiated protocol options *)
InProto == \E p \in ProtoSets : in = [Base("proto", "no") EXCEPT !.proto = p]
InNr == Full /\ \E p \in NrSets : in = [Base("nr", "no") EXCEPT !.proto = p]
(* (e) the milter cannot be talked to *)
InSrv == \E s \in {"down", "negdrop", "negbad"}, fo \in {"absent", "yes", "no"}, n \in {"tcp", "unix"}, fm \in {"inline", "directive"} :
           in = [Base("srv", fo) EXCEPT !.srv = s, !.net = n, !.form = fm]
InNegVer == \E fo \in {"yes", "no"} : in = [Base("srv", fo) EXCEPT !.srv = "negver", !.ver = 1]
(* (f) endpoint forms *)
InNet == \E n \in {"tcp", "unix"}, fm \in {"inline", "directive"} : in = [Base("net", "no") EXCEPT !.net = n, !.form = fm]
(* (g) body sizes, header shapes *)
InBody == \E b \in {"empty", "big"}, fo \in {"yes", "no"} :
            in = [Base("body", fo) EXCEPT !.body = b, !.script = Script0(1, 2, Len(Chunks(b)))]
InUnreadable == \E fo \in {"yes", "no"}, p \in {<<>>, <<"nobody">>, <<"nohdrs", "noeoh">>} :
                  in = [Base("body", fo) EXCEPT !.body = "unreadable", !.proto = p, !.script = Script0(1, 2, 0)]
(* (g2) the check written in a source / destination block: same dialogue, same answers *)
InPlace == \E pl \in {"global", "source", "destination"}, fo \in {"yes", "no"} :
             in = [Base("place", fo) EXCEPT !.place = pl, !.rcpts = Rcpts(2), !.script = Script0(2, 2, 1)]
InHdr == in = [Base("hdr", "no") EXCEPT !.hdr = HdrOdd, !.script = Script0(1, Len(HdrOdd), 1)]
(* (h) the server side of go-milter as the milter *)
InLib == \E fo \in {"yes", "no"} : in = [Base("lib", fo) EXCEPT !.srv = "lib", !.ver = 2]
(* (i) progress packets before the answer *)
InProg == in = Base("prog", "no")
(* (j) a milter that stops answering: the client's own time-out ends the step *)
Stalled(fo, s) ==
  LET b == Base("stall", fo)
      sc == [b.script EXCEPT !.conn = Cont, !.helo = Cont, !.mail = Cont, !.rcpt = <<Cont>>, !.hdr = <<Cont, Cont>>,
                             !.eoh = Cont, !.body = <<Cont>>, !.fin = A("accept")]
  IN [b EXCEPT !.script = CASE s = "conn" -> [sc EXCEPT !.conn = A("stall")]
                            [] s = "mail" -> [sc EXCEPT !.mail = A("stall")]
                            [] s = "rcpt" -> [sc EXCEPT !.rcpt = <<A("stall")>>]
                            [] s = "eoh"  -> [sc EXCEPT !.eoh = A("stall")]
                            [] OTHER      -> [sc EXCEPT !.fin = A("stall")]]
InStall == \E fo \in {"yes", "no"}, s \in (IF Full THEN {"conn", "mail", "rcpt", "eoh", "eob"} ELSE {"mail", "eob"}) :
             in = Stalled(fo, s)

(* (k) mixed table: Seed-dependent complete rows crossing the dimensions *)
Draw(n, k) == HH(HH(HH(Seed * 911 + n) + 31 * k) + n + k)
RAns == <<Cont, Cont, Cont, Cont, Cont, Cont, A("accept"), A("reject"), A("tempfail"), A("discard"), Reply451, Reply554,
          Reply550, A("drop"), A("garbage"), A("badreply"), A("pcont")>>
RConns == <<C4, C4, Conn("mapped", "198.51.100.77", "mapped.sender.test", "", "none"),
            Conn("tcp6", "2001:db8:0:1::25", "six.sender.test", "", "none"),
            Conn("unix", "/run/verif/client.sock", "local.sender.test", "", "none"),
            Conn("other", "", "odd.sender.test", "", "none")>>
RProto == <<<<>>, <<>>, <<>>, <<>>, <<"noconnect">>, <<"nohelo">>, <<"nomail">>, <<"norcpt">>, <<"nobody">>, <<"nohdrs">>,
            <<"noeoh">>, <<"nr_rcpt">>, <<"nr_hdr", "nr_body">>, <<"nohelo", "nobody">>>>
RandRow(n) ==
  LET d(k) == Draw(n, k)
      nr == (d(1) % 2) + 1
      bd == Pick(<<"small", "small", "small", "empty", "big", "unreadable">>, d(2))
      hd == Pick(<<Hdr2, Hdr2, HdrOdd>>, d(3))
      c0 == Pick(RConns, d(4))
      cn == [c0 EXCEPT !.tls = Pick(<<"none", "none", "1.2", "1.3">>, d(5)),
                       !.auth = Pick(<<"", "", "user@sender.test">>, d(6))]
      b == Row("mixed", cn, d(7) % 3 = 0, Pick(<<"a@sender.test", "a@sender.test", "">>, d(8)), nr, hd, bd,
               Pick(<<"yes", "no", "absent">>, d(9)), "up", Pick(<<"unix", "unix", "unix", "unix", "unix", "unix", "unix", "unix", "unix", "unix", "unix", "tcp">>, d(10)),
               Pick(<<"inline", "directive">>, d(11)),
               Pick(<<6, 6, 2>>, d(12)), Pick(RProto, d(13)))
      \* most commands continue, so that the later steps are reached
      an(k) == Pick(RAns, d(k))
  IN [b EXCEPT !.script = [conn |-> an(20), helo |-> an(21), mail |-> an(22), rcpt |-> [j \in 1..nr |-> an(22 + j)],
                           hdr |-> [k \in 1..Len(hd) |-> an(25 + k)], eoh |-> an(30),
                           body |-> [k \in 1..Len(Chunks(bd)) |-> an(30 + k)],
                           mods |-> Pick(ModSets, d(33)), fin |-> an(34) ]]
InMixed == \E n \in 1..RandN : in = RandRow(n)

-----------------------------------------------------------------------------
Init == InMain \/ InFo \/ InConn \/ InProto \/ InNr \/ InSrv \/ InNegVer \/ InNet \/ InBody \/ InUnreadable \/ InPlace
        \/ InHdr \/ InLib \/ InProg \/ InStall \/ InMixed

Reveal(s) == Need(in).s = s
(* the placement table keeps the stages before the first recipient going: a refusal there is reported at MAIL  *)
(* or at RCPT depending on when the pipeline creates the state, which is msgpipeline's business (C06)          *)
EarlyAns(tab) == IF tab = "place" THEN {Cont} ELSE AnsFor(tab)
RevealConn == Reveal("conn") /\ \E a \in EarlyAns(in.tab) : in' = [in EXCEPT !.script.conn = a]
RevealHelo == Reveal("helo") /\ \E a \in EarlyAns(in.tab) : in' = [in EXCEPT !.script.helo = a]
RevealMail == Reveal("mail") /\ \E a \in EarlyAns(in.tab) : in' = [in EXCEPT !.script.mail = a]
(* (a refusal of the first recipient of a destination block makes the pipeline drop the state it has just       *)
(* created; the next recipient gets a new state, i.e. a second connection and a replayed envelope: msgpipeline's  *)
(* business as well, see extensions/X07.md)                                                                        *)
RcptAns(tab, j) == IF tab = "place" /\ j = 1 THEN {Cont} ELSE AnsFor(tab)
RevealRcpt == Reveal("rcpt") /\ \E a \in RcptAns(in.tab, Need(in).j) : in' = [in EXCEPT !.script.rcpt[Need(in).j] = a]
RevealHdr  == Reveal("hdr")  /\ \E a \in AnsFor(in.tab) : in' = [in EXCEPT !.script.hdr[Need(in).j] = a]
RevealEoh  == Reveal("eoh")  /\ \E a \in AnsFor(in.tab) : in' = [in EXCEPT !.script.eoh = a]
RevealBody == Reveal("body") /\ \E a \in AnsFor(in.tab) : in' = [in EXCEPT !.script.body[Need(in).j] = a]
RevealEob  == Reveal("eob")  /\ \E a \in FinFor(in.tab), ms \in ModsFor(in.tab) :
                                   in' = [in EXCEPT !.script.fin = a, !.script.mods = ms]
Next == RevealConn \/ RevealHelo \/ RevealMail \/ RevealRcpt \/ RevealHdr \/ RevealEoh \/ RevealBody \/ RevealEob
Spec == Init /\ [][Next]_vars

Complete(i) == Need(i) = NoNeed

(* TLC: the documented procedure satisfies the property on every row (also on the partial ones, whose open      *)
(* answers read "continue")                                                                                      *)
RuleSatisfiesProp == Prop(in, Rule(in))
(* theorems behind the statement: the procedure shows the milter a prefix of the protocol sequence, never talks  *)
(* after the end, and its results depend on the answers only through the translation                             *)
RuleShape ==
  LET o == Rule(in) IN
    /\ IsPrefix(Cmds(o), FullSeq(in))
    /\ o.conns <= 1 /\ o.closed /\ o.panics = 0
    /\ (o.delivered => o.start.k = "ok")
    /\ (o.quarantine => o.delivered)
(* as-is configuration: the code's deviations must violate the property on some complete row *)
AsIsSatisfiesProp == Complete(in) => Prop(in, AsIs(in))

Emit == (Gen /\ Complete(in)) => PrintT(<<"ROW", ToJson([in |-> in, exp |-> Rule(in)])>>)
=============================================================================
