------------------------------ MODULE AuthObs ------------------------------
(***************************************************************************)
(* Observation state and property predicates of password authentication   *)
(* (property C14).  Everything here is a pure function of what is visible *)
(* at the API of internal/auth/pass_table (account management calls and   *)
(* their results), of auth.SASLAuth.CreateSASL (outcome and reported      *)
(* identity of real SASL PLAIN / LOGIN exchanges) and of the submission   *)
(* endpoint (SMTP replies to AUTH and MAIL).                               *)
(*                                                                         *)
(* The same operators fold `obs` in the design spec (Auth.tla, explored   *)
(* exhaustively by TLC) and in the trace spec (AuthTrace.tla, fed with    *)
(* events recorded from the real code).                                    *)
(*                                                                         *)
(* Vocabulary                                                              *)
(*   spelling  [u, v]: u = the canonical user the spelling stands for     *)
(*             ("ua", "ub": may own an account; "ux": never has one;      *)
(*             "bad": a string the PRECIS UsernameCaseMapped profile      *)
(*             refuses), v = how it is spelled ("plain" = the canonical   *)
(*             form, "upper", "nfd", "wide", ...).  Norm is the           *)
(*             normalisation the documentation promises (RFC 8265: width  *)
(*             mapping, case mapping, NFC): every variant of u maps to u. *)
(*   password  an opaque identifier; two identifiers are two different    *)
(*             octet strings (no normalisation of passwords is promised). *)
(*   map       the user-name map (auth_map) as a function on names.       *)
(*             "other" = some string outside the universe that never has  *)
(*             an account; "none" = no mapping -> invalid credentials.    *)
(***************************************************************************)
EXTENDS Naturals, Sequences, FiniteSets

Users  == {"ua", "ub"}
Names  == Users \cup {"ux", "other"}
Absent == [pw |-> "-", sch |-> "-"]
NoId   == [u |-> "-", v |-> "-"]

(* v = "fold": a string that simple case folding (strings.EqualFold) equates with a
   spelling of u but that the promised normalisation keeps apart - final sigma
   U+03C2 for sigma U+03C3 - i.e. the name of ANOTHER account ("twin") *)
Norm(sp) == IF sp.u \in {"ua", "ub", "ux"}
            THEN (IF sp.v = "fold" THEN "twin" ELSE sp.u)
            ELSE "invalid"

(* ua = "zoë", ub = "zoë@example.org", ux = "mallory" in the harness.     *)
MapIds == {"none", "identity", "s_ab", "s_swap", "s_id", "s_ba", "s_proj",
           "r_strip", "r_append", "b_local", "b_localopt", "r_class", "r_dollar", "r_alt"}

Only(pairs) == [n \in Names |-> IF \E p \in pairs : p[1] = n
                                THEN (CHOOSE p \in pairs : p[1] = n)[2] ELSE "none"]

MapF(id) ==
  CASE id \in {"none", "identity"} -> [n \in Names |-> n]
    [] id = "s_ab"      -> Only({<<"ua", "ub">>})                       \* static, non-idempotent
    [] id = "s_swap"    -> Only({<<"ua", "ub">>, <<"ub", "ua">>})       \* static, an involution
    [] id = "s_id"      -> Only({<<"ua", "ua">>, <<"ub", "ub">>})       \* static, idempotent
    [] id = "s_ba"      -> Only({<<"ub", "ua">>})                       \* static, non-idempotent
    [] id = "s_proj"    -> Only({<<"ua", "ub">>, <<"ub", "ub">>})       \* static, idempotent projection
    [] id = "r_strip"   -> Only({<<"ub", "ua">>})                       \* regexp ^(.+)@example\.org$ -> $1
    [] id = "r_append"  -> Only({<<"ua", "ub">>, <<"ub", "other">>,     \* regexp ^(.+)$ -> $1@example.org
                                 <<"ux", "other">>, <<"other", "other">>})
    \* regexp maps without written anchors: table.regexp's full_match (default yes) promises
    \* that "the provided regular expression should match the whole string", so a name that
    \* merely contains a covered name (the "ux" spellings pre_*/suf_*) is not covered
    [] id = "r_class"   -> Only({<<"ub", "ua">>})                       \* regexp ua(\+[^@]*)?@dom -> ua
    [] id = "r_dollar"  -> Only({<<"ub", "ua">>, <<"ua", "ua">>})       \* regexp ua(@dom|$) -> ua
    [] id = "r_alt"     -> Only({<<"ub", "ua">>})                       \* regexp ub|ua\+[a-z]+@dom -> ua
    [] id = "b_local"   -> Only({<<"ub", "ua">>})                       \* table.email_localpart
    [] id = "b_localopt" -> Only({<<"ub", "ua">>, <<"ua", "ua">>, <<"ux", "ux">>})  \* ..._optional

Ap(f, n) == IF n \in DOMAIN f THEN f[n] ELSE "none"

(* the account the supplied user name stands for *)
Account(mapid, sp) ==
  LET n == Norm(sp) IN IF n = "invalid" THEN "none" ELSE Ap(MapF(mapid), n)

(* "the supplied password is the one most recently set for the account    *)
(*  that the supplied user name normalizes to"                            *)
Cur(ref, mapid, sp, pw) ==
  LET t == Account(mapid, sp) IN t \in Users /\ ref[t] # Absent /\ ref[t].pw = pw

(* two reported identities denote the same account (weaker reading: equal *)
(* up to the promised normalisation; byte equality is only reported)      *)
SameId(a, b) == Norm(a) # "invalid" /\ Norm(a) = Norm(b)

ObsInit == [ ref     |-> [u \in Users |-> Absent],  \* reference credential table
             sawAuth |-> FALSE,                     \* a 235 was seen on the open connection
             viol    |-> {} ]                       \* predicates violated by the LAST event

Z(o) == [o EXCEPT !.viol = {}]
V(o, c, name) == IF c THEN o ELSE [o EXCEPT !.viol = @ \cup {name}]

(* account management: the table changes exactly when the call reported success *)
(* CreateReplacedExisting: a creation is not a password change - one that reports success *)
(* for an account that exists (under whatever spelling of its name) replaced the        *)
(* current password of that account by something no password change set.  The reference *)
(* table still follows what the call reported, so later decisions are judged against    *)
(* what the code says it did.                                                           *)
ObsCreate(o, sp, pw, sch, res) ==
  LET n  == Norm(sp)
      o1 == V(Z(o), ~(res = "ok" /\ n \in Users /\ o.ref[n] # Absent), "CreateReplacedExisting")
  IN IF res = "ok" /\ n \in Users
     THEN [o1 EXCEPT !.ref[n] = [pw |-> pw, sch |-> sch]] ELSE o1
ObsSetPw(o, sp, pw, res) ==
  IF res = "ok" /\ Norm(sp) \in Users
  THEN [Z(o) EXCEPT !.ref[Norm(sp)] = [pw |-> pw, sch |-> "bcrypt"]] ELSE Z(o)
ObsDelete(o, sp, res) ==
  IF res = "ok" /\ Norm(sp) \in Users
  THEN [Z(o) EXCEPT !.ref[Norm(sp)] = Absent] ELSE Z(o)

(* one SASL exchange.  az: "empty" | "same" (authzid = the authcid string) |  *)
(* "variant" (another spelling of the same user) | "other" (another user) |   *)
(* "fold" (another account whose name is fold-equal to the authcid).          *)
(* id = the identity handed to the session on success: it must name the       *)
(* authenticated account (the supplied user name, whatever the user-name map  *)
(* does to find the credentials).                                             *)
Auth1(o, mapid, sp, pw, az, ok, id) ==
  LET cur == Cur(o.ref, mapid, sp, pw)
      o1  == V(o,  ok => cur, "AcceptedNotCurrent")
      o2  == V(o1, (az \in {"empty", "same"} /\ cur) => ok, "RefusedCurrent")
      o3  == V(o2, (az \in {"other", "fold"}) => ~ok, "AuthzidMismatchAccepted")
  IN  V(o3, ok => SameId(id, sp), "IdentityNotAuthenticated")

ObsAuth(o, mapid, sp, pw, az, ok, id) == Auth1(Z(o), mapid, sp, pw, az, ok, id)

(* module.PlainAuth.AuthPlain of the credential table called directly (no SASL  *)
(* front-end, hence no user-name map): pass_table normalises the name itself  *)
ObsDirect(o, sp, pw, ok) == Auth1(Z(o), "none", sp, pw, "empty", ok, sp)   \* no identity is reported

(* PLAIN and LOGIN with the same credentials on the same table *)
ObsPair(o, mapid, sp, pw, pok, pid, lok, lid) ==
  LET o1 == Auth1(Auth1(Z(o), mapid, sp, pw, "empty", pok, pid), mapid, sp, pw, "empty", lok, lid)
      o2 == V(o1, pok = lok, "MechDecisionDisagree")
  IN  V(o2, (pok /\ lok) => SameId(pid, lid), "MechIdentityDisagree")

(* the submission endpoint *)
ObsSOpen(o)  == [Z(o) EXCEPT !.sawAuth = FALSE]
ObsSAuth(o, mapid, sp, pw, res) ==
  IF res = "already" THEN Z(o)
  ELSE [Auth1(Z(o), mapid, sp, pw, "empty", res = "ok", sp) EXCEPT !.sawAuth = @ \/ (res = "ok")]
ObsSMail(o, res) == V(Z(o), (res = "ok") => o.sawAuth, "MailBeforeAuth")
=============================================================================
