\* the code as it is: every named deviation on - expected to violate NoViolation
SPECIFICATION Spec
CONSTANTS
  Rcpts = {"rb"}
  NTs = {2}
  Lmtps = {TRUE, FALSE}
  Holds = {TRUE, FALSE}
  Fails = {"perm"}
  MaxFaults = 1
  MaxCmds = 5
  MaxEnv = 0
  EnvPlan = "any"
  Allowed = {"*"}
  Devs = {"DataFailNoAbort", "CommitStopsAtFirst", "LmtpStatusKey", "EhloNoLogout", "MailRawSender", "NestedMail", "LmtpCommitErrLost", "LmtpCommitAfterReject"}
  Gen = FALSE
VIEW View
INVARIANTS NoViolation
