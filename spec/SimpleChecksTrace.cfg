SPECIFICATION TSpec
CONSTANTS
  Full = FALSE
  Devs = {}
  Gen = FALSE
  OpenDevs = {"MxLookupULabel", "FirstPtrOnly"}
CHECK_DEADLOCK FALSE
POSTCONDITION Post
