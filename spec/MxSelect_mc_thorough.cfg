\* reference configuration (lib/checks/x16.py: thorough tier, run "mc-order")
SPECIFICATION Spec
CONSTANTS
  Domains = {"d1"}
  FactSet <- FactsOrder3
  Outs <- AllOuts
  MailRs = {"ok", "m4", "m5", "mdrop"}
  RcptRs = {"ok", "r4", "r5"}
  DotRs = {"ok", "d4", "d5"}
  Lps <- Lps2
  WithNoDom = TRUE
  MaxDeliv = 1
  Devs = {}
  Gen = FALSE
VIEW View
INVARIANTS NoViolation TypeOK
