----------------------------- MODULE InboundAuth -----------------------------
(***************************************************************************)
(* X03 - the inbound authentication checks (check.spf, check.dkim) apply   *)
(* exactly the configured action for every result and report it truthfully *)
(* (internal/check/spf/spf.go, internal/check/dkim/dkim.go, how their       *)
(* results travel through internal/msgpipeline/check_runner.go into the     *)
(* Authentication-Results field and into the DMARC evaluation;              *)
(* docs/reference/checks/spf.md, dkim.md, actions.md).                      *)
(*                                                                         *)
(* Decision tables (BUILDING.md pattern B).  One state per input row.       *)
(*                                                                         *)
(* SPF rows   in = [tab |-> "spf", sub, res, how, act, early, sender, dm,   *)
(*                  place, conn, pdmarc, al]                                *)
(*   res     outcome of the SPF evaluation of the identity RFC 7208 2.4     *)
(*           names (MAIL FROM domain; HELO name for the null reverse-path)  *)
(*   how     the DNS situation that yields it (record text is in ZoneOf)    *)
(*   act     what the configuration says for THAT outcome ("default" = the  *)
(*           directive is absent); every other outcome gets a decoy action  *)
(*           of another class, so a cross-wired directive shows              *)
(*   early   enforce_early: "default" (absent) | "no" | "yes"               *)
(*   sender  "plain" bounce@mf.example | "upper" | "idn" (U-label domain,   *)
(*           SMTPUTF8) | "null" (empty reverse-path)                        *)
(*   dm      DMARC situation of the RFC5322.From domain (what the deferral  *)
(*           of spf.md "DMARC override" looks at)                           *)
(*   place   where the check is configured: global | source | dest block    *)
(*   conn    "tcp4" | "tcp6" | "unix" (no IP) | "local" (no connection)     *)
(*   pdmarc  the pipeline itself evaluates DMARC ("dmarc yes")              *)
(*   al      (pdmarc rows) the From domain equals the SPF identity          *)
(*                                                                         *)
(* DKIM rows  in = [tab |-> "dkim", sub, sigs, act, failopen, req, subset]  *)
(*   sigs    the DKIM-Signature fields of the message, top to bottom, each  *)
(*           [k |-> kind, d |-> signing domain]; kinds are REAL signatures  *)
(*           made by the harness (see Kinds)                                *)
(*   act     the action configured for the situation of the row             *)
(*           (no_sig_action when sigs = <<>>, broken_sig_action otherwise); *)
(*           the other directive gets a decoy                               *)
(*   failopen "default" | "no" | "yes"                                      *)
(*   req     required_fields: "default" (From Subject) | "from" | "fst" (+To) *)
(*           | "lc" (from subject, lower case)                              *)
(*   subset  allow_body_subset: "absent" | the value in the documented block *)
(*                                                                         *)
(* Every row also has  forged: Authentication-Results fields the CLIENT put *)
(*   into the message: "none" | "own" (bearing the server's own authserv-id *)
(*   and claiming spf=pass / dkim=pass for forged.example) | "owncase"      *)
(*   (the id in upper case) | "ownver" (id followed by a version) |         *)
(*   "foreign" (another server's id).                                       *)
(*                                                                         *)
(* Joint rows in = [tab |-> "joint", ...]: check.spf + check.dkim + the     *)
(*   pipeline's DMARC on one message (the composition spf.md promises).     *)
(*                                                                         *)
(* Output  out = [cfg, stage, class, code, enh, ar]                         *)
(*   cfg    "ok" | "error" (the configuration was refused)                  *)
(*   stage  where the pipeline refused: "mail" | "rcpt" | "body" | "none"   *)
(*   class  "accept" | "quarantine" | "permreject" | "tempreject"           *)
(*   code, enh  SMTP code / enhanced code of a refusal (0, "" otherwise)    *)
(*   ar     the entries of the Authentication-Results fields bearing the    *)
(*          server's authserv-id that the target saw, top to bottom:        *)
(*          [m |-> method, v |-> value, a, b]  (spf: a = smtp.mailfrom,     *)
(*          b = smtp.helo; dkim: a = header.d, b = header.i; dmarc:         *)
(*          a = header.from), names lower-case A-labels                     *)
(*                                                                         *)
(* Prop  = the statement, predicate by predicate (what the docs promise).   *)
(* Rule  = the documented procedure, exact; RuleD(D, _) the same with the   *)
(* named deviations of the code switched on:                                *)
(*   "ErrDefaultsIgnore"  permerr_action / temperr_action default to ignore *)
(*                        (spf.md: default reject)                          *)
(*   "FailOpenBroken"     fail_open yes: a signature whose key could not be *)
(*                        fetched (temporary error) counts as broken, so    *)
(*                        broken_sig_action is applied to it                *)
(*   "NoBodySubset"       allow_body_subset (dkim.md example) is refused    *)
(*   "ForgedArKept"       Authentication-Results fields of the client that  *)
(*                        bear the server's own authserv-id are delivered   *)
(*                        (RFC 7001 5: MUST be deleted)                     *)
(***************************************************************************)
EXTENDS Naturals, Sequences, FiniteSets, TLC, Json

CONSTANTS MaxSig,   \* most DKIM-Signature fields per message (full product up to 2, multisets for 3)
          Devs,     \* deviations switched on in AsIs
          Gen,      \* TRUE: print one ROW line per input
          DocSubset \* the allow_body_subset line of the check.dkim block printed in
                    \* docs/reference/checks/dkim.md: "absent" | "no" | "yes" (read from the docs by the check)

VARIABLE in
vars == <<in>>

Range(f) == {f[i] : i \in DOMAIN f}

-----------------------------------------------------------------------------
(* Actions (docs/reference/checks/actions.md, FailActionDirective):         *)
(* ignore | quarantine | reject, the last two optionally with an SMTP code, *)
(* enhanced code and text (the arguments are from the code:                 *)
(* framework/config/module/check_action.go, same syntax as the documented   *)
(* reject directive of smtp-pipeline.md).                                   *)
Acts == {"default", "ignore", "quarantine", "reject", "reject1", "reject4", "reject5", "quarcode"}
ActArgs(a) == CASE a = "ignore"     -> <<"ignore">>
                [] a = "quarantine" -> <<"quarantine">>
                [] a = "reject"     -> <<"reject">>
                [] a = "reject1"    -> <<"reject", "451">>          \* enhanced code x.7.0 of the code's class
                [] a = "reject4"    -> <<"reject", "450", "4.7.0", "come back later">>
                [] a = "reject5"    -> <<"reject", "554", "5.7.1", "local policy">>
                [] a = "quarcode"   -> <<"quarantine", "554", "5.7.1", "local policy">>
ActClass(a) == IF a \in {"reject", "reject1", "reject4", "reject5"} THEN "reject"
               ELSE IF a \in {"quarantine", "quarcode"} THEN "quarantine" ELSE "ignore"
HasReply(a) == a \in {"reject1", "reject4", "reject5"}
ReplyOf(a)  == CASE a = "reject1" -> [code |-> 451, enh |-> "4.7.0"]
                 [] a = "reject4" -> [code |-> 450, enh |-> "4.7.0"]
                 [] OTHER         -> [code |-> 554, enh |-> "5.7.1"]
(* an action of another class than a (for the directives the row is not about) *)
Decoy(a) == IF ActClass(a) = "reject" THEN "quarantine" ELSE "reject"

Accept(ar)     == [cfg |-> "ok", stage |-> "none", class |-> "accept", code |-> 0, enh |-> "", ar |-> ar]
Quarantine(ar) == [cfg |-> "ok", stage |-> "none", class |-> "quarantine", code |-> 0, enh |-> "", ar |-> ar]
Refuse(stage, r) == [cfg |-> "ok", stage |-> stage,
                     class |-> IF r.code < 500 THEN "tempreject" ELSE "permreject",
                     code |-> r.code, enh |-> r.enh, ar |-> <<>>]
CfgError == [cfg |-> "error", stage |-> "none", class |-> "cfgerror", code |-> 0, enh |-> "", ar |-> <<>>]
(* the verdict of one check for an effective action a, natural reply nat *)
Verdict(a, nat, stage, ar) ==
  CASE ActClass(a) = "ignore"     -> Accept(ar)
    [] ActClass(a) = "quarantine" -> Quarantine(ar)
    [] OTHER                      -> Refuse(stage, IF HasReply(a) THEN ReplyOf(a) ELSE nat)
Rejects == {"permreject", "tempreject"}


-----------------------------------------------------------------------------
(* Authentication-Results fields supplied by the client (RFC 7001 5 / RFC   *)
(* 8601 5: an instance that claims, by its authserv-id, to come from inside *)
(* the trust boundary MUST be deleted; docs/internals/specifications.md     *)
(* lists RFC 7001 as implemented).                                          *)
AuthServId == "mx.verif.example"          \* the pipeline's hostname
ForgedKinds == {"own", "owncase", "ownver", "foreign"}
ForgedClaims == "; spf=pass smtp.mailfrom=forged.example; dkim=pass header.d=forged.example"
ForgedFields(f) == CASE f = "own"     -> <<AuthServId \o ForgedClaims>>
                     [] f = "owncase" -> <<"MX.VERIF.EXAMPLE" \o ForgedClaims>>
                     [] f = "ownver"  -> <<AuthServId \o " 1" \o ForgedClaims>>
                     [] f = "foreign" -> <<"mail.elsewhere.example" \o ForgedClaims>>
                     [] OTHER         -> <<>>
ClaimsOwnId(f) == f \in {"own", "owncase", "ownver"}
ForgedEntries == <<[m |-> "spf", v |-> "pass", a |-> "forged.example", b |-> ""],
                   [m |-> "dkim", v |-> "pass", a |-> "forged.example", b |-> ""]>>
(* what a delivered message shows under the server's id, given what the checks reported *)
Shown(D, i, ar) == IF "ForgedArKept" \in D /\ ClaimsOwnId(i.forged) THEN ar \o ForgedEntries ELSE ar
WithForged(D, i, r) == IF r.cfg = "ok" /\ r.class \in {"accept", "quarantine"}
                       THEN [r EXCEPT !.ar = Shown(D, i, r.ar)] ELSE r

-----------------------------------------------------------------------------
(*                                   SPF                                   *)
SpfResults == {"pass", "none", "neutral", "fail", "softfail", "temperror", "permerror"}
(* DNS situations that yield each result (RFC 7208 4.3-4.7, 5) *)
HowOf(r) == CASE r = "pass"      -> {"ip", "all", "a", "mx", "include"}
              [] r = "fail"      -> {"all", "ipmiss", "redirect"}
              [] r = "softfail"  -> {"all"}
              [] r = "neutral"   -> {"all", "fallthrough"}
              [] r = "none"      -> {"nxdomain", "notxt", "othertxt"}
              [] r = "permerror" -> {"two", "syntax"}
              [] r = "temperror" -> {"servfail", "include"}
ResHow == UNION {{<<r, h>> : h \in HowOf(r)} : r \in SpfResults}

Helo   == "helo.example"
MfDom(s) == CASE s = "plain" -> "mf.example"
              [] s = "upper" -> "MF.EXAMPLE"
              [] s = "idn"   -> "xn--bcher-kva.example"   \* sent as a U-label (SMTPUTF8)
              [] OTHER       -> ""
SenderAddr(s) == CASE s = "null" -> ""
                   [] s = "upper" -> "BOUNCE@MF.EXAMPLE"
                   [] OTHER -> "bounce@" \o MfDom(s)
(* lower-case A-label form of the MAIL FROM domain *)
MfNorm(s) == IF s = "upper" THEN "mf.example" ELSE MfDom(s)
(* the identity SPF evaluates (RFC 7208 2.4): MAIL FROM domain, HELO for the null reverse-path *)
SpfIdentity(s) == IF s = "null" THEN Helo ELSE MfNorm(s)

DmKinds == {"norecord", "none", "quarantine", "reject", "sp_none", "sp_reject", "sub_p",
            "multi", "servfail", "nofrom", "twofrom"}
(* spf.md "DMARC override": the sender domain has a DMARC record with a     *)
(* quarantine or reject policy (for that domain: sp for a subdomain)        *)
DeferPolicies == {"quarantine", "reject", "sp_reject", "sub_p"}
(* the documentation does not say what a failed policy lookup or a header   *)
(* without exactly one author means for the override: either way is allowed *)
FreeDm == {"servfail", "nofrom", "twofrom"}
FromShape(dm) == IF dm \in {"nofrom", "twofrom"} THEN dm ELSE "one"
FromDomOfDm(dm) == IF dm \in {"sp_none", "sp_reject", "sub_p"} THEN "sub.from.example" ELSE "from.example"
DmarcTxt(dm) == CASE dm = "none"       -> <<"v=DMARC1; p=none">>
                  [] dm = "quarantine" -> <<"v=DMARC1; p=quarantine">>
                  [] dm = "reject"     -> <<"v=DMARC1; p=reject">>
                  [] dm = "twofrom"    -> <<"v=DMARC1; p=reject">>
                  [] dm = "sp_none"    -> <<"v=DMARC1; p=reject; sp=none">>
                  [] dm = "sp_reject"  -> <<"v=DMARC1; p=none; sp=reject">>
                  [] dm = "sub_p"      -> <<"v=DMARC1; p=quarantine">>
                  [] dm = "multi"      -> <<"v=DMARC1; p=reject", "v=DMARC1; p=none">>
                  [] OTHER             -> <<>>

Early(i)   == i.early = "yes"                  \* spf.md: enforce_early default no
SpfSkip(i) == i.conn \in {"unix", "local"}     \* no client IP: nothing to evaluate (from the code)
Defer(i)   == ~Early(i) /\ i.dm \in DeferPolicies

(* documented defaults (spf.md): fail quarantine, permerror / temperror reject, others ignore *)
SpfDefault(D, r) == CASE r = "fail" -> "quarantine"
                      [] r \in {"permerror", "temperror"} ->
                           (IF "ErrDefaultsIgnore" \in D THEN "ignore" ELSE "reject")
                      [] OTHER -> "ignore"
SpfEff(D, i) == IF i.act = "default" THEN SpfDefault(D, i.res) ELSE i.act
(* the check's own reply: a temporary error is a temporary refusal *)
SpfNatural(r) == IF r = "temperror" THEN [code |-> 451, enh |-> "4.7.23"]
                 ELSE [code |-> 550, enh |-> "5.7.23"]
SpfStage(i) == IF Early(i) THEN (IF i.place = "dest" THEN "rcpt" ELSE "mail") ELSE "body"
SpfEntry(i) == [m |-> "spf", v |-> i.res,
                a |-> IF i.sender = "null" THEN "" ELSE MfNorm(i.sender), b |-> Helo]
SpfAr(i) == IF SpfSkip(i) THEN <<>> ELSE <<SpfEntry(i)>>

(* what check.spf does on its own *)
SpfOwn(D, i) ==
  IF SpfSkip(i) \/ i.res = "pass" \/ Defer(i) THEN Accept(SpfAr(i))
  ELSE Verdict(SpfEff(D, i), SpfNatural(i.res), SpfStage(i), SpfAr(i))

RuleSpf(D, i) == SpfOwn(D, i)

-----------------------------------------------------------------------------
(*                                   DKIM                                  *)
(* Signature kinds.  Every one is a real DKIM-Signature field made by the   *)
(* harness with go-msgauth (2048-bit RSA unless said otherwise), h= From    *)
(* Subject To Date unless said otherwise:                                   *)
(*   pass      valid                                                        *)
(*   passlc    valid, h= spelled in lower case                              *)
(*   ed        valid, Ed25519                                               *)
(*   nosubj    valid, Subject not signed                                    *)
(*   noto      valid, To not signed                                         *)
(*   badbody   made over another body (body hash does not verify)           *)
(*   badsig    made over another Subject (signature does not verify)        *)
(*   nokey     no key record (NXDOMAIN)                                     *)
(*   revoked   key record with empty p=                                     *)
(*   shortkey  512-bit RSA key (RFC 8301: not valid)                        *)
(*   expired   x= in the past                                               *)
(*   temp      the key lookup fails temporarily (SERVFAIL)                  *)
(*   malformed the field is not a tag list                                  *)
(*   lentag    carries l= (signs a body subset)                             *)
(*   sha1      a=rsa-sha1 (RFC 8301: must not be accepted)                  *)
(*   wrongi    i= names a domain that is not d= or a subdomain of it        *)
KindSeq == <<"pass", "passlc", "ed", "nosubj", "noto", "badbody", "badsig", "nokey", "revoked",
             "shortkey", "expired", "temp", "malformed", "lentag", "sha1", "wrongi">>
Kinds == Range(KindSeq)
NKinds == Len(KindSeq)
SigDoms == <<"signer.example", "other.example", "signer.example">>   \* by position

(* required_fields *)
ReqArgs(r) == CASE r = "from" -> <<"From">> [] r = "fst" -> <<"From", "Subject", "To">>
                [] r = "lc" -> <<"from", "subject">> [] OTHER -> <<>>    \* field names are case-insensitive
ReqSet(r) == CASE r = "from" -> {"From"} [] r = "fst" -> {"From", "Subject", "To"} [] OTHER -> {"From", "Subject"}
SignedBy(k) == CASE k = "nosubj" -> {"From", "To", "Date"}
                 [] k = "noto"   -> {"From", "Subject", "Date"}
                 [] OTHER        -> {"From", "Subject", "To", "Date"}
Verifies(k) == k \in {"pass", "passlc", "ed", "nosubj", "noto"}
(* dkim.md: a signature that lacks a required field is invalid *)
Good(k, r) == Verifies(k) /\ ReqSet(r) \subseteq SignedBy(k)
IsTemp(k) == k = "temp"
FailOpen(i) == i.failopen = "yes"              \* dkim.md: default no
HasGood(i) == \E n \in DOMAIN i.sigs : Good(i.sigs[n].k, i.req)
HasTemp(i) == \E n \in DOMAIN i.sigs : IsTemp(i.sigs[n].k)
(* a signature that is known to be unusable (not merely unverifiable right now) *)
HasBroken(i) == \E n \in DOMAIN i.sigs : ~Good(i.sigs[n].k, i.req) /\ ~IsTemp(i.sigs[n].k)

DkimEff(i) == IF i.act = "default" THEN "ignore" ELSE i.act   \* dkim.md: both default ignore
DkimNatural == [code |-> 550, enh |-> "5.7.20"]
DkimTempReply == [code |-> 421, enh |-> "4.7.20"]

(* result value per signature as the code reports it (RFC 8601 2.7.1) *)
DkimValue(k, r) == CASE Good(k, r) -> "pass"
                     [] IsTemp(k) -> "temperror"
                     [] k \in {"badbody", "badsig", "lentag"} -> "fail"
                     [] OTHER -> "permerror"
DkimEntry(s, r) == [m |-> "dkim", v |-> DkimValue(s.k, r),
                    a |-> IF s.k = "malformed" THEN "" ELSE s.d,
                    b |-> CASE s.k = "malformed" -> "" [] s.k = "wrongi" -> "@elsewhere.example"
                            [] OTHER -> "@" \o s.d]
DkimAr(i) == IF i.sigs = <<>> THEN <<[m |-> "dkim", v |-> "none", a |-> "", b |-> ""]>>
             ELSE [n \in DOMAIN i.sigs |-> DkimEntry(i.sigs[n], i.req)]

DkimOwn(D, i) ==
  IF i.sigs = <<>> THEN Verdict(DkimEff(i), DkimNatural, "body", DkimAr(i))
  ELSE IF HasTemp(i) /\ ~FailOpen(i) THEN Refuse("body", DkimTempReply)       \* fail closed: 4xx
  ELSE IF HasGood(i) THEN Accept(DkimAr(i))
  ELSE IF HasBroken(i) \/ "FailOpenBroken" \in D THEN Verdict(DkimEff(i), DkimNatural, "body", DkimAr(i))
  ELSE Accept(DkimAr(i))      \* fail_open yes and nothing but temporary errors: accept the message

RuleDkim(D, i) ==
  IF i.subset # "absent" /\ "NoBodySubset" \in D THEN CfgError ELSE DkimOwn(D, i)

-----------------------------------------------------------------------------
(*              check.spf + check.dkim + DMARC on one message              *)
(* joint rows: [tab |-> "joint", res, how, act, early, sender, al, dm, dk]  *)
(*   al  the From domain is the SPF identity's domain (else from.example)   *)
(*   dk  "nosig" | "pass_al" valid signature of the From domain | "pass_un" *)
(*       valid signature of an unrelated domain | "bad_al" | "temp_al"      *)
(* check.spf: act for res (decoys elsewhere); check.dkim: fail_open yes,    *)
(* actions default; pipeline "dmarc yes".                                    *)
JFromDom(i) == IF i.al THEN SpfIdentity(i.sender) ELSE "from.example"
JSigs(i) == CASE i.dk = "nosig"   -> <<>>
              [] i.dk = "pass_al" -> <<[k |-> "pass", d |-> JFromDom(i)]>>
              [] i.dk = "pass_un" -> <<[k |-> "pass", d |-> "other.example"]>>
              [] i.dk = "bad_al"  -> <<[k |-> "badbody", d |-> JFromDom(i)]>>
              [] i.dk = "temp_al" -> <<[k |-> "temp", d |-> JFromDom(i)]>>
JDkimView(i) == [tab |-> "dkim", sub |-> "joint", sigs |-> JSigs(i), act |-> "default",
                 failopen |-> "yes", req |-> "default", subset |-> "absent", forged |-> i.forged]
JSpfView(i) == [tab |-> "spf", sub |-> "joint", res |-> i.res, how |-> i.how, act |-> i.act,
                early |-> i.early, sender |-> i.sender, dm |-> i.dm, place |-> "global", conn |-> "tcp4",
                forged |-> i.forged]
JFound(i)   == i.dm \in {"none", "quarantine", "reject"}
JDkimAl(i)  == i.dk = "pass_al"
JSpfAl(i)   == i.res = "pass" /\ i.al
JDkimTemp(i) == i.dk = "temp_al"
(* RFC 7489 3.1 / 6.6.2 as in Dmarc.tla (C07) for this input space *)
JDmarcV(i) == IF ~JFound(i) THEN "none"
              ELSE IF JDkimTemp(i) /\ ~JDkimAl(i) /\ ~JSpfAl(i) THEN "temperror"
              ELSE IF ~JDkimAl(i) /\ i.res = "temperror" THEN "temperror"
              ELSE IF JDkimAl(i) \/ JSpfAl(i) THEN "pass" ELSE "fail"
JDmarcEntry(i) == [m |-> "dmarc", v |-> JDmarcV(i), a |-> JFromDom(i), b |-> ""]
JAr(i) == <<SpfEntry(JSpfView(i))>> \o DkimAr(JDkimView(i)) \o <<JDmarcEntry(i)>>
RuleJoint(D, i) ==
  LET own == SpfOwn(D, JSpfView(i))
      v   == JDmarcV(i)
      enforce == v \in {"fail", "temperror"}
  IN IF own.class \in Rejects THEN own
     ELSE IF enforce /\ i.dm = "reject"
          THEN Refuse("body", IF v = "temperror" THEN [code |-> 450, enh |-> "4.7.1"]
                              ELSE [code |-> 550, enh |-> "5.7.1"])
     ELSE IF own.class = "quarantine" \/ (enforce /\ i.dm = "quarantine") THEN Quarantine(JAr(i))
     ELSE Accept(JAr(i))

-----------------------------------------------------------------------------
RuleD(D, i) == WithForged(D, i, CASE i.tab = "spf"  -> RuleSpf(D, i)
                                   [] i.tab = "dkim" -> RuleDkim(D, i)
                                   [] OTHER          -> RuleJoint(D, i))
Rule(i) == RuleD({}, i)
AsIs(i) == RuleD(Devs, i)

-----------------------------------------------------------------------------
(* The property, one named predicate per clause of the statement.           *)
Proj(e) == [m |-> e.m, v |-> e.v, a |-> e.a, b |-> e.b]      \* (the harness also logs the reason text)
ArOf(o, m) == SelectSeq([n \in DOMAIN o.ar |-> Proj(o.ar[n])], LAMBDA e : e.m = m)
Delivered(o) == o.cfg = "ok" /\ o.class \in {"accept", "quarantine"}
(* number of entries of sequence s equal to x *)
Count(s, x) == Cardinality({n \in DOMAIN s : s[n] = x})
BagEq(s, t) == Len(s) = Len(t) /\ \A n \in DOMAIN s : Count(s, s[n]) = Count(t, s[n])

(* class a check must produce for effective action a with natural reply nat *)
ClassFor(a, nat) == CASE ActClass(a) = "ignore"     -> "accept"
                      [] ActClass(a) = "quarantine" -> "quarantine"
                      [] OTHER -> (IF (IF HasReply(a) THEN ReplyOf(a) ELSE nat).code < 500
                                   THEN "tempreject" ELSE "permreject")
(* "reject <code> <enhanced code>": the reply is the configured one *)
ReplyAsConfigured(a, o) == (ActClass(a) = "reject" /\ HasReply(a)) =>
                              (o.code = ReplyOf(a).code /\ o.enh = ReplyOf(a).enh)

IsSpf(i)  == i.tab = "spf"
IsDkim(i) == i.tab = "dkim"
IsJoint(i) == i.tab = "joint"
(* SPF rows in which the docs fix what the check does on its own *)
SpfDecided(i) == IsSpf(i) /\ ~SpfSkip(i) /\ i.res # "pass" /\ ~(~Early(i) /\ i.dm \in FreeDm)

P_ConfigAccepted(i, o) == o.cfg = "ok"          \* every row is a documented configuration
(* the message is delivered (flagged or not) or refused with a reply whose  *)
(* class is coherent; it is not lost, and the pipeline does not crash       *)
P_Answered(i, o) == o.class \in {"accept", "quarantine"} \cup Rejects
P_SpfPassNoAction(i, o) == (IsSpf(i) /\ i.res = "pass") => o.class = "accept"
P_SpfNoIpNoAction(i, o) == (IsSpf(i) /\ SpfSkip(i)) => o.class = "accept"
(* the configured action (documented default when the directive is absent), exactly *)
P_SpfAction(i, o) == (SpfDecided(i) /\ ~Defer(i)) =>
                        /\ o.class = ClassFor(SpfEff({}, i), SpfNatural(i.res))
                        /\ ReplyAsConfigured(SpfEff({}, i), o)
(* spf.md: no action when the sender domain publishes a quarantine / reject DMARC policy *)
P_SpfDeferred(i, o) == (SpfDecided(i) /\ Defer(i)) => o.class = "accept"
(* where docs are silent about the override the outcome is one of the two *)
P_SpfFreeDm(i, o) == (IsSpf(i) /\ ~SpfSkip(i) /\ i.res # "pass" /\ ~Early(i) /\ i.dm \in FreeDm) =>
                        o.class \in {"accept", ClassFor(SpfEff({}, i), SpfNatural(i.res))}
(* enforce_early: the decision is made before the message body is received *)
P_SpfStage(i, o) == (IsSpf(i) /\ o.class \in Rejects) =>
                        IF Early(i) THEN o.stage \in {"mail", "rcpt"} ELSE o.stage = "body"
(* "Authentication-Results field is generated irregardless of status": one  *)
(* entry, the real outcome, the identity that was evaluated                 *)
P_SpfReported(i, o) == (IsSpf(i) /\ ~SpfSkip(i) /\ Delivered(o)) =>
                          LET es == ArOf(o, "spf") IN
                            /\ Len(es) = 1
                            /\ es[1].v = i.res
                            /\ IF i.sender = "null"    \* HELO, or the mailbox RFC 7208 2.4 derives from it
                               THEN (es[1].a = "" /\ es[1].b = Helo) \/ es[1].a = Helo
                               ELSE es[1].a = MfNorm(i.sender)

P_DkimNoSig(i, o) == (IsDkim(i) /\ i.sigs = <<>>) =>
                        /\ o.class = ClassFor(DkimEff(i), DkimNatural)
                        /\ ReplyAsConfigured(DkimEff(i), o)
(* fail_open no: a temporary error refuses the message with a 4xx reply *)
P_DkimTempClosed(i, o) == (IsDkim(i) /\ HasTemp(i) /\ ~FailOpen(i)) => o.class = "tempreject"
(* a valid signature: broken_sig_action is for messages without one *)
P_DkimGood(i, o) == (IsDkim(i) /\ HasGood(i) /\ (~HasTemp(i) \/ FailOpen(i))) => o.class = "accept"
(* no valid signature (and no temporary error): broken_sig_action, exactly *)
P_DkimBroken(i, o) == (IsDkim(i) /\ i.sigs # <<>> /\ ~HasGood(i) /\ ~HasTemp(i)) =>
                        /\ o.class = ClassFor(DkimEff(i), DkimNatural)
                        /\ ReplyAsConfigured(DkimEff(i), o)
(* fail_open yes: a temporary error must not get the message refused; when  *)
(* another signature is definitely broken broken_sig_action may apply       *)
P_DkimFailOpen(i, o) == (IsDkim(i) /\ HasTemp(i) /\ FailOpen(i) /\ ~HasGood(i)) =>
                          IF HasBroken(i) THEN o.class \in {"accept", ClassFor(DkimEff(i), DkimNatural)}
                          ELSE o.class \notin Rejects
P_DkimStage(i, o) == (IsDkim(i) /\ o.class \in Rejects) => o.stage = "body"
(* every signature is listed with its true result and its d=: pass exactly  *)
(* for the valid ones, temperror for unavailable keys, a failing value else *)
VClass(v) == CASE v = "pass" -> "pass" [] v = "temperror" -> "temperror"
               [] v \in {"fail", "permerror", "neutral", "policy"} -> "bad" [] OTHER -> "other:" \o v
DkimTruth(sigs, r) == [n \in DOMAIN sigs |->
                         <<VClass(DkimValue(sigs[n].k, r)), IF sigs[n].k = "malformed" THEN "" ELSE sigs[n].d>>]
P_DkimReported(i, o) == (IsDkim(i) /\ Delivered(o)) =>
                          LET es == ArOf(o, "dkim") IN
                            IF i.sigs = <<>> THEN Len(es) = 1 /\ es[1].v = "none"
                            ELSE BagEq([n \in DOMAIN es |-> <<VClass(es[n].v), es[n].a>>], DkimTruth(i.sigs, i.req))

(* joint rows: the verdict of the composition; an SPF temperror on an       *)
(* identity that is not aligned may be refused either way (as in C07)       *)
JAllowed(i) ==
  LET r == Rule(i) IN
    IF r.class = "tempreject" /\ r.stage = "body" /\ r.code = 450 /\ i.res = "temperror"
       /\ ~i.al /\ ~JDkimTemp(i)
    THEN {"tempreject", "permreject"} ELSE {r.class}
P_JointVerdict(i, o) == IsJoint(i) => o.class \in JAllowed(i)
(* spf.md: with the action deferred, DMARC takes the necessary action using the SPF result *)
P_JointDeferredEnforced(i, o) ==
  (IsJoint(i) /\ Defer(JSpfView(i)) /\ i.res # "pass" /\ ~JDkimAl(i) /\ ~JDkimTemp(i)) => o.class # "accept"
P_JointReported(i, o) == (IsJoint(i) /\ Delivered(o)) =>
                           /\ BagEq(ArOf(o, "spf"), <<SpfEntry(JSpfView(i))>>)
                           /\ BagEq(ArOf(o, "dkim"), DkimAr(JDkimView(i)))
                           /\ LET ds == ArOf(o, "dmarc") IN Len(ds) = 1 /\ ds[1].v = JDmarcV(i)

(* under the server's own authserv-id the message shows the results of the  *)
(* checks that ran on it and nothing else                                   *)
CountM(ar, m) == Cardinality({n \in DOMAIN ar : ar[n].m = m})
(* the entries the configured checks report about the message of row i *)
ReportAr(i) == CASE i.tab = "spf" -> SpfAr(i) [] i.tab = "dkim" -> DkimAr(i) [] OTHER -> JAr(i)
P_ResultsOnlyOwn(i, o) == Delivered(o) =>
                            /\ \A n \in DOMAIN o.ar : o.ar[n].m \in {"spf", "dkim", "dmarc"}
                            /\ \A m \in {"spf", "dkim", "dmarc"} : CountM(o.ar, m) = CountM(ReportAr(i), m)

PredNames == {"ConfigAccepted", "Answered", "ResultsOnlyOwn", "SpfPassNoAction", "SpfNoIpNoAction", "SpfAction", "SpfDeferred",
              "SpfFreeDm", "SpfStage", "SpfReported",
              "DkimNoSig", "DkimTempClosed", "DkimGood", "DkimBroken", "DkimFailOpen", "DkimStage",
              "DkimReported", "JointVerdict", "JointDeferredEnforced", "JointReported"}
Holds(n, i, o) ==
  CASE n = "ConfigAccepted"   -> P_ConfigAccepted(i, o)
    [] n = "Answered"         -> P_Answered(i, o)
    [] n = "ResultsOnlyOwn"   -> P_ResultsOnlyOwn(i, o)
    [] n = "SpfPassNoAction"  -> P_SpfPassNoAction(i, o)
    [] n = "SpfNoIpNoAction"  -> P_SpfNoIpNoAction(i, o)
    [] n = "SpfAction"        -> P_SpfAction(i, o)
    [] n = "SpfDeferred"      -> P_SpfDeferred(i, o)
    [] n = "SpfFreeDm"        -> P_SpfFreeDm(i, o)
    [] n = "SpfStage"         -> P_SpfStage(i, o)
    [] n = "SpfReported"      -> P_SpfReported(i, o)
    [] n = "DkimNoSig"        -> P_DkimNoSig(i, o)
    [] n = "DkimTempClosed"   -> P_DkimTempClosed(i, o)
    [] n = "DkimGood"         -> P_DkimGood(i, o)
    [] n = "DkimBroken"       -> P_DkimBroken(i, o)
    [] n = "DkimFailOpen"     -> P_DkimFailOpen(i, o)
    [] n = "DkimStage"        -> P_DkimStage(i, o)
    [] n = "DkimReported"     -> P_DkimReported(i, o)
    [] n = "JointVerdict"     -> P_JointVerdict(i, o)
    [] n = "JointDeferredEnforced" -> P_JointDeferredEnforced(i, o)
    [] n = "JointReported"    -> P_JointReported(i, o)
(* a refused configuration has no behaviour to judge: only ConfigAccepted fails *)
Viol(i, o) == IF o.cfg # "ok" THEN {"ConfigAccepted"} ELSE {n \in PredNames : ~Holds(n, i, o)}
Prop(i, o) == Viol(i, o) = {}

(* exact agreement with a rule output (drift otherwise); the order of the   *)
(* entries of checks that run concurrently is not fixed                     *)
SameOut(i, o, r) ==
  /\ o.cfg = r.cfg /\ o.stage = r.stage /\ o.class = r.class /\ o.code = r.code /\ o.enh = r.enh
  /\ LET oa == [n \in DOMAIN o.ar |-> Proj(o.ar[n])] IN
       IF IsJoint(i) THEN BagEq(oa, r.ar) ELSE oa = r.ar
Explains(devSets, i, o) == {D \in devSets : SameOut(i, o, RuleD(D, i))}

-----------------------------------------------------------------------------
(* Input tables *)
SpfRowF(sub, rh, act, early, sender, dm, place, conn, forged) ==
  [tab |-> "spf", sub |-> sub, res |-> rh[1], how |-> rh[2], act |-> act, early |-> early,
   sender |-> sender, dm |-> dm, place |-> place, conn |-> conn, forged |-> forged]
SpfRow(sub, rh, act, early, sender, dm, place, conn) ==
  SpfRowF(sub, rh, act, early, sender, dm, place, conn, "none")

(* (a) every outcome x every action x enforce_early x null / non-null sender x DMARC situation *)
InSpfMain ==
  \E rh \in ResHow, act \in Acts, early \in {"default", "no", "yes"}, sender \in {"plain", "null"},
     dm \in DmKinds :
    in = SpfRow("main", rh, act, early, sender, dm, "global", "tcp4")
(* (b) spellings of the MAIL FROM domain *)
InSpfSender ==
  \E rh \in ResHow, act \in {"quarantine", "reject"}, early \in {"no", "yes"}, sender \in {"upper", "idn"},
     dm \in {"norecord", "reject"} :
    in = SpfRow("sender", rh, act, early, sender, dm, "global", "tcp4")
(* (c) where the check is configured *)
InSpfPlace ==
  \E res \in {"pass", "fail", "temperror"}, act \in {"quarantine", "reject", "reject4"}, early \in {"no", "yes"},
     place \in {"source", "dest"}, dm \in {"norecord", "reject"}, sender \in {"plain", "null"} :
    in = SpfRow("place", <<res, CHOOSE h \in HowOf(res) : TRUE>>, act, early, sender, dm, place, "tcp4")
(* (d) kinds of connection *)
InSpfConn ==
  \E res \in {"pass", "fail", "permerror"}, act \in {"default", "quarantine", "reject"}, early \in {"no", "yes"},
     conn \in {"tcp6", "unix", "local"} :
    in = SpfRow("conn", <<res, IF res = "pass" THEN "ip" ELSE CHOOSE h \in HowOf(res) : TRUE>>, act, early,
                "plain", "norecord", "global", conn)

DkimRowF(sub, sigs, act, fo, req, subset, forged) ==
  [tab |-> "dkim", sub |-> sub, sigs |-> sigs, act |-> act, failopen |-> fo, req |-> req, subset |-> subset,
   forged |-> forged]
DkimRow(sub, sigs, act, fo, req, subset) == DkimRowF(sub, sigs, act, fo, req, subset, "none")
(* (j) Authentication-Results fields supplied by the client *)
InSpfForged ==
  \E res \in {"pass", "fail"}, early \in {"no", "yes"}, sender \in {"plain", "null"}, f \in ForgedKinds,
     conn \in {"tcp4", "unix"} :        \* "unix": the check reports nothing, the forged field would stand alone
    in = SpfRowF("forged", <<res, "all">>, "quarantine", early, sender, "norecord", "global", conn, f)
SigsOf(ks) == [n \in DOMAIN ks |-> [k |-> KindSeq[ks[n]], d |-> SigDoms[n]]]
FailOpens == {"default", "no", "yes"}
Reqs == {"default", "from", "fst"}
(* (e) no signature / one signature: every action *)
InDkimOne ==
  \E ks \in {<<>>} \cup {<<a>> : a \in 1..NKinds}, act \in Acts, fo \in FailOpens, req \in Reqs \cup {"lc"} :
    in = DkimRow("one", SigsOf(ks), act, fo, req, "absent")
(* (f) every ordered pair of signatures *)
InDkimTwo ==
  MaxSig >= 2 /\
  \E a \in 1..NKinds, b \in 1..NKinds, act \in {"default", "quarantine", "reject", "reject4"},
     fo \in FailOpens, req \in Reqs :
    in = DkimRow("two", SigsOf(<<a, b>>), act, fo, req, "absent")
(* (g) every ordered triple *)
InDkimThree ==
  MaxSig >= 3 /\
  \E a \in 1..NKinds, b \in 1..NKinds, c \in 1..NKinds, act \in {"quarantine", "reject"},
     fo \in FailOpens, req \in {"default", "from"} :
    in = DkimRow("three", SigsOf(<<a, b, c>>), act, fo, req, "absent")
InDkimForged ==
  \E ks \in {<<>>, <<1>>, <<6>>, <<6, 1>>}, f \in ForgedKinds :
    in = DkimRowF("forged", SigsOf(ks), "quarantine", "default", "default", "absent", f)
(* (h) the configuration block of dkim.md as printed there *)
InDkimDoc ==
  \E ks \in {<<>>, <<1>>, <<14>>, <<6>>}, act \in {"default", "reject"} :
    in = DkimRow("doc", SigsOf(ks), act, "no", "default", DocSubset)

(* (i) the composition *)
InJoint ==
  \E res \in SpfResults, act \in {"ignore", "quarantine", "reject"}, early \in {"no", "yes"},
     sender \in {"plain", "null"}, al \in BOOLEAN, dm \in {"norecord", "none", "quarantine", "reject"},
     dk \in {"nosig", "pass_al", "pass_un", "bad_al", "temp_al"} :
    in = [tab |-> "joint", sub |-> "joint", res |-> res,
          how |-> IF res = "pass" THEN "ip" ELSE CHOOSE h \in HowOf(res) : TRUE,
          act |-> act, early |-> early, sender |-> sender, al |-> al, dm |-> dm, dk |-> dk, forged |-> "none"]
InJointForged ==
  \E res \in {"pass", "fail"}, dm \in {"norecord", "quarantine"}, dk \in {"nosig", "pass_al", "bad_al"},
     f \in ForgedKinds :
    in = [tab |-> "joint", sub |-> "forged", res |-> res, how |-> "all",
          act |-> "ignore", early |-> "no", sender |-> "plain", al |-> TRUE, dm |-> dm, dk |-> dk, forged |-> f]

-----------------------------------------------------------------------------
(* The world of a row: what the harness builds (configuration, message, DNS) *)
Dir(d, a) == [d |-> d, a |-> a]
SpfDirName(r) == CASE r = "none" -> "none_action" [] r = "neutral" -> "neutral_action"
                   [] r = "fail" -> "fail_action" [] r = "softfail" -> "softfail_action"
                   [] r = "permerror" -> "permerr_action" [] r = "temperror" -> "temperr_action"
SpfResSeq == <<"none", "neutral", "fail", "softfail", "permerror", "temperror">>
(* the action the row is about for its outcome (absent when "default"); a   *)
(* decoy of another class for every other outcome                           *)
SpfCfg(i) ==
  LET eff == SpfEff({}, i)
      one(r) == IF r = i.res THEN (IF i.act = "default" THEN <<>> ELSE <<Dir(SpfDirName(r), ActArgs(i.act))>>)
                ELSE <<Dir(SpfDirName(r), ActArgs(Decoy(eff)))>>
      RECURSIVE all(_)
      all(n) == IF n > Len(SpfResSeq) THEN <<>> ELSE one(SpfResSeq[n]) \o all(n + 1)
  IN (IF i.early = "default" THEN <<>> ELSE <<Dir("enforce_early", <<i.early>>)>>) \o all(1)
DkimCfg(i) ==
  LET eff == DkimEff(i)
      mine == IF i.act = "default" THEN <<>> ELSE
                <<Dir(IF i.sigs = <<>> THEN "no_sig_action" ELSE "broken_sig_action", ActArgs(i.act))>>
      other == <<Dir(IF i.sigs = <<>> THEN "broken_sig_action" ELSE "no_sig_action", ActArgs(Decoy(eff)))>>
  IN (IF i.req = "default" THEN <<>> ELSE <<Dir("required_fields", ReqArgs(i.req))>>)
     \o (IF i.subset = "absent" THEN <<>> ELSE <<Dir("allow_body_subset", <<i.subset>>)>>)
     \o mine \o other
     \o (IF i.failopen = "default" THEN <<>> ELSE <<Dir("fail_open", <<i.failopen>>)>>)

Z(name, err, txt) == [name |-> name, err |-> err, txt |-> txt, a |-> <<>>, mx |-> <<>>]
ZA(name, ips)     == [name |-> name, err |-> "", txt |-> <<>>, a |-> ips, mx |-> <<>>]
ZMX(name, hosts)  == [name |-> name, err |-> "", txt |-> <<>>, a |-> <<>>, mx |-> hosts]
SpfTxt(res, how, conn) ==
  CASE res = "pass" /\ how = "ip" -> (IF conn = "tcp6" THEN <<"v=spf1 ip6:2001:db8::10 -all">>
                                      ELSE <<"v=spf1 ip4:192.0.2.10 -all">>)
    [] res = "pass" /\ how = "a"  -> <<"v=spf1 a:out.example -all">>
    [] res = "pass" /\ how = "mx" -> <<"v=spf1 mx:mxdom.example -all">>
    [] res = "pass" /\ how = "include" -> <<"v=spf1 include:incpass.example -all">>
    [] res = "pass"     -> <<"v=spf1 +all">>
    [] res = "fail" /\ how = "ipmiss" -> <<"v=spf1 ip4:198.51.100.1 -all">>
    [] res = "fail" /\ how = "redirect" -> <<"v=spf1 redirect=redir.example">>
    [] res = "fail"     -> <<"v=spf1 -all">>
    [] res = "softfail" -> <<"v=spf1 ~all">>
    [] res = "neutral" /\ how = "fallthrough" -> <<"v=spf1 ip4:198.51.100.1">>
    [] res = "neutral"  -> <<"v=spf1 ?all">>
    [] res = "none" /\ how = "othertxt" -> <<"google-site-verification=x03">>
    [] res = "none"     -> <<>>
    [] res = "permerror" /\ how = "two" -> <<"v=spf1 -all", "v=spf1 +all">>
    [] res = "permerror" -> <<"v=spf1 foo:bar -all">>
    [] res = "temperror" /\ how = "include" -> <<"v=spf1 include:inc.example -all">>
    [] OTHER -> <<>>
(* the record of the evaluated identity; a record with the opposite outcome *)
(* at the identity that must NOT be evaluated                               *)
SpfZone(i) ==
  LET id == SpfIdentity(i.sender) IN
    (IF i.res = "none" /\ i.how = "nxdomain" THEN <<>>
     ELSE IF i.res = "temperror" /\ i.how = "servfail" THEN <<Z(id, "servfail", <<>>)>>
     ELSE <<Z(id, "", SpfTxt(i.res, i.how, i.conn))>>)
    \o (IF i.res = "temperror" /\ i.how = "include" THEN <<Z("inc.example", "servfail", <<>>)>> ELSE <<>>)
    \o (IF i.res = "pass" /\ i.how \in {"a", "mx"} THEN <<ZA("out.example", <<"192.0.2.10">>)>> ELSE <<>>)
    \o (IF i.res = "pass" /\ i.how = "mx" THEN <<ZMX("mxdom.example", <<"out.example">>)>> ELSE <<>>)
    \o (IF i.res = "pass" /\ i.how = "include" THEN <<Z("incpass.example", "", <<"v=spf1 +all">>)>> ELSE <<>>)
    \o (IF i.res = "fail" /\ i.how = "redirect" THEN <<Z("redir.example", "", <<"v=spf1 -all">>)>> ELSE <<>>)
    \o (IF i.sender = "null" THEN <<>>
        ELSE <<Z(Helo, "", IF i.res = "pass" THEN <<"v=spf1 -all">> ELSE <<"v=spf1 +all">>)>>)
DmarcZone(dm) ==
  IF dm = "servfail" THEN <<Z("_dmarc.from.example", "servfail", <<>>)>>
  ELSE IF DmarcTxt(dm) = <<>> THEN <<>> ELSE <<Z("_dmarc.from.example", "", DmarcTxt(dm))>>
KeyName(s) == s.k \o "._domainkey." \o s.d
KeyZone(sigs) ==
  LET one(s) == CASE s.k \in {"nokey", "malformed"} -> <<>>
                  [] s.k = "temp"     -> <<Z(KeyName(s), "servfail", <<>>)>>
                  [] s.k = "revoked"  -> <<Z(KeyName(s), "", <<"KEY:revoked">>)>>
                  [] s.k = "shortkey" -> <<Z(KeyName(s), "", <<"KEY:short">>)>>
                  [] s.k = "ed"       -> <<Z(KeyName(s), "", <<"KEY:ed">>)>>
                  [] OTHER            -> <<Z(KeyName(s), "", <<"KEY:rsa">>)>>
      RECURSIVE all(_)
      all(n) == IF n > Len(sigs) THEN <<>> ELSE one(sigs[n]) \o all(n + 1)
  IN all(1)

Chk(mod, place, cfg) == [mod |-> mod, place |-> place, cfg |-> cfg]
WorldOf(i) ==
  CASE i.tab = "spf" ->
        [checks |-> <<Chk("spf", i.place, SpfCfg(i))>>, pdmarc |-> FALSE, hostname |-> AuthServId,
         forged |-> ForgedFields(i.forged), conn |-> i.conn, helo |-> Helo,
         sender |-> SenderAddr(i.sender), utf8 |-> i.sender = "idn",
         from |-> [shape |-> FromShape(i.dm), dom |-> FromDomOfDm(i.dm)],
         sigs |-> <<>>, zone |-> SpfZone(i) \o DmarcZone(i.dm)]
    [] i.tab = "dkim" ->
        [checks |-> <<Chk("dkim", "global", DkimCfg(i))>>, pdmarc |-> FALSE, hostname |-> AuthServId,
         forged |-> ForgedFields(i.forged), conn |-> "tcp4", helo |-> Helo,
         sender |-> SenderAddr("plain"), utf8 |-> FALSE,
         from |-> [shape |-> "one", dom |-> "from.example"],
         sigs |-> i.sigs, zone |-> KeyZone(i.sigs)]
    [] OTHER ->
        [checks |-> <<Chk("spf", "global", SpfCfg(JSpfView(i))),
                      Chk("dkim", "global", <<Dir("fail_open", <<"yes">>)>>)>>,
         pdmarc |-> TRUE, hostname |-> AuthServId, forged |-> ForgedFields(i.forged),
         conn |-> "tcp4", helo |-> Helo,
         sender |-> SenderAddr(i.sender), utf8 |-> FALSE,
         from |-> [shape |-> "one", dom |-> JFromDom(i)],
         sigs |-> JSigs(i),
         zone |-> SpfZone(JSpfView(i)) \o KeyZone(JSigs(i))
                  \o (IF JFound(i) THEN <<Z("_dmarc." \o JFromDom(i), "", DmarcTxt(i.dm))>> ELSE <<>>)]

-----------------------------------------------------------------------------
Init == InSpfMain \/ InSpfSender \/ InSpfPlace \/ InSpfConn \/ InSpfForged
        \/ InDkimOne \/ InDkimTwo \/ InDkimThree \/ InDkimDoc \/ InDkimForged \/ InJoint \/ InJointForged
Next == FALSE /\ UNCHANGED in      \* one state per input (CHECK_DEADLOCK FALSE)
Spec == Init /\ [][Next]_vars

(* TLC: the documented rule satisfies the property on every row *)
RuleSatisfiesProp == Prop(in, Rule(in))
(* theorems about the rule *)
(* a valid signature is the only way to a DKIM pass entry, and the check    *)
(* never takes an action against a message that has one and no lookup error *)
DkimPassIffGood ==
  in.tab = "dkim" =>
    \A n \in DOMAIN in.sigs :
      (Rule(in).class \in {"accept", "quarantine"}) =>
        (Rule(in).ar[n].v = "pass" <=> Good(in.sigs[n].k, in.req))
(* the check never acts on an SPF pass and always acts as configured before the body when early *)
SpfEarlyNeverBody ==
  (in.tab = "spf" /\ Early(in) /\ Rule(in).class \in Rejects) => Rule(in).stage # "body"
(* as-is configuration: the code's deviations must violate the property *)
AsIsSatisfiesProp == Prop(in, AsIs(in))

Emit == Gen => PrintT(<<"ROW", ToJson([in |-> in, exp |-> Rule(in), world |-> WorldOf(in)])>>)
=============================================================================
