----------------------------- MODULE InboundAuth -----------------------------
(***************************************************************************)
(* X03 - the inbound authentication checks (check.spf, check.dkim) apply   *)
(* exactly the configured action for every result and report it truthfully *)
(* (internal/check/spf/spf.go, internal/check/dkim/dkim.go, how their       *)
(* results travel through internal/msgpipeline/check_runner.go into the     *)
(* Authentication-Results field and into the DMARC evaluation;              *)
(* docs/reference/checks/spf.md, dkim.md, actions.md).                      *)
(*                                                                         *)
(* Decision tables (BUILDING.md pattern B).  One state per input row.       *)
(*                                                                         *)
(* SPF rows   in = [tab |-> "spf", sub, res, how, act, early, sender, dm,   *)
(*                  place, conn, pdmarc, al]                                *)
(*   res     outcome of the SPF evaluation of the identity RFC 7208 2.4     *)
(*           names (MAIL FROM domain; HELO name for the null reverse-path)  *)
(*   how     the DNS situation that yields it (record text is in ZoneOf)    *)
(*   act     what the configuration says for THAT outcome ("default" = the  *)
(*           directive is absent); every other outcome gets a decoy action  *)
(*           of another class, so a cross-wired directive shows              *)
(*   early   enforce_early: "default" (absent) | "no" | "yes"               *)
(*   sender  "plain" bounce@mf.example | "upper" | "idn" (U-label domain,   *)
(*           SMTPUTF8) | "null" (empty reverse-path)                        *)
(*   dm      DMARC situation of the RFC5322.From domain (what the deferral  *)
(*           of spf.md "DMARC override" looks at)                           *)
(*   place   where the check is configured: global | source | dest block    *)
(*   conn    "tcp4" | "tcp6" | "unix" (no IP) | "local" (no connection)     *)
(*   pdmarc  the pipeline itself evaluates DMARC ("dmarc yes")              *)
(*   al      (pdmarc rows) the From domain equals the SPF identity          *)
(*                                                                         *)
(* DKIM rows  in = [tab |-> "dkim", sub, sigs, act, failopen, req, subset]  *)
(*   sigs    the DKIM-Signature fields of the message, top to bottom, each  *)
(*           [k |-> kind, d |-> signing domain]; kinds are REAL signatures  *)
(*           made by the harness (see Kinds)                                *)
(*   act     the action configured for the situation of the row             *)
(*           (no_sig_action when sigs = <<>>, broken_sig_action otherwise); *)
(*           the other directive gets a decoy                               *)
(*   failopen "default" | "no" | "yes"                                      *)
(*   req     required_fields: "default" (From Subject) | "from" | "fst"     *)
(*   subset  allow_body_subset: "absent" | "no" (the documented example)    *)
(*                                                                         *)
(* Joint rows in = [tab |-> "joint", ...]: check.spf + check.dkim + the     *)
(*   pipeline's DMARC on one message (the composition spf.md promises).     *)
(*                                                                         *)
(* Output  out = [cfg, stage, class, code, enh, ar]                         *)
(*   cfg    "ok" | "error" (the configuration was refused)                  *)
(*   stage  where the pipeline refused: "mail" | "rcpt" | "body" | "none"   *)
(*   class  "accept" | "quarantine" | "permreject" | "tempreject"           *)
(*   code, enh  SMTP code / enhanced code of a refusal (0, "" otherwise)    *)
(*   ar     the Authentication-Results entries the target saw, in order:    *)
(*          [m |-> method, v |-> value, a, b]  (spf: a = smtp.mailfrom,     *)
(*          b = smtp.helo; dkim: a = header.d, b = header.i; dmarc:         *)
(*          a = header.from), names lower-case A-labels                     *)
(*                                                                         *)
(* Prop  = the statement, predicate by predicate (what the docs promise).   *)
(* Rule  = the documented procedure, exact; RuleD(D, _) the same with the   *)
(* named deviations of the code switched on:                                *)
(*   "ErrDefaultsIgnore"  permerr_action / temperr_action default to ignore *)
(*                        (spf.md: default reject)                          *)
(*   "FailOpenBroken"     fail_open yes: a signature whose key could not be *)
(*                        fetched (temporary error) counts as broken, so    *)
(*                        broken_sig_action is applied to it                *)
(*   "NoBodySubset"       allow_body_subset (dkim.md example) is refused    *)
(***************************************************************************)
EXTENDS Naturals, Sequences, FiniteSets, TLC, Json

CONSTANTS MaxSig,   \* most DKIM-Signature fields per message (full product up to 2, multisets for 3)
          Devs,     \* deviations switched on in AsIs
          Gen       \* TRUE: print one ROW line per input

VARIABLE in
vars == <<in>>

Range(f) == {f[i] : i \in DOMAIN f}

-----------------------------------------------------------------------------
(* Actions (docs/reference/checks/actions.md, FailActionDirective):         *)
(* ignore | quarantine | reject, the last two optionally with an SMTP code, *)
(* enhanced code and text.                                                  *)
Acts == {"default", "ignore", "quarantine", "reject", "reject4", "reject5", "quarcode"}
ActArgs(a) == CASE a = "ignore"     -> <<"ignore">>
                [] a = "quarantine" -> <<"quarantine">>
                [] a = "reject"     -> <<"reject">>
                [] a = "reject4"    -> <<"reject", "450", "4.7.0", "come back later">>
                [] a = "reject5"    -> <<"reject", "554", "5.7.1", "local policy">>
                [] a = "quarcode"   -> <<"quarantine", "554", "5.7.1", "local policy">>
ActClass(a) == IF a \in {"reject", "reject4", "reject5"} THEN "reject"
               ELSE IF a \in {"quarantine", "quarcode"} THEN "quarantine" ELSE "ignore"
HasReply(a) == a \in {"reject4", "reject5"}
ReplyOf(a)  == IF a = "reject4" THEN [code |-> 450, enh |-> "4.7.0"] ELSE [code |-> 554, enh |-> "5.7.1"]
(* an action of another class than a (for the directives the row is not about) *)
Decoy(a) == IF ActClass(a) = "reject" THEN "quarantine" ELSE "reject"

Accept(ar)     == [cfg |-> "ok", stage |-> "none", class |-> "accept", code |-> 0, enh |-> "", ar |-> ar]
Quarantine(ar) == [cfg |-> "ok", stage |-> "none", class |-> "quarantine", code |-> 0, enh |-> "", ar |-> ar]
Refuse(stage, r) == [cfg |-> "ok", stage |-> stage,
                     class |-> IF r.code < 500 THEN "tempreject" ELSE "permreject",
                     code |-> r.code, enh |-> r.enh, ar |-> <<>>]
CfgError == [cfg |-> "error", stage |-> "none", class |-> "cfgerror", code |-> 0, enh |-> "", ar |-> <<>>]
(* the verdict of one check for an effective action a, natural reply nat *)
Verdict(a, nat, stage, ar) ==
  CASE ActClass(a) = "ignore"     -> Accept(ar)
    [] ActClass(a) = "quarantine" -> Quarantine(ar)
    [] OTHER                      -> Refuse(stage, IF HasReply(a) THEN ReplyOf(a) ELSE nat)
Rejects == {"permreject", "tempreject"}

=============================================================================
