---------------------------- MODULE DkimKeysInd ----------------------------
(***************************************************************************)
(* Unbounded complement to DkimKeys.tla (C08, key side): an inductive      *)
(* invariant for "the key maddy signs with is the key its record file      *)
(* publishes", discharged by Apalache (IndInit => IndInv at length 0,      *)
(* IndInv /\ Next => IndInv' at length 1) - for any number of starts,      *)
(* rotations and signatures and unbounded key generations.  Same actions   *)
(* as DkimKeys.tla without the history/step-counter plumbing; a record     *)
(* is (generation, algorithm length class, intact?).                       *)
(***************************************************************************)
EXTENDS Integers, FiniteSets

CONSTANTS
  \* @type: Set(Str);
  Doms,
  \* @type: Set(Str);
  Configured,      \* the configured signing domains (subset of Doms)
  \* @type: Set(Int);
  Algos            \* algorithms by record length class

VARIABLES
  \* @type: Str -> Int;
  kfG,     \* generation of the key in the key file, 0 = no key file
  \* @type: Str -> Int;
  kfA,
  \* @type: Str -> Int;
  dnsG,    \* record file: generation described, 0 = no record file
  \* @type: Str -> Int;
  dnsA,
  \* @type: Str -> Bool;
  dnsOk,
  \* @type: Str -> Int;
  memG,    \* key loaded by the running instance, 0 = none
  \* @type: Str -> Int;
  memA,
  \* @type: Bool;
  sigOk    \* the latest signature verified against the published record

CInit ==
  /\ Doms = {"top", "second"}
  /\ Configured = {"top"}
  /\ Algos = {1, 2, 3}

Init ==
  /\ kfG = [d \in Doms |-> 0] /\ kfA = [d \in Doms |-> 0]
  /\ dnsG = [d \in Doms |-> 0] /\ dnsA = [d \in Doms |-> 0] /\ dnsOk = [d \in Doms |-> TRUE]
  /\ memG = [d \in Doms |-> 0] /\ memA = [d \in Doms |-> 0]
  /\ sigOk = TRUE

Start(a) ==
  LET gen(d) == d \in Configured /\ kfG[d] = 0 IN
  /\ kfG'  = [d \in Doms |-> IF gen(d) THEN dnsG[d] + 1 ELSE kfG[d]]
  /\ kfA'  = [d \in Doms |-> IF gen(d) THEN a ELSE kfA[d]]
  /\ dnsG' = [d \in Doms |-> IF gen(d) THEN dnsG[d] + 1 ELSE dnsG[d]]
  /\ dnsA' = [d \in Doms |-> IF gen(d) THEN a ELSE dnsA[d]]
  /\ dnsOk' = [d \in Doms |-> IF gen(d) THEN TRUE ELSE dnsOk[d]]   \* the record file is truncated and rewritten
  /\ memG' = [d \in Doms |-> IF d \in Configured THEN (IF gen(d) THEN dnsG[d] + 1 ELSE kfG[d]) ELSE 0]
  /\ memA' = [d \in Doms |-> IF d \in Configured THEN (IF gen(d) THEN a ELSE kfA[d]) ELSE 0]
  /\ UNCHANGED sigOk

RemoveKey(d) ==
  /\ kfG[d] # 0
  /\ kfG' = [kfG EXCEPT ![d] = 0] /\ kfA' = [kfA EXCEPT ![d] = 0]
  /\ UNCHANGED <<dnsG, dnsA, dnsOk, memG, memA, sigOk>>

\* a message whose key domain is kd is signed with the loaded key and names d= kd
Sign(kd) ==
  /\ memG[kd] # 0
  /\ sigOk' = (dnsG[kd] = memG[kd] /\ dnsA[kd] = memA[kd] /\ dnsOk[kd])
  /\ UNCHANGED <<kfG, kfA, dnsG, dnsA, dnsOk, memG, memA>>

Next ==
  \/ \E a \in Algos : Start(a)
  \/ \E d \in Doms : RemoveKey(d)
  \/ \E d \in Doms : Sign(d)

TypeOK ==
  /\ kfG \in [Doms -> Nat] /\ kfA \in [Doms -> Algos \cup {0}]
  /\ dnsG \in [Doms -> Nat] /\ dnsA \in [Doms -> Algos \cup {0}] /\ dnsOk \in [Doms -> BOOLEAN]
  /\ memG \in [Doms -> Nat] /\ memA \in [Doms -> Algos \cup {0}]
  /\ sigOk \in BOOLEAN

IndInv ==
  /\ TypeOK
  /\ sigOk
  \* a key file, and a loaded key, is always the pair the record file describes
  /\ \A d \in Doms : kfG[d] # 0 => (dnsG[d] = kfG[d] /\ dnsA[d] = kfA[d] /\ dnsOk[d])
  /\ \A d \in Doms : memG[d] # 0 => (dnsG[d] = memG[d] /\ dnsA[d] = memA[d] /\ dnsOk[d])

IndInit == IndInv
=============================================================================
