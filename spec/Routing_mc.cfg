\* first quick exhaustive bound of bin/check C04 (lib/checks/c04.py generates the cfg text of every bound it runs)
SPECIFICATION GSpec
CONSTANTS
  Locals = {"l1"}
  Doms = {"d3"}
  EnvLocals = {"l2"}
  RuleVars = {"lower"}
  EnvVars = {"lower", "upper", "nfc", "nfd", "alabel"}
  Targets = {"T1"}
  Codes = {550}
  MaxSrc = 1
  MaxDst = 1
  MaxDepth = 0
  MaxMod = 0
  MaxBlocks = 4
  MaxRules = 1
  MaxKeys = 1
  MaxEntries = 1
  MaxVals = 1
  MaxDefects = 0
  DefectOdds = 0
  Salts = {0}
  DefaultLast = TRUE
  BareMaps = TRUE
  NullKeys = FALSE
  DupRules = FALSE
  FlatOnly = FALSE
  MaxScopeMods = 1
  TableKinds = {"static", "regexp"}
  SenderCap = 99
  PrintExpected = FALSE
CHECK_DEADLOCK FALSE
INVARIANT TheoremsHold
