SPECIFICATION Spec
CONSTANTS
  Getters = {"g1", "g2", "g3"}
  CtxGetters = {"g1", "g2"}
  Setters = {"t1", "t2"}
  MaxCancel = 2
  Devs = {}
  Gen = FALSE
VIEW View
INVARIANTS NoViolation TypeOK NotifiedImpliesSet
CHECK_DEADLOCK FALSE
