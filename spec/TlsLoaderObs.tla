---------------------------- MODULE TlsLoaderObs ----------------------------
(***************************************************************************)
(* Observation state and property predicates of tls.loader.file            *)
(* (internal/tls/file.go) as the endpoints use it (extension X11).         *)
(* Everything here is a function of what is visible from outside:          *)
(*   - what the environment did to the certificate and key files,          *)
(*   - the clock (one slot = the documented reload period, one minute),    *)
(*   - the file reads of the loader's two threads (T = the ticker          *)
(*     goroutine, H = the caller of the reload event) and what they got,   *)
(*   - a complete probe after every step ("Look"): one real TLS handshake  *)
(*     per SNI name against the tls.Config the `tls` directive built - the *)
(*     serial number of the certificate the handshake was answered with    *)
(*     (0 = the handshake failed; a handshake that succeeds has proved     *)
(*     possession of the private key of that certificate), whether the     *)
(*     step logged "reload failed", whether the reload event handler and   *)
(*     Close have returned.                                                *)
(* The same operators fold `obs` in the design spec (TlsLoader.tla) and in *)
(* the trace spec (TlsLoaderTrace.tla, events of the real module).         *)
(*                                                                         *)
(* File content is one uniform record [k, v, key, val, un, p]:             *)
(*   k   "pem" complete | "empty" truncated by an in-place writer | "half" *)
(*       cut inside the PEM block | "none" no such file                    *)
(*   v   certificate version = serial number (0 for key files); every      *)
(*       write of a certificate gets a fresh one                           *)
(*   key id of the private key (key file) / of the key certified (cert)    *)
(*   val "ok" | "exp" expired | "nyv" not yet valid                        *)
(*   un  unreadable (EACCES)                                               *)
(*   p   the pair (= DNS name) the material was issued for                 *)
(***************************************************************************)
EXTENDS Integers, Sequences, FiniteSets

CONSTANT NPairs     \* certificate/key pairs configured (1 or 2)

Pairs == 1..NPairs
Ths == {"T", "H"}
CertF(i) == IF i = 1 THEN "c1" ELSE "c2"
KeyF(i) == IF i = 1 THEN "k1" ELSE "k2"
Files == UNION {{CertF(i), KeyF(i)} : i \in Pairs}
Order == IF NPairs = 1 THEN <<"c1", "k1">> ELSE <<"c1", "k1", "c2", "k2">>
IsCertF(f) == f \in {"c1", "c2"}
PairOfF(f) == IF f \in {"c1", "k1"} THEN 1 ELSE 2
SNIs == {"a", "b", "z", "n"}        \* name of pair 1, name of pair 2, a name nobody has, no SNI at all
NameOf(p) == IF p = 1 THEN "a" ELSE "b"
Settle == 2        \* docs/tutorials/setting-up.md: "reloads TLS certificates from disk once in a minute"; weak reading: two

NoC == [k |-> "none", v |-> 0, key |-> 0, val |-> "ok", un |-> FALSE, p |-> 0]
CertC(p, v, key, val) == [k |-> "pem", v |-> v, key |-> key, val |-> val, un |-> FALSE, p |-> p]
KeyC(p, key) == [k |-> "pem", v |-> 0, key |-> key, val |-> "ok", un |-> FALSE, p |-> 0]
\* what a reader gets from a file an in-place writer has truncated / written a part of (no version can be told)
EmptyC == [k |-> "empty", v |-> 0, key |-> 0, val |-> "ok", un |-> FALSE, p |-> 0]
HalfC == [k |-> "half", v |-> 0, key |-> 0, val |-> "ok", un |-> FALSE, p |-> 0]
C(c) == [k |-> c.k, v |-> c.v, key |-> c.key, val |-> c.val, un |-> c.un, p |-> c.p]

Readable(c) == c.k # "none" /\ ~c.un
\* X509KeyPair: both parse and the private key is the one the certificate certifies
PairOK(c, k) == /\ Readable(c) /\ Readable(k) /\ c.k = "pem" /\ k.k = "pem"
                /\ c.v > 0 /\ k.v = 0 /\ c.key = k.key

Min(S) == CHOOSE x \in S : \A y \in S : x <= y

\* crypto/tls getCertificate: one certificate -> that one; else the first whose names cover the SNI
\* name; else ("If no certificate matches, the first element of Certificates is used") the first
Pick(cs, s) ==
  IF cs = <<>> THEN 0
  ELSE IF Len(cs) = 1 THEN cs[1].v
  ELSE LET m == {i \in 1..Len(cs) : s \in {"a", "b"} /\ NameOf(cs[i].p) = s}
       IN IF m # {} THEN cs[Min(m)].v ELSE cs[1].v
SV(cs) == [s \in SNIs |-> Pick(cs, s)]
Slot(s) == IF s = "b" /\ NPairs >= 2 THEN 2 ELSE 1

Complete(d) == \A i \in Pairs : PairOK(d[CertF(i)], d[KeyF(i)])
AllValid(d) == \A i \in Pairs : d[CertF(i)].val = "ok"
DiskCerts(d) == [i \in Pairs |-> d[CertF(i)]]
Expected(d) == SV(DiskCerts(d))
\* complete pairs on disk right now, by the slot they are configured in
Snap(d) == {[i |-> i, v |-> d[CertF(i)].v] : i \in {j \in Pairs : PairOK(d[CertF(j)], d[KeyF(j)])}}

SnapC(d) == {[i |-> i, v |-> d[CertF(i)].v] : i \in {j \in Pairs : d[CertF(j)].k = "pem" /\ d[CertF(j)].v > 0}}

NoRd == [bad |-> FALSE, c |-> NoC]
NoPark == [th \in Ths |-> ""]

ObsInit(d) ==
  [ now     |-> 0,
    disk    |-> d,
    seen    |-> Snap(d),      \* every (slot, version) that was on disk as a complete pair at some instant
    seenC   |-> SnapC(d),     \* every (slot, version) of a complete certificate file, whatever the key file was
    open    |-> {},           \* pairs whose writer is between the two writes of a deployment / inside an in-place write
    wild    |-> FALSE,        \* some writer was disturbed in there (its files removed, made unreadable, replaced)
    first   |-> TRUE,
    prev    |-> [s \in SNIs |-> 0],
    since   |-> 0,            \* instant of the last disturbance (an edit; time passing inside a reload)
    parked  |-> NoPark,
    fp      |-> 0,            \* reload-event calls that have not returned
    closed  |-> "no",
    farm    |-> FALSE,        \* a reload event was raised on complete, valid files and nothing changed since
    rd      |-> [th \in Ths |-> NoRd],   \* the round of reads each thread is in
    failEnd |-> FALSE,        \* the step just taken ended a round that cannot have loaded anything
    viol    |-> {} ]

V(o, c, name) == IF c THEN o ELSE [o EXCEPT !.viol = @ \cup {name}]

\* one recorded step of the environment / clock / loader / API
ObsEv(o, name, e) ==
  CASE name = "EPut" ->
         LET d == [o.disk EXCEPT ![e.f] = C(e.c)]
             i == PairOfF(e.f)
         IN [o EXCEPT !.disk = d, !.seen = @ \cup Snap(d), !.seenC = @ \cup SnapC(d), !.since = o.now, !.farm = FALSE,
                      !.wild = @ \/ (i \in o.open /\ e.kind \notin {"finish", "part"}),
                      !.open = IF e.kind \in {"dep", "depk", "trunc"} THEN @ \cup {i}
                               ELSE IF e.kind = "finish" THEN @ \ {i} ELSE @]
    [] name = "Tick" ->
         [o EXCEPT !.now = @ + 1,
                   !.since = IF \E th \in Ths : o.parked[th] # "" THEN o.now + 1 ELSE @]
    [] name = "Read" ->
         LET o1 == V(o, ~(e.th = "T" /\ o.closed = "done"), "TickerReloadAfterClose")
             r  == o.rd[e.th]
             c  == C(e.c)
         IN IF IsCertF(e.f)
            THEN IF e.res # "ok"
                 THEN [o1 EXCEPT !.rd[e.th] = NoRd, !.failEnd = TRUE]
                 ELSE [o1 EXCEPT !.rd[e.th] = [bad |-> FALSE, c |-> c]]
            ELSE IF e.res # "ok" \/ ~PairOK(r.c, c)
                 THEN [o1 EXCEPT !.rd[e.th] = NoRd, !.failEnd = TRUE]
                 ELSE [o1 EXCEPT !.rd[e.th] = NoRd]
    [] name = "Force" -> [o EXCEPT !.farm = Complete(o.disk) /\ AllValid(o.disk) /\ o.closed = "no"]
    [] name = "Close" -> [o EXCEPT !.closed = "called"]
    [] name = "End" ->
         LET o1 == V(o, o.closed # "called", "CloseHangs")
         IN V(o1, o.fp = 0, "ReloadEventHangs")
    [] OTHER -> o

\* a complete probe: L = [sv, parked, fp, cl, lg, pan]
ObsLook(o, L) ==
  LET o1 == V(o, ~L.pan, "LoaderPanicked")
      \* every handshake is answered
      o2 == V(o1, \A s \in SNIs : L.sv[s] # 0, "NoCertificate")
      \* ... with a certificate whose key the server holds (the handshake succeeded) and that was on disk
      \* next to that key, as a complete pair, at some instant (a loader that reads two files cannot promise
      \* the "next to" when a writer is disturbed between its two writes: then only "was on disk, complete")
      known == IF o.wild THEN o.seenC ELSE o.seen
      o3 == V(o2, \A s \in SNIs : L.sv[s] # 0 => \E r \in known : r.v = L.sv[s], "PairNeverOnDisk")
      \* ... chosen by the SNI name, the first pair when no name matches
      o4 == V(o3, \A s \in SNIs : (\E r \in known : r.v = L.sv[s]) => [i |-> Slot(s), v |-> L.sv[s]] \in known,
              "WrongCertForName")
      exp == Expected(o.disk)
      o5 == IF o.first THEN V(o4, Complete(o.disk) => L.sv = exp, "InitLoadedWrong") ELSE o4
      \* a reload that failed is logged and changes nothing
      o6 == IF o.failEnd
            THEN V(V(o5, L.lg, "FailureNotLogged"), o.first \/ L.sv = o.prev, "FailedReloadApplied")
            ELSE o5
      quiet == (\A th \in Ths : L.parked[th] = "") /\ L.fp = 0 /\ L.cl = "no"
      hasExp == Complete(o.disk) /\ AllValid(o.disk)
      o7 == V(o6, ~(quiet /\ hasExp /\ o.now - o.since >= Settle /\ L.sv # exp), "StaleCertificate")
      judge == o.farm /\ quiet
      o8 == IF judge THEN V(o7, L.sv = exp, "ReloadEventIgnored") ELSE o7
  IN [o8 EXCEPT !.prev = L.sv, !.first = FALSE, !.parked = L.parked, !.fp = L.fp,
                !.closed = IF L.cl = "no" THEN @ ELSE L.cl,
                !.failEnd = FALSE,
                !.farm = IF judge THEN FALSE ELSE @]
=============================================================================
