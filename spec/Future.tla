-------------------------------- MODULE Future --------------------------------
(***************************************************************************)
(* Design of framework/future.Future (Set / Get / GetContext) at the       *)
(* granularity of the scheduling points harness/cmd/instrument puts into   *)
(* future.go: before every Lock / RLock and before the select.  A critical *)
(* section is one step (nobody is ever parked holding the mutex).          *)
(*                                                                         *)
(*   getter: start -> l1 (before RLock) -> [set: done with the value]      *)
(*           -> sel (before the select) -> [notify closed: l2 | context    *)
(*           cancelled: done with the context's error | neither: blk]      *)
(*           blk -> l2 when Set closes notify (part of the setter's step), *)
(*           blk -> done when its context is cancelled; l2 -> done with    *)
(*           the value                                                     *)
(*   setter: start -> l (before Lock) -> done (first: stores the pair and  *)
(*           closes notify; later ones change nothing)                     *)
(* When both select cases are ready Go picks either; the behaviour carries *)
(* the choice (field pref) and the harness imposes it.                     *)
(*                                                                         *)
(* Named deviations (none is present on HEAD; they keep the invariant      *)
(* honest): LostWakeup - Set stores the pair but a getter that has passed  *)
(* its check is not woken; LastSetWins - a later Set replaces the value.   *)
(***************************************************************************)
EXTENDS FutureObs, TLC, Json

CONSTANTS MaxCancel, Devs, Gen

VARIABLES pc, res, set, val, closed, canc, ncanc, done, last, obs, hist

dvars == <<pc, res, set, val, closed, canc, ncanc, done>>
vars == <<dvars, last, obs, hist>>
View == <<dvars, obs>>

H(e) == IF Gen THEN Append(hist, e) ELSE hist
Emit(e) == last' = e /\ hist' = H(e)

Init ==
  /\ pc = [g \in Gs |-> "start"] /\ res = [g \in Gs |-> 0]
  /\ set = FALSE /\ val = 0 /\ closed = FALSE /\ canc = {} /\ ncanc = 0 /\ done = FALSE
  /\ last = [a |-> "Cfg"] /\ obs = ObsInit /\ hist = <<>>

Ev(name, g, pref) == Emit([a |-> name, g |-> g, pref |-> pref, pcs |-> pc', res |-> res'])

GStep(g) ==
  /\ ~done /\ g \in Getters
  /\ CASE pc[g] = "start" ->
            /\ pc' = [pc EXCEPT ![g] = "l1"] /\ res' = res /\ Ev("Step", g, "")
       [] pc[g] = "l1" ->
            /\ IF set THEN pc' = [pc EXCEPT ![g] = "done"] /\ res' = [res EXCEPT ![g] = val]
                      ELSE pc' = [pc EXCEPT ![g] = "sel"] /\ res' = res
            /\ Ev("Step", g, "")
       [] pc[g] = "sel" ->
            \/ /\ closed /\ pc' = [pc EXCEPT ![g] = "l2"] /\ res' = res
               /\ Ev("Step", g, IF g \in canc THEN "notify" ELSE "")
            \/ /\ g \in canc /\ pc' = [pc EXCEPT ![g] = "done"] /\ res' = [res EXCEPT ![g] = -1]
               /\ Ev("Step", g, IF closed THEN "ctx" ELSE "")
            \/ /\ ~closed /\ g \notin canc /\ pc' = [pc EXCEPT ![g] = "blk"] /\ res' = res
               /\ Ev("Step", g, "")
       [] pc[g] = "l2" ->
            /\ pc' = [pc EXCEPT ![g] = "done"] /\ res' = [res EXCEPT ![g] = val]
            /\ Ev("Step", g, "")
       [] OTHER -> FALSE
  /\ UNCHANGED <<set, val, closed, canc, ncanc, done>>

Wake(p) == [g \in Gs |-> IF g \in Getters /\ p[g] = "blk" THEN "l2" ELSE p[g]]

SStep(t) ==
  /\ ~done /\ t \in Setters
  /\ CASE pc[t] = "start" ->
            /\ pc' = [pc EXCEPT ![t] = "l"] /\ res' = res
            /\ UNCHANGED <<set, val, closed>>
       [] pc[t] = "l" ->
            /\ res' = [res EXCEPT ![t] = 1]
            /\ IF ~set
               THEN /\ set' = TRUE /\ val' = ValOf(t)
                    /\ IF "LostWakeup" \in Devs
                       THEN closed' = closed /\ pc' = [pc EXCEPT ![t] = "done"]
                       ELSE closed' = TRUE /\ pc' = [Wake(pc) EXCEPT ![t] = "done"]
               ELSE /\ pc' = [pc EXCEPT ![t] = "done"]
                    /\ val' = IF "LastSetWins" \in Devs THEN ValOf(t) ELSE val
                    /\ UNCHANGED <<set, closed>>
       [] OTHER -> FALSE
  /\ Ev("Step", t, "")
  /\ UNCHANGED <<canc, ncanc, done>>

Cancel(g) ==
  /\ ~done /\ g \in CtxGetters /\ g \notin canc /\ ncanc < MaxCancel /\ pc[g] # "done"
  /\ canc' = canc \cup {g} /\ ncanc' = ncanc + 1
  /\ IF pc[g] = "blk" THEN pc' = [pc EXCEPT ![g] = "done"] /\ res' = [res EXCEPT ![g] = -1]
                      ELSE pc' = pc /\ res' = res
  /\ Ev("Cancel", g, "")
  /\ UNCHANGED <<set, val, closed, done>>

Runnable(g) == pc[g] \in {"start", "l1", "sel", "l2", "l"}
End ==
  /\ ~done /\ \A g \in Gs : ~Runnable(g) \/ pc[g] = "start"
  /\ done' = TRUE
  /\ Emit([a |-> "End"])
  /\ UNCHANGED <<pc, res, set, val, closed, canc, ncanc>>

Act == (\E g \in Getters : GStep(g) \/ Cancel(g)) \/ (\E t \in Setters : SStep(t)) \/ End

Cfg == [Getters |-> Getters, CtxGetters |-> CtxGetters, Setters |-> Setters]

Next ==
  \/ /\ (Gen => obs.viol = {})
     /\ Act
     /\ obs' = ObsEv(obs, last'.a, last')
     /\ IF Gen /\ (done' \/ obs'.viol # {})
        THEN PrintT(<<"BEH", ToJson([cfg |-> Cfg, hist |-> hist', viol |-> obs'.viol])>>)
        ELSE TRUE
  \/ (done /\ ~Gen /\ UNCHANGED vars)

Spec == Init /\ [][Next]_vars

NoViolation == obs.viol = {}
TypeOK == /\ \A g \in Getters : pc[g] \in {"start", "l1", "sel", "blk", "l2", "done"}
          /\ \A t \in Setters : pc[t] \in {"start", "l", "done"}
          /\ (closed => set)
\* the panic branch of GetContext ("Notification received, but value is not set") is unreachable
NotifiedImpliesSet == \A g \in Getters : pc[g] = "l2" => set
=============================================================================
