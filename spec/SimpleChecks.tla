---------------------------- MODULE SimpleChecks ----------------------------
(***************************************************************************)
(* X14 (first half) - the simple inbound checks require_tls,               *)
(* require_matching_rdns and require_mx_record and the generic wrapper      *)
(* that gives them fail_action (docs/reference/checks/misc.md, actions.md; *)
(* internal/check/stateless_check.go, internal/check/dns/dns.go,           *)
(* internal/check/requiretls/requiretls.go; the reverse lookup the checks  *)
(* rely on: internal/endpoint/smtp/session.go fetchRDNSName,               *)
(* framework/dns/resolver.go LookupAddr; framework/module/msgmetadata.go   *)
(* for the meaning of ConnState.RDNSName).                                 *)
(*                                                                         *)
(* Decision table (BUILDING.md pattern B).                                 *)
(*   in = [tab, check, level, place, fa, conn, from, mx, res, nrcpt]       *)
(*     check  "require_tls" | "require_matching_rdns" | "require_mx_record"*)
(*     level  "module": the module is created through maddy's module       *)
(*            registry under its documented name, initialised from a       *)
(*            configuration block, and the four stage methods of its       *)
(*            per-message state are called once each;                      *)
(*            "pipeline": the check is written in the check block of a     *)
(*            real msgpipeline (configuration text) and one message goes   *)
(*            through Start / AddRcpt / Body / Commit to a recording target*)
(*     place  where the check block is (pipeline level): "global",         *)
(*            "source" (source block of the sender's domain),              *)
(*            "destination" (destination block of the recipients' domain)  *)
(*     fa     [given, act]: the fail_action directive (ignore / quarantine *)
(*            / reject); not given = the documented default                *)
(*     conn   [kind, tls, helo, ptr]: kind "tcp4" / "tcp6" / "unix" (a     *)
(*            socket without an IP address) / "nil" (no connection: a      *)
(*            locally generated message); tls = the TLS handshake was      *)
(*            completed (directly or by STARTTLS); helo = the EHLO name D; *)
(*            ptr = what the reverse lookup of the client address gives:   *)
(*            [k, names]: "names" (PTR records, in the order the resolver  *)
(*            returns them), "nx" (NXDOMAIN), "empty" (answer without PTR  *)
(*            records), "temp" (temporary failure), "perm" (another lookup *)
(*            failure), "off" (reverse lookups are not applicable:         *)
(*            ConnState.RDNSName = nil)                                    *)
(*     from   [kind, local, dom]: MAIL FROM: "addr" (local@dom), "null"    *)
(*            (null reverse-path), "postmaster" (the local sender without  *)
(*            a domain), "bare" (a string without an at-sign)              *)
(*     D      a domain spelling [name, canon, utf8, dot]: name = the       *)
(*            spelling in ASCII (A-labels where internationalized; letter  *)
(*            case as written), canon = lower case A-labels without the    *)
(*            trailing dot, utf8 = the peer spells it with U-labels (the   *)
(*            harness converts), dot = written with a trailing dot         *)
(*     mx     [k, hosts]: the MX lookup of the sender's domain: "mx"       *)
(*            (records hosts), "nomx" (the name exists, e.g. has an A      *)
(*            record, no MX record), "nx", "temp", "perm"                  *)
(*     res    "mock": an answer without records is an empty list;          *)
(*            "go": ... is a 'no such host' error (what Go's resolver      *)
(*            does); both refuse a non-ASCII query name with 'no such host'*)
(*     nrcpt  recipients of the message (pipeline level)                   *)
(*   out = [failed, act, stage, others, code, temp, enchc, queries]        *)
(*     failed  the check reported a failure (module level: a result with a *)
(*             reason; pipeline level: the refusal, or the runner's log    *)
(*             line "quarantined" / "no check action")                     *)
(*     act     "none" | "quarantine" | "reject" | "panic"                  *)
(*     stage   module level: the stage method that reported the failure    *)
(*             ("conn", "sender", "rcpt", "body"); pipeline level: the     *)
(*             command that was refused ("mail", "rcpt", "body"); "none"   *)
(*     others  stage methods other than `stage` that returned a non-empty  *)
(*             result (module level)                                       *)
(*     code, temp, enchc   SMTP code of the failure reason (0: none),      *)
(*             exterrors.IsTemporary, class of the enhanced code           *)
(*     queries sequence of [t, q, ascii]: lookups of the message in order  *)
(*             (t = "MX" / "PTR"; q = the name, lower case A-labels, no    *)
(*             trailing dot; ascii = the name was asked in ASCII)          *)
(*                                                                         *)
(* Deviations of the code (Devs):                                          *)
(*   "MxLookupULabel"  require_mx_record hands the sender's domain to the  *)
(*        resolver as it got it: the SMTP endpoint / pipeline pass domains *)
(*        in U-label form, so for an internationalized sender domain a     *)
(*        non-ASCII name is asked, which no resolver finds (X14-F1)        *)
(*   "FirstPtrOnly"  only the first PTR record of the client address is    *)
(*        kept (framework/dns LookupAddr: names[0]); a client whose        *)
(*        matching name is not the first one fails (X14-F2)                *)
(***************************************************************************)
EXTENDS Naturals, Integers, Sequences, FiniteSets, TLC, Json

CONSTANTS Full,    \* TRUE: the larger tables of the thorough tier
          Devs,    \* deviations switched on in the as-is runs
          Gen      \* TRUE: print one ROW line per row

VARIABLE in
vars == <<in>>

Range(f) == {f[i] : i \in DOMAIN f}
AllDevs == {"MxLookupULabel", "FirstPtrOnly"}

-----------------------------------------------------------------------------
(* Configuration: fail_action with the documented defaults                 *)
(*   misc.md: "fail_action ignore | reject | quarantine  Default:          *)
(*   quarantine"; require_tls: "By default, rejects messages coming from   *)
(*   unencrypted servers"                                                   *)
DefaultAct(c) == IF c = "require_tls" THEN "reject" ELSE "quarantine"
ActOf(i) == IF i.fa.given THEN i.fa.act ELSE DefaultAct(i.check)
(* actions.md: ignore = "no effect on message delivery", reject = "Reject  *)
(* the message at connection time", quarantine = "Mark message as          *)
(* 'quarantined'"                                                          *)
Effect(a) == IF a = "ignore" THEN "none" ELSE a

(* the stage each check belongs to: the connection (TLS state, EHLO name, *)
(* PTR record) or the MAIL FROM command (from the code: CheckConnection /  *)
(* CheckSender)                                                            *)
DocStage(c) == IF c = "require_mx_record" THEN "sender" ELSE "conn"

-----------------------------------------------------------------------------
(* The three checks, declaratively                                         *)
HasConn(i) == i.conn.kind # "nil"
TempDns(i) ==
  \/ i.check = "require_matching_rdns" /\ HasConn(i) /\ i.conn.ptr.k = "temp"
  \/ i.check = "require_mx_record" /\ i.from.kind = "addr" /\ i.mx.k = "temp"
(* cases the documentation decides (the others are only required not to    *)
(* crash, to apply the configured action to whatever they decide and to    *)
(* use coherent codes)                                                     *)
Determined(i) ==
  CASE i.check = "require_tls" -> HasConn(i)             \* "the source server is connected via TLS": no source server, no claim
    [] i.check = "require_matching_rdns" ->
         ~HasConn(i) \/ i.conn.ptr.k \in {"names", "nx", "empty", "off"}
    [] OTHER -> i.from.kind = "null" \/ (i.from.kind = "addr" /\ i.mx.k \in {"mx", "nomx", "nx"})

(* "Check that source server IP does have a PTR record point to the domain *)
(* specified in EHLO/HELO command": some PTR record names the EHLO domain  *)
(* (domain names compare without regard to letter case, the trailing dot   *)
(* and the A-label / U-label spelling)                                     *)
PtrMatches(i) == \E k \in DOMAIN i.conn.ptr.names : i.conn.ptr.names[k].canon = i.conn.helo.canon
(* "... and none of them are "null" (contain a single dot as the host)"    *)
HasNullMx(i) == \E k \in DOMAIN i.mx.hosts : i.mx.hosts[k] = "."

Fails(i) ==
  CASE i.check = "require_tls" -> ~i.conn.tls
    [] i.check = "require_matching_rdns" ->
         IF ~HasConn(i) \/ i.conn.ptr.k = "off" THEN FALSE       \* nothing to check (from the code: "skipping")
         ELSE IF i.conn.ptr.k = "names" THEN ~PtrMatches(i)
         ELSE TRUE                                               \* "mismatched or missing PTR record"
    [] OTHER ->
         IF i.from.kind = "null" THEN FALSE                      \* from the code: "Permit null reverse-path for bounces"
         ELSE IF i.mx.k = "mx" THEN HasNullMx(i) \/ Len(i.mx.hosts) = 0
         ELSE TRUE                                               \* "does have a MX record"

(* the names the check may ask the resolver for *)
ClientIP(i) == IF i.conn.kind = "tcp4" THEN "192.0.2.7" ELSE "2001:db8::7"       \* the client addresses the harness uses
AllowedQueries(i) ==
  CASE i.check = "require_mx_record" /\ i.from.kind = "addr" -> {[t |-> "MX", q |-> i.from.dom.canon, ascii |-> TRUE]}
    (* (the session already carries the result of the reverse lookup; asking again for the client address is harmless) *)
    [] i.check = "require_matching_rdns" /\ i.conn.kind \in {"tcp4", "tcp6"} -> {[t |-> "PTR", q |-> ClientIP(i), ascii |-> TRUE]}
    [] OTHER -> {}
(* lookups the decision needs *)
NeededQueries(i) == IF i.check = "require_mx_record" /\ i.from.kind = "addr" THEN AllowedQueries(i) ELSE {}

-----------------------------------------------------------------------------
(* The property *)
Class(code) == code \div 100
P_NoCrash(i, o) == o.act # "panic"
(* the verdict is the documented one *)
P_Verdict(i, o) == Determined(i) => (o.failed = Fails(i))
(* the configured action, and only it, is applied to a failure *)
P_Action(i, o) == o.act = IF o.failed THEN Effect(ActOf(i)) ELSE "none"
(* reply codes: a refusal is 5xx for a failure the documentation names,    *)
(* 4xx when a lookup failed temporarily; basic code, enhanced code and     *)
(* temporariness agree                                                     *)
P_Code(i, o) ==
  o.act = "reject" =>
    /\ o.code \in 400..599 /\ o.enchc = Class(o.code) /\ o.temp = (Class(o.code) = 4)
    /\ (Determined(i) /\ Fails(i)) => Class(o.code) = 5
(* a temporary DNS failure never becomes a permanent refusal *)
P_TempNotPermanent(i, o) == TempDns(i) => ~(o.act = "reject" /\ (Class(o.code) = 5 \/ ~o.temp))
(* the check acts at its own stage and nowhere else; in a pipeline the     *)
(* refusal is the answer to MAIL FROM (to the first RCPT TO of its         *)
(* destination block for a recipient-scoped check)                         *)
P_Stage(i, o) ==
  IF i.level = "module"
  THEN (o.failed => o.stage = DocStage(i.check)) /\ o.others = {}
  ELSE o.act = "reject" => o.stage = IF i.place = "destination" THEN "rcpt" ELSE "mail"
(* it looks up nothing but the sender's domain (the client address for require_matching_rdns), in ASCII, once per message *)
Count(s, x) == Cardinality({k \in DOMAIN s : s[k] = x})
(* (a recipient-scoped check that refuses is asked again for the next recipient: from the code, the  *)
(* state of a check that refused is discarded)                                                       *)
MaxLookups(i, o) == IF i.level = "pipeline" /\ i.place = "destination" /\ o.act = "reject" THEN i.nrcpt ELSE 1
P_Lookups(i, o) ==
  /\ Range(o.queries) \subseteq AllowedQueries(i)
  /\ \A x \in Range(o.queries) : Count(o.queries, x) <= MaxLookups(i, o)
  /\ (Determined(i) /\ ~o.failed) => NeededQueries(i) \subseteq Range(o.queries)

PredNames == {"NoCrash", "Verdict", "Action", "Code", "TempNotPermanent", "Stage", "Lookups"}
Holds(n, i, o) == CASE n = "NoCrash" -> P_NoCrash(i, o)
                    [] n = "Verdict" -> P_Verdict(i, o)
                    [] n = "Action" -> P_Action(i, o)
                    [] n = "Code" -> P_Code(i, o)
                    [] n = "TempNotPermanent" -> P_TempNotPermanent(i, o)
                    [] n = "Stage" -> P_Stage(i, o)
                    [] n = "Lookups" -> P_Lookups(i, o)
Viol(i, o) == {n \in PredNames : ~Holds(n, i, o)}
Prop(i, o) == Viol(i, o) = {}

-----------------------------------------------------------------------------
(* The documented procedure, step by step, with the code's reply codes and *)
(* the named deviations                                                    *)
Res(failed, code) == [failed |-> failed, code |-> code]
Pass == Res(FALSE, 0)

(* the domain string the check is handed: the pipeline (like the SMTP      *)
(* endpoint) normalises the sender's domain to lower-case U-labels; at     *)
(* module level the row's spelling is handed over as it is                 *)
HandedAscii(i) == IF i.level = "pipeline" THEN i.from.dom.canon = i.from.dom.ucanon ELSE ~i.from.dom.utf8

RuleTls(i) == IF HasConn(i) /\ i.conn.tls THEN Pass ELSE Res(TRUE, 550)

PtrConsidered(devs, i) ==
  IF "FirstPtrOnly" \in devs /\ Len(i.conn.ptr.names) > 0 THEN <<i.conn.ptr.names[1]>> ELSE i.conn.ptr.names
RuleRdns(devs, i) ==
  IF ~HasConn(i) \/ i.conn.ptr.k = "off" THEN Pass
  ELSE CASE i.conn.ptr.k = "temp" -> Res(TRUE, 450)
         [] i.conn.ptr.k = "perm" -> Res(TRUE, 550)
         [] i.conn.ptr.k \in {"nx", "empty"} -> Res(TRUE, 550)
         [] OTHER -> IF \E k \in DOMAIN PtrConsidered(devs, i) : PtrConsidered(devs, i)[k].canon = i.conn.helo.canon
                     THEN Pass ELSE Res(TRUE, 550)

(* what the resolver answers for the name that is asked *)
MxAnswer(devs, i) ==
  IF "MxLookupULabel" \in devs /\ ~HandedAscii(i) THEN [k |-> "nx", hosts |-> <<>>]
  ELSE IF i.res = "go" /\ (i.mx.k = "nomx" \/ (i.mx.k = "mx" /\ Len(i.mx.hosts) = 0)) THEN [k |-> "nx", hosts |-> <<>>]
  ELSE i.mx
RuleMx(devs, i) ==
  CASE i.from.kind = "null" -> Pass
    [] i.from.kind \in {"postmaster", "bare"} -> Res(TRUE, 501)       \* "No domain part in address" / "Malformed sender address"
    [] OTHER ->
         LET a == MxAnswer(devs, i) IN
           CASE a.k = "temp" -> Res(TRUE, 450)
             [] a.k \in {"perm", "nx"} -> Res(TRUE, 550)
             [] a.k = "nomx" -> Res(TRUE, 501)
             [] OTHER -> IF Len(a.hosts) = 0 \/ \E k \in DOMAIN a.hosts : a.hosts[k] = "." THEN Res(TRUE, 501) ELSE Pass
MxQueries(devs, i, n) ==
  IF i.check = "require_mx_record" /\ i.from.kind = "addr"
  THEN [k \in 1..n |-> [t |-> "MX", q |-> i.from.dom.canon, ascii |-> ~("MxLookupULabel" \in devs /\ ~HandedAscii(i))]]
  ELSE <<>>

RuleD(devs, i) ==
  LET r == CASE i.check = "require_tls" -> RuleTls(i)
             [] i.check = "require_matching_rdns" -> RuleRdns(devs, i)
             [] OTHER -> RuleMx(devs, i)
      act == IF r.failed THEN Effect(ActOf(i)) ELSE "none"
      (* a scoped check is asked only when its block applies *)
      stage == IF ~r.failed THEN "none"
               ELSE IF i.level = "module" THEN DocStage(i.check)
               ELSE IF act = "reject" THEN (IF i.place = "destination" THEN "rcpt" ELSE "mail")
               ELSE "none"
      shown == r.failed /\ (i.level = "module" \/ act = "reject")       \* the code of the reason is visible
  IN [failed |-> r.failed, act |-> act, stage |-> stage, others |-> {},
      code |-> IF shown THEN r.code ELSE 0, temp |-> shown /\ Class(r.code) = 4,
      enchc |-> IF shown THEN Class(r.code) ELSE 0,
      queries |-> MxQueries(devs, i, IF i.level = "pipeline" /\ i.place = "destination" /\ act = "reject" THEN i.nrcpt ELSE 1)]
Rule(i) == RuleD({}, i)
AsIs(i) == RuleD(Devs, i)

SameOut(a, b) == /\ a.failed = b.failed /\ a.act = b.act /\ a.stage = b.stage /\ a.others = b.others
                 /\ a.code = b.code /\ a.temp = b.temp /\ a.enchc = b.enchc /\ a.queries = b.queries
Explains(devSets, i, o) == {D \in devSets : SameOut(o, RuleD(D, i))}

-----------------------------------------------------------------------------
(* Input tables *)
D(name, canon, ucanon, utf8, dot) == [name |-> name, canon |-> canon, ucanon |-> ucanon, utf8 |-> utf8, dot |-> dot]
Plain(n) == D(n, n, n, FALSE, FALSE)
NoDom == D("", "", "", FALSE, FALSE)
(* xn--e1afmkfd = the Cyrillic word "пример"; ucanon # canon marks an internationalized name *)
IdnA(n) == D(n, n, "u:" \o n, FALSE, FALSE)          \* written with A-labels
IdnU(n) == D(n, n, "u:" \o n, TRUE, FALSE)           \* written with U-labels (the harness converts)

Fa(given, act) == [given |-> given, act |-> act]
FaAbsent == Fa(FALSE, "ignore")
Fas == {FaAbsent, Fa(TRUE, "ignore"), Fa(TRUE, "quarantine"), Fa(TRUE, "reject")}

Ptr(k, names) == [k |-> k, names |-> names]
NoPtr == Ptr("nx", <<>>)
Conn(kind, tls, helo, ptr) == [kind |-> kind, tls |-> tls, helo |-> helo, ptr |-> ptr]
HeloMx == Plain("mx.sender.test")
From(kind, local, dom) == [kind |-> kind, local |-> local, dom |-> dom]
FromA == From("addr", "bounce", Plain("sender.test"))
Mx(k, hosts) == [k |-> k, hosts |-> hosts]
MxOk == Mx("mx", <<"mx.sender.test.">>)

Row(tab, check, level, place, fa, conn, from, mx, res, nrcpt) ==
  [tab |-> tab, check |-> check, level |-> level, place |-> place, fa |-> fa, conn |-> conn, from |-> from,
   mx |-> mx, res |-> res, nrcpt |-> nrcpt]
Levels == {"module", "pipeline"}

(* (a) require_tls: every kind of connection, with and without TLS *)
InTls ==
  \E kind \in {"tcp4", "tcp6", "unix", "nil"}, tls \in BOOLEAN, fa \in Fas, lv \in Levels :
    /\ (kind = "nil") => ~tls
    /\ in = Row("tls", "require_tls", lv, "global", fa, Conn(kind, tls, HeloMx, Ptr("names", <<Plain("mx.sender.test")>>)),
                FromA, MxOk, "mock", 1)

(* (b) require_matching_rdns: EHLO spellings x reverse lookup answers *)
Helos == {HeloMx,
          D("MX.Sender.TEST", "mx.sender.test", "mx.sender.test", FALSE, FALSE),
          D("mx.sender.test", "mx.sender.test", "mx.sender.test", FALSE, TRUE),        \* "mx.sender.test."
          IdnU("mx.xn--e1afmkfd.test"), IdnA("mx.xn--e1afmkfd.test"),
          D("MX.XN--E1AFMKFD.test", "mx.xn--e1afmkfd.test", "u:mx.xn--e1afmkfd.test", FALSE, FALSE),
          Plain("[192.0.2.7]"), Plain("other.test"), Plain("sender.test")}
PtrNames == {<<D("mx.sender.test", "mx.sender.test", "mx.sender.test", FALSE, TRUE)>>,   \* as resolvers return it: "mx.sender.test."
             <<Plain("mx.sender.test")>>,
             <<D("MX.SENDER.TEST", "mx.sender.test", "mx.sender.test", FALSE, TRUE)>>,
             <<IdnA("mx.xn--e1afmkfd.test")>>,
             <<Plain("other.test")>>,
             <<Plain("x.mx.sender.test")>>,
             <<Plain("mx.sender.test"), Plain("other.test")>>,
             <<Plain("other.test"), Plain("mx.sender.test")>>,
             <<Plain("other.test"), Plain("third.test"), IdnA("mx.xn--e1afmkfd.test")>>}
Ptrs == {Ptr("names", n) : n \in PtrNames} \cup {Ptr(k, <<>>) : k \in {"nx", "empty", "temp", "perm", "off"}}
InRdns ==
  \/ \E h \in Helos, p \in Ptrs, fa \in Fas, lv \in Levels, kind \in {"tcp4", "tcp6"} :
       /\ Full \/ kind = "tcp4"
       /\ in = Row("rdns", "require_matching_rdns", lv, "global", fa, Conn(kind, FALSE, h, p), FromA, MxOk, "mock", 1)
  \/ \E kind \in {"unix", "nil"}, fa \in Fas, lv \in Levels :          \* no client address: nothing to look up
       in = Row("rdns", "require_matching_rdns", lv, "global", fa,
                Conn(kind, FALSE, HeloMx, IF kind = "unix" THEN NoPtr ELSE Ptr("off", <<>>)), FromA, MxOk, "mock", 1)

(* (c) require_mx_record: sender shapes x MX answers x resolver flavour *)
Froms == {FromA,
          From("addr", "bounce", D("SENDER.Test", "sender.test", "sender.test", FALSE, FALSE)),
          From("addr", "bounce", D("sender.test", "sender.test", "sender.test", FALSE, TRUE)),
          From("addr", "bounce", IdnU("xn--e1afmkfd.test")),
          From("addr", "bounce", IdnA("xn--e1afmkfd.test")),
          From("addr", "\"odd local\"", Plain("sender.test")),
          From("null", "", NoDom), From("postmaster", "postmaster", NoDom), From("postmaster", "PostMaster", NoDom),
          From("bare", "root", NoDom)}
Mxs == {MxOk, Mx("mx", <<"mx1.sender.test.", "mx2.sender.test.">>), Mx("mx", <<".">>),
        Mx("mx", <<".", "mx.sender.test.">>), Mx("mx", <<"mx.sender.test.", ".">>), Mx("mx", <<>>),
        Mx("nomx", <<>>), Mx("nx", <<>>), Mx("temp", <<>>), Mx("perm", <<>>)}
InMx ==
  \E f \in Froms, m \in Mxs, fa \in Fas, lv \in Levels, rs \in {"mock", "go"} :
    /\ (f.kind \in {"postmaster", "bare"}) => lv = "module"            \* the SMTP endpoint does not hand such senders over
    /\ (f.kind # "addr") => (m = MxOk /\ rs = "mock")
    /\ (f.kind = "addr" /\ f.dom.dot) => lv = "module"
    /\ in = Row("mx", "require_mx_record", lv, "global", fa,
                Conn("tcp4", FALSE, HeloMx, Ptr("names", <<Plain("mx.sender.test")>>)), f, m, rs, 1)

(* (d) placement and several recipients: the check in the top-level check  *)
(* block, in the source block of the sender's domain, in the destination   *)
(* block of the recipients' domain; 1 or 2 recipients                      *)
Situations ==
  {<<"require_tls", Conn("tcp4", FALSE, HeloMx, NoPtr), FromA, MxOk>>,
   <<"require_tls", Conn("tcp4", TRUE, HeloMx, NoPtr), FromA, MxOk>>,
   <<"require_matching_rdns", Conn("tcp4", FALSE, HeloMx, Ptr("names", <<Plain("other.test")>>)), FromA, MxOk>>,
   <<"require_matching_rdns", Conn("tcp4", FALSE, HeloMx, Ptr("names", <<Plain("mx.sender.test")>>)), FromA, MxOk>>,
   <<"require_matching_rdns", Conn("tcp4", FALSE, HeloMx, Ptr("temp", <<>>)), FromA, MxOk>>,
   <<"require_mx_record", Conn("tcp4", FALSE, HeloMx, NoPtr), FromA, MxOk>>,
   <<"require_mx_record", Conn("tcp4", FALSE, HeloMx, NoPtr), FromA, Mx("mx", <<".">>)>>,
   <<"require_mx_record", Conn("tcp4", FALSE, HeloMx, NoPtr), FromA, Mx("nx", <<>>)>>,
   <<"require_mx_record", Conn("tcp4", FALSE, HeloMx, NoPtr), FromA, Mx("temp", <<>>)>>,
   <<"require_mx_record", Conn("tcp4", FALSE, HeloMx, NoPtr), From("addr", "bounce", IdnU("xn--e1afmkfd.test")), MxOk>>}
InPlace ==
  \E s \in Situations, pl \in {"global", "source", "destination"}, fa \in Fas, n \in 1..2 :
    in = Row("place", s[1], "pipeline", pl, fa, s[2], s[3], s[4], "mock", n)

-----------------------------------------------------------------------------
Init == InTls \/ InRdns \/ InMx \/ InPlace
Next == FALSE /\ UNCHANGED in      \* one state per input (CHECK_DEADLOCK FALSE)
Spec == Init /\ [][Next]_vars

(* TLC: the documented procedure satisfies the property on every row *)
RuleSatisfiesProp == Prop(in, Rule(in))
(* ... and decides exactly the documented verdict where the documentation decides *)
RuleDecides == Determined(in) => (Rule(in).failed = Fails(in))
(* as-is configurations: the code's deviations must violate the property *)
AsIsSatisfiesProp == Prop(in, AsIs(in))

Emit == Gen => PrintT(<<"ROW", ToJson([in |-> in, exp |-> Rule(in)])>>)
=============================================================================
