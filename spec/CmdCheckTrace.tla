---------------------------- MODULE CmdCheckTrace ----------------------------
(***************************************************************************)
(* Code -> model for X14 (check.command).  trace.ndjson holds the events   *)
(* the harness (harness/simplecheckscheck) recorded while a real message   *)
(* pipeline with a real check.command module ran the scenarios TLC printed *)
(* from CmdCheck.tla; many traces concatenated, a "Cfg" event (carrying    *)
(* the scenario) starts a new one.                                         *)
(*                                                                         *)
(* The steps of the design between two observable points (Begin, Skip,     *)
(* Expand, Spawn, Io, Exit, Decide) are taken silently; a "Pipe" event     *)
(* must be the design's Reply with exactly the logged answer and executions*)
(* (C_Reply), the "End" event the design's Finish (C_Finish).  An event    *)
(* the design cannot explain is consumed by the monitor-only step M_Step,  *)
(* which folds the same CmdCheckObs operators and marks the trace as       *)
(* drifted.  obs.viol depends only on the scenario and the events.  The    *)
(* verdict [t, drift, driftAt, viol, taken] of each trace is published in  *)
(* TLC register 1 at its "End" event (taken = deviation branches of Devs   *)
(* the design needed to follow the trace).                                 *)
(***************************************************************************)
EXTENDS CmdCheck

Trace == ndJsonDeserialize("trace.ndjson")

VARIABLES l, drift, driftAt, tno
tvars == <<vars, l, drift, driftAt, tno>>

TEv == Trace[l]
IsEv(e) == l <= Len(Trace) /\ TEv.e = e

RunOf(j) == [n |-> j.n, argv |-> j.argv, read |-> j.read, stdin |-> [hdr |-> j.stdin.hdr, body |-> j.stdin.body]]
PipeOf(j) == [e |-> "Pipe", call |-> j.call, arg |-> j.arg,
              reply |-> R(j.reply.k, j.reply.code, j.reply.temp, j.reply.enchc),
              runs |-> [k \in DOMAIN j.runs |-> RunOf(j.runs[k])],
              panics |-> j.panics, left |-> j.left, stalled |-> j.stalled]
EndOf(j) == [e |-> "End", cfgerr |-> j.cfgerr, delivered |-> j.delivered, quarantine |-> j.quarantine,
             added |-> j.added, rcpts |-> j.rcpts]

Publish1(o, dr, da, tk) ==
  TLCSet(1, TLCGet(1) \cup {[t |-> tno, drift |-> dr, driftAt |-> da, viol |-> o.viol, taken |-> tk]})

Idle(s) ==
  /\ sc = s
  /\ pc = IF s.start = "absent" THEN "end" ELSE "mail"
  /\ ri = 1 /\ ph = "idle" /\ hi = 1 /\ run = NoRun /\ w = W0
  /\ cs = [seen |-> <<>>, called |-> {}, nrun |-> 0]
  /\ ms = [accepted |-> <<>>, quar |-> FALSE, added |-> <<>>, dead |-> FALSE]
  /\ taken = {} /\ hist = <<>> /\ obs = ObsInit

TInit ==
  /\ Idle([start |-> "absent"])
  /\ l = 1 /\ drift = FALSE /\ driftAt = 0 /\ tno = 0
  /\ TLCSet(1, {})

TReset ==
  /\ IsEv("Cfg")
  /\ sc' = TEv.sc
  /\ pc' = IF TEv.sc.start = "absent" THEN "end" ELSE "mail"
  /\ ri' = 1 /\ ph' = "idle" /\ hi' = 1 /\ run' = NoRun /\ w' = W0
  /\ cs' = [seen |-> <<>>, called |-> {}, nrun |-> 0]
  /\ ms' = [accepted |-> <<>>, quar |-> FALSE, added |-> <<>>, dead |-> FALSE]
  /\ taken' = {} /\ hist' = <<>> /\ obs' = ObsInit
  /\ l' = l + 1 /\ drift' = FALSE /\ driftAt' = 0 /\ tno' = TEv.t

Silent == Begin \/ Skip \/ Expand \/ Spawn \/ Io \/ Exit \/ Decide
C_Silent == ~drift /\ tno # 0 /\ Silent /\ UNCHANGED <<l, drift, driftAt, tno>>

(* the design's own event for the step it is about to take *)
DesignPipe == [e |-> "Pipe", call |-> pc, arg |-> Addr, reply |-> w.reply, runs |-> w.runs, panics |-> w.panics,
               left |-> w.left, stalled |-> w.stalled]
C_Reply  == IsEv("Pipe") /\ ph = "reply" /\ PipeOf(TEv) = DesignPipe /\ Reply
C_Finish == IsEv("End") /\ Finish /\ obs' = ObsEnd(obs, sc, EndOf(TEv))
Conform == C_Reply \/ C_Finish

C_Step ==
  /\ ~drift /\ tno # 0
  /\ Conform
  /\ l' = l + 1 /\ UNCHANGED <<drift, driftAt, tno>>
  /\ IF TEv.e = "End" THEN Publish1(obs', FALSE, 0, taken) ELSE TRUE

ObsApply(o, e) ==
  CASE e.e = "Pipe" -> ObsPipe(o, sc, PipeOf(e))
    [] e.e = "End"  -> ObsEnd(o, sc, EndOf(e))
    [] OTHER -> o

M_Step ==
  /\ l <= Len(Trace) /\ TEv.e # "Cfg" /\ tno # 0
  /\ (drift \/ (~ENABLED Silent /\ ~ENABLED Conform))
  /\ drift' = TRUE
  /\ driftAt' = IF drift THEN driftAt ELSE TEv.seq
  /\ obs' = ObsApply(obs, TEv)
  /\ l' = l + 1
  /\ UNCHANGED <<sc, pc, ri, ph, hi, run, w, cs, ms, taken, hist, tno>>
  /\ IF TEv.e = "End" THEN Publish1(obs', TRUE, driftAt', taken) ELSE TRUE

TNext == TReset \/ C_Silent \/ C_Step \/ M_Step
TSpec == TInit /\ [][TNext]_tvars

Post == PrintT(<<"VERDICTS", ToJson(TLCGet(1))>>)
=============================================================================
