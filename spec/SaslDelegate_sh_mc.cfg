\* X09 exhaustive table sh (reference; lib/checks/x09.py renders the same text)
SPECIFICATION Spec
CONSTANTS
  Layer = "sh"
  Devs = {}
  Gen = FALSE
INVARIANTS RuleSatisfiesProp
CHECK_DEADLOCK FALSE
