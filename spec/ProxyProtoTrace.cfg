SPECIFICATION TSpec
CONSTANTS
  Devs = {}
  Gen = FALSE
  Layers = {}
  MaxTrust = 2
  OpenDevs = {"V6SingleAs32", "V1ShortPanics", "V2ShortRead"}
CHECK_DEADLOCK FALSE
POSTCONDITION Post
