SPECIFICATION GenSpec
CONSTANTS
  MaxFields = 3
  MaxLines = 3
  Devs = {}
  GenN = 20
INVARIANT GenOK
