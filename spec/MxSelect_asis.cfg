\* reference configuration: the code as it is (three deviations); NoViolation is violated (expected),
\* ViolationsExplained holds: every as-is violation is covered by a deviation the behaviour took
SPECIFICATION Spec
CONSTANTS
  Domains = {"d1"}
  FactSet <- FactsSpell
  Outs <- AllOuts
  MailRs = {"ok", "m4", "m5", "mdrop"}
  RcptRs = {"ok", "r4", "r5"}
  DotRs = {"ok", "d4", "d5"}
  Lps <- Lps1
  WithNoDom = TRUE
  MaxDeliv = 1
  Devs = {"UnspecAsPerm", "ResolverDownAsPerm", "IdnRawQuestion"}
  Gen = FALSE
VIEW View
INVARIANTS ViolationsExplained TypeOK
