-------------------------- MODULE ProxyProtoTrace --------------------------
(***************************************************************************)
(* Code -> model for X17.  trace.ndjson holds one "Row" event per          *)
(* connection the harness ran through the real code:                       *)
(* [t, seq, e |-> "Row", in |-> [layer, mode, trust (array), form, tls,    *)
(* peer, hdr, split], out |-> [cfgerr, served, addr, stream, panic, next]].*)
(* For every row TLC evaluates the property clauses on the recorded answer *)
(* (viol), compares it with the rule (drift) and lists the sets of open    *)
(* deviations whose as-is rule reproduces the answer (devs).               *)
(***************************************************************************)
EXTENDS ProxyProto

CONSTANT OpenDevs

Rws == ndJsonDeserialize("trace.ndjson")

ToSetS(s) == {s[k] : k \in 1..Len(s)}
InOf(r) == [layer |-> r.in.layer,
            cfg |-> [mode |-> r.in.mode, trust |-> ToSetS(r.in.trust), form |-> r.in.form, tls |-> r.in.tls],
            peer |-> r.in.peer, hdr |-> r.in.hdr, split |-> r.in.split]
OutOf(r) == [cfgerr |-> r.out.cfgerr, served |-> r.out.served, addr |-> r.out.addr, stream |-> r.out.stream,
             panic |-> r.out.panic, next |-> r.out.next]
DevSets == (SUBSET OpenDevs) \ {{}}
Explains(i, o) == {ds \in DevSets : Same(i, o, RuleWith(i, ds))}
Drift(r) == ~Same(InOf(r), OutOf(r), Rule(InOf(r)))
Bad(r) == Viol(InOf(r), OutOf(r)) # {} \/ Drift(r)
Verdict(r) == [t |-> r.t, drift |-> Drift(r), driftAt |-> r.seq,
               viol |-> Viol(InOf(r), OutOf(r)), devs |-> Explains(InOf(r), OutOf(r))]

Eval ==
  LET bad == {k \in 1..Len(Rws) : Bad(Rws[k])} IN
    [n |-> Len(Rws), accepted |-> Len(Rws) - Cardinality(bad),
     verdicts |-> {Verdict(Rws[k]) : k \in bad}]

TInit == in = <<>> /\ pc = "trace" /\ st = <<>> /\ TLCSet(1, Eval)
TNext == UNCHANGED vars
TSpec == TInit /\ [][TNext]_vars

Post == PrintT(<<"VERDICTS", ToJson(TLCGet(1))>>)
=============================================================================
