------------------------------ MODULE UpdatePipe ------------------------------
(***************************************************************************)
(* Design of the IMAP update pipe (internal/updatepipe) - pattern A.       *)
(*                                                                         *)
(* Processes (Procs) each own one pipe object (interface P) on a shared    *)
(* medium:                                                                 *)
(*   "unix"   UnixSockPipe: one socket path; the process that Listens binds *)
(*            it, accepts connections, one reader goroutine per connection; *)
(*            a pusher dials the path (InitPush, or implicitly in the first *)
(*            Push) and writes one line per update.  A server              *)
(*            (ModeReplicate) also dials its own socket.                   *)
(*   "pubsub" PubSubPipe over a broker (PostgreSQL LISTEN/NOTIFY in maddy,  *)
(*            an in-memory scripted broker in the harness): Publish puts   *)
(*            the line into the queue of every session subscribed to the   *)
(*            key - the publisher's own session included; one goroutine    *)
(*            per listening pipe takes the lines out.                      *)
(* One action per call of P and per step of a pipe goroutine at the medium *)
(* (Accept; Read = take the next line of one connection and dispose of it: *)
(* own line - skipped, no update - logged and skipped, else sent to the     *)
(* listener's channel, which blocks while the channel is full).  The       *)
(* consumer of the channel (Consume), a process dying without Close        *)
(* (Crash), a foreign writer (Bad) and the subscriptions are environment.  *)
(*                                                                         *)
(* Named deviations of the code on HEAD (constant Devs):                   *)
(*   MalformedPanics   unix_pipe.go readUpdates: after a parse error the   *)
(*                     loop does not `continue`; `*upd` is a nil           *)
(*                     dereference in a goroutine without recover - the    *)
(*                     process dies (X12-F1).                              *)
(*   OversizedStalls   unix_pipe.go readUpdates: bufio.Scanner's default   *)
(*                     64 KiB token limit; a longer line ends the reader   *)
(*                     silently, the connection stays open and nothing     *)
(*                     written to it later is ever read (X12-F2).          *)
(*   StaleSocket       unix_pipe.go Listen: a socket file left behind by a *)
(*                     process that died makes net.Listen fail with        *)
(*                     EADDRINUSE for every later start (X12-F3).          *)
(***************************************************************************)
EXTENDS UpdatePipeObs, TLC, Json

CONSTANTS MaxPush,    \* pushes per process that does not listen (the maddy command)
          SrvPush,    \* pushes per listening process
          ChanCap,    \* capacity of a listener's channel (imapsql: 32); 0 = a consumer that is always ready to
                      \* receive (what imapsql's goroutine is until Close): delivery and consumption are one step
          MaxBad,     \* lines that are no update put on the medium by a foreign writer
          MaxBig,     \* lines longer than 64 KiB per behaviour
          LateClose,  \* TRUE: a process that does not listen calls Close only after its last push
          MaxCrash,   \* listeners that die without Close
          MaxClose,   \* Close calls per pipe (1, or 2 = Close may be called twice)
          Sizes,      \* subset of {"s", "L"}: ordinary lines / lines longer than 64 KiB
          Keys,       \* keys of updates (pubsub: the channels)
          First, Second, \* Second makes its first call only after First made one (symmetry breaking; "-" = no such pair)
          Devs,
          Gen

VARIABLES ps,         \* [Procs -> [life, lis, snd, cid (its sender connection), np (pushes), ni (InitPush calls), ncl (Close calls)]]
          sock,       \* unix: [file |-> BOOLEAN, owner |-> process or "-"]
          conns,      \* sequence of connections (index = id): [to, from, st, q, weof, cur]
          ch,         \* [Procs -> sequence of lines]: the listener's channel
          wq,         \* [Procs -> sequence of connection ids]: readers blocked on the full channel, in order
          subs,       \* pubsub: [Procs -> set of keys]
          usub,       \* pubsub: [Procs -> keys unsubscribed from] (a key is subscribed to once per behaviour)
          nbad, nbig, ncrash, devUsed, done,
          last, obs, hist

dvars == <<ps, sock, conns, ch, wq, subs, usub, nbad, nbig, ncrash, devUsed, done>>
vars == <<dvars, last, obs, hist>>
View == <<dvars, obs>>

H(e) == IF Gen THEN Append(hist, e) ELSE hist
Emit(e) == last' = e /\ hist' = H(e)

NoLine == [k |-> "-", sz |-> "-", s |-> "-", n |-> 0, key |-> 0]
Line(k, sz, s, n, key) == [k |-> k, sz |-> sz, s |-> s, n |-> n, key |-> key]
Conn(to, from, st, q, weof) == [to |-> to, from |-> from, st |-> st, q |-> q, weof |-> weof, cur |-> NoLine]
CIds == 1..Len(conns)
Unix == Medium = "unix"

Init ==
  /\ ps = [p \in Procs |-> [life |-> "up", lis |-> "no", snd |-> "no", cid |-> 0, np |-> 0, ni |-> 0, ncl |-> 0]]
  /\ sock = [file |-> FALSE, owner |-> "-"]
  /\ conns = <<>>
  /\ ch = [p \in Procs |-> <<>>] /\ wq = [p \in Procs |-> <<>>]
  /\ subs = [p \in Procs |-> {}] /\ usub = [p \in Procs |-> {}]
  /\ nbad = 0 /\ nbig = 0 /\ ncrash = 0 /\ devUsed = {} /\ done = FALSE
  /\ last = [a |-> "Cfg"] /\ obs = ObsInit /\ hist = <<>>

PushesOf(p) == IF p \in Lst THEN SrvPush ELSE MaxPush
Started(p) == ps[p].lis # "no" \/ ps[p].ni > 0 \/ ps[p].np > 0 \/ ps[p].life # "up"
MayStart(p) == (p = Second /\ First \in Procs) => Started(First)

---------------------------------------------------------------------------
(* the calls of interface P *)

\* unix: what net.Dial("unix", path) does; -> <<result, connections', cid>>
Dial(p) ==
  IF ~sock.file THEN <<"noent", conns, 0>>
  ELSE IF sock.owner = "-" THEN <<"refused", conns, 0>>
  ELSE <<"ok", Append(conns, Conn(sock.owner, p, "backlog", <<>>, FALSE)), Len(conns) + 1>>

Listen(p) ==
  /\ ~done /\ p \in Lst /\ ps[p].life = "up" /\ ps[p].lis = "no" /\ ps[p].snd = "no" /\ ps[p].np = 0 /\ MayStart(p)
  /\ IF Unix
     THEN \/ /\ ~sock.file \/ sock.owner = "-"         \* free path, or a socket file nobody listens on any more
             /\ sock' = [file |-> TRUE, owner |-> p]
             /\ ps' = [ps EXCEPT ![p].lis = "on"]
             /\ UNCHANGED <<conns, devUsed>>
             /\ Emit([a |-> "Listen", p |-> p, res |-> "ok", ret |-> TRUE, pan |-> FALSE])
          \/ /\ sock.file /\ sock.owner # "-"          \* "only one Listen goroutine can be running"
             /\ ps' = [ps EXCEPT ![p].lis = "err"]
             \* a Listen that takes over sockets nobody listens on has to find out: it may connect and hang up
             /\ \/ conns' = conns
                \/ conns' = Append(conns, Conn(sock.owner, p, "backlog", <<>>, TRUE))
             /\ UNCHANGED <<sock, devUsed>>
             /\ Emit([a |-> "Listen", p |-> p, res |-> "err", ret |-> TRUE, pan |-> FALSE])
          \/ /\ "StaleSocket" \in Devs /\ sock.file /\ sock.owner = "-"
             /\ ps' = [ps EXCEPT ![p].lis = "err"]
             /\ devUsed' = devUsed \cup {"StaleSocket"}
             /\ UNCHANGED <<sock, conns>>
             /\ Emit([a |-> "Listen", p |-> p, res |-> "err", ret |-> TRUE, pan |-> FALSE])
     ELSE /\ ps' = [ps EXCEPT ![p].lis = "on"]
          /\ conns' = Append(conns, Conn(p, "bus", "open", <<>>, FALSE))
          /\ UNCHANGED <<sock, devUsed>>
          /\ Emit([a |-> "Listen", p |-> p, res |-> "ok", ret |-> TRUE, pan |-> FALSE])
  /\ UNCHANGED <<ch, wq, subs, usub, nbad, nbig, ncrash, done>>

\* a process that listens calls InitPush after Listen (imapsql.EnableUpdatePipe); a failed Listen makes imapsql
\* drop the pipe: no further call.  InitPush is called once; when it failed ("sender" stays unset) the next Push
\* dials again ("It is called implicitly on the first Push call").
Usable(p) == ps[p].life = "up" /\ (p \in Lst => ps[p].lis = "on")

InitPush(p) ==
  /\ ~done /\ Usable(p) /\ ps[p].snd = "no" /\ ps[p].np = 0 /\ ps[p].ni = 0 /\ MayStart(p)
  /\ IF Unix
     THEN LET d == Dial(p)
          IN /\ conns' = d[2]
             /\ ps' = [ps EXCEPT ![p].snd = IF d[1] = "ok" THEN "on" ELSE "no", ![p].cid = d[3], ![p].ni = 1]
             /\ Emit([a |-> "InitPush", p |-> p, res |-> d[1], ret |-> TRUE, pan |-> FALSE])
     ELSE /\ ps' = [ps EXCEPT ![p].snd = "on", ![p].ni = 1]
          /\ conns' = conns
          /\ Emit([a |-> "InitPush", p |-> p, res |-> "ok", ret |-> TRUE, pan |-> FALSE])
  /\ UNCHANGED <<sock, ch, wq, subs, usub, nbad, nbig, ncrash, devUsed, done>>

\* pubsub: Publish puts the line into the queue of every session subscribed to the key
Publish(cs, ln) ==
  [i \in 1..Len(cs) |->
     IF cs[i].from = "bus" /\ cs[i].st = "open" /\ ln.key \in subs[cs[i].to] THEN [cs[i] EXCEPT !.q = Append(@, ln)]
     ELSE cs[i]]

Push(p, sz, key) ==
  /\ ~done /\ Usable(p) /\ ps[p].snd \in {"no", "on"} /\ ps[p].np < PushesOf(p) /\ MayStart(p)
  /\ sz \in Sizes /\ key \in Keys /\ (sz = "L" => nbig < MaxBig)
  /\ LET n  == ps[p].np + 1
         ln == Line("upd", sz, p, n, key)
     IN IF Unix
        THEN LET d   == IF ps[p].snd = "no" THEN Dial(p) ELSE <<"", conns, ps[p].cid>>
                 cs  == d[2]
                 c   == d[3]
                 wok == c # 0 /\ cs[c].st \notin {"reset", "dead"}
             IN /\ conns' = IF wok THEN [cs EXCEPT ![c].q = Append(@, ln)] ELSE cs
                /\ ps' = [ps EXCEPT ![p].np = n, ![p].cid = c,
                                    ![p].snd = IF c # 0 THEN "on" ELSE "no"]
                /\ Emit([a |-> "Push", p |-> p, n |-> n, sz |-> sz, key |-> key, dial |-> d[1],
                         res |-> IF wok THEN "ok" ELSE "err", to |-> IF c # 0 THEN cs[c].to ELSE "-", ret |-> TRUE, pan |-> FALSE])
        ELSE /\ conns' = Publish(conns, ln)
             /\ ps' = [ps EXCEPT ![p].np = n, ![p].snd = "on"]
             /\ Emit([a |-> "Push", p |-> p, n |-> n, sz |-> sz, key |-> key, dial |-> "",
                      res |-> "ok", to |-> "-", ret |-> TRUE, pan |-> FALSE])
  /\ nbig' = nbig + (IF sz = "L" THEN 1 ELSE 0)
  /\ UNCHANGED <<sock, ch, wq, subs, usub, nbad, ncrash, devUsed, done>>

Close(p) ==
  /\ ~done /\ ps[p].ncl < MaxClose /\ (p \in Lst => ps[p].lis # "err")
  /\ (LateClose /\ p \notin Lst) => ps[p].np = MaxPush
  /\ (ps[p].life = "closed" /\ Unix) => sock.owner = "-"      \* (a second Close unlinks the path once more)
  /\ (ps[p].life = "up" /\ Started(p)) \/ (ps[p].life = "closed")
  /\ ps' = [ps EXCEPT ![p].life = "closed", ![p].ncl = @ + 1,
                      ![p].lis = IF @ = "on" THEN "off" ELSE @,
                      ![p].snd = IF @ = "on" THEN "off" ELSE @]
  /\ IF Unix
     THEN /\ conns' = [i \in CIds |->
                         IF i = ps[p].cid /\ ps[p].snd = "on" /\ conns[i].st \notin {"reset", "dead"}
                         THEN [conns[i] EXCEPT !.weof = TRUE]                       \* usp.sender.Close()
                         ELSE IF conns[i].to = p /\ conns[i].st = "backlog" /\ ps[p].lis = "on"
                         THEN [conns[i] EXCEPT !.st = "reset", !.q = <<>>]          \* never accepted
                         ELSE conns[i]]
          \* usp.listener.Close() and os.Remove(usp.SockPath) - both only when this pipe listened
          /\ sock' = IF ps[p].lis = "on" THEN [file |-> FALSE, owner |-> "-"]
                     ELSE IF ps[p].lis = "off" THEN [sock EXCEPT !.file = FALSE]
                     ELSE sock
     ELSE /\ conns' = [i \in CIds |->
                         IF conns[i].to = p /\ conns[i].from = "bus" /\ conns[i].st = "open"
                         THEN [conns[i] EXCEPT !.st = "done", !.q = <<>>]           \* PubSub.Close(): the session ends
                         ELSE conns[i]]
          /\ sock' = sock
  /\ subs' = [subs EXCEPT ![p] = {}] /\ usub' = usub
  /\ Emit([a |-> "Close", p |-> p, ret |-> TRUE, pan |-> FALSE])
  /\ UNCHANGED <<ch, wq, nbad, nbig, ncrash, devUsed, done>>

---------------------------------------------------------------------------
(* the goroutines of a listening pipe *)

\* the process dies: the kernel closes its descriptors, the socket file stays
Die(p, cs) ==
  [i \in 1..Len(cs) |->
     IF cs[i].to = p /\ cs[i].st \in {"backlog", "open", "stall"}
     THEN [cs[i] EXCEPT !.st = "dead", !.q = <<>>, !.cur = NoLine]
     ELSE IF cs[i].to = p THEN [cs[i] EXCEPT !.cur = NoLine]
     ELSE IF cs[i].from = p /\ cs[i].st \notin {"reset", "dead"} THEN [cs[i] EXCEPT !.weof = TRUE]
     ELSE cs[i]]

Accept(l) ==
  /\ ~done /\ Unix /\ ps[l].life = "up" /\ ps[l].lis = "on"
  /\ \E c \in CIds :
       /\ conns[c].to = l /\ conns[c].st = "backlog"
       /\ \A c2 \in CIds : conns[c2].to = l /\ conns[c2].st = "backlog" => c <= c2
       /\ conns' = [conns EXCEPT ![c].st = "open"]
       /\ Emit([a |-> "Accept", p |-> l, c |-> c])
  /\ UNCHANGED <<ps, sock, ch, wq, subs, usub, nbad, nbig, ncrash, devUsed, done>>

ReadFrame == UNCHANGED <<subs, usub, nbad, nbig, ncrash, done>>
\* out is what can be seen from outside: "dlv" the channel got longer, "none" nothing happened and the goroutine is
\* still there (skipped, or blocked on the full channel), "exit" the goroutine is gone although the stream has not
\* ended, "eof" the stream ended, "panic" the goroutine panicked
REvD(l, c, ln, out, ds, dn) == Emit([a |-> "Read", p |-> l, c |-> c, k |-> ln.k, sz |-> ln.sz, s |-> ln.s, n |-> ln.n,
                                     out |-> out, ds |-> ds, dn |-> dn])
REv(l, c, ln, out) == REvD(l, c, ln, out, "-", 0)

Read(l, c) ==
  /\ ~done /\ c \in CIds /\ conns[c].to = l /\ conns[c].st = "open" /\ conns[c].cur = NoLine
  /\ ps[l].life # "dead"
  /\ IF conns[c].q = <<>>
     THEN /\ conns[c].weof                              \* end of stream: the reader returns
          /\ conns' = [conns EXCEPT ![c].st = "done"]
          /\ REv(l, c, NoLine, "eof")
          /\ UNCHANGED <<ps, sock, ch, wq, devUsed>> /\ ReadFrame
     ELSE LET ln   == Head(conns[c].q)
              rest == [conns EXCEPT ![c].q = Tail(@)]
          IN \/ /\ ln.k = "bad"                         \* no update: logged, skipped
                /\ conns' = rest
                /\ REv(l, c, ln, "none")
                /\ UNCHANGED <<ps, sock, ch, wq, devUsed>> /\ ReadFrame
             \/ /\ ln.k = "badt"                        \* the rest of a line whose writer went away: skipped, end of stream
                /\ conns' = [rest EXCEPT ![c].st = "done"]
                /\ REv(l, c, ln, "eof")
                /\ UNCHANGED <<ps, sock, ch, wq, devUsed>> /\ ReadFrame
             \/ /\ ln.k = "upd" /\ ln.s = l              \* "It is our own update, skip."
                /\ conns' = rest
                /\ REv(l, c, ln, "none")
                /\ UNCHANGED <<ps, sock, ch, wq, devUsed>> /\ ReadFrame
             \/ /\ ln.k = "upd" /\ ln.s # l /\ ChanCap = 0     \* handed to the waiting consumer at once
                /\ conns' = rest
                /\ REvD(l, c, ln, "dlv", ln.s, ln.n)
                /\ UNCHANGED <<ps, sock, ch, wq, devUsed>> /\ ReadFrame
             \/ /\ ln.k = "upd" /\ ln.s # l /\ Len(ch[l]) < ChanCap
                /\ conns' = rest
                /\ ch' = [ch EXCEPT ![l] = Append(@, ln)]
                /\ REv(l, c, ln, "dlv")
                /\ UNCHANGED <<ps, sock, wq, devUsed>> /\ ReadFrame
             \/ /\ ln.k = "upd" /\ ln.s # l /\ ChanCap > 0 /\ Len(ch[l]) >= ChanCap
                /\ conns' = [rest EXCEPT ![c].cur = ln]  \* blocked in `updCh <- *upd`
                /\ wq' = [wq EXCEPT ![l] = Append(@, c)]
                /\ REv(l, c, ln, "none")
                /\ UNCHANGED <<ps, sock, ch, devUsed>> /\ ReadFrame
             \/ /\ "MalformedPanics" \in Devs /\ Unix /\ ln.k \in {"bad", "badt"} /\ ln.sz = "s"
                /\ conns' = Die(l, rest)
                /\ ps' = [ps EXCEPT ![l].life = "dead"]
                /\ sock' = IF sock.owner = l THEN [sock EXCEPT !.owner = "-"] ELSE sock
                /\ ch' = [ch EXCEPT ![l] = <<>>] /\ wq' = [wq EXCEPT ![l] = <<>>]
                /\ devUsed' = devUsed \cup {"MalformedPanics"}
                /\ REv(l, c, ln, "panic")
                /\ ReadFrame
             \/ /\ "OversizedStalls" \in Devs /\ Unix /\ ln.sz = "L"
                /\ conns' = [rest EXCEPT ![c].st = "stall"]
                /\ devUsed' = devUsed \cup {"OversizedStalls"}
                /\ REv(l, c, ln, "exit")
                /\ UNCHANGED <<ps, sock, ch, wq>> /\ ReadFrame

Consume(l) ==
  /\ ~done /\ ch[l] # <<>> /\ ps[l].life # "dead"
  /\ LET ln == Head(ch[l])
     IN /\ IF wq[l] = <<>>
           THEN ch' = [ch EXCEPT ![l] = Tail(@)] /\ UNCHANGED <<wq, conns>>
           ELSE LET c == Head(wq[l])
                IN /\ ch' = [ch EXCEPT ![l] = Append(Tail(@), conns[c].cur)]
                   /\ wq' = [wq EXCEPT ![l] = Tail(@)]
                   /\ conns' = [conns EXCEPT ![c].cur = NoLine]
        /\ Emit([a |-> "Consume", p |-> l, s |-> ln.s, n |-> ln.n])
  /\ UNCHANGED <<ps, sock, subs, usub, nbad, nbig, ncrash, devUsed, done>>

---------------------------------------------------------------------------
(* environment *)

Crash(p) ==
  /\ ~done /\ Unix /\ ncrash < MaxCrash /\ p \in Lst /\ ps[p].life = "up" /\ ps[p].lis = "on"
  /\ ncrash' = ncrash + 1
  /\ ps' = [ps EXCEPT ![p].life = "dead"]
  /\ conns' = Die(p, conns)
  /\ sock' = IF sock.owner = p THEN [sock EXCEPT !.owner = "-"] ELSE sock
  /\ ch' = [ch EXCEPT ![p] = <<>>] /\ wq' = [wq EXCEPT ![p] = <<>>]
  /\ Emit([a |-> "Crash", p |-> p])
  /\ UNCHANGED <<subs, usub, nbad, nbig, devUsed, done>>

\* a foreign writer: connects, writes one line that is no update (kind: how it is broken), goes away
Bad(kind, sz, key) ==
  /\ ~done /\ nbad < MaxBad /\ sz \in Sizes /\ key \in Keys /\ (sz = "L" => nbig < MaxBig)
  /\ kind \in {"nosep", "nojson", "trunc", "empty"}
  /\ (kind = "empty" => sz = "s")
  /\ (kind = "trunc" => Unix)          \* a notification is delivered whole or not at all
  /\ LET ln == Line(IF kind = "trunc" THEN "badt" ELSE "bad", sz, "x", 0, key)
     IN IF Unix
        THEN /\ sock.file /\ sock.owner # "-"
             /\ conns' = Append(conns, Conn(sock.owner, "x", "backlog", <<ln>>, TRUE))
        ELSE /\ \E l \in Procs : key \in subs[l]
             /\ conns' = Publish(conns, ln)
  /\ nbad' = nbad + 1 /\ nbig' = nbig + (IF sz = "L" THEN 1 ELSE 0)
  /\ Emit([a |-> "Bad", kind |-> kind, sz |-> sz, key |-> key])
  /\ UNCHANGED <<ps, sock, ch, wq, subs, usub, ncrash, devUsed, done>>

Sub(p, key) ==
  /\ ~done /\ ~Unix /\ ps[p].life = "up" /\ ps[p].lis = "on" /\ key \in Keys /\ key \notin subs[p] \cup usub[p]
  /\ subs' = [subs EXCEPT ![p] = @ \cup {key}] /\ usub' = usub
  /\ Emit([a |-> "Sub", p |-> p, key |-> key])
  /\ UNCHANGED <<ps, sock, conns, ch, wq, nbad, nbig, ncrash, devUsed, done>>

Unsub(p, key) ==
  /\ ~done /\ ~Unix /\ ps[p].life = "up" /\ ps[p].lis = "on" /\ key \in subs[p]
  /\ subs' = [subs EXCEPT ![p] = @ \ {key}] /\ usub' = [usub EXCEPT ![p] = @ \cup {key}]
  /\ Emit([a |-> "Unsub", p |-> p, key |-> key])
  /\ UNCHANGED <<ps, sock, conns, ch, wq, nbad, nbig, ncrash, devUsed, done>>

\* nothing a pipe goroutine or the consumer could still do
Quiet ==
  /\ \A l \in Procs : ch[l] = <<>> \/ ps[l].life = "dead"
  /\ \A c \in CIds :
       /\ ~(conns[c].st = "backlog" /\ ps[conns[c].to].life = "up" /\ ps[conns[c].to].lis = "on")
       /\ ~(conns[c].st = "open" /\ conns[c].cur = NoLine /\ ps[conns[c].to].life # "dead"
            /\ (conns[c].q # <<>> \/ conns[c].weof))

End ==
  /\ ~done /\ Quiet
  /\ done' = TRUE
  /\ Emit([a |-> "End"])
  /\ UNCHANGED <<ps, sock, conns, ch, wq, subs, usub, nbad, nbig, ncrash, devUsed>>

\* after End the harness closes every pipe, drains every channel and counts the goroutines left
Final ==
  /\ done /\ last.a = "End"
  /\ Emit([a |-> "Final", alive |-> 0])
  /\ UNCHANGED dvars

Act ==
  \/ \E p \in Procs : Listen(p) \/ InitPush(p) \/ Close(p) \/ Accept(p) \/ Consume(p) \/ Crash(p)
  \/ \E p \in Procs, sz \in Sizes, key \in Keys : Push(p, sz, key)
  \/ \E p \in Procs, c \in CIds : Read(p, c)
  \/ \E kind \in {"nosep", "nojson", "trunc", "empty"}, sz \in Sizes, key \in Keys : Bad(kind, sz, key)
  \/ \E p \in Procs, key \in Keys : Sub(p, key) \/ Unsub(p, key)
  \/ End \/ Final

\* the probe after every step
SockOf(s) == IF ~s.file THEN "none" ELSE IF s.owner = "-" THEN "stale" ELSE "live"
ReaderAlive(c) == c.st = "open" \/ c.cur # NoLine
AliveOf(p, pst, cs) ==
  IF pst[p].life = "dead" THEN 0
  ELSE (IF Unix /\ pst[p].lis = "on" THEN 1 ELSE 0)
       + Cardinality({i \in 1..Len(cs) : cs[i].to = p /\ ReaderAlive(cs[i])})
LookOf(pst, s, cs, chn) ==
  [sock |-> IF Unix THEN SockOf(s) ELSE "none",
   chl |-> [l \in Lst |-> Len(chn[l])],
   alive |-> [p \in Procs |-> AliveOf(p, pst, cs)]]

Fold(o, e) == IF e.a = "Final" THEN ObsEv(o, e.a, e)
              ELSE ObsLook(ObsEv(o, e.a, e), LookOf(ps', sock', conns', ch'))

Cfg == [Medium |-> Medium, Procs |-> Procs, Lst |-> Lst, ChanCap |-> ChanCap]

Next ==
  \/ /\ (Gen => obs.viol = {})
     /\ Act
     /\ obs' = Fold(obs, last')
     /\ IF Gen /\ (last'.a = "Final" \/ obs'.viol # {})
        THEN PrintT(<<"BEH", ToJson([cfg |-> Cfg, hist |-> hist', viol |-> obs'.viol, devs |-> devUsed'])>>)
        ELSE TRUE
  \/ (done /\ last.a = "Final" /\ ~Gen /\ UNCHANGED vars)

Spec == Init /\ [][Next]_vars

NoViolation == obs.viol = {}
TypeOK ==
  /\ \A p \in Procs : /\ ps[p].life \in {"up", "closed", "dead"}
                      /\ ps[p].lis \in {"no", "on", "err", "off"} /\ ps[p].snd \in {"no", "on", "err", "off"}
                      /\ ps[p].np \in 0..PushesOf(p) /\ ps[p].ncl \in 0..MaxClose /\ ps[p].cid \in 0..Len(conns)
                      /\ Len(ch[p]) <= ChanCap
  /\ \A c \in CIds : conns[c].st \in {"backlog", "open", "done", "stall", "reset", "dead"}
  /\ sock.owner \in Procs \cup {"-"}
\* design-level facts the predicates rest on
OwnerAgrees == Unix => obs.owner = sock.owner
\* a reader blocked on the channel is in the wait queue, and only then
WaitersAgree == \A l \in Procs : \A c \in CIds : conns[c].to = l =>
                  ((conns[c].cur # NoLine) <=> (\E i \in 1..Len(wq[l]) : wq[l][i] = c))
=============================================================================
