\* every row: Prop(in, Rule(in)); Gen = TRUE prints the rows (reference; the check generates its configs)
SPECIFICATION Spec
CONSTANTS
  MaxMx = 2
  Devs = {}
  Gen = TRUE
INVARIANTS RuleSatisfiesProp
CONSTRAINT Emit
CHECK_DEADLOCK FALSE
