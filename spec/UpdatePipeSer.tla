---------------------------- MODULE UpdatePipeSer ----------------------------
(***************************************************************************)
(* Pattern B for extension X12: the wire format of the IMAP update pipe    *)
(* (internal/updatepipe/serialize.go formatUpdate / parseUpdate:           *)
(* "SENDER_ID;JSON_SERIALIZED_INTERNAL_OBJECT\n", unix_pipe.go:38-43) and  *)
(* the two transports built on it.                                         *)
(*                                                                         *)
(* A row is one update handed to one path:                                 *)
(*   path  "wire"   formatUpdate, then parseUpdate of the line             *)
(*         "unix"   Push on one UnixSockPipe, taken from the channel of    *)
(*                  another one listening on the same socket               *)
(*         "pubsub" Push on one PubSubPipe, taken from the channel of      *)
(*                  another one subscribed to the update's key             *)
(*   type  0..3     UpdNewMessage, UpdFlags, UpdRemoved, UpdMboxDestroyed  *)
(*   key   a token: unsigned numbers (what go-imap-sql uses: the mailbox    *)
(*         id, uint64) incl. ones no float64 can hold, or a string - a name *)
(*         with separators, spaces, non-ASCII letters, line breaks, the    *)
(*         byte the format uses as its escape, quotes, digits only, empty  *)
(*   seq   a token for the SeqSet field                                    *)
(*   flags a sequence of name tokens (NewFlags)                            *)
(* The harness turns tokens into the real values and what comes out back   *)
(* into tokens ("?..." for anything that is none of them).                 *)
(*                                                                         *)
(* Property: what comes out is what went in - same type, same key of the   *)
(* same kind (a number stays that number, a string stays that string),     *)
(* same SeqSet, same flags - and on the wire the update is exactly one     *)
(* line.  The documented rule is the identity.                             *)
(***************************************************************************)
EXTENDS Integers, Sequences, FiniteSets, TLC, Json

CONSTANTS Paths, Gen

Types == 0..3
NumKeys == {"u0", "u7", "u2p53p1", "umax"}
Names == {"plain", "semi", "space", "utf8", "nl", "crlf", "dle", "quote", "digits", "empty", "u2028", "html", "tab"}
StrKeys == {"s:" \o n : n \in Names}
KeyToks == NumKeys \cup StrKeys
SeqToks == {"none", "one", "set"}
FlagSeqs == {<<>>, <<"plain">>, <<"semi", "space">>, <<"utf8", "nl", "crlf">>, <<"dle", "quote", "tab">>,
             <<"empty", "digits">>, <<"u2028", "html">>}

VARIABLE in

Rows == [path : Paths, type : Types, key : KeyToks, seq : SeqToks, flags : FlagSeqs]

\* out = [err, type, key, seq, flags, lines]; lines = number of line feeds in what went over the wire
Rule(i) == [err |-> FALSE, type |-> i.type, key |-> i.key, seq |-> i.seq, flags |-> i.flags, lines |-> 1]

Viol(i, o) ==
  IF o.err THEN {"RoundTripFailed"}
  ELSE (IF o.type # i.type THEN {"TypeChanged"} ELSE {})
       \cup (IF o.key # i.key THEN {"KeyChanged"} ELSE {})
       \cup (IF o.seq # i.seq THEN {"SeqSetChanged"} ELSE {})
       \cup (IF o.flags # i.flags THEN {"FlagsChanged"} ELSE {})
       \cup (IF o.lines # 1 THEN {"NotOneLine"} ELSE {})

Same(o1, o2) == o1 = o2

Init == in \in Rows
Next == FALSE /\ UNCHANGED in
Spec == Init /\ [][Next]_in

RuleSatisfiesProp == Viol(in, Rule(in)) = {}
Emit == Gen => PrintT(<<"ROW", ToJson([in |-> in])>>)
=============================================================================
