\* exhaustive enumeration of the input tables (quick: MaxSig = 2, thorough: 3); lib/checks/x03.py
SPECIFICATION Spec
CONSTANTS
  MaxSig = 2
  Devs = {}
  Gen = FALSE
  DocSubset = "no"
INVARIANTS RuleSatisfiesProp DkimPassIffGood SpfEarlyNeverBody
CHECK_DEADLOCK FALSE
