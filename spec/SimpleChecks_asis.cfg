\* as-is: the deviations of the unchanged tree switched on; AsIsSatisfiesProp must be violated
SPECIFICATION Spec
CONSTANTS
  Full = FALSE
  Devs = {"MxLookupULabel", "FirstPtrOnly"}
  Gen = FALSE
INVARIANTS AsIsSatisfiesProp
CHECK_DEADLOCK FALSE
