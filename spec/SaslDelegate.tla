---------------------------- MODULE SaslDelegate ----------------------------
(***************************************************************************)
(* X09 - the delegation layer of authentication: providers that pass the   *)
(* decision on.  Decision tables (BUILDING.md pattern B), three layers:    *)
(*                                                                         *)
(*  "ps"  auth.plain_separate (internal/auth/plain_separate): 0..2 user    *)
(*        tables x 0..3 password providers.                                *)
(*        in  = [layer, op, tbls, pass]                                    *)
(*          op    "auth" (AuthPlain) | "lookup" (the module used as table) *)
(*          tbls  answers of the user tables for THE user name, in         *)
(*                configuration order: hit | miss | terr (lookup error     *)
(*                marked temporary) | perr (lookup error, unmarked)        *)
(*          pass  answers of the providers for exactly THE (user,password) *)
(*                pair: ok | rej (module.ErrUnknownCredentials) | temp     *)
(*                (error marked temporary) | err (unmarked error); any     *)
(*                other pair is rejected by the scripted provider          *)
(*        out = [v, tl, pc]                                                *)
(*          v   ok | invalid | temp | refused (configuration refused) |    *)
(*              panic; for lookup: found | notfound | temp | invalid       *)
(*          tl  tables consulted  [i, same]  (same: asked for THE name)    *)
(*          pc  providers asked   [i, same]  (same: asked about THE pair)  *)
(*        A failure is "temp" when exterrors.IsTemporary holds for it (the *)
(*        SMTP endpoint answers 454 instead of 535, session.go:178).       *)
(*                                                                         *)
(*  "ext" auth.external (helper binary protocol, docs/reference/auth/      *)
(*        external.md): in = [layer, perdomain, domains, user, pw, helper] *)
(*        out = [v, ran, exact]: helper started; its stdin was exactly     *)
(*        account LF password LF (account = the name or its local part).   *)
(*                                                                         *)
(*  "sh"  auth.shadow (shadow(5) entries, verify.go):                      *)
(*        in = [layer, fam, hash, lock, lastchg, max, inact, exp, pos,     *)
(*              file, cand];  out = [v]                                    *)
(*                                                                         *)
(* Prop = the statement, predicate by predicate (Viol = names of the false *)
(* ones).  Rule = the procedure as documented; RuleD(devs, _) with named   *)
(* deviations of the code:                                                 *)
(*   "NoPassAccepts"  plain_separate without any pass directive accepts    *)
(*                    every password of a listed user (X09-F8)             *)
(*   "ExtNewline"     a line feed inside user name / password is written   *)
(*                    to the helper as is: the helper judges another pair  *)
(*                    (X09-F9)                                             *)
(*   "ExtTwoAt"       user@a@b is taken for the bare local part, whatever  *)
(*                    the domains (X09-F7b, same finding file)             *)
(***************************************************************************)
EXTENDS Naturals, Sequences, FiniteSets, TLC, Json

CONSTANTS Layer,    \* "ps" | "ext" | "sh": the table TLC enumerates
          Devs,     \* deviations switched on in AsIs
          Gen       \* TRUE: print one ROW line per input

VARIABLE in
vars == <<in>>

Range(f) == {f[i] : i \in DOMAIN f}
SeqsUpTo(S, n) == UNION {[1..k -> S] : k \in 0..n}

-----------------------------------------------------------------------------
(* ---- layer ps ---- *)
TblAns == {"hit", "miss", "terr", "perr"}
PassAns == {"ok", "rej", "temp", "err"}
PsInputs ==
  {[layer |-> "ps", op |-> "auth", tbls |-> t, pass |-> p] : t \in SeqsUpTo(TblAns, 2), p \in SeqsUpTo(PassAns, 3)}
  \cup {[layer |-> "ps", op |-> "lookup", tbls |-> t, pass |-> <<"ok">>] : t \in SeqsUpTo(TblAns, 2)}

(* first table that ends the scan: a hit or an error; 0 = none *)
FirstStop(t) == IF \E i \in DOMAIN t : t[i] # "miss"
                THEN CHOOSE i \in DOMAIN t : t[i] # "miss" /\ \A j \in 1..(i - 1) : t[j] = "miss"
                ELSE 0
Listed(i)    == i.tbls = <<>> \/ (FirstStop(i.tbls) # 0 /\ i.tbls[FirstStop(i.tbls)] = "hit")
NotListed(i) == i.tbls # <<>> /\ FirstStop(i.tbls) = 0
Trouble(i)   == FirstStop(i.tbls) # 0 /\ i.tbls[FirstStop(i.tbls)] \in {"terr", "perr"}
AnyHit(i)    == \E k \in DOMAIN i.tbls : i.tbls[k] = "hit"
SomeAccept(i) == \E k \in DOMAIN i.pass : i.pass[k] = "ok"
FirstOk(p) == IF \E k \in DOMAIN p : p[k] = "ok"
              THEN CHOOSE k \in DOMAIN p : p[k] = "ok" /\ \A j \in 1..(k - 1) : p[j] # "ok"
              ELSE 0
ClassOf(a) == IF a \in {"temp", "terr"} THEN "temp" ELSE "invalid"
Calls(n) == [k \in 1..n |-> [i |-> k, same |-> TRUE]]

PsRuleD(devs, i) ==
  LET fs == FirstStop(i.tbls)
      tl == Calls(IF fs = 0 THEN Len(i.tbls) ELSE fs)
  IN
  IF i.op = "lookup" THEN
     [v |-> IF Trouble(i) THEN ClassOf(i.tbls[fs]) ELSE IF Listed(i) THEN "found" ELSE "notfound",
      tl |-> tl, pc |-> <<>>]
  ELSE IF i.pass = <<>> /\ "NoPassAccepts" \notin devs THEN [v |-> "refused", tl |-> <<>>, pc |-> <<>>]
  ELSE IF Trouble(i) THEN [v |-> ClassOf(i.tbls[fs]), tl |-> tl, pc |-> <<>>]
  ELSE IF NotListed(i) THEN [v |-> "invalid", tl |-> tl, pc |-> <<>>]
  ELSE IF i.pass = <<>> THEN [v |-> "ok", tl |-> tl, pc |-> <<>>]       \* NoPassAccepts
  ELSE LET fo == FirstOk(i.pass) IN
       IF fo # 0 THEN [v |-> "ok", tl |-> tl, pc |-> Calls(fo)]
       ELSE [v |-> ClassOf(i.pass[Len(i.pass)]), tl |-> tl, pc |-> Calls(Len(i.pass))]

PsViol(i, o) ==
  LET bad(name, cond) == IF cond THEN {} ELSE {name}
      allTemp == i.pass # <<>> /\ \A k \in DOMAIN i.pass : i.pass[k] = "temp"
      allRej  == i.pass # <<>> /\ \A k \in DOMAIN i.pass : i.pass[k] \in {"rej", "err"}
  IN
  IF i.op = "lookup" THEN
       bad("LookupListed", Listed(i) => o.v = "found")
  \cup bad("LookupNotListed", NotListed(i) => o.v = "notfound")
  \cup bad("LookupErrorNotAbsent", Trouble(i) => (o.v # "notfound" /\ (o.v = "found" => AnyHit(i))))
  \cup bad("LookupTempMarked", (Trouble(i) /\ i.tbls[FirstStop(i.tbls)] = "terr") => o.v \in {"temp", "found"})
  \cup bad("ExactName", \A k \in DOMAIN o.tl : o.tl[k].same)
  \cup bad("NoPanic", o.v # "panic")
  ELSE
       \* success only for a listed user whose exact pair some provider accepted
       bad("OkOnlyIfListedAndAccepted",
           o.v = "ok" => /\ (i.tbls = <<>> \/ AnyHit(i))
                         /\ \E k \in DOMAIN o.pc : o.pc[k].same /\ o.pc[k].i \in DOMAIN i.pass
                                                   /\ i.pass[o.pc[k].i] = "ok")
  \cup bad("AcceptedWhenListedAndAccepted", (Listed(i) /\ SomeAccept(i)) => o.v = "ok")
  \cup bad("NotListedRefused", (NotListed(i) /\ i.pass # <<>>) => o.v = "invalid")
  \cup bad("LookupErrorNotAbsent",
           (Trouble(i) /\ i.pass # <<>>) =>
              (o.v \in {"temp", "invalid", "ok"} /\ (o.v = "ok" => (AnyHit(i) /\ SomeAccept(i)))))
  \cup bad("LookupTempMarked",
           (Trouble(i) /\ i.pass # <<>> /\ i.tbls[FirstStop(i.tbls)] = "terr") => o.v \in {"temp", "ok"})
  \cup bad("AllTempIsTemp", (Listed(i) /\ allTemp) => o.v = "temp")
  \cup bad("RejectedIsInvalid", (Listed(i) /\ allRej) => o.v = "invalid")
  \cup bad("NoneAcceptedFails", (Listed(i) /\ i.pass # <<>> /\ ~SomeAccept(i)) => o.v \in {"invalid", "temp"})
  \cup bad("NoPassNeverAccepts", i.pass = <<>> => o.v # "ok")
  \cup bad("ExactPair", \A k \in DOMAIN o.pc : o.pc[k].same)
  \cup bad("ExactName", \A k \in DOMAIN o.tl : o.tl[k].same)
  \cup bad("NoPanic", o.v # "panic")

-----------------------------------------------------------------------------
(* ---- layer ext ---- *)
ExtUsers == {"bare", "dom", "domup", "other", "twoat", "nl", "unknown"}
ExtPws == {"right", "wrong", "rightnl", "empty"}
ExtHelpers == {"db", "exit2", "exit3", "killed"}
ExtInputs ==
  {[layer |-> "ext", perdomain |-> pd, domains |-> d, user |-> u, pw |-> p, helper |-> h] :
     pd \in BOOLEAN, d \in {"none", "one"}, u \in ExtUsers, p \in ExtPws, h \in ExtHelpers}

Ats(u) == CASE u \in {"bare", "nl", "unknown"} -> 0 [] u = "twoat" -> 2 [] OTHER -> 1
DomainOk(i) == i.domains = "one" /\ i.user \in {"dom", "domup"}        \* EqualFold
(* the documented login names (external.md "domains", "perdomain") *)
FormAllowed(i) == IF i.perdomain THEN Ats(i.user) = 1 /\ DomainOk(i)
                  ELSE Ats(i.user) = 0 \/ (Ats(i.user) = 1 /\ DomainOk(i))
Refused(i) == i.perdomain /\ i.domains = "none"        \* Init: domains must be set with perdomain
KnownUser(i) == i.user \in {"bare", "dom", "domup"}    \* an account of the helper's database
ExtValid(i) == i.helper = "db" /\ FormAllowed(i) /\ KnownUser(i) /\ i.pw = "right"

ExtRuleD(devs, i) ==
  LET nl == i.user = "nl" \/ i.pw = "rightnl"
      asAlice == "ExtTwoAt" \in devs /\ ~i.perdomain /\ i.user = "twoat"
      form == FormAllowed(i) \/ asAlice
      known == KnownUser(i) \/ asAlice
      \* user "nl" is  alice LF <alice's password>: the helper reads a valid pair whatever the password given
      accepts == i.helper = "db" /\ (IF i.user = "nl" THEN TRUE ELSE known /\ i.pw \in {"right", "rightnl"})
  IN
  IF Refused(i) THEN [v |-> "refused", ran |-> FALSE, exact |-> TRUE]
  ELSE IF ~form THEN [v |-> "invalid", ran |-> FALSE, exact |-> TRUE]
  ELSE IF nl /\ "ExtNewline" \notin devs THEN [v |-> "invalid", ran |-> FALSE, exact |-> TRUE]  \* cannot be carried
  ELSE [v |-> IF accepts THEN "ok" ELSE "invalid", ran |-> TRUE, exact |-> ~nl]

ExtViol(i, o) ==
  LET bad(name, cond) == IF cond THEN {} ELSE {name} IN
       bad("ExtOkOnlyIfValid", o.v = "ok" => (ExtValid(i) /\ o.ran))
  \cup bad("ExtAcceptsValid", (ExtValid(i) /\ ~Refused(i)) => o.v = "ok")
  \cup bad("ExtExactPair", o.exact)
  \cup bad("ExtFailureIsFailure", (~Refused(i) /\ ~ExtValid(i)) => o.v \in {"invalid", "temp"})
  \cup bad("NoPanic", o.v # "panic")

-----------------------------------------------------------------------------
(* ---- layer sh ---- *)
ShHashes == {"sha512", "sha256", "sha512r", "sha512r1000", "sha512rshort", "md5", "des", "yescrypt", "star", "empty", "junk",
             "other"}
RealHashOfRight == {"sha512", "sha256", "sha512r", "sha512r1000", "sha512rshort", "md5", "des"}     \* crypt(3) of THE password
Supported == {"sha512", "sha256", "sha512r", "sha512r1000", "sha512rshort"}      \* the formats verify.go registers
ShCands == {"right", "wrong", "longer", "prefix", "empty"}
ShInputsA ==
  {[layer |-> "sh", fam |-> "A", hash |-> h, lock |-> l, lastchg |-> "e", max |-> "e", inact |-> "e", exp |-> "e",
    pos |-> p, file |-> f, cand |-> c] :
     h \in ShHashes, l \in {"none", "bang", "bangbang"}, p \in {"only", "second", "dup", "absent"},
     f \in {"clean", "badbefore", "badafter"}, c \in ShCands}
ShInputsB ==
  {[layer |-> "sh", fam |-> "B", hash |-> "sha512", lock |-> "none", lastchg |-> lc, max |-> mx, inact |-> ia,
    exp |-> e, pos |-> "only", file |-> "clean", cand |-> c] :
     lc \in {"e", "0", "old"}, mx \in {"e", "30", "90", "200"}, ia \in {"e", "10"},
     e \in {"e", "neg", "zero", "past", "today", "tomorrow", "far"}, c \in {"right", "wrong"}}
ShInputs == ShInputsA \cup ShInputsB

Present(i) == i.pos # "absent"
(* the entry getspnam(3) returns is the first one of that name: in "dup" it carries another password *)
EntryHash(i) == IF i.pos = "dup" THEN "other" ELSE i.hash
AcctExpired(i)  == i.exp \in {"past", "today"}
AcctFine(i)     == i.exp \in {"e", "neg", "tomorrow", "far"}            \* "zero": either (shadow(5))
Ageing(i)       == i.lastchg # "e" /\ i.max # "e" /\ i.inact # "e"
PwDead(i)       == Ageing(i) /\ i.lastchg = "old" /\ i.max = "30"       \* lastchg+max+inact lies in the past
PwFine(i)       == ~Ageing(i) \/ (i.lastchg = "old" /\ i.max = "200")   \* boundary day and lastchg 0: either
Verifies(h, c)  == h \in RealHashOfRight /\ c = "right"

ShRuleD(devs, i) ==
  LET h == EntryHash(i)
      acctOk == i.exp \in {"e", "neg", "tomorrow", "far"}
      pwOk == ~Ageing(i) \/ (i.lastchg = "old" /\ i.max = "200")
  IN
  [v |-> IF i.file # "clean" \/ ~Present(i) \/ ~acctOk \/ ~pwOk \/ i.lock # "none"
            \/ h \notin Supported \/ (h = "sha512rshort" /\ "ShRoundsShortSalt" \in devs)
            \/ i.cand # "right" THEN "invalid" ELSE "ok"]

ShViol(i, o) ==
  LET bad(name, cond) == IF cond THEN {} ELSE {name} IN
       bad("ShOkOnlyIfVerified",
           o.v = "ok" => (Present(i) /\ i.lock = "none" /\ Verifies(EntryHash(i), i.cand)
                          /\ ~AcctExpired(i) /\ ~PwDead(i)))
  \cup bad("ShAcceptsValid",
           (Present(i) /\ i.file = "clean" /\ i.lock = "none" /\ EntryHash(i) \in Supported /\ i.cand = "right"
            /\ AcctFine(i) /\ PwFine(i)) => o.v = "ok")
  \cup bad("ShFailureIsInvalid", o.v \in {"ok", "invalid", "temp"})
  \cup bad("NoPanic", o.v # "panic")

-----------------------------------------------------------------------------
Inputs == CASE Layer = "ps" -> PsInputs [] Layer = "ext" -> ExtInputs [] Layer = "sh" -> ShInputs
RuleD(devs, i) == CASE i.layer = "ps" -> PsRuleD(devs, i) [] i.layer = "ext" -> ExtRuleD(devs, i)
                    [] i.layer = "sh" -> ShRuleD(devs, i)
Rule(i) == RuleD({}, i)
Viol(i, o) == CASE i.layer = "ps" -> PsViol(i, o) [] i.layer = "ext" -> ExtViol(i, o) [] i.layer = "sh" -> ShViol(i, o)
Prop(i, o) == Viol(i, o) = {}
SameOut(a, b) == a = b
Explains(devsets, i, o) == {d \in devsets : SameOut(o, RuleD(d, i))}

Init == in \in Inputs
Next == UNCHANGED vars
Spec == Init /\ [][Next]_vars

RuleSatisfiesProp == Prop(in, Rule(in))
AsIsSatisfiesProp == Prop(in, RuleD(Devs, in))
(* every deviation changes the outcome of some row, and only in rows where it can apply *)
Emit == Gen => PrintT(<<"ROW", ToJson([in |-> in, exp |-> Rule(in)])>>)
=============================================================================
