SPECIFICATION TSpec
CONSTANTS
  Medium = "unix"
  Procs = {"c1", "c2", "s"}
  Lst = {"s"}
  MaxPush = 1000
  SrvPush = 1000
  ChanCap = 1
  MaxBad = 1000
  MaxBig = 1000
  MaxCrash = 1000
  MaxClose = 2
  Sizes = {"s", "L"}
  Keys = {1, 2}
  First = "-"
  Second = "-"
  LateClose = FALSE
  Devs = {"MalformedPanics", "OversizedStalls", "StaleSocket"}
  Gen = FALSE
CHECK_DEADLOCK FALSE
POSTCONDITION Post
