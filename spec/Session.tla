------------------------------- MODULE Session -------------------------------
(***************************************************************************)
(* Design specification of one SMTP/LMTP server conversation of maddy:    *)
(*                                                                         *)
(*  - the go-smtp connection automaton as pinned (foxcpp/go-smtp fork,    *)
(*    conn.go): helo, fromReceived, the recipient list, the BDAT pipe;    *)
(*    which Session method each command calls; when Reset/Logout are      *)
(*    called (RSET, after DATA/BDAT LAST - after the reply was written -, *)
(*    QUIT/connection loss; a repeated EHLO replaces the session object   *)
(*    and keeps the envelope);                                             *)
(*  - maddy's endpoint Session (internal/endpoint/smtp/session.go):       *)
(*    delivery, deliveryErr (sticky in deferred mode), mailFrom, permits  *)
(*    taken with TakeMsg and returned with ReleaseMsg under the key       *)
(*    derived from mailFrom;                                               *)
(*  - below it the message pipeline delivery (internal/msgpipeline):      *)
(*    per target none|open|closed, lazy Start at the first recipient      *)
(*    routed to the target, fan-out of Body/BodyNonAtomic/Commit/Abort in *)
(*    unspecified (map) order, a fault possible at every call.            *)
(*                                                                         *)
(* One step = one observable event: a command taken from the wire, a      *)
(* call on a target (with its result chosen by the environment), a reply  *)
(* put on the wire, the end of the session.  What the server does for a   *)
(* command is a small program kept on the stack m.stk; silent stages      *)
(* (cleanSession, go-smtp's own reset, ...) are folded into the step that *)
(* precedes them (operator Norm), so every step of the specification      *)
(* corresponds to exactly one recorded event.                             *)
(*                                                                         *)
(*  - the environment of the conversation at the endpoint's limits group   *)
(*    (action EnvStep, at most MaxEnv events between the commands of a     *)
(*    behaviour): logical time passes (longer than the limiters' reap      *)
(*    interval), other sessions with other source addresses and sender     *)
(*    domains come and go (more distinct keys than the bucket tables hold, *)
(*    so that reaping is attempted), another session of the same source    *)
(*    address and sender domain takes / returns its permits.  Design: none *)
(*    of this touches the permits of the session's own transaction.        *)
(*                                                                         *)
(* Deviations: behaviour the code has that C03 forbids, switched by Devs  *)
(* (the design - what the property needs - is Devs = {}):                  *)
(*  "DataFailNoAbort"    a failure between prepareBody and Commit (check, *)
(*                       routing loop, Body) runs cleanSession without    *)
(*                       Abort: every opened target delivery stays open   *)
(*  "CommitStopsAtFirst" msgpipelineDelivery.Commit returns at the first  *)
(*                       failing target; the rest is neither committed    *)
(*                       nor aborted                                       *)
(*  "LmtpStatusKey"      LMTP statuses are reported under the cleaned     *)
(*                       address; for RCPT TO:<u@EXAMPLE.org> go-smtp's   *)
(*                       collector panics: 421, deliveries left open      *)
(*  "EhloNoLogout"       a repeated EHLO/LHLO drops the session object    *)
(*                       without Logout (open delivery, permits)          *)
(*  "MailRawSender"      immediate mode: Mail overwrites the cleaned      *)
(*                       sender with the raw one; releaseLimits releases  *)
(*                       another key                                       *)
(*  "NestedMail"         MAIL inside a transaction is accepted: immediate *)
(*                       mode starts a second delivery over the first,    *)
(*                       deferred mode replaces the sender the permits    *)
(*                       were taken under (wrong key released; releasing  *)
(*                       an idle existing bucket panics outside recover)  *)
(*  "LmtpCommitErrLost"  LMTP: per-recipient statuses are final before    *)
(*                       Commit runs; a Commit failure is not reported    *)
(*  "LmtpCommitAfterReject" LMTP: BodyNonAtomic returns early when a body *)
(*                       check (or modifier) refuses the message for all  *)
(*                       recipients, LMTPData still calls Commit: targets *)
(*                       that never saw the body are committed            *)
(***************************************************************************)
EXTENDS SessionObs, Integers, TLC, SequencesExt, Json

CONSTANTS Rcpts,      \* recipient identities used, subset of {"ra","rb","rc"}
          NTs,        \* numbers of targets explored, subset of 1..3
          Lmtps,      \* protocols explored: subset of BOOLEAN (TRUE = LMTP)
          Holds,      \* subset of BOOLEAN; TRUE = another session holds the only permit of the
                      \* sender domain src.example for the whole conversation (source concurrency 1)
          Fails,      \* failure classes the environment may choose, subset of {"temp","perm","unspec"}
                      \* (annotated temporary / annotated permanent / no annotation at all)
          MaxFaults,  \* faults per behaviour
          MaxCmds,    \* commands per behaviour
          MaxEnv,     \* environment events (EnvStep) per behaviour; 0 = the conversation is alone
          EnvPlan,    \* "any": the environment may do anything; otherwise the name of the sequence of its
                      \* events, see EnvPlans (behaviour generation: only where between the commands of
                      \* the conversation they fall is left open)
          Allowed,    \* client alphabet: {"*"} = everything, else tokens "VERB:arg" (focused generation)
          Devs,       \* enabled deviations
          Gen         \* TRUE: keep the behaviour history and print complete behaviours

VARIABLES cfg,   \* [lmtp, defer, nt, shape, partial]   fixed per behaviour
          m,     \* machine state (connection, session, pipeline delivery, permits, program stack)
          nf,    \* faults chosen so far
          ncmd,  \* commands issued so far
          obs,   \* observation state (SessionObs)
          hist   \* behaviour history (Gen only)

vars == <<cfg, m, nf, ncmd, obs, hist>>
View == <<cfg, [m EXCEPT !.devs = {}], nf, ncmd, obs>>
\* behaviour generation by terminal-state enumeration: one (shortest) behaviour per distinct
\* (final state, set of event kinds on the way): which commands with which arguments, which reply
\* classes to which command, which target calls with which results
Kind(e) == CASE e.a = "Cmd" -> <<"C", e.v, e.arg>>
             [] e.a = "Env" -> <<"E", e.k>>
             [] e.a = "Tgt" -> <<"T", e.tgt, e.op,
                                 IF e.op = "bodyNA" THEN \A r \in DOMAIN e.st : e.st[r] = "ok" ELSE e.res = "ok">>
             [] OTHER       -> IF e.v \in {"DATA", "BDAT"} THEN <<"R", e.v, e.cls>> ELSE <<"R">>
GenView == <<cfg, m, nf, ncmd, obs, {Kind(hist[i]) : i \in 1..Len(hist)}>>
\* finer, for the focused corners: commands are distinguished by the transaction they belong to
\* (number of RSET / DATA / EHLO before them), so "spelling A in one transaction, spelling B in a later
\* one" is a class of its own
TxOf(i) == Cardinality({j \in 1..(i - 1) : hist[j].a = "Cmd" /\ hist[j].v \in {"RSET", "DATA", "HELO"}})
KindTx(i) == IF hist[i].a = "Cmd" THEN <<"C", hist[i].v, hist[i].arg, hist[i].r, TxOf(i)>> ELSE Kind(hist[i])
\* environment events distinguished by the command they follow (their order is fixed by EnvScript)
LastCmd(i) == IF \E j \in 1..(i - 1) : hist[j].a = "Cmd"
              THEN LET j == CHOOSE j \in 1..(i - 1) : hist[j].a = "Cmd" /\ \A k \in (j + 1)..(i - 1) : hist[k].a # "Cmd"
                   IN <<hist[j].v, hist[j].arg>>
              ELSE <<"", "">>
KindEnv(i) == IF hist[i].a = "Env" THEN <<"E", hist[i].k, LastCmd(i)>> ELSE Kind(hist[i])
\* one behaviour per distinct (final state, where each environment event fell)
GenViewEnv == <<cfg, m, nf, ncmd, obs, {KindEnv(i) : i \in {x \in 1..Len(hist) : hist[x].a = "Env"}}>>
GenViewTx == <<cfg, m, nf, ncmd, obs, {KindTx(i) : i \in 1..Len(hist)}>>
\* target calls distinguished by the class of their result (annotated temporary / permanent / none)
KindRes(i) == IF hist[i].a = "Tgt" THEN <<"T", hist[i].tgt, hist[i].op, hist[i].res, hist[i].st>> ELSE Kind(hist[i])
GenViewRes == <<cfg, m, nf, ncmd, obs, {KindRes(i) : i \in 1..Len(hist)}>>
\* coarser: one behaviour per distinct final state
GenViewPlain == <<cfg, m, nf, ncmd, obs>>

TName == <<"T1", "T2", "T3">>
Targets(c) == {TName[i] : i \in 1..c.nt}
Least(a, b) == IF a < b THEN a ELSE b

\* targets of recipient r, in configuration order (rcptBlock.targets is a slice)
Route(c, r) ==
  IF c.shape = "fan"
  THEN CASE r = "ra" -> <<"T1">>
         [] r = "rb" -> [i \in 1..c.nt |-> TName[i]]
         [] OTHER    -> <<TName[c.nt]>>
  ELSE CASE r = "ra" -> <<"T1">>
         [] r = "rb" -> <<TName[Least(2, c.nt)]>>
         [] OTHER    -> <<TName[Least(3, c.nt)]>>

\* LMTP: one target per recipient (two targets setting a status for the same recipient
\* race with go-smtp's collector); SMTP never uses BodyNonAtomic
Cfgs == {c \in [lmtp : Lmtps, defer : BOOLEAN, nt : NTs, shape : {"split", "fan"}, partial : BOOLEAN,
                 hold : Holds] :
           /\ c.lmtp => c.shape = "split"
           /\ ~c.lmtp => ~c.partial
           /\ c.nt = 1 => c.shape = "split"
           /\ c.hold => c.nt = 1}

Res == {"ok"} \cup Fails
CodeOf(res) == IF res = "temp" THEN 451 ELSE 550

(* sender argument classes: "null" <>, "ok" s@src.example, "up" s@SRC.EXAMPLE,
   "rej" s@rej.example (refused by a sender-stage check), "syn" syntax error;
   values of Session.mailFrom: "" (none / null sender), "ok", "up", "rej" *)
ArgMf(a) == IF a = "null" THEN "" ELSE a
CleanMf(x) == IF x = "up" THEN "ok" ELSE x
Dom(x) == CASE x = "ok" -> "src" [] x = "up" -> "SRC" [] x = "rej" -> "rej" [] OTHER -> ""
Keys == {"", "src", "rej"}

NoPd  == [t \in AllTargets |-> "none"]
NoPrc == [t \in AllTargets |-> <<>>]
NoLm  == [on |-> FALSE, st |-> <<>>, sent |-> 0]

M0 == [ helo |-> FALSE, from |-> FALSE, rcpts |-> <<>>, bdat |-> FALSE, alive |-> TRUE,
        sx |-> FALSE, mf |-> "", d |-> FALSE, derr |-> 0,      \* derr: reply code of the sticky error
        ctxnil |-> FALSE,   \* msgCtx was set to nil although a delivery is open (failed nested MAIL)
        pd |-> NoPd, prc |-> NoPrc,
        all |-> 0, src |-> [k \in Keys |-> -1],
        peer |-> 0,         \* 1: another session (same address, sender domain src.example) holds its permits
        nenv |-> 0,         \* environment events so far
        stk |-> <<>>, lm |-> NoLm, ended |-> FALSE, devs |-> {} ]

H(e) == IF Gen THEN Append(hist, e) ELSE hist

\* permits of the other session (cfg.hold): one of each scope, source key "src"
Base(c) == IF c.hold THEN 1 ELSE 0
MInit(c) == IF c.hold THEN [M0 EXCEPT !.all = 1, !.src["src"] = 1] ELSE M0

InitWith(c) ==
  /\ cfg = c /\ m = MInit(c) /\ nf = 0 /\ ncmd = 0
  /\ obs = ObsInit(c.lmtp, Base(c))
  /\ hist = <<>>

Init == \E c \in Cfgs : InitWith(c)

(***************************************************************************)
(* Permits                                                                 *)
(***************************************************************************)
Take(x, key) == [x EXCEPT !.all = @ + 1, !.src[key] = IF @ = -1 THEN 1 ELSE @ + 1]

\* limits.ReleaseMsg: global first, then ip, then source; Semaphore.Release panics when
\* nothing is held; BucketSet.Release ignores an unknown key
Release(x, key) ==
  IF x.all = 0 THEN [x |-> x, crash |-> TRUE]
  ELSE LET x1 == [x EXCEPT !.all = @ - 1] IN
       IF key \notin Keys \/ x1.src[key] = -1 THEN [x |-> x1, crash |-> FALSE]
       ELSE IF x1.src[key] = 0 THEN [x |-> x1, crash |-> TRUE]
       ELSE [x |-> [x1 EXCEPT !.src[key] = @ - 1], crash |-> FALSE]

SrcTotal(x) == LET f(k) == IF x.src[k] > 0 THEN x.src[k] ELSE 0
               IN f("") + f("src") + f("rej")

Mark(x, d) == [x EXCEPT !.devs = @ \cup {d}]
Open(x) == {t \in AllTargets : x.pd[t] = "open"}

(***************************************************************************)
(* Silent stages                                                           *)
(***************************************************************************)
St(k) == [k |-> k]
Reply(code) == [k |-> "reply", code |-> code]
Abort(S) == [k |-> "abort", left |-> S]

\* Session.cleanSession
Clean(x) ==
  LET rel == Release(x, Dom(x.mf)) IN
  IF rel.crash
  THEN [rel.x EXCEPT !.stk = <<[k |-> "crash", n |-> 0]>>]
  ELSE [rel.x EXCEPT !.mf = "", !.d = FALSE, !.derr = 0, !.ctxnil = FALSE, !.pd = NoPd, !.prc = NoPrc]

FreshSession(x) == [x EXCEPT !.sx = TRUE, !.mf = "", !.d = FALSE, !.derr = 0, !.ctxnil = FALSE,
                             !.pd = NoPd, !.prc = NoPrc]

Fill(lm, cls) == [lm EXCEPT !.st = [i \in 1..Len(lm.st) |-> IF lm.st[i] = 0 THEN cls ELSE lm.st[i]]]

RECURSIVE Norm(_)
Norm(x) ==
  IF x.stk = <<>> THEN x
  ELSE LET h == Head(x.stk)
           pop == [x EXCEPT !.stk = Tail(@)]
       IN CASE h.k = "clean"     -> LET y == Clean(pop) IN
                                    IF y.stk # <<>> /\ Head(y.stk).k = "crash" THEN y ELSE Norm(y)
            [] h.k = "connreset" -> Norm([pop EXCEPT !.from = FALSE, !.rcpts = <<>>, !.bdat = FALSE])
            [] h.k = "close"     -> Norm([pop EXCEPT !.alive = FALSE, !.sx = FALSE])
            [] h.k = "setrcpt"   -> Norm([pop EXCEPT !.rcpts = Append(@, h.e)])
            [] h.k = "newsess"   -> Norm(FreshSession(pop))
            [] h.k = "fill"      -> Norm([pop EXCEPT !.lm = Fill(@, h.cls)])
            [] h.k = "lmoff"     -> Norm([pop EXCEPT !.lm = NoLm])
            [] h.k = "lmwait"    -> IF x.lm.sent = Len(x.lm.st) THEN Norm(pop) ELSE x
            [] h.k \in {"abort", "body", "nabody", "commit"} -> IF h.left = {} THEN Norm(pop) ELSE x
            [] h.k = "rcptprog"  -> IF h.todo = <<>> THEN Norm(pop) ELSE x
            [] OTHER -> x

WithStk(x, s) == Norm([x EXCEPT !.stk = s])

\* Logout/Reset part of a program: abort the open delivery, cleanSession
AbortClean(x) == IF x.d THEN <<Abort(Open(x)), St("clean")>> ELSE <<>>

(***************************************************************************)
(* Commands                                                                *)
(***************************************************************************)
RcptArgs == {[v |-> "RCPT", a |-> k, r |-> r] : k \in {"ok", "up"}, r \in Rcpts}
            \cup {[v |-> "RCPT", a |-> k, r |-> ""] : k \in {"rej", "syn"}}
Cmds == {[v |-> "HELO", a |-> "", r |-> ""]}
        \cup {[v |-> "MAIL", a |-> k, r |-> ""] : k \in {"ok", "up", "rej", "syn", "null"}}
        \cup RcptArgs
        \cup {[v |-> "DATA", a |-> k, r |-> ""] : k \in {"ok", "loop", "hdr", "chk", "cut"}}
        \cup {[v |-> "BDAT", a |-> k, r |-> ""] : k \in {"more", "last"}}
        \cup {[v |-> v, a |-> "", r |-> ""] : v \in {"RSET", "NOOP", "QUIT", "DROP"}}

HasUp(x) == \E i \in 1..Len(x.rcpts) : x.rcpts[i].up

\* restrictions of the explored client alphabet (see evidence/assumptions)
Offered(x, c) ==
  /\ "*" \in Allowed \/ (c.v \o ":" \o c.a) \in Allowed
  /\ c.v = "HELO" => ~x.bdat
  /\ c.v = "BDAT" => x.from /\ x.rcpts # <<>>
  /\ c.v = "RCPT" /\ c.a \in {"ok", "up"} =>
        \A i \in 1..Len(x.rcpts) : x.rcpts[i].r = c.r => x.rcpts[i].up = (c.a = "up")
  /\ c.v = "DATA" /\ c.a = "chk" => ~(cfg.lmtp /\ HasUp(x) /\ "LmtpStatusKey" \in Devs)

\* the limit of the sender domain is exhausted for the whole 5 s wait of TakeMsg
Busy(key) == cfg.hold /\ key = "src"

\* Session.startDelivery from sender class f: [x, ok, code]
StartDelivery(x, f) ==
  LET key == Dom(CleanMf(f))
      x1  == Take(x, key)
  IN IF Busy(key)
     THEN \* global and ip permits are taken, the source limiter times out, both are rolled back
          [x |-> x, ok |-> FALSE, code |-> 451]
     ELSE IF f = "rej"
     THEN [x |-> Release(x1, key).x, ok |-> FALSE, code |-> 550]
     ELSE [x |-> [x1 EXCEPT !.d = TRUE, !.mf = CleanMf(f), !.ctxnil = FALSE, !.pd = NoPd, !.prc = NoPrc],
           ok |-> TRUE, code |-> 250]

Helo(x) ==
  IF x.sx /\ x.d /\ "EhloNoLogout" \notin Devs
  THEN WithStk(x, <<Abort(Open(x)), St("clean"), St("newsess"), Reply(250)>>)
  ELSE LET x1 == IF x.sx /\ x.d THEN Mark(x, "EhloNoLogout") ELSE x
       IN WithStk([FreshSession(x1) EXCEPT !.helo = TRUE], <<Reply(250)>>)

Mail(x, a) ==
  IF ~x.helo \/ x.bdat THEN WithStk(x, <<Reply(502)>>)
  ELSE IF a = "syn" THEN WithStk(x, <<Reply(501)>>)
  ELSE IF x.d /\ "NestedMail" \notin Devs THEN WithStk(x, <<Reply(503)>>)
  ELSE IF ~cfg.defer
       THEN LET sd == StartDelivery(x, a) IN
            IF ~sd.ok
            THEN \* the failure path of startDelivery sets msgCtx = nil - also that of an open delivery
                 WithStk(IF x.d THEN Mark([sd.x EXCEPT !.ctxnil = TRUE], "NestedMail") ELSE sd.x, <<Reply(sd.code)>>)
            ELSE LET x1 == IF x.d THEN Mark(sd.x, "NestedMail") ELSE sd.x
                     raw == "MailRawSender" \in Devs
                     x2 == IF raw /\ a = "up" THEN Mark(x1, "MailRawSender") ELSE x1
                 IN WithStk([x2 EXCEPT !.mf = IF raw THEN a ELSE CleanMf(a), !.from = TRUE], <<Reply(250)>>)
       ELSE LET x1 == IF x.d /\ Dom(a) # Dom(x.mf) THEN Mark(x, "NestedMail") ELSE x
            IN WithStk([x1 EXCEPT !.mf = a, !.from = TRUE], <<Reply(250)>>)

Rcpt(x, c) ==
  IF ~x.from \/ x.bdat THEN WithStk(x, <<Reply(502)>>)
  ELSE IF c.a = "syn" THEN WithStk(x, <<Reply(501)>>)
  ELSE IF x.d /\ x.ctxnil    \* trace.NewTask(nil): panic, 421, connection closed, Logout
       THEN WithStk(x, <<Reply(421), Abort(Open(x)), St("clean"), St("close")>>)
  ELSE IF ~x.d /\ x.derr # 0 THEN WithStk(x, <<Reply(x.derr)>>)
  ELSE LET sd == IF x.d THEN [x |-> x, ok |-> TRUE, code |-> 250] ELSE StartDelivery(x, x.mf) IN
       IF ~sd.ok THEN WithStk([sd.x EXCEPT !.derr = sd.code], <<Reply(sd.code)>>)
       ELSE IF c.a = "rej" THEN WithStk(sd.x, <<Reply(550)>>)
       ELSE LET e == [r |-> c.r, up |-> c.a = "up"] IN
            WithStk(sd.x, <<[k |-> "rcptprog", e |-> e, todo |-> Route(cfg, c.r)],
                            [k |-> "setrcpt", e |-> e], Reply(250)>>)

LmStart(x) == [x EXCEPT !.lm = [on |-> TRUE, st |-> [i \in 1..Len(x.rcpts) |-> 0], sent |-> 0]]

\* program of Data / LMTPData once the message was read (kind: ok, loop, chk)
BodyProg(x, kind) ==
  IF ~cfg.lmtp
  THEN IF kind = "ok"
       THEN WithStk(x, <<[k |-> "body", left |-> Open(x)], [k |-> "commit", left |-> Open(x)],
                         St("clean"), Reply(250), St("connreset")>>)
       ELSE IF "DataFailNoAbort" \in Devs
            THEN WithStk(IF Open(x) # {} THEN Mark(x, "DataFailNoAbort") ELSE x,
                         <<St("clean"), Reply(550), St("connreset")>>)
            ELSE WithStk(x, <<Abort(Open(x)), St("clean"), Reply(550), St("connreset")>>)
  ELSE LET y == LmStart(x)
           tail == <<St("lmwait"), St("lmoff"), St("connreset")>>
       IN CASE kind = "ok" ->
                 WithStk(y, <<[k |-> "nabody", left |-> Open(x)], [k |-> "commit", left |-> Open(x)],
                              [k |-> "fill", cls |-> 2], St("clean")>> \o tail)
            [] kind = "chk" ->   \* setStatusAll(err); as-is: then "always commit"
                 IF "LmtpCommitAfterReject" \in Devs
                 THEN WithStk(IF Open(x) # {} THEN Mark([y EXCEPT !.lm = Fill(@, 5)], "LmtpCommitAfterReject")
                              ELSE [y EXCEPT !.lm = Fill(@, 5)],
                              <<[k |-> "commit", left |-> Open(x)], St("clean")>> \o tail)
                 ELSE WithStk([y EXCEPT !.lm = Fill(@, 5)], <<Abort(Open(x)), St("clean")>> \o tail)
            [] OTHER ->
                 IF "DataFailNoAbort" \in Devs
                 THEN WithStk(IF Open(x) # {} THEN Mark(y, "DataFailNoAbort") ELSE y,
                              <<[k |-> "fill", cls |-> 5], St("clean")>> \o tail)
                 ELSE WithStk(y, <<Abort(Open(x)), [k |-> "fill", cls |-> 5], St("clean")>> \o tail)

Data(x, a) ==
  IF x.bdat \/ ~x.from \/ x.rcpts = <<>> THEN WithStk(x, <<Reply(502)>>)
  ELSE IF ~x.d    \* Data on a session without delivery: nil context, panic, 421, connection closed
       THEN IF cfg.lmtp
            THEN WithStk(LmStart(x), <<[k |-> "fill", cls |-> 4], St("lmwait"), St("lmoff"), St("close"), St("connreset")>>)
            ELSE WithStk(x, <<St("connreset"), Reply(421), St("close")>>)
  ELSE IF x.ctxnil    \* same panic with a delivery open: go-smtp's deferred reset / Close abort it
       THEN IF cfg.lmtp
            THEN WithStk(LmStart(x), <<[k |-> "fill", cls |-> 4], St("lmwait"), St("lmoff"),
                                       Abort(Open(x)), St("clean"), St("close"), St("connreset")>>)
            ELSE WithStk(x, <<Abort(Open(x)), St("clean"), St("connreset"), Reply(421), St("close")>>)
  ELSE IF a \in {"hdr", "cut"}   \* prepareBody fails: no cleanSession; go-smtp resets after the reply
       THEN LET fin == IF a = "cut" THEN <<St("close")>> ELSE <<>> IN
            IF cfg.lmtp
            THEN WithStk(LmStart(x), <<[k |-> "fill", cls |-> 5], St("lmwait"), St("lmoff"),
                                       Abort(Open(x)), St("clean"), St("connreset")>> \o fin)
            ELSE WithStk(x, <<Reply(552), Abort(Open(x)), St("clean"), St("connreset")>> \o fin)
  ELSE BodyProg(x, a)

Bdat(x, a) ==
  IF ~x.bdat /\ ~x.d THEN WithStk(x, <<Reply(421), St("close"), St("connreset")>>)
  ELSE IF ~x.bdat /\ x.ctxnil
       THEN WithStk(x, <<Reply(421), Abort(Open(x)), St("clean"), St("close"), St("connreset")>>)
  ELSE IF a = "more" THEN WithStk([x EXCEPT !.bdat = TRUE], <<Reply(250)>>)
  ELSE BodyProg([x EXCEPT !.bdat = TRUE], "ok")

Rset(x) == WithStk(x, AbortClean(x) \o <<St("connreset"), Reply(250)>>)
Quit(x) == WithStk(x, <<Reply(221)>> \o AbortClean(x) \o <<St("close")>>)
Drop(x) == WithStk(x, AbortClean(x) \o <<St("close")>>)

Exec(x, c) ==
  CASE c.v = "HELO" -> Helo(x)
    [] c.v = "MAIL" -> IF c.a = "syn" THEN Mail(x, "syn") ELSE Mail(x, ArgMf(c.a))
    [] c.v = "RCPT" -> Rcpt(x, c)
    [] c.v = "DATA" -> Data(x, c.a)
    [] c.v = "BDAT" -> Bdat(x, c.a)
    [] c.v = "RSET" -> Rset(x)
    [] c.v = "NOOP" -> WithStk(x, <<Reply(250)>>)
    [] c.v = "QUIT" -> Quit(x)
    [] OTHER        -> Drop(x)

Idle == m.alive /\ m.stk = <<>> /\ ~m.ended

\* behaviour generation only: at most MaxJunk commands that go-smtp refuses without
\* calling the session (sequence / syntax errors); the exhaustive runs have no such limit
Refused(x, c) == LET y == Exec(x, c) IN
                 y.stk # <<>> /\ Head(y.stk).k = "reply" /\ Head(y.stk).code \in SeqCodes
JunkCount == Cardinality({i \in 1..Len(hist) : hist[i].a = "Cmd" /\ hist[i].junk})
MaxJunk == 1

\* p: sent in one write together with the previous command (pipelining); history only
CmdStep(c, p) ==
  /\ Idle
  /\ Offered(m, c)
  /\ Gen => (~Refused(m, c) \/ JunkCount < MaxJunk)
  /\ ncmd < MaxCmds - 1 \/ c.v \in {"QUIT", "DROP"}
  /\ m' = Exec(m, c)
  /\ ncmd' = ncmd + 1
  /\ obs' = ObsCmd(ObsPermits(obs, m.all, m.all, SrcTotal(m)), c.v, c.a, c.r)
  /\ hist' = H([a |-> "Cmd", v |-> c.v, arg |-> c.a, r |-> c.r, p |-> p, junk |-> Gen /\ Refused(m, c)])
  /\ UNCHANGED <<cfg, nf>>

(***************************************************************************)
(* The environment at the limits group, between two commands               *)
(*  "wait"   more than the limiters' reap interval (1 min) passes: a slow  *)
(*           client                                                        *)
(*  "storm"  the same, then sessions from more distinct addresses and      *)
(*           sender domains than the bucket tables hold come and go (each  *)
(*           takes and returns its permits), then the reap interval passes *)
(*           again: the tables are over their capacity and stale buckets   *)
(*           are reaped.  Idle buckets may disappear (not visible in the   *)
(*           counters); a bucket whose permit is out stays.                *)
(*  "peer+"  another session from the same address with sender domain      *)
(*           src.example takes its permits (TakeMsg)                       *)
(*  "peer-"  ... and returns them (ReleaseMsg)                             *)
(* Design: the permits of the conversation's own transaction are not       *)
(* affected, the other session's permits are counted on top (obs.base).    *)
(***************************************************************************)
EnvKinds == {"wait", "storm", "peer+", "peer-"}
EnvPlans == [ any     |-> <<>>,
              SP      |-> <<"storm", "peer+">>,             \* tables reaped under a transaction, then a peer, still there at the end
              SPM     |-> <<"storm", "peer+", "peer-">>,    \* ... that leaves before the conversation ends
              PS      |-> <<"peer+", "storm">>,             \* a peer first, then the tables are reaped
              PWM     |-> <<"peer+", "wait", "peer-">>,     \* a peer comes, time passes, it leaves
              WPM     |-> <<"wait", "peer+", "peer-">>,
              SS      |-> <<"storm", "storm">> ]
EnvScript == EnvPlans[EnvPlan]

EnvStep(k) ==
  /\ Idle /\ m.nenv < MaxEnv /\ ~cfg.hold
  /\ EnvScript = <<>> \/ (m.nenv < Len(EnvScript) /\ k = EnvScript[m.nenv + 1])
  /\ k = "peer+" => m.peer = 0
  /\ k = "peer-" => m.peer = 1
  /\ LET x == [m EXCEPT !.nenv = @ + 1] IN
       m' = CASE k = "peer+" -> [Take(x, "src") EXCEPT !.peer = 1]
              [] k = "peer-" -> [Release(x, "src").x EXCEPT !.peer = 0]
              [] OTHER       -> x
  /\ obs' = ObsEnv(obs, k)
  /\ hist' = H([a |-> "Env", k |-> k])
  /\ UNCHANGED <<cfg, nf, ncmd>>

(***************************************************************************)
(* Replies                                                                 *)
(***************************************************************************)
SameKind(code, want) ==
  /\ code \div 100 = want \div 100
  /\ (code \in SeqCodes) = (want \in SeqCodes)

ReplyStep(code) ==
  /\ m.stk # <<>> /\ Head(m.stk).k = "reply"
  /\ SameKind(code, Head(m.stk).code)
  /\ m' = WithStk(m, Tail(m.stk))
  /\ obs' = ObsReply(obs, code)
  /\ hist' = H([a |-> "Reply", v |-> obs.cmd.v, cls |-> code \div 100])
  /\ UNCHANGED <<cfg, nf, ncmd>>

\* LMTP: the reply of recipient i is written as soon as its status is known - concurrently
\* with the rest of LMTPData (as-is); the design reports statuses only after Commit
CommitPending == \E i \in 1..Len(m.stk) : m.stk[i].k \in {"nabody", "commit"}

LmReplyStep(code) ==
  /\ m.lm.on /\ m.lm.sent < Len(m.lm.st)
  /\ m.stk # <<>> /\ Head(m.stk).k # "crash"
  /\ LET i == m.lm.sent + 1 IN
       /\ m.lm.st[i] # 0
       /\ code \div 100 = m.lm.st[i]
       /\ "LmtpCommitErrLost" \in Devs \/ ~CommitPending
  /\ m' = Norm([m EXCEPT !.lm.sent = @ + 1])
  /\ obs' = ObsReply(obs, code)
  /\ hist' = H([a |-> "Reply", v |-> obs.cmd.v, cls |-> code \div 100])
  /\ UNCHANGED <<cfg, nf, ncmd>>

(***************************************************************************)
(* Target calls                                                            *)
(***************************************************************************)
Cost(res) == IF res = "ok" THEN 0 ELSE 1
TgtHist(t, op, r, res, st) == H([a |-> "Tgt", tgt |-> t, op |-> op, r |-> r, res |-> res, st |-> st])
NoSt == [x \in {} |-> "ok"]

TgtCommon(t, op, r, res, st, ts, cost) ==
  /\ nf + cost <= MaxFaults
  /\ nf' = nf + cost
  /\ obs' = ObsTgt(obs, t, op, r, res, st, ts)
  /\ hist' = TgtHist(t, op, r, res, st)
  /\ UNCHANGED <<cfg, ncmd>>

\* msgpipeline getDelivery: Start on the first recipient routed to the target
TStart(t, res) ==
  /\ m.stk # <<>> /\ Head(m.stk).k = "rcptprog"
  /\ t = Head(m.stk).todo[1] /\ m.pd[t] = "none"
  /\ m' = IF res = "ok" THEN [m EXCEPT !.pd[t] = "open"]
          ELSE WithStk(m, <<Reply(CodeOf(res))>>)
  /\ TgtCommon(t, "start", "", res, NoSt, "ok", Cost(res))

TRcpt(t, r, res) ==
  /\ m.stk # <<>> /\ Head(m.stk).k = "rcptprog"
  /\ t = Head(m.stk).todo[1] /\ m.pd[t] = "open" /\ r = Head(m.stk).e.r
  /\ m' = IF res = "ok"
          THEN Norm([m EXCEPT !.prc[t] = Append(@, Head(m.stk).e), !.stk[1].todo = Tail(@)])
          ELSE WithStk(m, <<Reply(CodeOf(res))>>)
  /\ TgtCommon(t, "rcpt", r, res, NoSt, "ok", Cost(res))

TAbort(t, res) ==
  /\ m.stk # <<>> /\ Head(m.stk).k = "abort" /\ t \in Head(m.stk).left
  /\ m' = Norm([m EXCEPT !.pd[t] = "closed", !.stk[1].left = @ \ {t}])
  /\ TgtCommon(t, "abort", "", res, NoSt, "ok", Cost(res))

\* SMTP: msgpipelineDelivery.Body
TBody(t, res) ==
  /\ m.stk # <<>> /\ Head(m.stk).k = "body" /\ t \in Head(m.stk).left
  /\ m' = IF res = "ok" THEN Norm([m EXCEPT !.stk[1].left = @ \ {t}])
          ELSE IF "DataFailNoAbort" \in Devs
               THEN WithStk(Mark(m, "DataFailNoAbort"), <<St("clean"), Reply(CodeOf(res)), St("connreset")>>)
               ELSE WithStk(m, <<Abort(Open(m)), St("clean"), Reply(CodeOf(res)), St("connreset")>>)
  /\ TgtCommon(t, "body", "", res, NoSt, "ok", Cost(res))

\* positions of the recipient list that get the statuses a target sets for its entries
\* es (in order); with "LmtpStatusKey" the first upper-case entry panics
SetStatuses(x, es, val(_)) ==
  LET bad == IF "LmtpStatusKey" \in Devs /\ \E j \in 1..Len(es) : es[j].up
             THEN CHOOSE j \in 1..Len(es) : es[j].up /\ \A k \in 1..(j - 1) : ~es[k].up
             ELSE Len(es) + 1
      \* go-smtp keeps one FIFO channel per recipient string: the k-th status set for r goes to
      \* the k-th position of r in the recipient list that has no status yet
      cnt(r) == Cardinality({j \in 1..(bad - 1) : es[j].r = r})
      rank(i) == Cardinality({j \in 1..i : x.rcpts[j].r = x.rcpts[i].r /\ x.lm.st[j] = 0})
      st1 == [i \in 1..Len(x.lm.st) |->
                IF x.lm.st[i] = 0 /\ rank(i) <= cnt(x.rcpts[i].r) THEN val(x.rcpts[i].r) ELSE x.lm.st[i]]
  IN [x |-> [x EXCEPT !.lm.st = st1], panic |-> bad <= Len(es)]

LmTail == <<St("lmwait"), St("lmoff")>>
\* the panic unwinds through LMTPData's deferred clean-up (which aborts only in the design)
PanicProg(x) == (IF "DataFailNoAbort" \in Devs THEN <<>> ELSE <<Abort(Open(x))>>)
                \o <<St("clean"), [k |-> "fill", cls |-> 4]>> \o LmTail \o <<St("close"), St("connreset")>>

ClsOf(res) == IF res = "ok" THEN 2 ELSE IF res = "temp" THEN 4 ELSE 5

\* LMTP, target implements PartialDelivery: BodyNonAtomic with per-recipient statuses
TBodyNA(t, st) ==
  /\ m.stk # <<>> /\ Head(m.stk).k = "nabody" /\ t \in Head(m.stk).left /\ cfg.partial
  /\ DOMAIN st = {m.prc[t][j].r : j \in 1..Len(m.prc[t])}
  /\ LET ss == SetStatuses(m, m.prc[t], LAMBDA r : ClsOf(st[r])) IN
       m' = IF ss.panic THEN WithStk(Mark(ss.x, "LmtpStatusKey"), PanicProg(ss.x))
            ELSE Norm([ss.x EXCEPT !.stk[1].left = @ \ {t}])
  /\ TgtCommon(t, "bodyNA", "", "", st, "ok", Cardinality({r \in DOMAIN st : st[r] # "ok"}))

\* LMTP, plain target: Body; a failure is copied to every recipient of the target
TBodyL(t, res) ==
  /\ m.stk # <<>> /\ Head(m.stk).k = "nabody" /\ t \in Head(m.stk).left /\ ~cfg.partial
  /\ LET ss == IF res = "ok" THEN [x |-> m, panic |-> FALSE]
               ELSE SetStatuses(m, m.prc[t], LAMBDA r : ClsOf(res)) IN
       m' = IF ss.panic THEN WithStk(Mark(ss.x, "LmtpStatusKey"), PanicProg(ss.x))
            ELSE Norm([ss.x EXCEPT !.stk[1].left = @ \ {t}])
  /\ TgtCommon(t, "body", "", res, NoSt, "ok", Cost(res))

TCommit(t, res) ==
  /\ m.stk # <<>> /\ Head(m.stk).k = "commit" /\ t \in Head(m.stk).left
  /\ LET rest == Head(m.stk).left \ {t}
         x1 == [m EXCEPT !.pd[t] = "closed"]
         stop == "CommitStopsAtFirst" \in Devs
         x2 == IF stop /\ rest # {} THEN Mark(x1, "CommitStopsAtFirst") ELSE x1
         pre == IF stop THEN <<>> ELSE <<Abort(rest)>>
     IN m' = IF res = "ok" THEN Norm([x1 EXCEPT !.stk[1].left = rest])
             ELSE IF ~cfg.lmtp
                  THEN WithStk(x2, pre \o <<St("clean"), Reply(CodeOf(res)), St("connreset")>>)
                  ELSE LET lost == "LmtpCommitErrLost" \in Devs
                           x3 == IF lost /\ \E i \in 1..Len(x2.lm.st) : x2.lm.st[i] = 2
                                 THEN Mark(x2, "LmtpCommitErrLost") ELSE x2
                           \* design: a commit failure overrides the success statuses
                           x4 == IF lost THEN x3
                                 ELSE [x3 EXCEPT !.lm.st = [i \in 1..Len(@) |-> IF @[i] = 2 THEN 0 ELSE @[i]]]
                       IN WithStk(x4, pre \o <<[k |-> "fill", cls |-> ClsOf(res)], St("clean")>>
                                       \o LmTail \o <<St("connreset")>>)
  /\ TgtCommon(t, "commit", "", res, NoSt, "ok", Cost(res))

(***************************************************************************)
(* A panic outside every recover (mismatched Release in cleanSession while *)
(* Logout runs again from the deferred Close): further replies / repeated *)
(* Abort calls may be seen, then the process dies.                         *)
(***************************************************************************)
Crashing == m.stk # <<>> /\ Head(m.stk).k = "crash"

CrashReply(code) ==
  /\ Crashing /\ Head(m.stk).n < 6 /\ code \div 100 \in {2, 4}
  /\ m' = [m EXCEPT !.stk[1].n = @ + 1]
  /\ obs' = ObsReply(obs, code)
  /\ UNCHANGED <<cfg, nf, ncmd, hist>>

CrashAbort(t) ==
  /\ Crashing /\ Head(m.stk).n < 6 /\ t \in Targets(cfg)
  /\ m' = [m EXCEPT !.stk[1].n = @ + 1]
  /\ obs' = ObsTgt(obs, t, "abort", "", "ok", NoSt, "closed")
  /\ UNCHANGED <<cfg, nf, ncmd, hist>>

Emit == IF Gen THEN PrintT(<<"BEH", ToJson([cfg |-> cfg, hist |-> hist, devs |-> m.devs,
                                              crash |-> m.stk # <<>>])>>)
        ELSE TRUE

CrashStep ==
  /\ Crashing
  /\ m' = [m EXCEPT !.stk = <<>>, !.alive = FALSE, !.ended = TRUE]
  /\ obs' = ObsCrash(obs)
  /\ Emit
  /\ UNCHANGED <<cfg, nf, ncmd, hist>>

EndStep ==
  /\ ~m.alive /\ m.stk = <<>> /\ ~m.ended
  /\ m' = [m EXCEPT !.ended = TRUE]
  /\ obs' = ObsEnd(obs, obs.open, m.all, m.all, SrcTotal(m))
  /\ Emit
  /\ UNCHANGED <<cfg, nf, ncmd, hist>>

Statuses(t) == [{m.prc[t][j].r : j \in 1..Len(m.prc[t])} -> Res]

Next ==
  \/ \E c \in Cmds, p \in (IF Gen THEN BOOLEAN ELSE {FALSE}) :
        /\ p => (ncmd > 0 /\ c.v # "DROP")
        /\ CmdStep(c, p)
  \/ m.stk # <<>> /\ Head(m.stk).k = "reply" /\ ReplyStep(Head(m.stk).code)
  \/ m.lm.on /\ m.lm.sent < Len(m.lm.st) /\ LmReplyStep(m.lm.st[m.lm.sent + 1] * 100 + 50)
  \/ \E t \in Targets(cfg), res \in Res :
        \/ TStart(t, res) \/ TAbort(t, res) \/ TBody(t, res) \/ TBodyL(t, res) \/ TCommit(t, res)
        \/ \E r \in Rcpts : TRcpt(t, r, res)
  \/ \E t \in Targets(cfg) : \E st \in Statuses(t) : TBodyNA(t, st)
  \/ CrashReply(421) \/ (\E t \in Targets(cfg) : CrashAbort(t)) \/ CrashStep
  \/ (\E k \in EnvKinds : EnvStep(k))
  \/ EndStep
  \/ (m.ended /\ ~Gen /\ UNCHANGED vars)

Spec == Init /\ [][Next]_vars /\ WF_vars(Next)

(***************************************************************************)
(* C03 is the conjunction of the predicates evaluated inside SessionObs   *)
(* (collected in obs.viol).                                                *)
(***************************************************************************)
NoViolation == obs.viol = {}
NoDeviation == m.devs = {}
TypeOK == /\ m.all \in 0..(MaxCmds + 1)
          /\ \A t \in AllTargets : m.pd[t] \in {"none", "open", "closed"}
          /\ nf \in 0..MaxFaults
Terminates == <>(m.ended)
=============================================================================
