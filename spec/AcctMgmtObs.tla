---------------------------- MODULE AcctMgmtObs ----------------------------
(***************************************************************************)
(* Pure operators of extension X10 (account management commands).          *)
(*                                                                         *)
(*  - the data model: a *snapshot* is everything an administrator can read *)
(*    back after a command: the credential table, which (spelling,         *)
(*    password) pairs authenticate, the IMAP accounts, which spellings the *)
(*    server's recipient look-up resolves to an account, the mailboxes     *)
(*    (name path, special-use attribute, UIDVALIDITY generation, UIDNEXT)  *)
(*    and the messages (UID, body identity, flags);                        *)
(*  - Step(c, s, D): the transition function of one `maddy` management     *)
(*    command c on snapshot s; D = the deviations of the code that are     *)
(*    switched on.  Step(c, s, {}) is the documented semantics;            *)
(*  - Judge(...): the property predicates, evaluated on a logged step      *)
(*    (command, exit status, snapshot before, snapshot after) - they       *)
(*    compare what happened with Step(c, before, {}) component by          *)
(*    component, check the declarative state invariants on the snapshot    *)
(*    and the history predicate (mailbox, UIDVALIDITY, UID) -> message.    *)
(*                                                                         *)
(* Sources: usage texts in internal/cli/ctl/{users,imapacct,imap}.go,      *)
(* docs/reference/storage/imapsql.md:14-16 (account names are              *)
(* case-insensitive, PRECIS UsernameCaseMapped), docs/tutorials/           *)
(* setting-up.md:226-262, docs/reference/auth/pass_table.md, RFC 3501      *)
(* 6.3.3-6.3.5, 2.3.1.1 (CREATE/DELETE/RENAME, UIDs) which the storage     *)
(* implements, doc comments of go-imap-sql (DeleteUser).                   *)
(***************************************************************************)
EXTENDS Naturals, Sequences, FiniteSets, TLC

(* ---- names -------------------------------------------------------------*)
(* spellings of account names used on the command line:                    *)
(*   "a"  alice@example.org      "aC" ALICE@EXAMPLE.ORG (letter case)      *)
(*   "aW" full-width 'a' + lice@example.org (Unicode width, PRECIS maps it)*)
(*   "b"  bob@example.org        "bC" Bob@Example.Org                      *)
(*   "x"  "al ice@example.org"   (refused by PRECIS UsernameCaseMapped)    *)
(*   ""   argument missing                                                 *)
ProbeSp == {"a", "aC", "aW", "b", "bC", "x"}

(* the account a spelling denotes (docs: case-insensitive, PRECIS          *)
(* UsernameCaseMapped); "!" = not a valid account name                     *)
Canon(sp) == CASE sp \in {"a", "aC", "aW"} -> "a"
               [] sp \in {"b", "bC"} -> "b"
               [] OTHER -> "!"
(* what strings.ToLower alone makes of it (go-imap-sql normalizeUsername)  *)
(* "aW" / "x" name the stored strings as such                              *)
Lower(sp) == CASE sp \in {"a", "aC"} -> "a"
               [] sp \in {"b", "bC"} -> "b"
               [] OTHER -> sp
AcctOf(sp, D) == IF "AcctNoPrecis" \in D THEN Lower(sp) ELSE Canon(sp)

(* mailbox names are paths (sequences of components), "." separated on the *)
(* command line                                                            *)
INBOX == <<"INBOX">>
IsPre(p, n) == Len(p) <= Len(n) /\ SubSeq(n, 1, Len(p)) = p
IsChild(p, n) == Len(p) < Len(n) /\ IsPre(p, n)
LowC(c) == CASE c = "A" -> "a" [] c = "B" -> "b" [] c = "C" -> "c" [] OTHER -> c
LowN(n) == [i \in 1..Len(n) |-> LowC(n[i])]
(* SQL LIKE 'old.%' of sqlite: ASCII case-insensitive                      *)
LikeChild(p, n) == Len(p) < Len(n) /\ LowN(SubSeq(n, 1, Len(p))) = LowN(p)
Parents(n) == {SubSeq(n, 1, k) : k \in 1..(Len(n) - 1)}
Rebase(n, old, new) == new \o SubSeq(n, Len(old) + 1, Len(n))

DefaultSpecial == <<"Sent", "Trash", "Junk", "Drafts", "Archive">>

(* ---- snapshots ---------------------------------------------------------*)
EmptySnap == [creds |-> {}, auth |-> {}, accts |-> {}, reach |-> {}, mboxes |-> {}, msgs |-> {}, nuv |-> 0, nblob |-> 0]
(* bodies in the message store: one per (account, body), shared by copies  *)
Blobs(msgs) == Cardinality({[acct |-> x.acct, body |-> x.body] : x \in {y \in msgs : y.body # "LOST"}})

AuthSet(creds) == UNION {{[sp |-> sp, pw |-> c.pw] : sp \in {q \in ProbeSp : Canon(q) = c.name}} : c \in creds}
ReachSet(accts) == {sp \in ProbeSp : Canon(sp) \in accts}
Derive(s) == [s EXCEPT !.auth = AuthSet(s.creds), !.reach = ReachSet(s.accts), !.nblob = Blobs(s.msgs)]

HasCred(s, k) == \E c \in s.creds : c.name = k
HasMbox(s, ac, n) == \E m \in s.mboxes : m.acct = ac /\ m.name = n
MboxOf(s, ac, n) == CHOOSE m \in s.mboxes : m.acct = ac /\ m.name = n
MsgsIn(s, ac, n) == {x \in s.msgs : x.acct = ac /\ x.mbox = n}
UidsIn(s, ac, n) == {x.uid : x \in MsgsIn(s, ac, n)}
MaxOf(S) == CHOOSE x \in S : \A y \in S : y <= x
Rank(S, x) == Cardinality({y \in S : y < x}) + 1
Nth(S, k) == CHOOSE x \in S : Rank(S, x) = k

(* UIDVALIDITY of a mailbox the model creates: a fresh name "n<k>"; what the *)
(* storage really drew (observed snapshots carry "u<value>") is not         *)
(* predictable, only that it must be new for that mailbox name              *)
NewMbox(ac, n, spc, k) == [acct |-> ac, name |-> n, spc |-> spc, uv |-> "n" \o ToString(k), next |-> 1]

(* mailboxes created by "create n": the missing parents, shortest first,   *)
(* then n itself; UIDVALIDITY generations are numbered in creation order   *)
MissingParents(s, ac, n) == {p \in Parents(n) : ~HasMbox(s, ac, p)}
WithParents(s, ac, n) ==
  LET mp == MissingParents(s, ac, n) IN
  [s EXCEPT !.mboxes = @ \cup {NewMbox(ac, p, "none", s.nuv + Cardinality({q \in mp : Len(q) < Len(p)}) + 1) : p \in mp},
            !.nuv = @ + Cardinality(mp)]

(* ---- message sets addressed by SEQSET ----------------------------------*)
(* [lo, hi], 0 stands for "*"; uids = the UIDs in the mailbox              *)
(* -> [ok, set]   (ok = FALSE: "No messages matched")                      *)
Addressed(uidm, lo, hi, uids) ==
  IF uids = {} THEN [ok |-> FALSE, set |-> {}]
  ELSE LET mx == MaxOf(uids)
           n  == Cardinality(uids) IN
       IF uidm THEN
         LET l0 == IF lo = 0 THEN mx ELSE lo
             h0 == IF hi = 0 THEN mx ELSE hi
             l  == IF l0 <= h0 THEN l0 ELSE h0
             h  == IF l0 <= h0 THEN h0 ELSE l0 IN
         [ok |-> TRUE, set |-> {u \in uids : l <= u /\ u <= h}]
       ELSE
         IF lo > n THEN [ok |-> FALSE, set |-> {}]
         ELSE LET l == IF lo = 0 THEN mx ELSE Nth(uids, lo)
                  h == IF lo = hi THEN l ELSE IF hi = 0 \/ hi > n THEN mx ELSE Nth(uids, hi) IN
              [ok |-> TRUE, set |-> {u \in uids : l <= u /\ u <= h}]

(* sequence-number sets on which RFC 3501 and the code agree: all numbers  *)
(* inside 1..n, or the whole set outside                                   *)
SeqClear(uidm, lo, hi, uids) ==
  uidm \/ uids = {} \/ lo > Cardinality(uids) \/ hi = 0 \/ hi <= Cardinality(uids)

(* ---- results -----------------------------------------------------------*)
(* res: "ok" | "fail" (the command reports an error) | "usage" (an         *)
(* argument is missing); ez: exit status is zero                           *)
R(res, s, D, k) ==
  [res |-> IF res = "usage" THEN "fail" ELSE res,
   ez  |-> IF res = "ok" THEN TRUE
           ELSE IF "ExitZero" \in D
                THEN (res = "fail" \/ k \in {"CredsRemove", "CredsPassword"})
                ELSE FALSE,
   s   |-> Derive(s)]

Yes(cf) == cf \in {"flag", "y"}

(* ---- one command -------------------------------------------------------*)
CredsCreate(c, s, D) ==
  LET k == Canon(c.sp) IN
  IF c.sp = "" THEN R("usage", s, D, c.k)
  ELSE IF k = "!" \/ HasCred(s, k) THEN R("fail", s, D, c.k)
  ELSE R("ok", [s EXCEPT !.creds = @ \cup {[name |-> k, pw |-> c.pw]}], D, c.k)

CredsPassword(c, s, D) ==
  LET k == Canon(c.sp) IN
  IF c.sp = "" THEN R("usage", s, D, c.k)
  ELSE IF k = "!" THEN R("fail", s, D, c.k)
  ELSE IF ~HasCred(s, k) /\ "PasswordCreates" \notin D THEN R("fail", s, D, c.k)
  ELSE R("ok", [s EXCEPT !.creds = {x \in @ : x.name # k} \cup {[name |-> k, pw |-> c.pw]}], D, c.k)

(* removing credentials that do not exist: the documentation is silent,    *)
(* the weaker reading (nothing changes, any report) is taken: as the code  *)
CredsRemove(c, s, D) ==
  LET k == Canon(c.sp) IN
  IF c.sp = "" THEN R("usage", s, D, c.k)
  ELSE IF ~Yes(c.cf) \/ k = "!" THEN R("fail", s, D, c.k)
  ELSE R("ok", [s EXCEPT !.creds = {x \in @ : x.name # k}], D, c.k)

AcctCreate(c, s, D) ==
  LET ac == AcctOf(c.sp, D) IN
  IF c.sp = "" THEN R("usage", s, D, c.k)
  ELSE IF ac = "!" \/ ac \in s.accts THEN R("fail", s, D, c.k)
  ELSE LET names == IF c.su THEN <<"INBOX">> \o DefaultSpecial ELSE <<"INBOX">> IN
       R("ok", [s EXCEPT !.accts = @ \cup {ac},
                         !.mboxes = @ \cup {NewMbox(ac, <<names[i]>>, IF i = 1 THEN "none" ELSE names[i], s.nuv + i)
                                            : i \in 1..Len(names)},
                         !.nuv = @ + Len(names)], D, c.k)

AcctRemove(c, s, D) ==
  LET ac == AcctOf(c.sp, D) IN
  IF c.sp = "" THEN R("usage", s, D, c.k)
  ELSE IF ~Yes(c.cf) \/ ac \notin s.accts THEN R("fail", s, D, c.k)
  ELSE R("ok", [s EXCEPT !.accts = @ \ {ac},
                         !.mboxes = {m \in @ : m.acct # ac},
                         !.msgs = {x \in @ : x.acct # ac}], D, c.k)

MboxCreate(c, s, D) ==
  LET ac == AcctOf(c.sp, D) IN
  IF c.sp = "" \/ c.mb = <<>> THEN R("usage", s, D, c.k)
  ELSE IF ac \notin s.accts \/ HasMbox(s, ac, c.mb) THEN R("fail", s, D, c.k)
  ELSE LET s1 == WithParents(s, ac, c.mb) IN
       R("ok", [s1 EXCEPT !.mboxes = @ \cup {NewMbox(ac, c.mb, c.spc, s1.nuv + 1)}, !.nuv = @ + 1], D, c.k)

MboxRemove(c, s, D) ==
  LET ac == AcctOf(c.sp, D) IN
  IF c.sp = "" \/ c.mb = <<>> THEN R("usage", s, D, c.k)
  ELSE IF ac \notin s.accts \/ ~HasMbox(s, ac, c.mb) \/ c.mb = INBOX \/ ~Yes(c.cf) THEN R("fail", s, D, c.k)
  ELSE R("ok", [s EXCEPT !.mboxes = {m \in @ : ~(m.acct = ac /\ m.name = c.mb)},
                         !.msgs = {x \in @ : ~(x.acct = ac /\ x.mbox = c.mb)}], D, c.k)

(* RENAME old new (RFC 3501 6.3.5): old must exist, new must not; the      *)
(* inferiors of old follow it; missing superiors of new are created;       *)
(* renaming INBOX moves its messages and leaves a new empty INBOX.         *)
MboxRename(c, s, D) ==
  LET ac  == AcctOf(c.sp, D)
      old == c.mb
      new == c.mb2
      isCh(n) == IF "RenameLike" \in D THEN LikeChild(old, n) ELSE IsChild(old, n) IN
  IF c.sp = "" \/ old = <<>> \/ new = <<>> THEN R("usage", s, D, c.k)
  ELSE IF ac \notin s.accts THEN R("fail", s, D, c.k)
  ELSE IF ~HasMbox(s, ac, old) /\ "RenameMissingOk" \notin D THEN R("fail", s, D, c.k)
  ELSE
    (* as the storage does it: superiors of the new name, the mailbox itself, *)
    (* then - on the result - everything that counts as an inferior of old    *)
    LET s1     == WithParents(s, ac, new)
        has    == HasMbox(s, ac, old)
        clash1 == has /\ HasMbox(s1, ac, new)
        ren1(n) == IF has /\ n = old THEN new ELSE n
        mb1    == {[m EXCEPT !.name = IF m.acct = ac THEN ren1(m.name) ELSE m.name] : m \in s1.mboxes}
        ms1    == {[x EXCEPT !.mbox = IF x.acct = ac THEN ren1(x.mbox) ELSE x.mbox] : x \in s1.msgs}
        ch     == {m \in mb1 : m.acct = ac /\ isCh(m.name)}
        ren2(n) == IF isCh(n) THEN Rebase(n, old, new) ELSE n
        clash2 == \/ \E m \in ch : \E o \in mb1 \ ch : o.acct = ac /\ o.name = ren2(m.name)
                  \/ \E m1, m2 \in ch : m1 # m2 /\ ren2(m1.name) = ren2(m2.name)
        mb2    == {[m EXCEPT !.name = IF m.acct = ac THEN ren2(m.name) ELSE m.name] : m \in mb1}
        ms2    == {[x EXCEPT !.mbox = IF x.acct = ac THEN ren2(x.mbox) ELSE x.mbox] : x \in ms1}
        s2     == [s1 EXCEPT !.mboxes = mb2, !.msgs = ms2]
        s3     == IF old = INBOX /\ has
                  THEN [s2 EXCEPT !.mboxes = @ \cup {NewMbox(ac, INBOX, "none", s2.nuv + 1)}, !.nuv = @ + 1]
                  ELSE s2 IN
    IF clash1 \/ clash2 THEN R("fail", s, D, c.k) ELSE R("ok", s3, D, c.k)

MsgAdd(c, s, D) ==
  LET ac == AcctOf(c.sp, D) IN
  IF c.sp = "" \/ c.mb = <<>> \/ c.body = "" THEN R("usage", s, D, c.k)
  ELSE IF ac \notin s.accts \/ ~HasMbox(s, ac, c.mb) THEN R("fail", s, D, c.k)
  ELSE LET m == MboxOf(s, ac, c.mb) IN
       R("ok", [s EXCEPT !.mboxes = (@ \ {m}) \cup {[m EXCEPT !.next = @ + 1]},
                         !.msgs = @ \cup {[acct |-> ac, mbox |-> c.mb, uid |-> m.next, body |-> c.body,
                                           flags |-> c.fl]}], D, c.k)

MsgRemove(c, s, D) ==
  LET ac == AcctOf(c.sp, D) IN
  IF c.sp = "" \/ c.mb = <<>> THEN R("usage", s, D, c.k)
  ELSE IF ac \notin s.accts \/ ~HasMbox(s, ac, c.mb) \/ ~Yes(c.cf) THEN R("fail", s, D, c.k)
  ELSE LET a == Addressed(c.uidm, c.lo, c.hi, UidsIn(s, ac, c.mb)) IN
       IF ~a.ok THEN R("fail", s, D, c.k)
       ELSE LET gone   == {x \in MsgsIn(s, ac, c.mb) : x.uid \in a.set}
                bodies == {x.body : x \in gone}
                rest   == s.msgs \ gone
                lose(x) == IF "CopyRemoveBlob" \in D /\ x.acct = ac /\ x.body \in bodies
                           THEN [x EXCEPT !.body = "LOST"] ELSE x IN
            R("ok", [s EXCEPT !.msgs = {lose(x) : x \in rest}], D, c.k)

(* COPY / MOVE into mb2: copies get the next UIDs of the target in the     *)
(* order of their UIDs in the source, same body and flags                  *)
CopyInto(s, ac, src, dst, set) ==
  LET m == MboxOf(s, ac, dst) IN
  [s EXCEPT !.mboxes = (@ \ {m}) \cup {[m EXCEPT !.next = @ + Cardinality(set)]},
            !.msgs = @ \cup {[acct |-> ac, mbox |-> dst, uid |-> m.next + Rank(set, x.uid) - 1, body |-> x.body,
                              flags |-> x.flags] : x \in {y \in MsgsIn(s, ac, src) : y.uid \in set}}]

MsgCopy(c, s, D) ==
  LET ac == AcctOf(c.sp, D) IN
  IF c.sp = "" \/ c.mb = <<>> \/ c.mb2 = <<>> THEN R("usage", s, D, c.k)
  ELSE IF ac \notin s.accts \/ ~HasMbox(s, ac, c.mb) THEN R("fail", s, D, c.k)
  ELSE LET a == Addressed(c.uidm, c.lo, c.hi, UidsIn(s, ac, c.mb)) IN
       IF ~a.ok THEN (IF c.uidm THEN R("ok", s, D, c.k) ELSE R("fail", s, D, c.k))
       ELSE IF ~HasMbox(s, ac, c.mb2) THEN R("fail", s, D, c.k)
       ELSE R("ok", CopyInto(s, ac, c.mb, c.mb2, a.set), D, c.k)

MsgMove(c, s, D) ==
  LET ac == AcctOf(c.sp, D) IN
  IF c.sp = "" \/ c.mb = <<>> \/ c.mb2 = <<>> THEN R("usage", s, D, c.k)
  ELSE IF ac \notin s.accts \/ ~HasMbox(s, ac, c.mb) THEN R("fail", s, D, c.k)
  ELSE LET a == Addressed(c.uidm, c.lo, c.hi, UidsIn(s, ac, c.mb)) IN
       IF ~a.ok \/ ~HasMbox(s, ac, c.mb2) THEN R("fail", s, D, c.k)
       ELSE LET s1 == CopyInto(s, ac, c.mb, c.mb2, a.set) IN
            R("ok", [s1 EXCEPT !.msgs = {x \in @ : ~(x.acct = ac /\ x.mbox = c.mb /\ x.uid \in a.set)}], D, c.k)

MsgFlags(c, s, D) ==
  LET ac == AcctOf(c.sp, D) IN
  IF c.sp = "" \/ c.mb = <<>> \/ c.fl = {} THEN R("usage", s, D, c.k)
  ELSE IF ac \notin s.accts \/ ~HasMbox(s, ac, c.mb) THEN R("fail", s, D, c.k)
  ELSE LET a == Addressed(c.uidm, c.lo, c.hi, UidsIn(s, ac, c.mb)) IN
       IF ~a.ok THEN R("fail", s, D, c.k)
       ELSE LET upd(x) == IF x.acct = ac /\ x.mbox = c.mb /\ x.uid \in a.set
                          THEN [x EXCEPT !.flags = CASE c.op = "add" -> @ \cup c.fl
                                                     [] c.op = "rem" -> @ \ c.fl
                                                     [] OTHER -> c.fl]
                          ELSE x IN
            R("ok", [s EXCEPT !.msgs = {upd(x) : x \in @}], D, c.k)

(* not a command: a message for RCPT TO:<spelling> arrives through the      *)
(* server's delivery path (imapsql Start / AddRcpt / Body / Commit); it     *)
(* lands in INBOX of the account the spelling denotes, or is refused        *)
Deliver(c, s, D) ==
  LET ac == Canon(c.sp) IN
  IF ac \notin s.accts \/ ~HasMbox(s, ac, INBOX) THEN [res |-> "fail", ez |-> FALSE, s |-> Derive(s)]
  ELSE LET m == MboxOf(s, ac, INBOX) IN
       [res |-> "ok", ez |-> TRUE,
        s |-> Derive([s EXCEPT !.mboxes = (@ \ {m}) \cup {[m EXCEPT !.next = @ + 1]},
                               !.msgs = @ \cup {[acct |-> ac, mbox |-> INBOX, uid |-> m.next, body |-> c.body,
                                                 flags |-> {}]}])]

Step(c, s, D) ==
  CASE c.k = "Deliver"       -> Deliver(c, s, D)
    [] c.k = "CredsCreate"   -> CredsCreate(c, s, D)
    [] c.k = "CredsPassword" -> CredsPassword(c, s, D)
    [] c.k = "CredsRemove"   -> CredsRemove(c, s, D)
    [] c.k = "AcctCreate"    -> AcctCreate(c, s, D)
    [] c.k = "AcctRemove"    -> AcctRemove(c, s, D)
    [] c.k = "MboxCreate"    -> MboxCreate(c, s, D)
    [] c.k = "MboxRemove"    -> MboxRemove(c, s, D)
    [] c.k = "MboxRename"    -> MboxRename(c, s, D)
    [] c.k = "MsgAdd"        -> MsgAdd(c, s, D)
    [] c.k = "MsgRemove"     -> MsgRemove(c, s, D)
    [] c.k = "MsgCopy"       -> MsgCopy(c, s, D)
    [] c.k = "MsgMove"       -> MsgMove(c, s, D)
    [] c.k = "MsgFlags"      -> MsgFlags(c, s, D)

(* what the read-only commands print (creds list, imap-acct list,          *)
(* imap-mboxes list, imap-msgs list): sets of names / UIDs                 *)
Listing(c, s, D) ==
  LET ac == AcctOf(c.sp, D) IN
  CASE c.k = "CredsList" -> [ok |-> TRUE, out |-> {x.name : x \in s.creds}]
    [] c.k = "AcctList"  -> [ok |-> TRUE, out |-> s.accts]
    [] c.k = "MboxList"  -> IF ac \in s.accts
                            THEN [ok |-> TRUE, out |-> {m.name : m \in {y \in s.mboxes : y.acct = ac}}]
                            ELSE [ok |-> FALSE, out |-> {}]
    [] c.k = "MsgList"   -> IF ac \in s.accts /\ HasMbox(s, ac, c.mb)
                            THEN [ok |-> TRUE, out |-> UidsIn(s, ac, c.mb)]
                            ELSE [ok |-> FALSE, out |-> {}]
IsListing(c) == c.k \in {"CredsList", "AcctList", "MboxList", "MsgList"}

(* ---- declarative state invariants (every snapshot) ---------------------*)
StateViol(s) ==
     (IF \E c \in s.creds : Canon(c.name) # c.name THEN {"CredNameNotCanonical"} ELSE {})
\cup (IF \E c1, c2 \in s.creds : c1 # c2 /\ c1.name = c2.name THEN {"TwoPasswords"} ELSE {})
\cup (IF s.auth # AuthSet(s.creds) THEN {"LoginMismatch"} ELSE {})
\cup (IF \E a \in s.accts : Canon(a) # a THEN {"AcctNameNotCanonical"} ELSE {})
\cup (IF s.reach # ReachSet(s.accts) THEN {"ReachMismatch"} ELSE {})
\cup (IF \E a \in s.accts : ~HasMbox(s, a, INBOX) THEN {"NoInbox"} ELSE {})
\cup (IF \E m \in s.mboxes : m.acct \notin s.accts THEN {"OrphanMailbox"} ELSE {})
\cup (IF \E m1, m2 \in s.mboxes : m1 # m2 /\ m1.acct = m2.acct /\ m1.name = m2.name THEN {"DuplicateMailbox"} ELSE {})
\cup (IF \E x \in s.msgs : ~HasMbox(s, x.acct, x.mbox) THEN {"OrphanMessage"} ELSE {})
\cup (IF \E x \in s.msgs : HasMbox(s, x.acct, x.mbox) /\ x.uid >= MboxOf(s, x.acct, x.mbox).next
      THEN {"UidNotBelowNext"} ELSE {})
\cup (IF \E x1, x2 \in s.msgs : x1 # x2 /\ x1.acct = x2.acct /\ x1.mbox = x2.mbox /\ x1.uid = x2.uid
      THEN {"DuplicateUid"} ELSE {})
\cup (IF \E x \in s.msgs : x.body = "LOST" THEN {"BodyLost"} ELSE {})
\cup (IF s.nblob # Blobs(s.msgs) THEN {"BlobCount"} ELSE {})

(* ---- the history predicate: (account, mailbox, UIDVALIDITY, UID) names  *)
(* one message for ever (RFC 3501 2.3.1.1)                                 *)
Keys(s) == {[acct |-> x.acct, mbox |-> x.mbox, uv |-> MboxOf(s, x.acct, x.mbox).uv, uid |-> x.uid, body |-> x.body]
            : x \in {y \in s.msgs : HasMbox(s, y.acct, y.mbox) /\ y.body # "LOST"}}
UidReused(seen, s) ==
  \E k1 \in seen, k2 \in Keys(s) :
     k1.acct = k2.acct /\ k1.mbox = k2.mbox /\ k1.uv = k2.uv /\ k1.uid = k2.uid /\ k1.body # k2.body

(* an account that is created (again) starts empty: only the default      *)
(* mailboxes, new UIDVALIDITY, no messages                                 *)
Fresh(c, b, a) ==
  LET mine == {m \in a.mboxes : m.acct \notin b.accts} IN
  /\ \A x \in a.msgs : x.acct \in b.accts
  /\ \A m \in mine : m.next = 1
  /\ {m.name : m \in mine} = {INBOX} \cup (IF c.su THEN {<<DefaultSpecial[i]>> : i \in 1..5} ELSE {})
(* the messages outside the mailbox(es) a message command names            *)
Others(c, x) == {y \in x.msgs : ~(y.mbox \in (IF c.k = "Deliver" THEN {INBOX} ELSE {c.mb, c.mb2}) /\ Canon(c.sp) = y.acct)}

(* mailboxes predicted (pred) against observed (ob): equal, except that    *)
(* the UIDVALIDITY of a mailbox created by this step is whatever the       *)
(* storage drew                                                            *)
Strip(m) == [acct |-> m.acct, name |-> m.name, spc |-> m.spc, next |-> m.next]
FreshUv(before, pred) == {m.uv : m \in pred} \ {m.uv : m \in before}
MatchMboxes(before, pred, ob) ==
  /\ {Strip(m) : m \in pred} = {Strip(m) : m \in ob}
  /\ Cardinality(pred) = Cardinality(ob)
  /\ \A m \in pred : m.uv \notin FreshUv(before, pred) => m \in ob
SameSnap(before, pred, ob) ==
  /\ pred.creds = ob.creds /\ pred.auth = ob.auth /\ pred.accts = ob.accts /\ pred.reach = ob.reach
  /\ pred.msgs = ob.msgs /\ MatchMboxes(before.mboxes, pred.mboxes, ob.mboxes)
(* a mailbox created by this step must not get a UIDVALIDITY that the same *)
(* mailbox name had before (uvs = every (account, name, UIDVALIDITY) seen) *)
UvOf(s) == {[acct |-> m.acct, name |-> m.name, uv |-> m.uv] : m \in s.mboxes}
UvRecycled(uvs, c, b, a) ==
  LET e == Step(c, b, {})
      fresh == {[acct |-> m.acct, name |-> m.name] : m \in {x \in e.s.mboxes : x.uv \in FreshUv(b.mboxes, e.s.mboxes)}} IN
  \E m \in a.mboxes : /\ [acct |-> m.acct, name |-> m.name] \in fresh
                       /\ [acct |-> m.acct, name |-> m.name, uv |-> m.uv] \in uvs

(* diagnostic, not a violation: a mailbox created by this step carries a   *)
(* UIDVALIDITY value that some mailbox carried before, or two of them the  *)
(* same one (the storage seeds its generator with the current second)      *)
UvCollision(uvs, c, b, a) ==
  LET e == Step(c, b, {})
      fresh == {m \in a.mboxes : \E x \in e.s.mboxes : x.acct = m.acct /\ x.name = m.name
                                                      /\ x.uv \in FreshUv(b.mboxes, e.s.mboxes)} IN
  \/ \E m \in fresh : \E u \in uvs \cup UvOf(b) : u.uv = m.uv
  \/ \E m1, m2 \in fresh : m1 # m2 /\ m1.uv = m2.uv

(* nuv is a counter of the model only *)
Same(a, b) == [a EXCEPT !.nuv = 0] = [b EXCEPT !.nuv = 0]

(* ---- judging one logged step -------------------------------------------*)
(* c: command, res: "ok"/"fail" as reported, ez: exit status zero,         *)
(* b / a: snapshots before / after                                         *)
StepViol(c, res, ez, b, a) ==
  LET e == Step(c, b, {}) IN
     (IF res = "fail" /\ ~Same(a, b) THEN {"FailedButChanged"} ELSE {})
\cup (IF (c.k \in {"CredsRemove", "AcctRemove", "MboxRemove", "MsgRemove"}) /\ c.sp # "" /\ ~Yes(c.cf) /\ ~Same(a, b)
      THEN {"DestroyedOnNo"} ELSE {})
\cup (IF c.k # "Deliver" /\ (res = "fail") = ez THEN {"ExitStatus"} ELSE {})
\cup (IF res # e.res THEN {"Result:" \o c.k} ELSE {})
\cup (IF res = "ok" /\ a.creds # e.s.creds THEN {"Creds:" \o c.k} ELSE {})
\cup (IF res = "ok" /\ a.accts # e.s.accts THEN {"Accts:" \o c.k} ELSE {})
\cup (IF res = "ok" /\ ~MatchMboxes(b.mboxes, e.s.mboxes, a.mboxes) THEN {"Mboxes:" \o c.k} ELSE {})
\cup (IF res = "ok" /\ a.msgs # e.s.msgs THEN {"Msgs:" \o c.k} ELSE {})
\cup (IF c.k = "AcctCreate" /\ res = "ok" /\ c.sp \notin a.reach THEN {"CreatedAccountUnreachable"} ELSE {})
\cup (IF c.k = "AcctCreate" /\ res = "ok" /\ ~Fresh(c, b, a) THEN {"NewAccountNotEmpty"} ELSE {})
\cup (IF c.k \in {"MsgAdd", "MsgRemove", "MsgCopy", "MsgMove", "MsgFlags", "Deliver"} /\ Others(c, a) # Others(c, b)
      THEN {"OtherMessagesTouched"} ELSE {})
\cup (IF c.k \in {"CredsCreate", "CredsPassword"} /\ res = "ok" /\ [sp |-> c.sp, pw |-> c.pw] \notin a.auth
      THEN {"CannotLogIn"} ELSE {})

ListViol(c, res, ez, out, b) ==
  LET e == Listing(c, b, {}) IN
     (IF (res = "ok") # e.ok THEN {"Result:" \o c.k} ELSE {})
\cup (IF (res = "fail") = ez THEN {"ExitStatus"} ELSE {})
\cup (IF res = "ok" /\ e.ok /\ out # e.out THEN {"Listing:" \o c.k} ELSE {})
=============================================================================
