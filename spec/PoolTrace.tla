----------------------------- MODULE PoolTrace -----------------------------
(***************************************************************************)
(* Trace validation for Pool.tla (same scheme as TimeWheelTrace.tla).      *)
(* Monitor mode folds the API-level events with the PoolObs operators; its *)
(* obs.viol is the property verdict.  Conformance mode asks whether the    *)
(* history is explainable by the design: a "Step" line (the controller's   *)
(* choice of goroutine, a hint) is matched by one step of that process     *)
(* whose effect on the observation state equals the fold of the events     *)
(* recorded until the next choice.                                         *)
(***************************************************************************)
EXTENDS Pool

Trace == ndJsonDeserialize("trace.ndjson")
NTr == Cardinality({i \in 1..Len(Trace) : Trace[i].e = "Cfg"})

VARIABLES l, drift, tno, k
tvars == <<vars, l, drift, tno, k>>

Ev == Trace[l]
IsEv(e) == l <= Len(Trace) /\ Ev.e = e
Ctl == {"Step", "Clock", "End", "Cfg", "Break"}

ObsApply(o, e) ==
  CASE e.e = "GetCall"         -> ObsGetCall(o, e.w, e.now)
    [] e.e = "GetReturn"       -> ObsGetReturn(o, e.w, e.c, e.fresh, e.now, cfg.life)
    [] e.e = "GetFail"         -> ObsGetFail(o, e.w)
    [] e.e = "ReturnCall"      -> ObsReturnCall(o, e.w, e.c)
    [] e.e = "ReturnReturn"    -> ObsReturnReturn(o, e.w)
    [] e.e = "ConnClose"       -> ObsConnClose(o, e.c, e.byHolder)
    [] e.e = "PoolCloseCall"   -> ObsPoolCloseCall(o)
    [] e.e = "PoolCloseReturn" -> ObsPoolCloseReturn(o)
    [] e.e = "Panic"           -> ObsPanic(o)
    [] e.e = "End"             -> ObsEnd(o, ToSet(e.hung))
    [] OTHER                   -> o

\* first control line after line i
RECURSIVE NextCtl(_)
NextCtl(i) == IF i + 1 > Len(Trace) \/ Trace[i + 1].e \in Ctl THEN i + 1 ELSE NextCtl(i + 1)
RECURSIVE Fold(_, _, _)
Fold(o, i, j) == IF i > j THEN o ELSE Fold(ObsApply(o, Trace[i]), i + 1, j)

Publish(d, o) ==
  TLCSet(1, TLCGet(1) \cup {[t |-> tno, k |-> k, drift |-> d, driftAt |-> 0, viol |-> o.viol, dev |-> ""]})
Reached(n) == TLCSet(2, [TLCGet(2) EXCEPT ![k] = IF @ < n THEN n ELSE @])

TInit ==
  /\ InitWith([close |-> FALSE, workers |-> {}, mpk |-> 1, mk |-> 1, life |-> 1, stale |-> 2])
  /\ l = 1 /\ drift = FALSE /\ tno = 0 /\ k = 0
  /\ TLCSet(1, {}) /\ TLCSet(2, [i \in 1..NTr |-> 0])

TReset ==
  /\ IsEv("Cfg")
  /\ LET c == [close |-> Ev.close, workers |-> ToSet(Ev.workers), mpk |-> Ev.maxPerKey, mk |-> Ev.maxKeys,
               life |-> Ev.life, stale |-> Ev.stale] IN
       /\ cfg' = c
       /\ wleft' = [w \in Workers |-> IF w \in c.workers THEN Rounds ELSE 0]
       /\ ppc' = IF c.close THEN "pc0" ELSE "none"
  /\ now' = 0
  /\ keys' = [x \in Keys |-> NoB] /\ keysNil' = FALSE /\ chans' = <<>>
  /\ cst' = [x \in Conns |-> "none"] /\ cusable' = [x \in Conns |-> TRUE]
  /\ clast' = [x \in Conns |-> 0] /\ nconn' = 0
  /\ wpc' = [w \in Workers |-> "idle"] /\ wkey' = [w \in Workers |-> CHOOSE x \in Keys : TRUE]
  /\ wch' = [w \in Workers |-> 0] /\ wcur' = [w \in Workers |-> ""] /\ wheld' = [w \in Workers |-> ""]
  /\ wctx' = [w \in Workers |-> "live"]
  /\ spc' = "s0" /\ tickPending' = FALSE /\ nextTick' = 0
  /\ async' = {} /\ breaks' = 0 /\ ended' = FALSE /\ obs' = ObsInit
  /\ UNCHANGED schedV
  /\ l' = l + 1 /\ tno' = Ev.t /\ k' = k + 1
  /\ drift' \in BOOLEAN
  /\ TLCSet(2, [TLCGet(2) EXCEPT ![k + 1] = IF @ < l + 1 THEN l + 1 ELSE @])

HintStep ==
  CASE Ev.k = "w" -> Ev.n \in Workers /\ WorkerStep(Ev.n)
    [] Ev.k = "c" -> CloserStep
    [] Ev.k = "s" -> SweeperStep
    [] OTHER      -> \E c \in Conns : Async(c)

C_Step ==
  /\ ~drift /\ IsEv("Step") /\ ~ended
  /\ HintStep /\ UNCHANGED schedV
  /\ LET j == NextCtl(l) IN
       \* the key of a Get is not part of the observation state: bind it here
       /\ (j > l + 1 /\ Trace[l + 1].e = "GetCall") =>
             /\ wkey'[Trace[l + 1].w] = Trace[l + 1].key
             \* ... nor is the context the caller brought
             /\ wctx'[Trace[l + 1].w] = Trace[l + 1].cx
       /\ obs' = Fold(obs, l + 1, j - 1)
       /\ l' = j
       /\ Reached(j)
  /\ UNCHANGED <<drift, tno, k>>

C_Break ==
  /\ ~drift /\ IsEv("Break") /\ ~ended
  \* dropping a connection that is not in a bucket (any more) does not concern the pool
  /\ IF Ev.c \in Idle THEN Break(Ev.c)
     ELSE UNCHANGED <<cfg, now, poolV, connV, workV, sweepV, ppc, async, breaks, ended, obs>>
  /\ UNCHANGED schedV
  /\ l' = l + 1 /\ UNCHANGED <<drift, tno, k>>
  /\ Reached(l + 1)

C_Clock ==
  /\ ~drift /\ IsEv("Clock") /\ ~ended
  /\ ClockBody /\ now' = Ev.now /\ UNCHANGED schedV
  /\ l' = l + 1 /\ UNCHANGED <<drift, tno, k>>
  /\ Reached(l + 1)

C_End ==
  /\ ~drift /\ IsEv("End") /\ ~ended
  \* (a worker that is idle has simply reached the end of its script)
  /\ \A w \in Workers : wpc[w] = "idle" \/ ~EnWorker(w)
  /\ ~EnSweeper /\ ~EnCloser /\ async = {}
  /\ (ToSet(Ev.hung) = {}) = (Hung = {})
  /\ ended' = TRUE
  /\ obs' = ObsApply(obs, Ev)
  /\ UNCHANGED <<cfg, now, poolV, connV, workV, sweepV, ppc, async, breaks, schedV>>
  /\ l' = l + 1 /\ UNCHANGED <<drift, tno, k>>
  /\ Reached(l + 1)
  /\ Publish(FALSE, obs')

M_Step ==
  /\ drift /\ l <= Len(Trace) /\ Ev.e # "Cfg"
  /\ obs' = ObsApply(obs, Ev)
  /\ l' = l + 1
  /\ UNCHANGED <<cfg, now, poolV, connV, workV, sweepV, ppc, async, breaks, ended, schedV, drift, tno, k>>
  /\ IF Ev.e = "End" THEN Publish(TRUE, obs') ELSE TRUE

TNext == TReset \/ C_Step \/ C_Break \/ C_Clock \/ C_End \/ M_Step
TSpec == TInit /\ [][TNext]_tvars

SeqAt(n) == IF n >= 1 /\ n <= Len(Trace) THEN Trace[n].seq ELSE 0
Post == PrintT(<<"VERDICTS", ToJson({[t |-> r.t, drift |-> r.drift,
                                      driftAt |-> IF r.drift THEN SeqAt(TLCGet(2)[r.k]) ELSE 0,
                                      viol |-> r.viol, dev |-> r.dev] : r \in TLCGet(1)})>>)
=============================================================================
