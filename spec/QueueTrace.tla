----------------------------- MODULE QueueTrace -----------------------------
(***************************************************************************)
(* Trace validation for Queue.tla.  trace.ndjson holds the events recorded *)
(* from the real queue, many traces concatenated; a "Cfg" event starts a  *)
(* new trace.                                                              *)
(*                                                                         *)
(* Every line is consumed either by the matching action of Queue.tla with *)
(* the logged arguments (conformance), or - when no design action can     *)
(* explain it - by the monitor-only step M_Step, which marks the trace as *)
(* drifted and keeps folding the observation state `obs` with exactly the *)
(* same QueueObs operators.  obs.viol therefore depends only on the       *)
(* recorded events, never on whether the design could follow them.        *)
(* The verdict of each trace is published in TLC register 1 when its      *)
(* final "Quiesced" event is consumed.                                    *)
(***************************************************************************)
EXTENDS Queue

Trace == ndJsonDeserialize("trace.ndjson")

VARIABLES l,        \* next line of Trace
          drift,    \* the design could not explain some earlier line of this trace
          driftAt,  \* seq number of the first unexplained line (0 = none)
          tno       \* number of the current trace

tvars == <<vars, l, drift, driftAt, tno>>

Ev == Trace[l]
IsEv(e) == l <= Len(Trace) /\ Ev.e = e
Keep == l' = l + 1 /\ UNCHANGED <<drift, driftAt, tno>>

Publish(d, da, o) ==
  TLCSet(1, TLCGet(1) \cup {[t |-> tno, drift |-> d, driftAt |-> da, viol |-> o.viol]})

TInit ==
  /\ InitWith([partial |-> FALSE, bounce |-> FALSE, nullSender |-> FALSE, mt |-> 1, list |-> <<>>,
               rw |-> {}, utf8 |-> FALSE, enh |-> TRUE])
  /\ l = 1 /\ drift = FALSE /\ driftAt = 0 /\ tno = 0
  /\ TLCSet(1, {})

TReset ==
  /\ IsEv("Cfg")
  /\ LET c == [partial |-> Ev.partial, bounce |-> Ev.bounce, nullSender |-> Ev.nullSender,
               mt |-> Ev.mt, list |-> Ev.list, rw |-> ToSet(Ev.rw), utf8 |-> Ev.utf8, enh |-> Ev.enh] IN
       /\ cfg' = c
       /\ to' = IF "DupRcpt" \in Devs THEN c.list ELSE Dedup(c.list)
  /\ phase' = "accept"
  /\ tries' = [r \in Rcpts |-> 0]
  /\ idx' = 0 /\ accepted' = <<>> /\ errs' = NoErrs /\ failed' = <<>> /\ newTo' = <<>>
  /\ rerr' = NoErrs
  /\ obs' = ObsInit(Rcpts)
  /\ hist' = <<>>
  /\ l' = l + 1 /\ drift' = FALSE /\ driftAt' = 0 /\ tno' = Ev.t

C_QAccept  == IsEv("QAccept") /\ ToSet(Ev.rcpts) = ToSet(cfg.list) /\ QAccept
C_TStart   == IsEv("TStart") /\ TStart(Ev.res)
C_TAddRcpt == IsEv("TAddRcpt") /\ phase = "rcpt" /\ idx <= Len(to) /\ to[idx] = Ev.r /\ TAddRcpt(Ev.res)
C_TBody    == IsEv("TBody") /\ TBody(Ev.res)
C_TBodyNA  == IsEv("TBodyNA") /\ DOMAIN Ev.st = ToSet(accepted) /\ TBodyNA(Ev.st)
C_TCommit  == IsEv("TCommit") /\ TCommit(Ev.res)
C_TAbort   == IsEv("TAbort") /\ (TAbortNoRcpt \/ TAbortAllFailed)
RepOf(e) ==
  [ mimeOK |-> e.mimeOK, reportType |-> e.reportType, parts |-> e.parts, dsnAscii |-> e.dsnAscii,
    returnPath |-> e.from, toSender |-> e.toSender, hasOrigHdr |-> e.hasOrigHdr,
    origSubjOK |-> e.origSubjOK, listed |-> e.rcpts, rewritten |-> ToSet(e.rewritten),
    status |-> e.status, cls |-> e.cls ]
C_Dsn      == /\ IsEv("Dsn") /\ Ev.stage \in BounceStages
              /\ Ev.known = (Ev.stage \notin {"start", "rcpt"})
              \* (an unclassified failure has no scripted status: the design stores the generic 4.0.0, a real client may
              \*  derive a more specific one of the same class - e.g. 4.4.2 for a connection reset in mid-transfer; the
              \*  class is what ReportStatusMismatch checks)
              /\ Ev.known => LET exp == GoodReport(ExpectedReport)
                                  got == [RepOf(Ev) EXCEPT !.dsnAscii = @ \/ cfg.utf8] IN
                              /\ [got EXCEPT !.status = exp.status] = exp
                              /\ DOMAIN got.status = DOMAIN exp.status
                              /\ \A r \in DOMAIN exp.status : rerr[r] = "unspec" \/ got.status[r] = exp.status[r]
              /\ Dsn(Ev.stage)
C_Quiesced == IsEv("Quiesced") /\ Ev.spoolEmpty /\ Quiesce

Conform ==
  \/ C_QAccept \/ C_TStart \/ C_TAddRcpt \/ C_TBody \/ C_TBodyNA
  \/ C_TCommit \/ C_TAbort \/ C_Dsn \/ C_Quiesced

C_Step ==
  /\ ~drift
  /\ Conform
  /\ Keep
  /\ IF Ev.e = "Quiesced" THEN Publish(FALSE, 0, obs') ELSE TRUE

(* the observation fold, independent of the design state *)
ObsApply(o, e) ==
  CASE e.e = "QAccept"  -> ObsAccept(o, ToSet(e.rcpts))
    [] e.e = "TStart"   -> ObsStart(o, e.res, cfg.mt)
    [] e.e = "TAddRcpt" -> ObsAddRcpt(o, e.r, e.res, cfg.mt)
    [] e.e = "TBody"    -> ObsBody(o, e.res)
    [] e.e = "TBodyNA"  -> ObsBodyNA(o, e.st)
    [] e.e = "TCommit"  -> ObsCommit(o, e.res, cfg.mt)
    [] e.e = "TAbort"   -> ObsAbort(o, cfg.mt)
    [] e.e = "Dsn"      -> IF e.known
                           THEN ObsReport(ObsDsn(o, ToSet(e.rcpts), Suppress(cfg)), RepOf(e), cfg.utf8, cfg.enh)
                           ELSE ObsDsn(o, o.owed, Suppress(cfg))
    [] e.e = "Dsn2"     -> V(o, FALSE, "ReportAboutReport")
    [] e.e = "Quiesced" -> ObsQuiesced(o, Suppress(cfg), e.spoolEmpty)
    [] OTHER -> o

M_Step ==
  /\ l <= Len(Trace) /\ Ev.e # "Cfg"
  /\ (drift \/ ~ENABLED Conform)
  /\ drift' = TRUE
  /\ driftAt' = IF drift THEN driftAt ELSE Ev.seq
  /\ obs' = ObsApply(obs, Ev)
  /\ l' = l + 1
  /\ UNCHANGED <<cfg, phase, to, tries, idx, accepted, errs, failed, newTo, rerr, hist, tno>>
  /\ IF Ev.e = "Quiesced" THEN Publish(TRUE, driftAt', obs') ELSE TRUE

TNext == TReset \/ C_Step \/ M_Step
TSpec == TInit /\ [][TNext]_tvars

Post == PrintT(<<"VERDICTS", ToJson(TLCGet(1))>>)
=============================================================================
