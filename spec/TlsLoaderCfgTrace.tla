-------------------------- MODULE TlsLoaderCfgTrace --------------------------
(***************************************************************************)
(* Code -> model for the directive rows of X11.  trace.ndjson holds one    *)
(* "Row" event per row the harness ran through the real code:              *)
(* [t, seq, e |-> "Row", in |-> <row of TlsLoaderCfg.tla>, out |-> [err,   *)
(* starttls, vers, ciph, curv, names, ccert]] (sets as arrays).  For every   *)
(* row TLC evaluates the property predicates on the recorded answer (viol),*)
(* compares it with the documented rule (drift) and lists the sets of open *)
(* deviations whose as-is rule reproduces the answer (devs).               *)
(***************************************************************************)
EXTENDS TlsLoaderCfg

CONSTANT OpenDevs

Rws == ndJsonDeserialize("trace.ndjson")

OutOf(r) == [err |-> r.out.err, starttls |-> r.out.starttls, vers |-> ToSetS(r.out.vers),
             ciph |-> ToSetS(r.out.ciph), curv |-> ToSetS(r.out.curv), names |-> r.out.names, ccert |-> r.out.ccert]
InOf(r) == [scope |-> r.in.scope, mode |-> r.in.mode, protocols |-> r.in.protocols, ciphers |-> r.in.ciphers,
            curves |-> r.in.curves]
DevSets == (SUBSET OpenDevs) \ {{}}
Explains(i, o) == {ds \in DevSets : Same(i, o, RuleWith(i, ds))}
Drift(r) == ~Same(InOf(r), OutOf(r), Rule(InOf(r)))
Bad(r) == Viol(InOf(r), OutOf(r)) # {} \/ Drift(r)
Verdict(r) == [t |-> r.t, drift |-> Drift(r), driftAt |-> r.seq,
               viol |-> Viol(InOf(r), OutOf(r)), devs |-> Explains(InOf(r), OutOf(r))]

Eval ==
  LET bad == {k \in 1..Len(Rws) : Bad(Rws[k])} IN
    [n |-> Len(Rws), accepted |-> Len(Rws) - Cardinality(bad),
     verdicts |-> {Verdict(Rws[k]) : k \in bad}]

TInit == in = <<>> /\ TLCSet(1, Eval)
TNext == UNCHANGED in
TSpec == TInit /\ [][TNext]_in

Post == PrintT(<<"VERDICTS", ToJson(TLCGet(1))>>)
=============================================================================
