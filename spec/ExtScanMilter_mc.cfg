\* exhaustive exploration of the milter scripts (quick: Full = FALSE, RandN = 1500; thorough: Full = TRUE, RandN = 32000); lib/checks/x07.py
SPECIFICATION Spec
CONSTANTS
  MaxRcpt = 2
  Full = FALSE
  Devs = {}
  Gen = FALSE
  Seed = 1
  RandN = 1500
INVARIANTS RuleSatisfiesProp RuleShape
CHECK_DEADLOCK FALSE
