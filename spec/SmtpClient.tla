----------------------------- MODULE SmtpClient -----------------------------
(***************************************************************************)
(* Design specification of maddy's SMTP/LMTP client object (extension      *)
(* X06): internal/smtpconn.C (Connect / ConnectLMTP with the STARTTLS      *)
(* handling, Mail with the SMTPUTF8 / REQUIRETLS / SIZE options gated on   *)
(* the extensions of the next hop, Rcpt, Data, LMTPData, Noop, Close,      *)
(* DirectClose, wrapClientErr) over the go-smtp client, called the way     *)
(* target.smtp, target.lmtp and target.remote call it (Client().Reset()    *)
(* before a connection is reused), against a next hop that may answer      *)
(* every reply slot with any reply class, a multi-line reply, a reply      *)
(* without enhanced code, garbage, a dropped connection or a reply that    *)
(* comes after the client's time-out.                                      *)
(*                                                                         *)
(* One behaviour = a next hop (SMTP or LMTP, set of extensions, usable     *)
(* certificate or not) and a call sequence of the targets' call language   *)
(* (variable tp) with the reply of every slot chosen by the environment.   *)
(* Granularity: one action per observable event -                          *)
(*   Call      the target calls a method (local decisions are taken)        *)
(*   SrvGreet / SrvCmd / SrvContent / SrvDot   the next hop receives what  *)
(*             the client sent and chooses its reply; the client reads a   *)
(*             reply from the stream and reacts (next command or result)   *)
(*   Ret       the method returns                                          *)
(* `w.stream` is the sequence of replies written (or to be written) by the *)
(* next hop and not yet read by the client: the client always reads its    *)
(* head, which is what makes a late reply "shift" every later result.      *)
(*                                                                         *)
(* Deviations (constant Devs):                                             *)
(*   "NoPoisonOnIOError"  after a time-out / garbage / EOF inside Mail,    *)
(*        Rcpt, Data, LMTPData the connection stays in use.                *)
(*   "LmtpHeloFallback"   LHLO refused with 500/502 is followed by HELO.   *)
(*   "CloseKeepsClient"   a failed QUIT leaves Client() non-nil.           *)
(*   "CloseAgainPanics"   Close / DirectClose on an object whose Client()  *)
(*        is nil dereferences nil.                                         *)
(*   "HelloNamePlain"     the configured host name is sent in the EHLO     *)
(*        that precedes a required STARTTLS.                               *)
(***************************************************************************)
EXTENDS SmtpClientObs, TLC, Json

CONSTANTS Lmtps,       \* subset of BOOLEAN: protocols explored
          ExtNames,    \* names of extension sets (see ExtOf)
          Certs,       \* subset of {"valid", "bad"}
          Replies,     \* reply kinds the environment may choose (besides "ok")
          AddrKinds,   \* subset of {"asc", "idn", "nl"}
          OptSets,     \* names of MAIL option sets (see OptOf)
          TlsModes,    \* subset of BOOLEAN: Connect with starttls required
          MaxRcpt, MaxTxn, MaxConn, MaxFaults, MaxAgain,
          FaultAfter,  \* non-ok replies only from reply slot number FaultAfter + 1 on (steers -simulate)
          Devs, Gen

VARIABLES cfg, cl, w, tp, pc, cur, ip, out, res, perr, dsts, nf, lateUsed, devs, obs, hist

vars == <<cfg, cl, w, tp, pc, cur, ip, out, res, perr, dsts, nf, lateUsed, devs, obs, hist>>
View == <<cfg, cl, w, tp, pc, cur, ip, out, res, perr, dsts, nf, lateUsed, devs, obs>>

ExtOf(n) ==
  CASE n = "none" -> {}
    [] n = "utf8" -> {"SMTPUTF8", "8BITMIME", "PIPELINING"}
    [] n = "tls"  -> {"STARTTLS", "SIZE", "CHUNKING"}
    [] n = "all"  -> {"STARTTLS", "SMTPUTF8", "REQUIRETLS", "SIZE", "8BITMIME", "PIPELINING", "CHUNKING", "ENHANCEDSTATUSCODES"}
    [] n = "rtls" -> {"REQUIRETLS", "SMTPUTF8"}

OptOf(n) ==
  CASE n = "none" -> [utf8 |-> FALSE, rtls |-> FALSE, size |-> FALSE]
    [] n = "utf8" -> [utf8 |-> TRUE,  rtls |-> FALSE, size |-> FALSE]
    [] n = "rtls" -> [utf8 |-> FALSE, rtls |-> TRUE,  size |-> TRUE]
    [] n = "all"  -> [utf8 |-> TRUE,  rtls |-> TRUE,  size |-> TRUE]
    [] n = "size" -> [utf8 |-> FALSE, rtls |-> FALSE, size |-> TRUE]

Args(f) == [x \in DOMAIN NoArgs |-> IF x \in DOMAIN f THEN f[x] ELSE NoArgs[x]]

NoCmd == [verb |-> "", hn |-> "", par |-> {}, ak |-> "", an |-> 0]
Cmd(verb) == [verb |-> verb, hn |-> "", par |-> {}, ak |-> "", an |-> 0]
NoRes == [set |-> FALSE, ok |-> TRUE, cls |-> {}, id |-> 0, sts |-> <<>>, panic |-> FALSE]
Ok == [set |-> TRUE, ok |-> TRUE, cls |-> {"ok"}, id |-> 0, sts |-> <<>>, panic |-> FALSE]
Err(cls, id) == [set |-> TRUE, ok |-> FALSE, cls |-> cls, id |-> id, sts |-> <<>>, panic |-> FALSE]
AnyErr == Err({"temp", "perm", "unspec"}, 0)
Panic == [set |-> TRUE, ok |-> FALSE, cls |-> Classes, id |-> 0, sts |-> <<>>, panic |-> TRUE]

H(e) == IF Gen THEN Append(hist, e) ELSE hist
HR(r) == IF Gen /\ hist # <<>> THEN [hist EXCEPT ![Len(hist)].rs = Append(@, r)] ELSE hist

ClInit == [cli |-> FALSE, lm |-> FALSE, ext |-> {}, tls |-> FALSE, nacc |-> 0, copen |-> FALSE]
WInit == [alive |-> FALSE, stream |-> <<>>, nid |-> 0, ndot |-> 0, cn |-> 0]
TpInit == [s |-> "new", nconn |-> 0, ntx |-> 0, nr |-> 0, nok |-> 0, nclose |-> 0, again |-> 0]

InitWith(c) ==
  /\ cfg = c
  /\ cl = ClInit /\ w = WInit /\ tp = TpInit
  /\ pc = "idle" /\ cur = NoCall /\ ip = "" /\ out = NoCmd /\ res = NoRes /\ perr = NoRes /\ dsts = <<>>
  /\ nf = 0 /\ lateUsed = FALSE /\ devs = {}
  /\ obs = ObsInit(c.lmtp, ExtOf(c.ext)) /\ hist = <<>>

Init == \E lm \in Lmtps, e \in ExtNames, ct \in Certs : InitWith([lmtp |-> lm, ext |-> e, cert |-> ct])

(* ---- the client's reaction to what it reads ------------------------------------- *)
(* S = [cl, ip, snd, res, perr, dsts, alive, devs]; x = [k, id, r]                    *)
(*   x.k: "pos" | "neg" | "mism" (a positive reply with another code than the one     *)
(*        the command expects) | "eof" | "timeout" | "garb"                           *)
ErrOf(x) == IF x.k = "neg" THEN Err({ClassOf(x.r)}, x.id)
            ELSE IF x.k = "mism" THEN Err({"perm"}, x.id)
            ELSE Err(NotPerm, 0)
IoFail(x) == x.k \in {"eof", "timeout", "garb"}

Adv(tls) == IF tls THEN ExtOf(cfg.ext) \ {"STARTTLS"} ELSE ExtOf(cfg.ext)
HelloVerb(lm) == IF lm THEN "LHLO" ELSE "EHLO"
(* the name the client introduces itself with: localhost while STARTTLS is still to come *)
Plain(S) == cur.a.tls /\ ~S.cl.tls
HelloCmd(S, verb) == [Cmd(verb) EXCEPT !.hn = IF Plain(S) /\ "HelloNamePlain" \notin Devs THEN "local" ELSE "name"]
Done(S, r) == [S EXCEPT !.snd = NoCmd, !.res = r]
Send(S, c, nip) == [S EXCEPT !.snd = c, !.ip = nip]
CloseConn(S) == [S EXCEPT !.cl.copen = FALSE]
SendHello(S, verb, nip) ==
  [Send(S, HelloCmd(S, verb), nip) EXCEPT !.devs = IF Plain(S) /\ "HelloNamePlain" \in Devs THEN @ \cup {"HelloNamePlain"} ELSE @]

(* an I/O failure inside Mail / Rcpt / Data / LMTPData: the connection is unusable *)
Poison(S, x) ==
  IF ~IoFail(x) THEN S
  ELSE IF "NoPoisonOnIOError" \in Devs
       THEN [S EXCEPT !.devs = IF x.k \in {"timeout", "garb"} THEN @ \cup {"NoPoisonOnIOError"} ELSE @]
       ELSE CloseConn(S)

AfterHello(S) ==
  IF S.cl.tls \/ ~cur.a.tls
  THEN Done([S EXCEPT !.cl.cli = TRUE, !.cl.lm = cur.a.lmtp, !.cl.nacc = 0], Ok)
  ELSE IF "STARTTLS" \notin S.cl.ext
       THEN [Send(S, Cmd("QUIT"), "cquit") EXCEPT !.perr = Err({"unspec"}, 0)]
       ELSE Send(S, Cmd("STARTTLS"), "stls")

LmtpSummary(sts) ==
  LET bad == {i \in 1..Len(sts) : sts[i].cls # "ok"}
  IN IF bad = {} THEN Ok
     ELSE IF Cardinality(bad) = 1 THEN LET i == CHOOSE j \in bad : TRUE IN Err({sts[i].cls}, sts[i].id)
     ELSE Err({"unspec"}, 0)

React(S, x) ==
  CASE S.ip = "greet" ->
         IF x.k = "pos" THEN SendHello(S, HelloVerb(cur.a.lmtp), "hello")
         ELSE Done(CloseConn(S), ErrOf(x))
    [] S.ip = "hello" ->
         IF x.k = "pos" THEN AfterHello([S EXCEPT !.cl.ext = Adv(S.cl.tls)])
         ELSE IF x.k = "neg" /\ x.r \in {"e500", "e502"} /\ (~cur.a.lmtp \/ "LmtpHeloFallback" \in Devs)
              THEN [SendHello(S, "HELO", "helo") EXCEPT !.devs = IF cur.a.lmtp THEN @ \cup {"LmtpHeloFallback"} ELSE @]
         ELSE Done(CloseConn(S), ErrOf(x))
    [] S.ip = "helo" ->
         IF x.k = "pos" THEN AfterHello([S EXCEPT !.cl.ext = {}])
         ELSE Done(CloseConn(S), ErrOf(x))
    [] S.ip = "stls" ->
         IF x.k = "pos"
         THEN IF cfg.cert = "valid" THEN SendHello([S EXCEPT !.cl.tls = TRUE], HelloVerb(cur.a.lmtp), "hello")
              ELSE Done([CloseConn(S) EXCEPT !.alive = FALSE], Err({"unspec"}, 0))
         ELSE [Send(S, Cmd("QUIT"), "cquit") EXCEPT      \* TLSError: the reply is handed on without the 552 -> 452 rewrite
                 !.perr = IF x.k = "neg" /\ x.r = "p552" THEN Err({"perm"}, x.id) ELSE ErrOf(x)]
    [] S.ip = "cquit" -> Done(CloseConn(S), S.perr)
    [] S.ip \in {"mail", "rset", "noop"} ->
         IF x.k = "pos"
         THEN Done(IF S.ip = "rset" THEN [S EXCEPT !.cl.nacc = 0] ELSE S, Ok)
         ELSE IF S.ip = "mail" THEN Done(Poison(S, x), ErrOf(x))
         ELSE Done(S, IF x.k \in {"neg", "mism"} THEN ErrOf(x) ELSE AnyErr)
    [] S.ip = "rcpt" ->
         IF x.k = "pos" THEN Done([S EXCEPT !.cl.nacc = @ + 1], Ok)
         ELSE Done(Poison(S, x), ErrOf(x))
    [] S.ip = "data" ->
         IF x.k = "pos"
         THEN IF cur.a.body = "fail" THEN Done(CloseConn(S), Err(NotPerm, 0))
              ELSE [S EXCEPT !.snd = Cmd("CONTENT"), !.ip = "content"]
         ELSE Done(Poison(S, x), ErrOf(x))
    [] S.ip = "dot" ->
         IF ~S.cl.lm
         THEN IF x.k = "pos" THEN Done(S, Ok) ELSE Done(Poison(S, x), ErrOf(x))
         ELSE IF IoFail(x) \/ x.k = "mism"
              THEN Done(Poison(S, x), [Err(NotPerm, 0) EXCEPT !.sts = IF cur.c = "LData" THEN S.dsts ELSE <<>>])
              ELSE LET st == IF x.k = "pos" THEN [cls |-> "ok", id |-> 0]       \* statuses are handed on without the 552 -> 452 rewrite
                             ELSE [cls |-> IF x.r = "p552" THEN "perm" ELSE ClassOf(x.r), id |-> x.id]
                       ds == Append(S.dsts, st)
                   IN IF Len(ds) < S.cl.nacc THEN [S EXCEPT !.dsts = ds, !.snd = Cmd("DOT")]
                      ELSE IF cur.c = "LData" THEN Done([S EXCEPT !.dsts = ds], [Ok EXCEPT !.sts = ds])
                      ELSE Done([S EXCEPT !.dsts = ds], LmtpSummary(ds))
    [] S.ip = "quit" ->
         LET keep == x.k # "pos" /\ "CloseKeepsClient" \in Devs
         IN Done([CloseConn(S) EXCEPT !.cl.cli = keep,
                                      !.devs = IF keep THEN @ \cup {"CloseKeepsClient"} ELSE @], Ok)

(* ---- reading from the stream ----------------------------------------------------------- *)
ExpCode(p) == CASE p \in {"greet", "stls"} -> "220" [] p = "data" -> "354" [] p \in {"quit", "cquit"} -> "221" [] OTHER -> "250"
SlotCode(verb) == CASE verb \in {"GREET", "STARTTLS"} -> "220" [] verb = "DATA" -> "354" [] verb = "QUIT" -> "221" [] OTHER -> "250"

(* st = [stream, alive]; the client in phase p reads one reply.  A late reply has not     *)
(* arrived for the call during which it was queued, nor for the 5 second wait of Close;   *)
(* an empty stream means waiting until the time-out (or EOF when the peer is gone).       *)
ReadHead(st, p) ==
  IF st.stream = <<>>
  THEN [x |-> [k |-> IF st.alive THEN "timeout" ELSE "eof", id |-> 0, r |-> ""], st |-> st]
  ELSE LET h == Head(st.stream) IN
       IF h.k = "drop"
       THEN [x |-> [k |-> "eof", id |-> 0, r |-> ""], st |-> [stream |-> <<>>, alive |-> FALSE]]
       ELSE IF h.k \in LateK /\ (h.cn = w.cn \/ p = "quit")
       THEN [x |-> [k |-> "timeout", id |-> 0, r |-> ""], st |-> st]
       ELSE LET k == IF h.k = "lok" THEN "ok" ELSE IF h.k = "lp5" THEN "p5" ELSE h.k
                xk == IF k = "garb" THEN "garb"
                      ELSE IF k \in PosNow THEN (IF h.code = ExpCode(p) THEN "pos" ELSE "mism")
                      ELSE "neg"
            IN [x |-> [k |-> xk, id |-> h.id, r |-> k], st |-> [st EXCEPT !.stream = Tail(@)]]

(* run the client until it needs an answer from the next hop or has a result.  Commands  *)
(* written to a connection that is closed or whose peer is gone get no answer; "DOT" is  *)
(* the pseudo-command "read one more reply after the final dot".                          *)
RECURSIVE Settle(_, _)
Settle(S, st) ==
  IF S.snd = NoCmd THEN [S |-> S, st |-> st]
  ELSE IF S.snd.verb = "DOT"
       THEN LET rd == ReadHead(st, S.ip) IN Settle(React([S EXCEPT !.snd = NoCmd], rd.x), rd.st)
  ELSE IF S.cl.copen /\ st.alive /\ S.alive /\ S.snd.verb \notin {"CONTENT", "GREET"} /\ obs.ph = "data"
       (* the next hop is still collecting a message (its 354 came too late): what is sent now is *)
       (* message content to it and gets no answer; the client reads what is in the stream        *)
       THEN LET rd == ReadHead(st, S.ip) IN Settle(React([S EXCEPT !.snd = NoCmd], rd.x), rd.st)
  ELSE IF S.cl.copen /\ st.alive /\ S.alive THEN [S |-> S, st |-> st]
  ELSE Settle(React([S EXCEPT !.snd = NoCmd], [k |-> "eof", id |-> 0, r |-> ""]), st)

St0 == [cl |-> cl, ip |-> ip, snd |-> NoCmd, res |-> NoRes, perr |-> perr, dsts |-> dsts, alive |-> w.alive, devs |-> devs]

(* install the state reached by the client; wv = the wire state after the next hop's step *)
Install(S0, wv) ==
  LET z == Settle(S0, [stream |-> wv.stream, alive |-> wv.alive])
      S == z.S IN
  /\ cl' = S.cl /\ ip' = S.ip /\ perr' = S.perr /\ dsts' = S.dsts /\ devs' = S.devs
  /\ w' = [wv EXCEPT !.alive = S.alive /\ z.st.alive, !.stream = z.st.stream]
  /\ IF S.snd # NoCmd
     THEN /\ out' = S.snd /\ res' = NoRes
          /\ pc' = IF S.snd.verb = "CONTENT" THEN "content" ELSE "srv"
     ELSE /\ out' = NoCmd /\ res' = S.res /\ pc' = "ret"

(* ---- the targets' call language ---------------------------------------------------- *)
Wire(ak, utf8ok) == IF ak = "idn" /\ ~utf8ok THEN "ace" ELSE ak

CallOK(c, a) ==
  CASE c = "Connect" -> /\ tp.s = "new" /\ tp.nconn < MaxConn
                        /\ a = Args([lmtp |-> cfg.lmtp, tls |-> a.tls, dial |-> a.dial])
                        /\ a.tls \in TlsModes /\ a.dial \in {"ok", "fail"} /\ (a.dial = "fail" => nf < MaxFaults)
    [] c = "Mail"    -> /\ tp.s = "idle" /\ tp.ntx < MaxTxn
                        /\ \E o \in OptSets, k \in AddrKinds :
                              /\ a = Args([ak |-> k, utf8 |-> OptOf(o).utf8, rtls |-> OptOf(o).rtls, size |-> OptOf(o).size])
                              /\ (k \in NonAscii => OptOf(o).utf8)
    [] c = "Rcpt"    -> /\ tp.s = "txn" /\ tp.nr < MaxRcpt
                        /\ \E k \in AddrKinds : a = Args([ak |-> k, an |-> tp.nr + 1])
    [] c \in {"Data", "LData"} ->
                        /\ tp.s = "txn" /\ tp.nok >= 1
                        /\ (c = "LData" => cfg.lmtp)
                        /\ \E b \in {"ok", "fail"} : a = Args([body |-> b]) /\ (b = "fail" => nf < MaxFaults)
    [] c = "Reset"   -> /\ tp.s \in {"txn", "sentok"} /\ ~cfg.lmtp /\ a = NoArgs
    [] c = "Noop"    -> /\ a = NoArgs
                        /\ tp.again < MaxAgain
                        /\ \/ tp.s = "idle"
                           \/ tp.s = "new" /\ tp.nclose >= 1
    [] c = "Close"   -> /\ a = NoArgs
                        /\ \/ tp.s \in {"idle", "txn", "sentok", "sent", "must"}
                           \/ tp.s = "new" /\ tp.nclose >= 1 /\ tp.again < MaxAgain
    [] c = "DirectClose" -> /\ a = NoArgs
                            /\ \/ tp.s = "idle"
                               \/ tp.s = "new" /\ tp.nclose >= 1 /\ tp.again < MaxAgain
    [] OTHER -> FALSE

Call(c, a) ==
  /\ pc = "idle" /\ CallOK(c, a)
  /\ cur' = [c |-> c, a |-> a]
  /\ obs' = ObsCall(obs, c, a)
  /\ hist' = H([c |-> c, a |-> a, rs |-> <<>>])
  /\ lateUsed' = (IF c = "Connect" THEN FALSE ELSE lateUsed)
  /\ nf' = IF (c = "Connect" /\ a.dial = "fail") \/ (c \in {"Data", "LData"} /\ a.body = "fail") THEN nf + 1 ELSE nf
  /\ tp' = IF (tp.s = "new" /\ c # "Connect") \/ c = "Noop" THEN [tp EXCEPT !.again = @ + 1] ELSE tp
  /\ UNCHANGED cfg
  /\ LET S0 == [St0 EXCEPT !.dsts = <<>>, !.perr = NoRes]
         wc == [w EXCEPT !.cn = @ + 1] IN
     CASE c = "Connect" ->
            IF a.dial = "fail" THEN Install(Done(S0, Err({"temp"}, 0)), wc)
            ELSE Install([S0 EXCEPT !.cl.copen = TRUE, !.cl.tls = FALSE, !.cl.ext = {}, !.alive = TRUE,
                                    !.snd = Cmd("GREET"), !.ip = "greet"],
                         [wc EXCEPT !.alive = TRUE, !.stream = <<>>])
       [] c = "Mail" ->
            LET u8 == "SMTPUTF8" \in cl.ext
                par == (IF "8BITMIME" \in cl.ext THEN {"BODY=8BITMIME"} ELSE {})
                       \cup (IF a.size /\ "SIZE" \in cl.ext THEN {"SIZE"} ELSE {})
                       \cup (IF a.rtls THEN {"REQUIRETLS"} ELSE {})
                       \cup (IF a.utf8 /\ u8 THEN {"SMTPUTF8"} ELSE {})
            IN IF a.utf8 /\ ~u8 /\ a.ak = "nl" THEN Install(Done(S0, Err({"perm"}, 0)), wc)
               ELSE IF a.rtls /\ "REQUIRETLS" \notin cl.ext THEN Install(Done(S0, Err({"unspec"}, 0)), wc)
               ELSE Install(Send(S0, [verb |-> "MAIL", hn |-> "", par |-> par, ak |-> Wire(a.ak, u8), an |-> 0], "mail"), wc)
       [] c = "Rcpt" ->
            LET u8 == "SMTPUTF8" \in cl.ext
            IN IF a.ak = "nl" /\ ~u8 THEN Install(Done(S0, Err({"perm"}, 0)), wc)
               ELSE Install(Send(S0, [verb |-> "RCPT", hn |-> "", par |-> {}, ak |-> Wire(a.ak, u8), an |-> a.an], "rcpt"), wc)
       [] c \in {"Data", "LData"} -> Install(Send(S0, Cmd("DATA"), "data"), wc)
       [] c = "Reset" -> IF ~cl.cli THEN Install(Done(S0, AnyErr), wc) ELSE Install(Send(S0, Cmd("RSET"), "rset"), wc)
       [] c = "Noop"  -> IF ~cl.cli THEN Install(Done(S0, AnyErr), wc) ELSE Install(Send(S0, Cmd("NOOP"), "noop"), wc)
       [] c = "Close" ->
            IF ~cl.cli
            THEN IF "CloseAgainPanics" \in Devs
                 THEN Install(Done([S0 EXCEPT !.devs = @ \cup {"CloseAgainPanics"}], Panic), wc)
                 ELSE Install(Done(S0, Ok), wc)
            ELSE Install(Send(S0, Cmd("QUIT"), "quit"), wc)
       [] c = "DirectClose" ->
            IF ~cl.cli
            THEN IF "CloseAgainPanics" \in Devs
                 THEN Install(Done([S0 EXCEPT !.devs = @ \cup {"CloseAgainPanics"}], Panic), wc)
                 ELSE Install(Done(S0, Ok), wc)
            ELSE Install(Done([CloseConn(S0) EXCEPT !.cl.cli = FALSE], Ok), wc)

(* ---- the next hop ------------------------------------------------------------------- *)
(* reply kinds the environment may choose for a slot *)
SlotChoices(verb) ==
  LET base == Replies \cup {"ok"}
      k1 == IF verb \in {"EHLO", "LHLO", "HELO"} THEN base \ {"okm", "extra"} ELSE base \ {"e500", "e502", "extra"}
      k2 == IF verb = "DOT" /\ cfg.lmtp /\ Len(SlotsOf(obs, {"DOT"})) + 1 = w.ndot THEN k1 \cup (Replies \cap {"extra"}) ELSE k1
      k2b == IF verb = "STARTTLS" THEN k2 \ {"lok"} ELSE k2      \* a late 220 leaves the next hop waiting for a TLS hello: not modelled
      k3 == IF lateUsed THEN k2b \ (LateK \cup {"drop", "garb"}) ELSE k2b
  IN {r \in k3 : r = "ok" \/ (nf < MaxFaults /\ w.nid >= FaultAfter)}

InOrder(verb) ==
  CASE verb = "MAIL" -> obs.ph = "ready"
    [] verb = "RCPT" -> obs.ph \in {"mail", "rcpt"}
    [] verb = "DATA" -> obs.ph = "rcpt"
    [] verb = "STARTTLS" -> ~obs.tls /\ "STARTTLS" \in ExtOf(cfg.ext)
    [] OTHER -> TRUE

Entry(verb, id, r) == [id |-> id, k |-> r, code |-> SlotCode(verb), cn |-> w.cn]

Budget(r) ==
  /\ nf' = IF r = "ok" THEN nf ELSE nf + 1
  /\ lateUsed' = (lateUsed \/ r \in LateK)

(* the next hop queues its reply, the client reads the head of the stream and reacts *)
Answer(verb, id, r, closes) ==
  LET st == [stream |-> Append(w.stream, Entry(verb, id, r)), alive |-> w.alive]
      rd == ReadHead(st, ip)
      al == rd.st.alive /\ ~closes /\ ~(\E i \in 1..Len(rd.st.stream) : rd.st.stream[i].k = "drop")
  IN Install(React([St0 EXCEPT !.alive = al], rd.x), [w EXCEPT !.nid = id, !.stream = rd.st.stream, !.alive = al])

SrvGreet(id, r) ==
  /\ pc = "srv" /\ out.verb = "GREET" /\ id = w.nid + 1 /\ r \in SlotChoices("GREET")
  /\ obs' = ObsGreet(obs, id, r)
  /\ Answer("GREET", id, r, FALSE)
  /\ Budget(r) /\ hist' = HR(r)
  /\ UNCHANGED <<cfg, tp, cur>>

SrvCmd(verb, hn, par, ak, an, id, r, tls) ==
  /\ pc = "srv" /\ out.verb \notin {"GREET", "CONTENT", "DOT"}
  /\ verb = out.verb /\ hn = out.hn /\ par = out.par /\ ak = out.ak /\ an = out.an /\ tls = cl.tls /\ id = w.nid + 1
  /\ IF InOrder(verb) THEN r \in SlotChoices(verb) ELSE r = "seq"
  /\ obs' = ObsCmd(obs, [verb |-> verb, hn |-> hn, par |-> par, ak |-> ak, an |-> an, id |-> id, r |-> r, tls |-> tls])
  /\ Answer(verb, id, r, verb = "QUIT" /\ r \in SrvPos)      \* the next hop closes after its 221
  /\ IF InOrder(verb) THEN Budget(r) /\ hist' = HR(r) ELSE UNCHANGED <<nf, lateUsed, hist>>
  /\ UNCHANGED <<cfg, tp, cur>>

SrvContent(full) ==
  /\ pc = "content" /\ full = TRUE
  /\ obs' = ObsContent(obs, full)
  /\ pc' = "dot"
  /\ w' = [w EXCEPT !.ndot = IF cfg.lmtp THEN obs.nacc ELSE 1]
  /\ UNCHANGED <<cfg, cl, tp, cur, ip, out, res, perr, dsts, nf, lateUsed, devs, hist>>

(* the next hop answers every slot after the final dot at once (one per recipient it   *)
(* accepted for LMTP); the client then reads as many replies as it expects             *)
SrvDot(i, id, r) ==
  /\ pc = "dot" /\ i = Len(SlotsOf(obs, {"DOT"})) + 1 /\ i <= w.ndot /\ id = w.nid + 1 /\ r \in SlotChoices("DOT")
  /\ obs' = ObsDot(IF r = "extra" THEN ObsDot(obs, i, id, r) ELSE obs, IF r = "extra" THEN i + 1 ELSE i,
                   IF r = "extra" THEN id + 1 ELSE id, IF r = "extra" THEN "ok" ELSE r)
  /\ LET s1 == Append(w.stream, Entry("DOT", id, r))
         s2 == IF r = "extra" THEN Append(s1, Entry("DOT", id + 1, "ok")) ELSE s1
         wv == [w EXCEPT !.nid = IF r = "extra" THEN id + 1 ELSE id, !.stream = s2]
     IN IF i = w.ndot \/ r = "drop"
        THEN Install([St0 EXCEPT !.snd = Cmd("DOT"), !.ip = "dot"], wv)
        ELSE /\ w' = wv
             /\ UNCHANGED <<cl, pc, ip, out, res, perr, dsts, devs>>
  /\ Budget(r) /\ hist' = HR(r)
  /\ UNCHANGED <<cfg, tp, cur>>

(* ---- return --------------------------------------------------------------------------- *)
(* r = [cls, id, sts, panic, hung, dur, connected, open] as observed *)
NextTp(ok) ==
  LET c == cur.c IN
  CASE c = "Connect" -> IF ok THEN [tp EXCEPT !.s = "idle", !.nconn = @ + 1] ELSE [tp EXCEPT !.nconn = @ + 1]
    [] c = "Mail"    -> IF ok THEN [tp EXCEPT !.s = "txn", !.ntx = @ + 1, !.nr = 0, !.nok = 0] ELSE [tp EXCEPT !.s = "must", !.ntx = @ + 1]
    [] c = "Rcpt"    -> [tp EXCEPT !.nr = @ + 1, !.nok = IF ok THEN @ + 1 ELSE @]
    [] c \in {"Data", "LData"} -> [tp EXCEPT !.s = IF ok /\ ~cfg.lmtp THEN "sentok" ELSE "sent"]
    [] c = "Reset"   -> [tp EXCEPT !.s = IF ok THEN "idle" ELSE "must"]
    [] c = "Noop"    -> IF ok \/ tp.s = "new" THEN tp ELSE [tp EXCEPT !.s = "must"]
    [] c \in {"Close", "DirectClose"} -> [tp EXCEPT !.s = "new", !.nclose = @ + 1]

Ret(r) ==
  /\ pc = "ret" /\ res.set
  /\ r.panic = res.panic /\ ~r.hung
  /\ (~res.panic /\ cur.c \notin {"Close", "DirectClose"}) =>
                   /\ (r.cls = "ok") = res.ok
                   /\ r.cls \in res.cls \/ cur.c \in {"Reset", "Noop"}
                   /\ (r.cls # "ok" /\ cur.c \notin {"Close", "DirectClose"}) => r.id = res.id
                   /\ Len(r.sts) = Len(res.sts)
                   /\ \A i \in 1..Len(res.sts) : r.sts[i].cls = res.sts[i].cls /\ r.sts[i].id = res.sts[i].id
  /\ (cur.c \in {"Close", "DirectClose"} /\ ~res.panic) => (r.connected = cl.cli /\ r.open = cl.copen)
  /\ (cur.c = "Connect" /\ ~res.ok) => r.open = cl.copen
  /\ cur.c = "Close" => r.dur <= 6
  /\ obs' = [ObsRet(obs, r) EXCEPT !.ph = IF r.open THEN @ ELSE "none"]
  /\ tp' = NextTp(res.ok /\ ~res.panic)
  /\ pc' = "idle" /\ cur' = NoCall /\ res' = NoRes /\ out' = NoCmd /\ ip' = ""
  /\ UNCHANGED <<cfg, cl, w, perr, dsts, nf, lateUsed, devs, hist>>

(* what the design predicts for the return of the call in progress (model checking) *)
Predicted ==
  LET dots == SlotsOf(obs, {"DOT"}) IN
  { [cls |-> c, code |-> 0, id |-> IF c = "ok" THEN 0 ELSE res.id,
     sts |-> [i \in 1..Len(res.sts) |-> [ak |-> IF i <= Len(obs.accw) THEN obs.accw[i].ak ELSE "", an |-> IF i <= Len(obs.accw) THEN obs.accw[i].an ELSE 0,
                                          cls |-> res.sts[i].cls, id |-> res.sts[i].id]],
     panic |-> res.panic, hung |-> FALSE, dur |-> 0, connected |-> cl.cli, open |-> cl.copen] :
    c \in IF res.panic THEN {"ok"} ELSE IF res.ok THEN {"ok"} ELSE res.cls }

Finish ==
  /\ pc = "idle" /\ tp.s = "new" /\ tp.nconn >= 1
  /\ pc' = "fin"
  /\ obs' = ObsEnd(obs, cl.copen)
  /\ IF Gen THEN PrintT(<<"BEH", ToJson([cfg |-> [lmtp |-> cfg.lmtp, ext |-> ExtOf(cfg.ext), extn |-> cfg.ext, cert |-> cfg.cert], steps |-> hist])>>)
     ELSE TRUE
  /\ UNCHANGED <<cfg, cl, w, tp, cur, ip, out, res, perr, dsts, nf, lateUsed, devs, hist>>

CallArgs ==
  {Args([lmtp |-> cfg.lmtp, tls |-> t, dial |-> d]) : t \in TlsModes, d \in {"ok", "fail"}}
  \cup {Args([ak |-> k, utf8 |-> OptOf(o).utf8, rtls |-> OptOf(o).rtls, size |-> OptOf(o).size]) : k \in AddrKinds, o \in OptSets}
  \cup {Args([ak |-> k, an |-> n]) : k \in AddrKinds, n \in 1..MaxRcpt}
  \cup {Args([body |-> b]) : b \in {"ok", "fail"}}
  \cup {NoArgs}

Calls == {"Connect", "Mail", "Rcpt", "Data", "LData", "Reset", "Noop", "Close", "DirectClose"}

Next ==
  \/ (pc = "idle" /\ \E c \in Calls, a \in CallArgs : Call(c, a))
  \/ (pc = "srv" /\ out.verb = "GREET" /\ \E r \in SlotChoices("GREET") : SrvGreet(w.nid + 1, r))
  \/ (pc = "srv" /\ out.verb \notin {"GREET", "CONTENT", "DOT"} /\
        \E r \in SlotChoices(out.verb) \cup {"seq"} : SrvCmd(out.verb, out.hn, out.par, out.ak, out.an, w.nid + 1, r, cl.tls))
  \/ SrvContent(TRUE)
  \/ (pc = "dot" /\ \E r \in SlotChoices("DOT") : SrvDot(Len(SlotsOf(obs, {"DOT"})) + 1, w.nid + 1, r))
  \/ (pc = "ret" /\ \E r \in Predicted : Ret(r))
  \/ Finish
  \/ (pc = "fin" /\ ~Gen /\ UNCHANGED vars)

Spec == Init /\ [][Next]_vars

NoViolation == obs.viol = {}
TypeOK == /\ pc \in {"idle", "srv", "content", "dot", "ret", "fin"}
          /\ nf \in 0..MaxFaults
          /\ Len(w.stream) <= MaxRcpt + 4
=============================================================================
