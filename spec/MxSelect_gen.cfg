\* reference configuration: behaviour generation (lib/checks/x16.py: "gen-order", quick); prints one BEH line per complete behaviour
SPECIFICATION Spec
CONSTANTS
  Domains = {"d1"}
  FactSet <- FactsPairs
  Outs <- AllOuts
  MailRs = {"ok", "m4", "m5", "mdrop"}
  RcptRs = {"ok", "r5"}
  DotRs = {"ok", "d4"}
  Lps <- Lps1
  WithNoDom = FALSE
  MaxDeliv = 1
  Devs = {"UnspecAsPerm", "ResolverDownAsPerm", "IdnRawQuestion"}
  Gen = TRUE
CHECK_DEADLOCK FALSE
