-------------------------- MODULE SaslDelegateTrace --------------------------
(***************************************************************************)
(* Code -> model for X09 (decision tables).  trace.ndjson holds one "Row"  *)
(* event per input row the harness ran through the real                    *)
(* auth.plain_separate / auth.external / auth.shadow modules:              *)
(*   [t, seq, e |-> "Row", in |-> <row of SaslDelegate.tla>, out |-> ...]  *)
(* For every row TLC evaluates the property predicates on the recorded     *)
(* output (viol), compares it with the documented procedure (drift) and    *)
(* lists the sets of deviations of the open findings (OpenDevs) whose      *)
(* as-is procedure reproduces the output exactly (devs).                   *)
(***************************************************************************)
EXTENDS SaslDelegate

CONSTANT OpenDevs

Rows == ndJsonDeserialize("trace.ndjson")
tvars == <<in>>
DevSets == (SUBSET OpenDevs) \ {{}}
Bad(r) == Viol(r.in, r.out) # {} \/ ~SameOut(r.out, Rule(r.in))
Verdict(r) == [t |-> r.t, drift |-> ~SameOut(r.out, Rule(r.in)), driftAt |-> r.seq,
               viol |-> Viol(r.in, r.out), devs |-> Explains(DevSets, r.in, r.out)]
Eval ==
  LET bad == {k \in 1..Len(Rows) : Bad(Rows[k])} IN
    [n |-> Len(Rows), accepted |-> Len(Rows) - Cardinality(bad), verdicts |-> {Verdict(Rows[k]) : k \in bad}]
TInit == in = <<>> /\ TLCSet(1, Eval)
TNext == UNCHANGED tvars
TSpec == TInit /\ [][TNext]_tvars
Post == PrintT(<<"VERDICTS", ToJson(TLCGet(1))>>)
=============================================================================
