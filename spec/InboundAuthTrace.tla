-------------------------- MODULE InboundAuthTrace --------------------------
(***************************************************************************)
(* Code -> model for X03.  trace.ndjson holds one "Row" event per input    *)
(* row the harness ran through the real check.spf / check.dkim modules in  *)
(* a real message pipeline:                                                 *)
(*   [t, seq, e |-> "Row", in |-> <input of InboundAuth.tla>,               *)
(*    out |-> [cfg, stage, class, code, enh, ar, ...]]                      *)
(* For every row TLC evaluates the property predicates of InboundAuth.tla  *)
(* on the recorded output (viol = names of the false ones), compares the   *)
(* output with the documented rule (drift) and, for the deviations of the  *)
(* open extension findings (OpenDevs), lists the sets of deviations whose  *)
(* as-is rule reproduces the output exactly (devs).  Only rows that are    *)
(* not plainly accepted are listed; n / accepted are the counts.           *)
(***************************************************************************)
EXTENDS InboundAuth

CONSTANT OpenDevs

Rows == ndJsonDeserialize("trace.ndjson")

tvars == <<in>>

OutOf(r) == [cfg |-> r.out.cfg, stage |-> r.out.stage, class |-> r.out.class, code |-> r.out.code,
             enh |-> r.out.enh, ar |-> r.out.ar]
DevSets == (SUBSET OpenDevs) \ {{}}
Drift(r) == ~SameOut(r.in, OutOf(r), Rule(r.in))
Bad(r) == Viol(r.in, OutOf(r)) # {} \/ Drift(r)
Verdict1(r) == [t |-> r.t, drift |-> Drift(r), driftAt |-> r.seq,
                viol |-> Viol(r.in, OutOf(r)),
                devs |-> Explains(DevSets, r.in, OutOf(r))]

Eval ==
  LET bad == {k \in 1..Len(Rows) : Bad(Rows[k])} IN
    [n |-> Len(Rows), accepted |-> Len(Rows) - Cardinality(bad),
     verdicts |-> {Verdict1(Rows[k]) : k \in bad}]

TInit == in = <<>> /\ TLCSet(1, Eval)
TNext == UNCHANGED tvars
TSpec == TInit /\ [][TNext]_tvars

Post == PrintT(<<"VERDICTS", ToJson(TLCGet(1))>>)
=============================================================================
