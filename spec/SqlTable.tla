------------------------------ MODULE SqlTable ------------------------------
(***************************************************************************)
(* Design of the mutable SQL tables (extension X15, pattern A): one row    *)
(* per key in a table with a unique key column, one action per call of     *)
(* module.MutableTable / MultiTable.  The environment chooses the calls.   *)
(* The property predicates are in SqlTableObs.tla (obs is folded from the  *)
(* recorded calls and results only); NoViolation is checked exhaustively.  *)
(*                                                                         *)
(* cfg: how the table is configured -                                      *)
(*   "T"   table.sql_table (sqlite3; generated queries)                    *)
(*   "TC"  table.sql_table with table_name / key_column / value_column     *)
(*   "QN"  table.sql_query, named_args yes, the queries of sql_query.md    *)
(*         with :key / :value                                              *)
(*   "QD"  the same without a named_args line (documented default: yes)    *)
(*   "QP"  table.sql_query, named_args no, numbered parameters ?1 / ?2     *)
(* pal: which concrete strings the tokens of Strs stand for (harness).     *)
(*                                                                         *)
(* Deviation of HEAD: "NamedArgsDefaultNo" - named_args defaults to no, so *)
(* with "QD" the arguments are bound by position: in                       *)
(* `UPDATE t SET value = :value WHERE key = :key` the first parameter is   *)
(* :value and gets the key, the second is :key and gets the value.  SetKey *)
(* of an existing key changes nothing (or the value of the row whose key   *)
(* is the new value) and reports success.                                  *)
(***************************************************************************)
EXTENDS SqlTableObs, TLC, Json

CONSTANTS Cfgs, Pals, MaxSteps, Ops, Devs, Gen

VARIABLES cfg, pal, m, n, done, last, obs, hist

dvars == <<cfg, pal, m, n, done>>
vars == <<dvars, last, obs, hist>>
View == <<cfg, m, n, done, obs>>

H(e) == IF Gen THEN Append(hist, e) ELSE hist
Emit(e) == last' = e /\ hist' = H(e) /\ obs' = ObsEv(obs, e)

Init ==
  /\ cfg \in Cfgs /\ pal \in Pals
  /\ m = EmptyMap /\ n = 0 /\ done = FALSE
  /\ last = [a |-> "Cfg"] /\ obs = ObsInit /\ hist = <<>>

Swapped == cfg = "QD" /\ "NamedArgsDefaultNo" \in Devs

SetKey(k, v) ==
  /\ m' = IF m[k] = None THEN [m EXCEPT ![k] = v]                      \* 'add'
          ELSE IF ~Swapped THEN [m EXCEPT ![k] = v]                    \* 'add' fails (unique key), 'set'
          ELSE IF m[v] # None THEN [m EXCEPT ![v] = k] ELSE m          \* UPDATE .. SET value = <k> WHERE key = <v>
  /\ Emit([a |-> "Set", k |-> k, v |-> v, res |-> "ok"])
RemoveKey(k) ==
  /\ m' = [m EXCEPT ![k] = None]
  /\ Emit([a |-> "Remove", k |-> k, res |-> "ok"])
Lookup(k) ==
  /\ UNCHANGED m
  /\ Emit([a |-> "Lookup", k |-> k, val |-> IF m[k] = None THEN "" ELSE m[k], ok |-> m[k] # None, res |-> "ok"])
LookupMulti(k) ==
  /\ UNCHANGED m
  /\ Emit([a |-> "LookupMulti", k |-> k, vs |-> IF m[k] = None THEN <<>> ELSE <<m[k]>>, res |-> "ok"])
KeysOp ==
  /\ UNCHANGED m
  /\ Emit([a |-> "Keys", ks |-> SetToSeq(Present(m)), res |-> "ok"])        \* the order of the list is free
Reopen ==       \* Close and a new instance over the same database
  /\ UNCHANGED m
  /\ Emit([a |-> "Reopen", res |-> "ok"])

Act ==
  \/ "Set" \in Ops /\ \E k \in Strs, v \in Strs : SetKey(k, v)
  \/ "Remove" \in Ops /\ \E k \in Strs : RemoveKey(k)
  \/ "Lookup" \in Ops /\ \E k \in Strs : Lookup(k)
  \/ "LookupMulti" \in Ops /\ \E k \in Strs : LookupMulti(k)
  \/ "Keys" \in Ops /\ KeysOp
  \/ "Reopen" \in Ops /\ Reopen

Step == ~done /\ n < MaxSteps /\ Act /\ n' = n + 1 /\ UNCHANGED <<cfg, pal, done>>

\* a generated behaviour ends with a complete probe of the table (the harness appends it: Keys and a Lookup of every string)
End ==
  /\ ~done /\ (Gen => n = MaxSteps \/ obs.viol # {})
  /\ done' = TRUE /\ UNCHANGED <<cfg, pal, m, n, obs>>
  /\ last' = [a |-> "End"] /\ hist' = hist
  /\ IF Gen THEN PrintT(<<"BEH", ToJson([cfg |-> cfg, pal |-> pal, hist |-> hist, viol |-> obs.viol])>>) ELSE TRUE

Next == Step \/ End \/ (done /\ UNCHANGED vars)
Spec == Init /\ [][Next]_vars

NoViolation == obs.viol = {}
TypeOK == /\ m \in [Strs -> Strs \cup {None}] /\ n \in 0..MaxSteps /\ done \in BOOLEAN
          /\ obs.m \in [Strs -> Strs \cup {None}]
\* the design is the map the calls describe
DesignIsTheMap == Devs = {} => m = obs.m
=============================================================================
