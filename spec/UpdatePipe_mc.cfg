SPECIFICATION Spec
CONSTANTS
  Medium = "unix"
  Procs = {"s", "c1", "c2"}
  Lst = {"s"}
  MaxPush = 1
  SrvPush = 1
  ChanCap = 0
  MaxBad = 0
  MaxBig = 0
  MaxCrash = 0
  MaxClose = 1
  Sizes = {"s"}
  Keys = {1}
  First = "c1"
  Second = "c2"
  LateClose = TRUE
  Devs = {}
  Gen = FALSE
VIEW View
INVARIANTS NoViolation TypeOK OwnerAgrees WaitersAgree
CHECK_DEADLOCK FALSE
