SPECIFICATION TSpec
CONSTANTS
  NChecks = 4
  MaxRcpts = 3
  MaxNonNone = 0
  MaxScopes = 4
  Dmarcs = {"off", "none", "quar", "rej"}
  Vias = {"p", "psp", "sp", "suborg", "subown", "upper"}
  EarlyOn = TRUE
  DupOn = TRUE
  ExtraV = {"rq", "rqp"}
  Only1On = TRUE
  WithRemote = TRUE
  Froms = {"addr"}
  Kinds = {"pipe", "rpipe", "qpipe"}
  ModOn = TRUE
  Lazy = TRUE
  Devs = {"NABody", "BodyPerScope", "ReplayRejectLeaks", "DupAfterReject"}
  Gen = FALSE
  MaxDelay = 0
CHECK_DEADLOCK FALSE
POSTCONDITION Post
