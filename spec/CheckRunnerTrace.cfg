SPECIFICATION TSpec
CONSTANTS
  NChecks = 4
  MaxRcpts = 3
  MaxNonNone = 0
  MaxScopes = 4
  Dmarcs = {"off", "quar"}
  ExtraV = {"rq", "rqp"}
  Only1On = TRUE
  WithRemote = TRUE
  Froms = {"addr"}
  Kinds = {"pipe", "rpipe", "qpipe"}
  ModOn = TRUE
  Lazy = TRUE
  Devs = {"NABody", "BodyPerScope", "ReplayRejectLeaks"}
  Gen = FALSE
  MaxDelay = 0
CHECK_DEADLOCK FALSE
POSTCONDITION Post
