--------------------------- MODULE TlsLoaderTrace ---------------------------
(***************************************************************************)
(* Trace validation for TlsLoader.tla.  trace.ndjson holds the events      *)
(* recorded from the real tls.loader.file behind the real `tls` directive, *)
(* many traces concatenated; a "Cfg" event starts a new trace.             *)
(*                                                                         *)
(* Every line is consumed either by the design action of that name with    *)
(* the logged arguments and results (conformance; a "Look" line must show  *)
(* exactly the certificates, parked threads, pending hook calls, state of  *)
(* Close and log flag of the design state), or - when no design action     *)
(* explains it - by the monitor-only step M_Step, which marks the trace as *)
(* drifted and keeps folding the observation state with the same           *)
(* TlsLoaderObs operators.  obs.viol depends only on the recorded events.  *)
(***************************************************************************)
EXTENDS TlsLoader

Trace == ndJsonDeserialize("trace.ndjson")

VARIABLES l, drift, driftAt, tno

tvars == <<vars, l, drift, driftAt, tno>>

Ev == Trace[l]
IsEv(e) == l <= Len(Trace) /\ Ev.e = e
Keep == l' = l + 1 /\ UNCHANGED <<drift, driftAt, tno>>

Publish(d, da, o, du) ==
  TLCSet(1, TLCGet(1) \cup {[t |-> tno, drift |-> d, driftAt |-> da, viol |-> o.viol, devs |-> du]})

DiskOf(d) == [f \in Files |-> C(d[f])]

TInit ==
  /\ InitWith([f \in Files |-> NoC])
  /\ l = 1 /\ drift = FALSE /\ driftAt = 0 /\ tno = 0
  /\ TLCSet(1, {})

TReset ==
  /\ IsEv("Cfg") /\ Ev.NPairs = NPairs
  /\ LET d == DiskOf(Ev.disk) IN disk' = d /\ obs' = ObsInit(d)
  /\ now' = 0 /\ nver' = 100 /\ nkey' = 100
  /\ dep' = [i \in Pairs |-> NoDep]
  /\ life' = "new" /\ pc' = [th \in Ths |-> "idle"] /\ pos' = [th \in Ths |-> 1]
  /\ acc' = [th \in Ths |-> <<>>] /\ cur' = [th \in Ths |-> NoC] /\ certs' = <<>>
  /\ tickPending' = FALSE /\ closing' = "no" /\ fp' = 0 /\ lg' = FALSE
  /\ envLeft' = MaxEnv /\ forceLeft' = MaxForce /\ devUsed' = {} /\ done' = FALSE
  /\ last' = [a |-> "Cfg"] /\ hist' = <<>>
  /\ l' = l + 1 /\ drift' = FALSE /\ driftAt' = 0 /\ tno' = Ev.t

\* an edit of the environment is taken as recorded (the writer's discipline is the generator's business)
C_Put ==
  /\ ~drift /\ IsEv("EPut") /\ life \in {"run", "stopped"} /\ ~done /\ Ev.f \in Files
  /\ disk' = [disk EXCEPT ![Ev.f] = C(Ev.c)]
  /\ lg' = FALSE
  /\ last' = [a |-> "EPut"]
  /\ obs' = ObsEv(obs, "EPut", Ev)
  /\ UNCHANGED <<now, nver, nkey, dep, life, pc, pos, acc, cur, certs, tickPending, closing, fp,
                 envLeft, forceLeft, devUsed, done, hist>>
  /\ Keep

\* the recorded step is the design action of that name with the recorded arguments and results
MatchEv(e) == \A f \in (DOMAIN e \ {"a", "d"}) : f \in DOMAIN Ev /\ e[f] = (IF f = "c" THEN C(Ev[f]) ELSE Ev[f])
Conform ==
  /\ l <= Len(Trace) /\ Ev.e \notin {"Cfg", "Look", "EPut"}
  /\ Act /\ last'.a = Ev.e /\ MatchEv(last')

LookRec(e) == [sv |-> [s \in SNIs |-> e.sv[s]], parked |-> [th \in Ths |-> e.parked[th]],
               fp |-> e.fp, cl |-> e.cl, lg |-> e.lg, pan |-> e.pan]
Now == LookOf(certs, pc, pos, fp, closing, lg)

C_Look ==
  /\ ~drift /\ IsEv("Look")
  /\ Now = LookRec(Ev)
  /\ obs' = ObsLook(obs, LookRec(Ev))
  /\ UNCHANGED <<dvars, last, hist>>
  /\ Keep

C_Step ==
  /\ ~drift
  /\ Conform
  /\ obs' = ObsEv(obs, Ev.e, Ev)
  /\ Keep
  /\ IF Ev.e = "End" THEN Publish(FALSE, 0, obs', devUsed') ELSE TRUE

Explained == IF IsEv("Look") THEN Now = LookRec(Ev)
             ELSE IF IsEv("EPut") THEN life \in {"run", "stopped"} /\ ~done /\ Ev.f \in Files
             ELSE ENABLED Conform

M_Step ==
  /\ l <= Len(Trace) /\ Ev.e # "Cfg"
  /\ (drift \/ ~Explained)
  /\ drift' = TRUE
  /\ driftAt' = IF drift THEN driftAt ELSE Ev.seq
  /\ obs' = IF Ev.e = "Look" THEN ObsLook(obs, LookRec(Ev)) ELSE ObsEv(obs, Ev.e, Ev)
  /\ l' = l + 1
  /\ UNCHANGED <<dvars, last, hist, tno>>
  /\ IF Ev.e = "End" THEN Publish(TRUE, driftAt', obs', devUsed) ELSE TRUE

TNext == TReset \/ C_Put \/ C_Look \/ C_Step \/ M_Step
TSpec == TInit /\ [][TNext]_tvars

Post == PrintT(<<"VERDICTS", ToJson(TLCGet(1))>>)
=============================================================================
