----------------------------- MODULE DkimSelect -----------------------------
(***************************************************************************)
(* X19 - which messages modify.dkim signs, for which domain, with which    *)
(* key.                                                                     *)
(*   docs/reference/modifiers/dkim.md 6-16 (one selector, one or more       *)
(*   domains; "the key to use for each message will be selected based on    *)
(*   the SMTP envelope sender ... for domain-less postmaster address and    *)
(*   null address, the key for the first domain will be used.  If domain in *)
(*   envelope sender does not match any of loaded keys, message will not be *)
(*   signed.  Additionally, for each messages From header is checked to     *)
(*   match MAIL FROM and authorization identity ... This can be controlled  *)
(*   using require_sender_match directive"), 58-79 (domains, selector),     *)
(*   81-93 (key_path, placeholders), 143-159 (header_canon / body_canon),   *)
(*   171-185 (hash, newkey_algo), 189-208 (require_sender_match: default    *)
(*   `envelope auth`, "otherwise - don't sign", several addresses, "case-   *)
(*   insensitive", off / envelope / auth), 212-215 (allow_multiple_from),   *)
(*   219-225 (sign_subdomains, "Allows only one domain");                   *)
(*   internal/modify/dkim/dkim.go 289 ("Use first key for null return path  *)
(*   (<>) and postmaster"), 312-313 ("If the message is non-EAI, we are not *)
(*   allowed to use domains in U-labels"), framework/dns/norm.go 34-37      *)
(*   ("Use this instead of strings.ToLower to prepare domain for lookups"). *)
(*                                                                         *)
(* The input space is a decision table (BUILDING.md pattern B): Init picks *)
(* the row `in`; the code's path through Init / ModStateForMsg /           *)
(* RewriteSender / RewriteBody is one action per call or decision, driven  *)
(* by the pure operator Step (the same operator composed by RuleD gives    *)
(* the procedure's output for a row without running the actions).  The     *)
(* code's deviations are named actions switched by Devs.                   *)
(*                                                                         *)
(*   in = [tab, c, m]                                                      *)
(*   c  = configuration: doms (sequence of spellings), sub                 *)
(*        (sign_subdomains), rsm (require_sender_match: "default" = not    *)
(*        given, "off", "envelope", "auth", "both"), amf                   *)
(*        (allow_multiple_from), tpl (key_path template), pre (key files   *)
(*        exist before Init), hc, bc, algo                                 *)
(*   m  = message / session: env = [k, l, d] (k: "null" | "postmaster" |   *)
(*        "addr"), from = sequence of [l, d] (mailboxes of the From        *)
(*        field), auth = [k, l, d] (k: "none" | "bare" | "full"), utf8     *)
(* Strings are owned by the specification; the only non-ASCII tokens are   *)
(* {u} (U+00FC), {U} (U+00DC) and {d} (u + U+0308): the harness replaces   *)
(* them on the way in and back on the way out.                              *)
(*   out = [initErr, err, nsig, d, dascii, auid, s, key, newkeys, intact,  *)
(*          hc, bc, alg]                                                   *)
(***************************************************************************)
EXTENDS Naturals, Sequences, FiniteSets, TLC, Json

CONSTANTS Full, Devs, Gen
VARIABLES in, st
vars == <<in, st>>

Range(f) == {f[j] : j \in DOMAIN f}

(* ---- domains and their spellings ------------------------------------------ *)
\* form: "ascii" (LDH, any case), "ulabel" (lower-case NFC U-label), "uupper" (upper-case U-label), "nfd"
BaseSpell == {
  [s |-> "example.org",           dom |-> "org",   form |-> "ascii"],
  [s |-> "EXAMPLE.org",           dom |-> "org",   form |-> "ascii"],
  [s |-> "xn--bcher-kva.example", dom |-> "idn",   form |-> "ascii"],
  [s |-> "XN--BCHER-KVA.example", dom |-> "idn",   form |-> "ascii"],
  [s |-> "b{u}cher.example",      dom |-> "idn",   form |-> "ulabel"],
  [s |-> "B{U}CHER.example",      dom |-> "idn",   form |-> "uupper"],
  [s |-> "b{d}cher.example",      dom |-> "idn",   form |-> "nfd"],
  [s |-> "other.example",         dom |-> "other", form |-> "ascii"],
  [s |-> "notexample.org",        dom |-> "evil",  form |-> "ascii"]}
Pre1 == {"sub.", "Sub."}
SubSpell1 == {[s |-> p \o b.s, dom |-> "sub." \o b.dom, form |-> b.form, bases |-> {b.s}] :
                p \in Pre1, b \in {x \in BaseSpell : x.dom \in {"org", "idn"}}}
SubSpell2 == {[s |-> "a." \o b.s, dom |-> "a." \o b.dom, form |-> b.form, bases |-> b.bases \cup {b.s}] :
                b \in {x \in SubSpell1 : x.s \in {"sub.example.org", "sub.xn--bcher-kva.example"}}}
Spell == {[s |-> b.s, dom |-> b.dom, form |-> b.form, bases |-> {}] : b \in BaseSpell} \cup SubSpell1 \cup SubSpell2
Known(s) == \E r \in Spell : r.s = s
Info(s) == CHOOSE r \in Spell : r.s = s
DomOf(s) == IF Known(s) THEN Info(s).dom ELSE "?"
FormOf(s) == IF Known(s) THEN Info(s).form ELSE "?"
\* ancestors of a (logical) domain
Anc(d) == CASE d \in {"sub.org", "a.sub.org"} -> {"org"} \cup (IF d = "a.sub.org" THEN {"sub.org"} ELSE {})
            [] d \in {"sub.idn", "a.sub.idn"} -> {"idn"} \cup (IF d = "a.sub.idn" THEN {"sub.idn"} ELSE {})
            [] OTHER -> {}
LocalId(l) == CASE l \in {"alice", "Alice"} -> "alice" [] l \in {"bob", "BOB"} -> "bob" [] OTHER -> l

(* ---- concrete strings --------------------------------------------------------- *)
Selector == "sel"
KeyName(tpl, d) == IF tpl = "A" THEN d \o "_" \o Selector \o ".key" ELSE "k-" \o Selector \o "/" \o d \o ".pem"
Template(tpl) == IF tpl = "A" THEN "{domain}_{selector}.key" ELSE "k-{selector}/{domain}.pem"
AddrStr(a) == a.l \o "@" \o a.d
EnvStr(e) == CASE e.k = "null" -> "" [] e.k = "postmaster" -> e.l [] OTHER -> AddrStr(e)
AuthStr(a) == CASE a.k = "none" -> "" [] a.k = "bare" -> a.l [] OTHER -> AddrStr(a)
RECURSIVE FromStr(_)
FromStr(f) == IF Len(f) = 0 THEN ""
              ELSE IF Len(f) = 1 THEN "Sender One <" \o AddrStr(f[1]) \o ">"
              ELSE AddrStr(f[1]) \o ", " \o FromStr(Tail(f))
RsmArgs(r) == CASE r = "off" -> <<"off">> [] r = "envelope" -> <<"envelope">> [] r = "auth" -> <<"auth">>
                [] r = "both" -> <<"envelope", "auth">> [] OTHER -> <<>>
RsmSet(r) == CASE r = "off" -> {} [] r = "envelope" -> {"envelope"} [] r = "auth" -> {"auth"} [] OTHER -> {"envelope", "auth"}
Conc(i) == [domains |-> i.c.doms, selector |-> Selector, key_path |-> Template(i.c.tpl),
            keyfiles |-> [j \in DOMAIN i.c.doms |-> KeyName(i.c.tpl, i.c.doms[j])],
            rsm |-> RsmArgs(i.c.rsm), mailfrom |-> EnvStr(i.m.env), fromhdr |-> FromStr(i.m.from),
            authuser |-> AuthStr(i.m.auth)]

(* ---- the input space ------------------------------------------------------------ *)
A(l, d) == [l |-> l, d |-> d]
Env(l, d) == [k |-> "addr", l |-> l, d |-> d]
NullEnv == [k |-> "null", l |-> "", d |-> ""]
PmEnv(l) == [k |-> "postmaster", l |-> l, d |-> ""]
NoAuth == [k |-> "none", l |-> "", d |-> ""]
Bare(l) == [k |-> "bare", l |-> l, d |-> ""]
FullAuth(l, d) == [k |-> "full", l |-> l, d |-> d]
BaseC == [doms |-> <<"example.org">>, sub |-> FALSE, rsm |-> "default", amf |-> FALSE, tpl |-> "A", pre |-> TRUE,
          hc |-> "relaxed", bc |-> "relaxed", algo |-> "ed25519"]
DomCfgs == {<<"example.org">>, <<"EXAMPLE.org">>, <<"xn--bcher-kva.example">>, <<"b{u}cher.example">>,
            <<"B{U}CHER.example">>, <<"b{d}cher.example">>, <<"example.org", "xn--bcher-kva.example">>,
            <<"b{u}cher.example", "EXAMPLE.org">>, <<"other.example", "example.org">>}
            \cup (IF Full THEN {<<"XN--BCHER-KVA.example">>, <<"xn--bcher-kva.example", "example.org">>} ELSE {})
EnvDoms == {r.s : r \in Spell}
Ascii(s) == FormOf(s) = "ascii"
AsciiRep(d) == CASE d = "idn" -> "xn--bcher-kva.example" [] d = "other" -> "other.example" [] OTHER -> "example.org"
\* the message of a user who is what he says he is: From = MAIL FROM, logged in under the local part
Honest(e, doms) == IF e.k = "addr" THEN [from |-> <<A(e.l, e.d)>>, auth |-> Bare(e.l)]
                   ELSE [from |-> <<A("alice", AsciiRep(DomOf(doms[1])))>>, auth |-> Bare("alice")]
Msg(e, fa, u) == [env |-> e, from |-> fa.from, auth |-> fa.auth, utf8 |-> u]
EnvAll == {NullEnv, PmEnv("postmaster"), PmEnv("PostMaster")} \cup {Env("alice", d) : d \in EnvDoms}
          \cup {Env("Alice", "example.org")}
\* without SMTPUTF8 neither the envelope nor (here) the header carries a U-label
OkUtf8(m) == m.utf8 \/ (/\ (m.env.k = "addr" => Ascii(m.env.d))
                        /\ \A j \in DOMAIN m.from : Ascii(m.from[j].d)
                        /\ (m.auth.k = "full" => Ascii(m.auth.d)))
InEnv == {[tab |-> "env", c |-> [BaseC EXCEPT !.doms = ds, !.sub = sb], m |-> Msg(e, Honest(e, ds), u)] :
            ds \in DomCfgs, sb \in BOOLEAN, e \in EnvAll, u \in BOOLEAN}
MatchEnvs == {NullEnv, Env("alice", "example.org"), Env("Alice", "EXAMPLE.org"), Env("alice", "b{u}cher.example"),
              Env("alice", "other.example")}
MatchFroms == {<<>>, <<A("alice", "example.org")>>, <<A("Alice", "EXAMPLE.org")>>, <<A("bob", "example.org")>>,
               <<A("alice", "xn--bcher-kva.example")>>, <<A("alice", "other.example")>>,
               <<A("alice", "example.org"), A("bob", "example.org")>>,
               <<A("bob", "other.example"), A("alice", "example.org")>>}
MatchAuths == {NoAuth, Bare("alice"), Bare("Alice"), Bare("bob"), FullAuth("alice", "example.org"),
               FullAuth("Alice", "EXAMPLE.org"), FullAuth("alice", "xn--bcher-kva.example"),
               FullAuth("bob", "example.org")}
MatchRsm == IF Full THEN {"default", "off", "envelope", "auth", "both"} ELSE {"default", "auth"}
InMatch == {[tab |-> "match", c |-> [BaseC EXCEPT !.doms = <<"example.org", "xn--bcher-kva.example">>, !.rsm = r, !.amf = am],
             m |-> [env |-> e, from |-> f, auth |-> a, utf8 |-> TRUE]] :
              r \in MatchRsm, am \in BOOLEAN, e \in MatchEnvs, f \in MatchFroms, a \in MatchAuths}
\* the directive in every value on a few messages
InRsm == {[tab |-> "rsm", c |-> [BaseC EXCEPT !.rsm = r, !.doms = ds], m |-> Msg(e, Honest(e, ds), FALSE)] :
            r \in {"off", "envelope", "auth", "both"}, ds \in {<<"example.org">>, <<"example.org", "xn--bcher-kva.example">>},
            e \in {NullEnv, Env("alice", "example.org"), Env("alice", "other.example")}}
CfgCombos == {x \in [ds : {<<"example.org">>, <<"b{u}cher.example", "EXAMPLE.org">>}, tp : {"A", "B"}, pr : BOOLEAN,
                      h : {"relaxed", "simple"}, b : {"relaxed", "simple"}, al : {"ed25519", "rsa2048"},
                      e : {Env("alice", "EXAMPLE.org"), Env("alice", "xn--bcher-kva.example")}] :
                x.al = "rsa2048" => (~x.pr /\ x.h = x.b /\ Len(x.ds) = 1 /\ x.e.d = "EXAMPLE.org")}
InCfg == {[tab |-> "cfg", c |-> [BaseC EXCEPT !.doms = x.ds, !.tpl = x.tp, !.pre = x.pr, !.hc = x.h, !.bc = x.b, !.algo = x.al],
           m |-> Msg(x.e, Honest(x.e, x.ds), TRUE)] : x \in CfgCombos}
NoDup(ds) == Cardinality({DomOf(ds[j]) : j \in DOMAIN ds}) = Len(ds)
Inputs == {i \in InEnv \cup InMatch \cup InRsm \cup InCfg : OkUtf8(i.m) /\ NoDup(i.c.doms)}

InputsOf(tab) == {i \in Inputs : i.tab = tab}

(* ---- what the documentation decides ------------------------------------------------ *)
CfgDoms(c) == {DomOf(c.doms[j]) : j \in DOMAIN c.doms}
ValidCfg(c) == ~(c.sub /\ Len(c.doms) > 1)
\* the domain the envelope sender speaks for
EnvDom(i) == IF i.m.env.k = "addr" THEN DomOf(i.m.env.d) ELSE DomOf(i.c.doms[1])
KeyDom(i) == LET e == EnvDom(i) IN
             IF i.c.sub /\ DomOf(i.c.doms[1]) \in Anc(e) THEN DomOf(i.c.doms[1]) ELSE e
Configured(i) == KeyDom(i) \in CfgDoms(i.c)
KeyIdx(i) == CHOOSE j \in DOMAIN i.c.doms : DomOf(i.c.doms[j]) = KeyDom(i)
SameAddr(a, b) == LocalId(a.l) = LocalId(b.l) /\ DomOf(a.d) = DomOf(b.d)
S(i) == RsmSet(i.c.rsm)
\* three-valued: "yes", "no", "open" (the documentation does not say)
FromUsable(i) == Len(i.m.from) = 1 \/ (Len(i.m.from) > 1 /\ i.c.amf)
CondEnvelope(i) == IF ~FromUsable(i) THEN "no"
                   ELSE IF i.m.env.k # "addr" THEN "open"
                   ELSE IF SameAddr(i.m.from[1], i.m.env) THEN "yes" ELSE "no"
CondAuth(i) == IF ~FromUsable(i) THEN "no"
               ELSE IF i.m.auth.k = "none" THEN "open"
               ELSE IF i.m.auth.k = "bare" THEN (IF LocalId(i.m.auth.l) = LocalId(i.m.from[1].l) THEN "yes" ELSE "no")
               ELSE IF SameAddr(i.m.from[1], i.m.auth) THEN "yes" ELSE "no"
Conds(i) == {IF x = "envelope" THEN CondEnvelope(i) ELSE CondAuth(i) : x \in S(i)}
MustSign(i) == ValidCfg(i.c) /\ Configured(i) /\ Conds(i) \subseteq {"yes"}
MustNotSign(i) == ValidCfg(i.c) /\ (~Configured(i) \/ "no" \in Conds(i))
Must(i) == IF ~ValidCfg(i.c) THEN "refuse-config" ELSE IF MustSign(i) THEN "sign" ELSE IF MustNotSign(i) THEN "pass" ELSE "open"

\* p: projection of an output (Proj below)
P_Config(i, p) == p.initErr <=> ~ValidCfg(i.c)
P_Signs(i, p) == (~p.initErr /\ MustSign(i)) => p.nsig = 1
P_Entitled(i, p) == /\ p.nsig \in {0, 1}
                    /\ (~p.initErr /\ MustNotSign(i)) => p.nsig = 0
P_Domain(i, p) == p.nsig = 1 => /\ Configured(i) => p.dd = KeyDom(i)
                                /\ p.dd \in CfgDoms(i.c)
                                /\ ~i.m.utf8 => p.dascii
                                /\ p.auidOk
P_Selector(i, p) == p.nsig = 1 => p.s = Selector
P_Key(i, p) == p.nsig = 1 => /\ p.key # 0
                             /\ p.key \in DOMAIN i.c.doms
                             /\ DomOf(i.c.doms[p.key]) = p.dd
P_KeyPath(i, p) == ~p.initErr => p.newkeys = (IF i.c.pre THEN {} ELSE Range(Conc(i).keyfiles))
P_Algo(i, p) == p.nsig = 1 => /\ p.hc = i.c.hc /\ p.bc = i.c.bc
                              /\ p.alg = (IF i.c.algo = "ed25519" THEN "ed25519-sha256" ELSE "rsa-sha256")
P_PassOn(i, p) == ~p.initErr => ~p.err /\ p.intact

PredNames == {"Config", "Signs", "Entitled", "Domain", "Selector", "Key", "KeyPath", "Algo", "PassOn"}
Holds(n, i, p) == CASE n = "Config" -> P_Config(i, p) [] n = "Signs" -> P_Signs(i, p)
                    [] n = "Entitled" -> P_Entitled(i, p) [] n = "Domain" -> P_Domain(i, p)
                    [] n = "Selector" -> P_Selector(i, p) [] n = "Key" -> P_Key(i, p)
                    [] n = "KeyPath" -> P_KeyPath(i, p) [] n = "Algo" -> P_Algo(i, p)
                    [] n = "PassOn" -> P_PassOn(i, p)
Viol(i, p) == {n \in PredNames : ~Holds(n, i, p)}
Prop(i, p) == Viol(i, p) = {}

(* ---- the procedure: one step per call / decision of the code ---------------------------- *)
\* st = the modifier and message state the code holds between the steps
St0 == [pc |-> "cfg", initErr |-> FALSE, signers |-> {}, newkeys |-> {}, from |-> "", domain |-> "", kidx |-> 0,
        nsig |-> 0, dd |-> "", dascii |-> FALSE, taken |-> {}]
Done(s) == [s EXCEPT !.pc = "done"]
\* Init: cfg.Process - every documented directive is known
S_Cfg(i, s) == [s EXCEPT !.pc = "validate"]
D_CfgRefuseSenderMatch(i, s) == IF i.c.rsm # "default" THEN Done([s EXCEPT !.initErr = TRUE, !.taken = @ \cup {"SenderMatchRefused"}])
                                ELSE S_Cfg(i, s)
\* Init: domains / selector given, sign_subdomains with one domain only
S_Validate(i, s) == IF ValidCfg(i.c) THEN [s EXCEPT !.pc = "loadkeys"] ELSE Done([s EXCEPT !.initErr = TRUE])
\* Init: loadOrGenerateKey for every domain, signers[ForLookup(domain)] = key
S_LoadKeys(i, s) == [s EXCEPT !.pc = "state",
                              !.signers = {<<DomOf(i.c.doms[j]), j>> : j \in DOMAIN i.c.doms},
                              !.newkeys = IF i.c.pre THEN {} ELSE Range(Conc(i).keyfiles)]
S_State(i, s) == [s EXCEPT !.pc = "sender"]                      \* ModStateForMsg
S_Sender(i, s) == [s EXCEPT !.pc = "pick", !.from = EnvStr(i.m.env)]   \* RewriteSender
\* RewriteBody: address.Split; first key for the null return path and postmaster
S_Pick(i, s) == [s EXCEPT !.pc = "fold", !.domain = IF i.m.env.k = "addr" THEN i.m.env.d ELSE i.c.doms[1]]
\* RewriteBody: sign_subdomains - a subdomain of the configured domain takes the configured domain
S_Fold(i, s) == [s EXCEPT !.pc = "lookup",
                          !.domain = IF i.c.sub /\ DomOf(i.c.doms[1]) \in Anc(DomOf(s.domain)) THEN i.c.doms[1] ELSE @]
\* the code compares the strings as written
D_FoldRaw(i, s) ==
  LET doc == S_Fold(i, s)
      raw == [s EXCEPT !.pc = "lookup",
                       !.domain = IF i.c.sub /\ Known(s.domain) /\ i.c.doms[1] \in Info(s.domain).bases THEN i.c.doms[1] ELSE @] IN
    IF raw.domain = doc.domain THEN doc ELSE [raw EXCEPT !.taken = @ \cup {"SubdomainRawCompare"}]
\* RewriteBody: ForLookup + signers[...]
S_Lookup(i, s) == LET hit == {p \in s.signers : p[1] = DomOf(s.domain)} IN
                  IF hit = {} THEN Done(s)
                  ELSE [s EXCEPT !.pc = "match", !.kidx = (CHOOSE p \in hit : TRUE)[2]]
\* require_sender_match (operationally: an identity that is not there does not match)
MatchOk(i) ==
  \/ S(i) = {}
  \/ /\ FromUsable(i)
     /\ "envelope" \in S(i) => (i.m.env.k = "addr" /\ SameAddr(i.m.from[1], i.m.env))
     /\ "auth" \in S(i) => \/ (i.m.auth.k = "bare" /\ LocalId(i.m.auth.l) = LocalId(i.m.from[1].l))
                           \/ (i.m.auth.k = "full" /\ SameAddr(i.m.from[1], i.m.auth))
S_Match(i, s) == IF MatchOk(i) THEN [s EXCEPT !.pc = "encode"] ELSE Done(s)
D_MatchSkipped(i, s) == IF MatchOk(i) THEN S_Match(i, s)
                        ELSE [s EXCEPT !.pc = "encode", !.taken = @ \cup {"SenderMatchSkipped"}]
\* RewriteBody: d= - as written for an SMTPUTF8 message, A-labels otherwise
S_Encode(i, s) == [s EXCEPT !.pc = "sign", !.dd = DomOf(s.domain), !.dascii = ~i.m.utf8 \/ Ascii(s.domain)]
\* the code hands the string as written to Punycode: an upper-case or NFD U-label becomes another name
D_EncodeRaw(i, s) == IF ~i.m.utf8 /\ FormOf(s.domain) \in {"uupper", "nfd"}
                     THEN [s EXCEPT !.pc = "sign", !.dd = "?", !.dascii = TRUE, !.taken = @ \cup {"RawToASCII"}]
                     ELSE S_Encode(i, s)
S_Sign(i, s) == [s EXCEPT !.pc = "close", !.nsig = 1]
S_Close(i, s) == Done(s)

Step(devs, i, s) ==
  CASE s.pc = "cfg" -> IF "SenderMatchRefused" \in devs THEN D_CfgRefuseSenderMatch(i, s) ELSE S_Cfg(i, s)
    [] s.pc = "validate" -> S_Validate(i, s)
    [] s.pc = "loadkeys" -> S_LoadKeys(i, s)
    [] s.pc = "state" -> S_State(i, s)
    [] s.pc = "sender" -> S_Sender(i, s)
    [] s.pc = "pick" -> S_Pick(i, s)
    [] s.pc = "fold" -> IF "SubdomainRawCompare" \in devs THEN D_FoldRaw(i, s) ELSE S_Fold(i, s)
    [] s.pc = "lookup" -> S_Lookup(i, s)
    [] s.pc = "match" -> IF "SenderMatchSkipped" \in devs THEN D_MatchSkipped(i, s) ELSE S_Match(i, s)
    [] s.pc = "encode" -> IF "RawToASCII" \in devs THEN D_EncodeRaw(i, s) ELSE S_Encode(i, s)
    [] s.pc = "sign" -> S_Sign(i, s)
    [] s.pc = "close" -> S_Close(i, s)
RECURSIVE Run(_, _, _)
Run(devs, i, s) == IF s.pc = "done" THEN s ELSE Run(devs, i, Step(devs, i, s))
OutOf(i, s) == [initErr |-> s.initErr, err |-> FALSE, nsig |-> s.nsig, dd |-> s.dd, dascii |-> s.dascii,
                auidOk |-> s.nsig = 1, s |-> IF s.nsig = 1 THEN Selector ELSE "", key |-> IF s.nsig = 1 THEN s.kidx ELSE 0,
                newkeys |-> s.newkeys, intact |-> ~s.initErr,
                hc |-> IF s.nsig = 1 THEN i.c.hc ELSE "", bc |-> IF s.nsig = 1 THEN i.c.bc ELSE "",
                alg |-> IF s.nsig = 1 THEN (IF i.c.algo = "ed25519" THEN "ed25519-sha256" ELSE "rsa-sha256") ELSE ""]
RuleD(devs, i) == LET s == Run(devs, i, St0) IN [out |-> OutOf(i, s), taken |-> s.taken]
Rule(i) == RuleD({}, i).out
AsIs(i) == RuleD(Devs, i).out

\* projection of a recorded output on what the predicates and the procedure speak about
Proj(i, o) == [initErr |-> o.initErr, err |-> o.err, nsig |-> o.nsig,
               dd |-> IF o.nsig = 1 THEN DomOf(o.d) ELSE "", dascii |-> IF o.nsig = 1 THEN o.dascii ELSE FALSE,
               auidOk |-> o.nsig = 1 /\ o.auid = "@" \o o.d, s |-> o.s, key |-> o.key,
               newkeys |-> Range(o.newkeys), intact |-> o.intact, hc |-> o.hc, bc |-> o.bc, alg |-> o.alg]
\* sets of deviations that reproduce the output exactly and each member of which is taken on the way
Explains(devsets, i, o) == {d \in devsets : LET r == RuleD(d, i) IN r.out = Proj(i, o) /\ r.taken = d}

(* ---- the actions ---------------------------------------------------------------------------- *)
Init == in \in Inputs /\ st = St0
At(pc) == st.pc = pc
Do(f(_, _)) == st' = f(in, st) /\ UNCHANGED in
On(d) == d \in Devs
CfgProcess == At("cfg") /\ ~On("SenderMatchRefused") /\ Do(S_Cfg)
Dev_CfgRefuseSenderMatch == At("cfg") /\ On("SenderMatchRefused") /\ Do(D_CfgRefuseSenderMatch)
CfgValidate == At("validate") /\ Do(S_Validate)
LoadKeys == At("loadkeys") /\ Do(S_LoadKeys)
ModStateForMsg == At("state") /\ Do(S_State)
RewriteSender == At("sender") /\ Do(S_Sender)
PickDomain == At("pick") /\ Do(S_Pick)
FoldSubdomain == At("fold") /\ ~On("SubdomainRawCompare") /\ Do(S_Fold)
Dev_FoldSubdomainRaw == At("fold") /\ On("SubdomainRawCompare") /\ Do(D_FoldRaw)
KeyedLookup == At("lookup") /\ Do(S_Lookup)
SenderMatch == At("match") /\ ~On("SenderMatchSkipped") /\ Do(S_Match)
Dev_SenderMatchSkipped == At("match") /\ On("SenderMatchSkipped") /\ Do(D_MatchSkipped)
EncodeDomain == At("encode") /\ ~On("RawToASCII") /\ Do(S_Encode)
Dev_EncodeRaw == At("encode") /\ On("RawToASCII") /\ Do(D_EncodeRaw)
Sign == At("sign") /\ Do(S_Sign)
Close == At("close") /\ Do(S_Close)
Next == \/ CfgProcess \/ Dev_CfgRefuseSenderMatch \/ CfgValidate \/ LoadKeys \/ ModStateForMsg \/ RewriteSender
        \/ PickDomain \/ FoldSubdomain \/ Dev_FoldSubdomainRaw \/ KeyedLookup \/ SenderMatch \/ Dev_SenderMatchSkipped
        \/ EncodeDomain \/ Dev_EncodeRaw \/ Sign \/ Close
Spec == Init /\ [][Next]_vars

\* the property on the model: every complete run of the procedure satisfies every predicate
Final == st.pc = "done"
RuleSatisfiesProp == Final => Prop(in, OutOf(in, st))
\* the actions and the composed operator are the same procedure
ActionsAreRule == Final => OutOf(in, st) = RuleD(Devs, in).out
AsIsSatisfiesProp == Final => Prop(in, OutOf(in, st))
\* spellings of one domain decide identically: the documented decision is a function of logical names only
Canon(i) == [c |-> [i.c EXCEPT !.doms = [j \in DOMAIN i.c.doms |-> DomOf(i.c.doms[j])]],
             env |-> [k |-> i.m.env.k, l |-> LocalId(i.m.env.l), d |-> DomOf(i.m.env.d)],
             from |-> [j \in DOMAIN i.m.from |-> [l |-> LocalId(i.m.from[j].l), d |-> DomOf(i.m.from[j].d)]],
             auth |-> [k |-> i.m.auth.k, l |-> LocalId(i.m.auth.l), d |-> DomOf(i.m.auth.d)]]
SpellingBlind == (Final /\ in.tab # "match") => \A j \in InputsOf(in.tab) : Canon(j) = Canon(in) =>
                             /\ Must(j) = Must(in)
                             /\ Rule(j).nsig = Rule(in).nsig /\ Rule(j).dd = Rule(in).dd /\ Rule(j).key = Rule(in).key

RowOf(i) == [tab |-> i.tab, c |-> i.c, m |-> i.m, x |-> Conc(i)]
Emit == (Gen /\ Final) => PrintT(<<"ROW", ToJson([in |-> RowOf(in), exp |-> Rule(in), must |-> Must(in)])>>)
=============================================================================
