\* deviations on: TLC must report NoViolation violated (DESIGN section 6 row 10)
SPECIFICATION Spec
CONSTANTS
  PolSets <- LocalOnly
  MinTLSSet = {0, 1, 2}
  MinMXSet = {0, 1, 2}
  OverrideSet = {TRUE, FALSE}
  StsSet = {"none"}
  StlsCert <- AllStlsCert
  TlsaSet <- AllTlsa
  NMXSet = {1}
  MsgKinds <- Kinds3
  MaxMsgs = 3
  WithDNSFail = FALSE
  SlowSet = {FALSE}
  CnSet = {"no"}
  QuitSet = {"bye"}
  ResSet <- LocalRes
  Devs = {"PoolUnchecked"}
  Gen = FALSE
VIEW View
INVARIANTS NoViolation
