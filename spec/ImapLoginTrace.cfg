\* X18 trace evaluation
SPECIFICATION TSpec
CONSTANTS
  Tab = "all"
  Full = TRUE
  Devs = {}
  Gen = FALSE
  OpenDevs = {"OrigRcptCycle"}
CHECK_DEADLOCK FALSE
POSTCONDITION Post
