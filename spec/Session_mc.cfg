\* exhaustive check of the design (all deviations off); quick-tier constants
\* (thorough: NTs = {1, 2, 3}, Fails = {"temp", "perm"}, MaxFaults = 2, MaxCmds = 8)
SPECIFICATION Spec
CONSTANTS
  Rcpts = {"ra", "rb"}
  NTs = {1, 2}
  Lmtps = {TRUE, FALSE}
  Holds = {TRUE, FALSE}
  Fails = {"perm"}
  MaxFaults = 1
  MaxCmds = 6
  MaxEnv = 0
  EnvPlan = "any"
  Allowed = {"*"}
  Devs = {}
  Gen = FALSE
VIEW View
INVARIANTS NoViolation NoDeviation TypeOK
