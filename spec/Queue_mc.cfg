SPECIFICATION Spec
CONSTANTS
  Rcpts = {"r1", "r2"}
  MaxTriesSet = {1, 2, 3}
  MaxList = 3
  Devs = {}
  RwSets = {{}}
  Utf8Set = {FALSE}
  BounceStages = {"ok"}
  Gen = FALSE
VIEW View
INVARIANTS NoViolation TypeOK Bounded
PROPERTY Terminates
