\* enumeration of the loader rows; lib/checks/x08.py
SPECIFICATION Spec
CONSTANTS
  Devs = {}
  Gen = FALSE
INVARIANTS RuleSatisfiesProp
CHECK_DEADLOCK FALSE
