\* quick-tier structured layer (lib/checks/c20.py generates the configs it runs; this copy is for readers)
SPECIFICATION SpecDoc
CONSTANTS
  MaxItems = 2
  Styles = {{}, {"crlf", "tabs", "comments", "quote"}, {"same", "cont"}}
  MutLen = 0
  RawLen = 0
  Depths = {3, 256, 257}
  Ladders = {3, 24}
  MacroCloses = {300}
  SnipDeeps = {200}
  FileChains = {1050, 1200, 4150}
  SnipSplits = {100156, 1100156, 100157, 1100157}
  FileSplits = {100156, 1100156, 100157, 1100157}
  Devs = {}
INVARIANTS RowAndModel
CHECK_DEADLOCK FALSE
