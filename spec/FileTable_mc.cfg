SPECIFICATION Spec
CONSTANTS
  K = 2
  MaxTime = 6
  MaxEnv = 3
  MaxForce = 1
  EnvKinds = {"put", "putbad", "putold", "trunc", "app", "rm", "dir", "loop", "unread", "close", "slow"}
  InitKinds = {"good", "none", "bad", "dir", "loop", "unread"}
  OldStamps = {0, 15, 21, 23}
  Devs = {}
  Gen = FALSE
VIEW View
INVARIANTS NoViolation TypeOK TableIsAVersion
CHECK_DEADLOCK FALSE
