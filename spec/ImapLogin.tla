----------------------------- MODULE ImapLogin -----------------------------
(***************************************************************************)
(* X18 - the IMAP endpoint's login path and imap.filter.command.           *)
(* Decision tables (BUILDING.md pattern B), four tables (field tab):       *)
(*                                                                         *)
(*  "login"  one LOGIN / AUTHENTICATE PLAIN of one spelling of an account  *)
(*           name against an endpoint configured with                      *)
(*             an  auth_map_normalize      am  auth_map                    *)
(*             sn  storage_map_normalize   sm  storage_map                 *)
(*             bn  auth_normalize of the storage (storage.imapsql)         *)
(*           in  = [tab, an, am, sn, sm, bn, sp, pw, mech]                 *)
(*           out = [v, pc, acct]                                           *)
(*             v     ok | no | bye (anything else: connection lost, BAD)   *)
(*             pc    calls of the authentication provider, in order:       *)
(*                   [n |-> form the provider was asked about,             *)
(*                    same |-> with exactly the password the client sent]  *)
(*             acct  storage account whose mail the session sees: the      *)
(*                   account in which the mailbox the session created      *)
(*                   right after logging in exists afterwards (read from   *)
(*                   the database, not from the endpoint), "none"          *)
(*           Names are *forms*: identifiers of concrete strings (the       *)
(*           harness holds form -> text; a string it does not know is      *)
(*           "other").  What a normalisation function does to a form is    *)
(*           the table Norm below, transcribed from                        *)
(*           docs/reference/global-config.md:80-88 (PRECIS RFC 8265        *)
(*           UsernameCaseMapped / UsernameCasePreserved: width mapping,    *)
(*           NFC, case folding or not, disallowed code points refused;     *)
(*           "_email": the profile on the local part, U-label lower-case   *)
(*           form of the domain, a name without "@" refused).              *)
(*  "group"  all accepted logins of one configuration: [sp, acct] pairs.   *)
(*           Two spellings open the same account iff the configured        *)
(*           chain equates them.                                           *)
(*  "tls"    credentials before/after STARTTLS:                            *)
(*           in  = [tab, tls, ins, stls, iod, mech, pw]                    *)
(*           out = [ld, st, ap, v, pc, pwlog]  (LOGINDISABLED / STARTTLS / *)
(*           AUTH=PLAIN in the capabilities seen right before the          *)
(*           credentials were sent, verdict, number of provider calls,     *)
(*           password found in the log)                                    *)
(*  "close"  Endpoint.Close: in = [tab, tls, ins], out = [err, refused,    *)
(*           ended]                                                        *)
(*  "flt"    imap.filter.command: in = [tab, tpl, vals, outk, rc]          *)
(*           out = [ran, args, stdin, folder, flags, err, land]            *)
(*             ran    times the command was started by IMAPFilter          *)
(*             args   argv[1..] the command received                       *)
(*             stdin  "exact" iff it read exactly header CRLF body         *)
(*             folder, flags, err  what IMAPFilter returned                *)
(*             land   [n, box, flags]: copies of the message in the        *)
(*                    account after a real delivery through                *)
(*                    storage.imapsql with this filter, mailbox and        *)
(*                    flags of the (first) copy                            *)
(*                                                                         *)
(* Prop = the statement, predicate by predicate (Viol = names of the false *)
(* ones).  Rule = the documented procedure, RuleD(devs, _) with the code's *)
(* named deviations:                                                       *)
(*   "OrigRcptCycle"  {original_rcpt_to} follows MsgMetadata.OriginalRcpts *)
(*                    without a visited set: a rewrite cycle never         *)
(*                    terminates (X18-F1)                                  *)
(***************************************************************************)
EXTENDS Naturals, Sequences, FiniteSets, TLC, Json

CONSTANTS Tab,      \* "login" | "tls" | "flt" | "all": the table TLC enumerates
          Full,     \* TRUE: every configuration of the login table; FALSE: the reduced one
          Devs,     \* deviations switched on in AsIs
          Gen       \* TRUE: print one ROW line per input

VARIABLE in
vars == <<in>>

Range(f) == {f[i] : i \in DOMAIN f}
Bad(name, cond) == IF cond THEN {} ELSE {name}

-----------------------------------------------------------------------------
(* ---- forms and normalisation ---- *)
\* spellings a client types
Spellings == {"u", "uC", "uW", "e", "eD", "b", "bA", "l", "lC", "lW", "o", "c", "x"}
\*  u  user@example.org            uC User@Example.ORG        uW full-width "user"@example.org
\*  e  us<e-acute>r@example.org NFC  eD the same in NFD
\*  b  user@b<u-umlaut>cher.example  bA user@xn--bcher-kva.example
\*  l  user      lC USER      lW full-width "user"
\*  o  other@example.org   c user@example.com   x "us er@example.org" (space: disallowed by PRECIS)
\* further strings the chain can produce
\*  uP User@example.org   lP User   eL us<e-acute>r (NFC)   eDL the same NFD   oL other   xL "us er"
Forms == Spellings \cup {"uP", "lP", "eL", "eDL", "oL", "xL", "box1", "box2"}
ERR == "ERR"       \* the function refuses the name
MISS == "MISS"     \* the table has no entry
Emails == {"u", "uC", "uW", "e", "eD", "b", "bA", "o", "c", "x", "uP"}

Ov(pairs) == [s \in Forms |-> IF \E p \in pairs : p[1] = s THEN (CHOOSE p \in pairs : p[1] = s)[2] ELSE s]
Lower == {<<"uC", "u">>, <<"lC", "l">>, <<"uP", "u">>, <<"lP", "l">>}
Width == {<<"uW", "u">>, <<"lW", "l">>}
Nfc == {<<"eD", "e">>, <<"eDL", "eL">>}
Space == {<<"x", ERR>>, <<"xL", ERR>>}
ALabel == {<<"bA", "b">>}
NoAt == {<<f, ERR>> : f \in Forms \ Emails}
NormFuncs == {"noop", "casefold", "precis", "precis_casefold", "precis_email", "precis_casefold_email", "auto"}
Norm == [noop |-> Ov({}),
         casefold |-> Ov(Lower),
         precis |-> Ov(Width \cup Nfc \cup Space),
         precis_casefold |-> Ov(Lower \cup Width \cup Nfc \cup Space),
         precis_email |-> Ov({<<"uC", "uP">>} \cup Width \cup Nfc \cup Space \cup ALabel \cup NoAt),
         precis_casefold_email |-> Ov(Lower \cup Width \cup Nfc \cup Space \cup ALabel \cup NoAt),
         auto |-> Ov(Lower \cup Width \cup Nfc \cup Space \cup ALabel)]

\* tables: "none" (directive absent = identity), "lp" (email_localpart_optional), "static"
LocalPart == Ov({<<"u", "l">>, <<"uC", "lP">>, <<"uW", "lW">>, <<"e", "eL">>, <<"eD", "eDL">>, <<"b", "l">>,
                 <<"bA", "l">>, <<"o", "oL">>, <<"c", "l">>, <<"uP", "lP">>, <<"x", "xL">>})
AuthStatic == [u |-> "l", o |-> "o"]
StoreStatic == [u |-> "box1", o |-> "box2", l |-> "box1"]
MapKinds == {"none", "lp", "static"}
MapTo(kind, static, f) ==
  IF f = ERR THEN ERR
  ELSE IF kind = "none" THEN f
  ELSE IF kind = "lp" THEN LocalPart[f]
  ELSE IF f \in DOMAIN static THEN static[f] ELSE MISS

\* the credentials the authentication provider knows (exact, case-sensitive match)
DB == [u |-> "pwu", o |-> "pwo", l |-> "pwl", e |-> "pwe", b |-> "pwb", lC |-> "pwC", uP |-> "pwP"]

Mechs == {"login", "plain", "plainz", "plainzo"}   \* LOGIN; AUTHENTICATE PLAIN without / with the same / with another authzid
PwKinds == {"match", "wrong", "cross"}

LoginCfgs ==
  LET both == {[an |-> n, am |-> a, sn |-> n, sm |-> s, bn |-> "auto"] : n \in NormFuncs, a \in MapKinds, s \in MapKinds}
      mixed == {[an |-> n, am |-> "none", sn |-> m, sm |-> "none", bn |-> "auto"] : n \in NormFuncs, m \in NormFuncs}
      raw == {[an |-> n, am |-> "none", sn |-> n, sm |-> s, bn |-> "noop"] : n \in NormFuncs, s \in {"none", "lp"}}
      small == {c \in both \cup raw : c.an \in {"auto", "noop", "precis_email"} /\ c.am # "static"}
  IN IF Full THEN both \cup mixed \cup raw ELSE small
LoginInputs ==
  {[tab |-> "login", an |-> c.an, am |-> c.am, sn |-> c.sn, sm |-> c.sm, bn |-> c.bn, sp |-> s, pw |-> p, mech |-> m] :
     c \in LoginCfgs, s \in Spellings, p \in PwKinds, m \in Mechs}

AuthName(i) == MapTo(i.am, AuthStatic, Norm[i.an][i.sp])
PwText(i) ==
  LET a == AuthName(i) IN
  CASE i.pw = "match" -> IF a \in DOMAIN DB THEN DB[a] ELSE "pwu"
    [] i.pw = "wrong" -> "nope"
    [] OTHER -> IF a = "o" THEN "pwu" ELSE "pwo"
CredsMatch(i) == AuthName(i) \in DOMAIN DB /\ DB[AuthName(i)] = PwText(i)
Authzid(i) == CASE i.mech = "plainz" -> i.sp
                [] i.mech = "plainzo" -> IF i.sp = "o" THEN "u" ELSE "o"
                [] OTHER -> ""
\* the storage account: storage_map_normalize, storage_map, the storage's own auth_normalize, and the
\* backend's case-insensitive account names (go-imap-sql lower-cases; from the code)
StoreAcctOf(c, sp) ==
  LET m == MapTo(c.sm, StoreStatic, Norm[c.sn][sp])
      n == IF m \in {ERR, MISS} THEN m ELSE Norm[c.bn][m]
  IN IF n \in {ERR, MISS} THEN "none" ELSE Norm["casefold"][n]
StoreAcct(i) == StoreAcctOf(i, i.sp)

LoginRule(i) ==
  LET a == AuthName(i)
      asked == IF i.mech = "plainzo" \/ a \in {ERR, MISS} THEN <<>> ELSE <<[n |-> a, same |-> TRUE]>>
      ok == i.mech # "plainzo" /\ CredsMatch(i) /\ StoreAcct(i) # "none"
  IN [v |-> IF ok THEN "ok" ELSE "no", pc |-> asked, acct |-> IF ok THEN StoreAcct(i) ELSE "none"]

LoginViol(i, o) ==
       \* success only when the provider holds exactly these credentials under auth_map_normalize / auth_map
       Bad("OkOnlyIfCredsMatch", o.v = "ok" => (CredsMatch(i) /\ i.mech # "plainzo"))
  \cup Bad("AcceptedWhenCredsMatch", (CredsMatch(i) /\ i.mech # "plainzo" /\ StoreAcct(i) # "none") => o.v = "ok")
       \* a definite answer: never a lost connection or a protocol error
  \cup Bad("DefiniteAnswer", o.v \in {"ok", "no"})
       \* the provider is asked about the mapped name with the client's password, nothing else
       \* ("storage_map does not affect the username passed to the authentication provider")
  \cup Bad("ProviderGetsMappedName", \A k \in DOMAIN o.pc : o.pc[k].n = AuthName(i) /\ o.pc[k].same)
  \cup Bad("ProviderAskedWhenMappable", (o.v = "ok") => o.pc # <<>>)
       \* the account opened is the one storage_map names for the authenticated identity
  \cup Bad("AccountIsTheMappedOne", o.v = "ok" => o.acct = StoreAcct(i))
  \cup Bad("NoAccountWithoutLogin", o.v # "ok" => o.acct = "none")
       \* a name without a storage account (normalisation refuses it, no table entry) is refused
  \cup Bad("UnmappableRefused", StoreAcct(i) = "none" => o.v # "ok")

(* ---- group: accepted logins of one configuration ---- *)
GroupViol(c, pairs) ==
       Bad("EquatedSpellingsShareAccount",
           \A p \in pairs, q \in pairs : StoreAcctOf(c, p.sp) = StoreAcctOf(c, q.sp) => p.acct = q.acct)
  \cup Bad("DistinguishedSpellingsNeverShare",
           \A p \in pairs, q \in pairs : StoreAcctOf(c, p.sp) # StoreAcctOf(c, q.sp) => p.acct # q.acct)

-----------------------------------------------------------------------------
(* ---- tls: credentials and the state of the connection ---- *)
TlsInputs ==
  {r \in [tab : {"tls"}, tls : {"off", "on"}, ins : {"absent", "no", "yes"}, stls : BOOLEAN, iod : {"no", "yes"},
          mech : {"login", "plain"}, pw : {"match", "wrong"}] : r.stls => r.tls = "on"}
\* "insecure_auth: default no (yes if TLS is disabled)": credentials are accepted on this connection iff
Allowed(i) == i.tls = "off" \/ i.ins = "yes" \/ i.stls
TlsRule(i) ==
  [ld |-> ~Allowed(i), st |-> (i.tls = "on" /\ ~i.stls), ap |-> Allowed(i),
   v |-> IF Allowed(i) /\ i.pw = "match" THEN "ok" ELSE "no",
   pc |-> IF Allowed(i) THEN 1 ELSE 0,
   \* io_debug writes every command: the password is in the log when it was sent (AUTHENTICATE is refused
   \* before the response is asked for)
   pwlog |-> (i.iod = "yes" /\ (i.mech = "login" \/ Allowed(i)))]
TlsViol(i, o) ==
       Bad("RefusedBeforeTLS", ~Allowed(i) => (o.v # "ok" /\ o.pc = 0))
  \cup Bad("LoginDisabledAdvertised", o.ld <=> ~Allowed(i))
  \cup Bad("AuthPlainOfferedWhenAllowed", o.ap <=> Allowed(i))
  \cup Bad("StartTLSOffered", o.st <=> (i.tls = "on" /\ ~i.stls))
  \cup Bad("AllowedWorks", Allowed(i) => (o.v = (IF i.pw = "match" THEN "ok" ELSE "no")))
  \cup Bad("NoPasswordInLog", i.iod = "no" => ~o.pwlog)

CloseInputs == {[tab |-> "close", tls |-> t, ins |-> n] : t \in {"off", "on"}, n \in {"absent", "no", "yes"}}
CloseRule(i) == [err |-> FALSE, refused |-> TRUE, ended |-> TRUE]
CloseViol(i, o) ==
       Bad("CloseReturns", ~o.err)
  \cup Bad("CloseStopsListening", o.refused)
  \cup Bad("CloseEndsSessions", o.ended)

-----------------------------------------------------------------------------
(* ---- flt: imap.filter.command ---- *)
L(s) == [k |-> "lit", v |-> s]
P(s) == [k |-> "ph", v |-> s]
Templates ==
  [t0 |-> <<>>,
   t1 |-> << <<P("account_name")>> >>,                                   \* the documented example
   t2 |-> << <<P("auth_user")>>, <<P("sender")>>, <<P("original_rcpt_to")>>, <<P("rcpt_to")>>, <<P("subject")>>,
             <<P("account_name")>>, <<P("msg_id")>> >>,
   t3 |-> << <<L("--user="), P("auth_user"), L(":"), P("sender")>>, <<P("subject"), P("rcpt_to")>>, <<L("-s"), P("subject")>> >>,
   t4 |-> << <<L("$(touch pwned)")>>, <<L(";")>>, <<L("*")>>, <<L("a b")>>, <<L("`id`"), P("msg_id")>>, <<L("")>> >>,
   t5 |-> << <<P("subject")>>, <<P("subject")>>, <<L("x"), P("sender"), L("y"), P("sender"), L("z")>> >>]
PhNames == {"auth_user", "sender", "original_rcpt_to", "rcpt_to", "subject", "account_name", "msg_id"}
\* value sets; "chain" is the rewriting history of the recipient, oldest first, ending with rcpt_to;
\* cyc: the history is a cycle (a -> b -> a)
Values ==
  [v1 |-> [auth_user |-> "alice", sender |-> "bob@example.net", rcpt_to |-> "user@example.org",
           original_rcpt_to |-> "user@example.org", subject |-> "Hello", account_name |-> "user@example.org",
           msg_id |-> "id1", conn |-> TRUE, hassubj |-> TRUE, chain |-> <<"user@example.org">>, cyc |-> FALSE],
   v2 |-> [auth_user |-> "{subject}", sender |-> "{account_name}@evil.example", rcpt_to |-> "User@example.org",
           original_rcpt_to |-> "postmaster+{msg_id}@example.org",
           subject |-> "{rcpt_to} $(touch pwned) ;echo x `id` * {sender}", account_name |-> "user@example.org",
           msg_id |-> "id2{sender}", conn |-> TRUE, hassubj |-> TRUE,
           chain |-> <<"postmaster+{msg_id}@example.org", "User@example.org">>, cyc |-> FALSE],
   v3 |-> [auth_user |-> "", sender |-> "", rcpt_to |-> "user@example.org", original_rcpt_to |-> "user@example.org",
           subject |-> "", account_name |-> "user@example.org", msg_id |-> "id3", conn |-> FALSE, hassubj |-> FALSE,
           chain |-> <<"user@example.org">>, cyc |-> FALSE],
   v4 |-> [auth_user |-> "carol@example.org", sender |-> "-rf@example.net", rcpt_to |-> "user@example.org",
           original_rcpt_to |-> "first@example.org", subject |-> "Re: x", account_name |-> "user@example.org",
           msg_id |-> "id4", conn |-> TRUE, hassubj |-> TRUE,
           chain |-> <<"first@example.org", "alias@example.org", "user@example.org">>, cyc |-> FALSE],
   v5 |-> [auth_user |-> "dave", sender |-> "dave@example.net", rcpt_to |-> "user@example.org",
           original_rcpt_to |-> "user@example.org", subject |-> "loop", account_name |-> "user@example.org",
           msg_id |-> "id5", conn |-> TRUE, hassubj |-> TRUE,
           chain |-> <<"user@example.org", "alias@example.org", "user@example.org">>, cyc |-> TRUE]]
\* what the command prints: folder = first line, flags = the other lines; "ghost" names a folder that does not exist
OutKinds ==
  [none |-> [folder |-> "", flags |-> <<>>], folder |-> [folder |-> "Work", flags |-> <<>>],
   flags |-> [folder |-> "", flags |-> <<"$Label1">>], both |-> [folder |-> "Work", flags |-> <<"$A", "$B">>],
   nonl |-> [folder |-> "Work", flags |-> <<>>], ghost |-> [folder |-> "Nope", flags |-> <<"$A">>]]
ExitCodes == {0, 1, 75}
FltInputs ==
  {r \in [tab : {"flt"}, tpl : DOMAIN Templates, vals : DOMAIN Values, outk : DOMAIN OutKinds, rc : ExitCodes] :
     r.vals = "v5" => r.outk = "both"}

RECURSIVE Cat(_)
Cat(s) == IF s = <<>> THEN "" ELSE Head(s) \o Cat(Tail(s))
ArgText(a, v) == Cat([k \in 1..Len(a) |-> IF a[k].k = "lit" THEN a[k].v ELSE v[a[k].v]])
TplText(a) == Cat([k \in 1..Len(a) |-> IF a[k].k = "lit" THEN a[k].v ELSE "{" \o a[k].v \o "}"])
\* single substitution pass: a value is never scanned for placeholders again
ExpArgs(i) == [k \in 1..Len(Templates[i.tpl]) |-> ArgText(Templates[i.tpl][k], Values[i.vals])]
UsesOrig(i) == \E k \in DOMAIN Templates[i.tpl] : \E j \in DOMAIN Templates[i.tpl][k] :
                  Templates[i.tpl][k][j] = P("original_rcpt_to")
Inbox == "INBOX"
FltRuleD(devs, i) ==
  LET ok == i.rc = 0
      want == OutKinds[i.outk]
      box == IF ok /\ want.folder \notin {"", "Nope"} THEN want.folder ELSE Inbox
  IN
  IF "OrigRcptCycle" \in devs /\ Values[i.vals].cyc /\ UsesOrig(i)
  THEN [ran |-> 0, args |-> <<>>, stdin |-> "none", folder |-> "", flags |-> <<>>, err |-> "hang",
        land |-> [n |-> 0, box |-> "", flags |-> <<>>]]
  ELSE [ran |-> 1, args |-> ExpArgs(i), stdin |-> "exact",
        folder |-> IF ok THEN want.folder ELSE "", flags |-> IF ok THEN want.flags ELSE <<>>,
        err |-> IF ok THEN "none" ELSE "err",
        land |-> [n |-> 1, box |-> box, flags |-> IF ok THEN want.flags ELSE <<>>]]
FltRule(i) == FltRuleD({}, i)
FltViol(i, o) ==
  LET want == OutKinds[i.outk] IN
       \* the command gets exactly the documented arguments: one substitution pass, no word splitting
       Bad("ExactArgs", o.err # "hang" => o.args = ExpArgs(i))
  \cup Bad("RunsOnce", o.err # "hang" => o.ran = 1)
  \cup Bad("StdinIsMessage", o.err # "hang" => o.stdin = "exact")
       \* "First one, if non-empty, overrides destination folder. All other lines contain additional IMAP flags"
  \cup Bad("OutputMapsToFolderAndFlags", i.rc = 0 => (o.err = "none" /\ o.folder = want.folder /\ o.flags = want.flags))
       \* a failing command has no effect (from the code: delivery.go logs and goes on)
  \cup Bad("FailureHasNoEffect", i.rc # 0 => (o.err = "err" /\ o.folder = "" /\ o.flags = <<>>))
       \* the filter answers (a filter cannot hold a delivery for ever)
  \cup Bad("FilterAnswers", o.err # "hang")
       \* "There is no way to reject message using IMAP filters": exactly one copy, whatever the command did
  \cup Bad("NeverLost", o.land.n = 1)
  \cup Bad("LandsWhereTold",
           (o.land.n = 1 /\ want.folder # "Nope") =>
              /\ o.land.box = (IF i.rc = 0 /\ want.folder # "" THEN want.folder ELSE Inbox)
              /\ Range(o.land.flags) = (IF i.rc = 0 THEN Range(want.flags) ELSE {}))

-----------------------------------------------------------------------------
Inputs == CASE Tab = "login" -> LoginInputs
            [] Tab = "tls" -> TlsInputs \cup CloseInputs
            [] Tab = "flt" -> FltInputs
            [] OTHER -> LoginInputs \cup TlsInputs \cup CloseInputs \cup FltInputs

RuleD(devs, i) == CASE i.tab = "login" -> LoginRule(i)
                    [] i.tab = "tls" -> TlsRule(i)
                    [] i.tab = "close" -> CloseRule(i)
                    [] OTHER -> FltRuleD(devs, i)
Rule(i) == RuleD({}, i)
Viol(i, o) == CASE i.tab = "login" -> LoginViol(i, o)
                [] i.tab = "tls" -> TlsViol(i, o)
                [] i.tab = "close" -> CloseViol(i, o)
                [] OTHER -> FltViol(i, o)

\* what the harness needs to build the row's world (concrete texts live in the spec where they decide)
World(i) ==
  CASE i.tab = "login" -> [pw |-> PwText(i), authzid |-> Authzid(i)]
    [] i.tab = "flt" -> [args |-> [k \in 1..Len(Templates[i.tpl]) |-> TplText(Templates[i.tpl][k])],
                         vals |-> Values[i.vals], out |-> OutKinds[i.outk]]
    [] OTHER -> [none |-> TRUE]

(* one action per table: TLC's coverage shows that each one is exercised *)
PickLogin == in = <<>> /\ \E r \in LoginInputs : in' = r
PickTls == in = <<>> /\ \E r \in TlsInputs : in' = r
PickClose == in = <<>> /\ \E r \in CloseInputs : in' = r
PickFlt == in = <<>> /\ \E r \in FltInputs : in' = r
Init == in = <<>>
Next == \/ (Tab \in {"login", "all"} /\ PickLogin)
        \/ (Tab \in {"tls", "all"} /\ PickTls)
        \/ (Tab \in {"tls", "all"} /\ PickClose)
        \/ (Tab \in {"flt", "all"} /\ PickFlt)
Spec == Init /\ [][Next]_vars

Emit == (Gen /\ in # <<>>) => PrintT(<<"ROW", ToJson([in |-> in, exp |-> Rule(in), world |-> World(in)])>>)

RuleSatisfiesProp == in # <<>> => Viol(in, Rule(in)) = {}
AsIsSatisfiesProp == in # <<>> => Viol(in, RuleD(Devs, in)) = {}

\* theorems about the documented chain, checked on every login row
\* (1) storage_map never changes who is authenticated; (2) under one configuration the account is a
\* function of the normalised, mapped name only
AuthIndependentOfStorage ==
  (in # <<>> /\ in.tab = "login") =>
     \A s \in NormFuncs, m \in MapKinds : AuthName([in EXCEPT !.sn = s, !.sm = m]) = AuthName(in)
NormalisedNamesDecide ==
  (in # <<>> /\ in.tab = "login") =>
     \A s \in Spellings : Norm[in.sn][s] = Norm[in.sn][in.sp] => StoreAcctOf(in, s) = StoreAcct(in)

\* with io_debug on the statement leaves the content of the log free
SameOut(i, a, b) == IF i.tab = "tls" /\ i.iod = "yes" THEN [a EXCEPT !.pwlog = FALSE] = [b EXCEPT !.pwlog = FALSE] ELSE a = b
Explains(devsets, i, o) == {d \in devsets : SameOut(i, o, RuleD(d, i))}
=============================================================================
