SPECIFICATION Spec
CONSTANTS
  Rcpts = {"r1", "r2"}
  MaxTries = 2
  MaxList = 2
  MaxCrashes = 1
  Strengths = {"ordered", "strong"}
  Devs = {}
  Gen = FALSE
VIEW View
INVARIANT NoViolation
