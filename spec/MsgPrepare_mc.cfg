SPECIFICATION Spec
CONSTANTS
  Full = FALSE
  Devs = {}
  Gen = FALSE
INVARIANTS RuleSatisfiesProp RuleRoundTrip
CHECK_DEADLOCK FALSE
