\* evaluates trace.ndjson (rows of the real code); OpenDevs = deviations of the open extension findings
SPECIFICATION TSpec
CONSTANTS
  MaxSig = 3
  Devs = {}
  Gen = FALSE
  DocSubset = "no"
  OpenDevs = {"ErrDefaultsIgnore", "FailOpenBroken", "NoBodySubset", "ForgedArKept"}
CHECK_DEADLOCK FALSE
POSTCONDITION Post
