----------------------------- MODULE SmtpForward -----------------------------
(***************************************************************************)
(* Design specification of maddy's target.smtp / target.lmtp forwarder as *)
(* configured (extension X20): internal/target/smtp/smtp_downstream.go    *)
(* (Init, Start -> connect, AddRcpt, Body / BodyNonAtomic, Abort, Commit) *)
(* and sasl.go (saslAuthDirective), docs/reference/targets/smtp.md.       *)
(*                                                                         *)
(* One behaviour = one configuration + behaviour of the configured next   *)
(* hops (cfg, chosen in Init) and ONE delivery.  Actions, one per call /  *)
(* critical section / observable wire event:                               *)
(*   StartCall          Target.Start entered                               *)
(*   DialRefused        connect loop: endpoint ep refuses the connection   *)
(*   Dial               connect loop: endpoint ep accepts the connection;  *)
(*                      greeting refused / dropped / handshake of a tls:// *)
(*                      endpoint broken => next endpoint                   *)
(*   Hello(tls)         EHLO / LHLO arrives (before / after STARTTLS)      *)
(*   Stls               STARTTLS arrives (454 | handshake breaks | ok)     *)
(*   SetupQuit          QUIT after "no STARTTLS offered" / 454             *)
(*   AuthLocalFail      saslClientFactory: `auth forward` without          *)
(*                      credentials of the source session -> 530           *)
(*   AuthCmd(r)         AUTH arrives, reply r                              *)
(*   MailCmd(r)         MAIL arrives, reply r                              *)
(*   FailQuit           QUIT of conn.Close() after a refused AUTH / MAIL   *)
(*   StartRet(cls)      Start returns                                      *)
(*   RcptCmd(r), RcptRet(cls)   AddRcpt                                    *)
(*   DataCmd(r), Content(r), BodyRet   Body / BodyNonAtomic                *)
(*   FinQuit, FinRet(op)        Commit / Abort -> conn.Close(): QUIT       *)
(*   End                the delivery is over, no connection may be open    *)
(*                                                                         *)
(* Deviations of the code as it is (constant Devs):                        *)
(*   "RequireTlsIgnored"      `require_tls yes` changes nothing (X20-F1): *)
(*        with starttls off the message and the credentials go out in     *)
(*        clear although smtp.md:83-86 names require_tls as the way to    *)
(*        enforce TLS.                                                     *)
(*   "StarttlsOnImplicitTls"  STARTTLS is demanded INSIDE the session of a*)
(*        tls:// endpoint as well (X20-F2): with starttls on (the default *)
(*        of target.smtp) every tls:// endpoint fails with "TLS required  *)
(*        but unsupported by downstream".                                  *)
(***************************************************************************)
EXTENDS SmtpForwardObs, TLC, Json

CONSTANTS Kinds, Schemes, MaxEp, Outs, StlsDirs, RtlsDirs, Auths, Srcs,
          AuthRs, MailRs, RcptRs, BodyRs, MaxRcpt, Devs, Gen

VARIABLES cfg, pc, ep, ph, lastc, nr, acc, op, obs, hist

vars == <<cfg, pc, ep, ph, lastc, nr, acc, op, obs, hist>>
View == <<cfg, pc, ep, ph, lastc, nr, acc, op, obs>>

H(x) == IF Gen THEN Append(hist, x) ELSE hist

\* STARTTLS is used on the connection to endpoint i
RequireCounts == "RequireTlsIgnored" \notin Devs
WantStls(c) == StlsEff(c) \/ (RequireCounts /\ c.rtls = "yes")
NeedStls(c, i) == WantStls(c) /\ (c.schs[i] # "tls" \/ "StarttlsOnImplicitTls" \in Devs)

\* what an endpoint can do, given how the target approaches it
Feasible(c, i, o) ==
  LET s == c.schs[i] IN
  /\ o \in Outs
  /\ o \in {"notls", "stls4"} => (s # "tls" /\ WantStls(c))
  /\ o \in {"hsfail", "badcert"} => (s = "tls" \/ WantStls(c))
  /\ (s = "unix" /\ WantStls(c)) => o \notin {"up", "badcert"}      \* no server name to verify: the handshake cannot succeed

CfgSet ==
  {c \in [kind : Kinds, stls : StlsDirs, rtls : RtlsDirs, auth : Auths, src : Srcs,
          schs : UNION {[1..n -> Schemes] : n \in 1..MaxEp},
          outs : UNION {[1..n -> Outs] : n \in 1..MaxEp}] :
     /\ Len(c.schs) = Len(c.outs)
     /\ \A i \in 1..Len(c.schs) : Feasible(c, i, c.outs[i])
     /\ (c.auth # "forward" => c.src = "auth")}

Init ==
  /\ cfg \in CfgSet
  /\ pc = "idle" /\ ep = 0 /\ ph = "none" /\ lastc = "" /\ nr = 0 /\ acc = 0 /\ op = ""
  /\ obs = ObsInit /\ hist = <<>>

Out == cfg.outs[ep]
ImplTls == cfg.schs[ep] = "tls"

\* the connect loop moves on / gives up
NextEp(cls) ==
  /\ lastc' = cls
  /\ ph' = "none"
  /\ IF ep < N(cfg) THEN ep' = ep + 1 /\ pc' = "connect" ELSE ep' = ep /\ pc' = "startfail"

Ready == IF cfg.auth = "off" THEN "mail" ELSE "auth"

StartCall ==
  /\ pc = "idle"
  /\ pc' = "connect" /\ ep' = 1
  /\ hist' = H([a |-> "start"])
  /\ UNCHANGED <<cfg, ph, lastc, nr, acc, op, obs>>

DialRefused ==
  /\ pc = "connect" /\ ph = "none" /\ Out = "refuse"
  /\ obs' = ObsRefused(obs, ep)
  /\ NextEp("temp")
  /\ UNCHANGED <<cfg, nr, acc, op, hist>>

Dial ==
  /\ pc = "connect" /\ ph = "none" /\ Out # "refuse"
  /\ obs' = ObsConn(obs, cfg, ep)
  /\ IF Out \in {"gdrop", "g4", "g5"} \/ (ImplTls /\ Out \in {"hsfail", "badcert"})
     THEN NextEp(OutClass(Out))
     ELSE ph' = "conn" /\ UNCHANGED <<pc, ep, lastc>>
  /\ UNCHANGED <<cfg, nr, acc, op, hist>>

HelloVerb == IF cfg.kind = "lmtp" THEN "LHLO" ELSE "EHLO"

Hello(tls) ==
  /\ pc = "connect"
  /\ \/ /\ ph = "conn" /\ tls = ImplTls
        /\ obs' = ObsSrv(obs, cfg, ep, HelloVerb, tls, "cfg", "ok")
        /\ IF NeedStls(cfg, ep)
           THEN ph' = (IF Out = "notls" \/ ImplTls THEN "nostls" ELSE "hello1") /\ pc' = pc
           ELSE ph' = "ready" /\ pc' = Ready
     \/ /\ ph = "tlsup" /\ tls
        /\ obs' = ObsSrv(obs, cfg, ep, HelloVerb, TRUE, "cfg", "ok")
        /\ ph' = "ready" /\ pc' = Ready
  /\ UNCHANGED <<cfg, ep, lastc, nr, acc, op, hist>>

Stls ==
  /\ pc = "connect" /\ ph = "hello1"
  /\ obs' = ObsSrv(obs, cfg, ep, "STARTTLS", FALSE, "", IF Out = "stls4" THEN "t4" ELSE "ok")
  /\ CASE Out = "stls4" -> ph' = "stlsrej" /\ UNCHANGED <<pc, ep, lastc>>
       [] Out \in {"hsfail", "badcert"} -> NextEp("free")
       [] OTHER -> ph' = "tlsup" /\ UNCHANGED <<pc, ep, lastc>>
  /\ UNCHANGED <<cfg, nr, acc, op, hist>>

SetupQuit ==
  /\ pc = "connect" /\ ph \in {"nostls", "stlsrej"}
  /\ obs' = ObsSrv(obs, cfg, ep, "QUIT", ImplTls, "", "ok")
  /\ NextEp("free")
  /\ UNCHANGED <<cfg, nr, acc, op, hist>>

AuthLocalFail ==
  /\ pc = "auth" /\ ~HasCreds(cfg)
  /\ pc' = "failquit" /\ lastc' = "perm"
  /\ UNCHANGED <<cfg, ep, ph, nr, acc, op, obs, hist>>

ChanTls == ImplTls \/ NeedStls(cfg, ep)

AuthCmd(r) ==
  /\ pc = "auth" /\ HasCreds(cfg) /\ r \in AuthRs
  /\ obs' = ObsSrv(obs, cfg, ep, "AUTH", ChanTls, ExpCred(cfg), r)
  /\ IF r = "ok" THEN pc' = "mail" /\ lastc' = lastc ELSE pc' = "failquit" /\ lastc' = ReplyClass(r)
  /\ hist' = H([a |-> "auth", r |-> r])
  /\ UNCHANGED <<cfg, ep, ph, nr, acc, op>>

MailCmd(r) ==
  /\ pc = "mail" /\ r \in MailRs
  /\ obs' = ObsSrv(obs, cfg, ep, "MAIL", ChanTls, "", r)
  /\ CASE r = "ok" -> pc' = "startok" /\ lastc' = lastc
       [] r = "drop" -> pc' = "startfail" /\ lastc' = "free"
       [] OTHER -> pc' = "failquit" /\ lastc' = ReplyClass(r)
  /\ hist' = H([a |-> "mail", r |-> r])
  /\ UNCHANGED <<cfg, ep, ph, nr, acc, op>>

FailQuit ==
  /\ pc = "failquit"
  /\ obs' = ObsSrv(obs, cfg, ep, "QUIT", ChanTls, "", "ok")
  /\ pc' = "startfail"
  /\ UNCHANGED <<cfg, ep, ph, lastc, nr, acc, op, hist>>

StartRet(cls) ==
  /\ \/ pc = "startok" /\ cls = "ok" /\ pc' = "rcpt"
     \/ pc = "startfail" /\ cls \in {"temp", "perm"} /\ (lastc = "free" \/ cls = lastc) /\ pc' = "end"
  /\ obs' = ObsStartRet(obs, cfg, cls)
  /\ UNCHANGED <<cfg, ep, ph, lastc, nr, acc, op, hist>>

RcptCmd(r) ==
  /\ pc = "rcpt" /\ nr < MaxRcpt /\ r \in RcptRs
  /\ obs' = ObsSrv(obs, cfg, ep, "RCPT", ChanTls, "", r)
  /\ nr' = nr + 1 /\ acc' = IF r = "ok" THEN acc + 1 ELSE acc
  /\ pc' = "rcptret" /\ lastc' = ReplyClass(r)
  /\ hist' = H([a |-> "rcpt", r |-> r])
  /\ UNCHANGED <<cfg, ep, ph, op>>

RcptRet(cls) ==
  /\ pc = "rcptret"
  /\ cls = (IF lastc = "free" THEN "ok" ELSE lastc)
  /\ pc' = "rcpt"
  /\ UNCHANGED <<cfg, ep, ph, lastc, nr, acc, op, obs, hist>>

DataCmd(r) ==
  /\ pc = "rcpt" /\ acc > 0 /\ r \in BodyRs
  /\ obs' = ObsSrv(obs, cfg, ep, "DATA", ChanTls, "", IF r = "d4" THEN "t4" ELSE "ok")
  /\ pc' = IF r = "d4" THEN "bodyret" ELSE "content"
  /\ lastc' = r
  /\ hist' = H([a |-> "body", r |-> r])
  /\ UNCHANGED <<cfg, ep, ph, nr, acc, op>>

Content ==
  /\ pc = "content"
  /\ obs' = ObsSrv(obs, cfg, ep, "BODY", ChanTls, "", IF lastc = "ok" THEN "ok" ELSE "p5")
  /\ pc' = "bodyret"
  /\ UNCHANGED <<cfg, ep, ph, lastc, nr, acc, op, hist>>

BodyRet ==
  /\ pc = "bodyret"
  /\ pc' = "fin" /\ op' = "commit"
  /\ UNCHANGED <<cfg, ep, ph, lastc, nr, acc, obs, hist>>

\* the caller aborts instead of sending the body (always when nobody was accepted)
AbortChoice ==
  /\ pc = "rcpt" /\ nr > 0
  /\ pc' = "fin" /\ op' = "abort"
  /\ hist' = H([a |-> "abort"])
  /\ UNCHANGED <<cfg, ep, ph, lastc, nr, acc, obs>>

FinQuit ==
  /\ pc = "fin"
  /\ obs' = ObsSrv(obs, cfg, ep, "QUIT", ChanTls, "", "ok")
  /\ pc' = "finret"
  /\ UNCHANGED <<cfg, ep, ph, lastc, nr, acc, op, hist>>

FinRet(o) ==
  /\ pc = "finret" /\ o = op
  /\ obs' = ObsFin(obs, cfg, o)
  /\ pc' = "end"
  /\ UNCHANGED <<cfg, ep, ph, lastc, nr, acc, op, hist>>

End ==
  /\ pc = "end"
  /\ obs' = ObsEnd(obs, 0)
  /\ pc' = "done"
  /\ IF Gen THEN PrintT(<<"BEH", ToJson([cfg |-> cfg, steps |-> hist])>>) ELSE TRUE
  /\ UNCHANGED <<cfg, ep, ph, lastc, nr, acc, op, hist>>

Silent == DialRefused \/ AuthLocalFail \/ AbortChoice

Next ==
  \/ StartCall \/ DialRefused \/ Dial \/ (\E b \in BOOLEAN : Hello(b)) \/ Stls \/ SetupQuit
  \/ AuthLocalFail \/ (\E r \in AuthRs : AuthCmd(r)) \/ (\E r \in MailRs : MailCmd(r)) \/ FailQuit
  \/ (\E c \in {"ok", "temp", "perm"} : StartRet(c) \/ RcptRet(c))
  \/ (\E r \in RcptRs : RcptCmd(r)) \/ (\E r \in BodyRs : DataCmd(r)) \/ Content \/ BodyRet \/ AbortChoice
  \/ FinQuit \/ (\E o \in {"commit", "abort"} : FinRet(o)) \/ End

Spec == Init /\ [][Next]_vars

NoViolation == obs.viol = {}
TypeOK == pc \in {"idle", "connect", "auth", "mail", "failquit", "startok", "startfail", "rcpt", "rcptret",
                  "content", "bodyret", "fin", "finret", "end", "done"}
=============================================================================
