---------------------------- MODULE FileTableObs ----------------------------
(***************************************************************************)
(* Observation state and property predicates of table.file (extension X01) *)
(* Everything here is a pure function of what is visible from outside the  *)
(* module internal/table/file.go:                                          *)
(*   - what the environment did to the file (content, mtime, removal,      *)
(*     replacement by a directory / dangling loop, permissions),           *)
(*   - the clock,                                                          *)
(*   - the file-system calls of the reloader (stat/open/read and their     *)
(*     results),                                                           *)
(*   - a complete probe of the table after every step ("Look": the answers *)
(*     of LookupMulti and Lookup for every key, whether Close / the reload *)
(*     hook have returned, whether the reloader reported a panic).         *)
(* The same operators fold `obs` in the design spec (FileTable.tla, checked*)
(* exhaustively by TLC) and in the trace spec (FileTableTrace.tla, fed     *)
(* with events recorded from the real module).                             *)
(*                                                                         *)
(* File content.  A line is a pair <<key, ver>>; key "!" is a line with a  *)
(* syntax error (empty key before the colon).  The text of a good line is  *)
(*    key: <ver>.1, <ver>.2                                                *)
(* so every write operation of the environment (which gets a fresh `ver`)  *)
(* leaves a recognisable mark on every value and a table that mixes two    *)
(* versions, or holds a prefix of one, cannot be mistaken for a complete   *)
(* one.  A value is reported back as the pair <<ver, idx>>.                *)
(***************************************************************************)
EXTENDS Integers, Sequences, FiniteSets

CONSTANT K      \* clock slots per reload interval (even, >= 2); reload() skips files younger than K \div 2

Keys == {"k", "c"}
Half == K \div 2
Settle == 2 * K          \* after that long without a change the table must equal the file (weak reading:
                         \* the code needs < 1.5 intervals; the documentation says "reloaded every 15 seconds")
Zero == -1000            \* the zero time.Time

IsBad(l) == l[1] = "!"
Good(ls) == \A i \in 1..Len(ls) : ~IsBad(ls[i])

RECURSIVE ValsOf(_, _)
ValsOf(ls, key) ==
  IF ls = <<>> THEN <<>>
  ELSE (IF Head(ls)[1] = key THEN << <<Head(ls)[2], 1>>, <<Head(ls)[2], 2>> >> ELSE <<>>)
       \o ValsOf(Tail(ls), key)

RECURSIVE GoodPrefix(_)
GoodPrefix(ls) == IF ls = <<>> \/ IsBad(Head(ls)) THEN <<>> ELSE <<Head(ls)>> \o GoodPrefix(Tail(ls))

\* the table a file stands for (LookupMulti of every key), and what Lookup must then answer
TV(ls) == [key \in Keys |-> ValsOf(ls, key)]
EmptyTV == TV(<<>>)
SV(tv) == [key \in Keys |-> IF tv[key] = <<>> THEN << <<0, 0>>, FALSE >> ELSE << tv[key][1], TRUE >>]

NoFile == [kind |-> "none", lines |-> <<>>, mtime |-> 0, unread |-> FALSE]

Snap(f) == IF f.kind = "file" THEN {[lines |-> f.lines, mtime |-> f.mtime]} ELSE {}

ObsInit(f) ==
  [ now     |-> 0,
    file    |-> f,            \* what the path is right now (environment's truth)
    seen    |-> Snap(f),      \* every (content, mtime) the path has had as a regular file
    missing |-> f.kind = "none",   \* the path did not exist at some instant
    first   |-> TRUE,         \* no probe seen yet
    prev    |-> EmptyTV,      \* table at the previous probe
    since   |-> 0,            \* instant of the last disturbance (change of the file, time passing inside a reload)
    parked  |-> "",           \* file-system call the reloader is about to make ("" = not inside reload())
    fp      |-> 0,            \* reload-hook calls that have not returned
    closed  |-> "no",         \* "no" | "called" | "done"
    farm    |-> FALSE,        \* a reload event was raised while the file was settled and nothing changed since
    viol    |-> {} ]

V(o, c, name) == IF c THEN o ELSE [o EXCEPT !.viol = @ \cup {name}]

HasExpectation(f) == f.kind = "none" \/ (f.kind = "file" /\ ~f.unread /\ Good(f.lines))
Expected(f) == IF f.kind = "none" THEN EmptyTV ELSE TV(f.lines)
SettledFile(o) == o.file.kind = "none" \/ (HasExpectation(o.file) /\ o.now - o.file.mtime >= Half)

EnvNames == {"EPut", "ETrunc", "EApp", "ERm", "EDir", "ELoop", "EUnread"}

FileAfter(f, name, e) ==
  CASE name = "EPut"    -> [kind |-> "file", lines |-> e.lines, mtime |-> e.m, unread |-> FALSE]
    [] name = "ETrunc"  -> [kind |-> "file", lines |-> <<>>, mtime |-> e.m,
                            unread |-> IF f.kind = "file" THEN f.unread ELSE FALSE]
    [] name = "EApp"    -> [f EXCEPT !.lines = Append(@, e.line), !.mtime = e.m]
    [] name = "ERm"     -> NoFile
    [] name = "EDir"    -> [kind |-> "dir", lines |-> <<>>, mtime |-> e.m, unread |-> FALSE]
    [] name = "ELoop"   -> [kind |-> "loop", lines |-> <<>>, mtime |-> 0, unread |-> FALSE]
    [] name = "EUnread" -> [f EXCEPT !.unread = e.on]

\* one step of the environment / clock / reloader / API, as recorded
ObsEv(o, name, e) ==
  CASE name \in EnvNames ->
         LET f == FileAfter(o.file, name, e) IN
         [o EXCEPT !.file = f, !.seen = @ \cup Snap(f), !.missing = @ \/ f.kind = "none",
                   !.since = o.now, !.farm = FALSE]
    [] name = "Tick" ->
         [o EXCEPT !.now = @ + 1, !.since = IF o.parked # "" THEN o.now + 1 ELSE @]
    [] name \in {"Stat", "Open", "Read"} ->
         V(o, o.closed # "done", "ReloadAfterClose")
    [] name = "Force" -> [o EXCEPT !.farm = SettledFile(o) /\ o.closed = "no"]
    [] name = "Close" -> [o EXCEPT !.closed = "called"]
    [] name = "End" ->
         LET o1 == V(o, o.closed # "called", "CloseHangs")
             o2 == V(o1, ~e.leak, "ReloaderSurvivesClose")
         IN V(o2, ~(o.fp > 0 /\ o.closed = "no"), "ReloadEventHangs")
    [] OTHER -> o

\* why the table may have become tv (it differs from the previous probe)
ChangeVerdict(o, tv) ==
  LET snaps   == {r \in o.seen : Good(r.lines) /\ TV(r.lines) = tv}
      settled == {r \in snaps : o.now - r.mtime >= Half}
  IN IF settled # {} THEN ""
     ELSE IF tv = EmptyTV /\ o.missing THEN ""
     ELSE IF snaps # {} THEN "LoadedUnsettledFile"
     ELSE IF tv = EmptyTV THEN "ClearedWithoutRemoval"
     ELSE IF \E r \in o.seen : ~Good(r.lines) /\ TV(GoodPrefix(r.lines)) = tv THEN "BadFileApplied"
     ELSE "MixedVersions"

\* a complete probe: L = [tv, sv, parked, fp, cl, pan]
ObsLook(o, L) ==
  LET o1 == V(o, L.sv = SV(L.tv), "LookupDisagreesWithMulti")
      o2 == V(o1, ~L.pan, "ReloaderPanicked")
      exp == Expected(o.file)
      o3 == IF o.first
            THEN V(o2, HasExpectation(o.file) => L.tv = exp, "InitLoadedWrong")
            ELSE IF L.tv # o.prev
                 THEN LET w == ChangeVerdict(o, L.tv) IN V(o2, w = "", w)
                 ELSE o2
      quiet == L.parked = "" /\ L.cl = "no"
      o4 == V(o3, ~(quiet /\ HasExpectation(o.file) /\ o.now - o.since >= Settle /\ L.tv # exp), "StaleTable")
      judge == o.farm /\ quiet /\ L.fp = 0
      o5 == IF judge THEN V(o4, L.tv = exp, "ReloadEventIgnored") ELSE o4
  IN [o5 EXCEPT !.prev = L.tv, !.first = FALSE, !.parked = L.parked, !.fp = L.fp,
                !.closed = IF L.cl = "no" THEN @ ELSE L.cl,
                !.farm = IF judge THEN FALSE ELSE @]
=============================================================================
