---------------------------- MODULE CfgMapTrace ----------------------------
(***************************************************************************)
(* Code -> model for X08, layer "m".  trace.ndjson holds one "Row" event   *)
(* per input row the harness ran through the real cfgparser and the real   *)
(* config.Map (global level, then the module block with the global Values):*)
(*   [t, seq, e |-> "Row", in |-> <input of CfgMap.tla>,                    *)
(*    out |-> [panic, err |-> [is, level, line, cls, mentions (sequence)],  *)
(*             gvals, vals, gunknown, unknown, calls]]                      *)
(* For every row TLC evaluates the property predicates of CfgMap.tla on    *)
(* the recorded output (viol), compares it with the documented rule        *)
(* (drift) and lists the sets of deviations of the open findings           *)
(* (OpenDevs) whose as-is rule reproduces the output exactly (devs).       *)
(* Only rows that are not plainly accepted are listed.                      *)
(***************************************************************************)
EXTENDS CfgMap

CONSTANT OpenDevs

Rows == ndJsonDeserialize("trace.ndjson")

tvars == <<in>>

OutOf(r) == [panic |-> r.out.panic,
             err |-> [is |-> r.out.err.is, level |-> r.out.err.level, line |-> r.out.err.line,
                      cls |-> r.out.err.cls, mentions |-> Range(r.out.err.mentions)],
             gvals |-> r.out.gvals, vals |-> r.out.vals, gunknown |-> r.out.gunknown,
             unknown |-> r.out.unknown, calls |-> r.out.calls]
DevSets == (SUBSET OpenDevs) \ {{}}
Bad(r) == Viol(r.in, OutOf(r)) # {} \/ ~SameOut(OutOf(r), Rule(r.in))
Verdict(r) == [t |-> r.t, drift |-> ~SameOut(OutOf(r), Rule(r.in)), driftAt |-> r.seq,
               viol |-> Viol(r.in, OutOf(r)),
               devs |-> Explains(DevSets, r.in, OutOf(r))]

Eval ==
  LET bad == {k \in 1..Len(Rows) : Bad(Rows[k])} IN
    [n |-> Len(Rows), accepted |-> Len(Rows) - Cardinality(bad),
     verdicts |-> {Verdict(Rows[k]) : k \in bad}]

TInit == in = <<>> /\ TLCSet(1, Eval)
TNext == UNCHANGED tvars
TSpec == TInit /\ [][TNext]_tvars

Post == PrintT(<<"VERDICTS", ToJson(TLCGet(1))>>)
=============================================================================
