-------------------------- MODULE ImapLoginTrace --------------------------
(***************************************************************************)
(* Code -> model for X18.  trace.ndjson holds what harness/imaplogincheck  *)
(* recorded from the real endpoint / storage / filter:                     *)
(*   [t, seq, e |-> "Row",   in |-> <row of ImapLogin.tla>, out |-> ...]   *)
(*   [t, seq, e |-> "Group", cfg |-> [an, am, sn, sm, bn],                 *)
(*                           pairs |-> <<[sp, acct], ...>>]                *)
(* For every line TLC evaluates the property predicates on the recorded    *)
(* output (viol), compares it with the documented procedure (drift) and    *)
(* lists the sets of deviations of the open findings whose as-is procedure *)
(* reproduces the output exactly (devs).                                   *)
(***************************************************************************)
EXTENDS ImapLogin

CONSTANT OpenDevs

Rows == ndJsonDeserialize("trace.ndjson")
tvars == <<in>>
DevSets == (SUBSET OpenDevs) \ {{}}
IsGroup(r) == r.e = "Group"
RViol(r) == IF IsGroup(r) THEN GroupViol(r.cfg, Range(r.pairs)) ELSE Viol(r.in, r.out)
RDrift(r) == IF IsGroup(r) THEN FALSE ELSE ~SameOut(r.in, r.out, Rule(r.in))
RBad(r) == RViol(r) # {} \/ RDrift(r)
Verdict(r) == [t |-> r.t, drift |-> RDrift(r), driftAt |-> r.seq, viol |-> RViol(r),
               devs |-> IF IsGroup(r) THEN {} ELSE Explains(DevSets, r.in, r.out)]
Eval ==
  LET bad == {k \in 1..Len(Rows) : RBad(Rows[k])} IN
    [n |-> Len(Rows), accepted |-> Len(Rows) - Cardinality(bad), verdicts |-> {Verdict(Rows[k]) : k \in bad}]
TInit == in = <<>> /\ TLCSet(1, Eval)
TNext == UNCHANGED tvars
TSpec == TInit /\ [][TNext]_tvars
Post == PrintT(<<"VERDICTS", ToJson(TLCGet(1))>>)
=============================================================================
