-------------------------------- MODULE Dmarc --------------------------------
(***************************************************************************)
(* C07 - DMARC verdict and action equal the specification for every input  *)
(* (RFC 7489; internal/dmarc/evaluate.go, verifier.go,                      *)
(* internal/msgpipeline/check_runner.go:applyResults).                      *)
(*                                                                         *)
(* Decision table (BUILDING.md pattern B).                                  *)
(*   input  in = [tab, shape, from, from2, dkim, spf, order, adkim, aspf,   *)
(*                p, sp, pct, ldom, lorg]                                   *)
(*     shape  From-header shape: "one" author address, or none / several   *)
(*     from   domain of the (first) author address AS SPELLED in the header *)
(*     from2  domain of the second address (shapes with several)            *)
(*     dkim   sequence of DKIM results [v, d]   (d as spelled in d=)        *)
(*     spf    the SPF result [v, mf, helo]: value, MAIL FROM domain ("" for *)
(*            the null reverse-path) and the client-chosen HELO domain, as  *)
(*            both appear in the SPF Authentication-Results entry.  The     *)
(*            SPF-authenticated identity (RFC 7489 3.1.2, RFC 7208 2.4) is  *)
(*            the MAIL FROM domain; HELO only when MAIL FROM is empty.      *)
(*     order  order of the results in the list handed to DMARC              *)
(*     adkim, aspf, p, sp, pct   the published record ("absent" = no tag)   *)
(*     ldom   answer to the TXT query at _dmarc.<from>: "record" one DMARC  *)
(*            record, "recjunk" one DMARC record next to other TXT records, *)
(*            "none" empty answer, "junk" only TXT records that are not     *)
(*            DMARC records (e.g. a wildcard SPF record), "multiple"        *)
(*            several DMARC records, "nxdomain", "servfail"                 *)
(*     lorg   answer at _dmarc.<organizational domain of from>              *)
(*     slow   the policy lookup is still unanswered when the first group of *)
(*            body checks (the pipeline-wide ones) has returned; it is      *)
(*            answered while a check of the source block runs.  An          *)
(*            environment choice (DNS latency): neither Prop nor Rule reads *)
(*            it.                                                           *)
(*     real   "no": the DKIM results are handed to DMARC as given in dkim;  *)
(*            "unsigned" / "valid" / "broken": the message is a real one    *)
(*            (no DKIM-Signature / a valid signature by dkim[1].d / a       *)
(*            signature by dkim[1].d over another body) evaluated by the    *)
(*            real check.dkim in its default configuration, and dkim is     *)
(*            what DKIM evaluation of that message yields - in particular   *)
(*            "a message without signatures yields the single result none". *)
(*     cq     a second, cooperating check of the same pipeline asks for the *)
(*            message to be quarantined (as check.spf does by default for   *)
(*            an SPF fail): "no"; "sender" at the sender stage from the     *)
(*            pipeline-wide check block (enforce_early); "body" at the body *)
(*            stage from the source block; "meta": the message arrives      *)
(*            already flagged (MsgMetadata.Quarantine set by the message    *)
(*            source, e.g. an outer pipeline).  Whatever another check asked *)
(*            for, a published reject is still a refusal; where DMARC       *)
(*            itself would accept, the flag belongs to that check (C06), so *)
(*            C07 accepts both "accept" and "quarantine" there and the rule *)
(*            says "quarantine".                                            *)
(*     path   how the message source hands over the body: "atomic" (Body,   *)
(*            SMTP) or "na" (BodyNonAtomic with a status per recipient,     *)
(*            LMTP).  Neither Prop nor Rule reads it: the action must be    *)
(*            the same on both.                                             *)
(*   output out = [verdict, action]                                         *)
(*     verdict  DMARC result of Verifier.Apply                              *)
(*     action   what the pipeline did: accept, quarantine (flag),           *)
(*              permreject (5xx), tempreject (4xx)                          *)
(*                                                                         *)
(* Domain names are case-insensitive; the organizational-domain function   *)
(* is a constant over the canonical (lower-case) names and every name also *)
(* occurs in an upper-case spelling.                                        *)
(*                                                                         *)
(* Prop = the property statement, predicate by predicate.                   *)
(* Rule = the documented procedure (RFC 7489 3.1, 6.6.2, 6.6.3; comments of *)
(* Apply / EvaluateAlignment), RuleD(devs, _) the same with named           *)
(* deviations of the code switched on:                                      *)
(*   "PSLCaseAlign"  relaxed alignment computes the organizational domain  *)
(*                   from the literal spelling with a case-sensitive        *)
(*                   public-suffix lookup (finding 21)                      *)
(*   "PSLCaseFetch"  policy discovery derives the organizational domain    *)
(*                   the same way (finding 23)                              *)
(*   "JunkNoFallback" a TXT answer without any DMARC record at the From     *)
(*                   domain ends discovery instead of falling back to the   *)
(*                   organizational domain (finding 24)                     *)
(***************************************************************************)
EXTENDS Naturals, Sequences, FiniteSets, TLC, Json

CONSTANTS MaxDkim,  \* most DKIM results per message in the verdict table
          Devs,     \* deviations switched on in AsIs (as-is configuration only)
          Gen       \* TRUE: print one ROW line per input

VARIABLE in
vars == <<in>>

Range(f) == {f[i] : i \in DOMAIN f}

-----------------------------------------------------------------------------
(* Names.  Lower[i] / Upper[i] are two spellings of the same name. *)
Lower == <<"victim.co.uk", "mail.victim.co.uk", "news.victim.co.uk", "attacker.co.uk",
           "co.uk", "example.com", "sub.example.com", "other.org">>
Upper == <<"VICTIM.CO.UK", "MAIL.VICTIM.CO.UK", "NEWS.VICTIM.CO.UK", "ATTACKER.CO.UK",
           "CO.UK", "EXAMPLE.COM", "SUB.EXAMPLE.COM", "OTHER.ORG">>
Canonical == Range(Lower)
Spellings == Canonical \cup Range(Upper)
IsLower(s) == s \in Canonical
Canon(s) == IF s = "" \/ s \in Canonical THEN s ELSE Lower[CHOOSE i \in DOMAIN Upper : Upper[i] = s]
UpperOf(d) == Upper[CHOOSE i \in DOMAIN Lower : Lower[i] = d]
Spell(d, up) == IF up /\ d # "" THEN UpperOf(d) ELSE d

(* Organizational domain (RFC 7489 3.2) as the public suffix list has it:  *)
(* co.uk, com, org are public suffixes; a public suffix is its own          *)
(* organizational domain.                                                   *)
UKFamily == {"victim.co.uk", "mail.victim.co.uk", "news.victim.co.uk"}
Org(d) == CASE d \in UKFamily -> "victim.co.uk"
            [] d \in {"example.com", "sub.example.com"} -> "example.com"
            [] OTHER -> d          \* attacker.co.uk, other.org, co.uk
IsPSuffix(d) == d = "co.uk"
OrgTable == [d \in Canonical |-> [org |-> Org(d), psuffix |-> IsPSuffix(d)]]

(* Identifier alignment (RFC 7489 3.1), on canonical names *)
Aligned(mode, f, d) ==
  /\ f # "" /\ d # ""
  /\ IF mode = "s" THEN f = d ELSE Org(f) = Org(d)

(* --- deviation: what a case-sensitive public-suffix lookup makes of a     *)
(* spelled name: a lower-case name is looked up correctly, for an upper-    *)
(* case name no rule matches and the default rule "*" makes the last label  *)
(* the public suffix, so the last two labels become the organizational      *)
(* domain.  "ERR": no organizational domain (the name is a public suffix).  *)
Last2(d) == CASE d \in UKFamily \cup {"attacker.co.uk", "co.uk"} -> "co.uk"
              [] d \in {"example.com", "sub.example.com"} -> "example.com"
              [] OTHER -> d
AsIsKey(s) == IF s = "" THEN "ERR"
              ELSE IF IsLower(s) THEN (IF IsPSuffix(s) THEN "ERR" ELSE Org(s))
              ELSE Last2(Canon(s))
AlignedAsIs(mode, fs, ds) ==
  IF mode = "s" THEN ds # "" /\ Canon(fs) = Canon(ds)
  ELSE IF IsLower(fs) /\ IsPSuffix(fs) THEN Canon(fs) = Canon(ds)
  ELSE AsIsKey(fs) # "ERR" /\ AsIsKey(ds) # "ERR" /\ AsIsKey(fs) = AsIsKey(ds)

Al(devs, mode, fs, ds) ==
  IF "PSLCaseAlign" \in devs THEN AlignedAsIs(mode, fs, ds)
  ELSE Aligned(mode, Canon(fs), Canon(ds))

-----------------------------------------------------------------------------
(* Authenticated identifiers of a row *)
DkimAl(devs, i, v) == \E k \in DOMAIN i.dkim : i.dkim[k].v = v /\ Al(devs, i.adkim, i.from, i.dkim[k].d)
(* the one identity SPF authenticated: MAIL FROM, HELO only for the null sender *)
SpfId(i) == IF i.spf.mf # "" THEN i.spf.mf ELSE i.spf.helo
SpfAl(devs, i, v)  == i.spf.v = v /\ Al(devs, i.aspf, i.from, SpfId(i))

AlignedPass(i) == DkimAl({}, i, "pass") \/ SpfAl({}, i, "pass")
(* a temporary authentication error on an aligned identifier, and no aligned pass *)
Undecided(i)   == ~AlignedPass(i) /\ (DkimAl({}, i, "temperror") \/ SpfAl({}, i, "temperror"))
TempPresent(i) == i.spf.v = "temperror" \/ \E k \in DOMAIN i.dkim : i.dkim[k].v = "temperror"

(* Policy discovery (RFC 7489 6.6.3): where the policy record is found *)
OrgLevel(i) == Org(Canon(i.from)) = Canon(i.from)
HasRecord(a) == a \in {"record", "recjunk"}       \* exactly one DMARC record after filtering
NoRecord(a)  == a \in {"none", "junk", "nxdomain"} \* no DMARC record (6.6.3 steps 2-3)
WhereD(devs, i) ==
  IF i.ldom = "servfail" THEN "temperror"
  ELSE IF HasRecord(i.ldom) THEN "dom"
  ELSE IF i.ldom = "multiple" THEN "nopolicy"
  ELSE IF "JunkNoFallback" \in devs /\ i.ldom = "junk" THEN "nopolicy"
  ELSE IF OrgLevel(i) THEN "nopolicy"            \* same name queried again, same answer
  ELSE IF "PSLCaseFetch" \in devs /\ ~IsLower(i.from) /\ Last2(Canon(i.from)) # Org(Canon(i.from))
       THEN "nopolicy"                            \* asks _dmarc.<public suffix>: nothing there
  ELSE IF i.lorg = "servfail" THEN "temperror"
  ELSE IF HasRecord(i.lorg) THEN "org"
  ELSE "nopolicy"
Where(i) == WhereD({}, i)
Found(i) == Where(i) \in {"dom", "org"} /\ i.p # "absent"
(* the published policy for that domain: sp for subdomains *)
Pub(i) == IF Where(i) = "org" /\ i.sp # "absent" THEN i.sp ELSE i.p
ActOf(pol, temp) == CASE pol = "reject" -> (IF temp THEN "tempreject" ELSE "permreject")
                      [] pol = "quarantine" -> "quarantine"
                      [] OTHER -> "accept"

-----------------------------------------------------------------------------
(* The property, one named predicate per clause of the statement. *)
One(i) == i.shape = "one"

P_PassOnlyIfAligned(i, o) == o.verdict = "pass" => (One(i) /\ Found(i) /\ AlignedPass(i))
P_PassIfAligned(i, o)     == (One(i) /\ Found(i) /\ AlignedPass(i)) => o.verdict = "pass"
P_NoPassBadFrom(i, o)     == ~One(i) => o.verdict # "pass"
(* where DMARC itself takes no action a cooperating check's quarantine may show *)
Lift(i, S) == IF i.cq # "no" /\ "accept" \in S THEN S \cup {"quarantine"} ELSE S
P_PassAccepted(i, o)      == (One(i) /\ Found(i) /\ AlignedPass(i)) => o.action \in Lift(i, {"accept"})
P_TempDNS(i, o)           == (One(i) /\ Where(i) = "temperror") => o.action = "tempreject"
P_NoPolicyNoAction(i, o)  == (One(i) /\ Where(i) = "nopolicy") => o.action \in Lift(i, {"accept"})
(* non-pass: exactly the published action; under reject an undecided       *)
(* alignment is refused temporarily.  An SPF temperror on an identity that  *)
(* is not aligned can be read both ways (the SPF evaluation as a whole did  *)
(* not complete / the identity could not have aligned anyway): both refusal *)
(* classes are accepted there.  A DKIM temperror of a signature whose d= is  *)
(* not aligned says nothing about the From domain: published action.        *)
Allowed(i) ==
  LET pol == Pub(i) IN
    IF pol = "reject" THEN (IF Undecided(i) THEN {"tempreject"}
                            ELSE IF i.spf.v = "temperror" THEN {"permreject", "tempreject"}
                            ELSE {"permreject"})
    ELSE {ActOf(pol, FALSE)}
P_PublishedAction(i, o)   == (One(i) /\ Found(i) /\ ~AlignedPass(i)) => o.action \in Lift(i, Allowed(i))
(* a record without p is not a policy (6.6.3): no action, or at most sp *)
P_InvalidRecord(i, o)     == (One(i) /\ Where(i) \in {"dom", "org"} /\ i.p = "absent") =>
                               o.action \in Lift(i, {"accept"} \cup
                                 (IF Where(i) = "org" /\ i.sp # "absent" THEN {ActOf(i.sp, FALSE)} ELSE {}))

PredNames == {"PassOnlyIfAligned", "PassIfAligned", "NoPassBadFrom", "PassAccepted", "TempDNS",
              "NoPolicyNoAction", "PublishedAction", "InvalidRecord"}
Holds(n, i, o) == CASE n = "PassOnlyIfAligned" -> P_PassOnlyIfAligned(i, o)
                    [] n = "PassIfAligned"     -> P_PassIfAligned(i, o)
                    [] n = "NoPassBadFrom"     -> P_NoPassBadFrom(i, o)
                    [] n = "PassAccepted"      -> P_PassAccepted(i, o)
                    [] n = "TempDNS"           -> P_TempDNS(i, o)
                    [] n = "NoPolicyNoAction"  -> P_NoPolicyNoAction(i, o)
                    [] n = "PublishedAction"   -> P_PublishedAction(i, o)
                    [] n = "InvalidRecord"     -> P_InvalidRecord(i, o)
Viol(i, o) == {n \in PredNames : ~Holds(n, i, o)}
Prop(i, o) == Viol(i, o) = {}

-----------------------------------------------------------------------------
(* The documented procedure, step by step. *)
RuleD0(devs, i) ==
  IF ~One(i) THEN [verdict |-> "permerror", action |-> "accept"]      \* no single author domain
  ELSE LET w == WhereD(devs, i) IN
    IF w = "temperror" THEN [verdict |-> "temperror", action |-> "tempreject"]   \* fail closed
    ELSE IF w = "nopolicy" THEN [verdict |-> "none", action |-> "accept"]
    ELSE IF i.p = "absent" THEN [verdict |-> "permerror", action |-> "accept"]
    ELSE
      LET dkimAligned == DkimAl(devs, i, "pass")
          spfAligned  == SpfAl(devs, i, "pass")
          dkimTemp    == DkimAl(devs, i, "temperror")
          v == IF dkimTemp /\ ~dkimAligned /\ ~spfAligned THEN "temperror"
               ELSE IF ~dkimAligned /\ i.spf.v = "temperror" THEN "temperror"
               ELSE IF dkimAligned \/ spfAligned THEN "pass"
               ELSE "fail"
          pol == IF w = "org" /\ i.sp # "absent" THEN i.sp ELSE i.p
      IN [verdict |-> v,
          action  |-> IF v = "pass" THEN "accept" ELSE ActOf(pol, v = "temperror")]
(* the flag a cooperating check asked for stays on a message that is not refused *)
RuleD(devs, i) == LET o == RuleD0(devs, i) IN
  IF i.cq # "no" /\ o.action = "accept" THEN [o EXCEPT !.action = "quarantine"] ELSE o
Rule(i) == RuleD({}, i)
AsIs(i) == RuleD(Devs, i)

(* verdicts that all mean "DMARC not evaluated" are one class for drift *)
VClass(v) == IF v \in {"pass", "fail", "temperror"} THEN v ELSE "noeval"
SameOut(a, b) == VClass(a.verdict) = VClass(b.verdict) /\ a.action = b.action
(* the sets of open deviations that explain an observed output exactly *)
Explains(devSets, i, o) == {D \in devSets : SameOut(o, RuleD(D, i))}

-----------------------------------------------------------------------------
(* Input tables *)
DV      == <<"pass", "fail", "temperror">>
SPFVals == <<"pass", "fail", "none", "neutral", "softfail", "temperror", "permerror">>
Pols    == {"none", "quarantine", "reject", "absent"}
Answers == {"record", "recjunk", "none", "junk", "multiple", "nxdomain", "servfail"}
Modes   == {"r", "s"}

FixLorg(fs, ldom, lorg) == IF Org(Canon(fs)) = Canon(fs) THEN ldom ELSE lorg

Row(tab, shape, fs, fs2, dk, sp, order, adkim, aspf, p, spol, pct, ldom, lorg) ==
  [tab |-> tab, shape |-> shape, from |-> fs, from2 |-> fs2, dkim |-> dk, spf |-> sp, order |-> order,
   adkim |-> adkim, aspf |-> aspf, p |-> p, sp |-> spol, pct |-> pct,
   ldom |-> ldom, lorg |-> FixLorg(fs, ldom, lorg), slow |-> FALSE, real |-> "no",
   cq |-> "no", path |-> "atomic"]
With(r, slow, real) == [r EXCEPT !.slow = slow, !.real = real]
Coop(r, cq, path) == [r EXCEPT !.cq = cq, !.path = path]

NoSig == <<[v |-> "none", d |-> ""]>>
Spf(v, mf, helo) == [v |-> v, mf |-> mf, helo |-> helo]

(* (a) alignment table: one passing identifier, every pair of spellings *)
AlignFroms == {"mail.victim.co.uk", "victim.co.uk", "sub.example.com", "co.uk"}
InAlign ==
  \E f \in AlignFroms, cf \in BOOLEAN, ds \in Spellings,
     via \in {"dkim", "mailfrom", "mailfrom_helo_aligned", "helo"}, m \in Modes :
    in = Row("align", "one", Spell(f, cf), "",
             IF via = "dkim" THEN <<[v |-> "pass", d |-> ds]>> ELSE NoSig,
             CASE via = "dkim"     -> Spf("fail", "other.org", "other.org")
               [] via = "mailfrom" -> Spf("pass", ds, "other.org")
               (* the HELO name is chosen by the client: aligned HELO next to a *)
               (* MAIL FROM domain that decides                                  *)
               [] via = "mailfrom_helo_aligned" -> Spf("pass", ds, Spell(f, cf))
               [] OTHER            -> Spf("pass", "", ds),        \* null sender: HELO is the identity
             "dkim_first", m, m, "reject", "absent", "absent", "record", "nxdomain")

(* (b) verdict table: multisets of DKIM results x SPF result x modes, the   *)
(* identifier domains in the four relations to the From domain              *)
RelDoms(f) == IF f = "mail.victim.co.uk"
              THEN <<f, "news.victim.co.uk", "attacker.co.uk", "other.org">>
              ELSE <<f, "mail.victim.co.uk", "attacker.co.uk", "other.org">>
MSD == UNION {{s \in [1..n -> 1..12] : \A k \in 1..(n - 1) : s[k] <= s[k + 1]} : n \in 1..MaxDkim}
RECURSIVE SumW(_, _)
SumW(s, k) == IF k > Len(s) THEN 0 ELSE s[k] * (2 * k + 1) + SumW(s, k + 1)
Rotate(s, k) == IF Len(s) = 0 THEN s ELSE [j \in 1..Len(s) |-> s[((j - 1 + k) % Len(s)) + 1]]
DkimOf(f, ms, ci, h) ==
  Rotate([k \in 1..Len(ms) |-> [v |-> DV[((ms[k] - 1) \div 4) + 1],
                               d |-> Spell(RelDoms(f)[((ms[k] - 1) % 4) + 1], ci)]], h)
VerdictCtx == ({"mail.victim.co.uk"} \X BOOLEAN \X BOOLEAN)
              \cup {<<"victim.co.uk", FALSE, FALSE>>, <<"victim.co.uk", TRUE, TRUE>>}
InVerdict ==
  \E c \in VerdictCtx, ms \in MSD \cup {<<>>}, sv \in 1..7, sd \in 1..4, ak \in Modes, as \in Modes :
    LET f == c[1]  cf == c[2]  ci == c[3]
        h == SumW(ms, 1) + sv + 3 * sd
    IN in = With(Row("verdict", "one", Spell(f, cf), "",
                IF ms = <<>> THEN NoSig ELSE DkimOf(f, ms, ci, h),
                IF h % 2 = 0
                THEN Spf(SPFVals[sv], Spell(RelDoms(f)[sd], ci), Spell(RelDoms(f)[((h \div 4) % 4) + 1], ci))
                ELSE Spf(SPFVals[sv], "", Spell(RelDoms(f)[sd], ci)),
                IF (h \div 2) % 2 = 0 THEN "dkim_first" ELSE "spf_first",
                ak, as, "reject", "absent", "absent", "record", "nxdomain"), h % 3 = 0, "no")

(* (c) action table: verdict class (7 identifier situations) x p x sp x pct x lookup outcomes x From *)
AuthVariants(f) ==
  << <<[v |-> "pass", d |-> f]>>,            Spf("fail", "other.org", "other.org"),
     <<[v |-> "fail", d |-> f]>>,            Spf("fail", "other.org", "other.org"),
     <<[v |-> "temperror", d |-> f]>>,       Spf("fail", "other.org", "other.org"),
     NoSig,                                  Spf("temperror", f, "other.org"),
     <<[v |-> "temperror", d |-> "other.org"]>>, Spf("fail", f, "other.org"),
     <<[v |-> "fail", d |-> f]>>,            Spf("temperror", "", "other.org"),
     <<[v |-> "fail", d |-> f]>>,            Spf("pass", "other.org", f) >>   \* aligned HELO, foreign MAIL FROM
ActionFroms == {"mail.victim.co.uk", "victim.co.uk", "sub.example.com"}
LookupPairs == {<<"record", "nxdomain">>, <<"recjunk", "record">>, <<"multiple", "record">>,
                <<"servfail", "record">>}
               \cup ({"none", "junk", "nxdomain"} \X Answers)
InAction ==
  \E f \in ActionFroms, cf \in BOOLEAN, a \in 1..7, p \in Pols, spol \in Pols,
     pct \in {"absent", "100"}, lk \in LookupPairs, slow \in BOOLEAN :
    LET m == IF (a + (IF pct = "100" THEN 1 ELSE 0)) % 2 = 0 THEN "r" ELSE "s" IN
    in = With(Row("action", "one", Spell(f, cf), "", AuthVariants(f)[2 * a - 1], AuthVariants(f)[2 * a],
                  IF a % 2 = 0 THEN "dkim_first" ELSE "spf_first", m, m, p, spol, pct, lk[1], lk[2]),
              slow, "no")

(* (d) From-header shapes without exactly one author address *)
(* "one" author address; none ("nofield", "emptygroup"); several: a list with *)
(* display names ("twoaddr"), a plain list ("plainlist"), three addresses     *)
(* ("threeaddr": from, from2, from), the same address twice ("dupaddr"), a   *)
(* group ("grouptwo"), two From fields ("twofields").  The second address is *)
(* in another domain or in the SAME domain (in either spelling): several      *)
(* authors are several authors whatever their domains are.                    *)
SeveralShapes == {"twoaddr", "plainlist", "threeaddr", "dupaddr", "twofields", "grouptwo"}
InShape ==
  \E sh \in {"one", "nofield", "emptygroup"} \cup SeveralShapes,
     pr \in {<<"victim.co.uk", "attacker.co.uk">>, <<"attacker.co.uk", "victim.co.uk">>,
             <<"victim.co.uk", "victim.co.uk">>},
     pol \in {"reject", "none"}, up \in BOOLEAN, up2 \in BOOLEAN :
    in = Row("shape", sh, Spell(pr[1], up),
             IF sh \in SeveralShapes \ {"dupaddr"} THEN Spell(pr[2], up2) ELSE "",
             <<[v |-> "pass", d |-> "victim.co.uk"]>>, Spf("pass", "victim.co.uk", "other.org"),
             "dkim_first", "r", "r", pol, "absent", "absent", "record", "nxdomain")

(* (e) DKIM results produced by the real check.dkim on real messages *)
RealKinds == {"unsigned", "valid", "broken"}
DkimOfReal(kind, d) == CASE kind = "unsigned" -> NoSig
                         [] kind = "valid"  -> <<[v |-> "pass", d |-> d]>>
                         [] OTHER           -> <<[v |-> "fail", d |-> d]>>
InRealDkim ==
  \E f \in {"victim.co.uk", "mail.victim.co.uk"}, kind \in RealKinds, sd \in 1..3, sp \in 1..4,
     m \in Modes, p \in {"reject", "quarantine", "none"} :
    LET d == RelDoms(f)[sd]
        spf == CASE sp = 1 -> Spf("fail", "other.org", "other.org")
                 [] sp = 2 -> Spf("pass", f, "other.org")
                 [] sp = 3 -> Spf("pass", "attacker.co.uk", f)
                 [] OTHER  -> Spf("none", "", "other.org")
    IN (kind = "unsigned" => sd = 1) /\
       in = With(Row("realdkim", "one", f, "", DkimOfReal(kind, d), spf,
                     IF sp % 2 = 0 THEN "dkim_first" ELSE "spf_first", m, m, p, "absent", "absent",
                     "record", "nxdomain"), FALSE, kind)

(* (f) the action table again (every identifier situation x p x sp, the four *)
(* ways a policy is or is not found) with a second component involved: a    *)
(* cooperating check that quarantines at the sender or at the body stage,   *)
(* and/or the per-recipient body path                                       *)
CoopLookups == {<<"record", "nxdomain">>, <<"nxdomain", "record">>, <<"servfail", "record">>}
CoopFroms == {"mail.victim.co.uk", "victim.co.uk"}
InCoop ==
  \E f \in CoopFroms, a \in 1..7, p \in Pols, spol \in Pols, lk \in CoopLookups,
     cq \in {"no", "sender", "body", "meta"}, path \in {"atomic", "na"} :
    LET m  == IF a % 2 = 0 THEN "r" ELSE "s"
        up == (a + (IF path = "na" THEN 1 ELSE 0)) % 2 = 0
    IN (cq # "no" \/ path = "na") /\ (cq = "meta" => (path = "na") = (a % 2 = 0)) /\
       in = Coop(With(Row("coop", "one", Spell(f, up), "", AuthVariants(f)[2 * a - 1], AuthVariants(f)[2 * a],
                          IF a % 2 = 0 THEN "dkim_first" ELSE "spf_first", m, m, p, spol, "absent", lk[1], lk[2]),
                      cq = "body" /\ a % 3 = 0, "no"), cq, path)

(* what the harness serves: TXT answers per name (queries are case-insensitive) *)
ZoneOf(i) ==
  LET f == Canon(i.from) IN
    <<[name |-> f, ans |-> i.ldom]>>
    \o (IF Org(f) # f THEN <<[name |-> Org(f), ans |-> i.lorg]>> ELSE <<>>)
    \o (IF i.from2 # "" /\ Canon(i.from2) # f /\ Canon(i.from2) # Org(f)
        THEN <<[name |-> Canon(i.from2), ans |-> "record"]>> ELSE <<>>)

-----------------------------------------------------------------------------
Init == InAlign \/ InVerdict \/ InAction \/ InShape \/ InRealDkim \/ InCoop
Next == FALSE /\ UNCHANGED in      \* one state per input (CHECK_DEADLOCK FALSE)
Spec == Init /\ [][Next]_vars

(* TLC: the documented rule satisfies the property on every row *)
RuleSatisfiesProp == Prop(in, Rule(in))
(* the theorem of DESIGN section 5: pass <=> an aligned passing identifier  *)
(* (where a policy was found and the header has one author)                 *)
PassIffAligned ==
  (One(in) /\ Found(in)) => (Rule(in).verdict = "pass" <=> AlignedPass(in))
(* as-is configuration: the code's deviations must violate the property *)
AsIsSatisfiesProp == Prop(in, AsIs(in))

ASSUME PrintT(<<"ORGTABLE", ToJson(OrgTable)>>)   \* compared with the real public suffix list by the check

Emit == Gen => PrintT(<<"ROW", ToJson([in |-> in, exp |-> Rule(in), zone |-> ZoneOf(in)])>>)
=============================================================================
