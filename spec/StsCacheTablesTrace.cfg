SPECIFICATION TSpec
CONSTANTS
  MaxMx = 3
  Devs = {}
  Gen = FALSE
CHECK_DEADLOCK FALSE
POSTCONDITION Post
