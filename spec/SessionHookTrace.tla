-------------------------- MODULE SessionHookTrace --------------------------
(***************************************************************************)
(* Trace validation for Session.tla from the session's own point of view:  *)
(* the events come from the hooks inside internal/endpoint/smtp            *)
(* (verif_trace.go, build tag verif), recorded while the REPOSITORY'S OWN  *)
(* tests of the package run, unchanged.  One trace = one Session object.   *)
(*                                                                         *)
(*   Cfg    lmtp defer            session created                          *)
(*   Cmd    v a r                 go-smtp called Mail / Rcpt / Data        *)
(*                                (method entry); a = spelling class of    *)
(*                                the argument as far as the hook can see  *)
(*                                it (ok, up, null)                        *)
(*   Tgt    tgt op r res st ts    a call on the PIPELINE delivery the      *)
(*                                session holds has returned; the pipeline *)
(*                                delivery plays the single target "T1" of *)
(*                                Session.tla (configuration nt = 1)       *)
(*   Reply  code                  the method returned: code of the error   *)
(*                                handed to go-smtp (250 = nil)            *)
(*   Reset  / Logout              go-smtp called Reset / Logout            *)
(*   End    open                  Logout returned; deliveries still open   *)
(*   Cut                          the test stopped observing (no Logout    *)
(*                                seen): safety predicates are judged on   *)
(*                                the prefix, end-of-session obligations   *)
(*                                are not                                  *)
(*                                                                         *)
(* What this vantage point does not show (and the spec therefore leaves    *)
(* open or does not judge):                                                *)
(*  - the wire: reply text and enhanced codes, the replies go-smtp writes  *)
(*    itself (EHLO, 354, RSET 250, QUIT 221, sequence and syntax errors -  *)
(*    such commands never reach the session), LMTP per-recipient replies   *)
(*    (LMTP sessions are skipped by the driver, with a count);             *)
(*  - the class of the client's input beyond its spelling: whether a       *)
(*    sender/message is one the pipeline refuses shows only in the         *)
(*    outcome, so the argument class of Session.tla is existentially       *)
(*    quantified (C_Cmd tries every class; branches that the later events  *)
(*    contradict die);                                                     *)
(*  - whether Reset is the RSET command or go-smtp's own reset after       *)
(*    DATA: decided by the state of the model (idle or not);               *)
(*  - permits: the repository's tests configure no limits.                 *)
(* The pipeline delivery is opened by startDelivery (not lazily at the     *)
(* first recipient like the targets below it): PStart is its own event,    *)
(* and the model keeps pd["T1"] = "open" for as long as the session holds  *)
(* a delivery (operator OpenT1), so that Session.tla's fan-out stages      *)
(* (rcptprog, body, commit, abort) apply to it unchanged.                  *)
(***************************************************************************)
EXTENDS Session

Trace == ndJsonDeserialize("trace.ndjson")

VARIABLES l,        \* next line of Trace
          drift,    \* the design could not explain some earlier line of this trace
          driftAt,  \* seq number of the first unexplained line (0 = none)
          tno,      \* number of the current trace
          ps        \* a pipeline Start may have been attempted in the running command

tvars == <<vars, l, drift, driftAt, tno, ps>>

Ev == Trace[l]
IsEv(e) == l <= Len(Trace) /\ Ev.e = e
Keep == l' = l + 1 /\ UNCHANGED <<drift, driftAt, tno>>
Final(e) == e \in {"End", "Cut"}

Publish(d, da, o, dv) ==
  TLCSet(1, TLCGet(1) \cup {[t |-> tno, drift |-> d, driftAt |-> da, viol |-> o.viol, devs |-> dv]})

HCfg(lmtp, defer) == [lmtp |-> lmtp, defer |-> defer, nt |-> 1, shape |-> "split", partial |-> lmtp, hold |-> FALSE]
\* go-smtp creates the session at EHLO
HInit(c) == [MInit(c) EXCEPT !.helo = TRUE, !.sx = TRUE]
OpenT1(x) == IF x.d /\ x.pd["T1"] = "none" THEN [x EXCEPT !.pd["T1"] = "open"] ELSE x

TInit ==
  /\ InitWith(HCfg(FALSE, TRUE))
  /\ l = 1 /\ drift = FALSE /\ driftAt = 0 /\ tno = 0 /\ ps = FALSE
  /\ TLCSet(1, {})

TReset ==
  /\ IsEv("Cfg")
  /\ LET c == HCfg(Ev.lmtp, Ev.defer) IN
       cfg' = c /\ m' = HInit(c) /\ obs' = ObsInit(Ev.lmtp, 0)
  /\ nf' = 0 /\ ncmd' = 0 /\ hist' = <<>> /\ ps' = FALSE
  /\ l' = l + 1 /\ drift' = FALSE /\ driftAt' = 0 /\ tno' = Ev.t

\* argument classes of Session.tla a command of the hook's class may stand for
Classes(v, a) ==
  CASE v = "MAIL" -> {a, "rej", "syn"}     \* "syn": refused without touching the session state
    [] v = "RCPT" -> {a, "rej"}            \* "rej": refused before the pipeline is asked
    [] OTHER      -> {"ok", "loop", "hdr", "cut"}

StartAttempted(x, c) ==
  \/ c.v = "MAIL" /\ ~cfg.defer /\ ~x.d /\ c.a # "syn"
  \/ c.v = "RCPT" /\ ~x.d /\ x.derr = 0

H_Cmd(c) ==
  /\ Idle
  /\ m' = OpenT1(Exec(m, c))
  /\ ncmd' = ncmd + 1
  /\ obs' = ObsCmd(obs, c.v, Ev.a, c.r)
  /\ ps' = StartAttempted(m, c)
  /\ UNCHANGED <<cfg, nf, hist>>

C_Cmd == /\ IsEv("Cmd")
         /\ \E a \in Classes(Ev.v, Ev.a) : H_Cmd([v |-> Ev.v, a |-> a, r |-> Ev.r])

\* pipeline.Start returned
C_PStart ==
  /\ IsEv("Tgt") /\ Ev.op = "start" /\ ps
  /\ IF Ev.res = "ok" THEN m.d ELSE ~m.d
  /\ obs' = ObsTgt(obs, "T1", "start", "", Ev.res, NoSt, "ok")
  /\ ps' = FALSE
  /\ UNCHANGED <<cfg, m, nf, ncmd, hist>>

C_Tgt ==
  /\ IsEv("Tgt") /\ Ev.op # "start" /\ Ev.ts = "ok" /\ Ev.tgt = "T1"
  /\ CASE Ev.op = "rcpt"   -> Ev.res \in Res /\ TRcpt("T1", Ev.r, Ev.res)
       [] Ev.op = "body"   -> Ev.res \in Res /\ (TBody("T1", Ev.res) \/ TBodyL("T1", Ev.res))
       [] Ev.op = "bodyNA" -> TBodyNA("T1", Ev.st)
       [] Ev.op = "commit" -> Ev.res \in Res /\ TCommit("T1", Ev.res)
       [] Ev.op = "abort"  -> Ev.res \in Res /\ TAbort("T1", Ev.res)
       [] OTHER -> FALSE
  /\ UNCHANGED ps

C_Reply == IsEv("Reply") /\ ReplyStep(Ev.code) /\ UNCHANGED ps

\* observation of a Reset call: what a client sees of RSET (the 250 is go-smtp's)
ObsReset(o) == ObsReply(ObsCmd(o, "RSET", "", ""), 250)

\* Reset while the model is idle is the RSET command (or an equivalent reset of go-smtp);
\* otherwise it is go-smtp's reset inside DATA/BDAT, which the running program already contains
C_Reset ==
  /\ IsEv("Reset")
  /\ m' = IF Idle THEN OpenT1(WithStk(m, AbortClean(m) \o <<St("connreset")>>)) ELSE m
  /\ obs' = ObsReset(obs)
  /\ UNCHANGED <<cfg, nf, ncmd, hist, ps>>

C_Logout ==
  /\ IsEv("Logout")
  /\ m' = IF Idle THEN WithStk(m, AbortClean(m) \o <<St("close")>>) ELSE m
  /\ obs' = ObsCmd(obs, "QUIT", "", "")
  /\ UNCHANGED <<cfg, nf, ncmd, hist, ps>>

OpenMap(n) == [t \in AllTargets |-> IF t = "T1" THEN n ELSE 0]

C_End ==
  /\ IsEv("End")
  /\ ~m.alive /\ m.stk = <<>> /\ ~m.ended
  /\ Ev.open = obs.open["T1"]
  /\ m' = [m EXCEPT !.ended = TRUE]
  /\ obs' = ObsEnd(obs, OpenMap(Ev.open), 0, 0, 0)
  /\ UNCHANGED <<cfg, nf, ncmd, hist, ps>>

C_Cut == IsEv("Cut") /\ UNCHANGED <<vars, ps>>

Conform == C_Cmd \/ C_PStart \/ C_Tgt \/ C_Reply \/ C_Reset \/ C_Logout \/ C_End \/ C_Cut

C_Step ==
  /\ ~drift
  /\ Conform
  /\ Keep
  /\ IF Final(Ev.e) THEN Publish(FALSE, 0, obs', m'.devs) ELSE TRUE

(* the observation fold, independent of the design state *)
ObsApply(o, e) ==
  CASE e.e = "Cmd"    -> ObsCmd(o, e.v, e.a, e.r)
    [] e.e = "Tgt"    -> ObsTgt(o, "T1", e.op, e.r, e.res, e.st, e.ts)
    [] e.e = "Reply"  -> ObsReply(o, e.code)
    [] e.e = "Reset"  -> ObsReset(o)
    [] e.e = "Logout" -> ObsCmd(o, "QUIT", "", "")
    [] e.e = "End"    -> ObsEnd(o, OpenMap(e.open), 0, 0, 0)
    [] OTHER -> o

M_Step ==
  /\ l <= Len(Trace) /\ Ev.e # "Cfg"
  /\ (drift \/ ~ENABLED Conform)
  /\ drift' = TRUE
  /\ driftAt' = IF drift THEN driftAt ELSE Ev.seq
  /\ obs' = ObsApply(obs, Ev)
  /\ l' = l + 1
  /\ UNCHANGED <<cfg, m, nf, ncmd, hist, tno, ps>>
  /\ IF Final(Ev.e) THEN Publish(TRUE, driftAt', obs', m.devs) ELSE TRUE

TNext == TReset \/ C_Step \/ M_Step
TSpec == TInit /\ [][TNext]_tvars

Post == PrintT(<<"VERDICTS", ToJson(TLCGet(1))>>)
=============================================================================
