\* X18 rows out of TLC (reference)
SPECIFICATION Spec
CONSTANTS
  Tab = "all"
  Full = TRUE
  Devs = {}
  Gen = TRUE
INVARIANTS RuleSatisfiesProp
CONSTRAINT Emit
CHECK_DEADLOCK FALSE
