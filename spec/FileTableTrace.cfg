SPECIFICATION TSpec
CONSTANTS
  K = 2
  MaxTime = 1000
  MaxEnv = 1000
  MaxForce = 1000
  EnvKinds = {"put", "putbad", "putold", "trunc", "app", "rm", "dir", "loop", "unread", "close", "slow"}
  InitKinds = {"good", "none", "bad", "dir", "loop", "unread"}
  OldStamps = {0, 1, 2, 3, 4, 5, 6, 7, 8, 9, 10, 11, 12, 13, 14, 15, 16, 17, 18, 19, 20, 21, 22, 23, 24, 25, 26, 27, 28, 29, 30, 31, 32, 33, 34, 35, 36, 37, 38, 39, 40}
  Devs = {"StatErrPanic", "OldMtimeIgnored"}
  Gen = FALSE
CHECK_DEADLOCK FALSE
POSTCONDITION Post
