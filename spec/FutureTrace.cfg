SPECIFICATION TSpec
CONSTANTS
  Getters = {"g1", "g2", "g3"}
  CtxGetters = {"g1", "g2"}
  Setters = {"t1", "t2"}
  MaxCancel = 1000
  Devs = {}
  Gen = FALSE
CHECK_DEADLOCK FALSE
POSTCONDITION Post
