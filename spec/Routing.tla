------------------------------ MODULE Routing ------------------------------
(***************************************************************************)
(* Message routing of maddy's pipeline (docs/reference/smtp-pipeline.md;  *)
(* internal/msgpipeline/config.go, msgpipeline.go) as a decision           *)
(* procedure over CONFIGURATIONS AS DATA.                                   *)
(*                                                                         *)
(* A configuration is the directive tree itself: a sequence of nodes       *)
(*   [d |-> "source",  rules |-> <<addr..>>, c |-> <<node..>>]             *)
(*   [d |-> "source_in", keys |-> <<addr..>>, tk |-> kind, fail |-> <<addr..>>, c |-> ..]  (table) *)
(*        (a key of a source_in table may be the null sender; the catch-all kinds *)
(*         "identity" / "regexp_all" have keys = <<>> and answer for every key)   *)
(*   [d |-> "default_source", c |-> ..]                                    *)
(*   destination / destination_in / default_destination   likewise        *)
(*   [d |-> "reject", code |-> 550]          (0 = bare `reject` = 554)     *)
(*   [d |-> "deliver_to", tgt |-> "T1"]                                    *)
(*   [d |-> "modify", map |-> <<[k |-> addr, v |-> <<addr..>>]..>>]        *)
(*   [d |-> "reroute", c |-> ..]                                           *)
(* An address is [l, d, v]: local part, domain, SPELLING VARIANT; a match  *)
(* rule with l = "" is a domain rule; l = d = "" is the null sender; in a  *)
(* rewrite map d = "" is a bare local part (alias key / domain-less value). *)
(*                                                                         *)
(* Part 1  Norm, the lookup-key equivalence (spelling does not matter).    *)
(* Part 2  Load(cfg): the documented load-time rules.                      *)
(* Part 3  the PROPERTY, declaratively: IsSel characterises the single    *)
(*         selected block; Dec(cfg, s, r) is the set of final decisions    *)
(*         the documentation allows for recipient r of sender s;           *)
(*         RcptViol / EnvViol / RowViol name the clauses of C04 that an    *)
(*         observed outcome breaks.                                        *)
(* Part 4  the documented ALGORITHM, operationally (RouteP, RouteS, RouteD): table, *)
(*         then address rule, then domain rule, then default; sequential   *)
(*         rewriting scope by scope, early stop at the first refusal.      *)
(*         Known deviations of the code are branches switched by the       *)
(*         deviation set D ("F19", "F18"); D = {} is the documentation.    *)
(* Part 5  model theorems checked by TLC on every generated configuration. *)
(* Part 6  the configuration generator (directive grammar as actions).     *)
(***************************************************************************)
EXTENDS Naturals, Sequences, FiniteSets, TLC, Json, SequencesExt

CONSTANTS Locals, Doms,      \* alphabet of the match rules / tables / rewrite maps
          EnvLocals,         \* further local parts that occur in envelopes only
          RuleVars,          \* spelling variants used inside configurations
          EnvVars,           \* spelling variants used in envelopes
          Targets, Codes,    \* delivery targets, reject codes (0 = bare reject)
          MaxSrc, MaxDst,    \* source-family / destination-family blocks per level (without default)
          MaxDepth,          \* reroute nesting
          MaxMod,            \* modify directives per configuration
          MaxBlocks,         \* blocks (source/destination family, reroute) per configuration
          MaxRules,          \* rules per source/destination directive
          MaxKeys,           \* keys per source_in/destination_in table
          MaxEntries,        \* entries of one rewrite map
          MaxVals,           \* values of one rewrite entry (1-to-N)
          DefaultLast,       \* TRUE: the default block is always declared last (cuts symmetric orders)
          MaxDefects,        \* defect budget (missing default, undecided block, mixed level, reject+deliver_to)
          DefectOdds,        \* one configuration in DefectOdds+1 starts with that budget, the others with 0
          Salts,             \* set of spelling salts for the envelope sweep
          MaxScopeMods,      \* modify directives in one scope
          TableKinds,        \* table modules of source_in / destination_in
          SenderCap,         \* envelopes of the sweep (sender classes); bounds without source blocks need few
          BareMaps,          \* rewrite maps may use local-part keys and domain-less values
          NullKeys,          \* source_in tables may list the null reverse-path (the empty key)
          DupRules,          \* a rule list may repeat a rule (inside one directive; across directives is always possible)
          FlatOnly,          \* a level whose block budget (MaxSrc / MaxDst) is 0 is written flat (no lone default block)
          PrintExpected      \* rows carry the expected routing (Rule) of every envelope

(***************************************************************************)
(* Part 1: spelling and Norm                                               *)
(***************************************************************************)
VOrder == <<"lower", "upper", "nfc", "nfd", "alabel", "ALABEL">>
AsciiL == {"l2", "l3", "lx"}       \* local parts spelled in ASCII only
AsciiD == {"d2", "dx"}       \* domains that are not IDNs

AsciiSp(v) == IF v \in {"upper", "ALABEL"} THEN "up" ELSE IF v = "nfc" THEN "ti" ELSE "lo"
LSp(l, v) == IF l = "" THEN "" ELSE IF l \in AsciiL THEN AsciiSp(v)
             ELSE IF v = "nfd" THEN "nfd" ELSE AsciiSp(v)
DSp(d, v) == IF d = "" THEN "" ELSE IF d \in AsciiD THEN AsciiSp(v)
             ELSE IF v = "nfd" THEN "nfd" ELSE IF v = "alabel" THEN "al"
             ELSE IF v = "ALABEL" THEN "AL" ELSE AsciiSp(v)
Sp(a) == <<LSp(a.l, a.v), DSp(a.d, a.v)>>      \* the concrete string, abstractly

(* two variants of the same (l, d) can denote one string; the first variant *)
(* in VOrder is the canonical name of a spelling (the harness does the same) *)
CanonV(a) == IF \A i \in 1..Len(VOrder) : VOrder[i] # a.v THEN a.v
             ELSE LET i == CHOOSE i \in 1..Len(VOrder) :
                              /\ Sp([a EXCEPT !.v = VOrder[i]]) = Sp(a)
                              /\ \A j \in 1..(i - 1) : Sp([a EXCEPT !.v = VOrder[j]]) # Sp(a)
                  IN VOrder[i]
Canon(a) == [l |-> a.l, d |-> a.d, v |-> CanonV(a)]

(* Norm: what a lookup key is.  Documented: letter case, Unicode           *)
(* normalisation form and A-label/U-label spelling do not matter.          *)
(* Deviation F18 (dns.ForLookup does not decode upper-case XN-- labels):   *)
(* an upper-case A-label spelling of an IDN stays a different key.         *)
Ace(D, a) == "F18" \in D /\ a.d \notin AsciiD /\ a.d # "" /\ a.v = "ALABEL"
Norm(D, a) == <<a.l, a.d, Ace(D, a)>>
NormDom(D, a) == <<a.d, Ace(D, a)>>
IsNull(a) == a.l = "" /\ a.d = ""
IsDomRule(x) == x.l = "" /\ x.d # ""

(***************************************************************************)
(* Part 2: load-time rules                                                 *)
(***************************************************************************)
SrcFam == {"source", "source_in", "default_source"}
DstFam == {"destination", "destination_in", "default_destination"}
Leaf   == {"deliver_to", "reject", "reroute"}

Idx(ns, names) == {i \in 1..Len(ns) : ns[i].d \in names}
Sub(ns, names) == SelectSeq(ns, LAMBDA n : n.d \in names)
NonMod(ns) == SelectSeq(ns, LAMBDA n : n.d # "modify")
Mods(ns) == Sub(ns, {"modify"})

GapReasons == {"no_default_source", "no_default_destination", "undecided_dest_block",
               "undecided_implied"}

(* F19: parseMsgPipelineRcptCfg never checks that a destination block has *)
(* a decision; only an EMPTY default_destination is refused.               *)
RECURSIVE LoadP(_, _), LoadS(_, _), LoadD(_, _, _)
LoadD(D, ns, blk) ==      \* blk: "" implied block, otherwise the directive of the explicit block
  LET rej == Idx(ns, {"reject"})
      dlv == Idx(ns, {"deliver_to", "reroute"})
      undecided == rej = {} /\ dlv = {}
      asisOK == "F19" \in D /\ blk \in DstFam /\ ~(blk = "default_destination" /\ ns = <<>>)
  IN (IF undecided /\ ~asisOK
        THEN {IF blk = "" THEN "undecided_implied" ELSE "undecided_dest_block"} ELSE {})
     \cup (IF rej # {} /\ dlv # {} THEN {"reject_and_deliver"} ELSE {})
     \cup UNION {LoadP(D, ns[i].c) : i \in Idx(ns, {"reroute"})}

LoadS(D, ns) ==
  LET fam == Idx(ns, DstFam)
      dfl == Idx(ns, {"default_destination"})
  IN IF fam = {} THEN LoadD(D, NonMod(ns), "")
     ELSE (IF dfl = {} THEN {"no_default_destination"} ELSE {})
          \cup (IF Cardinality(dfl) > 1 THEN {"dup_default"} ELSE {})
          \cup (IF Idx(ns, Leaf) # {} THEN {"mixed_level"} ELSE {})
          \cup UNION {LoadD(D, ns[i].c, ns[i].d) : i \in fam}

LoadP(D, ns) ==
  LET fam == Idx(ns, SrcFam)
      dfl == Idx(ns, {"default_source"})
  IN IF fam = {} THEN LoadS(D, NonMod(ns))
     ELSE (IF dfl = {} THEN {"no_default_source"} ELSE {})
          \cup (IF Cardinality(dfl) > 1 THEN {"dup_default"} ELSE {})
          \cup (IF Idx(ns, Leaf \cup DstFam) # {} THEN {"mixed_level"} ELSE {})
          \cup UNION {LoadS(D, ns[i].c) : i \in fam}

LoadReasons(D, cfg) == LoadP(D, cfg)
Load(D, cfg) == IF LoadReasons(D, cfg) = {} THEN "ok" ELSE "error"

(***************************************************************************)
(* Part 3: the property, declaratively                                     *)
(***************************************************************************)
(* classes at which block b matches address a: 1 table, 2 full address,   *)
(* 3 domain, 4 default                                                     *)
(* A source_in / destination_in table [keys, tk, fail]: tk is the table module   *)
(* (static, file, regexp without / with replacement, scripted); every kind lists *)
(* exactly `keys`.  A lookup that FAILS (scripted table, keys in `fail`) is       *)
(* logged and counts as "no match" for that address - and only for that address, *)
(* whatever was looked up before (msgpipeline.go: srcBlockForAddr/rcptBlockForAddr).*)
(* Deviation F33: table.regexp without replacement answered not-found for all.   *)
(* A key may be the null reverse-path (l = d = ""): the table is asked for the    *)
(* empty key when the sender is <>, like for any other sender.  CATCH-ALL tables  *)
(* (table.identity, `regexp ".*"`) have no key list and answer for EVERY key,     *)
(* the empty one included.                                                        *)
CatchAll == {"identity", "regexp_all"}
TableHas(D, b, a) ==
  /\ \/ b.tk \in CatchAll
     \/ \E i \in 1..Len(b.keys) : Norm(D, b.keys[i]) = Norm(D, a)
  /\ ~\E i \in 1..Len(b.fail) : Norm(D, b.fail[i]) = Norm(D, a)
  /\ ~("F33" \in D /\ b.tk \in {"regexp", "regexp_all"})

Cls(D, b, a) ==
  (IF b.d \in {"source_in", "destination_in"} /\ TableHas(D, b, a) THEN {1} ELSE {})
  \cup (IF b.d \in {"source", "destination"}
      /\ \E i \in 1..Len(b.rules) : ~IsDomRule(b.rules[i]) /\ Norm(D, b.rules[i]) = Norm(D, a)
        THEN {2} ELSE {})
  \cup (IF b.d \in {"source", "destination"} /\ ~IsNull(a)
      /\ \E i \in 1..Len(b.rules) : IsDomRule(b.rules[i]) /\ NormDom(D, b.rules[i]) = NormDom(D, a)
        THEN {3} ELSE {})
  \cup (IF b.d \in {"default_source", "default_destination"} THEN {4} ELSE {})

(* block i is THE selected block for a: it matches at some class k, nothing *)
(* matches at a better class, and no earlier declaration matches at k       *)
IsSel(D, ns, I, a, i) ==
  \E k \in Cls(D, ns[i], a) :
     /\ \A j \in I : \A k2 \in Cls(D, ns[j], a) : k2 >= k
     /\ \A j \in I : j < i => k \notin Cls(D, ns[j], a)
SelSet(D, ns, I, a) == {i \in I : IsSel(D, ns, I, a, i)}

(* rewriting as a relation (order-free) *)
(* replace_rcpt (docs/reference/modifiers/envelope.md): first the whole address is *)
(* looked up; if there is no replacement the local part is looked up separately   *)
(* and replaced while the domain part is kept.  A key / value with d = "" is a    *)
(* bare local part; a bare value is completed with the (normalised) domain of the *)
(* address being rewritten - of THIS address, whatever was rewritten before.      *)
IsBare(x) == x.d = "" /\ x.l # ""
Complete(D, x, a) == IF IsBare(x) THEN [l |-> x.l, d |-> a.d, v |-> IF Ace(D, a) THEN "alabel" ELSE "lower"]
                     ELSE x
RwOne(D, map, a) ==
  LET F == {i \in 1..Len(map) : ~IsBare(map[i].k) /\ Norm(D, map[i].k) = Norm(D, a)}
      B == {i \in 1..Len(map) : IsBare(map[i].k) /\ map[i].k.l = a.l}
  IN IF F # {} THEN map[CHOOSE i \in F : \A j \in F : i <= j].v
     ELSE IF B # {} /\ ~IsNull(a)
       THEN LET v == map[CHOOSE i \in B : \A j \in B : i <= j].v
            IN [j \in 1..Len(v) |-> Complete(D, v[j], a)]
     ELSE <<a>>
RwSet(D, mods, as) ==
  FoldLeft(LAMBDA acc, m : UNION {ToSet(RwOne(D, m.map, a)) : a \in acc}, as, mods)

RejCode(c) == IF c = 0 THEN 554 ELSE c
None(why) == [kind |-> "none", why |-> why, t |-> "", a |-> <<>>, code |-> 0]
Rej(c) == [kind |-> "reject", why |-> "", t |-> "", a |-> <<>>, code |-> RejCode(c)]
Dlv(t, a) == [kind |-> "deliver", why |-> "", t |-> t, a |-> Canon(a), code |-> 0]

(* Dec: every final decision the documentation prescribes for recipient r *)
(* of a message from s: deliver (target, effective address), reject code, *)
(* or "none" where the configuration has no explicit decision.  Always     *)
(* evaluated with D = {} when used as the property.                        *)
RECURSIVE DecP(_, _, _, _), DecS(_, _, _, _), DecD(_, _, _, _, _)
DecD(D, ns, s, a, blk) ==
  LET rej == Sub(ns, {"reject"})
      tg == Sub(ns, {"deliver_to"})
      rr == Sub(ns, {"reroute"})
      as == RwSet(D, Mods(ns), {a})
  IN IF rej # <<>> THEN {Rej(rej[i].code) : i \in 1..Len(rej)}
     ELSE IF tg = <<>> /\ rr = <<>>
            THEN {None(IF blk = "" THEN "undecided_implied" ELSE "undecided_dest_block")}
     ELSE {Dlv(tg[i].tgt, x) : i \in 1..Len(tg), x \in as}
          \cup UNION {DecP(D, rr[i].c, s, x) : i \in 1..Len(rr), x \in as}

DecS(D, ns, s, r) ==
  LET rs == RwSet(D, Mods(ns), {r})
      I == Idx(ns, DstFam)
  IN IF I = {} THEN UNION {DecD(D, NonMod(ns), s, a, "") : a \in rs}
     ELSE UNION {LET sel == SelSet(D, ns, I, a)
                 IN IF sel = {} THEN {None("no_default_destination")}
                    ELSE UNION {DecD(D, ns[i].c, s, a, ns[i].d) : i \in sel} : a \in rs}

DecP(D, ns, s, r) ==
  LET rs == RwSet(D, Mods(ns), {r})
      I == Idx(ns, SrcFam)
  IN IF I = {} THEN UNION {DecS(D, NonMod(ns), s, a) : a \in rs}
     ELSE LET sel == SelSet(D, ns, I, s)
          IN IF sel = {} THEN {None("no_default_source")}
             ELSE UNION {DecS(D, ns[i].c, s, a) : i \in sel, a \in rs}

Dec(cfg, s, r) == DecP({}, cfg, s, r)

(* representative senders / recipients: every (local, domain) class of the *)
(* alphabet, an address no rule can name, and the null sender             *)
Other == [l |-> "lx", d |-> "dx", v |-> "lower"]
NullS == [l |-> "", d |-> "", v |-> "lower"]
ClassReps == {[l |-> l, d |-> d, v |-> "lower"] : l \in Locals \cup EnvLocals, d \in Doms} \cup {Other}
SenderReps == ClassReps \cup {NullS}

GapWhy(cfg) == {x.why : x \in {y \in UNION {Dec(cfg, s, r) : s \in SenderReps, r \in ClassReps} :
                                 y.kind = "none"}}
Gap(cfg) == GapWhy(cfg) # {}

(* ---- what an observed outcome may look like -------------------------- *)
(* o = [code, ench, dl] of one recipient; dl = <<[t, a]..>> AddRcpt calls  *)
DlSet(dl) == {<<dl[i].t, Canon(dl[i].a)>> : i \in 1..Len(dl)}
EnchOf(code) == IF code \div 100 = 4 THEN "4.7.0" ELSE "5.7.0"

RcptViol(dec, o) ==
  LET want == {<<x.t, x.a>> : x \in {y \in dec : y.kind = "deliver"}}
      got == DlSet(o.dl)
  IN IF o.code = 0
     THEN (IF \E x \in dec : x.kind = "reject" THEN {"NotRefused"} ELSE {})
          \cup (IF \E x \in dec : x.kind = "none" THEN {"NoDecision"} ELSE {})
          \cup (IF want \ got # {} THEN {"MissedTarget"} ELSE {})
          \cup (IF got \ want # {} THEN {"ForeignTarget"} ELSE {})
     ELSE (IF \E x \in dec : x.kind = "reject" /\ x.code = o.code /\ o.ench = EnchOf(o.code)
             THEN {} ELSE {"WrongReply"})
          \cup (IF got \ want # {} THEN {"ForeignTarget"} ELSE {})

(* matching is insensitive to spelling: recipients of one envelope row with *)
(* the same documented lookup keys get the same decision                    *)
Shape(o) == <<o.code, {<<o.dl[i].t, o.dl[i].a.l, o.dl[i].a.d>> : i \in 1..Len(o.dl)}>>

(* e = envelope [s, r], o = recorded [mail, rc, tg, fin] *)
EnvViol(cfg, e, o) ==
  IF o.mail # 0
  THEN (IF \A i \in 1..Len(e.r) : Dec(cfg, e.s, e.r[i]) = {Rej(o.mail)} THEN {} ELSE {"MailRefused"})
  ELSE UNION {RcptViol(Dec(cfg, e.s, e.r[i]), o.rc[i]) : i \in 1..Len(e.r)}
       \cup (IF \E k \in 1..Len(o.tg) :
                  /\ o.tg[k].rc # <<>>
                  /\ o.tg[k].st # (IF o.fin = "commit" THEN "committed" ELSE "aborted")
               THEN {"NotHandedOver"} ELSE {})
       \cup (IF \E k \in 1..Len(o.tg) : Canon(o.tg[k].from) # Canon(e.s) THEN {"SenderChanged"} ELSE {})
       \cup (IF \E i, j \in 1..Len(e.r) :
                  /\ Norm({}, e.r[i]) = Norm({}, e.r[j])
                  /\ Shape(o.rc[i]) # Shape(o.rc[j])
               THEN {"SpellingSensitive"} ELSE {})

(***************************************************************************)
(* Part 4: the documented algorithm, operationally                         *)
(***************************************************************************)
MinOf(S) == CHOOSE i \in S : \A j \in S : i <= j
FirstAt(D, ns, I, a, k) == LET M == {i \in I : k \in Cls(D, ns[i], a)} IN IF M = {} THEN 0 ELSE MinOf(M)
SelOp(D, ns, I, a) ==
  LET t == FirstAt(D, ns, I, a, 1) IN IF t # 0 THEN t ELSE        \* table match
  LET f == FirstAt(D, ns, I, a, 2) IN IF f # 0 THEN f ELSE        \* full-address rule
  LET g == FirstAt(D, ns, I, a, 3) IN IF g # 0 THEN g ELSE        \* domain rule
  FirstAt(D, ns, I, a, 4)                                          \* default (0 = none)

RwSeq(D, mods, as) ==
  FoldLeft(LAMBDA acc, m : FoldLeft(LAMBDA acc2, a : acc2 \o RwOne(D, m.map, a), <<>>, acc), as, mods)

Acc0 == [code |-> 0, dl |-> <<>>]
NoDecisionCode == 1      \* not an SMTP code: the configuration has no decision

(* run F over the sequence xs, stop at the first refusal *)
SeqStop(F(_), xs) ==
  FoldLeft(LAMBDA acc, x : IF acc.code # 0 THEN acc
                           ELSE LET y == F(x) IN [code |-> y.code, dl |-> acc.dl \o y.dl],
           Acc0, xs)

RECURSIVE RouteP(_, _, _, _), RouteS(_, _, _, _), RouteD(_, _, _, _, _)
RouteD(D, ns, s, a, blk) ==
  LET rej == Sub(ns, {"reject"})
      tgs == Sub(ns, {"deliver_to", "reroute"})        \* in declaration order
      as == RwSeq(D, Mods(ns), <<a>>)
  IN IF rej # <<>> THEN [code |-> RejCode(rej[1].code), dl |-> <<>>]
     ELSE IF tgs = <<>>
            THEN IF "F19" \in D /\ blk \in DstFam THEN Acc0      \* accepted, delivered nowhere
                 ELSE [code |-> NoDecisionCode, dl |-> <<>>]
     ELSE SeqStop(LAMBDA x :
            SeqStop(LAMBDA n : IF n.d = "deliver_to" THEN [code |-> 0, dl |-> <<[t |-> n.tgt, a |-> Canon(x)]>>]
                               ELSE RouteP(D, n.c, s, x), tgs), as)

RouteS(D, ns, s, r) ==
  LET rs == RwSeq(D, Mods(ns), <<r>>)
      I == Idx(ns, DstFam)
  IN IF I = {} THEN SeqStop(LAMBDA a : RouteD(D, NonMod(ns), s, a, ""), rs)
     ELSE SeqStop(LAMBDA a : LET i == SelOp(D, ns, I, a)
                             IN IF i = 0 THEN [code |-> NoDecisionCode, dl |-> <<>>]
                                ELSE RouteD(D, ns[i].c, s, a, ns[i].d), rs)

RouteP(D, ns, s, r) ==
  LET rs == RwSeq(D, Mods(ns), <<r>>)
      I == Idx(ns, SrcFam)
  IN IF I = {} THEN SeqStop(LAMBDA a : RouteS(D, NonMod(ns), s, a), rs)
     ELSE LET i == SelOp(D, ns, I, s)
          IN IF i = 0 THEN [code |-> NoDecisionCode, dl |-> <<>>]
             ELSE SeqStop(LAMBDA a : RouteS(D, ns[i].c, s, a), rs)

Route(D, cfg, s, r) == RouteP(D, cfg, s, r)

(* the expected record of a whole envelope / row *)
RuleEnv(D, cfg, e) == [mail |-> 0, rc |-> [i \in 1..Len(e.r) |-> Route(D, cfg, e.s, e.r[i])]]
ProjEnv(o) == [mail |-> o.mail,
               rc |-> [i \in 1..Len(o.rc) |->
                         [code |-> o.rc[i].code,
                          dl |-> [j \in 1..Len(o.rc[i].dl) |->
                                    [t |-> o.rc[i].dl[j].t, a |-> Canon(o.rc[i].dl[j].a)]]]]]

(* configurations whose routing the documentation defines *)
Routable(D, cfg) == LoadReasons(D, cfg) \subseteq GapReasons

(***************************************************************************)
(* Part 5: model theorems (checked on every generated configuration)       *)
(***************************************************************************)
RECURSIVE UniqueP(_), UniqueS(_), UniqueD(_)
UniqueD(ns) == \A i \in Idx(ns, {"reroute"}) : UniqueP(ns[i].c)
UniqueS(ns) ==
  LET I == Idx(ns, DstFam) IN
  IF I = {} THEN UniqueD(ns)
  ELSE /\ \A a \in ClassReps :
            /\ Cardinality(SelSet({}, ns, I, a)) <= 1
            /\ (Idx(ns, {"default_destination"}) # {} => Cardinality(SelSet({}, ns, I, a)) = 1)
            /\ SelSet({}, ns, I, a) = {SelOp({}, ns, I, a)} \ {0}
       /\ \A i \in I : UniqueD(ns[i].c)
UniqueP(ns) ==
  LET I == Idx(ns, SrcFam) IN
  IF I = {} THEN UniqueS(ns)
  ELSE /\ \A a \in SenderReps :
            /\ Cardinality(SelSet({}, ns, I, a)) <= 1
            /\ (Idx(ns, {"default_source"}) # {} => Cardinality(SelSet({}, ns, I, a)) = 1)
            /\ SelSet({}, ns, I, a) = {SelOp({}, ns, I, a)} \ {0}
       /\ \A i \in I : UniqueS(ns[i].c)

Thm_SelectedBlockUnique(cfg) == UniqueP(cfg)
Thm_LoadableHasDecision(cfg) == Load({}, cfg) = "ok" => ~Gap(cfg)
Thm_RuleSatisfiesProp(cfg) ==
  Load({}, cfg) = "ok" =>
    \A s \in SenderReps, r \in ClassReps :
       LET o == Route({}, cfg, s, r) IN
       /\ o.code # NoDecisionCode
       /\ RcptViol(Dec(cfg, s, r), [code |-> o.code, ench |-> EnchOf(o.code), dl |-> o.dl]) = {}
Theorems(cfg) == /\ Thm_SelectedBlockUnique(cfg)
                 /\ Thm_LoadableHasDecision(cfg)
                 /\ Thm_RuleSatisfiesProp(cfg)

(***************************************************************************)
(* Part 6: the generator - the directive grammar as actions                *)
(***************************************************************************)
VARIABLES stack,    \* open blocks, innermost last
          cfg,      \* the finished configuration
          phase,    \* "build" | "done"
          budget,   \* defects still allowed (missing default, undecided block, mixed level, reject+deliver_to)
          nmod,     \* modify directives used
          nopen,    \* blocks opened so far
          salt      \* spelling salt of the envelope sweep
vars == <<stack, cfg, phase, budget, nmod, nopen, salt>>

Addr(l, d, v) == [l |-> l, d |-> d, v |-> v]
CanonAddrs(V) == {a \in {Addr(l, d, v) : l \in Locals, d \in Doms, v \in V} : CanonV(a) = a.v}
CanonDoms(V) == {a \in {Addr("", d, v) : d \in Doms, v \in V} : CanonV(a) = a.v}
RuleAtoms == CanonAddrs(RuleVars) \cup CanonDoms(RuleVars)
Keys == {Addr(l, d, "lower") : l \in Locals, d \in Doms}       \* table keys are written canonically

(* rule lists / key lists / rewrite values are filled element by element *)
(* a source_in table may also list the null reverse-path; table.file cannot hold an empty key *)
KeysOf(kind, tk) == Keys \cup (IF NullKeys /\ kind = "source_in" /\ tk # "file" THEN {NullS} ELSE {})
KeySeq == SetToSeq(Keys) \o <<NullS>>
KeyRank(k) == CHOOSE i \in 1..Len(KeySeq) : KeySeq[i] = k
BareKeys == IF BareMaps THEN {Addr(l, "", "lower") : l \in Locals} ELSE {}    \* `entry alias ...`
MapKeySeq == SetToSeq(Keys \cup BareKeys)
MapKeyRank(k) == CHOOSE i \in 1..Len(MapKeySeq) : MapKeySeq[i] = k
HasArgs(kind) == kind \in {"source", "destination", "source_in", "destination_in"}

Frame(kind, lvl, depth, need, tk, fm) ==
  [kind |-> kind, args |-> <<>>, need |-> need, tk |-> tk, fm |-> fm, lvl |-> lvl, mode |-> "new", c |-> <<>>,
   depth |-> depth, nblk |-> 0, hasDef |-> FALSE, dec |-> "none", ndel |-> 0, nrr |-> 0, mneed |-> 0,
   mbare |-> FALSE]

Top == stack[Len(stack)]
SetTop(f) == stack' = [stack EXCEPT ![Len(stack)] = f]
Building == phase = "build" /\ Len(stack) > 0
Filling == Len(Top.args) < Top.need \/ Top.mneed > 0      \* header or rewrite values incomplete
Ready == Building /\ ~Filling

GInit ==
  /\ stack = <<Frame("root", "P", 0, 0, "", "")>>
  /\ cfg = <<>>
  /\ phase = "build"
  /\ \E b \in 0..DefectOdds : budget = IF b = 0 THEN MaxDefects ELSE 0
  /\ nmod = 0
  /\ nopen = 0
  /\ salt \in Salts

(* `modify { replace_rcpt static { entry k v.. } }` as first directive of a block: *)
(* choose the key and the number of values (1-to-N), then the values              *)
LastC == Top.c[Len(Top.c)]
SetLastC(f, n) == [f EXCEPT !.c = [f.c EXCEPT ![Len(f.c)] = n]]
G_Modify ==
  /\ Ready /\ Top.mode = "new"            \* in mode "new" a frame holds modify directives only
  /\ \E k \in Keys \cup BareKeys, n \in 1..MaxVals, bare \in BOOLEAN, fresh \in BOOLEAN :
       /\ bare => IsBare(k) /\ n <= Cardinality(BareKeys)   \* domain-less values only under a local-part key
       /\ IF fresh
            THEN /\ nmod < MaxMod /\ Len(Top.c) < MaxScopeMods          \* one more `modify { }` in this scope
                 /\ SetTop([Top EXCEPT !.c = Append(@, [d |-> "modify", map |-> <<[k |-> k, v |-> <<>>]>>]),
                                       !.mneed = n, !.mbare = bare])
                 /\ nmod' = nmod + 1
            ELSE /\ Top.c # <<>> /\ Len(LastC.map) < MaxEntries          \* one more entry in the last one
                 /\ MapKeyRank(k) > MapKeyRank(LastC.map[Len(LastC.map)].k)
                 /\ SetTop([SetLastC(Top, [d |-> "modify", map |-> Append(LastC.map, [k |-> k, v |-> <<>>])])
                              EXCEPT !.mneed = n, !.mbare = bare])
                 /\ nmod' = nmod
  /\ UNCHANGED <<cfg, phase, budget, nopen, salt>>
G_ModVal ==
  /\ Building /\ Top.mneed > 0
  /\ \E x \in IF Top.mbare THEN BareKeys ELSE CanonAddrs(RuleVars) :
       LET m == LastC.map
           e == m[Len(m)]
       IN /\ \A i \in 1..Len(e.v) : e.v[i] # x
          /\ SetTop([SetLastC(Top, [d |-> "modify",
                                    map |-> [m EXCEPT ![Len(m)] = [e EXCEPT !.v = Append(@, x)]]])
                       EXCEPT !.mneed = @ - 1])
  /\ UNCHANGED <<cfg, phase, budget, nmod, nopen, salt>>

(* header arguments of source / destination / *_in *)
G_Arg ==
  /\ Building /\ Len(Top.args) < Top.need
  /\ \/ /\ Top.kind \in {"source", "destination"}
        /\ \E x \in RuleAtoms : /\ DupRules \/ \A i \in 1..Len(Top.args) : Top.args[i] # x
                                /\ SetTop([Top EXCEPT !.args = Append(@, x)])
     \/ /\ Top.kind \in {"source_in", "destination_in"}
        /\ LET K == KeysOf(Top.kind, Top.tk)
           IN \E x \in K :
                /\ Top.args # <<>> => KeyRank(x) > KeyRank(Top.args[Len(Top.args)])
                \* enough keys of higher rank are left for the remaining arguments
                /\ Cardinality({y \in K : KeyRank(y) > KeyRank(x)}) >= Top.need - Len(Top.args) - 1
                /\ SetTop([Top EXCEPT !.args = Append(@, x)])
  /\ UNCHANGED <<cfg, phase, budget, nmod, nopen, salt>>

(* "no source blocks: the whole configuration is the default_source block" *)
G_Flat ==
  /\ Ready /\ Top.mode = "new" /\ Top.lvl \in {"P", "S"}
  /\ SetTop([Top EXCEPT !.lvl = IF Top.lvl = "P" THEN "S" ELSE "D"])
  /\ UNCHANGED <<cfg, phase, budget, nmod, nopen, salt>>
G_Blocks ==
  /\ Ready /\ Top.mode = "new" /\ Top.lvl \in {"P", "S"}
  /\ FlatOnly => (IF Top.lvl = "P" THEN MaxSrc ELSE MaxDst) > 0
  /\ SetTop([Top EXCEPT !.mode = "blocks"])
  /\ UNCHANGED <<cfg, phase, budget, nmod, nopen, salt>>

G_Open ==
  /\ Ready /\ Top.mode = "blocks"
  /\ \E kind \in IF Top.lvl = "P" THEN SrcFam ELSE DstFam :
       /\ IF kind \in {"default_source", "default_destination"}
            THEN ~Top.hasDef
            ELSE /\ Top.nblk < (IF Top.lvl = "P" THEN MaxSrc ELSE MaxDst)
                 /\ DefaultLast => ~Top.hasDef
       /\ \E need \in (IF kind \in {"source", "destination"} THEN 1..MaxRules
                        ELSE IF HasArgs(kind) THEN 0..MaxKeys ELSE {0}) :
            \E tk \in (IF kind \in {"source_in", "destination_in"} THEN TableKinds ELSE {""}),
               fm \in {"first", "last"} :
            /\ tk # "scripted" => fm = "first"
            /\ kind \in {"source_in", "destination_in"} => (need = 0 <=> tk \in CatchAll)   \* no key list
            /\ stack' = Append(stack, Frame(kind, IF Top.lvl = "P" THEN "S" ELSE "D", Top.depth, need, tk, fm))
            /\ HasArgs(kind) => nopen < MaxBlocks
            /\ nopen' = IF HasArgs(kind) THEN nopen + 1 ELSE nopen
  /\ UNCHANGED <<cfg, phase, budget, nmod, salt>>

G_Reject ==
  /\ Ready /\ Top.lvl = "D"
  /\ \/ Top.dec = "none" /\ UNCHANGED budget
     \/ Top.dec = "deliver" /\ Top.nrr = 0 /\ budget > 0 /\ budget' = budget - 1   \* defect: reject + deliver_to
  /\ \E code \in Codes :
       SetTop([Top EXCEPT !.c = Append(@, [d |-> "reject", code |-> code]), !.dec = "reject", !.mode = "leafs"])
  /\ UNCHANGED <<cfg, phase, nmod, nopen, salt>>
G_Deliver ==
  /\ Ready /\ Top.lvl = "D" /\ Top.dec \in {"none", "deliver"} /\ Top.ndel < 2
  /\ \E t \in Targets :
       /\ \A i \in 1..Len(Top.c) : Top.c[i].d = "deliver_to" => Top.c[i].tgt # t
       /\ SetTop([Top EXCEPT !.c = Append(@, [d |-> "deliver_to", tgt |-> t]), !.dec = "deliver",
                             !.ndel = @ + 1, !.mode = "leafs"])
  /\ UNCHANGED <<cfg, phase, budget, nmod, nopen, salt>>
G_Reroute ==
  /\ Ready /\ Top.lvl = "D" /\ Top.dec \in {"none", "deliver"} /\ Top.nrr = 0
  /\ Top.depth < MaxDepth
  /\ stack' = Append([stack EXCEPT ![Len(stack)] = [Top EXCEPT !.mode = "leafs"]],
                     Frame("reroute", "P", Top.depth + 1, 0, "", ""))
  /\ nopen < MaxBlocks /\ nopen' = nopen + 1
  /\ UNCHANGED <<cfg, phase, budget, nmod, salt>>
(* defect: a handling directive next to source/destination blocks *)
G_MixedLeaf ==
  /\ Ready /\ Top.mode = "blocks" /\ Top.nblk > 0 /\ budget > 0
  /\ \A i \in 1..Len(Top.c) : Top.c[i].d \notin Leaf
  /\ \E n \in {[d |-> "deliver_to", tgt |-> t] : t \in Targets} \cup {[d |-> "reject", code |-> c] : c \in Codes} :
       SetTop([Top EXCEPT !.c = Append(@, n)])
  /\ budget' = budget - 1
  /\ UNCHANGED <<cfg, phase, nmod, nopen, salt>>

NodeOf(f) ==
  IF f.kind \in {"source", "destination"} THEN [d |-> f.kind, rules |-> f.args, c |-> f.c]
  ELSE IF f.kind \in {"source_in", "destination_in"}
    THEN [d |-> f.kind, keys |-> f.args, tk |-> f.tk, c |-> f.c,
          \* a scripted table fails the lookups of its first / last key
          fail |-> IF f.tk # "scripted" THEN <<>>
                   ELSE IF f.fm = "first" THEN <<f.args[1]>> ELSE <<f.args[Len(f.args)]>>]
  ELSE [d |-> f.kind, c |-> f.c]

G_Close ==
  /\ Ready
  /\ \E cost \in {0, 1} :
       /\ budget >= cost /\ budget' = budget - cost
       /\ IF Top.lvl = "D" THEN (IF Top.dec = "none" THEN cost = 1 ELSE cost = 0)
          ELSE /\ Top.mode = "blocks"
               /\ Top.nblk > 0 \/ Top.hasDef
               /\ IF Top.hasDef THEN cost = 0 ELSE cost = 1          \* defect: default block missing
  /\ IF Len(stack) = 1
       THEN /\ cfg' = Top.c /\ phase' = "done" /\ stack' = <<>>
       ELSE LET p == stack[Len(stack) - 1]
                n == NodeOf(Top)
                p2 == [p EXCEPT !.c = Append(@, n),
                                !.nblk = IF n.d \in {"source", "source_in", "destination", "destination_in"}
                                           THEN @ + 1 ELSE @,
                                !.hasDef = @ \/ n.d \in {"default_source", "default_destination"},
                                !.nrr = IF n.d = "reroute" THEN @ + 1 ELSE @,
                                !.dec = IF n.d = "reroute" THEN "deliver" ELSE @]
            IN /\ stack' = Append(SubSeq(stack, 1, Len(stack) - 2), p2)
               /\ UNCHANGED <<cfg, phase>>
  /\ UNCHANGED <<nmod, nopen, salt>>

(* ---- the envelope sweep: every sender class x every recipient class,   *)
(* two spellings per recipient class, spellings rotated by the salt        *)
SenderSeq == LET all == SetToSeq(SenderReps)
             IN SubSeq(all, 1, IF SenderCap < Len(all) THEN SenderCap ELSE Len(all))
RcptSeq == SetToSeq(ClassReps)
EnvSeq == SelectSeq(VOrder, LAMBDA v : v \in EnvVars)
NV == Len(EnvSeq)
Spelled(a, k) == IF IsNull(a) THEN a ELSE Canon([a EXCEPT !.v = EnvSeq[(k % NV) + 1]])
NR == Len(RcptSeq)
Var1(sl, si, c) == sl + 2 * si + c
Var2(sl, si, c) == Var1(sl, si, c) + 1 + (IF NV > 1 THEN (si + c) % (NV - 1) ELSE 0)
Sweep(sl) ==
  [si \in 1..Len(SenderSeq) |->
     [s |-> Spelled(SenderSeq[si], sl + si),
      r |-> [k \in 1..(2 * NR) |->
               IF k <= NR THEN Spelled(RcptSeq[k], Var1(sl, si, k))
               ELSE Spelled(RcptSeq[k - NR], Var2(sl, si, k - NR))]]]

RECURSIVE Size(_)
Size(ns) == FoldLeft(LAMBDA acc, n : acc + 1 + (IF "c" \in DOMAIN n THEN Size(n.c) ELSE 0), 0, ns)

Expected(cf, envs) ==
  IF ~Routable({}, cf) THEN <<>>
  ELSE [i \in 1..Len(envs) |-> RuleEnv({}, cf, envs[i])]

G_Emit ==
  /\ phase = "done"
  /\ phase' = "end"
  /\ LET envs == Sweep(salt + Size(cfg)) IN
     PrintT(<<"ROW", ToJson([cfg |-> cfg, envs |-> envs, load |-> Load({}, cfg),
                             why |-> LoadReasons({}, cfg),
                             exp |-> IF PrintExpected THEN Expected(cfg, envs) ELSE <<>>])>>)
  /\ UNCHANGED <<stack, cfg, budget, nmod, nopen, salt>>

GNext == G_Modify \/ G_ModVal \/ G_Arg \/ G_Flat \/ G_Blocks \/ G_Open
         \/ G_Reject \/ G_Deliver \/ G_Reroute \/ G_MixedLeaf \/ G_Close \/ G_Emit
GSpec == GInit /\ [][GNext]_vars

TheoremsHold == phase = "done" => Theorems(cfg)

(* non-vacuity of the deviations: an as-is run must find a configuration on *)
(* which the deviation changes the load result or the routing               *)
AsIsInvisible(D) ==
  phase = "done" =>
    /\ Load(D, cfg) = Load({}, cfg)
    /\ Load({}, cfg) = "ok" =>
         \A s \in SenderReps, r \in ClassReps, v \in EnvVars :
            LET r2 == Canon([r EXCEPT !.v = v]) IN Route(D, cfg, s, r2) = Route({}, cfg, s, r2)
F19Invisible == AsIsInvisible({"F19"})
F18Invisible == AsIsInvisible({"F18"})
F33Invisible == AsIsInvisible({"F33"})
=============================================================================
