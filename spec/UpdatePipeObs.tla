---------------------------- MODULE UpdatePipeObs ----------------------------
(***************************************************************************)
(* Observation state and property predicates of the IMAP update pipe       *)
(* (internal/updatepipe: UnixSockPipe, PubSubPipe) as internal/storage/    *)
(* imapsql and the `maddy` command use it (extension X12).                 *)
(*                                                                         *)
(* Everything here is a function of what is visible from outside a pipe:   *)
(*   - the calls of interface P (Listen, InitPush, Push, Close) made by    *)
(*     each process, their results, whether they returned (ret) or        *)
(*     panicked (pan),                                                     *)
(*   - what the consumer of a listener's channel received (Consume),       *)
(*   - the steps of the pipe's own goroutines at the medium (Accept, Read: *)
(*     which line was taken from which connection and what became of it),  *)
(*   - the environment: a process that dies without Close (Crash), a       *)
(*     foreign writer putting a line that is no update on the medium (Bad),*)
(*     PubSub subscriptions (Sub / Unsub),                                 *)
(*   - a probe after every step ("Look"): state of the socket file         *)
(*     (none / live / stale), length of every listener's channel, number   *)
(*     of goroutines of every pipe still alive,                            *)
(*   - at the end: quiescence (End) and, after every pipe has been closed  *)
(*     and every channel drained, the goroutines still alive (Final).      *)
(* The same operators fold `obs` in the design spec (UpdatePipe.tla) and   *)
(* in the trace spec (UpdatePipeTrace.tla, events of the real code).       *)
(*                                                                         *)
(* An update is identified by (s, n): the pushing process and the number   *)
(* of its push; the harness puts both into the update it pushes (Key / the *)
(* SeqSet field) and reads them back from what the channel hands out, so   *)
(* identity is decided on the bytes that went through format/parseUpdate.  *)
(***************************************************************************)
EXTENDS Integers, Sequences, FiniteSets

CONSTANTS Medium,     \* "unix" | "pubsub"
          Procs,      \* process names (strings)
          Lst         \* the processes that call Listen (ModeReplicate); the others only push (ModePush: the maddy command)

U(s, n) == [s |-> s, n |-> n]

ObsInit ==
  [ up    |-> [p \in Procs |-> FALSE],     \* Listen returned nil and neither Close nor death happened since
    owner |-> "-",                         \* unix: the process whose listener is bound to the socket path
    subs  |-> [p \in Procs |-> {}],        \* pubsub: keys p is subscribed to
    due   |-> [p \in Procs |-> {}],        \* updates p's channel must hand out: [s, n, key]
    got   |-> [p \in Procs |-> {}],        \* updates p's channel handed out: [s, n]
    tried |-> {},                          \* every update some Push was called with
    hung  |-> FALSE,                       \* some call of P has not returned when everything was quiet
    closedOwner |-> FALSE,                 \* the step just taken was Close of the pipe bound to the socket path
    viol  |-> {} ]

V(o, c, name) == IF c THEN o ELSE [o EXCEPT !.viol = @ \cup {name}]

Gone(o, p) ==      \* p stopped listening (Close, death): nothing is owed to it any more
  [o EXCEPT !.up[p] = FALSE, !.due[p] = {}, !.subs[p] = {},
            !.owner = IF o.owner = p THEN "-" ELSE @]

Ret(o, e) == V(IF e.ret THEN o ELSE [o EXCEPT !.hung = TRUE], ~e.pan, "CallPanicked")

\* the listeners an accepted update has to reach
Targets(o, e) ==
  IF Medium = "unix"
  THEN {l \in Procs : l = e.to /\ o.up[l] /\ l # e.p}
  ELSE {l \in Procs : o.up[l] /\ e.key \in o.subs[l] /\ l # e.p}

DialOK(o, d) ==    \* a dial may fail only when nobody is listening
  ~(d \in {"noent", "refused"} /\ o.owner # "-")

\* listener l's channel handed update (s, n) to its consumer
Handed(o, l, s, n) ==
  LET u  == U(s, n)
      o1 == V(o, s # l, "Echoed")
      o2 == V(o1, u \notin o.got[l], "Duplicated")
      o3 == V(o2, u \in o.tried, "Forged")
      o4 == V(o3, ~(u \notin o.got[l] /\ \E g \in o.got[l] : g.s = s /\ g.n > n), "Reordered")
  IN [o4 EXCEPT !.got[l] = @ \cup {u}]

ObsEv(o0, name, e) ==
  LET o == [o0 EXCEPT !.closedOwner = FALSE] IN
  CASE name = "Listen" ->
         LET o1 == V(Ret(o, e), ~(e.res = "err" /\ o.owner = "-"), "ListenRefusedNobodyListening")
         IN IF e.res = "ok" THEN [o1 EXCEPT !.up[e.p] = TRUE, !.owner = IF Medium = "unix" THEN e.p ELSE @]
            ELSE o1
    [] name = "InitPush" ->
         V(Ret(o, e), DialOK(o, e.res), "DialFailsWithLiveListener")
    [] name = "Push" ->
         LET o1 == V(Ret(o, e), DialOK(o, e.dial), "DialFailsWithLiveListener")
             u  == [s |-> e.p, n |-> e.n, key |-> e.key]
             o2 == [o1 EXCEPT !.tried = @ \cup {U(e.p, e.n)}]
         IN IF e.res = "ok" /\ e.ret
            THEN [o2 EXCEPT !.due = [l \in Procs |-> IF l \in Targets(o, e) THEN @[l] \cup {u} ELSE @[l]]]
            ELSE o2
    [] name = "Consume" -> Handed(o, e.p, e.s, e.n)
    [] name = "Read" ->
         IF e.out = "panic" THEN V(Gone(o, e.p), FALSE, "ListenerPanicked")
         \* the goroutine that takes the lines of this connection is gone although the stream has not ended
         ELSE IF e.out = "exit" THEN V(o, FALSE, "ListenerStopped")
         ELSE IF e.out = "dlv" /\ e.ds # "-" THEN Handed(o, e.p, e.ds, e.dn)   \* a consumer that is always ready
         ELSE o
    [] name = "Close" ->
         [Gone(Ret(o, e), e.p) EXCEPT !.closedOwner = (Medium = "unix" /\ o.owner = e.p)]
    [] name = "Crash" -> Gone(o, e.p)
    [] name = "Sub" -> [o EXCEPT !.subs[e.p] = @ \cup {e.key}]
    [] name = "Unsub" -> [o EXCEPT !.subs[e.p] = @ \ {e.key},
                                   !.due[e.p] = {u \in @ : u.key # e.key}]
    [] name = "End" ->
         LET o1 == V(o, \A l \in Procs : o.up[l] => \A u \in o.due[l] : U(u.s, u.n) \in o.got[l], "UpdateLost")
         IN V(o1, ~o.hung, "CallHangs")
    [] name = "Final" -> V(o, e.alive = 0, "GoroutineLeak")
    [] OTHER -> o

\* the probe after a step: lk = [sock |-> "none"|"live"|"stale", chl |-> [Lst -> Nat], alive |-> [Procs -> Nat]]
ObsLook(o, lk) ==
  IF Medium # "unix" THEN o
  ELSE LET o1 == V(o, ~(o.owner # "-" /\ lk.sock # "live"), "LiveSocketUnlinked")
       IN V(o1, ~(o.closedOwner /\ lk.sock = "stale"), "SocketLeftBehind")
=============================================================================
