SPECIFICATION Spec
CONSTANTS
  Paths = {"wire", "unix", "pubsub"}
  Gen = TRUE
INVARIANTS RuleSatisfiesProp
CONSTRAINT Emit
CHECK_DEADLOCK FALSE
