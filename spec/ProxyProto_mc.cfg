SPECIFICATION Spec
CONSTANTS
  Devs = {}
  Gen = FALSE
  Layers = {"raw", "smtp", "smtps"}
  MaxTrust = 2
INVARIANTS RuleSatisfiesProp StepsAgree
CHECK_DEADLOCK FALSE
