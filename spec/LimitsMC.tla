------------------------------ MODULE LimitsMC ------------------------------
(* Exhaustive model checking of Limits.tla: callers and keys are interchangeable. *)
(* (Kept out of Limits.tla because TLC evaluates the permutation sets eagerly,     *)
(* which is expensive for the larger constant sets of trace validation.)          *)
EXTENDS Limits
Sym == Permutations(Msgs) \cup Permutations(IPs) \cup Permutations(Srcs) \cup Permutations(Dsts)
=============================================================================
