--------------------------- MODULE FileTableTrace ---------------------------
(***************************************************************************)
(* Trace validation for FileTable.tla.  trace.ndjson holds the events      *)
(* recorded from the real table.file module, many traces concatenated; a   *)
(* "Cfg" event starts a new trace.                                         *)
(*                                                                         *)
(* Every line is consumed either by the design action of that name with    *)
(* the logged arguments and results (conformance; a "Look" line must show  *)
(* exactly the table, the pending hook calls, the state of Close and the   *)
(* panic flag of the design state), or - when no design action explains it *)
(* - by the monitor-only step M_Step, which marks the trace as drifted and *)
(* keeps folding the observation state with the same FileTableObs          *)
(* operators.  obs.viol depends only on the recorded events.               *)
(***************************************************************************)
EXTENDS FileTable

Trace == ndJsonDeserialize("trace.ndjson")

VARIABLES l, drift, driftAt, tno

tvars == <<vars, l, drift, driftAt, tno>>

Ev == Trace[l]
IsEv(e) == l <= Len(Trace) /\ Ev.e = e
Keep == l' = l + 1 /\ UNCHANGED <<drift, driftAt, tno>>

Publish(d, da, o, du) ==
  TLCSet(1, TLCGet(1) \cup {[t |-> tno, drift |-> d, driftAt |-> da, viol |-> o.viol, devs |-> du]})

TInit ==
  /\ InitWith(NoFile)
  /\ l = 1 /\ drift = FALSE /\ driftAt = 0 /\ tno = 0
  /\ TLCSet(1, {})

FileOf(f) == [kind |-> f.kind, lines |-> f.lines, mtime |-> f.mtime, unread |-> f.unread]

TReset ==
  /\ IsEv("Cfg") /\ Ev.K = K
  /\ LET f == FileOf(Ev.f) IN
       /\ file' = f /\ usedM' = {f.mtime} /\ obs' = ObsInit(f)
  /\ now' = 0 /\ nextTick' = 0 /\ nver' = 1 /\ wv' = 0
  /\ fd' = [att |-> FALSE, lines |-> <<>>, dir |-> FALSE]
  /\ pc' = "new" /\ rdPos' = 0 /\ buf' = <<>> /\ st1' = 0
  /\ tickPending' = FALSE /\ forced' = 0 /\ closing' = "no"
  /\ tbl' = <<>> /\ stamp' = Zero
  /\ envLeft' = MaxEnv /\ forceLeft' = MaxForce /\ panicked' = FALSE /\ devUsed' = {} /\ done' = FALSE
  /\ last' = [a |-> "Cfg"] /\ hist' = <<>>
  /\ l' = l + 1 /\ drift' = FALSE /\ driftAt' = 0 /\ tno' = Ev.t

\* the recorded step is the design action of that name with the recorded arguments and results
MatchEv(e) == \A f \in (DOMAIN e \ {"a", "f"}) : f \in DOMAIN Ev /\ e[f] = Ev[f]
Conform ==
  /\ l <= Len(Trace) /\ Ev.e \notin {"Cfg", "Look"}
  /\ Act /\ last'.a = Ev.e /\ MatchEv(last')

LookRec(e) == [tv |-> e.tv, sv |-> e.sv, parked |-> e.parked, fp |-> e.fp, cl |-> e.cl, pan |-> e.pan]

C_Look ==
  /\ ~drift /\ IsEv("Look")
  /\ LookOf(tbl, Parked, forced, closing, panicked) = LookRec(Ev)
  /\ obs' = ObsLook(obs, LookRec(Ev))
  /\ UNCHANGED <<dvars, last, hist>>
  /\ Keep

C_Step ==
  /\ ~drift
  /\ Conform
  /\ obs' = ObsEv(obs, Ev.e, Ev)
  /\ Keep
  /\ IF Ev.e = "End" THEN Publish(FALSE, 0, obs', devUsed') ELSE TRUE

Explained == IF IsEv("Look") THEN LookOf(tbl, Parked, forced, closing, panicked) = LookRec(Ev)
             ELSE ENABLED Conform

M_Step ==
  /\ l <= Len(Trace) /\ Ev.e # "Cfg"
  /\ (drift \/ ~Explained)
  /\ drift' = TRUE
  /\ driftAt' = IF drift THEN driftAt ELSE Ev.seq
  /\ obs' = IF Ev.e = "Look" THEN ObsLook(obs, LookRec(Ev)) ELSE ObsEv(obs, Ev.e, Ev)
  /\ l' = l + 1
  /\ UNCHANGED <<dvars, last, hist, tno>>
  /\ IF Ev.e = "End" THEN Publish(TRUE, driftAt', obs', devUsed) ELSE TRUE

TNext == TReset \/ C_Look \/ C_Step \/ M_Step
TSpec == TInit /\ [][TNext]_tvars

Post == PrintT(<<"VERDICTS", ToJson(TLCGet(1))>>)
=============================================================================
