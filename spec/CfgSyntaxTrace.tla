--------------------------- MODULE CfgSyntaxTrace ---------------------------
(***************************************************************************)
(* Trace validation for CfgSyntax.tla (pattern B).  trace.ndjson holds one *)
(* "Row" event per input row: the row as TLC generated it (`in`) and what  *)
(* the real cfgparser.Read did with it (`out`: outcome class, the raw      *)
(* facts of the returned tree, the tree, its canonical print re-parsed).   *)
(*                                                                         *)
(* Per row TLC evaluates                                                   *)
(*   Viol(in, out)  - the names of the C20 predicates that are false on    *)
(*                    what the real parser did          -> VIOLATION       *)
(*   Conforms       - the outcome class (and the tree) equal the ones the  *)
(*                    documented rule Expected(doc) mandates; only where   *)
(*                    the rule fixes them               -> DRIFT otherwise *)
(*   dev            - the deviations of Devs (the open known findings)     *)
(*                    that the model says this document triggers and whose *)
(*                    outcome class is the observed one -> KNOWN-FINDING   *)
(***************************************************************************)
EXTENDS CfgSyntax

Trace == ndJsonDeserialize("trace.ndjson")

NoExp == [class |-> "any", tree |-> <<>>, devs |-> {}]
ExpOf(in) == IF in.layer = "s" THEN Expected(in.doc)
             ELSE IF in.layer = "i" THEN FileExpected(in.scen, Devs) ELSE NoExp

(* the row was not altered on its way through the harness                  *)
SameInput(in) ==
  /\ in.layer \in {"s", "m"} => in.pieces = SourcePieces(in.doc, ToSet(in.style), in.mut)
  /\ in.layer = "i" => in.files = FilePieces(in.scen)

Conforms(in, out, ex) ==
  /\ SameInput(in)
  /\ \/ ex.class = "any"
     \/ /\ out.class = ex.class
        /\ (ex.class = "tree" /\ ~out.big) => out.tree = Flat(ex.tree, 0)

Verdict(r) ==
  LET in  == r.in
      out == r.out
      ex  == ExpOf(in)
      v   == Viol(in, out)
      ok  == Conforms(in, out, ex)
  IN  [t |-> r.t, drift |-> ~ok, driftAt |-> IF ok THEN 0 ELSE 1, viol |-> v,
       dev |-> IF v = {} THEN {} ELSE {d \in ex.devs : out.class \in DevClass(d)},
       exp |-> ex.class]

(* One step per row (the evaluation runs in a TLC worker thread, which has  *)
(* the large stack deep documents need); the verdicts are collected in TLC  *)
(* register 1 and printed by the postcondition.  Run with -workers 1.        *)
VARIABLE l
tvars == <<vars, l>>
TInit == /\ layer = "t" /\ doc = <<>> /\ style = {} /\ mut = NoMut /\ raw = <<>>
         /\ l = 0 /\ TLCSet(1, <<>>)
TNext == /\ l < Len(Trace)
         /\ l' = l + 1
         /\ TLCSet(1, Append(TLCGet(1), Verdict(Trace[l + 1])))
         /\ UNCHANGED vars
TSpec == TInit /\ [][TNext]_tvars

Post == PrintT(<<"VERDICTS", ToJson(TLCGet(1))>>)
=============================================================================
