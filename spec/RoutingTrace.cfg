\* trace evaluation; OpenDevs = deviations of the open entries of known_findings.d/C04.json
SPECIFICATION TSpec
CONSTANTS
  Locals = {"l1", "l2", "l3"}
  Doms = {"d1", "d2", "d3"}
  EnvLocals = {}
  RuleVars = {"lower"}
  EnvVars = {"lower"}
  Targets = {"T1", "T2", "T3"}
  Codes = {0}
  MaxSrc = 0
  MaxDst = 0
  MaxDepth = 0
  MaxMod = 0
  MaxBlocks = 0
  MaxRules = 0
  MaxKeys = 0
  MaxEntries = 0
  MaxVals = 0
  MaxDefects = 0
  DefectOdds = 0
  Salts = {0}
  DefaultLast = TRUE
  BareMaps = TRUE
  NullKeys = FALSE
  DupRules = FALSE
  FlatOnly = FALSE
  MaxScopeMods = 1
  TableKinds = {"static"}
  SenderCap = 99
  PrintExpected = FALSE
  OpenDevs = {}
CHECK_DEADLOCK FALSE
POSTCONDITION Post
