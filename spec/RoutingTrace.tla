---------------------------- MODULE RoutingTrace ----------------------------
(***************************************************************************)
(* Binding of Routing.tla to the real code.  trace.ndjson holds one "Row" *)
(* event per configuration replayed on the real msgpipeline.New / Start / *)
(* AddRcpt / Body / Commit:                                                *)
(*   in  = [cfg, envs]            exactly as TLC generated them            *)
(*   out = [load, res]            load result; per envelope the MAIL code, *)
(*                                per recipient the RCPT code and the      *)
(*                                AddRcpt calls targets saw while it was   *)
(*                                processed, per delivery its recipients   *)
(*                                and final state                          *)
(* For every row TLC evaluates                                             *)
(*   viol   the clauses of C04 that are false on what the code did         *)
(*          (RowViol: declarative predicates of Routing.tla, D = {})       *)
(*   drift  the outcome differs from the operational rule although no      *)
(*          clause is false                                                *)
(*   asis / devs   the outcome is exactly what the rule with the OPEN     *)
(*          known deviations predicts, and which deviations are needed    *)
(***************************************************************************)
EXTENDS Routing

CONSTANT OpenDevs       \* deviations of the open known findings ("F19", "F18")

Trace == ndJsonDeserialize("trace.ndjson")

VARIABLE l
tvars == <<vars, l>>

Explains(D, cf, envs, o) ==
  /\ o.load = Load(D, cf)
  /\ (o.load = "ok" /\ Routable(D, cf)) =>
       /\ Len(o.res) = Len(envs)
       /\ \A k \in 1..Len(envs) : ProjEnv(o.res[k]) = RuleEnv(D, cf, envs[k])

RowVerdict(row) ==
  LET cf == row.in.cfg
      envs == row.in.envs
      o == row.out
      reasons == LoadReasons({}, cf)
      gapwhy == IF o.load = "ok" /\ reasons \cap GapReasons # {} THEN GapWhy(cf) ELSE {}
      routable == o.load = "ok" /\ reasons \subseteq GapReasons
      viol == (IF o.load = "broken" THEN {"LoadBroken"} ELSE {})
              \cup (IF gapwhy # {} THEN {"LoadAcceptsGap"} ELSE {})
              \cup (IF routable
                      THEN UNION {EnvViol(cf, envs[k], o.res[k]) : k \in 1..Len(envs)} ELSE {})
      doc == Explains({}, cf, envs, o)
      asis == IF doc THEN TRUE ELSE Explains(OpenDevs, cf, envs, o)
      devs == IF doc \/ ~asis THEN {}
              ELSE {d \in OpenDevs : ~Explains(OpenDevs \ {d}, cf, envs, o)}
      obs == (IF routable /\ \E k \in 1..Len(envs) : \E i \in 1..Len(o.res[k].rc) :
                    o.res[k].rc[i].code # 0 /\ o.res[k].rc[i].dl # <<>>
                THEN {"RefusedButPartlyHandedOver"} ELSE {})
             \cup (IF o.load = "ok" /\ "mixed_level" \in reasons THEN {"MixedLevelAccepted"} ELSE {})
             \cup (IF o.load = "ok" /\ "reject_and_deliver" \in reasons THEN {"RejectAndDeliverAccepted"} ELSE {})
             \cup (IF o.load = "ok" /\ "dup_default" \in reasons THEN {"DuplicateDefaultAccepted"} ELSE {})
             \cup (IF o.load = "error" /\ reasons = {} THEN {"ValidConfigRefused"} ELSE {})
  IN [t |-> row.t, drift |-> ~doc /\ ~asis, driftAt |-> IF ~doc /\ ~asis THEN row.seq ELSE 0,
      viol |-> viol, doc |-> doc, asis |-> asis, devs |-> devs, gapwhy |-> gapwhy,
      why |-> reasons, obs |-> obs]

TInit ==
  /\ stack = <<>> /\ cfg = <<>> /\ phase = "trace" /\ budget = 0 /\ nmod = 0 /\ nopen = 0 /\ salt = 0
  /\ l = 1
  /\ TLCSet(1, <<>>)

TNext ==
  /\ l <= Len(Trace)
  /\ TLCSet(1, Append(TLCGet(1), RowVerdict(Trace[l])))
  /\ l' = l + 1
  /\ UNCHANGED vars

TSpec == TInit /\ [][TNext]_tvars

Post == PrintT(<<"VERDICTS", ToJson(TLCGet(1))>>)
=============================================================================
