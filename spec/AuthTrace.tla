----------------------------- MODULE AuthTrace -----------------------------
(***************************************************************************)
(* Trace validation for Auth.tla.  trace.ndjson holds the events recorded  *)
(* from the real code (pass_table over a mutable table, SASLAuth.CreateSASL *)
(* driven with real SASL PLAIN/LOGIN exchanges, the submission endpoint     *)
(* over an in-memory connection), many traces concatenated; a "Cfg" event   *)
(* starts a new trace, "End" finishes it.                                   *)
(*                                                                         *)
(* Every line is consumed either by the matching action of Auth.tla whose  *)
(* result equals the logged one (conformance), where the outcome of an     *)
(* authentication may be explained with a subset D of the enabled          *)
(* deviations Devs (the smallest such D is taken and logged in dlog), or   *)
(* by the monitor-only step M_Step, which marks the trace as drifted and   *)
(* folds `obs` with the same AuthObs operators.  The property predicates   *)
(* therefore depend only on the recorded events.  vlog collects (seq,      *)
(* predicate) for every violated predicate.                                *)
(***************************************************************************)
EXTENDS Auth

Trace == ndJsonDeserialize("trace.ndjson")

VARIABLES l, drift, driftAt, tno, vlog, dlog

tvars == <<vars, l, drift, driftAt, tno, vlog, dlog>>

Ev == Trace[l]
IsEv(e) == l <= Len(Trace) /\ Ev.e = e

Publish(d, da, vl, dl) ==
  TLCSet(1, TLCGet(1) \cup {[t |-> tno, drift |-> d, driftAt |-> da,
                             viol |-> {x.p : x \in vl}, vlog |-> vl, dlog |-> dl]})

TInit ==
  /\ InitWith([map |-> "none", norm |-> "auto", tbl |-> "mem", defer |-> TRUE, dom |-> "ascii", len |-> 0])
  /\ l = 1 /\ drift = FALSE /\ driftAt = 0 /\ tno = 0 /\ vlog = {} /\ dlog = {}
  /\ TLCSet(1, {})

TReset ==
  /\ IsEv("Cfg")
  /\ cfg' = [map |-> Ev.map, norm |-> Ev.norm, tbl |-> Ev.tbl, defer |-> Ev.defer, dom |-> Ev.dom, len |-> 0]
  /\ tbl' = [u \in Users |-> Absent]
  /\ sess' = Closed
  /\ obs' = ObsInit
  /\ pending' = "none" /\ hist' = <<>> /\ phase' = "run"
  /\ l' = l + 1 /\ drift' = FALSE /\ driftAt' = 0 /\ tno' = Ev.t /\ vlog' = {} /\ dlog' = {}

(* the smallest set of enabled deviations under which the design answers r *)
Expl(S) == IF S = {} THEN {} ELSE {CHOOSE D \in S : \A E \in S : Cardinality(D) <= Cardinality(E)}
ExplAuth(mech, sp, pw, az, r) == Expl({D \in SUBSET Devs : Outcome(mech, sp, pw, az, D) = r})
ExplPair(sp, pw, p, g) ==
  Expl({D \in SUBSET Devs : Outcome("PLAIN", sp, pw, "empty", D) = p /\ Outcome("LOGIN", sp, pw, "empty", D) = g})
ExplSAuth(mech, sp, pw, res) == Expl({D \in SUBSET Devs : SAuthRes(mech, sp, pw, D) = res})

R(ok, id) == [ok |-> ok, id |-> IF ok THEN id ELSE NoId]

(* each conforming step yields the set D of deviations it needed *)
C_Create == IsEv("Create") /\ CreateRes(Ev.sp, Ev.pw, Ev.sch, Ev.fail) = Ev.res
            /\ Create(Ev.sp, Ev.pw, Ev.sch, Ev.fail) /\ dlog' = dlog
C_SetPw  == IsEv("SetPw") /\ SetPwRes(Ev.sp, Ev.pw, Ev.fail) = Ev.res
            /\ SetPw(Ev.sp, Ev.pw, Ev.fail) /\ dlog' = dlog
C_Delete == IsEv("Delete") /\ DeleteRes(Ev.sp, Ev.fail) = Ev.res
            /\ Delete(Ev.sp, Ev.fail) /\ dlog' = dlog
C_Auth   == /\ IsEv("Auth")
            /\ \E D \in ExplAuth(Ev.mech, Ev.sp, Ev.pw, Ev.az, R(Ev.ok, Ev.id)) :
                 /\ AuthOne(Ev.mech, Ev.sp, Ev.pw, Ev.az, D)
                 /\ dlog' = dlog \cup {[seq |-> Ev.seq, d |-> x] : x \in D}
C_Pair   == /\ IsEv("AuthPair")
            /\ \E D \in ExplPair(Ev.sp, Ev.pw, R(Ev.pok, Ev.pid), R(Ev.lok, Ev.lid)) :
                 /\ AuthPair(Ev.sp, Ev.pw, D)
                 /\ dlog' = dlog \cup {[seq |-> Ev.seq, d |-> x] : x \in D}
C_Direct == /\ IsEv("AuthDirect")
            /\ \E D \in Expl({D \in SUBSET Devs : DirectOk(Ev.sp, Ev.pw, D) = Ev.ok}) :
                 /\ AuthDirect(Ev.sp, Ev.pw, D)
                 /\ dlog' = dlog \cup {[seq |-> Ev.seq, d |-> x] : x \in D}
C_SAuth  == /\ IsEv("SAuth")
            /\ \E D \in ExplSAuth(Ev.mech, Ev.sp, Ev.pw, Ev.res) :
                 /\ SAuth(Ev.mech, Ev.sp, Ev.pw, D)
                 /\ dlog' = dlog \cup {[seq |-> Ev.seq, d |-> x] : x \in D}
C_SOpen  == IsEv("SOpen") /\ SOpen /\ dlog' = dlog
C_SEhlo  == IsEv("SEhlo") /\ SEhlo /\ dlog' = dlog
C_SMail  == IsEv("SMail") /\ SMailRes(Ev.mf) = Ev.res /\ SMail(Ev.mf) /\ dlog' = dlog
C_SRset  == IsEv("SRset") /\ SRset /\ dlog' = dlog
C_SClose == IsEv("SClose") /\ SClose /\ dlog' = dlog
C_End    == IsEv("End") /\ phase' = "end" /\ obs' = Z(obs) /\ dlog' = dlog
            /\ UNCHANGED <<cfg, tbl, sess, pending, hist>>

Conform ==
  \/ C_Create \/ C_SetPw \/ C_Delete \/ C_Auth \/ C_Pair \/ C_Direct \/ C_SAuth
  \/ C_SOpen \/ C_SEhlo \/ C_SMail \/ C_SRset \/ C_SClose \/ C_End

NewV(o) == {[seq |-> Ev.seq, p |-> p] : p \in o.viol}

C_Step ==
  /\ ~drift
  /\ Conform
  /\ l' = l + 1 /\ UNCHANGED <<drift, driftAt, tno>>
  /\ vlog' = vlog \cup NewV(obs')
  /\ IF Ev.e = "End" THEN Publish(FALSE, 0, vlog', dlog') ELSE TRUE

(* the observation fold, independent of the design state *)
ObsApply(o, e) ==
  CASE e.e = "Create"   -> ObsCreate(o, e.sp, e.pw, e.sch, e.res)
    [] e.e = "SetPw"    -> ObsSetPw(o, e.sp, e.pw, e.res)
    [] e.e = "Delete"   -> ObsDelete(o, e.sp, e.res)
    [] e.e = "Auth"     -> ObsAuth(o, cfg.map, e.sp, e.pw, e.az, e.ok, e.id)
    [] e.e = "AuthPair" -> ObsPair(o, cfg.map, e.sp, e.pw, e.pok, e.pid, e.lok, e.lid)
    [] e.e = "AuthDirect" -> ObsDirect(o, e.sp, e.pw, e.ok)
    [] e.e = "SOpen"    -> ObsSOpen(o)
    [] e.e = "SAuth"    -> ObsSAuth(o, cfg.map, e.sp, e.pw, e.res)
    [] e.e = "SMail"    -> ObsSMail(o, e.res)
    [] OTHER -> Z(o)

M_Step ==
  /\ l <= Len(Trace) /\ Ev.e # "Cfg"
  /\ (drift \/ ~ENABLED Conform)
  /\ drift' = TRUE
  /\ driftAt' = IF drift THEN driftAt ELSE Ev.seq
  /\ obs' = ObsApply(obs, Ev)
  /\ vlog' = vlog \cup NewV(obs')
  /\ l' = l + 1
  /\ UNCHANGED <<cfg, tbl, sess, pending, hist, phase, tno, dlog>>
  /\ IF Ev.e = "End" THEN Publish(TRUE, driftAt', vlog', dlog) ELSE TRUE

TNext == TReset \/ C_Step \/ M_Step
TSpec == TInit /\ [][TNext]_tvars

Post == PrintT(<<"VERDICTS", ToJson(TLCGet(1))>>)
=============================================================================
