--------------------------- MODULE StsCacheTrace ---------------------------
(***************************************************************************)
(* Code -> model for extension X02.  trace.ndjson holds the events the     *)
(* harness (harness/stscachecheck) recorded while the real mx_auth.mtasts  *)
(* / go-mtasts cache executed TLC-generated behaviours; many traces        *)
(* concatenated, a "Cfg" event starts a new one.                            *)
(*                                                                         *)
(* Every event is consumed either by the matching action of StsCache.tla   *)
(* with the logged arguments, whose result and resulting store must equal  *)
(* what was observed (C_Step), or - when no design action explains it - by *)
(* the monitor-only step M_Step that folds the same StsCacheObs operators  *)
(* and marks the trace as drifted.  obs.viol depends only on the events.   *)
(* The verdict [t, drift, driftAt, viol, taken] of each trace is published *)
(* in TLC register 1 at its "End" event.                                   *)
(***************************************************************************)
EXTENDS StsCache, SequencesExt

Trace == ndJsonDeserialize("trace.ndjson")

VARIABLES l, drift, driftAt, tno
tvars == <<vars, l, drift, driftAt, tno>>

Ev == Trace[l]
IsEv(e) == l <= Len(Trace) /\ Ev.e = e
Keep == l' = l + 1 /\ UNCHANGED <<drift, driftAt, tno>>

PolOf(j) == [ver |-> j.ver, age |-> j.age]
EntOf(j) == [k |-> j.k, id |-> j.id, ft |-> j.ft, pol |-> PolOf(j)]
SnapOf(s) == [d \in Domains |-> IF d \in DOMAIN s THEN EntOf(s[d]) ELSE NoEnt]
ResOf(r) == [kind |-> r.kind, pol |-> IF r.kind = "policy" THEN PolOf(r) ELSE NoPol]
FetchOf(fs) == {[d |-> fs[i].d, urlok |-> fs[i].urlok, pol |-> PolOf(fs[i])] : i \in 1..Len(fs)}
PlanOf(p) == [d \in Domains |-> IF d \in DOMAIN p THEN p[d] ELSE "ok"]

Publish1(o, dr, da) ==
  TLCSet(1, TLCGet(1) \cup {[t |-> tno, drift |-> dr, driftAt |-> da, viol |-> o.viol, taken |-> taken]})

TInit ==
  /\ InitWith([kind |-> "ram", life |-> "test"])
  /\ l = 1 /\ drift = FALSE /\ driftAt = 0 /\ tno = 0
  /\ TLCSet(1, {})

TReset ==
  /\ IsEv("Cfg")
  /\ LET c == [kind |-> Ev.kind, life |-> Ev.life] IN
       /\ cfg' = c
       /\ nextRef' = IF LoopRuns(c) THEN 0 ELSE NoRef
       /\ taken' = IF LoopRuns(c) THEN {} ELSE {"UpdaterNotStarted"}
  /\ now' = 0
  /\ pub' = [d \in Domains |-> [txt |-> "none", pol |-> NoPol]]
  /\ store' = [d \in Domains |-> NoEnt]
  /\ obs' = ObsInit(Domains, TRUE)
  /\ n' = 0 /\ hist' = <<>>
  /\ l' = l + 1 /\ drift' = FALSE /\ driftAt' = 0 /\ tno' = Ev.t

C_Publish == IsEv("Publish") /\ Publish(Ev.d, Ev.txt, PolOf(Ev))
C_Tick    == IsEv("Tick") /\ Tick(Ev.dt)
C_Get     == /\ IsEv("Get") /\ Get(Ev.d, Ev.flt)
             /\ LET f == Fetch(Ev.d, now, Ev.flt) IN
                  /\ ResOf(Ev.res) = f.res
                  /\ FetchOf(Ev.fetch) = Reqs(Ev.d, f, Ev.flt)
             /\ SnapOf(Ev.snap) = store'
C_Refresh == /\ IsEv("Refresh") /\ AutoRefresh(PlanOf(Ev.plan))
             /\ SnapOf(Ev.snap) = store'
             /\ Ev.panicked = (Crashing # {})
             /\ FetchOf(Ev.fetch) =
                  UNION {Reqs(d, Fetch(d, now + Window, PlanOf(Ev.plan)[d]), PlanOf(Ev.plan)[d]) :
                         d \in {x \in Listed : Before(x, Crashing)}}
C_Restart == IsEv("Restart") /\ Restart /\ SnapOf(Ev.snap) = store'
C_Corrupt == IsEv("Corrupt") /\ Corrupt(Ev.d, Ev.kind) /\ SnapOf(Ev.snap) = store'
C_End     == IsEv("End") /\ ~Ev.badName /\ ~Due /\ obs' = ObsEnd(obs, Ev.badName)
             /\ UNCHANGED <<cfg, now, pub, store, nextRef, taken, n, hist>>

Conform == C_Publish \/ C_Tick \/ C_Get \/ C_Refresh \/ C_Restart \/ C_Corrupt \/ C_End

C_Step ==
  /\ ~drift
  /\ Conform
  /\ Keep
  /\ IF Ev.e = "End" THEN Publish1(obs', FALSE, 0) ELSE TRUE

ObsApply(o, e) ==
  CASE e.e = "Publish" -> ObsPublish(o, e.d, e.txt, PolOf(e))
    [] e.e = "Tick"    -> ObsTick(o, e.dt)
    [] e.e = "Get"     -> ObsGet(o, e.d, e.flt, ResOf(e.res), FetchOf(e.fetch), SnapOf(e.snap))
    [] e.e = "Refresh" -> ObsRefresh(o, PlanOf(e.plan), FetchOf(e.fetch), SnapOf(e.snap), e.panicked)
    [] e.e = "Restart" -> ObsRestart(o, cfg.kind = "fs", TRUE, SnapOf(e.snap))
    [] e.e = "Corrupt" -> ObsCorrupt(o, e.d, e.kind, SnapOf(e.snap))
    [] e.e = "End"     -> ObsEnd(o, e.badName)
    [] OTHER -> o

M_Step ==
  /\ l <= Len(Trace) /\ Ev.e # "Cfg"
  /\ (drift \/ ~ENABLED Conform)
  /\ drift' = TRUE
  /\ driftAt' = IF drift THEN driftAt ELSE Ev.seq
  /\ obs' = ObsApply(obs, Ev)
  /\ l' = l + 1
  /\ UNCHANGED <<cfg, now, pub, store, nextRef, taken, n, hist, tno>>
  /\ IF Ev.e = "End" THEN Publish1(obs', TRUE, driftAt') ELSE TRUE

TNext == TReset \/ C_Step \/ M_Step
TSpec == TInit /\ [][TNext]_tvars

Post == PrintT(<<"VERDICTS", ToJson(TLCGet(1))>>)
=============================================================================
