----------------------------- MODULE ExtScanBase -----------------------------
(***************************************************************************)
(* X07 - definitions shared by ExtScanMilter.tla and ExtScanRspamd.tla:    *)
(* the answer of a pipeline command as the SMTP endpoint sees it (R), its  *)
(* class, the SMTP sessions (module.ConnState) and the messages the rows   *)
(* are built from.                                                         *)
(***************************************************************************)
EXTENDS Naturals, Integers, Sequences, FiniteSets, TLC, Json

Range(f) == {f[i] : i \in DOMAIN f}
Last(s) == s[Len(s)]

Policy == "Message rejected due to local policy"

(* the answer of one pipeline command (Start / AddRcpt / Body) as internal/endpoint/smtp reads it: k = "ok", "rej" *)
(* or "n/a" (the command was not issued); code / enchc / ench / msg = the SMTP annotations of the error           *)
(* (exterrors.Fields: smtp_code, smtp_enchcode, smtp_msg; code 0 = none), temp = exterrors.IsTemporary            *)
R(k, code, enchc, ench, temp, msg) == [k |-> k, code |-> code, enchc |-> enchc, ench |-> ench, temp |-> temp, msg |-> msg]
OkR == R("ok", 0, 0, "", FALSE, "")
NaR == R("n/a", 0, 0, "", FALSE, "")
Rej(code, rest, msg) == R("rej", code, code \div 100, ToString(code \div 100) \o rest, (code \div 100) = 4, msg)
Unannotated == R("rej", 0, 0, "", FALSE, "")

(* one packet / request line / header field the scripted scanner recorded *)
E(c, a) == [c |-> c, a |-> a]

(* the body as the chunks of at most 65535 bytes the milter protocol carries; an "unreadable" body is a buffer *)
(* whose Open fails (a local I/O error of the server, e.g. a spool file that cannot be read)                *)
Chunks(b) == CASE b \in {"empty", "unreadable"} -> <<>> [] b = "big" -> <<65535, 4465>> [] OTHER -> <<7>>

TlsName(t) == CASE t = "1.0" -> "TLSv1" [] t = "1.1" -> "TLSv1.1" [] t = "1.2" -> "TLSv1.2" [] OTHER -> "TLSv1.3"
Cipher(t) == IF t = "1.3" THEN "TLS_AES_128_GCM_SHA256" ELSE "TLS_ECDHE_RSA_WITH_AES_128_GCM_SHA256"

ClassOf(r) == IF r.code = 0 THEN (IF r.temp THEN 4 ELSE 5) ELSE r.code \div 100    \* endpoint/smtp wrapErr: 451 / 554 without annotations
Coherent(r) == r.k = "rej" /\ (r.code = 0 \/ (r.code \in 400..599 /\ r.temp = (ClassOf(r) = 4) /\ r.enchc = ClassOf(r)))
TempRej(r) == Coherent(r) /\ ClassOf(r) = 4
PermRej(r) == Coherent(r) /\ ClassOf(r) = 5

(* the SMTP session (module.ConnState) a row is received over *)
Conn(kind, addr, helo, auth, tls) ==
  [kind |-> kind, addr |-> addr, port |-> 41000, helo |-> helo, auth |-> auth, tls |-> tls, rdns |-> "none"]
C4 == Conn("tcp4", "192.0.2.7", "client.sender.test", "", "none")
NilConn == Conn("nil", "", "", "", "none")

(* header fields: name, raw value, lower-case name, value with the folding removed *)
F(n, v, ln, nv) == [n |-> n, v |-> v, ln |-> ln, nv |-> nv]
Hdr2 == <<F("From", "<a@sender.test>", "from", "<a@sender.test>"), F("Subject", "verif", "subject", "verif")>>
HdrOdd == <<F("Received", "from a\r\n\tby b;\r\n  date", "received", "from a by b; date"),
            F("SUBJECT", "", "subject", ""),
            F("X-Dup", "one", "x-dup", "one"), F("X-Dup", "two", "x-dup", "two")>>

ConnKinds == {C4, Conn("mapped", "192.0.2.7", "client.sender.test", "", "none"),
              Conn("tcp6", "2001:db8::1", "client.sender.test", "", "none"),
              Conn("unix", "/run/verif/client.sock", "client.sender.test", "", "none"),
              Conn("other", "", "client.sender.test", "", "none"), NilConn}
TlsKinds == {"none", "1.0", "1.1", "1.2", "1.3"}

(* pseudo-random draws of the mixed tables (the range of HH bounds the number of distinct rows to 32749) *)
HH(x) == LET y == x % 32749 IN (y * y + 7 * y + 12345) % 32749
Pick(seq, r) == seq[(r % Len(seq)) + 1]

=============================================================================
