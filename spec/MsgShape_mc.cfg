SPECIFICATION Spec
CONSTANTS
  MaxFields = 2
  MaxLines = 2
  Devs = {}
  GenN = 0
INVARIANT RowOK
