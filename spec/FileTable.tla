------------------------------ MODULE FileTable ------------------------------
(***************************************************************************)
(* Design specification of table.file (internal/table/file.go): Init, the  *)
(* reloader goroutine (ticker / reload event / stop), reload() as the      *)
(* sequence of its file-system calls, Close, and the environment that      *)
(* edits the file between ANY two of those calls.                          *)
(*                                                                         *)
(* One action per call reload() makes on the file system:                  *)
(*   RStat1  os.Stat       -> not there: table cleared | error | too young *)
(*                            or not newer: done | go on                   *)
(*   ROpen   os.Open       (readFile)                                      *)
(*   RRead   one Read of the scanner = one line (the harness cuts reads at *)
(*           line boundaries; a large file is read in several calls too),  *)
(*           parse error -> done, EOF -> go on                             *)
(*   RStat2  os.Stat again -> changed meanwhile: done | swap the map in    *)
(* Time is a slot counter; the ticker fires every K slots, reload() skips  *)
(* files whose mtime is younger than K \div 2.  The file system is modelled*)
(* with inode semantics: an open descriptor keeps reading the old inode    *)
(* after a rename/unlink and sees in-place truncation/appends.             *)
(*                                                                         *)
(* Deviations of the code on HEAD (named, switched by Devs):               *)
(*   "StatErrPanic"     os.Stat failing with anything but not-exist is     *)
(*                      logged and then info.ModTime() dereferences nil:   *)
(*                      the panic is recovered by reloader()'s defer and   *)
(*                      the goroutine ends - no reload ever again, Close   *)
(*                      and the reload hook block forever.                 *)
(*   "OldMtimeIgnored"  a file whose mtime is older than the one loaded    *)
(*                      (mv/cp -p/rsync -t/restore of an older version,    *)
(*                      also after removal: mStamp is not reset) is never  *)
(*                      loaded.                                            *)
(***************************************************************************)
EXTENDS FileTableObs, TLC, Json

CONSTANTS MaxTime,    \* clock horizon (slots)
          MaxEnv,     \* environment edits per behaviour
          MaxForce,   \* reload events per behaviour
          EnvKinds,   \* subset of {"put","putbad","putold","trunc","app","rm","dir","loop","unread"} (edits of the
                      \* file the environment may make) plus "close" (Close may be called), "slow" (time may pass inside reload())
          InitKinds,  \* subset of {"good","none","bad","dir","loop","unread"}: what the path is at start-up
          OldStamps,  \* mtimes a "putold" may carry, as slot + 20 (a cfg file cannot hold negative numbers)
          Devs,
          Gen

VARIABLES now, nextTick,
          file,       \* [kind, lines, mtime, unread] what the path refers to
          usedM,      \* mtimes used so far (a change always changes the mtime - environment assumption)
          nver,       \* versions handed out
          wv,         \* version of the in-place writer in progress (0 = none)
          fd,         \* [att, lines]: descriptor of readFile; att = still the path's inode
          pc,         \* "new" | "idle" | "stat1" | "open" | "read" | "stat2" | "dead" | "stopped" | "failed"
          rdPos, buf, st1,
          tickPending, forced, closing,
          tbl,        \* lines the map was built from
          stamp,      \* mStamp
          envLeft, forceLeft, panicked, devUsed, done,
          last,       \* the step just taken, as the harness records it
          obs, hist

dvars == <<now, nextTick, file, usedM, nver, wv, fd, pc, rdPos, buf, st1, tickPending, forced, closing,
           tbl, stamp, envLeft, forceLeft, panicked, devUsed, done>>
vars == <<dvars, last, obs, hist>>
View == <<dvars, obs>>

H(e) == IF Gen THEN Append(hist, e) ELSE hist
Emit(e) == last' = e /\ hist' = H(e)

VerLines(n, kind) ==
  CASE kind = "good" -> << <<"k", n>>, <<"c", n>> >>
    [] kind = "bad"  -> << <<"k", n>>, <<"!", n>> >>

InitFile(kind) ==
  CASE kind = "good"   -> [kind |-> "file", lines |-> VerLines(1, "good"), mtime |-> -10, unread |-> FALSE]
    [] kind = "bad"    -> [kind |-> "file", lines |-> VerLines(1, "bad"), mtime |-> -10, unread |-> FALSE]
    [] kind = "unread" -> [kind |-> "file", lines |-> VerLines(1, "good"), mtime |-> -10, unread |-> TRUE]
    [] kind = "dir"    -> [kind |-> "dir", lines |-> <<>>, mtime |-> -10, unread |-> FALSE]
    [] kind = "loop"   -> [kind |-> "loop", lines |-> <<>>, mtime |-> 0, unread |-> FALSE]
    [] kind = "none"   -> NoFile

InitWith(f) ==
  /\ now = 0 /\ nextTick = 0 /\ file = f /\ usedM = {f.mtime} /\ nver = 1 /\ wv = 0
  /\ fd = [att |-> FALSE, lines |-> <<>>, dir |-> FALSE]
  /\ pc = "new" /\ rdPos = 0 /\ buf = <<>> /\ st1 = 0
  /\ tickPending = FALSE /\ forced = 0 /\ closing = "no"
  /\ tbl = <<>> /\ stamp = Zero
  /\ envLeft = MaxEnv /\ forceLeft = MaxForce /\ panicked = FALSE /\ devUsed = {} /\ done = FALSE
  /\ last = [a |-> "Cfg"] /\ obs = ObsInit(f) /\ hist = <<>>

Init == \E k \in InitKinds : InitWith(InitFile(k))

Alive == pc \in {"idle", "stat1", "open", "read", "stat2"}
Busy  == pc \in {"stat1", "open", "read", "stat2"}
Parked == CASE pc \in {"stat1", "stat2"} -> "stat" [] pc = "open" -> "open" [] pc = "read" -> "read" [] OTHER -> ""

\* what a probe of the table shows in the current state
LookOf(t, p, f, c, pan) ==
  [tv |-> TV(t), sv |-> SV(TV(t)), parked |-> p, fp |-> f, cl |-> c, pan |-> pan]

(***************************************************************************)
(* Init(): readFile without any of reload()'s guards, then the reloader    *)
(* starts and creates its ticker.                                          *)
(***************************************************************************)
Readable(f) == f.kind = "file" /\ ~f.unread /\ Good(f.lines)
MInit ==
  /\ pc = "new"
  /\ IF file.kind = "none" \/ Readable(file)
     THEN /\ pc' = "idle" /\ tbl' = (IF file.kind = "none" THEN <<>> ELSE file.lines)
          /\ nextTick' = now + K
          /\ Emit([a |-> "Init", res |-> "ok", f |-> file])
     ELSE /\ pc' = "failed" /\ UNCHANGED <<tbl, nextTick>>
          /\ Emit([a |-> "Init", res |-> "err", f |-> file])
  /\ UNCHANGED <<now, file, usedM, nver, wv, fd, rdPos, buf, st1, tickPending, forced, closing, stamp,
                 envLeft, forceLeft, panicked, devUsed, done>>

(***************************************************************************)
(* The clock.  The ticker keeps firing while the goroutine lives; a tick   *)
(* that finds the reloader inside reload() stays pending (one at most).    *)
(***************************************************************************)
Tick ==
  /\ pc \notin {"new", "failed"} /\ now < MaxTime /\ ~done
  /\ (Busy => "slow" \in EnvKinds)        \* time may pass between two calls of reload()
  /\ now' = now + 1
  /\ IF Alive /\ now + 1 = nextTick
     THEN /\ nextTick' = nextTick + K
          /\ IF pc = "idle" THEN pc' = "stat1" /\ UNCHANGED tickPending
             ELSE tickPending' = TRUE /\ UNCHANGED pc
     ELSE UNCHANGED <<nextTick, pc, tickPending>>
  /\ Emit([a |-> "Tick"])
  /\ UNCHANGED <<file, usedM, nver, wv, fd, rdPos, buf, st1, forced, closing, tbl, stamp,
                 envLeft, forceLeft, panicked, devUsed, done>>

(***************************************************************************)
(* The environment.                                                        *)
(***************************************************************************)
FdHeld == pc \in {"read", "stat2"}
Detach == fd' = IF FdHeld /\ fd.att THEN [att |-> FALSE, lines |-> file.lines, dir |-> file.kind = "dir"] ELSE fd
EnvOK(kind) == pc \notin {"new", "failed"} /\ ~done /\ envLeft > 0 /\ kind \in EnvKinds
EnvFrame == /\ envLeft' = envLeft - 1
            /\ UNCHANGED <<now, nextTick, pc, rdPos, buf, st1, tickPending, forced, closing, tbl, stamp,
                           forceLeft, panicked, devUsed, done>>

\* atomic replacement (write a temporary file, rename it over the path)
EPutAt(lines, m) ==
  /\ file' = [kind |-> "file", lines |-> lines, mtime |-> m, unread |-> FALSE]
  /\ usedM' = usedM \cup {m} /\ nver' = nver + 1 /\ wv' = 0 /\ Detach
  /\ Emit([a |-> "EPut", lines |-> lines, m |-> m])
  /\ EnvFrame
EPut    == EnvOK("put")    /\ EPutAt(VerLines(nver + 1, "good"), now)
EPutBad == EnvOK("putbad") /\ EPutAt(VerLines(nver + 1, "bad"), now)
EPutOld == EnvOK("putold") /\ \E s \in OldStamps : LET m == s - 20 IN
             m < now /\ m \notin usedM /\ EPutAt(VerLines(nver + 1, "good"), m)

\* a writer that rewrites the file in place: truncate, then line after line
ETrunc ==
  /\ EnvOK("trunc") /\ file.kind \in {"file", "none"}
  /\ file' = [kind |-> "file", lines |-> <<>>, mtime |-> now,
              unread |-> IF file.kind = "file" THEN file.unread ELSE FALSE]
  /\ usedM' = usedM \cup {now} /\ nver' = nver + 1 /\ wv' = nver + 1
  /\ UNCHANGED fd
  /\ Emit([a |-> "ETrunc", m |-> now])
  /\ EnvFrame
EApp ==
  /\ EnvOK("app") /\ file.kind = "file" /\ wv > 0 /\ Len(file.lines) < 2
  /\ LET line == <<IF Len(file.lines) = 0 THEN "k" ELSE "c", wv>> IN
       /\ file' = [file EXCEPT !.lines = Append(@, line), !.mtime = now]
       /\ Emit([a |-> "EApp", line |-> line, m |-> now])
  /\ usedM' = usedM \cup {now}
  /\ UNCHANGED <<nver, wv, fd>>
  /\ EnvFrame
ERm ==
  /\ EnvOK("rm") /\ file.kind # "none"
  /\ file' = NoFile /\ wv' = 0 /\ Detach
  /\ Emit([a |-> "ERm"])
  /\ UNCHANGED <<usedM, nver>>
  /\ EnvFrame
EDir ==
  /\ EnvOK("dir") /\ file.kind # "dir"
  /\ file' = [kind |-> "dir", lines |-> <<>>, mtime |-> now, unread |-> FALSE] /\ wv' = 0 /\ Detach
  /\ usedM' = usedM \cup {now}
  /\ Emit([a |-> "EDir", m |-> now])
  /\ UNCHANGED nver
  /\ EnvFrame
ELoop ==
  /\ EnvOK("loop") /\ file.kind # "loop"
  /\ file' = [kind |-> "loop", lines |-> <<>>, mtime |-> 0, unread |-> FALSE] /\ wv' = 0 /\ Detach
  /\ Emit([a |-> "ELoop"])
  /\ UNCHANGED <<usedM, nver>>
  /\ EnvFrame
EUnread ==
  /\ EnvOK("unread") /\ file.kind = "file"
  /\ file' = [file EXCEPT !.unread = ~@]
  /\ Emit([a |-> "EUnread", on |-> ~file.unread])
  /\ UNCHANGED <<usedM, nver, wv, fd>>
  /\ EnvFrame

(***************************************************************************)
(* The reloader.                                                           *)
(***************************************************************************)
\* reload() returned: the goroutine is back at its select; every ready case may be taken
AfterReload ==
  \/ /\ closing = "called" /\ pc' = "stopped" /\ closing' = "done" /\ UNCHANGED <<tickPending, forced>>
  \/ /\ tickPending /\ pc' = "stat1" /\ tickPending' = FALSE /\ UNCHANGED <<closing, forced>>
  \/ /\ forced > 0 /\ pc' = "stat1" /\ forced' = forced - 1 /\ UNCHANGED <<closing, tickPending>>
  \/ /\ closing # "called" /\ ~tickPending /\ forced = 0
     /\ pc' = "idle" /\ UNCHANGED <<closing, tickPending, forced>>

RFrame == UNCHANGED <<now, nextTick, file, usedM, nver, wv, envLeft, forceLeft, done>>

StatRes(f) == CASE f.kind = "none" -> "noent" [] f.kind = "loop" -> "err" [] OTHER -> "ok"

RStat1 ==
  /\ pc = "stat1"
  /\ Emit([a |-> "Stat", res |-> StatRes(file), m |-> file.mtime])
  /\ RFrame /\ UNCHANGED <<fd, rdPos, buf>>
  /\ CASE file.kind = "none" ->
            /\ tbl' = <<>>
            /\ stamp' = IF "OldMtimeIgnored" \in Devs THEN stamp ELSE Zero
            /\ AfterReload /\ UNCHANGED <<st1, panicked, devUsed>>
       [] file.kind = "loop" ->
            IF "StatErrPanic" \in Devs
            THEN /\ pc' = "dead" /\ panicked' = TRUE /\ devUsed' = devUsed \cup {"StatErrPanic"}
                 /\ UNCHANGED <<tbl, stamp, st1, tickPending, forced, closing>>
            ELSE /\ AfterReload /\ UNCHANGED <<tbl, stamp, st1, panicked, devUsed>>
       [] OTHER ->
            LET m == file.mtime
                young == now - m < Half
                older == "OldMtimeIgnored" \in Devs /\ m < stamp
                same  == "OldMtimeIgnored" \notin Devs /\ m = stamp
            IN \/ /\ (young \/ older \/ same)             \* reload not necessary
                  /\ AfterReload
                  /\ devUsed' = IF older /\ ~young THEN devUsed \cup {"OldMtimeIgnored"} ELSE devUsed
                  /\ UNCHANGED <<tbl, stamp, st1, panicked>>
               \/ /\ ~young /\ ~older
                  /\ pc' = "open" /\ st1' = m
                  /\ UNCHANGED <<tbl, stamp, panicked, devUsed, tickPending, forced, closing>>

OpenRes(f) == CASE f.kind = "none" -> "noent" [] f.kind = "loop" -> "err"
                [] f.kind = "file" /\ f.unread -> "err" [] OTHER -> "ok"

ROpen ==
  /\ pc = "open"
  /\ Emit([a |-> "Open", res |-> OpenRes(file)])
  /\ RFrame /\ UNCHANGED <<tbl, stamp, st1, panicked, devUsed>>
  /\ IF OpenRes(file) = "ok"
     THEN /\ pc' = "read" /\ fd' = [att |-> TRUE, lines |-> <<>>, dir |-> FALSE] /\ rdPos' = 0 /\ buf' = <<>>
          /\ UNCHANGED <<tickPending, forced, closing>>
     ELSE /\ AfterReload /\ UNCHANGED <<fd, rdPos, buf>>

FdLines == IF fd.att THEN file.lines ELSE fd.lines
FdIsDir == IF fd.att THEN file.kind = "dir" ELSE fd.dir

RRead ==
  /\ pc = "read"
  /\ RFrame /\ UNCHANGED <<tbl, stamp, st1, panicked, devUsed, fd>>
  /\ IF FdIsDir
     THEN /\ Emit([a |-> "Read", res |-> "err", line |-> <<"", 0>>])
          /\ AfterReload /\ UNCHANGED <<rdPos, buf>>
     ELSE IF rdPos < Len(FdLines)
     THEN LET line == FdLines[rdPos + 1] IN
          /\ Emit([a |-> "Read", res |-> "line", line |-> line])
          /\ rdPos' = rdPos + 1
          /\ IF IsBad(line)
             THEN AfterReload /\ UNCHANGED buf             \* parse error: previous contents stay
             ELSE buf' = Append(buf, line) /\ UNCHANGED <<pc, tickPending, forced, closing>>
     ELSE /\ Emit([a |-> "Read", res |-> "eof", line |-> <<"", 0>>])
          /\ pc' = "stat2" /\ UNCHANGED <<rdPos, buf, tickPending, forced, closing>>

RStat2 ==
  /\ pc = "stat2"
  /\ Emit([a |-> "Stat", res |-> StatRes(file), m |-> file.mtime])
  /\ RFrame /\ UNCHANGED <<fd, rdPos, buf, st1, panicked, devUsed>>
  /\ AfterReload
  /\ IF StatRes(file) = "ok" /\ file.mtime = st1
     THEN tbl' = buf /\ stamp' = st1
     ELSE UNCHANGED <<tbl, stamp>>

(***************************************************************************)
(* The API: reload event (SIGUSR2 hook) and Close.                         *)
(***************************************************************************)
AFrame == UNCHANGED <<now, nextTick, file, usedM, nver, wv, fd, rdPos, buf, st1, tickPending, tbl, stamp,
                      envLeft, panicked, devUsed, done>>
EForce ==
  /\ pc \in {"idle", "stat1", "open", "read", "stat2", "dead"} /\ closing = "no" /\ forceLeft > 0 /\ ~done
  /\ forceLeft' = forceLeft - 1
  /\ IF pc = "idle" THEN pc' = "stat1" /\ UNCHANGED forced
     ELSE forced' = forced + 1 /\ UNCHANGED pc
  /\ Emit([a |-> "Force"])
  /\ AFrame /\ UNCHANGED closing
EClose ==
  /\ pc \in {"idle", "stat1", "open", "read", "stat2", "dead"} /\ closing = "no" /\ ~done
  /\ "close" \in EnvKinds
  /\ IF pc = "idle" THEN pc' = "stopped" /\ closing' = "done"
     ELSE closing' = "called" /\ UNCHANGED pc
  /\ Emit([a |-> "Close"])
  /\ AFrame /\ UNCHANGED <<forced, forceLeft>>

End ==
  /\ pc \in {"idle", "dead", "stopped", "failed"} /\ ~done
  /\ (~Gen \/ now = MaxTime \/ pc = "failed" \/ closing = "done")   \* generated behaviours use the whole horizon
  /\ done' = TRUE
  /\ Emit([a |-> "End", leak |-> FALSE])
  /\ UNCHANGED <<now, nextTick, file, usedM, nver, wv, fd, pc, rdPos, buf, st1, tickPending, forced, closing,
                 tbl, stamp, envLeft, forceLeft, panicked, devUsed>>

Act ==
  \/ MInit \/ Tick
  \/ EPut \/ EPutBad \/ EPutOld \/ ETrunc \/ EApp \/ ERm \/ EDir \/ ELoop \/ EUnread
  \/ RStat1 \/ ROpen \/ RRead \/ RStat2
  \/ EForce \/ EClose \/ End

\* every step is followed by a complete probe of the table
Fold(o, e) == ObsLook(ObsEv(o, e.a, e), LookOf(tbl', Parked', forced', closing', panicked'))

Next ==
  \/ /\ (Gen => obs.viol = {})            \* a generated behaviour ends at the first violation (as-is runs)
     /\ Act
     /\ obs' = IF pc' = "failed" THEN ObsEv(obs, last'.a, last') ELSE Fold(obs, last')
     /\ IF Gen /\ (done' \/ obs'.viol # {})
        THEN PrintT(<<"BEH", ToJson([cfg |-> [K |-> K], hist |-> hist', viol |-> obs'.viol])>>) ELSE TRUE
  \/ (done /\ ~Gen /\ UNCHANGED vars)

Spec == Init /\ [][Next]_vars

NoViolation == obs.viol = {}
TypeOK == /\ pc \in {"new", "idle", "stat1", "open", "read", "stat2", "dead", "stopped", "failed"}
          /\ forced \in 0..MaxForce /\ envLeft \in 0..MaxEnv /\ now \in 0..MaxTime
          /\ closing \in {"no", "called", "done"}
\* design-level facts the predicates rest on
TableIsAVersion == tbl = <<>> \/ \E r \in obs.seen : r.lines = tbl /\ Good(tbl)
=============================================================================
