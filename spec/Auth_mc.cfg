\* exhaustive check of the design (quick constants; lib/checks/c14.py builds the same text)
SPECIFICATION Spec
CONSTANTS
  Variants = {"plain", "upper"}
  BadVariants = {"space"}
  Pws = {"a", "l72", "l73"}
  Schemes = {"bcrypt", "argon2", "sha256"}
  Maps = {"none", "identity", "s_ab", "s_swap", "s_id", "s_ba", "s_proj", "r_strip", "r_append", "b_local", "b_localopt"}
  Norms = {"auto"}
  Kinds = {"Create", "SetPw", "Delete", "AuthPlain", "AuthLogin", "AuthPair", "AuthDirect", "SOpen", "SEhlo", "SAuth", "SMail", "SRset", "SClose"}
  UxVariants = {"plain", "under", "underb", "pct"}
  Tbls = {"mem"}
  Defers = {TRUE, FALSE}
  MailFroms = {"addr", "null", "nullparam", "upper", "utf8"}
  Doms = {"ascii"}
  EmailVariants = {}
  MaxOps = 12
  Devs = {}
  Gen = FALSE
VIEW View
INVARIANTS NoViolation TypeOK
