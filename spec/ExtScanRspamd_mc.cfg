\* enumeration of the rspamd tables (quick: Full = FALSE, RandN = 800; thorough: Full = TRUE, RandN = 20000); lib/checks/x07.py
SPECIFICATION Spec
CONSTANTS
  Full = FALSE
  Devs = {}
  Gen = FALSE
  Seed = 1
  RandN = 800
INVARIANTS RuleSatisfiesProp RuleShape
CHECK_DEADLOCK FALSE
