------------------------------ MODULE MsgPath ------------------------------
(***************************************************************************)
(* End-to-end composition of the message path (growth beyond the listed   *)
(* properties; it ties C03, C04/C09 and C01 together):                    *)
(*                                                                         *)
(*   client --SMTP--> endpoint/smtp --> msgpipeline --> target.queue      *)
(*          --> target.smtp/lmtp forwarder --SMTP/LMTP--> next hop         *)
(*                                        \--> bounce pipeline             *)
(*                                                                         *)
(* One SMTP session with one transaction: MAIL, RCPT for each recipient   *)
(* of the list (the pipeline refuses the ones routed to a reject block),  *)
(* then DATA, RSET or a disconnect; after an acknowledged DATA the queue  *)
(* makes up to MaxTries attempts towards a next hop that answers every     *)
(* command with a result chosen by the environment.                        *)
(*                                                                         *)
(* End-to-end statement checked by TLC on this model and on traces of the *)
(* real components wired together:                                         *)
(*  RefusedRcptReachedHop  a recipient refused at RCPT is never presented  *)
(*                         to the next hop                                 *)
(*  UnackedReachedHop      without a 250 for DATA nothing ever reaches the *)
(*                         next hop                                        *)
(*  HopDeliveredTwice      the next hop accepts the message for a          *)
(*                         recipient at most once                          *)
(*  NotExactlyOneE2E       after a 250 for DATA, once everything is quiet, *)
(*                         every accepted recipient was accepted by the    *)
(*                         next hop exactly once or named in exactly one   *)
(*                         failure report (and not both)                   *)
(*  ReportForUnknown       a failure report names only accepted recipients *)
(***************************************************************************)
EXTENDS Naturals, Sequences, FiniteSets, TLC, Json, SequencesExt

CONSTANTS Rcpts,      \* recipient identities
          Rejected,   \* subset of Rcpts the pipeline routes to a reject block
          MaxTries, Gen

Res == {"ok", "temp", "perm"}
Ends == {"data", "rset", "drop"}

VARIABLES cfg,     \* [lmtp : BOOLEAN, list : Seq(Rcpts), how : Ends]
          phase,   \* "mail" "rcpt" "end" "queued" "attempt" "quiet" "done"
          i,       \* next RCPT of the list
          acc,     \* recipients answered 250 at RCPT
          acked,   \* DATA answered 250
          pend,    \* queue: recipients still to deliver (sequence)
          tries,   \* queue: attempts made for the recipients still pending
          obs, hist
vars == <<cfg, phase, i, acc, acked, pend, tries, obs, hist>>
View == <<cfg, phase, i, acc, acked, pend, tries, obs>>

H(e) == IF Gen THEN Append(hist, e) ELSE hist
V(o, c, name) == IF c THEN o ELSE [o EXCEPT !.viol = @ \cup {name}]

(* ---- observation (client side, next hop side, bounce side) ---------------- *)
ObsInit == [acc |-> {}, refused |-> {}, acked |-> FALSE, ended |-> FALSE, hopSeen |-> {},
            hop |-> [r \in Rcpts |-> 0], rep |-> [r \in Rcpts |-> 0], viol |-> {}]
ObsRcpt(o, r, ok) == IF ok THEN [o EXCEPT !.acc = @ \cup {r}] ELSE [o EXCEPT !.refused = @ \cup {r}]
ObsEndTxn(o, ok) == [o EXCEPT !.acked = ok, !.ended = TRUE]
\* the next hop saw RCPT for r (whatever it answered)
\* (whether the transaction was acknowledged is judged at quiescence: the queue may start
\* delivering before the client has read the 250)
ObsHopRcpt(o, r) ==
  LET o1 == V(o, ~(r \in o.refused /\ r \notin o.acc), "RefusedRcptReachedHop")
  IN [o1 EXCEPT !.hopSeen = @ \cup {r}]
\* the next hop accepted the message for the set S
ObsHopAccept(o, S) ==
  LET o1 == [o EXCEPT !.hop = [r \in Rcpts |-> IF r \in S THEN @[r] + 1 ELSE @[r]]]
  IN V(o1, \A r \in Rcpts : o1.hop[r] <= 1, "HopDeliveredTwice")
ObsReport(o, S) ==
  LET o1 == [o EXCEPT !.rep = [r \in Rcpts |-> IF r \in S THEN @[r] + 1 ELSE @[r]]]
  IN V(o1, S \subseteq o.acc, "ReportForUnknown")
ObsQuiet(o) ==
  LET o1 == V(o, o.acked => \A r \in o.acc : o.hop[r] + o.rep[r] = 1, "NotExactlyOneE2E")
  IN V(o1, o.hopSeen # {} => o.acked, "UnackedReachedHop")

(* ---- the design ------------------------------------------------------------ *)
Lists == UNION {[1..k -> Rcpts] : k \in 1..Cardinality(Rcpts)}
NoDup(s) == \A a, b \in 1..Len(s) : a # b => s[a] # s[b]

Init ==
  /\ cfg \in [lmtp : BOOLEAN, list : {s \in Lists : NoDup(s)}, how : Ends]
  /\ phase = "rcpt" /\ i = 1 /\ acc = <<>> /\ acked = FALSE
  /\ pend = <<>> /\ tries = 0 /\ obs = ObsInit /\ hist = <<>>

Rcpt ==
  /\ phase = "rcpt" /\ i <= Len(cfg.list)
  /\ LET r == cfg.list[i]  ok == r \notin Rejected IN
       /\ acc' = IF ok THEN Append(acc, r) ELSE acc
       /\ obs' = ObsRcpt(obs, r, ok)
       /\ hist' = H([a |-> "Rcpt", r |-> r, ok |-> ok])
  /\ i' = i + 1
  /\ UNCHANGED <<cfg, phase, acked, pend, tries>>

EndTxn ==
  /\ phase = "rcpt" /\ i > Len(cfg.list)
  /\ LET ok == cfg.how = "data" /\ acc # <<>> IN
       /\ acked' = ok
       /\ obs' = ObsEndTxn(obs, ok)
       /\ hist' = H([a |-> "End", how |-> cfg.how, ok |-> ok])
       /\ IF ok THEN phase' = "queued" /\ pend' = acc /\ tries' = 0
          ELSE phase' = "quiet" /\ UNCHANGED <<pend, tries>>
  /\ UNCHANGED <<cfg, i, acc>>

\* one attempt of the queue: the next hop answers MAIL with m and every RCPT / per-recipient
\* status with st[r]; for SMTP the data result d applies to all accepted recipients
Attempt(m, st, d) ==
  /\ phase = "queued" /\ pend # <<>>
  /\ LET P == ToSet(pend)
         fin(r) == IF m # "ok" THEN m
                   ELSE IF st[r].rcpt # "ok" THEN st[r].rcpt
                   ELSE IF cfg.lmtp THEN st[r].dot ELSE d
         okS  == {r \in P : fin(r) = "ok"}
         last == tries + 1 >= MaxTries
         failS == {r \in P : fin(r) = "perm" \/ (fin(r) = "temp" /\ last)}
         o0 == IF m = "ok" THEN [obs EXCEPT !.hopSeen = @ \cup P] ELSE obs
         o1 == IF m = "ok" THEN ObsHopAccept(o0, okS) ELSE o0
         o2 == IF failS # {} THEN ObsReport(o1, failS) ELSE o1
     IN /\ obs' = o2
        /\ pend' = SelectSeq(pend, LAMBDA r : r \notin okS /\ r \notin failS)
        /\ hist' = H([a |-> "Attempt", m |-> m, st |-> st, d |-> d])
  /\ tries' = tries + 1
  /\ phase' = IF pend' = <<>> THEN "quiet" ELSE "queued"
  /\ UNCHANGED <<cfg, i, acc, acked>>

Quiet ==
  /\ phase = "quiet"
  /\ obs' = ObsQuiet(obs)
  /\ phase' = "done"
  /\ hist' = H([a |-> "Quiet"])
  /\ IF Gen THEN PrintT(<<"BEH", ToJson([cfg |-> cfg, rejected |-> Rejected, hist |-> hist'])>>) ELSE TRUE
  /\ UNCHANGED <<cfg, i, acc, acked, pend, tries>>

Sts == [Rcpts -> [rcpt : Res, dot : Res]]
Next ==
  \/ Rcpt \/ EndTxn \/ Quiet
  \/ \E m \in Res, st \in Sts, d \in Res : Attempt(m, st, d)
  \/ (phase = "done" /\ ~Gen /\ UNCHANGED vars)
Spec == Init /\ [][Next]_vars
NoViolation == obs.viol = {}
=============================================================================
