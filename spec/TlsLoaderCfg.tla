----------------------------- MODULE TlsLoaderCfg -----------------------------
(***************************************************************************)
(* Pattern B for extension X11: the `tls` directive of an endpoint and the *)
(* `tls_client` block (framework/config/tls) as a decision table.          *)
(*                                                                         *)
(* A row is one configuration:                                             *)
(*   scope      "server" (tls directive of an smtp endpoint) | "client"    *)
(*              (tls_client block)                                         *)
(*   mode       server: "off" | "file" (one pair) | "file2" (two pairs) |  *)
(*              "self" (tls self_signed a.test) | "none" (a block with no  *)
(*              loader: `tls { protocols ... }`) | "bogus" (unknown loader)*)
(*              | "odd" (tls file with three arguments) | "filedir" (the   *)
(*              loader named by a `loader` directive inside the block) |   *)
(*              "named" (`tls &NAME` referring to a block `tls.loader.file *)
(*              NAME { certs A B; keys A B }`) | "namedmis" (the same with *)
(*              two certs and one key);                                    *)
(*              client: "client" | "clientcert" (cert + key configured) |  *)
(*              "clienthalf" (only cert configured)                        *)
(*   protocols, ciphers, curves   the arguments of the directive;          *)
(*              <<"OMIT">> = the directive is not written; <<>> = written  *)
(*              without arguments                                          *)
(* The answer of the real code is                                          *)
(*   err        the configuration was refused                              *)
(*   starttls   EHLO advertises STARTTLS (server)                          *)
(*   vers       the protocol versions (0..3 = TLS 1.0..1.3) a handshake    *)
(*              pinned to that version succeeds with                       *)
(*   ciph       the cipher suites of CipherU a TLS 1.2 handshake pinned to *)
(*              that suite succeeds with (the certificate is ECDSA)        *)
(*   curv       the curves of CurveU a TLS 1.3 handshake pinned to that    *)
(*              curve succeeds with                                        *)
(*   names      the served certificate is valid for the configured names   *)
(*   ccert      the peer was shown the configured client certificate       *)
(* Sources: docs/reference/tls.md (loaders, `off`, protocols / ciphers /   *)
(* curves with their valid values and defaults, tls_client).               *)
(*                                                                         *)
(* Deviations of the code on HEAD (named, switched by Devs):               *)
(*   "NoLoaderAccepted"   a tls block without a loader is accepted; the    *)
(*                        endpoint advertises STARTTLS and every handshake *)
(*                        fails (no certificate)                           *)
(*   "ClientDefaultMin12" tls_client without `protocols` leaves the        *)
(*                        minimum to crypto/tls (TLS 1.2), the documented  *)
(*                        default is tls1.0                                *)
(***************************************************************************)
EXTENDS Integers, Sequences, FiniteSets, TLC, Json

CONSTANTS Scopes, Depth, Devs, Gen

VARIABLE in

OMIT == <<"OMIT">>
VerNames == <<"tls1.0", "tls1.1", "tls1.2", "tls1.3">>
VerIdx(s) == CHOOSE i \in 0..3 : VerNames[i + 1] = s
IsVer(s) == \E i \in 1..4 : VerNames[i] = s
BadVers == {"ssl3", "TLS1.2"}

G128 == "ECDHE-ECDSA-WITH-AES128-GCM-SHA256"
G256 == "ECDHE-ECDSA-WITH-AES256-GCM-SHA384"
CHA  == "ECDHE-ECDSA-WITH-CHACHA20-POLY1305"
CBC  == "ECDHE-ECDSA-WITH-AES128-CBC-SHA"
RSAG == "ECDHE-RSA-WITH-AES128-GCM-SHA256"
CipherU == {G128, G256, CHA, CBC}                 \* suites an ECDSA certificate can serve; probed one by one
CipherNames == CipherU \cup {RSAG}                \* documented names used in rows
CurveU == {"p256", "p384", "p521", "X25519"}

ProtoChoices ==
  {OMIT, <<>>} \cup {<<v>> : v \in {VerNames[i] : i \in 1..4} \cup BadVers}
  \cup {<<v, w>> : v \in {VerNames[i] : i \in 1..4} \cup {"ssl3"}, w \in {VerNames[i] : i \in 1..4} \cup {"ssl3"}}
  \cup {<<"tls1.2", "tls1.3", "tls1.3">>}
CipherChoices ==
  {OMIT, <<>>, <<G128>>, <<CBC>>, <<G256, CHA>>, <<RSAG>>, <<G128, "BOGUS-CIPHER">>, <<"ecdhe-ecdsa-with-aes128-gcm-sha256">>}
  \cup (IF Depth >= 2 THEN {<<CHA>>, <<G128, G256, CHA, CBC>>, <<RSAG, G128>>, <<CBC, G128>>} ELSE {})
CurveChoices ==
  {OMIT, <<>>, <<"X25519">>, <<"p256">>, <<"p384", "p521">>, <<"x25519">>}
  \cup (IF Depth >= 2 THEN {<<"p521">>, <<"X25519", "p256">>, <<"P256">>, <<"p256", "bogus">>} ELSE {})

Serving == {"file", "file2", "self", "none", "filedir"}
Named == {"named", "namedmis"}
ClientModes == {"client", "clientcert", "clienthalf"}
Row(sc, m, p, c, k) == [scope |-> sc, mode |-> m, protocols |-> p, ciphers |-> c, curves |-> k]
Rows ==
  (IF "server" \in Scopes
   THEN {Row("server", m, p, c, k) : m \in Serving, p \in ProtoChoices, c \in CipherChoices, k \in CurveChoices}
        \cup {Row("server", m, p, OMIT, OMIT) : m \in {"off", "bogus", "odd"}, p \in {OMIT, <<"tls1.2">>, <<"ssl3">>}}
        \cup {Row("server", m, p, OMIT, OMIT) : m \in Named, p \in ProtoChoices}
   ELSE {})
  \cup
  (IF "client" \in Scopes
   THEN {Row("client", "client", p, c, k) : p \in ProtoChoices, c \in CipherChoices, k \in CurveChoices}
        \cup {Row("client", "clientcert", p, OMIT, OMIT) : p \in ProtoChoices}
        \cup {Row("client", "clienthalf", OMIT, OMIT, OMIT)}
   ELSE {})

ToSetS(s) == {s[i] : i \in 1..Len(s)}

(***************************************************************************)
(* The documented rule.                                                    *)
(***************************************************************************)
BadProto(p) == p # OMIT /\ (Len(p) \notin {1, 2} \/ \E i \in 1..Len(p) : ~IsVer(p[i]))
BadCipher(c) == c # OMIT /\ (c = <<>> \/ \E i \in 1..Len(c) : c[i] \notin CipherNames)
BadCurve(k) == k # OMIT /\ (k = <<>> \/ \E i \in 1..Len(k) : k[i] \notin CurveU)
BlockRead(i) == i.mode \in Serving \cup ClientModes \cup {"named"}          \* the block of `tls off` / a failed loader is never read
ConfigError(i) ==
  \/ i.mode \in {"bogus", "odd", "namedmis"}
  \/ BlockRead(i) /\ (BadProto(i.protocols) \/ BadCipher(i.ciphers) \/ BadCurve(i.curves))

DefaultMin(i, devs) == IF i.scope = "client" /\ "ClientDefaultMin12" \in devs THEN 2 ELSE 0
Allowed(i, devs) ==
  LET p == i.protocols IN
  IF p = OMIT THEN DefaultMin(i, devs)..3
  ELSE IF Len(p) = 1 THEN {VerIdx(p[1])}
  ELSE VerIdx(p[1])..VerIdx(p[2])
\* a version needs a cipher suite: TLS 1.3 has its own; of the suites in the rows only CBC-SHA exists before
\* TLS 1.2 and only the ECDSA ones fit the (ECDSA) certificate of the rows
ExpVers(i, devs) ==
  LET S == ToSetS(i.ciphers) IN
  {v \in Allowed(i, devs) : i.ciphers = OMIT \/ v = 3 \/ (v = 2 /\ S \cap CipherU # {}) \/ (v < 2 /\ CBC \in S)}
ExpCiph(i, devs) == IF 2 \notin Allowed(i, devs) THEN {}
                    ELSE IF i.ciphers = OMIT THEN CipherU ELSE ToSetS(i.ciphers) \cap CipherU
ExpCurv(i, devs) == IF 3 \notin Allowed(i, devs) THEN {}
                    ELSE IF i.curves = OMIT THEN CurveU ELSE ToSetS(i.curves)

ErrOut == [err |-> TRUE, starttls |-> FALSE, vers |-> {}, ciph |-> {}, curv |-> {}, names |-> TRUE, ccert |-> FALSE]
OffOut == [err |-> FALSE, starttls |-> FALSE, vers |-> {}, ciph |-> {}, curv |-> {}, names |-> TRUE, ccert |-> FALSE]
DeadOut == [err |-> FALSE, starttls |-> TRUE, vers |-> {}, ciph |-> {}, curv |-> {}, names |-> TRUE, ccert |-> FALSE]

RuleWith(i, devs) ==
  IF ConfigError(i) THEN ErrOut
  ELSE IF i.mode = "off" THEN OffOut
  ELSE IF i.mode = "none" THEN (IF "NoLoaderAccepted" \in devs THEN DeadOut ELSE ErrOut)
  ELSE [err |-> FALSE, starttls |-> i.scope = "server", vers |-> ExpVers(i, devs),
        ciph |-> ExpCiph(i, devs), curv |-> ExpCurv(i, devs), names |-> TRUE,
        ccert |-> i.mode = "clientcert" /\ ExpVers(i, devs) # {}]
Rule(i) == RuleWith(i, {})
RuleD(i) == RuleWith(i, Devs)

\* where the documentation leaves the answer open (Go's defaults) two answers count as the same
Same(i, o, r) ==
  /\ o.err = r.err /\ o.starttls = r.starttls /\ o.vers = r.vers /\ o.names = r.names /\ o.ccert = r.ccert
  /\ (i.ciphers # OMIT => o.ciph = r.ciph)
  /\ (i.curves # OMIT => o.curv = r.curv)

(***************************************************************************)
(* The property, declaratively.                                            *)
(***************************************************************************)
Viol(i, o) ==
  LET ok == ~ConfigError(i) /\ ~o.err
      live == i.mode \in {"file", "file2", "self", "filedir", "named"} \cup ClientModes
  IN (IF ConfigError(i) /\ ~o.err THEN {"UnknownNameAccepted"} ELSE {})
     \cup (IF ~ConfigError(i) /\ i.mode # "none" /\ o.err THEN {"ValidConfigRefused"} ELSE {})
     \cup (IF i.mode = "off" /\ o.starttls THEN {"OffAdvertisesStarttls"} ELSE {})
     \cup (IF i.scope = "server" /\ ok /\ o.starttls /\ ExpVers(i, {}) # {} /\ o.vers = {}
           THEN {"AdvertisedButUnusable"} ELSE {})
     \cup (IF i.scope = "server" /\ ok /\ live /\ ~o.starttls THEN {"TlsNotOffered"} ELSE {})
     \cup (IF ok /\ live /\ o.vers # ExpVers(i, {}) THEN {"VersionsNotAsConfigured"} ELSE {})
     \cup (IF ok /\ live /\ i.ciphers # OMIT /\ o.ciph # ExpCiph(i, {}) THEN {"CiphersNotAsConfigured"} ELSE {})
     \cup (IF ok /\ live /\ i.curves # OMIT /\ o.curv # ExpCurv(i, {}) THEN {"CurvesNotAsConfigured"} ELSE {})
     \cup (IF ok /\ i.mode = "self" /\ o.vers # {} /\ ~o.names THEN {"SelfSignedWrongNames"} ELSE {})
     \cup (IF ok /\ i.mode = "clientcert" /\ o.vers # {} /\ ~o.ccert THEN {"ClientCertNotPresented"} ELSE {})
     \cup (IF ok /\ i.mode # "clientcert" /\ o.ccert THEN {"ClientCertUnasked"} ELSE {})

Init == in \in Rows
Next == FALSE /\ UNCHANGED in
Spec == Init /\ [][Next]_in

RuleSatisfiesProp == Viol(in, Rule(in)) = {}
AsIsSatisfiesProp == Viol(in, RuleD(in)) = {}

SeqOfSet(S) == CHOOSE s \in [1..Cardinality(S) -> S] : \A a, b \in 1..Cardinality(S) : a # b => s[a] # s[b]
Emit == Gen => PrintT(<<"ROW", ToJson([in |-> in, exp |-> [err |-> Rule(in).err, starttls |-> Rule(in).starttls,
                                                           vers |-> SeqOfSet(Rule(in).vers)]])>>)
=============================================================================
