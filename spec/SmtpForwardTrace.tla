-------------------------- MODULE SmtpForwardTrace --------------------------
(***************************************************************************)
(* Trace validation for SmtpForward.tla (extension X20).  trace.ndjson    *)
(* holds events recorded from the real target.smtp / target.lmtp driven   *)
(* by harness/smtpforwardcheck against scripted next hops on loopback TCP,*)
(* implicit-TLS and unix sockets; many traces concatenated, "Cfg" starts  *)
(* a trace and carries the configuration and the endpoints' behaviour.    *)
(*                                                                         *)
(* Events: Start                       driver, before Target.Start        *)
(*         Conn(ep)                    next hop ep accepted a connection   *)
(*         Srv(ep, verb, tls, a, r)    next hop ep received a command      *)
(*         Ret(c, cls)                 driver: start|rcpt|body|commit|abort*)
(*         End(open)                   driver, connections still open      *)
(* Every line is consumed by the matching action of SmtpForward.tla with  *)
(* the logged arguments (C_Step; silent design steps in between) or, when *)
(* the design cannot explain it, by the monitor-only M_Step which marks   *)
(* the trace as drifted and keeps folding obs with the same operators.    *)
(***************************************************************************)
EXTENDS SmtpForward

Trace == ndJsonDeserialize("trace.ndjson")

VARIABLES l, drift, driftAt, tno
tvars == <<vars, l, drift, driftAt, tno>>

Ev == Trace[l]
IsEv(e) == l <= Len(Trace) /\ Ev.e = e

Publish(d, da, o) == TLCSet(1, TLCGet(1) \cup {[t |-> tno, drift |-> d, driftAt |-> da, viol |-> o.viol]})

TInit ==
  /\ cfg = [kind |-> "smtp", stls |-> "dflt", rtls |-> "none", auth |-> "off", src |-> "auth", schs |-> <<"tcp">>, outs |-> <<"up">>]
  /\ pc = "done" /\ ep = 0 /\ ph = "none" /\ lastc = "" /\ nr = 0 /\ acc = 0 /\ op = ""
  /\ obs = ObsInit /\ hist = <<>>
  /\ l = 1 /\ drift = FALSE /\ driftAt = 0 /\ tno = 0
  /\ TLCSet(1, {})

CfgOf(x) == [kind |-> x.kind, stls |-> x.stls, rtls |-> x.rtls, auth |-> x.auth, src |-> x.src,
             schs |-> [i \in 1..Len(x.schs) |-> x.schs[i]], outs |-> [i \in 1..Len(x.outs) |-> x.outs[i]]]

TReset ==
  /\ IsEv("Cfg")
  /\ cfg' = CfgOf(Ev)
  /\ pc' = "idle" /\ ep' = 0 /\ ph' = "none" /\ lastc' = "" /\ nr' = 0 /\ acc' = 0 /\ op' = ""
  /\ obs' = [ObsInit EXCEPT !.refused = {j \in 1..Len(Ev.outs) : Ev.outs[j] = "refuse"}]
  /\ hist' = <<>>
  /\ l' = l + 1 /\ drift' = FALSE /\ driftAt' = 0 /\ tno' = Ev.t

C_Start == IsEv("Start") /\ StartCall
C_Conn  == IsEv("Conn") /\ Dial /\ ep = Ev.ep
C_Srv   == /\ IsEv("Srv") /\ ep = Ev.ep
           /\ \/ Hello(Ev.tls) \/ Stls \/ SetupQuit \/ AuthCmd(Ev.r) \/ MailCmd(Ev.r) \/ FailQuit
              \/ RcptCmd(Ev.r) \/ (\E r \in BodyRs : DataCmd(r)) \/ Content \/ FinQuit
           /\ obs' = ObsSrv(obs, cfg, Ev.ep, Ev.verb, Ev.tls, Ev.a, Ev.r)
C_Ret   == IsEv("Ret") /\
             \/ Ev.c = "start" /\ StartRet(Ev.cls)
             \/ Ev.c = "rcpt" /\ RcptRet(Ev.cls)
             \/ Ev.c = "body" /\ BodyRet
             \/ Ev.c \in {"commit", "abort"} /\ FinRet(Ev.c)
C_End   == IsEv("End") /\ End /\ Ev.open = 0

Consume == C_Start \/ C_Conn \/ C_Srv \/ C_Ret \/ C_End
Conform == Consume \/ Silent

C_Step ==
  /\ ~drift
  /\ \/ /\ Consume
        /\ l' = l + 1
        /\ IF Ev.e = "End" THEN Publish(FALSE, 0, obs') ELSE TRUE
     \/ Silent /\ UNCHANGED l
  /\ UNCHANGED <<drift, driftAt, tno>>

ObsApply(o, e) ==
  CASE e.e = "Conn" -> ObsConn(o, cfg, e.ep)
    [] e.e = "Srv"  -> ObsSrv(o, cfg, e.ep, e.verb, e.tls, e.a, e.r)
    [] e.e = "Ret"  -> (CASE e.c = "start" -> ObsStartRet(o, cfg, e.cls)
                          [] e.c \in {"commit", "abort"} -> ObsFin(o, cfg, e.c)
                          [] OTHER -> o)
    [] e.e = "End"  -> ObsEnd(o, e.open)
    [] OTHER -> o

M_Step ==
  /\ l <= Len(Trace) /\ Ev.e # "Cfg"
  /\ (drift \/ ~ENABLED Conform)
  /\ drift' = TRUE
  /\ driftAt' = IF drift THEN driftAt ELSE Ev.seq
  /\ obs' = ObsApply(obs, Ev)
  /\ l' = l + 1
  /\ UNCHANGED <<cfg, pc, ep, ph, lastc, nr, acc, op, hist, tno>>
  /\ IF Ev.e = "End" THEN Publish(TRUE, driftAt', obs') ELSE TRUE

TNext == TReset \/ C_Step \/ M_Step
TSpec == TInit /\ [][TNext]_tvars

Post == PrintT(<<"VERDICTS", ToJson(TLCGet(1))>>)
=============================================================================
