\* trace validation (Devs = deviations of the open known findings); run with -workers 1
SPECIFICATION TSpec
CONSTANTS
  MaxItems = 0
  Styles = {{}}
  MutLen = 0
  RawLen = 0
  Depths = {1, 2, 3, 255, 256, 257, 300}
  Ladders = {3, 10, 24}
  MacroCloses = {3, 300, 2000}
  SnipDeeps = {100, 200, 254}
  FileChains = {1050, 1200, 2127, 3150, 4150, 1255, 7040}
  SnipSplits = {100155, 1100155, 100156, 1100156, 100157, 1100157, 1001255, 1001256, 1200057}
  FileSplits = {100155, 1100155, 100156, 1100156, 100157, 1100157, 1001255, 1001256, 1200057}
  Devs = {"SelfImportDoubling", "ImportLadder", "EmptyMacroEmbed", "MacroCloseNesting", "DeepImportTree"}

POSTCONDITION Post
CHECK_DEADLOCK FALSE
