\* trace validation (Devs = deviations of the open known findings); run with -workers 1
SPECIFICATION TSpec
CONSTANTS
  MaxItems = 0
  Styles = {{}}
  MutLen = 0
  RawLen = 0
  Depths = {1, 2, 3, 255, 256, 257, 300}
  Ladders = {3, 10, 24}
  Devs = {"SelfImportDoubling", "ImportLadder", "EmptyMacroEmbed"}

POSTCONDITION Post
CHECK_DEADLOCK FALSE
