------------------------- MODULE ExtScanRspamdTrace -------------------------
(***************************************************************************)
(* Code -> model for X07 (rspamd half).  trace.ndjson holds one "Row"      *)
(* event per input row the harness ran through the real check.rspamd       *)
(* module (configured from text inside a real message pipeline, talking to   *)
(* the scripted milter):                                                   *)
(*   [t, seq, e |-> "Row", in |-> <row of ExtScanRspamd.tla>,              *)
(*    out |-> <output record of ExtScanRspamd.tla>]                        *)
(* For every row TLC evaluates the property predicates of ExtScanRspamd on *)
(* the recorded output (viol = names of the false ones), compares the      *)
(* output with the documented procedure (drift) and, for the deviations of *)
(* the open findings (OpenDevs), lists the sets of deviations whose as-is  *)
(* procedure reproduces the output exactly (devs).  Only rows that are not *)
(* plainly accepted are listed; n / accepted are the counts.               *)
(***************************************************************************)
EXTENDS ExtScanRspamd

CONSTANT OpenDevs

Rows == ndJsonDeserialize("trace.ndjson")

tvars == <<in>>

DevSets == (SUBSET OpenDevs) \ {{}}
Bad(r) == Viol(r.in, r.out) # {} \/ ~SameOut(r.out, Rule(r.in))
Verdict(r) == [t |-> r.t, drift |-> ~SameOut(r.out, Rule(r.in)), driftAt |-> r.seq,
               viol |-> Viol(r.in, r.out),
               devs |-> Explains(DevSets, r.in, r.out)]

Eval ==
  LET bad == {k \in 1..Len(Rows) : Bad(Rows[k])} IN
    [n |-> Len(Rows), accepted |-> Len(Rows) - Cardinality(bad),
     verdicts |-> {Verdict(Rows[k]) : k \in bad}]

TInit == in = <<>> /\ TLCSet(1, Eval)
TNext == UNCHANGED tvars
TSpec == TInit /\ [][TNext]_tvars

Post == PrintT(<<"VERDICTS", ToJson(TLCGet(1))>>)
=============================================================================
