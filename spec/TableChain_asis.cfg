\* reference configuration; lib/checks/x15.py generates the ones it runs
SPECIFICATION Spec
CONSTANTS
  MaxSteps = 2
  Devs = {"OptMissAbandonsStep"}
  Gen = FALSE
INVARIANTS AsIsSatisfiesProp
CHECK_DEADLOCK FALSE
