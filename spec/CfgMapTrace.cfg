\* evaluates trace.ndjson (rows of the real code); OpenDevs = deviations of the open findings of extensions/findings.json
SPECIFICATION TSpec
CONSTANTS
  Devs = {}
  Gen = FALSE
  Seed = 1
  RandN = 1
  MaxNodes = 1
  OpenDevs = {"DataSizeOverflow", "DataSizeZeroAnyUnit", "FloatIgnoresBlock", "DurationJoin"}
CHECK_DEADLOCK FALSE
POSTCONDITION Post
