----------------------------- MODULE CfgMapLoad -----------------------------
(***************************************************************************)
(* X08, layer "l": the real module loader on real module blocks.           *)
(*                                                                         *)
(* One row is a complete maddy.conf (rendered here; %T is a scratch        *)
(* directory the harness substitutes) with the global directives of        *)
(* docs/reference/global-config.md, three top-level configuration blocks   *)
(* taken from the reference documentation                                  *)
(*   table.static  (docs/reference/table/static.md)                        *)
(*   check.dkim    (docs/reference/checks/dkim.md) inside a "checks" group *)
(*   target.smtp   (docs/reference/targets/smtp.md)                        *)
(* and an smtp endpoint whose pipeline references them by name             *)
(* (docs/reference/modules.md).  The harness starts maddy's own entry      *)
(* point ("maddy --config FILE run": maddycli.Run -> maddy.Run ->          *)
(* moduleMain) in a child process, waits for the readiness notification    *)
(* (sd_notify READY=1) or the exit, and reads the configured variables of  *)
(* the three instances.                                                    *)
(*                                                                         *)
(* Prop: a configuration with a documented defect is refused (exit code,   *)
(* message naming the place or the name), any other is accepted and every  *)
(* documented directive has exactly the documented value: the one written  *)
(* in the block, else the global one where the documentation says          *)
(* "Default: global directive value" / the directive is a global one, else *)
(* the documented default.                                                 *)
(***************************************************************************)
EXTENDS Integers, Sequences, FiniteSets, TLC, Json, SequencesExt

CONSTANTS Devs, Gen

VARIABLE in
vars == <<in>>

AllDevs == {"SubmissionTimeoutDefault", "TableInstanceName"}

-----------------------------------------------------------------------------
(* directives of the three blocks: name, argument text, and the documented  *)
(* meaning as (field, value) in the canonical spelling of the harness       *)
D(name, args, field, val) == [name |-> name, args |-> args, field |-> field, val |-> val]
SmtpOpts == <<D("starttls", "no", "starttls", "false"),
              D("hostname", "fwd.example.org", "hostname", "fwd.example.org"),
              D("connect_timeout", "1m", "connect_timeout", "60000"),
              D("command_timeout", "90s", "command_timeout", "90000"),
              D("submission_timeout", "1h 5m", "submission_timeout", "3900000"),
              D("debug", "no", "debug", "false")>>
DkimOpts == <<D("required_fields", "From Date", "required_fields", "Date,From"),
              D("fail_open", "yes", "fail_open", "true"),
              D("no_sig_action", "reject", "no_sig_action", "reject"),
              D("broken_sig_action", "quarantine", "broken_sig_action", "quarantine"),
              D("debug", "yes", "debug", "true")>>
(* documented defaults (targets/smtp.md, checks/dkim.md); "<global>" = value of the global directive *)
SmtpDefaults == [starttls |-> "true", hostname |-> "<global>", connect_timeout |-> "300000",
                 command_timeout |-> "300000", submission_timeout |-> "720000", debug |-> "<global>"]
DkimDefaults == [required_fields |-> "From,Subject", fail_open |-> "false", no_sig_action |-> "ignore",
                 broken_sig_action |-> "ignore", debug |-> "<global>"]
SmtpFields == {"starttls", "hostname", "connect_timeout", "command_timeout", "submission_timeout", "debug"}
DkimFields == {"required_fields", "fail_open", "no_sig_action", "broken_sig_action", "debug"}

(* defects: none or one of *)
DefectKinds == {"none",
  "smtp_unknown", "dkim_unknown", "static_unknown",       \* a directive the module does not document
  "smtp_duplicate", "dkim_duplicate",                      \* a directive given twice
  "smtp_badvalue", "dkim_badvalue", "static_badvalue",     \* connect_timeout 5 / fail_open maybe / entry k
  "dup_instance",                                          \* two blocks named fwd
  "alias_clash",                                           \* a second name of one block is the name of another
  "undefined_ref",                                         \* deliver_to &nosuch
  "unused_block",                                          \* a block nothing references
  "no_targets",                                            \* target.smtp without the required targets
  "unknown_global",                                        \* an unknown directive at the top level
  "dup_global"}                                            \* hostname twice at the top level
(* defects that need the global hostname to be absent / present are expressed by host *)

(* stat: "named" = the table is a top-level block referenced as &tbl (modules.md), "unnamed" = a    *)
(* top-level block without a name, referenced by the module name, "inline" = it is defined where it *)
(* is used (modifiers/envelope.md: replace_rcpt static { ... })                                     *)
Row(tab, host, debug, smtp, dkim, stat, static, defect) ==
  [tab |-> tab, host |-> host, debug |-> debug, smtp |-> smtp, dkim |-> dkim, stat |-> stat, static |-> static,
   defect |-> defect]

-----------------------------------------------------------------------------
(* text *)
RECURSIVE OptLines(_)
OptLines(os) == IF os = <<>> THEN <<>> ELSE <<"    " \o Head(os).name \o " " \o Head(os).args>> \o OptLines(Tail(os))
RECURSIVE EntryLines(_)
EntryLines(es) == IF es = <<>> THEN <<>> ELSE <<"    entry " \o Head(es)[1] \o " " \o Head(es)[2]>> \o EntryLines(Tail(es))
Extra(i, kinds, line) == IF i.defect \in kinds THEN <<line>> ELSE <<>>

GlobalLines(i) ==
  <<"state_dir %T/state", "runtime_dir %T/run", "tls off">> \o
  (IF i.host # "" THEN <<"hostname " \o i.host>> ELSE <<>>) \o
  (IF i.debug # "unset" THEN <<"debug " \o i.debug>> ELSE <<>>) \o
  Extra(i, {"unknown_global"}, "no_such_global_directive 1") \o
  Extra(i, {"dup_global"}, "hostname second.example.org")
StaticBody(i) == EntryLines(i.static) \o
                 Extra(i, {"static_unknown"}, "    bogus 1") \o Extra(i, {"static_badvalue"}, "    entry lonely")
StaticLines(i) == CASE i.stat = "named" -> <<"table.static tbl {">> \o StaticBody(i) \o <<"}">>
                    \* modules.md: "If config_block_name is omitted, it will be the same as module_name"
                    [] i.stat = "unnamed" -> <<"table.static {">> \o StaticBody(i) \o <<"}">>
                    [] OTHER -> <<>>
(* smtp-pipeline.md: "define the block of checks at the top level as "checks" module and reference it *)
(* using & syntax"                                                                                  *)
RECURSIVE Indent(_)
Indent(ls) == IF ls = <<>> THEN <<>> ELSE <<"    " \o Head(ls)>> \o Indent(Tail(ls))
DkimLines(i) ==
  <<IF i.defect = "alias_clash" THEN "checks inbound fwd {" ELSE "checks inbound {", "    dkim {">> \o
  Indent(OptLines(i.dkim) \o
         Extra(i, {"dkim_unknown"}, "    bogus 1") \o Extra(i, {"dkim_duplicate"}, "    fail_open no") \o
         Extra(i, {"dkim_duplicate"}, "    fail_open no") \o Extra(i, {"dkim_badvalue"}, "    fail_open maybe")) \o
  <<"    }", "}">>
SmtpLines(i) ==
  <<"target.smtp fwd {">> \o
  (IF i.defect = "no_targets" THEN <<>> ELSE <<"    targets tcp://127.0.0.1:2525">>) \o OptLines(i.smtp) \o
  Extra(i, {"smtp_unknown"}, "    bogus 1") \o Extra(i, {"smtp_duplicate"}, "    command_timeout 2m") \o Extra(i, {"smtp_duplicate"}, "    command_timeout 2m") \o
  Extra(i, {"smtp_badvalue"}, "    connect_timeout 5") \o <<"}">>
SpareLines(i) ==
  CASE i.defect = "dup_instance" -> <<"target.smtp fwd {", "    targets tcp://127.0.0.1:2526", "}">>
    [] i.defect = "unused_block" -> <<"target.smtp spare {", "    targets tcp://127.0.0.1:2526", "}">>
    [] OTHER -> <<>>
EndpLines(i) ==
  <<"smtp unix://%T/smtp.sock {">> \o
  (IF i.host = "" THEN <<"    hostname ep.example.org">> ELSE <<>>) \o
  <<IF i.defect = "undefined_ref" THEN "    deliver_to &nosuch" ELSE "    deliver_to &fwd",
    "    check &inbound",
    "    modify {">> \o
  (IF i.stat = "named" THEN <<"        replace_rcpt &tbl">>
   ELSE IF i.stat = "unnamed" THEN <<"        replace_rcpt &table.static">>
   ELSE <<"        replace_rcpt static {">> \o Indent(Indent(StaticBody(i))) \o <<"        }">>) \o
  <<"    }", "}">>
AllLines(i) == GlobalLines(i) \o StaticLines(i) \o DkimLines(i) \o SmtpLines(i) \o SpareLines(i) \o EndpLines(i)
RECURSIVE JoinLines(_)
JoinLines(ls) == IF ls = <<>> THEN "" ELSE Head(ls) \o "\n" \o JoinLines(Tail(ls))
TextOf(i) == JoinLines(AllLines(i))

LineOfText(i, txt) == IF \E k \in 1..Len(AllLines(i)) : AllLines(i)[k] = txt
                      THEN CHOOSE k \in 1..Len(AllLines(i)) : AllLines(i)[k] = txt /\ \A j \in 1..(k - 1) : AllLines(i)[j] # txt
                      ELSE 0 - 1
LastLineOfText(i, txt) == CHOOSE k \in 1..Len(AllLines(i)) : AllLines(i)[k] = txt /\ \A j \in (k + 1)..Len(AllLines(i)) : AllLines(i)[j] # txt
HeaderOf(i, which) ==
  Len(GlobalLines(i)) + 1 +
  (CASE which = "tbl" -> 0
     [] which = "dk" -> Len(StaticLines(i))
     [] which = "fwd" -> Len(StaticLines(i)) + Len(DkimLines(i))
     [] which = "spare" -> Len(StaticLines(i)) + Len(DkimLines(i)) + Len(SmtpLines(i))
     [] OTHER -> Len(StaticLines(i)) + Len(DkimLines(i)) + Len(SmtpLines(i)) + Len(SpareLines(i)))

-----------------------------------------------------------------------------
(* documented outcome *)
MkErr(lines, names) == [is |-> TRUE, lines |-> lines, names |-> names]
NoErr == [is |-> FALSE, lines |-> {}, names |-> {}]

(* where the documentation puts the defect: acceptable lines of a located message, acceptable *)
(* names in a message without location                                                         *)
Missing(i) == i.host = "" /\ ~\E k \in 1..Len(i.smtp) : i.smtp[k].name = "hostname"
ExpErr(i) ==
  CASE i.defect = "smtp_unknown" -> MkErr({LineOfText(i, "    bogus 1")}, {"bogus"})
    [] i.defect = "dkim_unknown" -> MkErr({LineOfText(i, "        bogus 1")}, {"bogus"})
    [] i.defect = "static_unknown" -> MkErr({LineOfText(i, "    bogus 1"), LineOfText(i, "            bogus 1")}, {"bogus"})
    [] i.defect = "smtp_duplicate" -> MkErr({LastLineOfText(i, "    command_timeout 2m"), LineOfText(i, "    command_timeout 2m")}, {"command_timeout"})
    [] i.defect = "dkim_duplicate" -> MkErr({LastLineOfText(i, "        fail_open no"), LineOfText(i, "        fail_open no")}, {"fail_open"})
    [] i.defect = "smtp_badvalue" -> MkErr({LineOfText(i, "    connect_timeout 5")}, {"connect_timeout"})
    [] i.defect = "dkim_badvalue" -> MkErr({LineOfText(i, "        fail_open maybe")}, {"fail_open"})
    [] i.defect = "static_badvalue" -> MkErr({LineOfText(i, "    entry lonely"), LineOfText(i, "            entry lonely")}, {"entry"})
    [] i.defect = "dup_instance" -> MkErr({HeaderOf(i, "spare"), HeaderOf(i, "fwd")}, {"fwd"})
    [] i.defect = "alias_clash" -> MkErr({HeaderOf(i, "dk"), HeaderOf(i, "fwd")}, {"fwd"})
    [] i.defect = "undefined_ref" -> MkErr({LineOfText(i, "    deliver_to &nosuch")}, {"nosuch"})
    [] i.defect = "unused_block" -> MkErr({HeaderOf(i, "spare")}, {"spare"})
    [] i.defect = "no_targets" -> MkErr({HeaderOf(i, "fwd")}, {"target", "targets"})
    [] i.defect = "unknown_global" -> MkErr({LineOfText(i, "no_such_global_directive 1")}, {"no_such_global_directive"})
    [] i.defect = "dup_global" -> MkErr({LineOfText(i, "hostname second.example.org")}, {"hostname"})
    [] OTHER -> IF Missing(i) THEN MkErr({HeaderOf(i, "fwd")}, {"hostname"}) ELSE NoErr

GlobalVal(i, f) == CASE f = "hostname" -> i.host [] f = "debug" -> (IF i.debug = "yes" THEN "true" ELSE "false")
FieldVal(i, opts, defaults, f, devs) ==
  IF \E k \in 1..Len(opts) : opts[k].field = f THEN opts[CHOOSE k \in 1..Len(opts) : opts[k].field = f].val
  ELSE IF f = "submission_timeout" /\ "SubmissionTimeoutDefault" \in devs THEN "300000"
  ELSE IF defaults[f] = "<global>" THEN GlobalVal(i, f) ELSE defaults[f]
(* static.md: "If the same key is used multiple times, the last one takes effect." *)
Keys(i) == IF i.stat \in {"named", "unnamed"} THEN {i.static[k][1] : k \in 1..Len(i.static)} \cup {"absent"} ELSE {}
LookupOf(i, key) ==
  LET ks == {k \in 1..Len(i.static) : i.static[k][1] = key} IN
  IF ks = {} THEN "<none>" ELSE i.static[CHOOSE k \in ks : \A j \in ks : j <= k][2]

NoVals(F) == [f \in F |-> ""]
(* defects found before any block is initialised (ReadGlobals, RegisterModules) *)
EarlyDefects == {"unknown_global", "dup_global", "dup_instance", "alias_clash"}
RuleD(devs, i) ==
  LET e == ExpErr(i) IN
  IF "TableInstanceName" \in devs /\ i.stat = "named" /\ (~e.is \/ i.defect \notin EarlyDefects)
       \* the block named tbl is registered under the name "table.static": &tbl is unknown
       THEN [err |-> MkErr({}, {"tbl"}), crashed |-> FALSE, smtp |-> NoVals(SmtpFields), dkim |-> NoVals(DkimFields), static |-> {}]
  ELSE IF e.is THEN [err |-> e, crashed |-> FALSE, smtp |-> NoVals(SmtpFields), dkim |-> NoVals(DkimFields), static |-> {}]
  ELSE [err |-> NoErr, crashed |-> FALSE,
        smtp |-> [f \in SmtpFields |-> FieldVal(i, i.smtp, SmtpDefaults, f, devs)],
        dkim |-> [f \in DkimFields |-> FieldVal(i, i.dkim, DkimDefaults, f, devs)],
        static |-> {<<k, LookupOf(i, k)>> : k \in Keys(i)}]
Rule(i) == RuleD({}, i)
AsIs(i) == RuleD(Devs, i)

(* out: [crashed, err |-> [is, line (0: none), mentions (set)], smtp, dkim, static (records)] *)
PredNames == {"NoCrash", "RefusedIffDefect", "ErrorNamesDefect", "ValuesAsDocumented"}
Holds(n, i, o) ==
  LET e == ExpErr(i) IN
  CASE n = "NoCrash" -> ~o.crashed
    [] n = "RefusedIffDefect" -> ~o.crashed => (o.err.is = e.is)
    [] n = "ErrorNamesDefect" ->
         (~o.crashed /\ o.err.is /\ e.is) => \/ (o.err.line # 0 /\ o.err.line \in e.lines)
                                            \/ (o.err.line = 0 /\ o.err.mentions \cap e.names # {})
    [] n = "ValuesAsDocumented" ->
         (~o.crashed /\ ~o.err.is /\ ~e.is) =>
            /\ \A f \in SmtpFields : o.smtp[f] = FieldVal(i, i.smtp, SmtpDefaults, f, {})
            /\ \A f \in DkimFields : o.dkim[f] = FieldVal(i, i.dkim, DkimDefaults, f, {})
            /\ o.static = {<<k, LookupOf(i, k)>> : k \in Keys(i)}
Viol(i, o) == {n \in PredNames : ~Holds(n, i, o)}
Prop(i, o) == Viol(i, o) = {}

(* comparison with a rule (devs): outcome class, place of the error, values *)
SameOut(o, r) == /\ o.crashed = r.crashed /\ o.err.is = r.err.is
                 /\ (r.err.is => \/ (o.err.line # 0 /\ o.err.line \in r.err.lines)
                                  \/ (o.err.line = 0 /\ o.err.mentions \cap r.err.names # {}))
                 /\ (~r.err.is => (o.smtp = r.smtp /\ o.dkim = r.dkim /\ o.static = r.static))
Explains(devSets, i, o) == {S \in devSets : SameOut(o, RuleD(S, i))}

-----------------------------------------------------------------------------
(* tables *)
Subsets1(opts) == {<<>>} \cup {<<opts[k]>> : k \in 1..Len(opts)} \cup {opts}
Hosts == {"", "mx.example.org"}
Debugs == {"unset", "yes", "no"}
Statics == {<<>>, <<<<"k1", "v1">>>>, <<<<"k1", "v1">>, <<"k1", "v2">>>>, <<<<"k1", "v1">>, <<"k2", "v2">>, <<"k1", "v3">>>>}
InSmtp == \E h \in Hosts, d \in Debugs, s \in Subsets1(SmtpOpts) :
            in = Row("smtp", h, d, s, <<>>, "inline", <<<<"k1", "v1">>>>, "none")
InDkim == \E h \in {"mx.example.org"}, d \in Debugs, s \in Subsets1(DkimOpts) :
            in = Row("dkim", h, d, <<>>, s, "inline", <<<<"k1", "v1">>>>, "none")
InStatic == \E st \in Statics, d \in {"none", "static_unknown", "static_badvalue", "dup_global"}, form \in {"named", "unnamed"} :
              in = Row("static", "mx.example.org", "unset", <<>>, <<>>, form, st, d)
InDefect == \E k \in DefectKinds \ {"none"}, h \in Hosts :
              (k = "dup_global" => h # "") /\
              in = Row("defect", h, "unset", IF h = "" THEN <<SmtpOpts[2]>> ELSE <<>>, <<>>, "inline", <<<<"k1", "v1">>>>, k)

Init == InSmtp \/ InDkim \/ InStatic \/ InDefect
Next == FALSE /\ UNCHANGED in
Spec == Init /\ [][Next]_vars

RuleSatisfiesProp ==
  LET r == Rule(in)
      o == [crashed |-> FALSE,
            err |-> [is |-> r.err.is, line |-> IF r.err.is THEN CHOOSE l \in r.err.lines : TRUE ELSE 0, mentions |-> r.err.names],
            smtp |-> r.smtp, dkim |-> r.dkim, static |-> r.static]
  IN Prop(in, o)
AsIsDiffers == Rule(in) = AsIs(in)      \* must be violated when a deviation is on (non-vacuity)
Emit == Gen => PrintT(<<"ROW", ToJson([in |-> in, text |-> TextOf(in), keys |-> SetToSeq(Keys(in)), exp |-> Rule(in)])>>)
=============================================================================
