--------------------------- MODULE TimeWheelObs ---------------------------
(***************************************************************************)
(* Observation state and property predicates of the queue scheduler        *)
(* (property C12).  Everything here is a pure function of API-level events *)
(* recorded at the boundary of internal/target/queue's TimeWheel / Queue:  *)
(*   AddCall/AddReturn/AddPanic   an external enqueue (TimeWheel.Add,      *)
(*                                queueDelivery.Commit)                    *)
(*   Sched(e, due)                an attempt ended with a retry obligation *)
(*   WheelAdd(e, due)             the time the queue handed to its wheel   *)
(*   Dispatch(e, now)             the attempt for entry e starts           *)
(*   CloseCall/CloseReturn        shutdown (TimeWheel.Close + wait)        *)
(*   Panic(g)                     a panic nobody recovered                 *)
(*   Spool(when, pending, broken) spool listing at CloseReturn / at the end*)
(*   End(hung, now)               the run is over; `hung` = API calls that *)
(*                                never returned                           *)
(* The same operators fold `obs` in the design spec TimeWheel.tla and in   *)
(* TimeWheelTrace.tla, so the predicates deciding C12 are one piece of     *)
(* TLA+ evaluated on the model and on what the real code did.              *)
(*                                                                         *)
(* Reading (DESIGN 2.5): dispatched <= 1 always; = 1 is demanded only of   *)
(* entries that were due while the scheduler was never asked to shut down. *)
(***************************************************************************)
EXTENDS Naturals, Sequences, FiniteSets

NoDue == 1000000

ObsInit ==
  [ due      |-> << >>,      \* entry -> time it may be dispatched at the earliest
    disp     |-> << >>,      \* entry -> number of dispatches
    calling  |-> << >>,      \* producer inside Add -> shutdown state when it called
    closeSt  |-> "no",       \* "no" "called" "returned"
    inFlight |-> {},         \* retry obligations created before shutdown completed
    msgs     |-> {},         \* messages handed to the queue
    termM    |-> {},         \* messages with a terminal outcome
    expBroken |-> {},        \* messages whose attempt panicked inside the target (quarantine is the outcome)
    spoolC   |-> << >>,      \* listing at CloseReturn (<< >> = none)
    f14      |-> TRUE,       \* every crash so far is explained by "Add overlapped Close"
    viol     |-> {} ]

V(o, c, name) == IF c THEN o ELSE [o EXCEPT !.viol = @ \cup {name}]

Has(f, k) == k \in DOMAIN f
Put(f, k, v) == [x \in DOMAIN f \cup {k} |-> IF x = k THEN v ELSE f[x]]
Del(f, k) == [x \in DOMAIN f \ {k} |-> f[x]]

\* external enqueue of message/entry e (the message is on disk before Add is called)
ObsAddCall(o, p, e, due) ==
  [o EXCEPT !.calling = Put(o.calling, p, o.closeSt),
            !.due = Put(o.due, e, due),
            !.disp = IF Has(o.disp, e) THEN o.disp ELSE Put(o.disp, e, 0),
            !.msgs = @ \cup {e}]

ObsAddReturn(o, p) == [o EXCEPT !.calling = Del(o.calling, p)]

\* a panic out of Add: a crash.  It is the known Add/Close window iff shutdown
\* had been requested and the call had started before shutdown completed.
ObsAddPanic(o, p) ==
  LET overlap == Has(o.calling, p) /\ o.calling[p] # "returned" /\ o.closeSt # "no"
      o1 == [o EXCEPT !.calling = Del(o.calling, p), !.f14 = @ /\ overlap]
  IN V(o1, FALSE, "Crash")

ObsPanic(o) == V([o EXCEPT !.f14 = FALSE], FALSE, "Crash")

\* the attempt for a message ended asking for a retry: entry e of message m must be
\* dispatched, not before `due`
ObsSched(o, e, due) ==
  LET o1 == [o EXCEPT !.due = Put(o.due, e, due),
                      !.disp = IF Has(o.disp, e) THEN o.disp ELSE Put(o.disp, e, 0),
                      !.inFlight = IF o.closeSt # "returned" THEN @ \cup {e} ELSE @]
  IN V(o1, o.closeSt # "returned", "ActiveAfterShutdown")

\* The running queue handed entry e to its time wheel with time `due` (read from the wheel of the real queue by
\* the harness; in the design spec the wheel's time IS the retry time of ObsSched, so there this is the identity).
\* That is "its scheduled time": the entry may not be dispatched before it - neither by this incarnation nor, from
\* what the meta-data file says, by one started later on the same spool directory.  It only ever raises the
\* documented lower bound, and only while the entry has not been dispatched.
ObsWheel(o, e, due) ==
  IF Has(o.due, e) /\ o.disp[e] = 0 /\ due > o.due[e] /\ due < NoDue THEN [o EXCEPT !.due = Put(o.due, e, due)] ELSE o

\* the attempt ended with a terminal outcome for message m
ObsTerminal(o, m) == V([o EXCEPT !.termM = @ \cup {m}], o.closeSt # "returned", "ActiveAfterShutdown")

ObsDispatch(o, e, now) ==
  LET known == Has(o.due, e)
      o1 == [o EXCEPT !.disp = Put(o.disp, e, (IF Has(o.disp, e) THEN o.disp[e] ELSE 0) + 1)]
      o2 == V(o1, o1.disp[e] <= 1, "DispatchedTwice")
      o3 == V(o2, known, "DispatchedUnknownEntry")
      o4 == V(o3, known => now >= o.due[e], "DispatchedEarly")
  IN V(o4, o.closeSt # "returned", "ActiveAfterShutdown")

ObsCloseCall(o) == [o EXCEPT !.closeSt = "called"]
ObsCloseReturn(o) == [o EXCEPT !.closeSt = "returned"]

\* spool listing: pending = messages with a .meta file, broken = with a .meta_broken file
ObsSpool(o, when, pending, broken) ==
  LET lost == (o.msgs \ o.termM) \ (pending \cup broken)
      \* a broken mark is legitimate only as the containment of a panic of the attempt itself
      o1 == V(o, broken \subseteq o.expBroken, "BrokenMark")
      \* a broken mark is the known window iff a retry obligation was created by an
      \* attempt that overlapped the shutdown
      o2 == [o1 EXCEPT !.f14 = @ /\ (broken \subseteq o.expBroken \/ (o.closeSt # "no" /\ o.inFlight # {}))]
      o3 == V(o2, lost = {}, "RemovedWithoutOutcome")
  IN IF when = "close" THEN [o3 EXCEPT !.spoolC = <<pending, broken>>]
     \* after shutdown nothing that was on disk may change (later enqueues may add files)
     ELSE V(o3, o.spoolC = << >> \/ (o.spoolC[1] \subseteq pending /\ o.spoolC[2] = broken),
            "ActiveAfterShutdown")

\* the process is started again on the same spool directory: a new scheduler instance, not
\* shut down; what was handed out, dispatched and given a terminal outcome stays as it is, so
\* "exactly once" and "not before its time" are judged across the restart
\* pid = post_init_delay: nothing that is pending is attempted before start-up + pid
\* A run may shut down and restart several times (CloseCall/CloseReturn/Restart repeat).  What else lies in
\* the spool directory at a start (ID.meta.new of a dead incarnation, backup copies, half-removed or
\* half-stored messages: Cfg.left, planted by the harness) is not an event: none of it is a committed
\* message without outcome, so the obligations below are the same with and without it.
ObsRestart(o, now, pid) ==
  [o EXCEPT !.closeSt = "no", !.spoolC = << >>, !.calling = << >>,
            !.due = [e \in DOMAIN o.due |-> IF o.disp[e] = 0 /\ o.due[e] < now + pid THEN now + pid ELSE o.due[e]]]

\* the attempt for message m panicked inside the downstream target: the panic is contained,
\* the message is quarantined (.meta_broken) - that is its outcome
ObsAttemptPanic(o, m) ==
  V([o EXCEPT !.termM = @ \cup {m}, !.expBroken = @ \cup {m}], o.closeSt # "returned", "ActiveAfterShutdown")

\* end of the run: `hung` = names of API calls (producers, "closer") that never returned;
\* now = final clock value, beyond every due time that was handed out
ObsEnd(o, hung, now) ==
  LET o1 == V(o, hung = {}, "Hang")
      missed == {e \in DOMAIN o.due : o.due[e] <= now /\ o.disp[e] = 0}
  IN V(o1, o.closeSt # "no" \/ missed = {}, "MissedDispatch")

\* classification used for the known finding: every violated predicate is a
\* consequence of the Add/Close window
Dev(o) == IF /\ o.viol # {} /\ o.f14
             /\ o.viol \subseteq {"Crash", "BrokenMark", "ActiveAfterShutdown"}
             /\ (o.viol \cap {"Crash", "BrokenMark"}) # {}
          THEN "AddCloseWindow" ELSE ""
=============================================================================
