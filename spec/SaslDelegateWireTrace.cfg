\* X09 trace evaluation (Dovecot protocol)
SPECIFICATION TSpec
CONSTANTS
  Side = "srv"
  MaxReq = 2
  MaxRep = 2
  Full = TRUE
  Devs = {}
  Gen = FALSE
  OpenDevs = {"UnknownMechPanic", "ParamPanic", "FailThenOk", "FailThenCont", "SrvTempLost", "CliTempLost", "LoginDialNotTemp", "VersionPanic"}
CHECK_DEADLOCK FALSE
POSTCONDITION Post
