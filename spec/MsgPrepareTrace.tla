-------------------------- MODULE MsgPrepareTrace --------------------------
(***************************************************************************)
(* Code -> model for X13.  trace.ndjson holds one "Row" event per input    *)
(* row the harness (harness/prepcheck) ran through the real smtp /         *)
(* submission / lmtp endpoint:                                             *)
(*   [t, seq, e |-> "Row", in |-> <row of MsgPrepare.tla>, out |-> <what   *)
(*    the client was told and what the delivery target received>]          *)
(* For every row TLC evaluates the predicates of MsgPrepare on the recorded *)
(* output (viol = names of the false ones), compares its projection with   *)
(* the procedure (drift) and lists the sets of open deviations whose as-is *)
(* procedure reproduces it exactly (devs).                                 *)
(***************************************************************************)
EXTENDS MsgPrepare

CONSTANT OpenDevs

Rows == ndJsonDeserialize("trace.ndjson")

tvars == <<in>>

InOf(r) == [tab |-> r.in.tab, s |-> r.in.s, h |-> r.in.h]
\* the row must be a row of the specification, transported unchanged (strings included)
Known(r) == InOf(r) \in Inputs /\ r.in.c = Conc(r.in.s) /\ r.in.msg = Msg(r.in.h) /\ r.in.body = BodyN(r.in.h)
DevSets == (SUBSET OpenDevs) \ {{}}
Drift(r) == ~SameOut(Proj(InOf(r), r.out), Rule(InOf(r)))
ViolOf(r) == IF Known(r) THEN Viol(InOf(r), r.out) ELSE {"UnknownRow"}
Bad(r) == ViolOf(r) # {} \/ Drift(r)
RowVerdict(r) == [t |-> r.t, drift |-> Drift(r), driftAt |-> r.seq, viol |-> ViolOf(r),
               devs |-> Explains(DevSets, InOf(r), r.out)]

Eval ==
  LET bad == {k \in 1..Len(Rows) : Bad(Rows[k])} IN
    [n |-> Len(Rows), accepted |-> Len(Rows) - Cardinality(bad),
     verdicts |-> {RowVerdict(Rows[k]) : k \in bad}]

TInit == in = <<>> /\ TLCSet(1, Eval)
TNext == UNCHANGED tvars
TSpec == TInit /\ [][TNext]_tvars

Post == PrintT(<<"VERDICTS", ToJson(TLCGet(1))>>)
=============================================================================
