----------------------------- MODULE LimitsInd -----------------------------
(***************************************************************************)
(* Unbounded-in-time complement to Limits.tla (C11): an inductive          *)
(* invariant for the permit accounting of one keyed concurrency scope,     *)
(* discharged by Apalache (Init => IndInv, IndInv /\ Next => IndInv').     *)
(*                                                                         *)
(* A scope has capacity N per key. A caller holds at most one permit of   *)
(* the scope (as a delivery does), taken under a key and released under   *)
(* the key it was taken for.  The invariant says: the permits in use of a *)
(* key equal the number of callers holding that key, and never exceed N - *)
(* for any number of steps, any interleaving (the sets of callers and     *)
(* keys are fixed, small constants).                                      *)
(***************************************************************************)
EXTENDS Integers, FiniteSets

CONSTANTS
  \* @type: Set(Str);
  Callers,
  \* @type: Set(Str);
  Keys,
  \* @type: Int;
  N

VARIABLES
  \* @type: Str -> Int;
  inUse,      \* permits in use per key (the semaphore's channel length)
  \* @type: Str -> Str;
  holds       \* the key a caller holds a permit of, "" = none

CInit ==
  /\ Callers = {"c1", "c2", "c3"}
  /\ Keys = {"k1", "k2"}
  /\ N = 2

Init ==
  /\ inUse = [k \in Keys |-> 0]
  /\ holds = [c \in Callers |-> ""]

Take(c, k) ==
  /\ holds[c] = ""
  /\ inUse[k] < N              \* otherwise the caller waits (or times out: no change)
  /\ inUse' = [inUse EXCEPT ![k] = @ + 1]
  /\ holds' = [holds EXCEPT ![c] = k]

Release(c) ==
  /\ holds[c] # ""
  /\ inUse' = [inUse EXCEPT ![holds[c]] = @ - 1]
  /\ holds' = [holds EXCEPT ![c] = ""]

Next == \E c \in Callers : (\E k \in Keys : Take(c, k)) \/ Release(c)

TypeOK ==
  /\ inUse \in [Keys -> 0..N]
  /\ holds \in [Callers -> Keys \cup {""}]

Holders(k) == {c \in Callers : holds[c] = k}

IndInv ==
  /\ TypeOK
  /\ \A k \in Keys : inUse[k] = Cardinality(Holders(k))

\* the property (C11, first clause) follows from IndInv
AtMostN == \A k \in Keys : Cardinality(Holders(k)) <= N /\ inUse[k] <= N

IndInit == IndInv
=============================================================================
