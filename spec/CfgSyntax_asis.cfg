\* deviations on: ModelHolds must be violated
SPECIFICATION SpecDoc
CONSTANTS
  MaxItems = 2
  Styles = {{}}
  MutLen = 0
  RawLen = 0
  Depths = {3}
  Ladders = {3, 24}
  MacroCloses = {}
  SnipDeeps = {}
  FileChains = {}
  SnipSplits = {}
  FileSplits = {}
  Devs = {"SelfImportDoubling", "ImportLadder", "EmptyMacroEmbed", "MacroCloseNesting", "DeepImportTree"}
INVARIANTS ModelHolds
CHECK_DEADLOCK FALSE
