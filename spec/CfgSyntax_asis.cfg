\* deviations on: ModelHolds must be violated
SPECIFICATION SpecDoc
CONSTANTS
  MaxItems = 2
  Styles = {{}}
  MutLen = 0
  RawLen = 0
  Depths = {3}
  Ladders = {3, 24}
  Devs = {"SelfImportDoubling", "ImportLadder", "EmptyMacroEmbed"}
INVARIANTS ModelHolds
CHECK_DEADLOCK FALSE
