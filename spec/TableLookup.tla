----------------------------- MODULE TableLookup -----------------------------
(***************************************************************************)
(* Lookup semantics of maddy's pure table modules (extension X01, pattern  *)
(* B): table.static, table.identity, table.email_with_domain,              *)
(* table.email_localpart(_optional), table.regexp, table.chain and the     *)
(* syntax of table.file.  Sources: docs/reference/table/*.md.              *)
(*                                                                         *)
(* One state per input row [tab, conf.., key].  For every row               *)
(*   Rule(in)     the documented answer (operational),                     *)
(*   Viol(in,out) the names of the property predicates an answer violates  *)
(*                (declarative where the documentation leaves freedom),    *)
(*   RuleD(in)    the answer of the code on HEAD where it is known to      *)
(*                deviate (named deviations, constant Devs).               *)
(* Strings whose characters matter (keys and values of regexp, localpart,  *)
(* email_with_domain, chain) are sequences of one-character strings; the   *)
(* harness joins / splits them.  An answer is                              *)
(*   [init, hasMulti, multi, val, ok]: init = "err" when the module        *)
(*   refused its configuration, "panic" when the table code panicked;      *)
(*   multi = LookupMulti (when the module has it), (val, ok) = Lookup.     *)
(*                                                                         *)
(* Deviations of the code on HEAD:                                         *)
(*   "NoReplNoMatch"        table.regexp without a replacement never       *)
(*                          matches (documented: returns the original key, *)
(*                          "acting as a regexp match check")              *)
(*   "ExpandDirectiveName"  the documented directive expand_placeholders   *)
(*                          is rejected (the code reads                    *)
(*                          expand_replaceholders)                         *)
(*   "LocalpartNotUnquoted" table.email_localpart returns a quoted local   *)
(*                          part verbatim (documented: "extracts and       *)
(*                          unescapes")                                    *)
(*   "IndentedCommentIsKey" table.file takes an indented "# ..." line for  *)
(*                          a key (the documentation's own example file    *)
(*                          has an indented comment)                       *)
(***************************************************************************)
EXTENDS Integers, Sequences, FiniteSets, TLC, Json

CONSTANTS Tabs,      \* tables whose rows are enumerated: subset of AllTabs
          MaxSteps,  \* longest chain
          MaxLines,  \* longest file
          Devs, Gen

VARIABLE in

AllTabs == {"static", "identity", "ewd", "localpart", "regexp", "chain", "file"}

RECURSIVE Cat(_)
Cat(ss) == IF ss = <<>> THEN <<>> ELSE Head(ss) \o Cat(Tail(ss))
StartsWith(s, p) == Len(p) <= Len(s) /\ SubSeq(s, 1, Len(p)) = p
EndsWith(s, p) == Len(p) <= Len(s) /\ SubSeq(s, Len(s) - Len(p) + 1, Len(s)) = p
SeqsUpTo(S, n) == UNION {[1..k -> S] : k \in 0..n}

Ans(multi) == [init |-> "ok", hasMulti |-> TRUE, multi |-> multi,
               val |-> IF multi = <<>> THEN <<>> ELSE multi[1], ok |-> multi # <<>>]
Ans1(val, ok) == [init |-> "ok", hasMulti |-> FALSE, multi |-> <<>>, val |-> val, ok |-> ok]
InitErr == [init |-> "err", hasMulti |-> FALSE, multi |-> <<>>, val |-> <<>>, ok |-> FALSE]

(***************************************************************************)
(* table.static: "If the same key is used multiple times, the last one     *)
(* takes effect."                                                          *)
(***************************************************************************)
A == <<"a">>  B == <<"b">>  C == <<"c">>  X == <<"x">>  Y == <<"y">>
StaticKeys == {A, B}
StaticVals == {<<X>>, <<Y, A>>}
StaticEntries == [k : StaticKeys, vs : StaticVals]
StaticMulti(entries, key) ==
  LET hits == {i \in 1..Len(entries) : entries[i].k = key}
  IN IF hits = {} THEN <<>> ELSE entries[CHOOSE i \in hits : \A j \in hits : j <= i].vs
InStatic == {[tab |-> "static", entries |-> e, key |-> k] : e \in SeqsUpTo(StaticEntries, 2), k \in {A, B, C}}

(***************************************************************************)
(* table.email_with_domain: appends each domain (1:N); the key becomes the *)
(* local part, quoted when it needs to be.                                 *)
(***************************************************************************)
Q == "QUOTE"   BS == "BSLASH"      \* the characters " and \ (named, so that no layer of quoting gets in the way)
Specials == {" ", "@", Q, BS, ",", ":", ";", "<", ">", "(", ")", "[", "]"}
RECURSIVE Esc(_)
Esc(s) == IF s = <<>> THEN <<>>
          ELSE (IF Head(s) \in {Q, BS} THEN <<BS, Head(s)>> ELSE <<Head(s)>>) \o Esc(Tail(s))
Quote(s) == IF \E i \in 1..Len(s) : s[i] \in Specials THEN <<Q>> \o Esc(s) \o <<Q>> ELSE s
\* the inverse: a quoted-string loses its quotes and escapes
RECURSIVE Unesc(_)
Unesc(s) == IF s = <<>> THEN <<>>
            ELSE IF Head(s) = BS /\ Len(s) >= 2 THEN <<s[2]>> \o Unesc(SubSeq(s, 3, Len(s)))
            ELSE <<Head(s)>> \o Unesc(Tail(s))
IsQuoted(s) == Len(s) >= 2 /\ s[1] = Q /\ s[Len(s)] = Q
Unq(s) == IF IsQuoted(s) THEN Unesc(SubSeq(s, 2, Len(s) - 1)) ELSE s

D1 == <<"d", ".", "o">>  D2 == <<"e", ".", "c">>
EwdDomains == SeqsUpTo({D1, D2}, 2) \ {<<>>}
EwdKeys == {<<"u">>, <<"u", " ", "v">>, <<"u", "@", "x">>, <<"q", Q>>, <<"b", BS>>, <<"u", ".", "v">>}
EwdMulti(domains, key) == [i \in 1..Len(domains) |-> Quote(key) \o <<"@">> \o domains[i]]
InEwd == {[tab |-> "ewd", domains |-> d, key |-> k] : d \in EwdDomains, k \in EwdKeys}

(***************************************************************************)
(* table.email_localpart / _optional: "extracts and unescapes local part", *)
(* invalid emails are non-existing values; _optional returns non-email     *)
(* strings as is.                                                          *)
(***************************************************************************)
Postmaster == <<"p", "o", "s", "t", "m", "a", "s", "t", "e", "r">>
LpKeys == {<<"u", "@", "d">>, <<Q, "u", " ", "v", Q, "@", "d">>, <<Q, "a", "@", "b", Q, "@", "d">>,
           <<Q, "q", BS, Q, Q, "@", "d">>, <<"u">>, <<"@", "d">>, <<"u", "@">>, Postmaster, <<>>}
LastAt(s) == IF \E i \in 1..Len(s) : s[i] = "@" THEN CHOOSE i \in 1..Len(s) : s[i] = "@" /\ \A j \in i+1..Len(s) : s[j] # "@"
             ELSE 0
\* an address as address.Split sees it: local part and domain around the last at-sign, both non-empty
IsEmail(s) == s = Postmaster \/ (LastAt(s) > 1 /\ LastAt(s) < Len(s))
LocalOf(s) == IF s = Postmaster THEN s ELSE SubSeq(s, 1, LastAt(s) - 1)
LpAnswer(optional, key, unquote) ==
  IF IsEmail(key) THEN Ans1(IF unquote THEN Unq(LocalOf(key)) ELSE LocalOf(key), TRUE)
  ELSE IF optional THEN Ans1(key, TRUE) ELSE Ans1(<<>>, FALSE)
InLocalpart == {[tab |-> "localpart", optional |-> o, key |-> k] : o \in BOOLEAN, k \in LpKeys}

(***************************************************************************)
(* table.regexp <pre(.+)post> [replacement...] { full_match,               *)
(* case_insensitive, expand_placeholders } - defaults yes/yes/yes.         *)
(* "If it matches - 'replacement' value is returned with $N placeholders   *)
(* being replaced with corresponding capture groups ... Otherwise, no      *)
(* value is returned.  [replacement] is optional.  If it is not included - *)
(* table.regexp will return the original string."                          *)
(* A replacement is a sequence of tokens: one character, or "$1".          *)
(***************************************************************************)
Lower(c) == IF c = "A" THEN "a" ELSE IF c = "N" THEN "n" ELSE c
LowerS(s) == [i \in 1..Len(s) |-> Lower(s[i])]
EqCI(s, t, ci) == IF ci THEN LowerS(s) = LowerS(t) ELSE s = t
\* all ways key = u \o pre \o x \o post \o v with x non-empty
Decomps(key, pre, post, ci) ==
  {d \in [u : 0..Len(key), x : 1..Len(key)] :
     /\ d.u + Len(pre) + d.x + Len(post) <= Len(key)
     /\ EqCI(SubSeq(key, d.u + 1, d.u + Len(pre)), pre, ci)
     /\ EqCI(SubSeq(key, d.u + Len(pre) + d.x + 1, d.u + Len(pre) + d.x + Len(post)), post, ci)}
\* the match of pre(.+)post: whole key when anchored; else leftmost start, then the longest group
Match(key, pre, post, full, ci) ==
  LET ds == Decomps(key, pre, post, ci)
      fs == {d \in ds : d.u = 0 /\ Len(pre) + d.x + Len(post) = Len(key)}
      cand == IF full THEN fs ELSE ds
  IN IF cand = {} THEN [hit |-> FALSE, g |-> <<>>]
     ELSE LET u0 == CHOOSE u \in {d.u : d \in cand} : \A d \in cand : u <= d.u
              x0 == CHOOSE x \in {d.x : d \in {e \in cand : e.u = u0}} : \A d \in {e \in cand : e.u = u0} : d.x <= x
          IN [hit |-> TRUE, g |-> SubSeq(key, u0 + Len(pre) + 1, u0 + Len(pre) + x0)]
Expand(tpl, g, expand) ==
  Cat([i \in 1..Len(tpl) |-> IF tpl[i] = "$1" THEN (IF expand THEN g ELSE <<"$", "1">>) ELSE <<tpl[i]>>])
RxPre == {<<>>, <<"a">>}
RxPost == {<<>>, <<"@", "n">>}
RxRepl == {<<>>, << <<"$1", "@", "m">> >>, << <<"r">>, <<"$1", "$1">> >>}
RxKeys == {<<"a">>, <<"a", "b">>, <<"A", "b">>, <<"a", "b", "@", "n">>, <<"a", "b", "@", "N">>, <<"b", "a", "c", "@", "n", "@", "n">>,
           <<"b", "@", "n">>, <<"@", "n">>, <<"x", "a", "b", "@", "n", "y">>, <<>>}
\* dname: how the expand option is spelled in the configuration: "" (not given), "doc" (expand_placeholders,
\* as documented), "code" (expand_replaceholders, what the code reads)
InRegexpAll == {[tab |-> "regexp", pre |-> p, post |-> q, repl |-> r, full |-> f, ci |-> c, expand |-> e, dname |-> dn, key |-> k] :
                  p \in RxPre, q \in RxPost, r \in RxRepl, f \in BOOLEAN, c \in BOOLEAN, e \in BOOLEAN,
                  dn \in {"", "doc", "code"}, k \in RxKeys}
InRegexp == {i \in InRegexpAll : i.dname # "" \/ i.expand}      \* the default of the option is yes
RegexpAnswer(i, devs) ==
  IF i.dname = "doc" /\ "ExpandDirectiveName" \in devs THEN InitErr
  ELSE LET m == Match(i.key, i.pre, i.post, i.full, i.ci) IN
       IF ~m.hit THEN Ans(<<>>)
       ELSE IF i.repl = <<>> THEN (IF "NoReplNoMatch" \in devs THEN Ans(<<>>) ELSE Ans(<<i.key>>))
       ELSE Ans([j \in 1..Len(i.repl) |-> Expand(i.repl[j], m.g, i.expand)])

(***************************************************************************)
(* table.chain: "step: if input value is not in the table - return 'not    *)
(* exists'"; "optional_step: same, but if input value is not in the table  *)
(* - it is passed to the next step without changes".                       *)
(***************************************************************************)
S1 == << [k |-> A, vs |-> <<B>>], [k |-> B, vs |-> <<C, A>>] >>
S2 == << [k |-> B, vs |-> <<X>>], [k |-> C, vs |-> <<Y>>] >>
Comps == {"S1", "S2", "I", "L", "E"}
\* what one step answers for one key (LookupMulti when the module has it, else Lookup)
CompMulti(c, key, devs) ==
  CASE c = "S1" -> StaticMulti(S1, key)
    [] c = "S2" -> StaticMulti(S2, key)
    [] c = "I"  -> <<key>>
    [] c = "L"  -> LET a == LpAnswer(FALSE, key, "LocalpartNotUnquoted" \notin devs) IN IF a.ok THEN <<a.val>> ELSE <<>>
    [] c = "E"  -> EwdMulti(<<D1>>, key)
ChainKeys == {A, B, C, <<"a", "@", "d">>}
Steps == [c : Comps, opt : BOOLEAN]
InChain == {[tab |-> "chain", steps |-> s, key |-> k] : s \in SeqsUpTo(Steps, MaxSteps), k \in ChainKeys}
\* the code's loop: all values of the previous step are looked up; one miss skips an optional step as a whole
RECURSIVE ChainRun(_, _, _)
ChainRun(steps, vals, devs) ==
  IF steps = <<>> THEN vals
  ELSE LET st == Head(steps)
           rs == [i \in 1..Len(vals) |-> CompMulti(st.c, vals[i], devs)]
           miss == \E i \in 1..Len(vals) : rs[i] = <<>>
       IN IF miss THEN (IF st.opt THEN ChainRun(Tail(steps), vals, devs) ELSE <<>>)
          ELSE ChainRun(Tail(steps), Cat(rs), devs)
\* the documented reading, defined where every step answers with at most one value
RECURSIVE DocChain(_, _)
DocChain(steps, v) ==
  IF steps = <<>> THEN [def |-> TRUE, vals |-> <<v>>]
  ELSE LET st == Head(steps)  r == CompMulti(st.c, v, {}) IN
       IF Len(r) > 1 THEN [def |-> FALSE, vals |-> <<>>]
       ELSE IF r = <<>> THEN (IF st.opt THEN DocChain(Tail(steps), v) ELSE [def |-> TRUE, vals |-> <<>>])
       ELSE DocChain(Tail(steps), r[1])

(***************************************************************************)
(* table.file syntax (docs/reference/table/file.md).  A file is a sequence *)
(* of line kinds; keys and values are plain strings here.                  *)
(***************************************************************************)
LineKinds == {"kv", "kv2", "ws", "other", "comment", "empty", "blank", "nocolon", "novalue", "nokey",
              "icomment", "colonval", "crlf", "emptyval"}
\* [skip, err, k, vs]
LineSem(kind, devs) ==
  CASE kind = "kv"       -> [skip |-> FALSE, err |-> FALSE, k |-> "a", vs |-> <<"b">>]             \* a: b
    [] kind = "kv2"      -> [skip |-> FALSE, err |-> FALSE, k |-> "a", vs |-> <<"c", "d">>]        \* a: c, d
    [] kind = "ws"       -> [skip |-> FALSE, err |-> FALSE, k |-> "a", vs |-> <<"e">>]             \* "  a  :  e  "
    [] kind = "other"    -> [skip |-> FALSE, err |-> FALSE, k |-> "d", vs |-> <<"f">>]             \* d: f
    [] kind = "comment"  -> [skip |-> TRUE, err |-> FALSE, k |-> "", vs |-> <<>>]                  \* # a: x
    [] kind = "empty"    -> [skip |-> TRUE, err |-> FALSE, k |-> "", vs |-> <<>>]
    [] kind = "blank"    -> [skip |-> TRUE, err |-> FALSE, k |-> "", vs |-> <<>>]                  \* "   "
    [] kind = "nocolon"  -> [skip |-> FALSE, err |-> FALSE, k |-> "a", vs |-> <<"">>]              \* a
    [] kind = "novalue"  -> [skip |-> FALSE, err |-> FALSE, k |-> "a", vs |-> <<"">>]              \* a:
    [] kind = "nokey"    -> [skip |-> FALSE, err |-> TRUE, k |-> "", vs |-> <<>>]                  \* : b
    [] kind = "icomment" -> IF "IndentedCommentIsKey" \in devs                                      \* "\t# a: x"
                            THEN [skip |-> FALSE, err |-> FALSE, k |-> "# a", vs |-> <<"x">>]
                            ELSE [skip |-> TRUE, err |-> FALSE, k |-> "", vs |-> <<>>]
    [] kind = "colonval" -> [skip |-> FALSE, err |-> FALSE, k |-> "d", vs |-> <<"g:h">>]           \* d: g:h  (from the code)
    [] kind = "crlf"     -> [skip |-> FALSE, err |-> FALSE, k |-> "d", vs |-> <<"i">>]             \* d: i<CR>
    [] kind = "emptyval" -> [skip |-> FALSE, err |-> FALSE, k |-> "d", vs |-> <<"j", "", "k">>]    \* d: j,,k (from the code)
FileKeys == {"a", "d", "# a"}
RECURSIVE FileVals(_, _, _)
FileVals(lines, key, devs) ==
  IF lines = <<>> THEN <<>>
  ELSE LET s == LineSem(Head(lines), devs) IN
       (IF ~s.skip /\ s.k = key THEN s.vs ELSE <<>>) \o FileVals(Tail(lines), key, devs)
FileAnswer(i, devs) ==
  IF \E j \in 1..Len(i.lines) : LineSem(i.lines[j], devs).err THEN InitErr     \* "No changes are applied if file contains syntax errors"
  ELSE LET vs == FileVals(i.lines, i.key, devs) IN
       [init |-> "ok", hasMulti |-> TRUE, multi |-> vs, val |-> IF vs = <<>> THEN "" ELSE vs[1], ok |-> vs # <<>>]
\* nonl: the last line has no line terminator
InFile == {[tab |-> "file", lines |-> l, key |-> k, nonl |-> n] :
             l \in SeqsUpTo(LineKinds, MaxLines), k \in FileKeys, n \in BOOLEAN}

(***************************************************************************)
(* Rule, RuleD, Viol                                                       *)
(***************************************************************************)
RuleWith(i, devs) ==
  CASE i.tab = "static"    -> Ans(StaticMulti(i.entries, i.key))
    [] i.tab = "identity"  -> Ans1(i.key, TRUE)
    [] i.tab = "ewd"       -> Ans(EwdMulti(i.domains, i.key))
    [] i.tab = "localpart" -> LpAnswer(i.optional, i.key, "LocalpartNotUnquoted" \notin devs)
    [] i.tab = "regexp"    -> RegexpAnswer(i, devs)
    [] i.tab = "chain"     -> Ans(ChainRun(i.steps, <<i.key>>, devs))
    [] i.tab = "file"      -> FileAnswer(i, devs)
Rule(i) == RuleWith(i, {})
RuleD(i) == RuleWith(i, Devs)

\* Lookup must be the first value of LookupMulti
Coherent(o) == o.hasMulti => (o.ok = (o.multi # <<>>) /\ (o.ok => o.val = o.multi[1]))

Viol(i, o) ==
  LET r == Rule(i)
      P(name, c) == IF c THEN {} ELSE {name}
  IN
  IF o.init = "panic" THEN {"TableCrashed"}
  ELSE IF o.init = "err" THEN P("ConfigRefused", r.init = "err")
  ELSE IF r.init = "err" THEN (IF i.tab = "file" THEN {"BadFileAccepted"} ELSE {})
  ELSE
  P("LookupDisagreesWithMulti", Coherent(o)) \cup
  (CASE i.tab = "static" -> P("StaticWrongEntry", o.multi = r.multi /\ o.ok = r.ok /\ o.val = r.val)
     [] i.tab = "identity" -> P("IdentityChangedKey", o.ok /\ o.val = i.key)
     [] i.tab = "ewd" ->
          \* one address per domain, in order, each the key as local part (quoted if need be) at that domain
          P("EwdWrongExpansion",
            /\ Len(o.multi) = Len(i.domains)
            /\ \A j \in 1..Len(i.domains) :
                 LET ad == o.multi[j]  suffix == <<"@">> \o i.domains[j] IN
                 /\ EndsWith(ad, suffix)
                 /\ LET lp == SubSeq(ad, 1, Len(ad) - Len(suffix)) IN
                      /\ Unq(lp) = i.key
                      /\ (IsQuoted(lp) \/ \A n \in 1..Len(lp) : lp[n] \notin Specials))
     [] i.tab = "localpart" -> P("LocalpartWrong", o.ok = r.ok /\ (o.ok => o.val = r.val))
     [] i.tab = "regexp" ->
          IF i.dname = "code" /\ o.init = "err" THEN {}      \* an undocumented spelling may be refused
          ELSE P("RegexpWrongAnswer", o.multi = r.multi /\ o.ok = r.ok /\ o.val = r.val)
     [] i.tab = "chain" ->
          LET d == DocChain(i.steps, i.key) IN
          IF d.def THEN P("ChainSemantics", o.multi = d.vals /\ o.ok = (d.vals # <<>>)) ELSE {}
     [] i.tab = "file" -> P("FileSyntax", o.multi = r.multi /\ o.ok = r.ok /\ o.val = r.val))

Same(o, r) == o.init = r.init /\ (o.init = "ok" => (o.hasMulti = r.hasMulti /\ o.multi = r.multi /\ o.val = r.val /\ o.ok = r.ok))

Init ==
  \/ ("static" \in Tabs /\ in \in InStatic)
  \/ ("identity" \in Tabs /\ in \in {[tab |-> "identity", key |-> k] : k \in {A, <<>>, <<"u", "@", "d">>}})
  \/ ("ewd" \in Tabs /\ in \in InEwd)
  \/ ("localpart" \in Tabs /\ in \in InLocalpart)
  \/ ("regexp" \in Tabs /\ in \in InRegexp)
  \/ ("chain" \in Tabs /\ in \in InChain)
  \/ ("file" \in Tabs /\ in \in InFile)
Next == FALSE /\ UNCHANGED in
Spec == Init /\ [][Next]_in

\* the documented rule satisfies the property; the multi-valued chain loop agrees with the documented reading
RuleSatisfiesProp == Viol(in, Rule(in)) = {}
\* with the deviations of HEAD the property fails on some row (non-vacuity; expected to be violated)
AsIsSatisfiesProp == Viol(in, RuleD(in)) = {}

Emit == Gen => PrintT(<<"ROW", ToJson([in |-> in, exp |-> Rule(in)])>>)
=============================================================================
