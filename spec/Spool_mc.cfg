SPECIFICATION Spec
CONSTANTS
  Rcpts = {"r1", "r2"}
  HdrShapes = {"plain", "folded", "dup", "8bit", "long", "huge", "emptyval"}
  BodyShapes = {"small", "empty", "binary", "large"}
  Senders = {"null", "ascii", "idn", "quoted"}
  Auths = {"none", "auth-trace", "auth-notrace"}
  MaxSteps = 4
  MaxRestarts = 2
  Devs = {}
  Gen = FALSE
VIEW View
INVARIANT NoViolation
