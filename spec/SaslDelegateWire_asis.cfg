\* X09 as-is (srv): the deviations of the code violate the property
SPECIFICATION Spec
CONSTANTS
  Side = "srv"
  MaxReq = 1
  MaxRep = 2
  Full = FALSE
  Devs = {"UnknownMechPanic", "ParamPanic", "FailThenOk", "FailThenCont", "SrvTempLost"}
  Gen = FALSE
INVARIANTS AsIsSatisfiesProp
CHECK_DEADLOCK FALSE
