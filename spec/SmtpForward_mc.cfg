\* reference configuration (bin/check X20 generates its configurations from lib/checks/x20.py): exhaustive, deviations off (mc-select of the quick tier)
SPECIFICATION Spec
CONSTANTS
  Kinds = {"smtp", "lmtp"}
  Schemes = {"tcp", "tls", "unix"}
  MaxEp = 2
  Outs = {"refuse", "gdrop", "g4", "g5", "notls", "stls4", "hsfail", "badcert", "up"}
  StlsDirs = {"dflt", "no"}
  RtlsDirs = {"none"}
  Auths = {"off", "plain"}
  Srcs = {"auth"}
  AuthRs = {"ok", "rej5"}
  MailRs = {"ok", "t4", "p5", "drop"}
  RcptRs = {"ok", "p5"}
  BodyRs = {"ok", "d4", "dot5"}
  MaxRcpt = 2
  Devs = {}
  Gen = FALSE
VIEW View
INVARIANTS NoViolation TypeOK
CHECK_DEADLOCK FALSE

