----------------------------- MODULE SessionObs -----------------------------
(***************************************************************************)
(* Observation state and property predicates of an SMTP/LMTP session       *)
(* (property C03).  Everything here is a pure function of the events      *)
(* visible at the system's boundaries:                                     *)
(*   - the client socket (commands taken from the wire, replies put on    *)
(*     the wire),                                                          *)
(*   - the module.DeliveryTarget boundary below the message pipeline      *)
(*     (every call with its result; the scripted target is a typestate    *)
(*     monitor and reports whether the delivery object was already        *)
(*     closed),                                                            *)
(*   - the permit counters of the endpoint's limits group.                *)
(* The same operators update `obs` in the design spec (Session.tla,       *)
(* checked exhaustively by TLC) and in the trace spec (SessionTrace.tla,  *)
(* fed with events recorded from the real endpoint).                      *)
(*                                                                         *)
(* Predicates (names collected in obs.viol):                               *)
(*  UseAfterClose              AddRcpt/Body/Commit/Abort on a delivery    *)
(*                             that was already committed or aborted      *)
(*  DeliveryOpenAtSessionEnd   a delivery neither committed nor aborted   *)
(*                             when the session has ended                 *)
(*  OkReplyNotCommitted        2xx to DATA/BDAT LAST but the target of    *)
(*                             an accepted recipient was not committed    *)
(*  OkReplyBodyNotDelivered    2xx but such a target did not accept Body  *)
(*  FailedBeforeCommitButCommitted  failure reply, no Commit call failed, *)
(*                             yet some target was committed   (SMTP)     *)
(*  LmtpOkReplyButTargetFailed   LMTP: 2xx for a recipient whose target   *)
(*                             reported a failure for it / not committed  *)
(*  LmtpFailReplyWithoutFailure  LMTP: 4xx/5xx for a recipient although   *)
(*                             nothing failed (weak reading, DESIGN 2.5)  *)
(*  PermitHeldOutsideTransaction permits in use when the next command is  *)
(*                             taken while no transaction is in progress  *)
(*                             (after DATA / RSET / EHLO, or a refused    *)
(*                             MAIL following one of them)                *)
(*  PermitHeldAtSessionEnd     permits in use after the session ended     *)
(*  PermitOverReturned         the session returned a permit it had not   *)
(*                             taken (another holder's release refused)   *)
(*  CommittedWithoutBody       Commit succeeded on a target that was never *)
(*                             handed the body in this transaction (a     *)
(*                             transaction refused before the commit step *)
(*                             is committed to no target)                 *)
(*  CommittedAfterCutData      Commit succeeded on a target although the   *)
(*                             client's connection ended inside DATA,     *)
(*                             before the final dot: a transaction        *)
(*                             without a completed DATA is committed to   *)
(*                             no target                                  *)
(*  ServerCrash                the server process died (panic outside any *)
(*                             recover): every open delivery is lost      *)
(***************************************************************************)
EXTENDS Naturals, Sequences, FiniteSets

AllTargets == {"T1", "T2", "T3"}
AllRcpts == {"ra", "rb", "rc"}

\* replies that refuse the command without touching the transaction
SeqCodes == {500, 501, 502, 503}

NoTx == [ acc  |-> <<>>,                                  \* accepted recipients: [r, tg]
          body |-> [t \in AllTargets |-> "none"],         \* none | ok | fail | na (per-recipient statuses)
          st   |-> [t \in AllTargets |-> [r \in AllRcpts |-> "none"]],
          com  |-> [t \in AllTargets |-> "none"] ]

\* base: permits of each scope held by other sessions (cfg.hold: for the whole conversation;
\* ObsEnv: taken and returned in between)
ObsInit(lmtp, base) ==
  [ lmtp  |-> lmtp,
    base  |-> base,
    open  |-> [t \in AllTargets |-> 0],
    cmd   |-> [v |-> "", a |-> "", r |-> ""],
    quiet |-> TRUE,       \* no transaction in progress: before MAIL, after DATA / RSET / EHLO
    pend  |-> {},
    tx    |-> NoTx,
    reps  |-> <<>>,       \* reply classes of the current DATA / BDAT LAST
    done  |-> FALSE,      \* the current command completed a transaction
    viol  |-> {} ]

V(o, c, name) == IF c THEN o ELSE [o EXCEPT !.viol = @ \cup {name}]

TxTargets(tx) == UNION {tx.acc[i].tg : i \in 1..Len(tx.acc)}

Succeeded(tx, t, r) == tx.body[t] = "ok" \/ (tx.body[t] = "na" /\ tx.st[t][r] = "ok")
FailedFor(tx, t, r) == tx.body[t] = "fail" \/ (tx.body[t] = "na" /\ tx.st[t][r] = "fail")
BadMessage(a) == a \in {"loop", "hdr", "chk", "cut"}

\* evaluated when the command after DATA is taken from the wire / the session ends:
\* only then has the server finished everything it does for the transaction
Settle(o) ==
  IF ~o.done THEN o
  ELSE LET tx == o.tx
           n  == Len(tx.acc)
           okI(i)  == \A t \in tx.acc[i].tg : Succeeded(tx, t, tx.acc[i].r) /\ tx.com[t] = "ok"
           badI(i) == \/ BadMessage(o.cmd.a)
                      \/ \E t \in tx.acc[i].tg : FailedFor(tx, t, tx.acc[i].r)
                      \/ \E t \in AllTargets : tx.com[t] = "fail"
           o1 == IF o.lmtp /\ Len(o.reps) = n /\ n > 0
                 THEN LET o2 == V(o, \A i \in 1..n : o.reps[i] = 2 => okI(i), "LmtpOkReplyButTargetFailed")
                      IN V(o2, \A i \in 1..n : o.reps[i] # 2 => badI(i), "LmtpFailReplyWithoutFailure")
                 ELSE o
       IN [o1 EXCEPT !.done = FALSE, !.quiet = TRUE, !.tx = NoTx, !.reps = <<>>]

ObsPermits(o0, all, ip, src) ==
  LET o == Settle(o0)
  IN V(o, ~o.quiet \/ (all = o.base /\ ip = o.base /\ src = o.base), "PermitHeldOutsideTransaction")

ObsCmd(o0, v, a, r) ==
  LET o == Settle(o0)
  IN [o EXCEPT !.cmd = [v |-> v, a |-> a, r |-> r], !.pend = {}, !.reps = <<>>]

\* ts: "ok" | "closed" - reported by the delivery object itself
ObsTgt(o, t, op, r, res, st, ts) ==
  LET o1 == V(o, ts = "ok", "UseAfterClose")
      dec(x) == IF x > 0 THEN x - 1 ELSE 0
  IN CASE op = "start"  -> IF res = "ok" THEN [o1 EXCEPT !.open[t] = @ + 1] ELSE o1
       [] op = "rcpt"   -> IF res = "ok" THEN [o1 EXCEPT !.pend = @ \cup {t}] ELSE o1
       [] op = "body"   -> [o1 EXCEPT !.tx.body[t] = IF res = "ok" THEN "ok" ELSE "fail"]
       [] op = "bodyNA" -> [o1 EXCEPT !.tx.body[t] = "na",
                                      !.tx.st[t] = [x \in AllRcpts |->
                                           IF x \in DOMAIN st THEN (IF st[x] = "ok" THEN "ok" ELSE "fail")
                                           ELSE "none"]]
       [] op = "commit" -> LET o3 == V(o1, res # "ok" \/ o.tx.body[t] # "none", "CommittedWithoutBody")
                               o2 == V(o3, res # "ok" \/ ~(o.cmd.v = "DATA" /\ o.cmd.a = "cut"), "CommittedAfterCutData")
                           IN [o2 EXCEPT !.tx.com[t] = IF res = "ok" THEN "ok" ELSE "fail",
                                         !.open[t] = IF ts = "ok" THEN dec(@) ELSE @]
       [] op = "abort"  -> [o1 EXCEPT !.open[t] = IF ts = "ok" THEN dec(@) ELSE @]
       [] OTHER -> o1

IsFinalData(o, code) ==
  /\ code \notin SeqCodes
  /\ \/ o.cmd.v = "DATA"
     \/ o.cmd.v = "BDAT" /\ (o.cmd.a = "last" \/ code \div 100 # 2)

ObsReply(o, code) ==
  LET cls == code \div 100 IN
  IF o.cmd.v = "MAIL" /\ cls = 2 THEN [o EXCEPT !.quiet = FALSE, !.tx = NoTx]
  ELSE IF o.cmd.v = "RCPT" /\ cls = 2
       THEN [o EXCEPT !.quiet = FALSE,
                      !.tx.acc = Append(@, [r |-> o.cmd.r, tg |-> o.pend])]
  ELSE IF o.cmd.v = "RCPT" /\ code \notin SeqCodes THEN [o EXCEPT !.quiet = FALSE]
  ELSE IF o.cmd.v \in {"RSET", "HELO"} /\ cls = 2 THEN [o EXCEPT !.quiet = TRUE, !.tx = NoTx]
  ELSE IF IsFinalData(o, code)
       THEN IF o.lmtp
            THEN [o EXCEPT !.reps = Append(@, cls), !.done = TRUE]
            ELSE LET tg == TxTargets(o.tx)
                     o1 == IF cls = 2
                           THEN LET o2 == V(o, \A t \in tg : o.tx.com[t] = "ok", "OkReplyNotCommitted")
                                IN V(o2, \A t \in tg : o.tx.body[t] = "ok", "OkReplyBodyNotDelivered")
                           ELSE V(o, (\A t \in AllTargets : o.tx.com[t] # "ok")
                                     \/ (\E t \in AllTargets : o.tx.com[t] = "fail"),
                                  "FailedBeforeCommitButCommitted")
                 IN [o1 EXCEPT !.done = TRUE]
  ELSE o

\* open: [AllTargets -> Nat] as counted by the targets themselves
ObsEnd(o0, open, all, ip, src) ==
  LET o  == Settle(o0)
      o1 == V(o, \A t \in AllTargets : open[t] = 0, "DeliveryOpenAtSessionEnd")
  IN V(o1, all = o.base /\ ip = o.base /\ src = o.base, "PermitHeldAtSessionEnd")

\* held: what happened when the other session of cfg.hold gave its own permits back after the
\* session under test had ended ("none": there is no such session; "ok"; "panic": the limiter refused
\* the release as mismatched, i.e. the session under test had returned a permit it never took)
ObsHeld(o, held) == V(o, held # "panic", "PermitOverReturned")

\* an event of the environment at the limits group (Session!EnvStep): another session takes /
\* returns one permit of every scope; time passing and other keys coming and going change nothing
ObsEnv(o, k) == CASE k = "peer+" -> [o EXCEPT !.base = @ + 1]
                  [] k = "peer-" -> [o EXCEPT !.base = IF @ > 0 THEN @ - 1 ELSE 0]
                  [] OTHER -> o

ObsCrash(o) == V(o, FALSE, "ServerCrash")
=============================================================================
